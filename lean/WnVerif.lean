import WnVerif.Model.Graph
import WnVerif.Model.Sim
import WnVerif.Model.Ic
