import WnVerif.Drv.Util
import WnVerif.Model.Graph
import WnVerif.Model.Sim
import WnVerif.Model.Ic
open Lean
namespace WnVerif.Drv
open WnVerif.Graph WnVerif.Sim

def jN : N → Json
  | none => jInt (-1)
  | some i => jNat i
def jNs (l : List N) : Json := jArr (l.map jN)
def jRes : Res Rat → Json
  | .ok q => jRat q
  | .error => jStr "error"

/-- everything `wn.taxonomy` / `wn.similarity.path,wup,lch` says about one graph -/
def opGraph (j : Json) : Json :=
  let n := getNat j "n"
  let hyp := lookupAdj ((getArr j "hyp").map natList)
  let hypo := lookupAdj ((getArr j "hypo").map natList)
  let pos := lookupStr (strList ((j.getObjVal? "pos").toOption.getD (Json.arr #[])))
  let lchD := getNat j "lchD"
  let fuel := n + 1
  let nodes := List.range n
  let poss := dedup (nodes.map pos)
  let perRoot (sim : Bool) : Json :=
    jObj [
      ("paths", jArr (nodes.map fun x => jArr ((hypPaths hyp fuel (some x) sim false).map jNs))),
      ("min", jNats (nodes.map fun x => minDepth hyp fuel x sim)),
      ("max", jNats (nodes.map fun x => maxDepth hyp fuel (some x) sim)),
      ("pairs", jArr (nodes.flatMap fun a => nodes.map fun b =>
        jObj [
          ("common", jNs (commonHypernyms hyp fuel (some a) (some b) sim)),
          ("lowest", jNs (lowestCommonHypernyms hyp fuel (some a) (some b) sim)),
          ("sp", match shortestPath hyp fuel (some a) (some b) sim with
                 | none => jStr "error" | some p => jNs p),
          ("path", jRes (Sim.path hyp fuel pos a b sim)),
          ("wup", jRes (Sim.wup hyp fuel pos a b sim)),
          ("lch", jRes (Sim.lch hyp fuel pos a b lchD sim))]))]
  jObj [
    ("noroot", perRoot false),
    ("root", perRoot true),
    ("closure", jArr (nodes.map fun x => match closure hyp n x with
        | some l => jNats l | none => jStr "fuel")),
    ("roots", jObj (poss.map fun p => (p, jNats (roots hyp n pos p)))),
    ("leaves", jObj (poss.map fun p => (p, jNats (leaves hypo n pos p)))),
    ("depth", jObj (poss.map fun p => (p, jNat (taxonomyDepth hyp fuel n pos p)))),
    ("chain", jObj (poss.map fun p => (p, jNat (longestChain hyp fuel n pos p))))]

/-- `wn.ic.compute` plus the LCS choice of res/jcn/lin -/
def opIc (j : Json) : Json :=
  let n := getNat j "n"
  let hyp := lookupAdj ((getArr j "hyp").map natList)
  let pos := lookupStr (strList ((j.getObjVal? "pos").toOption.getD (Json.arr #[])))
  let words := (getArr j "words").map fun w =>
    match asList w with
    | [c, s] => (asNat c, natList s)
    | _ => (0, [])
  let sm := match getArr j "smoothing" with
    | [a, b] => (asNat a : Rat) / (asNat b : Rat)
    | _ => 1
  let ratOf (x : Json) : Rat := match asList x with
    | [a, b] => ((a.getInt?.toOption).getD 0 : Rat) / (asNat b : Rat)
    | _ => 0
  let fr : Ic.Freq :=
    if has j "weights" then
      let ws := (getArr j "weights").map ratOf
      let tot := (j.getObjVal? "totals").toOption.getD (Json.mkObj [])
      { node := fun i => ws.getD i 0, total := fun p => ratOf ((tot.getObjVal? p).toOption.getD Json.null) }
    else Ic.compute hyp n pos (getBool j "distribute") sm words
  let nodes := List.range n
  jObj [
    ("node", jArr (nodes.map fun i => jRat (fr.node i))),
    ("total", jObj (["n", "v", "a", "r"].map fun p => (p, jRat (fr.total p)))),
    ("lcs", jArr (nodes.flatMap fun a => nodes.map fun b =>
      match mostInformativeLcs hyp (n + 1) fr.node a b with
      | none => jInt (-1) | some c => jNat c))]

end WnVerif.Drv
