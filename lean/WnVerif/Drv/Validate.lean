import WnVerif.Drv.DocJson
import WnVerif.Drv.Store
import WnVerif.Model.Validate
open Lean
namespace WnVerif.Drv
open WnVerif.Validate

def jVal : Val → Json
  | .str s => jStr s
  | .num n => jNat n
  | .ilidef d => jObj [("text", jStr d.text), ("meta", match d.md with | some m => Json.mkObj (m.map fun (k, v) => (k, jStr v)) | none => Json.null)]

def opValidate (j : Json) : Json :=
  let l := decLexicon ((j.getObjVal? "lex").toOption.getD Json.null)
  let sel := strList ((j.getObjVal? "select").toOption.getD (Json.arr #[]))
  jObj ((validate l sel).map fun (code, res) =>
    (code, jObj (res.map fun (k, ctx) => (k, jObj (ctx.map fun (a, v) => (a, jVal v))))))

end WnVerif.Drv
