/- Driver ops on the relational store model: scenarios of add / remove / add-ili / observe. -/
import WnVerif.Drv.DocJson
import WnVerif.Model.Add
import WnVerif.Model.Remove
import WnVerif.Model.Api
import WnVerif.Model.Morphy
import WnVerif.Model.Txn
import WnVerif.Model.Export
import WnVerif.Drv.Lmf
open Lean
namespace WnVerif.Drv
open WnVerif.Db WnVerif.Doc

def jMeta : Option Meta → Json
  | none => Json.mkObj []
  | some m => Json.mkObj (m.map fun (k, v) => (k, jStr v))   -- get_metadata() returns `or {}`

def jOpt : Option String → Json
  | none => Json.null
  | some s => jStr s

def jBool (b : Bool) : Json := Json.bool b

structure Env where
  db : Db
  norm : String → String

def jRel (r : RelObs) : Json :=
  jArr [jStr r.name, jStr r.sourceId, jStr r.targetId, jStr r.lexicon, jMeta r.md]

def jSynRef (db : Db) (s : SynsetData) : Json :=
  jArr [jStr (lexSpec db s.lex), jStr s.id, jOpt s.ili]
def jSenseRef (db : Db) (s : SenseData) : Json := jArr [jStr (lexSpec db s.lex), jStr s.id]
def jWordRef (db : Db) (s : WordData) : Json := jArr [jStr (lexSpec db s.lex), jStr s.id]

def metaOf (md : Option Meta) : Json := jMeta md

def obsForm (db : Db) (f : FormData) : Json :=
  jObj [("form", jStr f.form), ("id", jOpt f.id), ("script", jOpt f.script),
        ("tags", jArr ((formTags db f.rowid).map fun t => jArr [jStr t.tag, jStr t.category])),
        ("prons", jArr ((formProns db f.rowid).map fun p =>
          jArr [jStr p.value, jOpt p.variety, jOpt p.notat, jBool p.phonemic, jOpt p.audio]))]

def entryMeta (db : Db) (rowid : Nat) : Option Meta :=
  match db.entries.find? (fun e => e.rowid == rowid) with | some e => e.md | none => none
def senseRowOf (db : Db) (rowid : Nat) : Option RSense := db.senses.find? (fun e => e.rowid == rowid)
def synsetRowOf (db : Db) (rowid : Nat) : Option RSynset := db.synsets.find? (fun e => e.rowid == rowid)

def obsWord (db : Db) (w : Wordnet) (x : WordData) : Json :=
  jObj [("id", jStr x.id), ("lexicon", jStr (lexSpec db x.lex)), ("pos", jStr x.pos),
        ("forms", jArr (x.forms.map (obsForm db))),
        ("meta", metaOf (entryMeta db x.rowid)),
        ("senses", jArr ((wordSenses db w x).map (jSenseRef db)))]

def obsIli (db : Db) (s : SynsetData) : Json :=
  -- `Synset.ili`: find_ilis(id=_ili) (no lexicon filter) or the proposed ILI of the synset
  match s.ili with
  | some i =>
    if i == "" then Json.null else
    (match (findIlis db (some i) none []).head? with
     | some d => jObj [("id", jOpt d.id), ("status", jStr d.status), ("definition", jOpt d.definition),
                       ("meta", jMeta ((db.ilis.find? (fun r => r.rowid == d.rowid)).bind (·.md)))]
     | none => Json.null)
  | none =>
    match db.pilis.find? (fun p => p.synset == s.rowid) with
    | some p => jObj [("id", Json.null), ("status", jStr "proposed"), ("definition", jOpt p.definition),
                      ("meta", jMeta p.md)]
    | none => Json.null

def obsSense (db : Db) (w : Wordnet) (s : SenseData) : Json :=
  let lexids := entityLexids db w s.lex
  let row := senseRowOf db s.rowid
  jObj [("id", jStr s.id), ("lexicon", jStr (lexSpec db s.lex)),
        ("word", match senseWord db w s with | some x => jWordRef db x | none => jStr "error"),
        ("synset", match senseSynset db w s with | some x => jSynRef db x | none => jStr "error"),
        ("examples", jStrs ((senseExamples db s.rowid lexids).map (·.text))),
        ("counts", jArr ((senseCounts db s.rowid lexids).map fun c => jArr [jInt c.value, jMeta c.md])),
        ("frames", jStrs (senseFrames db s.rowid lexids)),
        ("adjposition", jOpt (adjposition db s.rowid)),
        ("lexicalized", jBool ((row.map (·.lexicalized)).getD false)),
        ("meta", metaOf (row.bind (·.md))),
        ("relations", jArr ((relationMap (senseIterRelations db w s [])).map fun p => jArr [jRel p.1, jSenseRef db p.2])),
        ("synset_relations", jArr ((senseIterSynsetRelations db w s []).map fun p => jArr [jStr p.1.name, jSynRef db p.2]))]

def obsSynset (db : Db) (w : Wordnet) (s : SynsetData) : Json :=
  let lexids := entityLexids db w s.lex
  let row := synsetRowOf db s.rowid
  jObj [("id", jStr s.id), ("lexicon", jStr (lexSpec db s.lex)), ("pos", jStr s.pos),
        ("ili", obsIli db s),
        ("definition", jOpt (((definitions db s.rowid lexids).head?).map (·.1))),
        ("examples", jStrs ((synsetExamples db s.rowid lexids).map (·.text))),
        ("lexfile", jOpt (lexfileOf db s.rowid)),
        ("lexicalized", jBool ((row.map (·.lexicalized)).getD false)),
        ("meta", metaOf (row.bind (·.md))),
        ("members", jArr ((synsetSenses db w s).map (jSenseRef db))),
        ("relations", jArr ((relationMap (synsetIterRelations db w s [])).map fun p => jArr [jRel p.1, jSynRef db p.2]))]

def obsLexicon (db : Db) (l : RLexicon) : Json :=
  let n := db.lexicons.length + 1
  jObj [("id", jStr l.id), ("label", jStr l.label), ("language", jStr l.language), ("email", jStr l.email),
        ("license", jStr l.license), ("version", jStr l.version), ("url", jOpt l.url),
        ("citation", jOpt l.citation), ("logo", jOpt l.logo), ("meta", jMeta l.md),
        ("requires", jArr ((db.deps.filter (fun d => d.dependent == l.rowid)).map fun d =>
          jArr [jStr (d.pid ++ ":" ++ d.pver), jOpt (d.provider.map (lexSpec db))])),
        ("extends", jOpt ((basesOf db 1 l.rowid).head?.map (lexSpec db))),
        ("extensions", jStrs ((extensionsOf db 1 l.rowid).map (lexSpec db))),
        ("all_extensions", jStrs ((extensionsOf db n l.rowid).map (lexSpec db)))]

/-- the full observation of one scope (a Wordnet) -/
def obsScope (env : Env) (w : Wordnet) : Json :=
  let db := env.db
  jObj [("words", jArr ((words db w env.norm none none none).map (obsWord db w))),
        ("senses", jArr ((senses db w env.norm none none none).map (obsSense db w))),
        ("synsets", jArr ((synsets db w env.norm none none none none).map (obsSynset db w))),
        ("ilis", jArr ((findIlis db none none w.lexids).map fun d =>
          jArr [jOpt d.id, jStr d.status, jOpt d.definition]))]

/-- extra per-synset observations for relation / expansion properties -/
def obsSynsetX (db : Db) (w : Wordnet) (s : SynsetData) : Json :=
  let n := db.synsets.length + 2
  let hyp : List String := ["hypernym", "instance_hypernym"]
  jObj [("ref", jSynRef db s),
        ("get_related", jArr ((synsetGetRelated db w s []).map (jSynRef db))),
        ("hypernyms", jArr ((synsetGetRelated db w s hyp).map (jSynRef db))),
        ("relations", jObj ((synsetRelationsMap db w s []).map fun p => (p.1, jArr (p.2.map (jSynRef db))))),
        ("by_type", jObj ((synsetRelationsMap db w s []).map fun p =>
          (p.1, jArr ((synsetGetRelated db w s [p.1]).map (jSynRef db))))),
        ("translate", jObj (db.lexicons.map fun l =>
          (l.id ++ ":" ++ l.version, match synsetTranslate db s (some (l.id ++ ":" ++ l.version)) none with
            | some ts => jArr (ts.map (jSynRef db)) | none => jStr "error"))),
        ("closure_hypernym", jArr ((synsetClosure db w s hyp n).map (jSynRef db))),
        ("hypernym_paths", jArr ((synsetRelationPaths db w s hyp n).map fun p => jArr (p.map (jSynRef db))))]

def obsSenseX (db : Db) (w : Wordnet) (s : SenseData) : Json :=
  jObj [("ref", jSenseRef db s),
        ("get_related", jArr ((senseGetRelated db w s []).map (jSenseRef db))),
        ("get_related_synsets", jArr ((senseGetRelatedSynsets db w s []).map (jSynRef db))),
        ("closure", jArr ((senseClosure db w s [] (db.senses.length + 2)).map (jSenseRef db)))]

def obsScopeX (env : Env) (w : Wordnet) : Json :=
  let db := env.db
  match obsScope env w with
  | .obj kvs =>
    Json.obj ((kvs.insert "synsets_x" (jArr ((synsets db w env.norm none none none none).map (obsSynsetX db w)))).insert
      "senses_x" (jArr ((senses db w env.norm none none none).map (obsSenseX db w))))
  | j => j

/-- observation of every installed lexicon: scope = the lexicon and its (transitive) bases,
no expand lexicons -/
def obsAll (env : Env) : Json :=
  let db := env.db
  let n := db.lexicons.length + 1
  jArr (db.lexicons.map fun l =>
    let w : Wordnet := { lexids := [l.rowid] ++ basesOf db n l.rowid, expids := [], defaultMode := false }
    jObj [("spec", jStr (l.id ++ ":" ++ l.version)), ("lexicon", obsLexicon db l), ("scope", obsScope env w)])

def decIliRows (j : Json) : List IliRow :=
  (getArr j "rows").map fun r => { ili := getStr r "ili", status := optStr r "status", definition := optStr r "definition" }

def stepStore (env : Env) (op : Json) (defaultRank : Nat) : Env × Json :=
  match getStr op "k" with
  | "add" =>
    let r := decResource ((op.getObjVal? "res").toOption.getD Json.null)
    let (db', ok) := addResourceOrKeep env.norm defaultRank env.db r
    ({ env with db := db' }, jObj [("ok", jBool ok)])
  | "remove" =>
    (match Glob.findLexicons env.db (getStr op "spec") none with
     | none => (env, jObj [("ok", jBool false)])
     | some rows =>
       let db' := rows.foldl (fun db r => if db.lexicons.any (fun x => x.rowid == r.rowid) then removeLexicon db r.rowid else db) env.db
       ({ env with db := db' }, jObj [("ok", jBool true)]))
  | "ili" =>
    let rows := if has op "lines" then parseIli (strList ((op.getObjVal? "lines").toOption.getD Json.null)) else decIliRows op
    ({ env with db := addIli env.db rows }, jObj [("ok", jBool true)])
  | "ilis" =>
    let w : Wordnet := { lexids := env.db.lexicons.map (·.rowid), expids := [], defaultMode := true }
    (env, jObj [("all", jArr ((findIlis env.db none none w.lexids).map fun d => jArr [jOpt d.id, jStr d.status, jOpt d.definition])),
                ("by_id", jObj ((strList ((op.getObjVal? "ids").toOption.getD Json.null)).map fun i =>
                  (i, match (findIlis env.db (some i) none w.lexids).head? with
                      | some d => jArr [jOpt d.id, jStr d.status, jOpt d.definition]
                      | none => jStr "error")))])
  | "obs" => (env, obsAll env)
  | "battery" =>
    (env, match mkWordnet env.db (optStr op "lexicon") (optStr op "lang") (optStr op "expand")
            (getBool op "normalizer" true) (getBool op "all_forms" true) with
      | some w => jObj [("S", jStrs (w.lexids.map (lexSpec env.db))), ("E", jStrs (w.expids.map (lexSpec env.db))),
                        ("missing", jStrs w.missing), ("scope", obsScopeX env w)]
      | none => jStr "error")
  | "find" =>
    (env, match mkWordnet env.db (optStr op "lexicon") (optStr op "lang") (some "")
            (getBool op "normalizer" true) (getBool op "all_forms" true) with
      | none => jStr "error"
      | some w =>
        let db := env.db
        let morphyWords : List Morphy.Word := (words db w env.norm none none none).map fun x =>
          { pos := x.pos, forms := x.forms.map (·.form.toList) }
        let ofMorphy (init : Option (List Morphy.Word)) : String → Option String → LemResult := fun f p =>
          let r := Morphy.call init f.toList p
          (dedupBy id (r.map (·.1))).map fun k => (k, (Morphy.resultFor r k).map String.ofList)
        let lem : Option (String → Option String → LemResult) :=
          match op.getObjVal? "lemmatizer" with
          | .ok (.str "morphy") => some (ofMorphy none)
          | .ok (.str "morphy_init") => some (ofMorphy (some morphyWords))
          | .ok (.obj kvs) => some (fun f _ =>
              match (kvs.toList.find? (fun e => e.1 == f)) with
              | some (_, v) => (asList v).map fun e =>
                  match asList e with
                  | [p, fs] => ((match p with | .str s => some s | _ => none), strList fs)
                  | _ => (none, [])
              | none => [])
          | _ => none
        let form := optStr op "form"
        let pos := optStr op "pos"
        jObj [("words", jArr ((words db w env.norm lem form pos).map (jWordRef db))),
              ("senses", jArr ((senses db w env.norm lem form pos).map (jSenseRef db))),
              ("synsets", jArr ((synsets db w env.norm lem form pos none).map fun y => jArr [jStr (lexSpec db y.lex), jStr y.id]))])
  | "export" =>
    (env, match Glob.findLexicons env.db (getStr op "lexicons") none with
      | none => jStr "no-lexicon"
      | some rows =>
        let v := getStr op "v" "1.0"
        match exportResource env.db rows v with
        | none => jStr "error"
        | some r =>
          match Lmf.loadTree v (Lmf.dumpTree r) with
          | .error e => jObj [("reload_error", jStr e)]
          | .ok r' =>
            match getObj? op "expect" with
            | some e =>
              let want := decResource e
              let same := (eResource r').compress == (eResource want).compress
              jObj [("equal", jBool same), ("model", if same then Json.null else eResource r'),
                    ("impl", if same then Json.null else eResource want)]
            | none => jObj [("model", eResource r')])
  | "lexicons" =>
    (env, match mkWordnet env.db (optStr op "lexicon") (optStr op "lang") none with
      | some w => jStrs (w.lexids.map (lexSpec env.db))
      | none => jStr "error")
  | k => (env, jObj [("bad-op", jStr k)])

/-- `SELECT s GLOB p` for a list of (pattern, string) pairs -/
def opGlob (j : Json) : Json :=
  jArr ((getArr j "cases").map fun c =>
    match asList c with
    | [p, s] => jBool (Glob.globS (asStr p) (asStr s))
    | _ => Json.null)

/-- classification of a recorded SQL statement stream -/
def opTrace (j : Json) : Json :=
  let stmts := strList ((j.getObjVal? "stmts").toOption.getD (Json.arr #[]))
  jObj [("units", match Txn.traceUnits stmts with | some n => jNat n | none => Json.null),
        ("atomic", jBool (Txn.traceAtomic stmts (getNat j "units" 1)))]

def opStore (j : Json) : Json :=
  let table : List (String × String) :=
    match j.getObjVal? "norm" with
    | .ok (.obj kvs) => kvs.toList.map fun (a, b) => (a, asStr b)
    | _ => []
  let norm : String → String := fun s => ((table.find? (fun e => e.1 == s)).map (·.2)).getD s
  let defaultRank := getNat j "defaultRank" 127
  let (_, outs) := (getArr j "ops").foldl (fun (st : Env × List Json) op =>
    let (e, o) := stepStore st.1 op defaultRank
    (e, st.2 ++ [o])) (({ db := Db.empty, norm := norm } : Env), [])
  jArr outs

end WnVerif.Drv
