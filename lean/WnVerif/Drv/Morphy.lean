import WnVerif.Drv.Util
import WnVerif.Model.Morphy
open Lean
namespace WnVerif.Drv
open WnVerif.Morphy

def strOf (l : List Char) : String := String.ofList l

/-- insertion sort of strings, de-duplicated (canonical set rendering) -/
def sortStrs (l : List String) : List String :=
  let ins (a : String) (acc : List String) : List String :=
    let rec go : List String → List String
      | [] => [a]
      | b :: t => if a < b then a :: b :: t else if a == b then b :: t else b :: go t
    go acc
  l.foldr ins []

def opMorphy (j : Json) : Json :=
  let ws : List Word := (getArr j "words").map fun w =>
    match asList w with
    | [p, fs] => { pos := asStr p, forms := (strList fs).map String.toList }
    | _ => { pos := "", forms := [] }
  let init : Option (List Word) := if getBool j "init" then some ws else none
  jArr ((getArr j "queries").map fun q =>
    match asList q with
    | [f, p] =>
      let pos : Option String := match p with | .str s => some s | _ => none
      let r := call init (asStr f).toList pos
      let keys := dedupKeys (r.map (·.1))
      jObj (keys.map fun k =>
        ((match k with | none => "None" | some s => s),
         jStrs (sortStrs ((resultFor r k).map strOf))))
    | _ => Json.null)
where
  dedupKeys : List (Option String) → List (Option String)
    | [] => []
    | a :: t => a :: (dedupKeys t).filter (fun b => !(b == a))

end WnVerif.Drv
