import WnVerif.Drv.DocJson
import WnVerif.Model.Lmf
import WnVerif.Model.LmfScan
open Lean
namespace WnVerif.Drv
open WnVerif.Lmf

partial def jXml : Xml → Json
  | .elem n a t cs => jObj [("name", jStr n), ("attrs", jArr (a.map fun (k, v) => jArr [jStr k, jStr v])),
                            ("text", jStr t), ("children", jArr (cs.map jXml))]

partial def decXml (j : Json) : Xml :=
  .elem (getStr j "name")
    ((getArr j "attrs").map fun e => match asList e with | [k, v] => (asStr k, asStr v) | _ => ("", ""))
    (getStr j "text") ((getArr j "children").map decXml)

/-- `dump`: resource → tree -/
def opDump (j : Json) : Json :=
  jXml (dumpTree (decResource ((j.getObjVal? "res").toOption.getD Json.null)))

/-- `load`: tree → resource, compared inside Lean with the resource the real loader returned -/
def opLoad (j : Json) : Json :=
  let t := decXml ((j.getObjVal? "tree").toOption.getD Json.null)
  match loadTree (getStr j "v") t with
  | .error e => jObj [("ok", Json.bool false), ("error", jStr e)]
  | .ok r =>
    match getObj? j "expect" with
    | some e =>
      let want := decResource e
      -- metadata dictionaries are compared as finite maps: the JSON encoding sorts keys
      let same := (eResource r).compress == (eResource want).compress
      jObj [("ok", Json.bool true), ("equal", Json.bool same),
            ("model", if same then Json.null else eResource r), ("impl", if same then Json.null else eResource want)]
    | none => jObj [("ok", Json.bool true)]

/-- round trip inside the model: `loadTree v (dumpTree r) = r` for this resource? -/
def opRoundtrip (j : Json) : Json :=
  let r := decResource ((j.getObjVal? "res").toOption.getD Json.null)
  match loadTree r.version (dumpTree r) with
  | .ok r' => jObj [("ok", Json.bool true), ("equal", Json.bool ((eResource r').compress == (eResource r).compress))]
  | .error e => jObj [("ok", Json.bool false), ("error", jStr e)]

def opHeader (j : Json) : Json :=
  let l1 := (getStr j "l1").toList
  let l2 := (getStr j "l2").toList
  jObj [("version", jOptStr (LmfScan.readHeader l1 l2)), ("is_lmf", Json.bool (LmfScan.isLmf l1 l2))]

def opScan (j : Json) : Json :=
  match LmfScan.scanLexicons (getStr j "text").toList with
  | none => jStr "error"
  | some infos => jArr (infos.map fun i =>
      jObj [("id", jStr i.id), ("version", jStr i.version), ("label", jOptStr i.label),
            ("extends", match i.ext with | some (a, b) => jArr [jStr a, jStr b] | none => Json.null)])

end WnVerif.Drv
