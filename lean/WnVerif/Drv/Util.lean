import Lean.Data.Json
open Lean
namespace WnVerif.Drv

def getArr (j : Json) (k : String) : List Json :=
  match j.getObjVal? k with
  | .ok (.arr a) => a.toList
  | _ => []
def getNat (j : Json) (k : String) (d : Nat := 0) : Nat :=
  match j.getObjVal? k with
  | .ok v => (v.getNat?.toOption).getD d
  | _ => d
def getInt (j : Json) (k : String) (d : Int := 0) : Int :=
  match j.getObjVal? k with
  | .ok v => (v.getInt?.toOption).getD d
  | _ => d
def getStr (j : Json) (k : String) (d : String := "") : String :=
  match j.getObjVal? k with
  | .ok (.str s) => s
  | _ => d
def getStr? (j : Json) (k : String) : Option String :=
  match j.getObjVal? k with
  | .ok (.str s) => some s
  | _ => none
def getBool (j : Json) (k : String) (d : Bool := false) : Bool :=
  match j.getObjVal? k with
  | .ok (.bool b) => b
  | _ => d
def getObj? (j : Json) (k : String) : Option Json :=
  match j.getObjVal? k with
  | .ok .null => none
  | .ok v => some v
  | _ => none
def has (j : Json) (k : String) : Bool :=
  match j.getObjVal? k with
  | .ok _ => true
  | _ => false

def asNat (j : Json) : Nat := (j.getNat?.toOption).getD 0
def asStr (j : Json) : String := match j with | .str s => s | _ => ""
def asList (j : Json) : List Json := match j with | .arr a => a.toList | _ => []
def natList (j : Json) : List Nat := (asList j).map asNat
def strList (j : Json) : List String := (asList j).map asStr

def jNat (n : Nat) : Json := Json.num (JsonNumber.fromNat n)
def jInt (n : Int) : Json := Json.num (JsonNumber.fromInt n)
def jStr (s : String) : Json := Json.str s
def jArr (l : List Json) : Json := Json.arr l.toArray
def jNats (l : List Nat) : Json := jArr (l.map jNat)
def jStrs (l : List String) : Json := jArr (l.map jStr)
def jRat (q : Rat) : Json := jArr [jInt q.num, jNat q.den]
def jOptStr : Option String → Json
  | none => Json.null
  | some s => jStr s
def jObj (l : List (String × Json)) : Json := Json.mkObj l

def lookupAdj (rows : List (List Nat)) : Nat → List Nat := fun i => rows.getD i []
def lookupStr (rows : List String) : Nat → String := fun i => rows.getD i ""

end WnVerif.Drv
