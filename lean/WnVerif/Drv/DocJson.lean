/- JSON decoding of documents (keys as in the dictionaries `wn.lmf.load` returns). -/
import WnVerif.Drv.Util
import WnVerif.Model.Doc
open Lean
namespace WnVerif.Drv
open WnVerif.Doc

def decMeta (j : Json) (k : String := "meta") : Option Meta :=
  match j.getObjVal? k with
  | .ok (.obj kvs) => some (kvs.toList.map fun (a, b) =>
      (a, match b with | .str s => s | other => other.compress))
  | _ => none

def optStr (j : Json) (k : String) : Option String := getStr? j k
def optBool (j : Json) (k : String) : Option Bool :=
  match j.getObjVal? k with
  | .ok (.bool b) => some b
  | _ => none

def decPron (j : Json) : Pron :=
  { text := getStr j "text", variety := optStr j "variety", notat := optStr j "notation",
    phonemic := optBool j "phonemic", audio := optStr j "audio" }
def decTag (j : Json) : Tag := { text := getStr j "text", category := getStr j "category" }
def decLemma (j : Json) : Lemma :=
  { external := getBool j "external", form := getStr j "writtenForm", pos := getStr j "partOfSpeech",
    script := optStr j "script", prons := (getArr j "pronunciations").map decPron,
    tags := (getArr j "tags").map decTag }
def decForm (j : Json) : Form :=
  { external := getBool j "external", id := optStr j "id", form := getStr j "writtenForm",
    script := optStr j "script", prons := (getArr j "pronunciations").map decPron,
    tags := (getArr j "tags").map decTag }
def decRel (j : Json) : Relation :=
  { target := getStr j "target", relType := getStr j "relType", md := decMeta j }
def decEx (j : Json) : Example :=
  { text := getStr j "text", language := optStr j "language", md := decMeta j }
def decCount (j : Json) : Count := { value := getInt j "value", md := decMeta j }
def decSense (j : Json) : Sense :=
  { external := getBool j "external", id := getStr j "id", synset := getStr j "synset", md := decMeta j,
    relations := (getArr j "relations").map decRel, examples := (getArr j "examples").map decEx,
    counts := (getArr j "counts").map decCount, lexicalized := optBool j "lexicalized",
    adjposition := optStr j "adjposition", subcat := (getArr j "subcat").map asStr }
def decDef (j : Json) : Definition :=
  { text := getStr j "text", language := optStr j "language", sourceSense := optStr j "sourceSense",
    md := decMeta j }
def decSynset (j : Json) : Synset :=
  { external := getBool j "external", id := getStr j "id", ili := getStr j "ili",
    pos := optStr j "partOfSpeech", md := decMeta j,
    iliDef := (getObj? j "ili_definition").map (fun d => { text := getStr d "text", md := decMeta d }),
    definitions := (getArr j "definitions").map decDef, relations := (getArr j "relations").map decRel,
    examples := (getArr j "examples").map decEx, lexicalized := optBool j "lexicalized",
    members := (getArr j "members").map asStr, lexfile := optStr j "lexfile" }
def decFrame (j : Json) : Frame :=
  { id := optStr j "id", frame := getStr j "subcategorizationFrame", senses := (getArr j "senses").map asStr }
def decEntry (j : Json) : Entry :=
  { external := getBool j "external", id := getStr j "id", md := decMeta j,
    lemma := (getObj? j "lemma").map decLemma, forms := (getArr j "forms").map decForm,
    senses := (getArr j "senses").map decSense, frames := (getArr j "frames").map decFrame }
def decDep (j : Json) : Dep := { id := getStr j "id", version := getStr j "version", url := optStr j "url" }
def decLexicon (j : Json) : Lexicon :=
  { id := getStr j "id", version := getStr j "version", label := getStr j "label",
    language := getStr j "language", email := getStr j "email", license := getStr j "license",
    url := optStr j "url", citation := optStr j "citation", logo := optStr j "logo", md := decMeta j,
    ext := (getObj? j "extends").map decDep, requires := (getArr j "requires").map decDep,
    entries := (getArr j "entries").map decEntry, synsets := (getArr j "synsets").map decSynset,
    frames := (getArr j "frames").map decFrame }
def decResource (j : Json) : Resource :=
  { version := getStr j "lmf_version", lexicons := (getArr j "lexicons").map decLexicon }

end WnVerif.Drv

namespace WnVerif.Drv
open WnVerif.Doc

/-! encoding (debugging aid: shown when model and implementation disagree) -/
def eOpt (k : String) (o : Option String) : List (String × Json) := match o with | some s => [(k, jStr s)] | none => []
def eOptB (k : String) (o : Option Bool) : List (String × Json) := match o with | some b => [(k, Json.bool b)] | none => []
def eMeta (m : Option Meta) : List (String × Json) :=
  [("meta", match m with | some kv => Json.mkObj (kv.map fun (a, b) => (a, jStr b)) | none => Json.null)]
def eList (k : String) (l : List Json) : List (String × Json) := if l.isEmpty then [] else [(k, jArr l)]

def ePron (p : Pron) : Json := jObj ([("text", jStr p.text)] ++ eOpt "variety" p.variety ++ eOpt "notation" p.notat ++ eOptB "phonemic" p.phonemic ++ eOpt "audio" p.audio)
def eTag (t : Tag) : Json := jObj [("text", jStr t.text), ("category", jStr t.category)]
def eLemma (l : Lemma) : Json :=
  jObj ([("external", Json.bool l.external), ("writtenForm", jStr l.form), ("partOfSpeech", jStr l.pos)] ++
    eOpt "script" l.script ++ eList "pronunciations" (l.prons.map ePron) ++ eList "tags" (l.tags.map eTag))
def eForm (f : Form) : Json :=
  jObj ([("external", Json.bool f.external), ("writtenForm", jStr f.form)] ++ eOpt "id" f.id ++
    eOpt "script" f.script ++ eList "pronunciations" (f.prons.map ePron) ++ eList "tags" (f.tags.map eTag))
def eRel (r : Relation) : Json := jObj ([("target", jStr r.target), ("relType", jStr r.relType)] ++ eMeta r.md)
def eEx (e : Example) : Json := jObj ([("text", jStr e.text)] ++ eOpt "language" e.language ++ eMeta e.md)
def eCount (c : Count) : Json := jObj ([("value", jInt c.value)] ++ eMeta c.md)
def eSense (s : Sense) : Json :=
  jObj ([("id", jStr s.id), ("external", Json.bool s.external), ("synset", jStr s.synset)] ++ eMeta s.md ++
    eList "relations" (s.relations.map eRel) ++ eList "examples" (s.examples.map eEx) ++ eList "counts" (s.counts.map eCount) ++
    eOptB "lexicalized" s.lexicalized ++ eOpt "adjposition" s.adjposition ++ eList "subcat" (s.subcat.map jStr))
def eDef (d : Definition) : Json := jObj ([("text", jStr d.text)] ++ eOpt "language" d.language ++ eOpt "sourceSense" d.sourceSense ++ eMeta d.md)
def eSynset (s : Synset) : Json :=
  jObj ([("id", jStr s.id), ("external", Json.bool s.external), ("ili", jStr s.ili)] ++ eOpt "partOfSpeech" s.pos ++ eMeta s.md ++
    (match s.iliDef with | some d => [("ili_definition", jObj ([("text", jStr d.text)] ++ eMeta d.md))] | none => []) ++
    eList "definitions" (s.definitions.map eDef) ++ eList "relations" (s.relations.map eRel) ++ eList "examples" (s.examples.map eEx) ++
    eOptB "lexicalized" s.lexicalized ++ eList "members" (s.members.map jStr) ++ eOpt "lexfile" s.lexfile)
def eFrame (f : Frame) : Json := jObj ([("subcategorizationFrame", jStr f.frame)] ++ eOpt "id" f.id ++ eList "senses" (f.senses.map jStr))
def eEntry (e : Entry) : Json :=
  jObj ([("id", jStr e.id), ("external", Json.bool e.external)] ++ eMeta e.md ++
    (match e.lemma with | some l => [("lemma", eLemma l)] | none => []) ++
    eList "forms" (e.forms.map eForm) ++ eList "senses" (e.senses.map eSense) ++ eList "frames" (e.frames.map eFrame))
def eDep (d : Dep) : Json := jObj ([("id", jStr d.id), ("version", jStr d.version)] ++ eOpt "url" d.url)
def eLexicon (l : Lexicon) : Json :=
  jObj ([("id", jStr l.id), ("version", jStr l.version), ("label", jStr l.label), ("language", jStr l.language),
         ("email", jStr l.email), ("license", jStr l.license)] ++ eOpt "url" l.url ++ eOpt "citation" l.citation ++ eOpt "logo" l.logo ++
    eMeta l.md ++ (match l.ext with | some d => [("extends", eDep d)] | none => []) ++ eList "requires" (l.requires.map eDep) ++
    eList "entries" (l.entries.map eEntry) ++ eList "synsets" (l.synsets.map eSynset) ++ eList "frames" (l.frames.map eFrame))
def eResource (r : Resource) : Json := jObj [("lmf_version", jStr r.version), ("lexicons", jArr (r.lexicons.map eLexicon))]

end WnVerif.Drv
