/- JSON decoding of documents (keys as in the dictionaries `wn.lmf.load` returns). -/
import WnVerif.Drv.Util
import WnVerif.Model.Doc
open Lean
namespace WnVerif.Drv
open WnVerif.Doc

def decMeta (j : Json) (k : String := "meta") : Option Meta :=
  match j.getObjVal? k with
  | .ok (.obj kvs) => some (kvs.toList.map fun (a, b) =>
      (a, match b with | .str s => s | other => other.compress))
  | _ => none

def optStr (j : Json) (k : String) : Option String := getStr? j k
def optBool (j : Json) (k : String) : Option Bool :=
  match j.getObjVal? k with
  | .ok (.bool b) => some b
  | _ => none

def decPron (j : Json) : Pron :=
  { text := getStr j "text", variety := optStr j "variety", notat := optStr j "notation",
    phonemic := optBool j "phonemic", audio := optStr j "audio" }
def decTag (j : Json) : Tag := { text := getStr j "text", category := getStr j "category" }
def decLemma (j : Json) : Lemma :=
  { external := getBool j "external", form := getStr j "writtenForm", pos := getStr j "partOfSpeech",
    script := optStr j "script", prons := (getArr j "pronunciations").map decPron,
    tags := (getArr j "tags").map decTag }
def decForm (j : Json) : Form :=
  { external := getBool j "external", id := optStr j "id", form := getStr j "writtenForm",
    script := optStr j "script", prons := (getArr j "pronunciations").map decPron,
    tags := (getArr j "tags").map decTag }
def decRel (j : Json) : Relation :=
  { target := getStr j "target", relType := getStr j "relType", md := decMeta j }
def decEx (j : Json) : Example :=
  { text := getStr j "text", language := optStr j "language", md := decMeta j }
def decCount (j : Json) : Count := { value := getInt j "value", md := decMeta j }
def decSense (j : Json) : Sense :=
  { external := getBool j "external", id := getStr j "id", synset := getStr j "synset", md := decMeta j,
    relations := (getArr j "relations").map decRel, examples := (getArr j "examples").map decEx,
    counts := (getArr j "counts").map decCount, lexicalized := optBool j "lexicalized",
    adjposition := optStr j "adjposition", subcat := (getArr j "subcat").map asStr }
def decDef (j : Json) : Definition :=
  { text := getStr j "text", language := optStr j "language", sourceSense := optStr j "sourceSense",
    md := decMeta j }
def decSynset (j : Json) : Synset :=
  { external := getBool j "external", id := getStr j "id", ili := getStr j "ili",
    pos := optStr j "partOfSpeech", md := decMeta j,
    iliDef := (getObj? j "ili_definition").map (fun d => { text := getStr d "text", md := decMeta d }),
    definitions := (getArr j "definitions").map decDef, relations := (getArr j "relations").map decRel,
    examples := (getArr j "examples").map decEx, lexicalized := optBool j "lexicalized",
    members := (getArr j "members").map asStr, lexfile := optStr j "lexfile" }
def decFrame (j : Json) : Frame :=
  { id := optStr j "id", frame := getStr j "subcategorizationFrame", senses := (getArr j "senses").map asStr }
def decEntry (j : Json) : Entry :=
  { external := getBool j "external", id := getStr j "id", md := decMeta j,
    lemma := (getObj? j "lemma").map decLemma, forms := (getArr j "forms").map decForm,
    senses := (getArr j "senses").map decSense, frames := (getArr j "frames").map decFrame }
def decDep (j : Json) : Dep := { id := getStr j "id", version := getStr j "version", url := optStr j "url" }
def decLexicon (j : Json) : Lexicon :=
  { id := getStr j "id", version := getStr j "version", label := getStr j "label",
    language := getStr j "language", email := getStr j "email", license := getStr j "license",
    url := optStr j "url", citation := optStr j "citation", logo := optStr j "logo", md := decMeta j,
    ext := (getObj? j "extends").map decDep, requires := (getArr j "requires").map decDep,
    entries := (getArr j "entries").map decEntry, synsets := (getArr j "synsets").map decSynset,
    frames := (getArr j "frames").map decFrame }
def decResource (j : Json) : Resource :=
  { version := getStr j "lmf_version", lexicons := (getArr j "lexicons").map decLexicon }

end WnVerif.Drv
