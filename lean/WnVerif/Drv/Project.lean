import WnVerif.Drv.Util
import WnVerif.Model.Project
open Lean
namespace WnVerif.Drv
open WnVerif.Project

partial def decNode (j : Json) : Node :=
  match getStr j "t" with
  | "lmf" => .lmf (getStr j "name")
  | "ili" => .ili (getStr j "name")
  | "gz" => .gz (decNode ((j.getObjVal? "inner").toOption.getD Json.null))
  | "xz" => .xz (decNode ((j.getObjVal? "inner").toOption.getD Json.null))
  | "tar" => .tar ((getArr j "members").map decNode)
  | "dir" => .dir ((getArr j "children").map decNode)
  | _ => .other

def opRoute (j : Json) : Json :=
  let n := decNode ((j.getObjVal? "tree").toOption.getD Json.null)
  match iterpackages 50 n with
  | none => jStr "error"
  | some rs => jArr (rs.map fun r => match r with
      | .wordnet nm => jArr [jStr "wordnet", jStr nm]
      | .ili nm => jArr [jStr "ili", jStr nm])

end WnVerif.Drv
