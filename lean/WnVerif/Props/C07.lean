/-
C07 — the way a resource is supplied does not change what gets stored.
`Model/Project.lean`: dispatch of `iterpackages`; `Model/Add.lean`: skip map of `_precheck`.
-/
import WnVerif.Model.Project
import WnVerif.Model.Add
import WnVerif.Props.C01
import WnVerif.Lemmas.FrameG
import WnVerif.Lemmas.ForIn
namespace WnVerif.Props.C07
open WnVerif.Project

/-- every documented route around one WN-LMF file yields exactly that file -/
theorem C07_routes (name : String) (extra : List Node) (hextra : ∀ n ∈ extra, resourceOf n = none) :
    iterpackages 10 (.lmf name) = some [.wordnet name] ∧
    iterpackages 10 (.gz (.lmf name)) = some [.wordnet name] ∧
    iterpackages 10 (.xz (.lmf name)) = some [.wordnet name] ∧
    iterpackages 10 (.dir (.lmf name :: extra)) = some [.wordnet name] ∧
    iterpackages 10 (.tar [.lmf name]) = some [.wordnet name] ∧
    iterpackages 10 (.tar [.dir (.lmf name :: extra)]) = some [.wordnet name] ∧
    iterpackages 10 (.tar [.gz (.lmf name)]) = some [.wordnet name] := by
  have hfm : extra.filterMap resourceOf = [] := by
    rw [List.filterMap_eq_nil_iff]; exact hextra
  simp [iterpackages, packageResource, resourceOf, hfm]

/-- a package directory stays a package whatever readme / licence / citation files accompany
the resource, but two resource files make it invalid as a package -/
theorem C07_package_needs_exactly_one (cs : List Node) :
    (∃ r, packageResource (.dir cs) = some r) ↔ (cs.filterMap resourceOf).length = 1 := by
  simp only [packageResource]
  constructor
  · rintro ⟨r, h⟩
    split at h
    · rename_i heq; simp [heq]
    · simp at h
  · intro h
    match hm : cs.filterMap resourceOf, h with
    | [r], _ => exact ⟨r, by simp⟩

/-- a collection yields the resource of each of its package sub-directories, in order -/
theorem C07_collection (cs : List Node) (hnot : packageResource (.dir cs) = none)
    (hsome : cs.filterMap packageResource ≠ []) :
    iterpackages 10 (.dir cs) = some (cs.filterMap packageResource) := by
  simp only [iterpackages, hnot]
  have : (cs.filterMap packageResource).isEmpty = false := by
    simpa [List.isEmpty_iff] using hsome
  simp [this]

/-- an archive with more than one top-level member, a doubly compressed file, or a path with
no resource is rejected -/
theorem C07_rejects (a b : Node) (ms : List Node) (name : String) :
    iterpackages 10 (.tar (a :: b :: ms)) = none ∧ iterpackages 10 (.tar []) = none ∧
    iterpackages 10 (.gz (.gz (.lmf name))) = none ∧ iterpackages 10 .other = none ∧
    iterpackages 10 (.dir []) = none := by
  simp [iterpackages, resourceOf, packageResource]

/-- **C07_idempotent / skip rules** (`_precheck`): a lexicon whose id and version are already
installed is skipped; an extension whose base is not installed is skipped -/
theorem C07_skip_installed (db : Db.Db) (l : Doc.Lexicon) (h : (Db.lexiconRow db l.id l.version).isSome = true) :
    Db.skip db l = true := by
  simp [Db.skip, h]

theorem C07_ext_skipped (db : Db.Db) (l : Doc.Lexicon) (b : Doc.Dep) (hb : l.ext = some b)
    (hmiss : Db.lexiconRow db b.id b.version = none) : Db.skip db l = true := by
  unfold Db.skip
  split
  · rfl
  · simp [hb, hmiss]

/-- adding a resource all of whose lexicons are skipped changes nothing -/
theorem C07_all_skipped_noop (norm : String → String) (rank : Nat) (db : Db.Db) (l : Doc.Lexicon)
    (h : Db.skip db l = true) : Db.addResource norm rank db ⟨"1.1", [l]⟩ = .ok db := by
  simp [Db.addResource, h, Doc.Lexicon.spec, forIn, List.forIn_cons, List.forIn_nil, bind, Except.bind, pure, Except.pure]

section OneFileOrMany
open WnVerif WnVerif.Db WnVerif.Doc WnVerif.Props.C01


/-! ### one file with several lexicons ≡ the same lexicons supplied one resource at a time -/

/-- the lexicons table after one add: the old rows and one row carrying the document's id and version -/
theorem addLexicon_lexrow (norm : String → String) (dr : Nat) (db db' : Db) (l : Lexicon)
    (h : addLexicon norm dr db l = .ok db') :
    ∃ lrow : RLexicon, db'.lexicons = db.lexicons ++ [lrow] ∧ lrow.id = l.id ∧ lrow.version = l.version := by
  obtain ⟨t⟩ := addLexicon_split norm dr db db' l h
  obtain ⟨hL1, _, _⟩ := C01_lexicon_row _ _ _ _ _ t.hlex
  let c : Ctx := ⟨t.lexid, t.extid, externalIds l⟩
  let π : Db → List RLexicon := fun b => b.lexicons
  have k2 : π t.d2 = π t.d1 := keepsGF_insertSynsets π l c (fun p => by keepsG_step presupStep)
    (by keepsG_step synsetStep) (by keepsG_step piliStep) _ _ t.hsyn
  have k3 : π t.d3 = π t.d2 := keepsGF_insertEntries π l c (by keepsG_step entryStep) _ _ t.hent
  have k4 : π t.d4 = π t.d3 := keepsGF_insertForms π (fun _ _ => rfl) norm l c _ _ t.hform
  have k5 : π t.d5 = π t.d4 := keepsGF_insertPronsTags π l c (fun _ _ _ => by keepsG_step pronStep)
    (fun _ _ _ => by keepsG_step tagStep) _ _ t.hpt
  have k6 : π t.d6 = π t.d5 := keepsGF_insertSenses π l c dr (fun _ => by keepsG_step senseStep)
    (by keepsG_step adjStep) (fun _ => by keepsG_step countStep) _ _ t.hsen
  have k7 : π t.d7 = π t.d6 := keepsGF_insertSbs π t.sbs c (by keepsG_step sbStep) (fun _ => by keepsG_step sbSenseStep) _ _ t.hsb
  have k8 : π t.d8 = π t.d7 := keepsGF_insertRelations π l c (fun _ => by keepsG_step synRelStep)
    (by keepsG_step senseRelStep) (by keepsG_step senseSynRelStep) _ _ t.hrel
  have k9 : π db' = π t.d8 := keepsGF_insertDefsExamples π l c (fun _ => by keepsG_step defStep)
    (fun _ => by keepsG_step senseExampleStep) (fun _ => by keepsG_step synsetExampleStep) _ _ t.hdx
  refine ⟨⟨t.lexid, l.id, l.label, l.language, l.email, l.license, l.version, l.url, l.citation, l.logo, l.md⟩, ?_, rfl, rfl⟩
  show π db' = _
  rw [k9, k8, k7, k6, k5, k4, k3, k2]
  exact hL1

/-- adding a lexicon with another (id, version) does not change whether a given (id, version) is installed -/
theorem lexiconRow_isSome_frame (db db' : Db) (lrow : RLexicon) (hL : db'.lexicons = db.lexicons ++ [lrow])
    (id version : String) (hne : ¬ (lrow.id = id ∧ lrow.version = version)) :
    (lexiconRow db' id version).isSome = (lexiconRow db id version).isSome := by
  unfold lexiconRow
  rw [hL, List.find?_append]
  have : [lrow].find? (fun r => r.id == id && r.version == version) = none := by
    simp only [List.find?_cons, List.find?_nil]
    have : (lrow.id == id && lrow.version == version) = false := by
      cases hb : (lrow.id == id && lrow.version == version) with
      | false => rfl
      | true => simp only [Bool.and_eq_true, beq_iff_eq] at hb; exact absurd hb hne
    rw [this]
  rw [this]
  cases db.lexicons.find? (fun r => r.id == id && r.version == version) <;> simp


/-- the skip decision the up-front `skipmap` dict holds for a lexicon of the resource -/
def skOf (db : Db) (ls : List Lexicon) (l : Lexicon) : Bool :=
  ((((ls.map (fun l => (l.spec, skip db l))).filter (fun e => e.1 == l.spec)).getLast?).map (·.2)).getD false

theorem forIn_skip_fold (norm : String → String) (rank : Nat) (sk : Lexicon → Bool) :
    ∀ (xs : List Lexicon) (cur : Db),
    (do let s ← forIn xs cur (fun l s =>
            if sk l = true then pure (ForInStep.yield s)
            else do
              let c ← addLexicon norm rank s l
              pure (ForInStep.yield c))
        pure s : R Db) =
    xs.foldlM (fun cur l => if sk l then pure cur else addLexicon norm rank cur l) cur := by
  intro xs
  induction xs with
  | nil => intro cur; rfl
  | cons a t ih =>
    intro cur
    simp only [List.forIn_cons, List.foldlM_cons]
    cases hs : sk a with
    | true =>
      simp only [if_true, pure_bind]
      exact ih cur
    | false =>
      simp only [Bool.false_eq_true, if_false, bind_assoc, pure_bind]
      cases hadd : addLexicon norm rank cur a with
      | error e => rfl
      | ok c =>
        simp only [bind, Except.bind]
        exact ih c

theorem addResource_eq_fold (norm : String → String) (rank : Nat) (db : Db) (v : String) (ls : List Lexicon) :
    addResource norm rank db ⟨v, ls⟩ =
      ls.foldlM (fun cur l => if skOf db ls l then pure cur else addLexicon norm rank cur l) db := by
  unfold addResource
  simp only [bind_pure]
  exact forIn_skip_fold norm rank (skOf db ls) ls db

theorem skip_frame (cur c : Db) (lrow : RLexicon) (hL : c.lexicons = cur.lexicons ++ [lrow]) (l : Lexicon)
    (h1 : ¬ (lrow.id = l.id ∧ lrow.version = l.version))
    (h2 : ∀ b, l.ext = some b → ¬ (lrow.id = b.id ∧ lrow.version = b.version)) :
    skip c l = skip cur l := by
  unfold skip
  rw [lexiconRow_isSome_frame cur c lrow hL l.id l.version h1]
  cases hb : l.ext with
  | none => rfl
  | some b =>
    have := lexiconRow_isSome_frame cur c lrow hL b.id b.version (h2 b hb)
    have e : (lexiconRow c b.id b.version).isNone = (lexiconRow cur b.id b.version).isNone := by
      cases h1 : lexiconRow c b.id b.version <;> cases h2 : lexiconRow cur b.id b.version <;> simp [h1, h2] at this ⊢
    simp only [e]

theorem fold_skip_now (norm : String → String) (rank : Nat) (sk0 : Lexicon → Bool) :
    ∀ (xs : List Lexicon) (cur : Db),
      xs.Pairwise (fun a b => ¬ (a.id = b.id ∧ a.version = b.version)) →
      (∀ l ∈ xs, ∀ b, l.ext = some b → ∀ l' ∈ xs, ¬ (l'.id = b.id ∧ l'.version = b.version)) →
      (∀ l ∈ xs, skip cur l = sk0 l) →
      xs.foldlM (fun cur l => if sk0 l then pure cur else addLexicon norm rank cur l) cur =
        xs.foldlM (fun cur l => if skip cur l then pure cur else addLexicon norm rank cur l) cur := by
  intro xs
  induction xs with
  | nil => intro cur _ _ _; rfl
  | cons a t ih =>
    intro cur hp hb hinv
    have hp' := List.pairwise_cons.mp hp
    have hbt : ∀ l ∈ t, ∀ b, l.ext = some b → ∀ l' ∈ t, ¬ (l'.id = b.id ∧ l'.version = b.version) :=
      fun l hl b hlb l' hl' => hb l (List.mem_cons_of_mem _ hl) b hlb l' (List.mem_cons_of_mem _ hl')
    simp only [List.foldlM_cons]
    rw [hinv a (List.mem_cons_self ..)]
    cases hs : sk0 a with
    | true =>
      simp only [if_true, pure_bind]
      exact ih cur hp'.2 hbt (fun l hl => hinv l (List.mem_cons_of_mem _ hl))
    | false =>
      simp only [Bool.false_eq_true, if_false]
      cases hadd : addLexicon norm rank cur a with
      | error e => rfl
      | ok c =>
        simp only [bind, Except.bind]
        obtain ⟨lrow, hL, hid, hver⟩ := addLexicon_lexrow norm rank cur c a hadd
        apply ih c hp'.2 hbt
        intro l hl
        rw [← hinv l (List.mem_cons_of_mem _ hl)]
        apply skip_frame cur c lrow hL l
        · rw [hid, hver]; exact hp'.1 l hl
        · intro b hlb
          rw [hid, hver]
          exact hb l (List.mem_cons_of_mem _ hl) b hlb a (List.mem_cons_self ..)

theorem skOf_eq (db : Db) : ∀ (ls : List Lexicon), (ls.map (·.spec)).Nodup → ∀ l ∈ ls, skOf db ls l = skip db l := by
  intro ls hn l hl
  unfold skOf
  have : (ls.map (fun l => (l.spec, skip db l))).filter (fun e => e.1 == l.spec) = [(l.spec, skip db l)] := by
    induction ls with
    | nil => simp at hl
    | cons a t ih =>
      simp only [List.map_cons, List.nodup_cons, List.mem_map, not_exists, not_and] at hn
      rcases List.mem_cons.mp hl with e | hl'
      · subst e
        simp only [List.map_cons, List.filter_cons, beq_self_eq_true, if_true]
        congr 1
        rw [List.filter_eq_nil_iff]
        intro x hx
        obtain ⟨y, hy, rfl⟩ := List.mem_map.mp hx
        simp only [beq_iff_eq]
        intro e
        exact hn.1 y hy e
      · have hne : (a.spec == l.spec) = false := by
          cases hb : a.spec == l.spec with
          | false => rfl
          | true => exact absurd (by simpa using hb : a.spec = l.spec).symm (hn.1 l hl')
        simp only [List.map_cons, List.filter_cons, hne, Bool.false_eq_true, if_false]
        exact ih hn.2 hl'
  rw [this]
  rfl

theorem addResource_single (norm : String → String) (rank : Nat) (d : Db) (v : String) (l : Lexicon) :
    addResource norm rank d ⟨v, [l]⟩ = if skip d l then pure d else addLexicon norm rank d l := by
  rw [addResource_eq_fold]
  have : skOf d [l] l = skip d l := by simp [skOf]
  simp only [List.foldlM_cons, List.foldlM_nil, this]
  cases skip d l with
  | true => rfl
  | false =>
    simp only [Bool.false_eq_true, if_false]
    cases addLexicon norm rank d l <;> rfl

theorem spec_eq_of_pair (a b : Lexicon) (h : a.id = b.id ∧ a.version = b.version) : a.spec = b.spec := by
  unfold Lexicon.spec; rw [h.1, h.2]

/-- **C07, one file or many**: a resource holding several lexicons with distinct specifiers, none of
which extends another lexicon of the same resource ("mutually independent"), stores exactly what
supplying the same lexicons one resource at a time, in the same order, stores — including which of
them are skipped and including the failing case (the same error at the same lexicon) — on any database. -/
theorem C07_one_file_or_many (norm : String → String) (rank : Nat) (db : Db) (v : String) (ls : List Lexicon)
    (hd : (ls.map (·.spec)).Nodup)
    (hind : ∀ l ∈ ls, ∀ b, l.ext = some b → ∀ l' ∈ ls, ¬ (l'.id = b.id ∧ l'.version = b.version)) :
    addResource norm rank db ⟨v, ls⟩ = ls.foldlM (fun d l => addResource norm rank d ⟨v, [l]⟩) db := by
  rw [addResource_eq_fold]
  have hp : ls.Pairwise (fun a b => ¬ (a.id = b.id ∧ a.version = b.version)) := by
    have := List.pairwise_map.mp hd
    exact this.imp (fun hne h => hne (spec_eq_of_pair _ _ h))
  rw [fold_skip_now norm rank (skOf db ls) ls db hp hind (fun l hl => (skOf_eq db ls hd l hl).symm)]
  congr 1
  funext d l
  exact (addResource_single norm rank d v l).symm

/-! non-vacuity: two independent lexicons meet the hypotheses and both get installed either way;
and the independence hypothesis is essential: a base and its extension shipped in one file store
*less* than the two supplied one after the other (the extension is skipped by the up-front precheck) -/
def lexA : Lexicon :=
  { id := "a", version := "1", label := "A", language := "en", email := "e", license := "l",
    synsets := [{ id := "a-1", pos := some "n" }] }
def lexB : Lexicon := { id := "b", version := "1", label := "B", language := "en", email := "e", license := "l" }
def lexX : Lexicon :=
  { id := "x", version := "1", label := "X", language := "en", email := "e", license := "l",
    ext := some { id := "a", version := "1" } }

example : (([lexA, lexB].map (·.spec)).Nodup ∧
    ∀ l ∈ [lexA, lexB], ∀ b, l.ext = some b → ∀ l' ∈ [lexA, lexB], ¬ (l'.id = b.id ∧ l'.version = b.version)) ∧
    (match addResource (fun s => s) 127 Db.empty ⟨"1.1", [lexA, lexB]⟩ with
     | .ok d => d.lexicons.map (·.id) | .error _ => []) = ["a", "b"] := by
  refine ⟨⟨by decide, ?_⟩, by decide +kernel⟩
  intro l hl b hb
  simp only [List.mem_cons, List.not_mem_nil, or_false] at hl
  rcases hl with rfl | rfl <;> simp [lexA, lexB] at hb

theorem C07_base_and_extension_in_one_file_counterexample :
    (match addResource (fun s => s) 127 Db.empty ⟨"1.1", [lexA, lexX]⟩ with
     | .ok d => d.lexicons.map (·.id) | .error _ => []) = ["a"] ∧
    (match [lexA, lexX].foldlM (fun d l => addResource (fun s => s) 127 d ⟨"1.1", [l]⟩) Db.empty with
     | .ok d => d.lexicons.map (·.id) | .error _ => []) = ["a", "x"] := by
  constructor <;> decide +kernel


/-! ### adding the same resource again changes nothing -/

theorem skip_after_add (cur c : Db) (lrow : RLexicon) (hL : c.lexicons = cur.lexicons ++ [lrow]) (a : Lexicon)
    (hid : lrow.id = a.id) (hver : lrow.version = a.version) : skip c a = true := by
  unfold skip
  have : (lexiconRow c a.id a.version).isSome = true := by
    unfold lexiconRow
    rw [hL, List.find?_append]
    cases hf : cur.lexicons.find? (fun r => r.id == a.id && r.version == a.version) with
    | some x => simp
    | none => simp [hid, hver]
  simp [this]

def stepNow (norm : String → String) (rank : Nat) (cur : Db) (l : Lexicon) : R Db :=
  if skip cur l then pure cur else addLexicon norm rank cur l

theorem fold_keeps_skip (norm : String → String) (rank : Nat) (l0 : Lexicon) :
    ∀ (t : List Lexicon) (cur db' : Db), t.foldlM (stepNow norm rank) cur = .ok db' →
      (∀ x ∈ t, ¬ (x.id = l0.id ∧ x.version = l0.version)) →
      (∀ x ∈ t, ∀ b, l0.ext = some b → ¬ (x.id = b.id ∧ x.version = b.version)) →
      skip db' l0 = skip cur l0 := by
  intro t
  induction t with
  | nil => intro cur db' h _ _; simp only [List.foldlM_nil, pure, Except.pure, Except.ok.injEq] at h; rw [h]
  | cons a t ih =>
    intro cur db' h h1 h2
    simp only [List.foldlM_cons, bind, Except.bind] at h
    cases hs : stepNow norm rank cur a with
    | error e => rw [hs] at h; simp at h
    | ok c =>
      rw [hs] at h
      have hrest := ih c db' h (fun x hx => h1 x (List.mem_cons_of_mem _ hx)) (fun x hx => h2 x (List.mem_cons_of_mem _ hx))
      rw [hrest]
      unfold stepNow at hs
      cases hsk : skip cur a with
      | true => simp only [hsk, if_true, pure, Except.pure, Except.ok.injEq] at hs; rw [hs]
      | false =>
        simp only [hsk, Bool.false_eq_true, if_false] at hs
        obtain ⟨lrow, hL, hid, hver⟩ := addLexicon_lexrow norm rank cur c a hs
        apply skip_frame cur c lrow hL l0
        · rw [hid, hver]; exact h1 a List.mem_cons_self
        · intro b hb; rw [hid, hver]; exact h2 a List.mem_cons_self b hb

theorem fold_all_skipped_after (norm : String → String) (rank : Nat) :
    ∀ (xs : List Lexicon) (cur db' : Db), xs.foldlM (stepNow norm rank) cur = .ok db' →
      xs.Pairwise (fun a b => ¬ (a.id = b.id ∧ a.version = b.version)) →
      (∀ l ∈ xs, ∀ b, l.ext = some b → ∀ l' ∈ xs, ¬ (l'.id = b.id ∧ l'.version = b.version)) →
      ∀ l ∈ xs, skip db' l = true := by
  intro xs
  induction xs with
  | nil => intro _ _ _ _ _ l hl; simp at hl
  | cons a t ih =>
    intro cur db' h hp hb l hl
    obtain ⟨hpa, hpt⟩ := List.pairwise_cons.mp hp
    have hbt : ∀ l ∈ t, ∀ b, l.ext = some b → ∀ l' ∈ t, ¬ (l'.id = b.id ∧ l'.version = b.version) :=
      fun l hl b hlb l' hl' => hb l (List.mem_cons_of_mem _ hl) b hlb l' (List.mem_cons_of_mem _ hl')
    simp only [List.foldlM_cons, bind, Except.bind] at h
    cases hs : stepNow norm rank cur a with
    | error e => rw [hs] at h; simp at h
    | ok c =>
      rw [hs] at h
      rcases List.mem_cons.mp hl with rfl | hlt
      · -- the head: skipped or just installed at its turn, and nothing later touches that
        have hc : skip c l = true := by
          unfold stepNow at hs
          cases hsk : skip cur l with
          | true => simp only [hsk, if_true, pure, Except.pure, Except.ok.injEq] at hs; rw [← hs]; exact hsk
          | false =>
            simp only [hsk, Bool.false_eq_true, if_false] at hs
            obtain ⟨lrow, hL, hid, hver⟩ := addLexicon_lexrow norm rank cur c l hs
            exact skip_after_add cur c lrow hL l hid hver
        rw [fold_keeps_skip norm rank l t c db' h
          (fun x hx hxe => hpa x hx ⟨hxe.1.symm, hxe.2.symm⟩)
          (fun x hx b hlb => hb l List.mem_cons_self b hlb x (List.mem_cons_of_mem _ hx))]
        exact hc
      · exact ih c db' h hpt hbt l hlt

/-- **C07, repetition of the add**: a resource of mutually independent lexicons that was added successfully can be
added again — whatever the database held before, the second add skips every one of its lexicons and returns the
database unchanged -/
theorem C07_add_again_changes_nothing (norm : String → String) (rank : Nat) (db db' : Db) (v : String) (ls : List Lexicon)
    (hd : (ls.map (·.spec)).Nodup)
    (hind : ∀ l ∈ ls, ∀ b, l.ext = some b → ∀ l' ∈ ls, ¬ (l'.id = b.id ∧ l'.version = b.version))
    (h : addResource norm rank db ⟨v, ls⟩ = .ok db') :
    addResource norm rank db' ⟨v, ls⟩ = .ok db' := by
  have hp : ls.Pairwise (fun a b => ¬ (a.id = b.id ∧ a.version = b.version)) := by
    have := List.pairwise_map.mp hd
    exact this.imp (fun hne hh => hne (spec_eq_of_pair _ _ hh))
  rw [addResource_eq_fold, fold_skip_now norm rank (skOf db ls) ls db hp hind (fun l hl => (skOf_eq db ls hd l hl).symm)] at h
  have hall := fold_all_skipped_after norm rank ls db db' h hp hind
  rw [addResource_eq_fold]
  have : ∀ (xs : List Lexicon), (∀ l ∈ xs, skOf db' ls l = true) →
      xs.foldlM (fun cur l => if skOf db' ls l then pure cur else addLexicon norm rank cur l) db' = .ok db' := by
    intro xs
    induction xs with
    | nil => intro _; rfl
    | cons a t ih =>
      intro hx
      simp only [List.foldlM_cons, hx a List.mem_cons_self, if_true, pure_bind]
      exact ih (fun l hl => hx l (List.mem_cons_of_mem _ hl))
  exact this ls (fun l hl => by rw [skOf_eq db' ls hd l hl]; exact hall l hl)


/-- non-vacuity of `C07_add_again_changes_nothing`: the two-lexicon resource of the example above is added to the
empty database, and adding it again to the result leaves the list of lexicons, entries and synsets as it is -/
example : (match addResource (fun s => s) 127 Db.empty ⟨"1.1", [lexA, lexB]⟩ with
    | .ok d => (match addResource (fun s => s) 127 d ⟨"1.1", [lexA, lexB]⟩ with
        | .ok d2 => (d2.lexicons.map (·.id), d2.synsets.length, d2.lexicons.length == d.lexicons.length)
        | .error _ => ([], 0, false))
    | .error _ => ([], 0, false)) = (["a", "b"], 1, true) := by decide +kernel


end OneFileOrMany

end WnVerif.Props.C07
