/-
C07 — the way a resource is supplied does not change what gets stored.
`Model/Project.lean`: dispatch of `iterpackages`; `Model/Add.lean`: skip map of `_precheck`.
-/
import WnVerif.Model.Project
import WnVerif.Model.Add
namespace WnVerif.Props.C07
open WnVerif.Project

/-- every documented route around one WN-LMF file yields exactly that file -/
theorem C07_routes (name : String) (extra : List Node) (hextra : ∀ n ∈ extra, resourceOf n = none) :
    iterpackages 10 (.lmf name) = some [.wordnet name] ∧
    iterpackages 10 (.gz (.lmf name)) = some [.wordnet name] ∧
    iterpackages 10 (.xz (.lmf name)) = some [.wordnet name] ∧
    iterpackages 10 (.dir (.lmf name :: extra)) = some [.wordnet name] ∧
    iterpackages 10 (.tar [.lmf name]) = some [.wordnet name] ∧
    iterpackages 10 (.tar [.dir (.lmf name :: extra)]) = some [.wordnet name] ∧
    iterpackages 10 (.tar [.gz (.lmf name)]) = some [.wordnet name] := by
  have hfm : extra.filterMap resourceOf = [] := by
    rw [List.filterMap_eq_nil_iff]; exact hextra
  simp [iterpackages, packageResource, resourceOf, hfm]

/-- a package directory stays a package whatever readme / licence / citation files accompany
the resource, but two resource files make it invalid as a package -/
theorem C07_package_needs_exactly_one (cs : List Node) :
    (∃ r, packageResource (.dir cs) = some r) ↔ (cs.filterMap resourceOf).length = 1 := by
  simp only [packageResource]
  constructor
  · rintro ⟨r, h⟩
    split at h
    · rename_i heq; simp [heq]
    · simp at h
  · intro h
    match hm : cs.filterMap resourceOf, h with
    | [r], _ => exact ⟨r, by simp⟩

/-- a collection yields the resource of each of its package sub-directories, in order -/
theorem C07_collection (cs : List Node) (hnot : packageResource (.dir cs) = none)
    (hsome : cs.filterMap packageResource ≠ []) :
    iterpackages 10 (.dir cs) = some (cs.filterMap packageResource) := by
  simp only [iterpackages, hnot]
  have : (cs.filterMap packageResource).isEmpty = false := by
    simpa [List.isEmpty_iff] using hsome
  simp [this]

/-- an archive with more than one top-level member, a doubly compressed file, or a path with
no resource is rejected -/
theorem C07_rejects (a b : Node) (ms : List Node) (name : String) :
    iterpackages 10 (.tar (a :: b :: ms)) = none ∧ iterpackages 10 (.tar []) = none ∧
    iterpackages 10 (.gz (.gz (.lmf name))) = none ∧ iterpackages 10 .other = none ∧
    iterpackages 10 (.dir []) = none := by
  simp [iterpackages, resourceOf, packageResource]

/-- **C07_idempotent / skip rules** (`_precheck`): a lexicon whose id and version are already
installed is skipped; an extension whose base is not installed is skipped -/
theorem C07_skip_installed (db : Db.Db) (l : Doc.Lexicon) (h : (Db.lexiconRow db l.id l.version).isSome = true) :
    Db.skip db l = true := by
  simp [Db.skip, h]

theorem C07_ext_skipped (db : Db.Db) (l : Doc.Lexicon) (b : Doc.Dep) (hb : l.ext = some b)
    (hmiss : Db.lexiconRow db b.id b.version = none) : Db.skip db l = true := by
  unfold Db.skip
  split
  · rfl
  · simp [hb, hmiss]

/-- adding a resource all of whose lexicons are skipped changes nothing -/
theorem C07_all_skipped_noop (norm : String → String) (rank : Nat) (db : Db.Db) (l : Doc.Lexicon)
    (h : Db.skip db l = true) : Db.addResource norm rank db ⟨"1.1", [l]⟩ = .ok db := by
  simp [Db.addResource, h, Doc.Lexicon.spec, forIn, List.forIn_cons, List.forIn_nil, bind, Except.bind, pure, Except.pure]

end WnVerif.Props.C07
