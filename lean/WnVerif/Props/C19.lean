/-
C19 — loading an ILI index only updates ILI status and definitions.
Theorems over `addIli` (`Model/Remove.lean`, mirroring `_add.py:_add_ili`) for every database
and every list of index rows (duplicates allowed: the last row for an id wins).
-/
import WnVerif.Model.Query
import WnVerif.Model.Add
import WnVerif.Lemmas.ForIn
namespace WnVerif.Props.C19
open WnVerif.Db

/-! ### frame: nothing but `ilis` and `ili_statuses` is written -/

/-- every table other than `ilis` and `ili_statuses` -/
def Same (a b : Db) : Prop :=
  a.lexicons = b.lexicons ∧ a.deps = b.deps ∧ a.exts = b.exts ∧ a.entries = b.entries ∧ a.forms = b.forms ∧
  a.prons = b.prons ∧ a.tags = b.tags ∧ a.synsets = b.synsets ∧ a.synrels = b.synrels ∧ a.defs = b.defs ∧
  a.synexs = b.synexs ∧ a.senses = b.senses ∧ a.senserels = b.senserels ∧ a.sensesynrels = b.sensesynrels ∧
  a.adjs = b.adjs ∧ a.sensexs = b.sensexs ∧ a.counts = b.counts ∧ a.sbs = b.sbs ∧ a.sbsenses = b.sbsenses ∧
  a.pilis = b.pilis ∧ a.reltypes = b.reltypes ∧ a.lexfiles = b.lexfiles

theorem Same.refl (a : Db) : Same a a := by unfold Same; simp
theorem Same.trans {a b c : Db} (h1 : Same a b) (h2 : Same b c) : Same a c := by
  unfold Same at *
  obtain ⟨a1, a2, a3, a4, a5, a6, a7, a8, a9, a10, a11, a12, a13, a14, a15, a16, a17, a18, a19, a20, a21, a22⟩ := h1
  obtain ⟨b1, b2, b3, b4, b5, b6, b7, b8, b9, b10, b11, b12, b13, b14, b15, b16, b17, b18, b19, b20, b21, b22⟩ := h2
  exact ⟨a1.trans b1, a2.trans b2, a3.trans b3, a4.trans b4, a5.trans b5, a6.trans b6, a7.trans b7, a8.trans b8, a9.trans b9,
    a10.trans b10, a11.trans b11, a12.trans b12, a13.trans b13, a14.trans b14, a15.trans b15, a16.trans b16, a17.trans b17,
    a18.trans b18, a19.trans b19, a20.trans b20, a21.trans b21, a22.trans b22⟩

theorem iliStep_same (db : Db) (r : IliRow) : Same (iliStep db r) db := by
  unfold iliStep
  split <;> (unfold Same; simp)

theorem iliStep_statuses (db : Db) (r : IliRow) : (iliStep db r).ilistatuses = db.ilistatuses := by
  unfold iliStep; split <;> rfl

theorem fold_same (rows : List IliRow) : ∀ db, Same (rows.foldl iliStep db) db ∧ (rows.foldl iliStep db).ilistatuses = db.ilistatuses := by
  induction rows with
  | nil => intro db; exact ⟨Same.refl _, rfl⟩
  | cons r t ih =>
    intro db
    simp only [List.foldl_cons]
    exact ⟨(ih _).1.trans (iliStep_same db r), (ih _).2.trans (iliStep_statuses db r)⟩

/-- lexicon content, which synsets carry which ILI row, proposed ILIs, relation types and
lexfiles are all unchanged -/
theorem C19_frame (db : Db) (rows : List IliRow) : Same (addIli db rows) db := by
  unfold addIli
  exact (fold_same rows _).1.trans (by unfold addIliStatuses Same; simp)

/-! ### existing ILI rows keep their rowid and id, so every synset's ILI link resolves as before -/

theorem iliStep_prefix (db : Db) (r : IliRow) :
    ∃ extra, (iliStep db r).ilis.map (fun x => (x.rowid, x.id, x.md)) = db.ilis.map (fun x => (x.rowid, x.id, x.md)) ++ extra := by
  unfold iliStep
  split
  · refine ⟨[], ?_⟩
    simp only [List.append_nil, List.map_map]
    apply List.map_congr_left
    intro x _
    simp only [Function.comp]
    split <;> rfl
  · exact ⟨[(nextId (db.ilis.map (·.rowid)), r.ili, none)], by simp⟩

theorem C19_ili_rows_prefix (db : Db) (rows : List IliRow) :
    ∃ extra, (addIli db rows).ilis.map (fun x => (x.rowid, x.id, x.md)) = db.ilis.map (fun x => (x.rowid, x.id, x.md)) ++ extra := by
  unfold addIli
  have : ∀ (rows : List IliRow) (d : Db), ∃ extra, (rows.foldl iliStep d).ilis.map (fun x => (x.rowid, x.id, x.md)) =
      d.ilis.map (fun x => (x.rowid, x.id, x.md)) ++ extra := by
    intro rows
    induction rows with
    | nil => intro d; exact ⟨[], by simp⟩
    | cons r t ih =>
      intro d
      obtain ⟨e1, h1⟩ := iliStep_prefix d r
      obtain ⟨e2, h2⟩ := ih (iliStep d r)
      exact ⟨e1 ++ e2, by simp only [List.foldl_cons]; rw [h2, h1, List.append_assoc]⟩
  exact this rows _

theorem find_prefix {α} (p : α → Bool) (l e : List α) (x : α) (h : l.find? p = some x) : (l ++ e).find? p = some x := by
  rw [List.find?_append, h]; rfl

/-- the ILI id a synset's `ili_rowid` resolves to does not change -/
theorem C19_links_resolve_same (db : Db) (rows : List IliRow) (k : Nat) (i : String)
    (h : iliIdOf db (some k) = some i) : iliIdOf (addIli db rows) (some k) = some i := by
  obtain ⟨extra, hp⟩ := C19_ili_rows_prefix db rows
  unfold iliIdOf at *
  simp only at *
  have key : ∀ (l : List RIli), (l.find? (fun x => x.rowid == k)).map (·.id) =
      ((l.map (fun x => (x.rowid, x.id, x.md))).find? (fun t => t.1 == k)).map (·.2.1) := by
    intro l
    induction l with
    | nil => simp
    | cons a t ih =>
      simp only [List.find?_cons, List.map_cons]
      split <;> simp_all
  rw [key] at h ⊢
  rw [hp]
  cases hf : (db.ilis.map (fun x => (x.rowid, x.id, x.md))).find? (fun t => t.1 == k) with
  | none => rw [hf] at h; simp at h
  | some t => rw [find_prefix _ _ _ _ hf]; rw [hf] at h; exact h

/-! ### every listed ILI ends up with the file's status and definition (last row wins) -/

/-- the last row of the file for an id -/
def lastMatch (rows : List IliRow) (id : String) : Option IliRow :=
  rows.foldl (fun acc r => if r.ili == id then some r else acc) none

theorem lastMatch_append (rows : List IliRow) (r : IliRow) (id : String) :
    lastMatch (rows ++ [r]) id = if r.ili == id then some r else lastMatch rows id := by
  simp [lastMatch, List.foldl_append]

def stOf (sts : List (Nat × String)) (r : IliRow) : Nat := (lookupId sts (r.status.getD "active")).getD 0

theorem rev_ind {α} {P : List α → Prop} (hnil : P []) (snoc : ∀ l a, P l → P (l ++ [a])) : ∀ l, P l := by
  intro l
  have : ∀ (r : List α), P r.reverse := by
    intro r
    induction r with
    | nil => exact hnil
    | cons a t ih => rw [List.reverse_cons]; exact snoc _ _ ih
  simpa using this l.reverse

theorem fold_last (sts : List (Nat × String)) (rows : List IliRow) : ∀ (db : Db), db.ilistatuses = sts →
    ∀ x ∈ (rows.foldl iliStep db).ilis,
      match lastMatch rows x.id with
      | some r => x.status = stOf sts r ∧ x.definition = r.definition
      | none => x ∈ db.ilis := by
  induction rows using rev_ind with
  | hnil => intro db _ x hx; simpa [lastMatch] using hx
  | snoc init r ih =>
    intro db hs x hx
    rw [List.foldl_append] at hx
    simp only [List.foldl_cons, List.foldl_nil] at hx
    rw [lastMatch_append]
    have hst : (List.foldl iliStep db init).ilistatuses = sts := by rw [(fold_same init db).2, hs]
    have ihD := ih db hs
    generalize List.foldl iliStep db init = D at hx hst ihD
    unfold iliStep at hx
    split at hx
    · simp only [List.mem_map] at hx
      obtain ⟨y, hy, rfl⟩ := hx
      by_cases hm : y.id = r.ili
      · simp [hm, stOf, hst]
      · have hm' : (y.id == r.ili) = false := by simpa using hm
        have hm'' : (r.ili == y.id) = false := beq_eq_false_iff_ne.mpr (fun e => hm e.symm)
        simp only [hm', hm'', Bool.false_eq_true, if_false]
        exact ihD y hy
    · rename_i hany
      simp only [List.mem_append, List.mem_singleton] at hx
      rcases hx with hx | rfl
      · have hne : (r.ili == x.id) = false := by
          simp only [List.any_eq_true, not_exists, not_and, Bool.not_eq_true] at hany
          have := hany x hx
          exact beq_eq_false_iff_ne.mpr (fun e => (beq_eq_false_iff_ne.mp this) e.symm)
        simp only [hne, Bool.false_eq_true, if_false]
        exact ihD x hx
      · simp [stOf, hst]

theorem addIli_statuses (db : Db) (rows : List IliRow) :
    (addIli db rows).ilistatuses = (addIliStatuses db rows).ilistatuses := by
  unfold addIli; exact (fold_same rows _).2

/-- after loading, every ILI listed in the file carries the status and definition of its last row -/
theorem C19_listed_updated (db : Db) (rows : List IliRow) (x : RIli) (hx : x ∈ (addIli db rows).ilis)
    (r : IliRow) (hr : lastMatch rows x.id = some r) :
    x.status = stOf (addIli db rows).ilistatuses r ∧ x.definition = r.definition := by
  have := fold_last (addIliStatuses db rows).ilistatuses rows (addIliStatuses db rows) rfl x hx
  rw [hr] at this
  rw [addIli_statuses]
  exact this

/-- an ILI that the file does not list is left exactly as it was -/
theorem C19_unlisted_untouched (db : Db) (rows : List IliRow) (x : RIli) (hx : x ∈ (addIli db rows).ilis)
    (hr : lastMatch rows x.id = none) : x ∈ db.ilis := by
  have := fold_last (addIliStatuses db rows).ilistatuses rows (addIliStatuses db rows) rfl x hx
  rw [hr] at this
  exact this

/-- every id of the file is present afterwards (unknown ILIs are created) -/
theorem iliStep_has (db : Db) (r : IliRow) : ∃ x ∈ (iliStep db r).ilis, x.id = r.ili := by
  unfold iliStep
  split
  · rename_i hany
    simp only [List.any_eq_true, beq_iff_eq] at hany
    obtain ⟨y, hy, hyi⟩ := hany
    refine ⟨_, List.mem_map.mpr ⟨y, hy, rfl⟩, ?_⟩
    simp [hyi]
  · exact ⟨⟨nextId (db.ilis.map (·.rowid)), r.ili, (lookupId db.ilistatuses (r.status.getD "active")).getD 0, r.definition, none⟩, by simp, rfl⟩

theorem iliStep_keeps_ids (db : Db) (r : IliRow) (i : String) (h : ∃ x ∈ db.ilis, x.id = i) :
    ∃ x ∈ (iliStep db r).ilis, x.id = i := by
  obtain ⟨y, hy, hyi⟩ := h
  unfold iliStep
  split
  · refine ⟨_, List.mem_map.mpr ⟨y, hy, rfl⟩, ?_⟩
    split <;> simpa using hyi
  · exact ⟨y, by simp [hy], hyi⟩

theorem fold_keeps_ids (rows : List IliRow) : ∀ (db : Db) (i : String), (∃ x ∈ db.ilis, x.id = i) →
    ∃ x ∈ (rows.foldl iliStep db).ilis, x.id = i := by
  induction rows with
  | nil => intro db i h; exact h
  | cons r t ih => intro db i h; exact ih _ i (iliStep_keeps_ids db r i h)

theorem C19_listed_present (db : Db) (rows : List IliRow) (r : IliRow) (hr : r ∈ rows) :
    ∃ x ∈ (addIli db rows).ilis, x.id = r.ili := by
  unfold addIli
  generalize addIliStatuses db rows = d
  induction rows generalizing d with
  | nil => simp at hr
  | cons a t ih =>
    simp only [List.foldl_cons]
    rcases List.mem_cons.mp hr with rfl | hr
    · exact fold_keeps_ids t _ _ (iliStep_has d r)
    · exact ih hr _

/-- ILI ids stay unique -/
theorem iliStep_nodup (db : Db) (r : IliRow) (h : (db.ilis.map (·.id)).Nodup) : ((iliStep db r).ilis.map (·.id)).Nodup := by
  unfold iliStep
  split
  · have : (db.ilis.map (fun x => if x.id == r.ili then { x with status := (lookupId db.ilistatuses (r.status.getD "active")).getD 0, definition := r.definition } else x)).map (·.id) = db.ilis.map (·.id) := by
      rw [List.map_map]
      apply List.map_congr_left
      intro x _
      simp only [Function.comp]
      split <;> rfl
    simp only
    rw [this]; exact h
  · rename_i hany
    simp only [List.map_append, List.map_cons, List.map_nil]
    rw [List.nodup_append]
    refine ⟨h, by simp, ?_⟩
    intro a ha b hb
    simp at hb; subst hb
    intro e; subst e
    apply hany
    simp only [List.any_eq_true, beq_iff_eq]
    obtain ⟨y, hy, hyi⟩ := List.mem_map.mp ha
    exact ⟨y, hy, hyi⟩

theorem C19_ids_unique (db : Db) (rows : List IliRow) (h : (db.ilis.map (·.id)).Nodup) :
    ((addIli db rows).ilis.map (·.id)).Nodup := by
  unfold addIli
  have : ∀ (rows : List IliRow) (d : Db), (d.ilis.map (·.id)).Nodup → ((rows.foldl iliStep d).ilis.map (·.id)).Nodup := by
    intro rows
    induction rows with
    | nil => intro d h; exact h
    | cons r t ih => intro d h; exact ih _ (iliStep_nodup d r h)
  exact this rows _ h

/-! ### loading the same file again changes nothing -/

def upd (sts : List (Nat × String)) (r : IliRow) (x : RIli) : RIli :=
  if x.id == r.ili then { x with status := stOf sts r, definition := r.definition } else x

theorem upd_id (sts : List (Nat × String)) (r : IliRow) (x : RIli) : (upd sts r x).id = x.id := by
  unfold upd; split <;> rfl

theorem iliStep_update (db : Db) (r : IliRow) (h : db.ilis.any (fun x => x.id == r.ili) = true) :
    iliStep db r = { db with ilis := db.ilis.map (upd db.ilistatuses r) } := by
  unfold iliStep
  simp only [h, if_true]
  rfl

theorem fold_update (rows : List IliRow) : ∀ (db : Db), (∀ r ∈ rows, db.ilis.any (fun x => x.id == r.ili) = true) →
    rows.foldl iliStep db = { db with ilis := db.ilis.map (fun x => rows.foldl (fun x r => upd db.ilistatuses r x) x) } := by
  induction rows with
  | nil => intro db _; simp
  | cons r t ih =>
    intro db h
    simp only [List.foldl_cons]
    rw [iliStep_update db r (h r List.mem_cons_self)]
    rw [ih]
    · simp only [List.map_map]
      rfl
    · intro r' hr'
      have := h r' (List.mem_cons_of_mem _ hr')
      simp only [List.any_eq_true, List.any_map, Function.comp] at this ⊢
      obtain ⟨y, hy, hyi⟩ := this
      exact ⟨y, hy, by rw [upd_id]; exact hyi⟩

theorem applyRows_char (sts : List (Nat × String)) (rows : List IliRow) : ∀ (x : RIli),
    rows.foldl (fun x r => upd sts r x) x =
      match lastMatch rows x.id with
      | some r => { x with status := stOf sts r, definition := r.definition }
      | none => x := by
  induction rows using rev_ind with
  | hnil => intro x; simp [lastMatch]
  | snoc init r ih =>
    intro x
    rw [List.foldl_append, lastMatch_append]
    simp only [List.foldl_cons, List.foldl_nil]
    rw [ih x]
    by_cases hm : x.id = r.ili
    · have h1 : (r.ili == x.id) = true := by simp [hm]
      simp only [h1, if_true]
      unfold upd
      cases lastMatch init x.id <;> simp [hm]
    · have h1 : (r.ili == x.id) = false := beq_eq_false_iff_ne.mpr (fun e => hm e.symm)
      simp only [h1, Bool.false_eq_true, if_false]
      unfold upd
      cases lastMatch init x.id <;> simp [hm]

theorem lookupInsert_noop (t : List (Nat × String)) (v : String) (h : t.any (fun r => r.2 == v) = true) : lookupInsert t v = t := by
  unfold lookupInsert; simp [h]

theorem lookupInsert_keeps (t : List (Nat × String)) (v u : String) (h : t.any (fun r => r.2 == u) = true) :
    (lookupInsert t v).any (fun r => r.2 == u) = true := by
  unfold lookupInsert
  split
  · exact h
  · simp only [List.any_append, h, Bool.true_or]

theorem lookupInsert_has (t : List (Nat × String)) (v : String) : (lookupInsert t v).any (fun r => r.2 == v) = true := by
  unfold lookupInsert
  split
  · assumption
  · simp

theorem fold_lookupInsert_keeps (S : List String) : ∀ (t : List (Nat × String)) (u : String),
    t.any (fun r => r.2 == u) = true → (S.foldl lookupInsert t).any (fun r => r.2 == u) = true := by
  induction S with
  | nil => intro t u h; exact h
  | cons a S ih => intro t u h; exact ih _ u (lookupInsert_keeps t a u h)

theorem fold_lookupInsert_has (S : List String) : ∀ (t : List (Nat × String)) (v : String), v ∈ S →
    (S.foldl lookupInsert t).any (fun r => r.2 == v) = true := by
  induction S with
  | nil => intro t v h; simp at h
  | cons a S ih =>
    intro t v h
    rcases List.mem_cons.mp h with rfl | h
    · exact fold_lookupInsert_keeps S _ _ (lookupInsert_has t v)
    · exact ih _ v h

theorem fold_lookupInsert_noop (S : List String) : ∀ (t : List (Nat × String)),
    (∀ v ∈ S, t.any (fun r => r.2 == v) = true) → S.foldl lookupInsert t = t := by
  induction S with
  | nil => intro t _; rfl
  | cons a S ih =>
    intro t h
    simp only [List.foldl_cons]
    rw [lookupInsert_noop t a (h a List.mem_cons_self)]
    exact ih t (fun v hv => h v (List.mem_cons_of_mem _ hv))

/-- idempotence: loading the same index file a second time changes nothing at all -/
theorem C19_idempotent (db : Db) (rows : List IliRow) : addIli (addIli db rows) rows = addIli db rows := by
  have hst : addIliStatuses (addIli db rows) rows = addIli db rows := by
    unfold addIliStatuses
    rw [fold_lookupInsert_noop]
    intro v hv
    rw [addIli_statuses]
    unfold addIliStatuses
    exact fold_lookupInsert_has _ _ v hv
  have hunf : ∀ (d : Db), addIli d rows = rows.foldl iliStep (addIliStatuses d rows) := fun _ => rfl
  rw [hunf (addIli db rows), hst]
  rw [fold_update]
  · have : (addIli db rows).ilis.map (fun x => rows.foldl (fun x r => upd (addIli db rows).ilistatuses r x) x) = (addIli db rows).ilis := by
      conv => rhs; rw [← List.map_id (addIli db rows).ilis]
      apply List.map_congr_left
      intro x hx
      rw [applyRows_char]
      cases hl : lastMatch rows x.id with
      | none => rfl
      | some r =>
        obtain ⟨h1, h2⟩ := C19_listed_updated db rows x hx r hl
        simp only [id]
        cases x
        simp_all
    rw [this]
  · intro r hr
    obtain ⟨x, hx, hxi⟩ := C19_listed_present db rows r hr
    simp only [List.any_eq_true, beq_iff_eq]
    exact ⟨x, hx, hxi⟩

/-! ### the order of loading the index and a lexicon that uses its ILIs does not matter -/

/-- the first pass of `_insert_synsets` (`INSERT OR IGNORE` of presupposed ILIs), as a total function -/
def presupAll (presup : Nat) (ss : List Doc.Synset) (db : Db) : Db :=
  match ss.foldlM (presupStep presup) db with
  | .ok d => d
  | .error _ => db

theorem presupStep_shape (presup : Nat) (db db1 : Db) (ss : Doc.Synset) (h : presupStep presup db ss = .ok db1) :
    ∃ extra, db1 = { db with ilis := db.ilis ++ extra } ∧ ∀ x ∈ extra, ∀ y ∈ db.ilis, y.id ≠ x.id := by
  unfold presupStep at h
  split at h
  · split at h
    · rename_i hn
      simp only [Except.ok.injEq] at h
      subst h
      refine ⟨_, rfl, ?_⟩
      intro x hx y hy e
      simp at hx; subst hx
      simp only [Bool.not_eq_eq_eq_not, Bool.not_true, List.any_eq_false, beq_iff_eq] at hn
      exact hn y hy e
    · simp only [Except.ok.injEq] at h; subst h; exact ⟨[], by simp, by simp⟩
  · simp only [Except.ok.injEq] at h; subst h; exact ⟨[], by simp, by simp⟩

theorem presupAll_shape (presup : Nat) (ss : List Doc.Synset) (db : Db) :
    ∃ extra, presupAll presup ss db = { db with ilis := db.ilis ++ extra } ∧ ∀ x ∈ extra, ∀ y ∈ db.ilis, y.id ≠ x.id := by
  unfold presupAll
  cases h : ss.foldlM (presupStep presup) db with
  | error e => exact ⟨[], by simp, by simp⟩
  | ok d =>
    simp only
    refine foldlM_ok_induct (presupStep presup)
      (fun _ b b' => ∃ extra, b' = { b with ilis := b.ilis ++ extra } ∧ ∀ x ∈ extra, ∀ y ∈ b.ilis, y.id ≠ x.id) ?_ ?_ ss db d h
    · intro b; exact ⟨[], by simp, by simp⟩
    · intro a t b b1 b' hf _ ih
      obtain ⟨e1, h1, f1⟩ := presupStep_shape presup b b1 a hf
      obtain ⟨e2, h2, f2⟩ := ih
      refine ⟨e1 ++ e2, by rw [h2, h1]; simp, ?_⟩
      intro x hx y hy
      rcases List.mem_append.mp hx with hx | hx
      · exact f1 x hx y hy
      · exact f2 x hx y (by rw [h1]; simp [hy])

/-- **order independence** (status and definition): load the index first and then the synsets that
name its ILIs, or the other way round — every ILI listed in the index ends with the same status and
the same definition, namely those of its last row in the file -/
theorem C19_order_independent (db : Db) (rows : List IliRow) (presup : Nat) (ss : List Doc.Synset)
    (xa xb : RIli) (r : IliRow)
    (ha : xa ∈ (presupAll presup ss (addIli db rows)).ilis) (hb : xb ∈ (addIli (presupAll presup ss db) rows).ilis)
    (hla : lastMatch rows xa.id = some r) (hlb : lastMatch rows xb.id = some r) :
    xa.status = xb.status ∧ xa.definition = xb.definition ∧
    (presupAll presup ss (addIli db rows)).ilistatuses = (addIli (presupAll presup ss db) rows).ilistatuses := by
  obtain ⟨eA, hA, fA⟩ := presupAll_shape presup ss (addIli db rows)
  obtain ⟨eB, hB, _⟩ := presupAll_shape presup ss db
  have hstB : (presupAll presup ss db).ilistatuses = db.ilistatuses := by rw [hB]
  have hstat : (addIli (presupAll presup ss db) rows).ilistatuses = (addIli db rows).ilistatuses := by
    rw [addIli_statuses, addIli_statuses]
    unfold addIliStatuses
    simp only [hstB]
  have hstA : (presupAll presup ss (addIli db rows)).ilistatuses = (addIli db rows).ilistatuses := by rw [hA]
  -- order A: the listed ILI already exists after the index, so the lexicon's first pass ignores it
  have hxa : xa ∈ (addIli db rows).ilis := by
    rw [hA] at ha
    simp only [List.mem_append] at ha
    rcases ha with ha | ha
    · exact ha
    · exfalso
      -- the id is listed, hence present after the index
      have hr : r ∈ rows ∧ r.ili = xa.id := by
        have : ∀ (rows : List IliRow) (id : String) (r : IliRow), lastMatch rows id = some r → r ∈ rows ∧ r.ili = id := by
          intro rows
          induction rows using rev_ind with
          | hnil => intro id r h; simp [lastMatch] at h
          | snoc init a ih =>
            intro id r h
            rw [lastMatch_append] at h
            split at h
            · rename_i hm
              simp at h; subst h
              exact ⟨by simp, by simpa using hm⟩
            · obtain ⟨h1, h2⟩ := ih id r h
              exact ⟨by simp [h1], h2⟩
        exact this rows xa.id r hla
      obtain ⟨y, hy, hyi⟩ := C19_listed_present db rows r hr.1
      exact fA xa ha y hy (by rw [hyi, hr.2])
  obtain ⟨a1, a2⟩ := C19_listed_updated db rows xa hxa r hla
  obtain ⟨b1, b2⟩ := C19_listed_updated (presupAll presup ss db) rows xb hb r hlb
  refine ⟨?_, by rw [a2, b2], by rw [hstA, hstat]⟩
  rw [a1, b1, hstat]

/-! ### non-vacuity -/
def demo : Db := { ilis := [⟨1, "i1", 1, none, none⟩, ⟨2, "i2", 3, some "old", none⟩], ilistatuses := [(1, "presupposed"), (2, "proposed"), (3, "active")] }
def file : List IliRow := [⟨"i1", none, some "first"⟩, ⟨"i3", some "deprecated", none⟩, ⟨"i1", none, some "second"⟩]

example : (addIli demo file).ilis = [⟨1, "i1", 3, some "second", none⟩, ⟨2, "i2", 3, some "old", none⟩, ⟨3, "i3", 4, none, none⟩] := by decide
example : (addIli demo file).ilistatuses = [(1, "presupposed"), (2, "proposed"), (3, "active"), (4, "deprecated")] := by decide

end WnVerif.Props.C19
