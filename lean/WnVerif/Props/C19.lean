import WnVerif.Model.Api
namespace WnVerif.Props.C19
theorem placeholder_true : True := trivial
end WnVerif.Props.C19
