import WnVerif.Model.Graph
namespace WnVerif.Props.C16
theorem placeholder_true : True := trivial
end WnVerif.Props.C16
