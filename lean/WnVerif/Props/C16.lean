/-
C16 — results are a function of database content and arguments only.

A Lean function is deterministic by construction, so the content of this property is at the
places where the Python code iterates over a `set` (whose iteration order depends on the hash
seed) or hands one to SQL.  The model represents such a set by a list; the theorems say that the
result does not depend on which enumeration of the set that list is:
  * `sorted(common)` in `_shortest_hyp_paths` / `common_hypernyms` (fix 38f69e7),
  * `sorted(set(...))` in the export of subcat ids and 1.0 frames (fix 678e2e1) and in `_add_ili`,
  * the candidate set of a lemmatizer handed to `find_entries` / `find_senses` / `find_synsets`
    as `form IN (…)`.
-/
import WnVerif.Model.Graph
import WnVerif.Model.Api
import WnVerif.Lemmas.ListAux
import WnVerif.Lemmas.Sorted
namespace WnVerif.Props.C16
open WnVerif.Graph WnVerif.Db

/-! ### strictly sorted lists are determined by their elements -/

theorem sorted_unique {α} (lt : α → α → Prop) (asymm : ∀ a b, lt a b → ¬ lt b a) :
    ∀ (l l' : List α), l.Pairwise lt → l'.Pairwise lt → (∀ x, x ∈ l ↔ x ∈ l') → l = l' := by
  intro l
  induction l with
  | nil =>
    intro l' _ _ h
    cases l' with
    | nil => rfl
    | cons b t => exact absurd ((h b).mpr List.mem_cons_self) (by simp)
  | cons a t ih =>
    intro l' hl hl' h
    cases l' with
    | nil => exact absurd ((h a).mp List.mem_cons_self) (by simp)
    | cons b t' =>
      rw [List.pairwise_cons] at hl hl'
      have irrefl : ∀ x, ¬ lt x x := fun x hx => asymm x x hx hx
      have hab : a = b := by
        rcases List.mem_cons.mp ((h a).mp List.mem_cons_self) with e | ha
        · exact e
        · rcases List.mem_cons.mp ((h b).mpr List.mem_cons_self) with e | hb
          · exact e.symm
          · exact absurd (hl.1 b hb) (asymm _ _ (hl'.1 a ha))
      subst hab
      congr 1
      apply ih t' hl.2 hl'.2
      intro x
      constructor
      · intro hx
        rcases List.mem_cons.mp ((h x).mp (List.mem_cons_of_mem _ hx)) with e | hx'
        · subst e; exact absurd (hl.1 x hx) (irrefl x)
        · exact hx'
      · intro hx
        rcases List.mem_cons.mp ((h x).mpr (List.mem_cons_of_mem _ hx)) with e | hx'
        · subst e; exact absurd (hl'.1 x hx) (irrefl x)
        · exact hx'

/-! ### `sorted(common)` -/

theorem nkey_inj (a b : N) (h : nkey a = nkey b) : a = b := by
  cases a <;> cases b <;> simp [nkey] at h ⊢ <;> omega

theorem insertN_sorted (a : N) : ∀ (l : List N), l.Pairwise (fun x y => nkey x < nkey y) → a ∉ l →
    (insertN a l).Pairwise (fun x y => nkey x < nkey y) := by
  intro l
  induction l with
  | nil => intro _ _; simp [insertN]
  | cons b t ih =>
    intro h ha
    rw [List.pairwise_cons] at h
    have hab : a ≠ b := fun e => ha (by rw [e]; exact List.mem_cons_self)
    have hat : a ∉ t := fun e => ha (List.mem_cons_of_mem _ e)
    simp only [insertN]
    split
    · rename_i hle
      have hlt : nkey a < nkey b := by
        rcases Nat.lt_or_eq_of_le hle with h1 | h1
        · exact h1
        · exact absurd (nkey_inj a b h1) hab
      rw [List.pairwise_cons]
      refine ⟨?_, List.pairwise_cons.mpr h⟩
      intro x hx
      rcases List.mem_cons.mp hx with rfl | hx
      · exact hlt
      · exact Nat.lt_trans hlt (h.1 x hx)
    · rename_i hgt
      rw [List.pairwise_cons]
      refine ⟨?_, ih h.2 hat⟩
      intro x hx
      rcases (mem_insertN a t x).mp hx with rfl | hx
      · omega
      · exact h.1 x hx

theorem sortN_sorted : ∀ (l : List N), l.Nodup → (sortN l).Pairwise (fun x y => nkey x < nkey y) := by
  intro l
  induction l with
  | nil => intro _; simp [sortN]
  | cons a t ih =>
    intro h
    rw [List.nodup_cons] at h
    show (insertN a (sortN t)).Pairwise _
    exact insertN_sorted a _ (ih h.2) (fun hm => h.1 ((mem_sortN t a).mp hm))

/-- whatever order the elements of the Python set `common` are iterated in, `sorted(common)` is
the same list -/
theorem C16_sorted_common_oblivious (l l' : List N) (h : l.Nodup) (h' : l'.Nodup) (hm : ∀ x, x ∈ l ↔ x ∈ l') :
    sortN l = sortN l' := by
  apply sorted_unique (fun x y => nkey x < nkey y) (fun a b h1 h2 => by omega) _ _ (sortN_sorted l h) (sortN_sorted l' h')
  intro x
  rw [mem_sortN, mem_sortN]; exact hm x

/-- … in particular `commonOf` (the model of `sorted(common)`) equals the sort of any other
enumeration of the same set -/
theorem C16_common_hypernyms_oblivious (fs fo : List (List N)) (enum : List N) (hn : enum.Nodup)
    (hm : ∀ x, x ∈ enum ↔ (x ∈ fs.flatten ∧ x ∈ fo.flatten)) : sortN enum = commonOf fs fo := by
  unfold commonOf
  apply C16_sorted_common_oblivious _ _ hn ((dedup_nodup _).sublist List.filter_sublist)
  intro x
  rw [hm x]
  simp only [List.mem_filter, mem_dedup, List.contains_iff_mem]

/-! ### `sorted(set(strings))` -/

/-- `sorted(set(xs))` depends only on which strings occur in `xs` — not on their order or
multiplicity (exported subcat ids, 1.0 frame senses, ILI statuses) -/
theorem C16_sorted_set_oblivious (l l' : List String) (hm : ∀ x, x ∈ l ↔ x ∈ l') : sortedSet l = sortedSet l' := by
  apply sorted_unique (· < ·) (fun a b h => String.lt_asymm h) _ _ (sortedSet_sorted l) (sortedSet_sorted l')
  intro x
  rw [mem_sortedSet, mem_sortedSet]; exact hm x

/-! ### a candidate set handed to SQL as `form IN (…)` -/

theorem contains_congr (l l' : List String) (hm : ∀ x, x ∈ l ↔ x ∈ l') (x : String) : l.contains x = l'.contains x := by
  rw [Bool.eq_iff_iff]; simp [hm x]

theorem isEmpty_congr (l l' : List String) (hm : ∀ x, x ∈ l ↔ x ∈ l') : l.isEmpty = l'.isEmpty := by
  cases l with
  | nil =>
    cases l' with
    | nil => rfl
    | cons b t => exact absurd ((hm b).mpr List.mem_cons_self) (by simp)
  | cons a t =>
    cases l' with
    | nil => exact absurd ((hm a).mp List.mem_cons_self) (by simp)
    | cons b t' => rfl

theorem formMatch_congr (db : Db) (l l' : List String) (hm : ∀ x, x ∈ l ↔ x ∈ l') (n a : Bool) (e : Nat) :
    formMatch db l n a e = formMatch db l' n a e := by
  unfold formMatch
  congr 1
  funext f
  rw [contains_congr l l' hm]
  cases f.norm with
  | none => rfl
  | some nf => simp only [contains_congr l l' hm]

/-- `words(form)`, `senses(form)`, `synsets(form)`: the query result does not depend on the
enumeration order (or multiplicity) of the lemmatizer's candidate set -/
theorem C16_find_entries_forms_oblivious (db : Db) (id : Option String) (l l' : List String) (hm : ∀ x, x ∈ l ↔ x ∈ l')
    (pos : Option String) (lexids : List Nat) (n a : Bool) :
    findEntries db id l pos lexids n a = findEntries db id l' pos lexids n a := by
  unfold findEntries
  simp only [isEmpty_congr l l' hm, formMatch_congr db l l' hm]

theorem C16_find_senses_forms_oblivious (db : Db) (id : Option String) (l l' : List String) (hm : ∀ x, x ∈ l ↔ x ∈ l')
    (pos : Option String) (lexids : List Nat) (n a : Bool) :
    findSenses db id l pos lexids n a = findSenses db id l' pos lexids n a := by
  unfold findSenses
  simp only [isEmpty_congr l l' hm, formMatch_congr db l l' hm]

theorem C16_find_synsets_forms_oblivious (db : Db) (id : Option String) (l l' : List String) (hm : ∀ x, x ∈ l ↔ x ∈ l')
    (pos ili : Option String) (lexids : List Nat) (n a : Bool) :
    findSynsets db id l pos ili lexids n a = findSynsets db id l' pos ili lexids n a := by
  unfold findSynsets
  simp only [isEmpty_congr l l' hm, formMatch_congr db l l' hm]

/-! ### non-vacuity -/
example : sortN [some 3, none, some 1] = sortN [some 1, some 3, none] := by decide
example : sortedSet ["b", "a", "b", "c"] = ["a", "b", "c"] := by decide

end WnVerif.Props.C16
