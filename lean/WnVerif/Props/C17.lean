/-
C17 — Morphy returns only valid lemmas when initialised and all candidates otherwise.
Model: `Model/Morphy.lean` (transcription of `wn/morphy.py`).
-/
import WnVerif.Model.Morphy
import WnVerif.Gen.Morphy
namespace WnVerif.Props.C17
open WnVerif.Morphy

/-- tie 1: the rule table of the specification equals the table the source computes now
(`Morphy()._rules` after the `_System.WN` filter), and the key order of `DETACHMENT_RULES` -/
theorem C17_rules_eq_source : WnVerif.Gen.morphy_rules = rules ∧ WnVerif.Gen.morphy_pos_order = posOrder := by
  decide

/-- satellite adjectives share the adjective rules -/
theorem C17_sat_rules : rulesFor "s" = rulesFor "a" := by decide

theorem mem_lemmas (ws : List Word) (pos : String) (l : Str) :
    l ∈ lemmas ws pos ↔ ∃ w ∈ ws, w.pos = pos ∧ w.forms.head? = some l := by
  simp only [lemmas, List.mem_filterMap]
  constructor
  · rintro ⟨w, hw, h⟩
    split at h
    · rename_i hp; exact ⟨w, hw, by simpa using hp, h⟩
    · simp at h
  · rintro ⟨w, hw, hp, h⟩
    exact ⟨w, hw, by simp [hp, h]⟩

theorem mem_exceptionsOf (ws : List Word) (pos : String) (form l : Str) :
    l ∈ exceptionsOf ws pos form ↔ ∃ w ∈ ws, w.pos = pos ∧ ∃ others, w.forms = l :: others ∧ form ∈ others := by
  simp only [exceptionsOf, List.mem_filterMap]
  constructor
  · rintro ⟨w, hw, h⟩
    split at h
    · rename_i lemma others hf
      split at h
      · rename_i hc
        simp only [Bool.and_eq_true, beq_iff_eq, List.contains_iff_mem] at hc
        simp at h; subst h
        exact ⟨w, hw, hc.1, others, hf, hc.2⟩
      · simp at h
    · simp at h
  · rintro ⟨w, hw, hp, others, hf, hm⟩
    refine ⟨w, hw, ?_⟩
    rw [hf]
    simp [hp, hm]

theorem mem_applyRule (form : Str) (r : Str × Str) (c : Str) :
    applyRule form r = some c ↔
      r.1.isSuffixOf form = true ∧ r.1.length < form.length ∧ c = form.take (form.length - r.1.length) ++ r.2 := by
  unfold applyRule
  split
  · rename_i h
    simp only [Bool.and_eq_true, decide_eq_true_eq] at h
    simp [h.1, h.2, eq_comm]
  · rename_i h
    simp only [Bool.and_eq_true, decide_eq_true_eq, not_and] at h
    constructor
    · intro hc; simp at hc
    · rintro ⟨h1, h2, _⟩; exact absurd h2 (h h1)

/-- what an initialised `_morphstr` returns: exactly the query itself if it is a lemma of the
part of speech, the lemmas of words listing the query as another form, and the rule outputs
that are lemmas -/
theorem mem_morphstr_init (ws : List Word) (form : Str) (pos : String) (l : Str) :
    l ∈ morphstr (some ws) form pos ↔
      (l = form ∧ form ∈ lemmas ws pos) ∨ l ∈ exceptionsOf ws pos form ∨
      (∃ r ∈ rulesFor pos, applyRule form r = some l ∧ l ∈ lemmas ws pos) := by
  simp only [morphstr, List.mem_append, List.mem_filterMap]
  constructor
  · rintro ((h | h) | h)
    · split at h
      · rename_i hc
        simp at h; subst h
        exact Or.inl ⟨rfl, by simpa using hc⟩
      · simp at h
    · exact Or.inr (Or.inl h)
    · obtain ⟨r, hr, h⟩ := h
      split at h
      · rename_i c hc
        split at h
        · rename_i hl
          simp at h; subst h
          exact Or.inr (Or.inr ⟨r, hr, hc, by simpa using hl⟩)
        · simp at h
      · simp at h
  · rintro (⟨rfl, hl⟩ | h | ⟨r, hr, hc, hl⟩)
    · left; left
      simp [hl]
    · left; right; exact h
    · right
      refine ⟨r, hr, ?_⟩
      rw [hc]
      simp [hl]

/-- **C17_sound**: an initialised Morphy returns, for each part of speech, only lemmas of
the wordnet's words of that part of speech -/
theorem C17_sound (ws : List Word) (form : Str) (pos : String) (l : Str)
    (h : l ∈ morphstr (some ws) form pos) : l ∈ lemmas ws pos := by
  rcases (mem_morphstr_init ws form pos l).mp h with ⟨rfl, hl⟩ | h | ⟨_, _, _, hl⟩
  · exact hl
  · obtain ⟨w, hw, hp, others, hf, _⟩ := (mem_exceptionsOf ws pos form l).mp h
    exact (mem_lemmas ws pos l).mpr ⟨w, hw, hp, by simp [hf]⟩
  · exact hl

/-- **C17_complete_self**: the query itself when it is such a lemma -/
theorem C17_complete_self (ws : List Word) (form : Str) (pos : String) (h : form ∈ lemmas ws pos) :
    form ∈ morphstr (some ws) form pos :=
  (mem_morphstr_init ws form pos form).mpr (Or.inl ⟨rfl, h⟩)

/-- **C17_complete_exceptions**: every lemma of a word listing the query as an additional form -/
theorem C17_complete_exceptions (ws : List Word) (form : Str) (pos : String) (w : Word) (hw : w ∈ ws)
    (hp : w.pos = pos) (lemma : Str) (others : List Str) (hf : w.forms = lemma :: others)
    (hm : form ∈ others) : lemma ∈ morphstr (some ws) form pos :=
  (mem_morphstr_init ws form pos lemma).mpr
    (Or.inr (Or.inl ((mem_exceptionsOf ws pos form lemma).mpr ⟨w, hw, hp, others, hf, hm⟩)))

/-- **C17_complete_rules**: every lemma obtained by one of the detachment rules -/
theorem C17_complete_rules (ws : List Word) (form : Str) (pos : String) (suffix repl : Str)
    (hr : (suffix, repl) ∈ rulesFor pos) (hs : suffix.isSuffixOf form = true) (hl : suffix.length < form.length)
    (hc : form.take (form.length - suffix.length) ++ repl ∈ lemmas ws pos) :
    form.take (form.length - suffix.length) ++ repl ∈ morphstr (some ws) form pos :=
  (mem_morphstr_init ws form pos _).mpr
    (Or.inr (Or.inr ⟨(suffix, repl), hr, (mem_applyRule form (suffix, repl) _).mpr ⟨hs, hl, rfl⟩, hc⟩))

/-- **C17_uninit** / **C17_no_full_suffix**: an uninitialised `_morphstr` returns exactly the
rule outputs, and a rule applies only when its suffix is a proper suffix of the word -/
theorem C17_uninit (form : Str) (pos : String) (c : Str) :
    c ∈ morphstr none form pos ↔
      ∃ suffix repl, (suffix, repl) ∈ rulesFor pos ∧ suffix.isSuffixOf form = true ∧
        suffix.length < form.length ∧ c = form.take (form.length - suffix.length) ++ repl := by
  simp only [morphstr, List.mem_filterMap]
  constructor
  · rintro ⟨r, hr, h⟩
    exact ⟨r.1, r.2, hr, (mem_applyRule form r c).mp h⟩
  · rintro ⟨s, rp, hr, h⟩
    exact ⟨(s, rp), hr, (mem_applyRule form (s, rp) c).mpr h⟩

/-! ### `__call__` -/

theorem posOrder_nodup : posOrder.Nodup := by decide

theorem resultFor_filterMap (f : String → Option (Option String × List Str)) (hf : ∀ p e, f p = some e → e.1 = some p) :
    ∀ (L : List String), L.Nodup → ∀ (p : String) (l : Str),
      l ∈ resultFor (L.filterMap f) (some p) ↔ p ∈ L ∧ ∃ e, f p = some e ∧ l ∈ e.2 := by
  intro L
  induction L with
  | nil => intro _ p l; simp [resultFor]
  | cons a t ih =>
    intro hn p l
    obtain ⟨hat, hnt⟩ := List.nodup_cons.mp hn
    cases hfa : f a with
    | none =>
      simp only [List.filterMap_cons, hfa, ih hnt p l, List.mem_cons]
      constructor
      · rintro ⟨hp, h⟩; exact ⟨Or.inr hp, h⟩
      · rintro ⟨hp | hp, e, he, hl⟩
        · subst hp; rw [hfa] at he; simp at he
        · exact ⟨hp, e, he, hl⟩
    | some e =>
      have hk := hf a e hfa
      simp only [List.filterMap_cons, hfa, List.mem_cons]
      have hsplit : ∀ x, x ∈ resultFor (e :: t.filterMap f) (some p) ↔
          ((e.1 = some p ∧ x ∈ e.2) ∨ x ∈ resultFor (t.filterMap f) (some p)) := by
        intro x
        simp only [resultFor, List.filter_cons]
        by_cases hep : e.1 = some p
        · simp [hep]
        · have : (e.1 == some p) = false := by simpa using hep
          simp [this, hep]
      rw [hsplit, ih hnt p l]
      constructor
      · rintro (⟨hep, hl⟩ | ⟨hp, e', he', hl⟩)
        · have : a = p := by rw [hk] at hep; simpa using hep
          subst this; exact ⟨Or.inl rfl, e, hfa, hl⟩
        · exact ⟨Or.inr hp, e', he', hl⟩
      · rintro ⟨hp | hp, e', he', hl⟩
        · subst hp; rw [hfa] at he'; simp at he'; subst he'
          exact Or.inl ⟨hk, hl⟩
        · exact Or.inr ⟨hp, e', he', hl⟩

/-- the parts of speech `__call__` consults -/
def posListOf (pos : Option String) : List String :=
  match pos with
  | none => posOrder
  | some p => if posOrder.contains p then [p] else []

theorem posListOf_nodup (pos : Option String) : (posListOf pos).Nodup := by
  cases pos with
  | none => exact posOrder_nodup
  | some p =>
    show (if posOrder.contains p then [p] else []).Nodup
    split
    · exact List.nodup_cons.mpr ⟨by simp, List.nodup_nil⟩
    · exact List.nodup_nil

theorem filter_true' {α} (l : List α) : l.filter (fun _ => true) = l := by
  induction l with
  | nil => rfl
  | cons a t ih => simp [ih]

theorem call_init_eq (ws : List Word) (form : Str) (pos : Option String) :
    call (some ws) form pos = (posListOf pos).filterMap (fun p =>
      if (morphstr (some ws) form p).isEmpty then none else some (some p, morphstr (some ws) form p)) := by
  simp only [call, posListOf, Option.isSome_some, Option.isNone_some, Bool.false_and, if_true,
    List.nil_append, Bool.false_eq_true, if_false, List.contains_nil, Bool.not_false, filter_true']
  rfl

/-- **C17_call_init**: the dictionary returned by an initialised Morphy maps each consulted
part of speech to exactly its `_morphstr` candidates (and has no other key) -/
theorem C17_call_init (ws : List Word) (form : Str) (pos : Option String) (p : String) (l : Str) :
    l ∈ resultFor (call (some ws) form pos) (some p) ↔ p ∈ posListOf pos ∧ l ∈ morphstr (some ws) form p := by
  rw [call_init_eq, resultFor_filterMap _ _ _ (posListOf_nodup pos)]
  · constructor
    · rintro ⟨hp, e, he, hl⟩
      refine ⟨hp, ?_⟩
      split at he
      · simp at he
      · simp at he; subst he; exact hl
    · rintro ⟨hp, hl⟩
      refine ⟨hp, (some p, morphstr (some ws) form p), ?_, hl⟩
      have hne : (morphstr (some ws) form p).isEmpty = false := by
        cases hm : morphstr (some ws) form p with
        | nil => rw [hm] at hl; simp at hl
        | cons a t => rfl
      simp [hne]
  · intro q e he
    split at he
    · simp at he
    · simp at he; subst he; rfl

theorem C17_call_init_no_none_key (ws : List Word) (form : Str) (pos : Option String) :
    resultFor (call (some ws) form pos) none = [] := by
  have : ∀ e ∈ call (some ws) form pos, (e.1 == none) = false := by
    intro e he
    rw [call_init_eq] at he
    obtain ⟨q, _, h⟩ := List.mem_filterMap.mp he
    split at h
    · simp at h
    · simp at h; subst h; rfl
  simp only [resultFor]
  rw [List.filter_eq_nil_iff.mpr (by intro e he; simp [this e he])]
  rfl

/-- **C17_sound_call**: every lemma an initialised Morphy reports under part of speech `p` is
a lemma of a word of part of speech `p` -/
theorem C17_sound_call (ws : List Word) (form : Str) (pos : Option String) (p : String) (l : Str)
    (h : l ∈ resultFor (call (some ws) form pos) (some p)) : l ∈ lemmas ws p :=
  C17_sound ws form p l ((C17_call_init ws form pos p l).mp h).2

/-- the uninitialised lemmatizer always returns the original form (under the requested key) -/
theorem C17_uninit_original (form : Str) (pos : Option String) :
    form ∈ resultFor (call none form pos) pos := by
  simp [call, resultFor]

/-- non-vacuity: `churches`/n with lemma inventory {church} gives {church}; uninitialised
gives church, churche, churches -/
def demoWords : List Word := [⟨"n", ["church".toList]⟩, ⟨"v", ["go".toList, "went".toList]⟩]

theorem C17_example :
    resultFor (call (some demoWords) "churches".toList (some "n")) (some "n") = ["church".toList] ∧
    resultFor (call (some demoWords) "went".toList none) (some "v") = ["go".toList] ∧
    resultFor (call none "es".toList (some "v")) (some "v") = ["es".toList, "e".toList] := by
  decide

end WnVerif.Props.C17
