/-
C12 — relations borrowed through expand lexicons are mapped by ILI as documented.
Theorems over `expandedSynsetRelations`, `synsetIterRelations`, `mkWordnet` (`Model/Api.lean`).
-/
import WnVerif.Model.Api
import WnVerif.Lemmas.DbAux
import WnVerif.Gen.Misc
namespace WnVerif.Props.C12
open WnVerif.Db WnVerif.Glob

/-- tie to the source: the id of the placeholder synset and its pseudo rowid -/
theorem C12_gen_inferred (ili : String) (lex : Nat) :
    (inferred ili lex).id = Gen.inferred_synset ∧ (inferred ili lex).rowid = Gen.non_rowid := by
  constructor
  · show "*INFERRED*" = Gen.inferred_synset; decide
  · show 0 = Gen.non_rowid; decide

/-- the expand-lexicon synsets sharing x's ILI (other than x itself) -/
def expandSources (db : Db) (w : Wordnet) (x : SynsetData) (ili : String) : List SynsetData :=
  (findSynsets db none [] none (some ili) w.expids false true).filter (fun s => s.rowid != x.rowid && s.rowid != 0)

/-- exact characterisation: a borrowed relation is (r, source id, target) where r is a relation of
an expand-lexicon synset sharing x's ILI, the relation's own target has an ILI `t`, and the
reported target is a synset of the scope carrying `t` — or the placeholder carrying `t` when the
scope has none -/
theorem C12_expanded_exact (db : Db) (w : Wordnet) (x : SynsetData) (types : List String) (ili : String)
    (hili : x.ili = some ili) (hexp : w.expids ≠ []) (e : RelData SynsetData × String × SynsetData) :
    e ∈ expandedSynsetRelations db w x types ↔
      ∃ r ∈ synsetRelations db ((expandSources db w x ili).map (·.rowid)) types w.expids,
        ∃ t, r.target.ili = some t ∧ e.1 = r ∧
          e.2.1 = (((expandSources db w x ili).find? (fun s => s.rowid == r.source)).map (·.id)).getD "" ∧
          ((e.2.2 ∈ synsetsForIlis db [t] (entityLexids db w x.lex)) ∨
           (synsetsForIlis db [t] (entityLexids db w x.lex) = [] ∧ e.2.2 = inferred t x.lex)) := by
  unfold expandedSynsetRelations
  simp only [hili]
  have hne : w.expids.isEmpty = false := by simpa [List.isEmpty_iff] using hexp
  simp only [hne, Bool.false_eq_true, if_false, List.mem_flatMap]
  constructor
  · rintro ⟨r, hr, he⟩
    refine ⟨r, hr, ?_⟩
    split at he
    · simp at he
    · rename_i t ht
      refine ⟨t, ht, ?_⟩
      split at he
      · rename_i hemp
        have he' := List.mem_singleton.mp he
        subst he'
        exact ⟨rfl, rfl, Or.inr ⟨by simpa [List.isEmpty_iff] using hemp, rfl⟩⟩
      · simp only [List.mem_map] at he
        obtain ⟨l, hl, rfl⟩ := he
        exact ⟨rfl, rfl, Or.inl hl⟩
  · rintro ⟨r, hr, t, ht, h1, h2, h3⟩
    refine ⟨r, hr, ?_⟩
    obtain ⟨e1, e2, e3⟩ := e
    simp only at h1 h2 h3
    subst h1 h2
    simp only [ht]
    rcases h3 with h3 | ⟨h3, h4⟩
    · have : (synsetsForIlis db [t] (entityLexids db w x.lex)).isEmpty = false := by
        cases hh : synsetsForIlis db [t] (entityLexids db w x.lex) with
        | nil => rw [hh] at h3; simp at h3
        | cons _ _ => rfl
      simp only [this, Bool.false_eq_true, if_false, List.mem_map]
      exact ⟨e3, h3, rfl⟩
    · subst h4
      simp [h3, expandSources]

/-- the resolved targets carry the ILI of the expand relation's target -/
theorem C12_target_ili (db : Db) (t : String) (lexids : List Nat) (y : SynsetData)
    (h : y ∈ synsetsForIlis db [t] lexids) : y.ili = some t ∧ y.lex ∈ lexids := by
  simp only [synsetsForIlis, List.mem_map, List.mem_filter, Bool.and_eq_true, inLex, List.contains_iff_mem] at h
  obtain ⟨row, ⟨_, hi, hl⟩, rfl⟩ := h
  refine ⟨?_, hl⟩
  split at hi
  · rename_i j hj
    simp at hi; subst hi
    simp [synsetData, hj]
  · simp at hi

/-- … conversely every synset of the scope with that ILI is a target (none is skipped) -/
theorem C12_target_complete (db : Db) (t : String) (lexids : List Nat) (row : RSynset) (hrow : row ∈ db.synsets)
    (hi : iliIdOf db row.ili = some t) (hl : row.lex ∈ lexids) : synsetData db row ∈ synsetsForIlis db [t] lexids := by
  simp only [synsetsForIlis, List.mem_map, List.mem_filter, Bool.and_eq_true, inLex, List.contains_iff_mem]
  exact ⟨row, ⟨hrow, by simp [hi], hl⟩, rfl⟩

/-- targets without an ILI are dropped: every borrowed relation's own target has an ILI -/
theorem C12_targets_without_ili_dropped (db : Db) (w : Wordnet) (x : SynsetData) (types : List String)
    (e : RelData SynsetData × String × SynsetData) (h : e ∈ expandedSynsetRelations db w x types) :
    e.1.target.ili ≠ none ∧ e.2.2.ili = e.1.target.ili := by
  unfold expandedSynsetRelations at h
  split at h
  · simp at h
  · split at h
    · simp at h
    · simp only [List.mem_flatMap] at h
      obtain ⟨r, _, hr⟩ := h
      split at hr
      · simp at hr
      · rename_i t ht
        split at hr
        · simp at hr; subst hr; simp [ht, inferred]
        · simp only [List.mem_map] at hr
          obtain ⟨l, hl, rfl⟩ := hr
          simp [ht, (C12_target_ili db t _ l hl).1]

/-- the reported relation keeps the expand lexicon's source, target and lexicon: it is a relation
row of an expand lexicon whose target is owned by an expand lexicon -/
theorem C12_keeps_expand_relation (db : Db) (w : Wordnet) (x : SynsetData) (types : List String)
    (e : RelData SynsetData × String × SynsetData) (h : e ∈ expandedSynsetRelations db w x types) :
    e.1.target.lex ∈ w.expids ∧ ∃ row ∈ db.synrels, row.lex ∈ w.expids ∧ e.1.lexicon = lexSpec db row.lex ∧
      e.1.md = row.md ∧ e.1.source = row.source := by
  unfold expandedSynsetRelations at h
  split at h
  · simp at h
  · split at h
    · simp at h
    · simp only [List.mem_flatMap] at h
      obtain ⟨r, hr, he⟩ := h
      have hr1 : e.1 = r := by
        split at he
        · simp at he
        · split at he
          · simp at he; subst he; rfl
          · simp only [List.mem_map] at he
            obtain ⟨l, _, rfl⟩ := he; rfl
      rw [hr1]
      unfold synsetRelations at hr
      have h' := mem_dedupBy _ _ r hr
      simp only [List.mem_filterMap] at h'
      obtain ⟨row, hrow, hx⟩ := h'
      split at hx
      · rename_i hc
        simp only [Bool.and_eq_true, inLex, List.contains_iff_mem] at hc
        split at hx
        · split at hx
          · rename_i hl
            simp only [inLex, List.contains_iff_mem] at hl
            simp at hx; subst hx
            exact ⟨hl, row, hrow, hc.2, rfl, rfl, rfl⟩
          · simp at hx
        · simp at hx
      · simp at hx

/-- own relations come first, borrowed ones after -/
theorem C12_own_then_borrowed (db : Db) (w : Wordnet) (x : SynsetData) (types : List String) :
    synsetIterRelations db w x types =
      (localSynsetRelations db w x types).map (fun r => (⟨r.name, x.id, r.target.id, r.lexicon, r.md⟩, r.target)) ++
      (expandedSynsetRelations db w x types).map (fun (r, src, tgt) => (⟨r.name, src, r.target.id, r.lexicon, r.md⟩, tgt)) := rfl

/-- with `expand=''` (no expand lexicons) only own relations are used -/
theorem C12_no_expand_own_only (db : Db) (w : Wordnet) (x : SynsetData) (types : List String) (h : w.expids = []) :
    synsetIterRelations db w x types =
      (localSynsetRelations db w x types).map (fun r => (⟨r.name, x.id, r.target.id, r.lexicon, r.md⟩, r.target)) := by
  unfold synsetIterRelations expandedSynsetRelations
  cases x.ili <;> simp [h]

/-- a synset without an ILI borrows nothing -/
theorem C12_no_ili_own_only (db : Db) (w : Wordnet) (x : SynsetData) (types : List String) (h : x.ili = none) :
    expandedSynsetRelations db w x types = [] := by
  unfold expandedSynsetRelations; rw [h]

/-- `Wordnet(lexicon, expand='')` has no expand lexicons -/
theorem C12_expand_empty_string (db : Db) (lexicon lang : Option String) (w : Wordnet)
    (h : mkWordnet db lexicon lang (some "") = some w) : w.expids = [] := by
  unfold mkWordnet at h
  split at h
  · simp at h
  · simp at h; rw [← h]

/-- default expansion of a restricted Wordnet: exactly the declared dependencies that are
installed (`provider_rowid` not null), resolved through `find_lexicons`; the missing ones are
reported (the warning) -/
theorem C12_default_expand_restricted (db : Db) (lexicon lang : Option String) (w : Wordnet)
    (hr : (!truthy lexicon && !truthy lang) = false) (h : mkWordnet db lexicon lang none = some w) :
    ∃ lexs, findLexicons db (if truthy lexicon then lexicon.getD "*" else "*") lang = some lexs ∧
      w.lexids = lexs.map (·.rowid) ∧
      let deps := (lexs.map (·.rowid)).flatMap (fun l => db.deps.filter (fun d => d.dependent == l))
      let spec := " ".intercalate ((deps.filter (fun d => d.provider.isSome)).map (fun d => d.pid ++ ":" ++ d.pver))
      w.missing = (deps.filter (fun d => d.provider.isNone)).map (fun d => d.pid ++ ":" ++ d.pver) ∧
      (if spec == "" then w.expids = [] else ∃ ex, findLexicons db spec none = some ex ∧ w.expids = ex.map (·.rowid)) := by
  unfold mkWordnet at h
  simp only [hr] at h
  split at h
  · simp at h
  · rename_i lexs hl
    refine ⟨lexs, hl, ?_⟩
    simp only [Option.isNone_none, Bool.not_false, Bool.and_self, if_true, Bool.false_eq_true, if_false] at h
    split at h
    · rename_i hs
      simp at h; subst h
      simp only [true_and]
      simp at hs
      simp [hs]
    · rename_i hs
      split at h
      · simp at h
      · rename_i ex hex
        simp at h; subst h
        simp only [true_and]
        simp at hs
        simp [hs, hex]

/-- an unrestricted Wordnet expands over all lexicons (`*`) -/
theorem C12_default_expand_unrestricted (db : Db) (w : Wordnet)
    (h : mkWordnet db none none none = some w) :
    w.defaultMode = true ∧ ∃ ex, findLexicons db "*" none = some ex ∧ w.expids = ex.map (·.rowid) := by
  unfold mkWordnet at h
  simp only [truthy] at h
  split at h
  · simp at h
  · simp at h
    split at h
    · simp at h
    · rename_i ex hex
      simp at h; subst h
      exact ⟨rfl, ex, hex, rfl⟩

end WnVerif.Props.C12
