import WnVerif.Model.Api
namespace WnVerif.Props.C12
theorem placeholder_true : True := trivial
end WnVerif.Props.C12
