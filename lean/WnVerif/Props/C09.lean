/-
C09 — word-form search follows the exact / normalized / lemmatized procedure.
Model: `findHelper`, `formMatch`, `findEntries` (`Model/Api.lean`, `Model/Query.lean`); the
normalizer function `norm` is a parameter: every theorem holds for any normalizer.
-/
import WnVerif.Model.Api
import WnVerif.Model.Add
import WnVerif.Lemmas.DbAux
import WnVerif.Props.C01
namespace WnVerif.Props.C09
open WnVerif.Db

/-- the form condition of the three `find_*` queries: a stored form of the entry equals one of
the searched strings, or (normalizer active) its stored normalized form does; only the lemma
(rank 0) counts when `search_all_forms` is off -/
theorem C09_form_condition (db : Db) (forms : List String) (normalized allForms : Bool) (entry : Nat) :
    formMatch db forms normalized allForms entry = true ↔
      ∃ f ∈ db.forms, f.entry = entry ∧
        (f.form ∈ forms ∨ (normalized = true ∧ ∃ n, f.norm = some n ∧ n ∈ forms)) ∧
        (allForms = true ∨ f.rank = 0) := by
  simp only [formMatch, List.any_eq_true, Bool.and_eq_true, Bool.or_eq_true, beq_iff_eq,
    List.contains_iff_mem, decide_eq_true_eq]
  constructor
  · rintro ⟨f, hf, ⟨he, hm⟩, hr⟩
    refine ⟨f, hf, he, ?_, hr⟩
    rcases hm with hm | ⟨hn, hm⟩
    · exact Or.inl hm
    · right
      refine ⟨hn, ?_⟩
      cases hfn : f.norm with
      | none => rw [hfn] at hm; simp at hm
      | some n => rw [hfn] at hm; exact ⟨n, rfl, by simpa using hm⟩
  · rintro ⟨f, hf, he, hm, hr⟩
    refine ⟨f, hf, ⟨he, ?_⟩, hr⟩
    rcases hm with hm | ⟨hn, n, hfn, hm⟩
    · exact Or.inl hm
    · right; rw [hfn]; exact ⟨hn, by simpa using hm⟩

/-- the stored normalized column is NULL exactly when the normalized form equals the form
(`addForm`), so "normalized form equals the query" covers both columns -/
theorem C09_lemma_only (db : Db) (forms : List String) (normalized : Bool) (entry : Nat) :
    formMatch db forms normalized false entry = true →
      ∃ f ∈ db.forms, f.entry = entry ∧ f.rank = 0 := by
  intro h
  obtain ⟨f, hf, he, _, hr⟩ := (C09_form_condition db forms normalized false entry).mp h
  exact ⟨f, hf, he, by simpa using hr⟩

variable {α : Type}

/-- what the lemmatizer contributes: its proposals, or the query itself when it proposes nothing -/
def proposals (lemmatize : Option (String → Option String → LemResult)) (form : String) (pos : Option String) : LemResult :=
  match lemmatize with
  | some f => let r := f form pos; if r.isEmpty then [(pos, [form])] else r
  | none => [(pos, [form])]

theorem findHelper_eq (query : List String → Option String → List α) (rowid : α → Nat) (w : Wordnet)
    (norm : String → String) (lemmatize) (form : String) (pos : Option String) :
    findHelper query rowid w norm lemmatize form pos =
      dedupBy rowid
        (if ((proposals lemmatize form pos).flatMap (fun (p, fs) => query fs p)).isEmpty && w.normalizer
         then (proposals lemmatize form pos).flatMap (fun (p, fs) => query (fs.map norm) p)
         else (proposals lemmatize form pos).flatMap (fun (p, fs) => query fs p)) := by
  unfold findHelper proposals dedupRowid
  cases lemmatize <;> rfl

/-- **C09_first_pass**: when the first pass finds something, the result is the (de-duplicated)
union over the proposed (pos, forms) pairs of the exact / normalized-column matches — the query
itself is *not* normalized -/
theorem C09_first_pass (query : List String → Option String → List α) (rowid : α → Nat) (w : Wordnet)
    (norm : String → String) (lemmatize) (form : String) (pos : Option String)
    (h : (proposals lemmatize form pos).flatMap (fun (p, fs) => query fs p) ≠ []) :
    findHelper query rowid w norm lemmatize form pos =
      dedupBy rowid ((proposals lemmatize form pos).flatMap (fun (p, fs) => query fs p)) := by
  rw [findHelper_eq]
  have : ((proposals lemmatize form pos).flatMap (fun (p, fs) => query fs p)).isEmpty = false := by
    simpa [List.isEmpty_iff] using h
  simp [this]

/-- **C09_backoff**: only if the first pass finds nothing (over *all* proposals) and a normalizer
is active is the query normalized and matched again -/
theorem C09_backoff (query : List String → Option String → List α) (rowid : α → Nat) (w : Wordnet)
    (norm : String → String) (lemmatize) (form : String) (pos : Option String)
    (h : (proposals lemmatize form pos).flatMap (fun (p, fs) => query fs p) = []) :
    findHelper query rowid w norm lemmatize form pos =
      if w.normalizer then dedupBy rowid ((proposals lemmatize form pos).flatMap (fun (p, fs) => query (fs.map norm) p))
      else [] := by
  rw [findHelper_eq, h]
  cases w.normalizer <;> simp [dedupBy]

/-- without a lemmatizer the only proposal is the query itself with the requested pos -/
theorem C09_no_lemmatizer (form : String) (pos : Option String) : proposals none form pos = [(pos, [form])] := rfl

/-- a lemmatizer that proposes nothing falls back to the query itself -/
theorem C09_lemmatizer_empty (f : String → Option String → LemResult) (form : String) (pos : Option String)
    (h : f form pos = []) : proposals (some f) form pos = [(pos, [form])] := by
  simp [proposals, h]

/-- **C09_nodup**: results contain no duplicates -/
theorem C09_nodup (query : List String → Option String → List α) (rowid : α → Nat) (w : Wordnet)
    (norm : String → String) (lemmatize) (form : String) (pos : Option String) :
    ((findHelper query rowid w norm lemmatize form pos).map rowid).Nodup := by
  rw [findHelper_eq]; exact dedupBy_nodup rowid _

/-- **C09_sound**: every result is found by some proposed (pos, forms) pair, in the first pass or
(with the forms normalized) in the back-off -/
theorem C09_sound (query : List String → Option String → List α) (rowid : α → Nat) (w : Wordnet)
    (norm : String → String) (lemmatize) (form : String) (pos : Option String) (x : α)
    (hx : x ∈ findHelper query rowid w norm lemmatize form pos) :
    ∃ pf ∈ proposals lemmatize form pos, x ∈ query pf.2 pf.1 ∨ (w.normalizer = true ∧ x ∈ query (pf.2.map norm) pf.1) := by
  rw [findHelper_eq] at hx
  have hx' := mem_dedupBy rowid _ x hx
  split at hx'
  · rename_i hc
    simp only [Bool.and_eq_true] at hc
    obtain ⟨pf, hpf, hq⟩ := List.mem_flatMap.mp hx'
    exact ⟨pf, hpf, Or.inr ⟨hc.2, hq⟩⟩
  · obtain ⟨pf, hpf, hq⟩ := List.mem_flatMap.mp hx'
    exact ⟨pf, hpf, Or.inl hq⟩

/-- **C09_complete (union)**: everything any proposed pair finds in the deciding pass is in the
result (up to identity of the stored entity) -/
theorem C09_union_complete (query : List String → Option String → List α) (rowid : α → Nat) (w : Wordnet)
    (norm : String → String) (lemmatize) (form : String) (pos : Option String)
    (pf : Option String × List String) (hpf : pf ∈ proposals lemmatize form pos) (x : α) (hx : x ∈ query pf.2 pf.1) :
    ∃ y ∈ findHelper query rowid w norm lemmatize form pos, rowid y = rowid x := by
  have hne : (proposals lemmatize form pos).flatMap (fun (p, fs) => query fs p) ≠ [] := by
    intro he
    have : x ∈ (proposals lemmatize form pos).flatMap (fun (p, fs) => query fs p) :=
      List.mem_flatMap.mpr ⟨pf, hpf, hx⟩
    rw [he] at this; simp at this
  rw [C09_first_pass query rowid w norm lemmatize form pos hne]
  exact key_mem_dedupBy rowid _ x (List.mem_flatMap.mpr ⟨pf, hpf, hx⟩)

/-- `normalized_form` is stored only when it differs from the form (`_insert_forms`) -/
theorem C09_norm_column (db : Db) (norm : String → String) (lexid entry : Nat) (id : Option String)
    (form : String) (script : Option String) (rank : Nat) (db' : Db)
    (h : addForm db norm lexid entry id form script rank = .ok db') :
    ∃ row, db'.forms = db.forms ++ [row] ∧ row.form = form ∧ row.entry = entry ∧ row.rank = rank ∧
      row.norm = (if norm form = form then none else some (norm form)) := by
  unfold addForm at h
  simp only [bind, Except.bind, pure, Except.pure] at h
  split at h
  · simp at h
  · simp at h
    subst h
    exact ⟨_, rfl, rfl, rfl, rfl, rfl⟩

/-! ### a form query is a filter of the unrestricted listing (order preserved) -/

theorem insertBy_of_lt_all {α} (key : α → Nat) (a : α) (L : List α) (h : ∀ y ∈ L, key a < key y) :
    insertBy key a L = a :: L := by
  cases L with
  | nil => rfl
  | cons b t =>
    have := h b List.mem_cons_self
    simp only [insertBy]
    rw [if_neg (by omega)]

theorem filter_insertBy {α} (key : α → Nat) (p : α → Bool) (a : α) : ∀ (l : List α),
    l.Pairwise (fun x y => key x ≤ key y) →
    (insertBy key a l).filter p = if p a then insertBy key a (l.filter p) else l.filter p := by
  intro l
  induction l with
  | nil => intro _; cases hp : p a <;> simp [insertBy, hp]
  | cons b t ih =>
    intro hs
    obtain ⟨hb, ht⟩ := List.pairwise_cons.mp hs
    simp only [insertBy]
    by_cases hk : key b ≤ key a
    · rw [if_pos hk, List.filter_cons, ih ht]
      cases hpb : p b <;> cases hpa : p a <;> simp [List.filter_cons, hpb, insertBy, hk]
    · rw [if_neg hk]
      have hall : ∀ y ∈ (b :: t).filter p, key a < key y := by
        intro y hy
        have hy' := (List.mem_filter.mp hy).1
        rcases List.mem_cons.mp hy' with rfl | hy'
        · omega
        · have := hb y hy'; omega
      cases hpa : p a
      · simp [List.filter_cons, hpa]
      · simp only [if_true]
        rw [insertBy_of_lt_all key a _ hall, List.filter_cons, hpa]
        rfl

theorem insertBy_sorted' {α} (key : α → Nat) (a : α) : ∀ (l : List α), l.Pairwise (fun x y => key x ≤ key y) →
    (insertBy key a l).Pairwise (fun x y => key x ≤ key y) := by
  intro l
  induction l with
  | nil => intro _; simp [insertBy]
  | cons b t ih =>
    intro h
    obtain ⟨hb, ht⟩ := List.pairwise_cons.mp h
    simp only [insertBy]
    split
    · rename_i hk
      refine List.pairwise_cons.mpr ⟨?_, ih ht⟩
      intro y hy
      have : y ∈ a :: t := by
        clear ih hb ht h hk
        induction t with
        | nil => simpa [insertBy] using hy
        | cons c u ihu =>
          simp only [insertBy] at hy
          split at hy
          · rcases List.mem_cons.mp hy with rfl | hy
            · exact List.mem_cons_of_mem _ List.mem_cons_self
            · rcases List.mem_cons.mp (ihu hy) with rfl | h'
              · exact List.mem_cons_self
              · exact List.mem_cons_of_mem _ (List.mem_cons_of_mem _ h')
          · exact hy
      rcases List.mem_cons.mp this with rfl | hy'
      · exact hk
      · exact hb y hy'
    · rename_i hk
      refine List.pairwise_cons.mpr ⟨?_, h⟩
      intro y hy
      rcases List.mem_cons.mp hy with rfl | hy'
      · omega
      · have := hb y hy'; omega

theorem sortBy_filter {α} (key : α → Nat) (p : α → Bool) (l : List α) :
    (sortBy key l).filter p = sortBy key (l.filter p) := by
  unfold sortBy
  suffices ∀ (l acc : List α), acc.Pairwise (fun x y => key x ≤ key y) →
      (l.foldl (fun acc a => insertBy key a acc) acc).filter p =
        (l.filter p).foldl (fun acc a => insertBy key a acc) (acc.filter p) by
    simpa using this l [] List.Pairwise.nil
  intro l
  induction l with
  | nil => intro acc _; rfl
  | cons a t ih =>
    intro acc hs
    simp only [List.foldl_cons]
    rw [ih _ (insertBy_sorted' key a acc hs), filter_insertBy key p a acc hs, List.filter_cons]
    cases hpa : p a <;> simp

theorem filterMap_filter_comm {α β} (g : α → Option β) (q : β → Bool) (q' : α → Bool)
    (h : ∀ e w, g e = some w → q w = q' e) : ∀ (L : List α), (L.filterMap g).filter q = (L.filter q').filterMap g := by
  intro L
  induction L with
  | nil => rfl
  | cons e t ih =>
    simp only [List.filterMap_cons, List.filter_cons]
    cases hg : g e with
    | none =>
      simp only
      cases q' e <;> simp [hg, ih]
    | some w =>
      simp only [List.filter_cons, h e w hg]
      cases q' e <;> simp [hg, ih]

/-- **C09, a form query is a filter**: `words(form, …)` returns exactly those words of the
unrestricted listing `words(…)` (same id / part-of-speech / lexicon arguments) that have a stored
form matching one of the searched strings, in the same order — for every database, every list of
searched strings, with or without normalised matching and `search_all_forms` -/
theorem C09_words_form_query_is_a_filter (db : Db) (id : Option String) (forms : List String) (pos : Option String)
    (S : List Nat) (n a : Bool) :
    findEntries db id forms pos S n a =
      (findEntries db id [] pos S n a).filter (fun w => forms.isEmpty || formMatch db forms n a w.rowid) := by
  unfold findEntries
  dsimp only
  rw [filterMap_filter_comm _ _ (fun e : REntry => forms.isEmpty || formMatch db forms n a e.rowid)]
  · rw [sortBy_filter, List.filter_filter]
    congr 2
    apply List.filter_congr
    intro e _
    simp only [List.isEmpty_nil, Bool.true_or, Bool.and_true]
    cases (forms.isEmpty || formMatch db forms n a e.rowid) <;> simp
  · intro e w hg
    split at hg
    · simp at hg
    · simp only [Option.some.injEq] at hg
      subst hg
      rfl


section EndToEnd
open WnVerif.Doc

/-- without normalisation and with `search_all_forms`, the form condition of a listed word says: one
of the forms the word itself reports is among the searched strings -/
theorem formMatch_of_listed (db : Db) (id : Option String) (forms0 : List String) (pos : Option String) (S : List Nat)
    (n0 a0 : Bool) (qs : List String) (w : WordData) (hw : w ∈ findEntries db id forms0 pos S n0 a0) :
    formMatch db qs false true w.rowid = w.forms.any (fun f => qs.contains f.form) := by
  unfold findEntries at hw
  dsimp only at hw
  obtain ⟨e, _, hg⟩ := List.mem_filterMap.mp hw
  split at hg
  · simp at hg
  · simp only [Option.some.injEq] at hg
    subst hg
    simp only [List.any_map]
    rw [(C01.sortBy_perm (fun (x : RForm) => x.rank) _).any_eq]
    unfold formMatch
    rw [List.any_filter]
    congr 1
    funext f
    simp [Function.comp]

/-- **C09 + C01, exact look-up end to end**: after a successful `add` of a plain lexicon, an exact
(non-normalising, all-forms) query for the strings `qs` in the new lexicon returns exactly the
document's entries that have one of `qs` as lemma or further form — in document order, each reported
with id, part of speech and forms as `words()` reports them; nothing else, nothing missing -/
theorem C09_exact_query_end_to_end (norm : String → String) (dr : Nat) (db db' : Db) (l : Lexicon)
    (h : addLexicon norm dr db l = .ok db') (hext : l.ext = none) (hx : ∀ e ∈ l.entries, e.external = false)
    (hfkE : ∀ o ∈ db.entries, o.lex ∈ db.lexicons.map (·.rowid))
    (hfkF : ∀ f ∈ db.forms, f.entry ∈ db.entries.map (·.rowid)) (qs : List String) (hq : qs ≠ []) :
    (findEntries db' none qs none [nextId (db.lexicons.map (·.rowid))] false true).map C01.obsWord =
      (l.entries.map C01.docWord).filter (fun o => o.2.2.any (fun f => qs.contains f.1)) := by
  have hw := C01.C01_words_end_to_end norm dr db db' l h hext hx hfkE hfkF
  rw [C09_words_form_query_is_a_filter, ← hw, List.filter_map]
  congr 1
  apply List.filter_congr
  intro w hwm
  have hqe : qs.isEmpty = false := by simpa [List.isEmpty_iff] using hq
  rw [formMatch_of_listed db' none [] none _ false true qs w hwm]
  simp [hqe, C01.obsWord, List.any_map]
  rfl


end EndToEnd

end WnVerif.Props.C09
