import WnVerif.Model.Api
namespace WnVerif.Props.C09
theorem placeholder_true : True := trivial
end WnVerif.Props.C09
