/-
C09 — word-form search follows the exact / normalized / lemmatized procedure.
Model: `findHelper`, `formMatch`, `findEntries` (`Model/Api.lean`, `Model/Query.lean`); the
normalizer function `norm` is a parameter: every theorem holds for any normalizer.
-/
import WnVerif.Model.Api
import WnVerif.Model.Add
import WnVerif.Lemmas.DbAux
namespace WnVerif.Props.C09
open WnVerif.Db

/-- the form condition of the three `find_*` queries: a stored form of the entry equals one of
the searched strings, or (normalizer active) its stored normalized form does; only the lemma
(rank 0) counts when `search_all_forms` is off -/
theorem C09_form_condition (db : Db) (forms : List String) (normalized allForms : Bool) (entry : Nat) :
    formMatch db forms normalized allForms entry = true ↔
      ∃ f ∈ db.forms, f.entry = entry ∧
        (f.form ∈ forms ∨ (normalized = true ∧ ∃ n, f.norm = some n ∧ n ∈ forms)) ∧
        (allForms = true ∨ f.rank = 0) := by
  simp only [formMatch, List.any_eq_true, Bool.and_eq_true, Bool.or_eq_true, beq_iff_eq,
    List.contains_iff_mem, decide_eq_true_eq]
  constructor
  · rintro ⟨f, hf, ⟨he, hm⟩, hr⟩
    refine ⟨f, hf, he, ?_, hr⟩
    rcases hm with hm | ⟨hn, hm⟩
    · exact Or.inl hm
    · right
      refine ⟨hn, ?_⟩
      cases hfn : f.norm with
      | none => rw [hfn] at hm; simp at hm
      | some n => rw [hfn] at hm; exact ⟨n, rfl, by simpa using hm⟩
  · rintro ⟨f, hf, he, hm, hr⟩
    refine ⟨f, hf, ⟨he, ?_⟩, hr⟩
    rcases hm with hm | ⟨hn, n, hfn, hm⟩
    · exact Or.inl hm
    · right; rw [hfn]; exact ⟨hn, by simpa using hm⟩

/-- the stored normalized column is NULL exactly when the normalized form equals the form
(`addForm`), so "normalized form equals the query" covers both columns -/
theorem C09_lemma_only (db : Db) (forms : List String) (normalized : Bool) (entry : Nat) :
    formMatch db forms normalized false entry = true →
      ∃ f ∈ db.forms, f.entry = entry ∧ f.rank = 0 := by
  intro h
  obtain ⟨f, hf, he, _, hr⟩ := (C09_form_condition db forms normalized false entry).mp h
  exact ⟨f, hf, he, by simpa using hr⟩

variable {α : Type}

/-- what the lemmatizer contributes: its proposals, or the query itself when it proposes nothing -/
def proposals (lemmatize : Option (String → Option String → LemResult)) (form : String) (pos : Option String) : LemResult :=
  match lemmatize with
  | some f => let r := f form pos; if r.isEmpty then [(pos, [form])] else r
  | none => [(pos, [form])]

theorem findHelper_eq (query : List String → Option String → List α) (rowid : α → Nat) (w : Wordnet)
    (norm : String → String) (lemmatize) (form : String) (pos : Option String) :
    findHelper query rowid w norm lemmatize form pos =
      dedupBy rowid
        (if ((proposals lemmatize form pos).flatMap (fun (p, fs) => query fs p)).isEmpty && w.normalizer
         then (proposals lemmatize form pos).flatMap (fun (p, fs) => query (fs.map norm) p)
         else (proposals lemmatize form pos).flatMap (fun (p, fs) => query fs p)) := by
  unfold findHelper proposals dedupRowid
  cases lemmatize <;> rfl

/-- **C09_first_pass**: when the first pass finds something, the result is the (de-duplicated)
union over the proposed (pos, forms) pairs of the exact / normalized-column matches — the query
itself is *not* normalized -/
theorem C09_first_pass (query : List String → Option String → List α) (rowid : α → Nat) (w : Wordnet)
    (norm : String → String) (lemmatize) (form : String) (pos : Option String)
    (h : (proposals lemmatize form pos).flatMap (fun (p, fs) => query fs p) ≠ []) :
    findHelper query rowid w norm lemmatize form pos =
      dedupBy rowid ((proposals lemmatize form pos).flatMap (fun (p, fs) => query fs p)) := by
  rw [findHelper_eq]
  have : ((proposals lemmatize form pos).flatMap (fun (p, fs) => query fs p)).isEmpty = false := by
    simpa [List.isEmpty_iff] using h
  simp [this]

/-- **C09_backoff**: only if the first pass finds nothing (over *all* proposals) and a normalizer
is active is the query normalized and matched again -/
theorem C09_backoff (query : List String → Option String → List α) (rowid : α → Nat) (w : Wordnet)
    (norm : String → String) (lemmatize) (form : String) (pos : Option String)
    (h : (proposals lemmatize form pos).flatMap (fun (p, fs) => query fs p) = []) :
    findHelper query rowid w norm lemmatize form pos =
      if w.normalizer then dedupBy rowid ((proposals lemmatize form pos).flatMap (fun (p, fs) => query (fs.map norm) p))
      else [] := by
  rw [findHelper_eq, h]
  cases w.normalizer <;> simp [dedupBy]

/-- without a lemmatizer the only proposal is the query itself with the requested pos -/
theorem C09_no_lemmatizer (form : String) (pos : Option String) : proposals none form pos = [(pos, [form])] := rfl

/-- a lemmatizer that proposes nothing falls back to the query itself -/
theorem C09_lemmatizer_empty (f : String → Option String → LemResult) (form : String) (pos : Option String)
    (h : f form pos = []) : proposals (some f) form pos = [(pos, [form])] := by
  simp [proposals, h]

/-- **C09_nodup**: results contain no duplicates -/
theorem C09_nodup (query : List String → Option String → List α) (rowid : α → Nat) (w : Wordnet)
    (norm : String → String) (lemmatize) (form : String) (pos : Option String) :
    ((findHelper query rowid w norm lemmatize form pos).map rowid).Nodup := by
  rw [findHelper_eq]; exact dedupBy_nodup rowid _

/-- **C09_sound**: every result is found by some proposed (pos, forms) pair, in the first pass or
(with the forms normalized) in the back-off -/
theorem C09_sound (query : List String → Option String → List α) (rowid : α → Nat) (w : Wordnet)
    (norm : String → String) (lemmatize) (form : String) (pos : Option String) (x : α)
    (hx : x ∈ findHelper query rowid w norm lemmatize form pos) :
    ∃ pf ∈ proposals lemmatize form pos, x ∈ query pf.2 pf.1 ∨ (w.normalizer = true ∧ x ∈ query (pf.2.map norm) pf.1) := by
  rw [findHelper_eq] at hx
  have hx' := mem_dedupBy rowid _ x hx
  split at hx'
  · rename_i hc
    simp only [Bool.and_eq_true] at hc
    obtain ⟨pf, hpf, hq⟩ := List.mem_flatMap.mp hx'
    exact ⟨pf, hpf, Or.inr ⟨hc.2, hq⟩⟩
  · obtain ⟨pf, hpf, hq⟩ := List.mem_flatMap.mp hx'
    exact ⟨pf, hpf, Or.inl hq⟩

/-- **C09_complete (union)**: everything any proposed pair finds in the deciding pass is in the
result (up to identity of the stored entity) -/
theorem C09_union_complete (query : List String → Option String → List α) (rowid : α → Nat) (w : Wordnet)
    (norm : String → String) (lemmatize) (form : String) (pos : Option String)
    (pf : Option String × List String) (hpf : pf ∈ proposals lemmatize form pos) (x : α) (hx : x ∈ query pf.2 pf.1) :
    ∃ y ∈ findHelper query rowid w norm lemmatize form pos, rowid y = rowid x := by
  have hne : (proposals lemmatize form pos).flatMap (fun (p, fs) => query fs p) ≠ [] := by
    intro he
    have : x ∈ (proposals lemmatize form pos).flatMap (fun (p, fs) => query fs p) :=
      List.mem_flatMap.mpr ⟨pf, hpf, hx⟩
    rw [he] at this; simp at this
  rw [C09_first_pass query rowid w norm lemmatize form pos hne]
  exact key_mem_dedupBy rowid _ x (List.mem_flatMap.mpr ⟨pf, hpf, hx⟩)

/-- `normalized_form` is stored only when it differs from the form (`_insert_forms`) -/
theorem C09_norm_column (db : Db) (norm : String → String) (lexid entry : Nat) (id : Option String)
    (form : String) (script : Option String) (rank : Nat) (db' : Db)
    (h : addForm db norm lexid entry id form script rank = .ok db') :
    ∃ row, db'.forms = db.forms ++ [row] ∧ row.form = form ∧ row.entry = entry ∧ row.rank = rank ∧
      row.norm = (if norm form = form then none else some (norm form)) := by
  unfold addForm at h
  simp only [bind, Except.bind, pure, Except.pure] at h
  split at h
  · simp at h
  · simp at h
    subst h
    exact ⟨_, rfl, rfl, rfl, rfl, rfl⟩

end WnVerif.Props.C09
