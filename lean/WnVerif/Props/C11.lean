/-
C11 — relation queries return exactly the declared relations; `relation_map` keeps relations
that differ only in dc:type apart; closures and relation paths terminate and are duplicate-free.
Theorems over `Model/Query.lean` / `Model/Api.lean` for every database.
-/
import WnVerif.Model.Api
import WnVerif.Lemmas.DbAux
namespace WnVerif.Props.C11
open WnVerif.Db

/-- a declared synset relation visible from scope `lexids`: the relation row and its target are
owned by lexicons in scope and the type passes the filter -/
def DeclaredSynRel (db : Db) (source : Nat) (types : List String) (lexids : List Nat) (r : RelData SynsetData) : Prop :=
  ∃ row ∈ db.synrels, row.source = source ∧ row.lex ∈ lexids ∧ typeOk db types row.type = some r.name ∧
    ∃ tgt, db.synsets.find? (fun x => x.rowid == row.target) = some tgt ∧ tgt.lex ∈ lexids ∧
      r.lexicon = lexSpec db row.lex ∧ r.md = row.md ∧ r.source = row.source ∧ r.target = synsetData db tgt

/-- soundness: everything `get_synset_relations` reports is declared (right name, source, target,
defining lexicon and metadata) -/
theorem C11_synset_relations_sound (db : Db) (x : Nat) (types : List String) (lexids : List Nat)
    (r : RelData SynsetData) (h : r ∈ synsetRelations db [x] types lexids) : DeclaredSynRel db x types lexids r := by
  unfold synsetRelations at h
  have h' := mem_dedupBy _ _ r h
  simp only [List.mem_filterMap] at h'
  obtain ⟨row, hrow, hr⟩ := h'
  split at hr
  · rename_i hc
    simp only [Bool.and_eq_true, inLex, List.contains_iff_mem, List.mem_singleton] at hc
    split at hr
    · rename_i n tgt hn ht
      split at hr
      · rename_i hl
        simp only [inLex, List.contains_iff_mem] at hl
        simp at hr; subst hr
        exact ⟨row, hrow, hc.1, hc.2, hn, tgt, ht, hl, rfl, rfl, rfl, rfl⟩
      · simp at hr
    · simp at hr
  · simp at hr

/-- completeness: every declared relation is reported (up to the `DISTINCT` of the query:
a relation with the same name, lexicon, metadata, source and target is in the result) -/
theorem C11_synset_relations_complete (db : Db) (x : Nat) (types : List String) (lexids : List Nat)
    (r : RelData SynsetData) (h : DeclaredSynRel db x types lexids r) :
    ∃ r' ∈ synsetRelations db [x] types lexids,
      r'.name = r.name ∧ r'.lexicon = r.lexicon ∧ r'.md = r.md ∧ r'.source = r.source ∧ r'.target.rowid = r.target.rowid := by
  obtain ⟨row, hrow, hs, hl, hn, tgt, ht, htl, h1, h2, h3, h4⟩ := h
  unfold synsetRelations
  have hin : ({ name := r.name, lexicon := lexSpec db row.lex, md := row.md, source := row.source, target := synsetData db tgt } : RelData SynsetData) ∈
      db.synrels.filterMap (fun r =>
        if [x].contains r.source && inLex lexids r.lex then
          match typeOk db types r.type, db.synsets.find? (fun x => x.rowid == r.target) with
          | some n, some tgt => if inLex lexids tgt.lex then
              some ({ name := n, lexicon := lexSpec db r.lex, md := r.md, source := r.source, target := synsetData db tgt } : RelData SynsetData)
            else none
          | _, _ => none
        else none) := by
    simp only [List.mem_filterMap]
    refine ⟨row, hrow, ?_⟩
    have c1 : ([x].contains row.source && inLex lexids row.lex) = true := by
      simp [inLex, hs, hl]
    simp only [c1, if_true, hn, ht]
    have c2 : inLex lexids tgt.lex = true := by simp [inLex, htl]
    simp [c2]
  obtain ⟨y, hy, hk⟩ := key_mem_dedupBy (fun r : RelData SynsetData => (r.name, r.lexicon, r.md, r.source, r.target.rowid)) _ _ hin
  simp only [Prod.mk.injEq] at hk
  exact ⟨y, hy, hk.1, by rw [hk.2.1, h1], by rw [hk.2.2.1, h2], by rw [hk.2.2.2.1, h3], by rw [hk.2.2.2.2, h4]⟩

/-- the type restriction: a reported relation's name is one of the requested types (or no type /
`*` was requested) and is the stored name of the row's type -/
theorem C11_types_restricted (db : Db) (types : List String) (t : Nat) (n : String) (h : typeOk db types t = some n) :
    lookupName db.reltypes t = some n ∧ (types = [] ∨ "*" ∈ types ∨ n ∈ types) := by
  unfold typeOk at h
  split at h
  · rename_i m hm
    split at h
    · rename_i hc
      simp at h; subst h
      refine ⟨hm, ?_⟩
      simp only [Bool.or_eq_true, List.isEmpty_iff, List.contains_iff_mem] at hc
      rcases hc with (hc | hc) | hc
      · exact Or.inl hc
      · exact Or.inr (Or.inl hc)
      · exact Or.inr (Or.inr hc)
    · simp at h
  · simp at h

/-! ### relation_map -/

theorem relationMap_step_keys {τ} (acc : List (RelObs × τ)) (p : RelObs × τ) :
    let acc' := if acc.any (fun q => relKey q.1 == relKey p.1)
      then acc.map (fun q => if relKey q.1 == relKey p.1 then (q.1, p.2) else q) else acc ++ [p]
    acc'.map (fun q => relKey q.1) =
      if acc.any (fun q => relKey q.1 == relKey p.1) then acc.map (fun q => relKey q.1) else acc.map (fun q => relKey q.1) ++ [relKey p.1] := by
  intro acc'
  show List.map _ (if _ then _ else _) = _
  split
  · rw [List.map_map]
    apply List.map_congr_left
    intro q _
    simp only [Function.comp]
    split <;> rfl
  · simp

/-- keys of the map: first occurrences of the keys of the input, in order -/
def keysOf {κ} [BEq κ] (l : List κ) : List κ := l.foldl (fun acc k => if acc.contains k then acc else acc ++ [k]) []

theorem relationMap_keys {τ} (l : List (RelObs × τ)) :
    (relationMap l).map (fun q => relKey q.1) = keysOf (l.map (fun q => relKey q.1)) := by
  unfold relationMap keysOf
  suffices ∀ (l : List (RelObs × τ)) (acc : List (RelObs × τ)),
      (l.foldl (fun acc (p : RelObs × τ) =>
        if acc.any (fun q => relKey q.1 == relKey p.1)
        then acc.map (fun q => if relKey q.1 == relKey p.1 then (q.1, p.2) else q)
        else acc ++ [p]) acc).map (fun q => relKey q.1) =
      (l.map (fun q => relKey q.1)).foldl (fun acc k => if acc.contains k then acc else acc ++ [k]) (acc.map (fun q => relKey q.1)) by
    simpa using this l []
  intro l
  induction l with
  | nil => intro acc; simp
  | cons p t ih =>
    intro acc
    simp only [List.foldl_cons, List.map_cons]
    rw [ih]
    congr 1
    rw [relationMap_step_keys]
    have : (acc.any fun q => relKey q.1 == relKey p.1) = (acc.map (fun q => relKey q.1)).contains (relKey p.1) := by
      induction acc with
      | nil => simp
      | cons a t iha =>
        simp only [List.any_cons, List.map_cons, List.contains_cons, iha]
        rw [Bool.beq_comm]
    rw [this]

theorem keysOf_aux_nodup {κ} [BEq κ] [LawfulBEq κ] (l : List κ) : ∀ (acc : List κ), acc.Nodup →
    (l.foldl (fun acc k => if acc.contains k then acc else acc ++ [k]) acc).Nodup := by
  induction l with
  | nil => intro acc h; simpa
  | cons a t ih =>
    intro acc h
    simp only [List.foldl_cons]
    apply ih
    split
    · exact h
    · rename_i hc
      rw [List.nodup_append]
      refine ⟨h, by simp, ?_⟩
      intro x hx y hy
      simp at hy; subst hy
      intro e; subst e
      simp at hc; exact hc hx

theorem keysOf_aux_mem {κ} [BEq κ] [LawfulBEq κ] (l : List κ) : ∀ (acc : List κ) (k : κ),
    k ∈ l.foldl (fun acc k => if acc.contains k then acc else acc ++ [k]) acc ↔ k ∈ acc ∨ k ∈ l := by
  induction l with
  | nil => intro acc k; simp
  | cons a t ih =>
    intro acc k
    simp only [List.foldl_cons, ih, List.mem_cons]
    split
    · rename_i hc
      simp at hc
      constructor
      · rintro (h | h)
        · exact Or.inl h
        · exact Or.inr (Or.inr h)
      · rintro (h | h | h)
        · exact Or.inl h
        · subst h; exact Or.inl hc
        · exact Or.inr h
    · simp only [List.mem_append, List.mem_singleton]
      constructor
      · rintro ((h | h) | h)
        · exact Or.inl h
        · exact Or.inr (Or.inl h)
        · exact Or.inr (Or.inr h)
      · rintro (h | h | h)
        · exact Or.inl (Or.inl h)
        · exact Or.inl (Or.inr h)
        · exact Or.inr h

/-- `relation_map()` has exactly one entry per distinct relation key… -/
theorem C11_relation_map_keys_nodup {τ} (l : List (RelObs × τ)) : ((relationMap l).map (fun q => relKey q.1)).Nodup := by
  rw [relationMap_keys]
  exact keysOf_aux_nodup _ [] (by simp)

/-- … and the keys are exactly the keys of the iterated relations: nothing is lost, nothing invented -/
theorem C11_relation_map_keys_exact {τ} (l : List (RelObs × τ)) (k) :
    k ∈ (relationMap l).map (fun q => relKey q.1) ↔ k ∈ l.map (fun q => relKey q.1) := by
  rw [relationMap_keys]
  unfold keysOf
  rw [keysOf_aux_mem]; simp

/-- relations that differ only in their dc:type have different keys, hence both stay in the map -/
theorem C11_dc_type_distinguishes (a b : RelObs) (ta tb : String) (ma mb : Doc.Meta)
    (ha : a.md = some ma) (hb : b.md = some mb)
    (hta : (ma.find? (fun kv => kv.1 == "type")).map (·.2) = some ta)
    (htb : (mb.find? (fun kv => kv.1 == "type")).map (·.2) = some tb) (hne : ta ≠ tb) :
    relKey a ≠ relKey b := by
  unfold relKey
  rw [ha, hb]
  simp only [hta, htb]
  intro h
  simp only [Prod.mk.injEq] at h
  exact hne (by simpa using h.2.2.2.2)

/-! ### get_related / closure / relation_paths -/

theorem C11_get_related_nodup (db : Db) (w : Wordnet) (x : SynsetData) (types : List String) :
    ((synsetGetRelated db w x types).map synKey).Nodup := dedupBy_nodup _ _

theorem C11_get_related_targets (db : Db) (w : Wordnet) (x : SynsetData) (types : List String) (y : SynsetData)
    (h : y ∈ synsetGetRelated db w x types) : ∃ p ∈ synsetIterRelations db w x types, p.2 = y := by
  have := mem_dedupBy _ _ y h
  simpa using this

/-- reachability over `related` -/
inductive Reach {α} (related : α → List α) : List α → α → Prop
  | base {q x} : x ∈ q → Reach related q x
  | step {q x y} : Reach related q x → y ∈ related x → Reach related q y

theorem Reach.mono {α} {related : α → List α} {q q' : List α} (h : ∀ x ∈ q, Reach related q' x) {y : α}
    (hy : Reach related q y) : Reach related q' y := by
  induction hy with
  | base hx => exact h _ hx
  | step _ hr ih => exact Reach.step ih hr

theorem nodup_reverse' {α κ} (key : α → κ) {acc : List α} (h : (acc.map key).Nodup) : (acc.reverse.map key).Nodup := by
  rw [List.map_reverse]
  unfold List.Nodup at *
  rw [List.pairwise_reverse]
  exact h.imp (fun hab => fun e => hab e.symm)

/-- `closure()`: terminates (structural recursion on the fuel), yields no entity twice, and only
entities reachable from the start set over the given relation -/
theorem closureGen_inv {α κ} [BEq κ] [LawfulBEq κ] (related : α → List α) (key : α → κ) (start : List α) :
    ∀ (f : Nat) (q : List α) (seen : List κ) (acc : List α),
      (∀ x ∈ q, Reach related start x) → (∀ x ∈ acc, Reach related start x) →
      (acc.map key).Nodup → (∀ x ∈ acc, key x ∈ seen) → (∀ k ∈ seen, ∃ x ∈ acc, key x = k) →
      (∀ x ∈ closureGen related key f q seen acc, Reach related start x) ∧
      ((closureGen related key f q seen acc).map key).Nodup := by
  intro f
  induction f with
  | zero =>
    intro q seen acc _ hacc hnd _ _
    cases q <;> simp only [closureGen] <;>
      exact ⟨fun x hx => hacc x (List.mem_reverse.mp hx), nodup_reverse' key hnd⟩
  | succ f ih =>
    intro q seen acc hq hacc hnd hseen hseen'
    cases q with
    | nil =>
      simp only [closureGen]
      exact ⟨fun x hx => hacc x (List.mem_reverse.mp hx), nodup_reverse' key hnd⟩
    | cons x q =>
      simp only [closureGen]
      split
      · exact ih q seen acc (fun y hy => hq y (List.mem_cons_of_mem _ hy)) hacc hnd hseen hseen'
      · rename_i hc
        have hx : Reach related start x := hq x (List.mem_cons_self)
        apply ih
        · intro y hy
          rcases List.mem_append.mp hy with hy | hy
          · exact hq y (List.mem_cons_of_mem _ hy)
          · exact Reach.step hx hy
        · intro y hy
          rcases List.mem_cons.mp hy with rfl | hy
          · exact hx
          · exact hacc y hy
        · simp only [List.map_cons, List.nodup_cons]
          refine ⟨?_, hnd⟩
          intro hm
          obtain ⟨y, hy, hk⟩ := List.mem_map.mp hm
          have := hseen y hy
          rw [hk] at this
          simp at hc
          exact hc this
        · intro y hy
          rcases List.mem_cons.mp hy with rfl | hy
          · exact List.mem_cons_self
          · exact List.mem_cons_of_mem _ (hseen y hy)
        · intro k hk
          rcases List.mem_cons.mp hk with rfl | hk
          · exact ⟨x, List.mem_cons_self, rfl⟩
          · obtain ⟨y, hy, hyk⟩ := hseen' k hk
            exact ⟨y, List.mem_cons_of_mem _ hy, hyk⟩

theorem C11_closure_sound_nodup (db : Db) (w : Wordnet) (x : SynsetData) (types : List String) (n : Nat) :
    (∀ y ∈ synsetClosure db w x types n, Reach (fun y => synsetGetRelated db w y types) (synsetGetRelated db w x types) y) ∧
    ((synsetClosure db w x types n).map synKey).Nodup := by
  unfold synsetClosure
  exact closureGen_inv _ _ _ _ _ [] [] (fun x hx => Reach.base hx) (by simp) (by simp) (by simp) (by simp)

theorem C11_sense_closure_sound_nodup (db : Db) (w : Wordnet) (x : SenseData) (types : List String) (n : Nat) :
    (∀ y ∈ senseClosure db w x types n, Reach (fun y => senseGetRelated db w y types) (senseGetRelated db w x types) y) ∧
    ((senseClosure db w x types n).map (·.rowid)).Nodup := by
  unfold senseClosure
  exact closureGen_inv _ _ _ _ _ [] [] (fun x hx => Reach.base hx) (by simp) (by simp) (by simp) (by simp)

/-- completeness invariant of the worklist: everything explored has its successors seen or
queued, every start element is seen or queued, and a potential bounds the remaining steps -/
theorem closureGen_complete_aux {α κ} [BEq κ] [LawfulBEq κ] (related : α → List α) (key : α → κ)
    (P : α → Prop) (hk : ∀ a b, P a → P b → key a = key b → related a = related b)
    (hPr : ∀ x, P x → ∀ y ∈ related x, P y) (start : List α) (hPs : ∀ s ∈ start, P s) (univ : List κ) (D : Nat)
    (hD : ∀ x, (related x).length ≤ D) (hU : ∀ x, ∀ y ∈ related x, key y ∈ univ) :
    ∀ (f : Nat) (q : List α) (seen : List κ) (acc : List α) (todo : List κ),
      (∀ x ∈ acc, P x) → (∀ x ∈ q, P x) →
      (∀ x ∈ acc, ∀ y ∈ related x, key y ∈ seen ∨ y ∈ q) →
      (∀ k ∈ seen, ∃ x ∈ acc, key x = k) → (∀ x ∈ acc, key x ∈ seen) →
      (∀ s ∈ start, key s ∈ seen ∨ s ∈ q) →
      (∀ y ∈ q, key y ∈ seen ∨ key y ∈ todo) → (∀ k ∈ univ, k ∈ seen ∨ k ∈ todo) →
      q.length + todo.length * (D + 1) ≤ f →
      ∀ y, Reach related start y → key y ∈ (closureGen related key f q seen acc).map key := by
  have reachP : ∀ {y}, Reach related start y → P y := by
    intro y hy
    induction hy with
    | base hs => exact hPs _ hs
    | step _ hr ih => exact hPr _ ih _ hr
  intro f
  induction f with
  | zero =>
    intro q seen acc todo hA hQ h1 h2 h2' h3 _ _ hf y hy
    have hq : q = [] := by
      cases q with
      | nil => rfl
      | cons _ _ => simp at hf
    subst hq
    simp only [closureGen]
    induction hy with
    | base hs =>
      rcases h3 _ hs with h | h
      · obtain ⟨x, hx, hxk⟩ := h2 _ h
        exact List.mem_map.mpr ⟨x, List.mem_reverse.mpr hx, hxk⟩
      · simp at h
    | step hprev hr ih =>
      obtain ⟨x, hx, hxk⟩ := List.mem_map.mp ih
      rw [List.mem_reverse] at hx
      rw [← hk _ _ (hA x hx) (reachP hprev) hxk] at hr
      rcases h1 x hx _ hr with h | h
      · obtain ⟨z, hz, hzk⟩ := h2 _ h
        exact List.mem_map.mpr ⟨z, List.mem_reverse.mpr hz, hzk⟩
      · simp at h
  | succ f ih =>
    intro q seen acc todo hA hQ h1 h2 h2' h3 h4 h5 hf y hy
    cases q with
    | nil =>
      simp only [closureGen]
      induction hy with
      | base hs =>
        rcases h3 _ hs with h | h
        · obtain ⟨x, hx, hxk⟩ := h2 _ h
          exact List.mem_map.mpr ⟨x, List.mem_reverse.mpr hx, hxk⟩
        · simp at h
      | step hprev hr ih' =>
        obtain ⟨x, hx, hxk⟩ := List.mem_map.mp ih'
        rw [List.mem_reverse] at hx
        rw [← hk _ _ (hA x hx) (reachP hprev) hxk] at hr
        rcases h1 x hx _ hr with h | h
        · obtain ⟨z, hz, hzk⟩ := h2 _ h
          exact List.mem_map.mpr ⟨z, List.mem_reverse.mpr hz, hzk⟩
        · simp at h
    | cons x t =>
      simp only [closureGen]
      split
      · rename_i hc
        have hxs : key x ∈ seen := by simpa using hc
        apply ih t seen acc todo hA (fun z hz => hQ z (List.mem_cons_of_mem _ hz)) _ h2 h2' _ _ h5 _ y hy
        · intro a ha b hb
          rcases h1 a ha b hb with h | h
          · exact Or.inl h
          · rcases List.mem_cons.mp h with rfl | h
            · exact Or.inl hxs
            · exact Or.inr h
        · intro s hs
          rcases h3 s hs with h | h
          · exact Or.inl h
          · rcases List.mem_cons.mp h with rfl | h
            · exact Or.inl hxs
            · exact Or.inr h
        · intro b hb; exact h4 b (List.mem_cons_of_mem _ hb)
        · simp only [List.length_cons] at hf; omega
      · rename_i hc
        have hxs : key x ∉ seen := by simpa using hc
        have hxt : key x ∈ todo := by
          rcases h4 x List.mem_cons_self with h | h
          · exact absurd h hxs
          · exact h
        have hA2 : ∀ z ∈ x :: acc, P z := by
          intro z hz
          rcases List.mem_cons.mp hz with rfl | hz
          · exact hQ _ List.mem_cons_self
          · exact hA z hz
        have hQ2 : ∀ z ∈ t ++ related x, P z := by
          intro z hz
          rcases List.mem_append.mp hz with hz | hz
          · exact hQ z (List.mem_cons_of_mem _ hz)
          · exact hPr x (hQ x List.mem_cons_self) z hz
        apply ih (t ++ related x) (key x :: seen) (x :: acc) (todo.erase (key x)) hA2 hQ2 _ _ _ _ _ _ _ y hy
        · intro a ha b hb
          rcases List.mem_cons.mp ha with rfl | ha
          · exact Or.inr (List.mem_append_right _ hb)
          · rcases h1 a ha b hb with h | h
            · exact Or.inl (List.mem_cons_of_mem _ h)
            · rcases List.mem_cons.mp h with rfl | h
              · exact Or.inl List.mem_cons_self
              · exact Or.inr (List.mem_append_left _ h)
        · intro k hk'
          rcases List.mem_cons.mp hk' with rfl | hk'
          · exact ⟨x, List.mem_cons_self, rfl⟩
          · obtain ⟨z, hz, hzk⟩ := h2 k hk'
            exact ⟨z, List.mem_cons_of_mem _ hz, hzk⟩
        · intro a ha
          rcases List.mem_cons.mp ha with rfl | ha
          · exact List.mem_cons_self
          · exact List.mem_cons_of_mem _ (h2' a ha)
        · intro s hs
          rcases h3 s hs with h | h
          · exact Or.inl (List.mem_cons_of_mem _ h)
          · rcases List.mem_cons.mp h with rfl | h
            · exact Or.inl List.mem_cons_self
            · exact Or.inr (List.mem_append_left _ h)
        · intro b hb
          have hbk : key b ∈ seen ∨ key b ∈ todo := by
            rcases List.mem_append.mp hb with hb | hb
            · exact h4 b (List.mem_cons_of_mem _ hb)
            · exact h5 _ (hU x b hb)
          by_cases e : key b = key x
          · exact Or.inl (by rw [e]; exact List.mem_cons_self)
          · rcases hbk with h | h
            · exact Or.inl (List.mem_cons_of_mem _ h)
            · exact Or.inr ((List.mem_erase_of_ne e).mpr h)
        · intro k hk'
          by_cases e : k = key x
          · exact Or.inl (by rw [e]; exact List.mem_cons_self)
          · rcases h5 k hk' with h | h
            · exact Or.inl (List.mem_cons_of_mem _ h)
            · exact Or.inr ((List.mem_erase_of_ne e).mpr h)
        · have hl : (todo.erase (key x)).length = todo.length - 1 := List.length_erase_of_mem hxt
          have hpos : 0 < todo.length := List.length_pos_of_mem hxt
          have hd := hD x
          simp only [List.length_cons, List.length_append] at hf ⊢
          rw [hl]
          obtain ⟨T, hT⟩ : ∃ T, todo.length = T + 1 := ⟨todo.length - 1, by omega⟩
          rw [hT] at hf ⊢
          simp only [Nat.add_sub_cancel]
          rw [Nat.succ_mul] at hf
          omega

/-- **closure() is complete**: given enough fuel (a bound that the size of the key universe and
the out-degree determine), every entity reachable from the start set is yielded (by key) -/
theorem closureGen_complete_on {α κ} [BEq κ] [LawfulBEq κ] (related : α → List α) (key : α → κ)
    (P : α → Prop) (hk : ∀ a b, P a → P b → key a = key b → related a = related b)
    (hPr : ∀ x, P x → ∀ y ∈ related x, P y) (start : List α) (hPs : ∀ s ∈ start, P s) (univ : List κ) (D : Nat)
    (hD : ∀ x, (related x).length ≤ D) (hU : ∀ x, ∀ y ∈ related x, key y ∈ univ) (hS : ∀ s ∈ start, key s ∈ univ)
    (f : Nat) (hf : start.length + univ.length * (D + 1) ≤ f) (y : α) (hy : Reach related start y) :
    key y ∈ (closureGen related key f start [] []).map key :=
  closureGen_complete_aux related key P hk hPr start hPs univ D hD hU f start [] [] univ
    (by simp) hPs (by simp) (by simp) (by simp) (fun s hs => Or.inr hs) (fun y hy => Or.inr (hS y hy)) (fun k hk => Or.inr hk) hf y hy

theorem closureGen_complete {α κ} [BEq κ] [LawfulBEq κ] (related : α → List α) (key : α → κ)
    (hk : ∀ a b, key a = key b → related a = related b) (start : List α) (univ : List κ) (D : Nat)
    (hD : ∀ x, (related x).length ≤ D) (hU : ∀ x, ∀ y ∈ related x, key y ∈ univ) (hS : ∀ s ∈ start, key s ∈ univ)
    (f : Nat) (hf : start.length + univ.length * (D + 1) ≤ f) (y : α) (hy : Reach related start y) :
    key y ∈ (closureGen related key f start [] []).map key :=
  closureGen_complete_on related key (fun _ => True) (fun a b _ _ h => hk a b h) (fun _ _ _ _ => trivial)
    start (fun _ _ => trivial) univ D hD hU hS f hf y hy


/-- `get_related` depends only on the identity (ili, lexicon, rowid) of the synset -/
theorem synsetGetRelated_congr (db : Db) (w : Wordnet) (types : List String) (a b : SynsetData) (h : synKey a = synKey b) :
    synsetGetRelated db w a types = synsetGetRelated db w b types := by
  have h1 : a.ili = b.ili := congrArg (fun k => k.1) h
  have h2 : a.lex = b.lex := congrArg (fun k => k.2.1) h
  have h3 : a.rowid = b.rowid := congrArg (fun k => k.2.2) h
  unfold synsetGetRelated synsetIterRelations
  simp only [List.map_append, List.map_map]
  have e1 : localSynsetRelations db w a types = localSynsetRelations db w b types := by
    unfold localSynsetRelations; rw [h2, h3]
  have e2 : expandedSynsetRelations db w a types = expandedSynsetRelations db w b types := by
    unfold expandedSynsetRelations; rw [h1, h2, h3]
  rw [e1, e2]
  rfl

/-- `Synset.closure()` yields (by identity) every synset reachable over the given relation types,
whenever the fuel covers `|start| + |identities| · (out-degree bound + 1)` -/
theorem C11_closure_complete (db : Db) (w : Wordnet) (x : SynsetData) (types : List String) (n : Nat)
    (univ : List (Option String × Nat × Nat)) (D : Nat)
    (hD : ∀ y, (synsetGetRelated db w y types).length ≤ D)
    (hU : ∀ y, ∀ z ∈ synsetGetRelated db w y types, synKey z ∈ univ)
    (hf : (synsetGetRelated db w x types).length + univ.length * (D + 1) ≤ n * n + n + 2)
    (y : SynsetData) (hy : Reach (fun y => synsetGetRelated db w y types) (synsetGetRelated db w x types) y) :
    synKey y ∈ (synsetClosure db w x types n).map synKey := by
  unfold synsetClosure
  exact closureGen_complete _ _ (fun a b h => synsetGetRelated_congr db w types a b h) _ univ D hD hU
    (fun s hs => hU x s hs) _ hf y hy

/-- a sense record as the store holds it: its lexicon is the one of the row with its rowid -/
def SenseStored (db : Db) (s : SenseData) : Prop :=
  ∃ r, db.senses.find? (fun x => x.rowid == s.rowid) = some r ∧ r.lex = s.lex

theorem senseGetRelated_stored (db : Db) (w : Wordnet) (types : List String) (x y : SenseData)
    (h : y ∈ senseGetRelated db w x types) : SenseStored db y := by
  unfold senseGetRelated senseIterRelations at h
  have h := mem_dedupBy _ _ y h
  simp only [List.map_map, List.mem_map, Function.comp] at h
  obtain ⟨r, hr, rfl⟩ := h
  unfold senseRelations at hr
  have hr := mem_dedupBy _ _ r hr
  simp only [List.mem_filterMap] at hr
  obtain ⟨row, _, hrow⟩ := hr
  split at hrow
  · split at hrow
    · rename_i n tgt _ htgt
      split at hrow
      · simp only [Option.map_eq_some_iff] at hrow
        obtain ⟨d, hd, rfl⟩ := hrow
        unfold senseData at hd
        split at hd
        · simp only [Option.some.injEq] at hd
          subst hd
          have hrow' := List.find?_some htgt
          simp only [beq_iff_eq] at hrow'
          exact ⟨tgt, by simp only [hrow']; exact htgt, rfl⟩
        · simp at hd
      · simp at hrow
    · simp at hrow
  · simp at hrow

theorem senseGetRelated_congr (db : Db) (w : Wordnet) (types : List String) (a b : SenseData)
    (ha : SenseStored db a) (hb : SenseStored db b) (h : a.rowid = b.rowid) :
    senseGetRelated db w a types = senseGetRelated db w b types := by
  obtain ⟨ra, hra, hla⟩ := ha
  obtain ⟨rb, hrb, hlb⟩ := hb
  rw [h, hrb] at hra
  have hl : a.lex = b.lex := by
    rw [← hla, ← hlb]; injection hra with e; rw [e]
  unfold senseGetRelated senseIterRelations
  rw [h, hl]
  simp only [List.map_map]
  rfl

/-- `Sense.closure()` yields (by rowid) every sense reachable over the given relation types -/
theorem C11_sense_closure_complete (db : Db) (w : Wordnet) (x : SenseData) (types : List String) (n : Nat)
    (univ : List Nat) (D : Nat)
    (hD : ∀ y, (senseGetRelated db w y types).length ≤ D)
    (hU : ∀ y, ∀ z ∈ senseGetRelated db w y types, z.rowid ∈ univ)
    (hf : (senseGetRelated db w x types).length + univ.length * (D + 1) ≤ n * n + n + 2)
    (y : SenseData) (hy : Reach (fun y => senseGetRelated db w y types) (senseGetRelated db w x types) y) :
    y.rowid ∈ (senseClosure db w x types n).map (·.rowid) := by
  unfold senseClosure
  exact closureGen_complete_on _ _ (SenseStored db) (fun a b ha hb h => senseGetRelated_congr db w types a b ha hb h)
    (fun x _ y hy => senseGetRelated_stored db w types x y hy) _ (fun s hs => senseGetRelated_stored db w types x s hs)
    univ D hD hU (fun s hs => hU x s hs) _ hf y hy

/-- `relation_paths()`: every path is simple — no synset of the path repeats and none is in the
visited set the search started with; termination is structural -/
theorem synPaths_simple (related : SynsetData → List SynsetData) :
    ∀ (f : Nat) (vis : List (Option String × Nat × Nat)) (x : SynsetData) (p : List SynsetData),
      p ∈ synPathsExtend related f vis x → (p.map synKey).Nodup ∧ ∀ y ∈ p, synKey y ∉ vis := by
  intro f
  induction f with
  | zero => intro vis x p h; simp [synPathsExtend] at h
  | succ f ih =>
    intro vis x p h
    simp only [synPathsExtend] at h
    split at h
    · simp at h; subst h; simp
    · simp only [List.mem_flatMap, List.mem_map, List.mem_filter] at h
      obtain ⟨t, ⟨_, ht⟩, q, hq, rfl⟩ := h
      obtain ⟨hnd, hvis⟩ := ih (synKey t :: vis) t q hq
      have ht' : synKey t ∉ vis := by simpa using ht
      refine ⟨?_, ?_⟩
      · simp only [List.map_cons, List.nodup_cons]
        refine ⟨?_, hnd⟩
        intro hm
        obtain ⟨y, hy, hk⟩ := List.mem_map.mp hm
        exact hvis y hy (by rw [hk]; exact List.mem_cons_self)
      · intro y hy
        rcases List.mem_cons.mp hy with rfl | hy
        · exact ht'
        · intro hv
          exact hvis y hy (List.mem_cons_of_mem _ hv)

theorem C11_relation_paths_simple (db : Db) (w : Wordnet) (x : SynsetData) (types : List String) (n : Nat)
    (p : List SynsetData) (h : p ∈ synsetRelationPaths db w x types n) :
    (p.map synKey).Nodup ∧ ∀ y ∈ p, synKey y ≠ synKey x := by
  unfold synsetRelationPaths at h
  simp only [List.mem_flatMap, List.mem_map, List.mem_reverse, List.mem_filter] at h
  obtain ⟨t, ⟨_, htx⟩, q, hq, rfl⟩ := h
  obtain ⟨hnd, hvis⟩ := synPaths_simple _ n _ t q hq
  refine ⟨?_, ?_⟩
  · simp only [List.map_cons, List.nodup_cons]
    refine ⟨?_, hnd⟩
    intro hm
    obtain ⟨y, hy, hk⟩ := List.mem_map.mp hm
    exact hvis y hy (by rw [hk]; simp)
  · intro y hy
    rcases List.mem_cons.mp hy with rfl | hy
    · intro e
      have : y.rowid = x.rowid := by
        have := congrArg (fun k => k.2.2) e
        simpa [synKey] using this
      simp [this] at htx
    · intro e
      exact hvis y hy (by rw [e]; simp)

end WnVerif.Props.C11
