import WnVerif.Model.Api
namespace WnVerif.Props.C11
theorem placeholder_true : True := trivial
end WnVerif.Props.C11
