/-
C18 — the validator always produces a report and each check is exact.
Model: `Model/Validate.lean`.  Totality ("never raises") is part of the model: every check
is a total function of any lexicon; the source's only partial operations (`sspos[target]`,
`REVERSE_RELATIONS[typ]`) are guarded, and the guards are mirrored.
Exactness is stated on the key set of each check (the entities listed), for every lexicon.
-/
import WnVerif.Model.Validate
import WnVerif.Lemmas.Dict
import WnVerif.Lemmas.Counter
namespace WnVerif.Props.C18
open WnVerif.Validate WnVerif.Doc

theorem contains_false_iff {α} [BEq α] [LawfulBEq α] (l : List α) (x : α) : l.contains x = false ↔ x ∉ l := by
  simp

/-- REVERSE_RELATIONS (regenerated from constants.py on every run) is an involution … -/
theorem C18_reverse_involution :
    ∀ e ∈ Gen.reverse_relations, (e.2, e.1) ∈ Gen.reverse_relations := by
  decide +kernel

/-- … is a function (no relation has two reverses) … -/
theorem C18_reverse_functional :
    (Gen.reverse_relations.map (·.1)).Nodup := by
  decide +kernel

/-- … and stays inside the relation inventories -/
theorem C18_reverse_closed :
    ∀ e ∈ Gen.reverse_relations, e.1 ∈ Gen.synset_relations ∨ e.1 ∈ Gen.sense_relations ∨ e.1 ∈ Gen.sense_synset_relations := by
  decide +kernel

/-- the report contains exactly the selected checks, in table order -/
theorem C18_selected (l : Lexicon) (select : List String) (h : l.ext = none) :
    (validate l select).map (·.1) = (codes.map (·.1)).filter (selected select) := by
  simp only [validate, h, Option.isSome_none, Bool.false_eq_true, if_false, List.map_map]
  induction codes with
  | nil => rfl
  | cons c t ih =>
    simp only [List.filter_cons, List.map_cons]
    split <;> simp_all

theorem C18_eighteen_checks : codes.map (·.1) =
    ["E101", "W201", "W202", "W203", "E204", "W301", "W302", "W303", "W304", "W305", "W306", "W307",
     "E401", "W402", "W403", "W404", "W501", "W502"] := rfl

/-- a category letter selects every code of the category, a code selects itself -/
theorem C18_select_rule (select : List String) (code : String) :
    selected select code = true ↔ code ∈ select ∨ (code.take 1).toString ∈ select := by
  simp [selected]

/-- extensions are not validated -/
theorem C18_extension_empty (l : Lexicon) (select : List String) (h : l.ext.isSome = true) : validate l select = [] := by
  simp [validate, h]

/-- report keys are distinct (a Python dict) -/
theorem C18_items_distinct (pairs : List (String × Ctx)) : ((dictOf pairs).map (·.1)).Nodup := dictOf_nodup pairs

/-! ### exactness, one theorem per check -/

/-- W201: exactly the lexical entries without senses -/
theorem C18_W201 (l : Lexicon) (id : String) :
    id ∈ (W201 l).map (·.1) ↔ ∃ e ∈ l.entries, e.id = id ∧ e.senses = [] := by
  unfold W201
  rw [mem_keys_dictOf]
  simp only [List.map_map, List.mem_map, List.mem_filter, Function.comp, List.isEmpty_iff]
  constructor
  · rintro ⟨e, ⟨he, hs⟩, rfl⟩; exact ⟨e, he, rfl, hs⟩
  · rintro ⟨e, he, rfl, hs⟩; exact ⟨e, ⟨he, hs⟩, rfl⟩

/-- E204: exactly the senses whose synset is not a synset of the lexicon -/
theorem C18_E204 (l : Lexicon) (id : String) :
    id ∈ (E204 l).map (·.1) ↔ ∃ e ∈ l.entries, ∃ s ∈ e.senses, s.id = id ∧ s.synset ∉ synsetIds l := by
  unfold E204
  rw [mem_keys_dictOf]
  simp only [List.map_flatMap, List.mem_flatMap, List.map_map, List.mem_map,
    List.mem_filter, Function.comp, Bool.not_eq_true', contains_false_iff, List.contains_iff_mem]
  constructor
  · rintro ⟨e, he, s, ⟨hs, hn⟩, rfl⟩; exact ⟨e, he, s, hs, rfl, hn⟩
  · rintro ⟨e, he, s, hs, rfl, hn⟩; exact ⟨e, he, s, ⟨hs, hn⟩, rfl⟩

/-- W301: exactly the synsets no sense refers to -/
theorem C18_W301 (l : Lexicon) (id : String) :
    id ∈ (W301 l).map (·.1) ↔ ∃ ss ∈ l.synsets, ss.id = id ∧ ∀ e ∈ l.entries, ∀ s ∈ e.senses, s.synset ≠ ss.id := by
  unfold W301
  rw [mem_keys_dictOf]
  simp only [List.map_map, List.mem_map, List.mem_filter, Function.comp,
    Bool.not_eq_true', contains_false_iff, List.contains_iff_mem, List.mem_flatMap, not_exists, not_and]
  constructor
  · rintro ⟨ss, ⟨hss, hn⟩, rfl⟩
    refine ⟨ss, hss, rfl, ?_⟩
    intro e he s hs heq
    exact hn e he s hs heq
  · rintro ⟨ss, hss, rfl, hn⟩
    exact ⟨ss, ⟨hss, fun e he s hs heq => hn e he s hs heq⟩, rfl⟩

/-- W303: exactly the synsets proposing a new ILI without an ILI definition -/
theorem C18_W303 (l : Lexicon) (id : String) :
    id ∈ (W303 l).map (·.1) ↔ ∃ ss ∈ l.synsets, ss.id = id ∧ ss.ili = "in" ∧ ss.iliDef = none := by
  unfold W303
  rw [mem_keys_dictOf]
  simp only [List.map_map, List.mem_map, List.mem_filter, Function.comp,
    Bool.and_eq_true, beq_iff_eq, Option.isNone_iff_eq_none]
  constructor
  · rintro ⟨ss, ⟨hss, h1, h2⟩, rfl⟩; exact ⟨ss, hss, rfl, h1, h2⟩
  · rintro ⟨ss, hss, rfl, h1, h2⟩; exact ⟨ss, ⟨hss, h1, h2⟩, rfl⟩

/-- W304: exactly the synsets with an existing ILI and a (spurious) ILI definition -/
theorem C18_W304 (l : Lexicon) (id : String) :
    id ∈ (W304 l).map (·.1) ↔ ∃ ss ∈ l.synsets, ss.id = id ∧ ss.ili ≠ "" ∧ ss.ili ≠ "in" ∧ ss.iliDef.isSome = true := by
  unfold W304
  rw [mem_keys_dictOf]
  simp only [List.map_filterMap, List.mem_filterMap]
  constructor
  · rintro ⟨ss, hss, h⟩
    cases hd : ss.iliDef with
    | none => simp [hd] at h
    | some d =>
      simp only [hd] at h
      split at h
      · rename_i hc
        simp only [Bool.and_eq_true, bne_iff_ne, ne_eq] at hc
        simp at h
        exact ⟨ss, hss, h, hc.1, hc.2, by rw [hd]; rfl⟩
      · simp at h
  · rintro ⟨ss, hss, rfl, h1, h2, h3⟩
    refine ⟨ss, hss, ?_⟩
    cases hd : ss.iliDef with
    | none => simp [hd] at h3
    | some d => simp [h1, h2]

/-- W305 / W306: exactly the synsets with a blank definition / example -/
theorem C18_W305 (l : Lexicon) (id : String) :
    id ∈ (W305 l).map (·.1) ↔ ∃ ss ∈ l.synsets, ss.id = id ∧ ∃ d ∈ ss.definitions, blank d.text = true := by
  unfold W305
  rw [mem_keys_dictOf]
  simp only [List.map_map, List.mem_map, List.mem_filter, Function.comp, List.any_eq_true]
  constructor
  · rintro ⟨ss, ⟨hss, h⟩, rfl⟩; exact ⟨ss, hss, rfl, h⟩
  · rintro ⟨ss, hss, rfl, h⟩; exact ⟨ss, ⟨hss, h⟩, rfl⟩

theorem C18_W306 (l : Lexicon) (id : String) :
    id ∈ (W306 l).map (·.1) ↔ ∃ ss ∈ l.synsets, ss.id = id ∧ ∃ d ∈ ss.examples, blank d.text = true := by
  unfold W306
  rw [mem_keys_dictOf]
  simp only [List.map_map, List.mem_map, List.mem_filter, Function.comp, List.any_eq_true]
  constructor
  · rintro ⟨ss, ⟨hss, h⟩, rfl⟩; exact ⟨ss, hss, rfl, h⟩
  · rintro ⟨ss, hss, rfl, h⟩; exact ⟨ss, ⟨hss, h⟩, rfl⟩

/-- E401: exactly the senses / synsets with a relation whose target is not a sense or synset
(for synset relations: not a synset) of the lexicon -/
theorem C18_E401 (l : Lexicon) (id : String) :
    id ∈ (E401 l).map (·.1) ↔
      (∃ p ∈ senseRels l, p.1.id = id ∧ p.2.target ∉ senseIds l ∧ p.2.target ∉ synsetIds l) ∨
      (∃ p ∈ synsetRels l, p.1.id = id ∧ p.2.target ∉ synsetIds l) := by
  unfold E401
  rw [mem_keys_dictOf]
  simp only [List.map_append, List.map_map, List.mem_append, List.mem_map,
    List.mem_filter, Function.comp, Bool.and_eq_true, Bool.not_eq_true', contains_false_iff, List.contains_iff_mem]
  constructor
  · rintro (⟨p, ⟨hp, h1, h2⟩, rfl⟩ | ⟨p, ⟨hp, h⟩, rfl⟩)
    · exact Or.inl ⟨p, hp, rfl, h1, h2⟩
    · exact Or.inr ⟨p, hp, rfl, h⟩
  · rintro (⟨p, hp, rfl, h1, h2⟩ | ⟨p, hp, rfl, h⟩)
    · exact Or.inl ⟨p, ⟨hp, h1, h2⟩, rfl⟩
    · exact Or.inr ⟨p, ⟨hp, h⟩, rfl⟩

/-- W502: exactly the senses / synsets with a relation to themselves -/
theorem C18_W502 (l : Lexicon) (id : String) :
    id ∈ (W502 l).map (·.1) ↔
      (∃ p ∈ senseRels l, p.1.id = id ∧ p.2.target = id) ∨ (∃ p ∈ synsetRels l, p.1.id = id ∧ p.2.target = id) := by
  unfold W502
  rw [mem_keys_dictOf]
  simp only [List.map_append, List.map_map, List.mem_append, List.mem_map,
    List.mem_filter, Function.comp, beq_iff_eq]
  constructor
  · rintro (⟨p, ⟨hp, h⟩, rfl⟩ | ⟨p, ⟨hp, h⟩, rfl⟩)
    · exact Or.inl ⟨p, hp, rfl, h.symm⟩
    · exact Or.inr ⟨p, hp, rfl, h.symm⟩
  · rintro (⟨p, hp, rfl, h⟩ | ⟨p, hp, rfl, h⟩)
    · exact Or.inl ⟨p, ⟨hp, h.symm⟩, rfl⟩
    · exact Or.inr ⟨p, ⟨hp, h.symm⟩, rfl⟩

/-- W402: exactly the senses / synsets with a relation whose type is not in the inventory for
its kind of source and target -/
theorem C18_W402 (l : Lexicon) (id : String) :
    id ∈ (W402 l).map (·.1) ↔
      (∃ p ∈ senseRels l, p.1.id = id ∧
        ((p.2.target ∈ senseIds l ∧ p.2.relType ∉ Gen.sense_relations) ∨
         (p.2.target ∈ synsetIds l ∧ p.2.relType ∉ Gen.sense_synset_relations))) ∨
      (∃ p ∈ synsetRels l, p.1.id = id ∧ p.2.relType ∉ Gen.synset_relations) := by
  unfold W402
  rw [mem_keys_dictOf]
  simp only [List.map_append, List.map_map, List.mem_append, List.mem_map,
    List.mem_filter, Function.comp, Bool.and_eq_true, Bool.or_eq_true, Bool.not_eq_true',
    contains_false_iff, List.contains_iff_mem]
  constructor
  · rintro (⟨p, ⟨hp, h⟩, rfl⟩ | ⟨p, ⟨hp, h⟩, rfl⟩)
    · exact Or.inl ⟨p, hp, rfl, h⟩
    · exact Or.inr ⟨p, hp, rfl, h⟩
  · rintro (⟨p, hp, rfl, h⟩ | ⟨p, hp, rfl, h⟩)
    · exact Or.inl ⟨p, ⟨hp, h⟩, rfl⟩
    · exact Or.inr ⟨p, ⟨hp, h⟩, rfl⟩

/-- W302: exactly the synsets whose (real) ILI is used by at least two synsets of the lexicon -/
theorem C18_W302 (l : Lexicon) (id : String) :
    id ∈ (W302 l).map (·.1) ↔ ∃ ss ∈ l.synsets, ss.id = id ∧
      2 ≤ ((l.synsets.filter (fun y => y.ili != "" && y.ili != "in")).map (·.ili)).count ss.ili := by
  unfold W302
  rw [mem_keys_dictOf]
  simp only [List.map_map, List.mem_map, List.mem_filter, Function.comp, List.contains_iff_mem, exists_multiples_iff]
  constructor
  · rintro ⟨ss, ⟨hss, hc⟩, rfl⟩; exact ⟨ss, hss, rfl, hc⟩
  · rintro ⟨ss, hss, rfl, hc⟩; exact ⟨ss, ⟨hss, hc⟩, rfl⟩

/-- W307: exactly the synsets having a definition text that occurs at least twice in the lexicon -/
theorem C18_W307 (l : Lexicon) (id : String) :
    id ∈ (W307 l).map (·.1) ↔ ∃ ss ∈ l.synsets, ss.id = id ∧ ∃ d ∈ ss.definitions,
      2 ≤ (l.synsets.flatMap (fun y => y.definitions.map (·.text))).count d.text := by
  unfold W307
  rw [mem_keys_dictOf]
  simp only [List.map_map, List.mem_map, List.mem_filter, Function.comp, List.contains_iff_mem, exists_multiples_iff,
    List.any_eq_true]
  constructor
  · rintro ⟨ss, ⟨hss, d, hd, hc⟩, rfl⟩; exact ⟨ss, hss, rfl, d, hd, hc⟩
  · rintro ⟨ss, hss, rfl, d, hd, hc⟩; exact ⟨ss, ⟨hss, d, hd, hc⟩, rfl⟩

/-- W202: exactly the senses whose synset is referenced by at least two senses of the same entry -/
theorem C18_W202 (l : Lexicon) (id : String) :
    id ∈ (W202 l).map (·.1) ↔ ∃ e ∈ l.entries, ∃ s ∈ e.senses, s.id = id ∧ 2 ≤ (e.senses.map (·.synset)).count s.synset := by
  unfold W202
  rw [mem_keys_dictOf]
  simp only [List.map_flatMap, List.mem_flatMap, List.map_map, List.mem_map, List.mem_filter, Function.comp,
    List.contains_iff_mem, exists_multiples_iff]
  constructor
  · rintro ⟨e, he, s, ⟨hs, hc⟩, rfl⟩; exact ⟨e, he, s, hs, rfl, hc⟩
  · rintro ⟨e, he, s, hs, rfl, hc⟩; exact ⟨e, he, s, ⟨hs, hc⟩, rfl⟩

/-- W203: exactly the lemma forms that some synset lists at least twice (two entries with the same
lemma in one synset) -/
theorem C18_W203 (l : Lexicon) (form : String) :
    form ∈ (W203 l).map (·.1) ↔ ∃ y : String,
      2 ≤ (l.entries.flatMap (fun e => e.senses.map (fun s => (lemmaForm e, s.synset)))).count (form, y) := by
  unfold W203
  rw [mem_keys_dictOf]
  simp only [List.map_map, List.mem_map, Function.comp]
  constructor
  · rintro ⟨⟨⟨f, y⟩, c⟩, he, rfl⟩
    refine ⟨y, ?_⟩
    have := (mem_multiples _ (f, y) c).mp he
    simp only
    omega
  · rintro ⟨y, hy⟩
    exact ⟨((form, y), _), (mem_multiples _ (form, y) _).mpr ⟨rfl, hy⟩, rfl⟩

/-- W403: exactly the sources having two relations with the same type, target and dc:type -/
theorem C18_W403 (l : Lexicon) (id : String) :
    id ∈ (W403 l).map (·.1) ↔ ∃ typ tgt dc,
      2 ≤ ((senseRels l).map (fun p => (p.1.id, p.2.relType, p.2.target, dcType p.2)) ++
           (synsetRels l).map (fun p => (p.1.id, p.2.relType, p.2.target, dcType p.2))).count (id, typ, tgt, dc) := by
  unfold W403
  rw [mem_keys_dictOf]
  simp only [List.map_map, List.mem_map, Function.comp]
  constructor
  · rintro ⟨e, he, rfl⟩
    obtain ⟨⟨src, typ, tgt, dc⟩, c⟩ := e
    refine ⟨typ, tgt, dc, ?_⟩
    have := (mem_multiples _ (src, typ, tgt, dc) c).mp he
    simp only
    omega
  · rintro ⟨typ, tgt, dc, hc⟩
    exact ⟨((id, typ, tgt, dc), _), (mem_multiples _ (id, typ, tgt, dc) _).mpr ⟨rfl, hc⟩, rfl⟩

/-- W501: exactly the synsets with a hypernym whose part of speech differs from theirs (the part
of speech of the last synset carrying the target id; a dangling target is not reported) -/
theorem C18_W501 (l : Lexicon) (id : String) :
    id ∈ (W501 l).map (·.1) ↔ ∃ p ∈ synsetRels l, p.1.id = id ∧ p.2.relType = "hypernym" ∧
      ∃ tp, ((l.synsets.filter (fun ss => ss.id == p.2.target)).getLast?).map (·.pos) = some tp ∧ p.1.pos ≠ tp := by
  have key : ∀ t, (l.synsets.filter (fun ss => ss.id == t)).getLast? =
      l.synsets.reverse.find? (fun ss => ss.id == t) := by
    intro t; rw [← List.head?_reverse, ← List.filter_reverse, List.head?_filter]
  unfold W501
  rw [mem_keys_dictOf]
  simp only [List.map_filterMap, List.mem_filterMap, key]
  constructor
  · rintro ⟨p, hp, hx⟩
    split at hx
    · rename_i hh
      split at hx
      · rename_i tp htp
        split at hx
        · rename_i hne
          simp at hx
          exact ⟨p, hp, hx, by simpa using hh, tp, htp, by simpa using hne⟩
        · simp at hx
      · simp at hx
    · simp at hx
  · rintro ⟨p, hp, rfl, hh, tp, htp, hne⟩
    refine ⟨p, hp, ?_⟩
    simp [hh, htp, hne]

/-- W404: a target is listed exactly when some (regular) relation into it lacks its reverse;
the reported context is such a missing reverse relation -/
theorem C18_W404_sound (l : Lexicon) (tgt : String) (ctx : Ctx) (h : (tgt, ctx) ∈ W404 l) :
    ∃ src typ rev, reverseOf typ = some rev ∧ ctx = [("type", Val.str rev), ("target", Val.str src)] ∧
      ((∃ p ∈ senseRels l, p.1.id = src ∧ p.2.relType = typ ∧ p.2.target = tgt ∧ tgt ∈ senseIds l) ∨
       (∃ p ∈ synsetRels l, p.1.id = src ∧ p.2.relType = typ ∧ p.2.target = tgt)) := by
  unfold W404 at h
  have h' := mem_dictOf _ _ h
  simp only [List.mem_filterMap] at h'
  obtain ⟨⟨src, typ, t⟩, hreg, hsome⟩ := h'
  simp only at hsome
  cases hr : reverseOf typ with
  | none => simp [hr] at hsome
  | some rev =>
    simp only [hr] at hsome
    split at hsome
    · simp at hsome
    · simp at hsome
      obtain ⟨rfl, rfl⟩ := hsome
      refine ⟨src, typ, rev, hr, rfl, ?_⟩
      have hmem : ∀ (L : List (String × String × String)) x, x ∈ dedupTriples L → x ∈ L := by
        intro L
        induction L with
        | nil => intro x hx; simp [dedupTriples] at hx
        | cons a t ih =>
          intro x hx
          simp only [dedupTriples, List.mem_cons, List.mem_filter] at hx
          rcases hx with hx | ⟨hx, _⟩
          · exact List.mem_cons.mpr (Or.inl hx)
          · exact List.mem_cons_of_mem _ (ih x hx)
      have := hmem _ _ hreg
      simp only [List.mem_append, List.mem_map, List.mem_filter] at this
      rcases this with ⟨p, ⟨hp, hin⟩, heq⟩ | ⟨p, hp, heq⟩
      · simp only [Prod.mk.injEq] at heq
        obtain ⟨h1, h2, h3⟩ := heq
        left
        exact ⟨p, hp, h1, h2, h3, by rw [← h3]; simpa using hin⟩
      · simp only [Prod.mk.injEq] at heq
        obtain ⟨h1, h2, h3⟩ := heq
        right
        exact ⟨p, hp, h1, h2, h3⟩

/-- non-vacuity / regression witness for the repaired W501: a hypernym relation to a missing
synset is reported by E401 and does not make W501 (or the report) fail -/
def brokenLex : Lexicon :=
  { id := "v", version := "1", label := "v", language := "en", email := "e", license := "l",
    synsets := [{ id := "v-1", ili := "", pos := some "n",
                  relations := [{ target := "v-9", relType := "hypernym" }] }] }

theorem C18_dangling_hypernym :
    (E401 brokenLex).map (·.1) = ["v-1"] ∧ W501 brokenLex = [] ∧
    ((validate brokenLex ["E", "W"]).map (·.1)).length = 18 := by
  decide +kernel

end WnVerif.Props.C18
