import WnVerif.Model.Validate
namespace WnVerif.Props.C18
theorem placeholder_true : True := trivial
end WnVerif.Props.C18
