/-
C02 — WN-LMF load/dump is a lossless round trip in every supported version.

`loadTree v (dumpTree r) = .ok r` for every resource `r` in the loader's normal form that version
`v` can express, proved bottom-up over the tree model of `wn/lmf.py` (`Model/Lmf.lean`), for
lists of any length and any nesting.  Normal form (`NF…` below, all decidable) is what the loader
itself produces: optional attributes absent rather than empty, flags absent rather than explicitly
default, metadata in canonical order with non-empty values, and fields a version cannot express
absent.  Character-level escaping (expat / the XML writer) is outside the tree model and is covered
by the correspondence check only.
-/
import WnVerif.Lemmas.LmfAttr
import WnVerif.Lemmas.Decimal
import WnVerif.Gen.Lmf
namespace WnVerif.Props.C02
open WnVerif.Lmf WnVerif.Doc

/-! ### tie to `wn/lmf.py`: metadata attribute names, and the elements that carry metadata / text -/

theorem C02_gen_meta_keys : Gen.lmf_meta_dict_keys = metaKeyNames := by decide

/-- every attribute name the loader maps into `meta` (for each version's namespace table) is one
that `pickKey` accepts, with the same dictionary key -/
theorem C02_gen_ns_attrs : ∀ p ∈ Gen.lmf_ns_attrs_1_3, pickKey (if p.2 == "status" || p.2 == "note" || p.2 == "confidenceScore" then p.2 else "dc:" ++ p.2) = some p.2 := by
  decide

/-- the elements on which the model reads metadata / character data are `_META_ELEMS` / `_CDATA_ELEMS` -/
theorem C02_gen_meta_elems : Gen.lmf_meta_elems = ["Count", "Definition", "Example", "ILIDefinition", "LexicalEntry", "Lexicon",
    "LexiconExtension", "Sense", "SenseRelation", "Synset", "SynsetRelation"] ∧
    Gen.lmf_cdata_elems = ["Count", "Definition", "Example", "ILIDefinition", "Pronunciation", "Tag"] := by decide

/-! ### generic helpers -/

theorem mapM_map_ok {α β} (f : α → β) (g : β → R α) : ∀ (l : List α), (∀ a ∈ l, g (f a) = .ok a) → (l.map f).mapM g = .ok l := by
  intro l
  induction l with
  | nil => intro _; rfl
  | cons a t ih =>
    intro h
    rw [List.map_cons, List.mapM_cons, h a List.mem_cons_self]
    simp only [bind, Except.bind]
    rw [ih (fun x hx => h x (List.mem_cons_of_mem _ hx))]
    rfl

theorem map_map_id {α β} (f : α → β) (g : β → α) : ∀ (l : List α), (∀ a ∈ l, g (f a) = a) → (l.map f).map g = l := by
  intro l h
  rw [List.map_map]
  conv => rhs; rw [← List.map_id l]
  apply List.map_congr_left
  intro a ha; exact h a ha

theorem filter_map_all {α} (f : α → Xml) (names : List String) (l : List α) (h : ∀ a ∈ l, names.contains (f a).name = true) :
    (l.map f).filter (fun c => names.contains c.name) = l.map f := by
  rw [List.filter_eq_self]
  intro c hc
  obtain ⟨a, ha, rfl⟩ := List.mem_map.mp hc
  exact h a ha

theorem filter_map_none {α} (f : α → Xml) (names : List String) (l : List α) (h : ∀ a ∈ l, names.contains (f a).name = false) :
    (l.map f).filter (fun c => names.contains c.name) = [] := by
  rw [List.filter_eq_nil_iff]
  intro c hc
  obtain ⟨a, ha, rfl⟩ := List.mem_map.mp hc
  have := h a ha
  simpa using this

theorem filter_map_none' {α} (f : α → Xml) (p : String → Bool) (l : List α) (h : ∀ a ∈ l, p (f a).name = false) :
    (l.map f).filter (fun c => p c.name) = [] := by
  rw [List.filter_eq_nil_iff]
  intro c hc
  obtain ⟨a, ha, rfl⟩ := List.mem_map.mp hc
  simp [h a ha]

theorem pk (k : String) (h : pickKey k = none) (v : String) : metaPick (k, v) = none := metaPick_nonmeta k v h

/-! ### leaves -/

theorem loadTag_dumpTag (t : Tag) : loadTag (dumpTag t) = .ok t := by
  obtain ⟨text, cat⟩ := t
  simp [loadTag, dumpTag, reqAttr, attr_elem, lookup_cons, Xml.text, bind, Except.bind, pure, Except.pure]

def NFpron (p : Pron) : Prop := NFopt p.variety ∧ NFopt p.notat ∧ NFopt p.audio ∧ p.phonemic ≠ some true

theorem loadPron_dumpPron (p : Pron) (h : NFpron p) : loadPron (dumpPron p) = p := by
  obtain ⟨text, variety, notat, phonemic, audio⟩ := p
  obtain ⟨h1, h2, h3, h4⟩ := h
  simp only [NFopt] at *
  unfold loadPron dumpPron
  simp only [Xml.text]
  cases variety <;> cases notat <;> cases audio <;> cases phonemic <;>
    simp_all [attr, Xml.attrs, optAttr, boolAttr]

theorem loadRel_dumpRel (name : String) (r : Relation) (h : NFmeta r.md) : loadRel (dumpRel name r) = .ok r := by
  obtain ⟨t, ty, md⟩ := r
  unfold loadRel dumpRel
  simp only [reqAttr, attr_elem, lookup_append, lookup_cons, metaOf, Xml.attrs, List.filterMap_append, List.filterMap_cons,
    pk "target" (by decide), pk "relType" (by decide), List.filterMap_nil, List.nil_append]
  simp [mkMeta_filterMap_metaAttrs md h, bind, Except.bind, pure, Except.pure]

def NFexample (e : Example) : Prop := NFopt e.language ∧ NFmeta e.md

theorem loadExample_dumpExample (e : Example) (h : NFexample e) : loadExample (dumpExample e) = e := by
  obtain ⟨text, language, md⟩ := e
  obtain ⟨h1, h2⟩ := h
  unfold loadExample dumpExample
  simp only [attr_elem, lookup_append, lookup_metaAttrs md "language" (by decide), Option.none_or,
    lookup_optAttr_self "language" language h1, metaOf, Xml.attrs, Xml.text, List.filterMap_append,
    filterMap_optAttr_nonmeta "language" language (by decide), List.append_nil, mkMeta_filterMap_metaAttrs md h2]

def NFcount (c : Count) : Prop := NFmeta c.md

theorem loadCount_dumpCount (c : Count) (h : NFcount c) : loadCount (dumpCount c) = .ok c := by
  obtain ⟨value, md⟩ := c
  have h1 : NFmeta md := h
  unfold loadCount dumpCount
  simp only [Xml.text, String.toList_ofList, readInt_showInt, metaOf, Xml.attrs, mkMeta_filterMap_metaAttrs md h1]

def NFdefinition (d : Definition) : Prop := NFopt d.language ∧ NFopt d.sourceSense ∧ NFmeta d.md

theorem loadDefinition_dumpDefinition (d : Definition) (h : NFdefinition d) : loadDefinition (dumpDefinition d) = d := by
  obtain ⟨text, language, sourceSense, md⟩ := d
  obtain ⟨h1, h2, h3⟩ := h
  unfold loadDefinition dumpDefinition
  simp only [attr_elem, lookup_append, lookup_optAttr_self "language" language h1, lookup_optAttr_ne "language" "sourceSense" _ (by decide),
    lookup_optAttr_ne "sourceSense" "language" _ (by decide), lookup_optAttr_self "sourceSense" sourceSense h2,
    lookup_metaAttrs md "language" (by decide), lookup_metaAttrs md "sourceSense" (by decide), Option.or_none, Option.none_or,
    metaOf, Xml.attrs, Xml.text, List.filterMap_append,
    filterMap_optAttr_nonmeta "language" language (by decide), filterMap_optAttr_nonmeta "sourceSense" sourceSense (by decide),
    List.nil_append, mkMeta_filterMap_metaAttrs md h3]

def NFdep (d : Dep) : Prop := NFopt d.url

theorem loadDep_dumpDep (name : String) (d : Dep) (h : NFdep d) : loadDep (dumpDep name d) = .ok d := by
  obtain ⟨id, version, url⟩ := d
  unfold loadDep dumpDep
  simp only [reqAttr, attr_elem, lookup_append, lookup_cons]
  simp [lookup_optAttr_self "url" url h, bind, Except.bind, pure, Except.pure]

/-! ### lemma and forms -/

theorem name_elem (n : String) (a : List (String × String)) (t : String) (c : List Xml) : (Xml.elem n a t c).name = n := rfl
theorem children_elem (n : String) (a : List (String × String)) (t : String) (c : List Xml) : (Xml.elem n a t c).children = c := rfl

theorem pronTagKids_tags (v : String) (ps : List Pron) (ts : List Tag) :
    (pronTagKids v ps ts).filter (fun c => ["Tag"].contains c.name) = ts.map dumpTag := by
  unfold pronTagKids
  rw [List.filter_append, filter_map_all dumpTag ["Tag"] ts (fun _ _ => by rfl)]
  cases atLeast11 v
  · simp
  · simp only [if_true]
    rw [filter_map_none dumpPron ["Tag"] ps (fun _ _ => by rfl)]; rfl

theorem pronTagKids_prons (v : String) (ps : List Pron) (ts : List Tag) (h : atLeast11 v = false → ps = []) :
    (pronTagKids v ps ts).filter (fun c => ["Pronunciation"].contains c.name) = ps.map dumpPron := by
  unfold pronTagKids
  rw [List.filter_append, filter_map_none dumpTag ["Pronunciation"] ts (fun _ _ => by rfl)]
  cases hb : atLeast11 v
  · simp [h hb]
  · simp only [if_true, List.append_nil]
    exact filter_map_all dumpPron ["Pronunciation"] ps (fun _ _ => by rfl)

theorem tags_roundtrip (ts : List Tag) : (ts.map dumpTag).mapM loadTag = .ok ts :=
  mapM_map_ok dumpTag loadTag ts (fun t _ => loadTag_dumpTag t)

theorem prons_roundtrip (ps : List Pron) (h : ∀ p ∈ ps, NFpron p) : (ps.map dumpPron).map loadPron = ps :=
  map_map_id dumpPron loadPron ps (fun p hp => loadPron_dumpPron p (h p hp))

def NFlemma (v : String) (l : Lemma) : Prop :=
  (∀ p ∈ l.prons, NFpron p) ∧ (atLeast11 v = false → l.prons = []) ∧
  (if l.external then l.form = "" ∧ l.pos = "" ∧ l.script = none else NFopt l.script)

theorem loadLemma_dumpLemma (v : String) (l : Lemma) (h : NFlemma v l) : loadLemma (dumpLemma v l) = .ok l := by
  obtain ⟨ext, form, pos, script, prons, tags⟩ := l
  obtain ⟨h1, h2, h3⟩ := h
  simp only at h1 h2 h3
  unfold dumpLemma
  simp only
  cases ext with
  | true =>
    simp only [if_true] at h3 ⊢
    obtain ⟨rfl, rfl, rfl⟩ := h3
    unfold loadLemma
    simp only [kids, children_elem, name_elem, pronTagKids_tags, pronTagKids_prons _ _ _ h2, tags_roundtrip, prons_roundtrip prons h1,
      bind, Except.bind, pure, Except.pure]
    rfl
  | false =>
    simp only [Bool.false_eq_true, if_false] at h3 ⊢
    unfold loadLemma
    simp only [kids, children_elem, name_elem, pronTagKids_tags, pronTagKids_prons _ _ _ h2, tags_roundtrip, prons_roundtrip prons h1,
      bind, Except.bind, pure, Except.pure, reqAttr, attr_elem, lookup_append, lookup_cons,
      lookup_optAttr_self "script" script h3, lookup_optAttr_ne "writtenForm" "script" _ (by decide),
      lookup_optAttr_ne "partOfSpeech" "script" _ (by decide)]
    simp

def NFform (v : String) (f : Form) : Prop :=
  (∀ p ∈ f.prons, NFpron p) ∧ (atLeast11 v = false → f.prons = [] ∧ f.id = none) ∧
  (if f.external then f.form = "" ∧ f.script = none ∧ truthy f.id = true else NFopt f.script ∧ NFopt f.id)

theorem loadForm_dumpForm (v : String) (f : Form) (h : NFform v f) : loadForm (dumpForm v f) = .ok f := by
  obtain ⟨ext, id, form, script, prons, tags⟩ := f
  obtain ⟨h1, h2, h3⟩ := h
  simp only at h1 h2 h3
  unfold dumpForm
  simp only
  have hp : atLeast11 v = false → prons = [] := fun hv => (h2 hv).1
  cases ext with
  | true =>
    simp only [if_true] at h3 ⊢
    obtain ⟨rfl, rfl, hid⟩ := h3
    have hv : atLeast11 v = true := by
      cases hv : atLeast11 v with
      | true => rfl
      | false => rw [(h2 hv).2] at hid; simp [truthy] at hid
    have hidn : NFopt id := by
      intro e; rw [e] at hid; simp [truthy] at hid
    unfold loadForm
    simp only [hv, if_true, kids, children_elem, name_elem, pronTagKids_tags, pronTagKids_prons _ _ _ hp, tags_roundtrip, prons_roundtrip prons h1,
      bind, Except.bind, pure, Except.pure, attr_elem, lookup_optAttr_self "id" id hidn, hid]
    rfl
  | false =>
    simp only [Bool.false_eq_true, if_false] at h3 ⊢
    obtain ⟨hs, hidn⟩ := h3
    unfold loadForm
    cases hv : atLeast11 v with
    | true =>
      simp only [if_true, kids, children_elem, name_elem, pronTagKids_tags, pronTagKids_prons _ _ _ hp, tags_roundtrip, prons_roundtrip prons h1,
        bind, Except.bind, pure, Except.pure, reqAttr, attr_elem, lookup_append, lookup_cons,
        lookup_optAttr_self "id" id hidn, lookup_optAttr_self "script" script hs,
        lookup_optAttr_ne "writtenForm" "id" _ (by decide), lookup_optAttr_ne "writtenForm" "script" _ (by decide),
        lookup_optAttr_ne "script" "id" _ (by decide), lookup_optAttr_ne "id" "script" _ (by decide)]
      cases id <;> simp
    | false =>
      have hid0 : id = none := (h2 hv).2
      subst hid0
      simp only [Bool.false_eq_true, if_false, kids, children_elem, name_elem, pronTagKids_tags, pronTagKids_prons _ _ _ hp, tags_roundtrip, prons_roundtrip prons h1,
        bind, Except.bind, pure, Except.pure, reqAttr, attr_elem, lookup_append, lookup_cons, List.nil_append,
        lookup_optAttr_self "script" script hs,
        lookup_optAttr_ne "writtenForm" "script" _ (by decide), lookup_optAttr_ne "id" "script" _ (by decide)]
      simp

/-! ### senses and frames -/

/-- ids in a space-separated attribute (`subcat`, `members`, `senses`): non-empty, no space -/
def NFidList (l : List String) : Prop := ∀ s ∈ l, s.toList ≠ [] ∧ ' ' ∉ s.toList

theorem splitCharsAux_word (w : List Char) (hw : ' ' ∉ w) : ∀ (cur rest : List Char),
    splitCharsAux cur (w ++ rest) = splitCharsAux (w.reverse ++ cur) rest := by
  induction w with
  | nil => intro cur rest; rfl
  | cons c t ih =>
    intro cur rest
    have hc : (c == ' ') = false := by
      have : c ≠ ' ' := fun e => hw (by rw [e]; exact List.mem_cons_self)
      simpa using this
    simp only [List.cons_append, splitCharsAux, hc, Bool.false_eq_true, if_false]
    rw [ih (fun h => hw (List.mem_cons_of_mem _ h))]
    simp

theorem splitChars_intercalate : ∀ (ws : List (List Char)), ws ≠ [] → (∀ w ∈ ws, ' ' ∉ w) →
    splitCharsAux [] ([' '].intercalate ws) = ws := by
  intro ws
  induction ws with
  | nil => intro h; exact absurd rfl h
  | cons w t ih =>
    intro _ hs
    cases t with
    | nil =>
      have := splitCharsAux_word w (hs w List.mem_cons_self) [] []
      simp only [List.append_nil] at this
      simp [List.intercalate, List.intersperse, this, splitCharsAux]
    | cons w' t' =>
      have e : [' '].intercalate (w :: w' :: t') = w ++ (' ' :: [' '].intercalate (w' :: t')) := by
        simp [List.intercalate, List.intersperse]
      rw [e, splitCharsAux_word w (hs w List.mem_cons_self)]
      simp only [splitCharsAux, beq_self_eq_true, if_true, List.append_nil, List.reverse_reverse]
      rw [ih (by simp) (fun x hx => hs x (List.mem_cons_of_mem _ hx))]

/-- `' '.join(xs).split(' ')` gives `xs` back for every list of non-empty, space-free ids -/
theorem splitSp_joinSp (l : List String) (h : NFidList l) (hne : l.isEmpty = false) : splitSp (joinSp l) = l := by
  unfold splitSp joinSp
  rw [String.toList_intercalate]
  have hl : l.map String.toList ≠ [] := by
    cases l with
    | nil => simp at hne
    | cons _ _ => simp
  have e : " ".toList = [' '] := by decide
  rw [e, splitChars_intercalate _ hl (by
    intro w hw
    obtain ⟨s, hs, rfl⟩ := List.mem_map.mp hw
    exact (h s hs).2)]
  have : (l.map String.toList).filter (fun w => !w.isEmpty) = l.map String.toList := by
    rw [List.filter_eq_self]
    intro w hw
    obtain ⟨s, hs, rfl⟩ := List.mem_map.mp hw
    have := (h s hs).1
    cases hh : s.toList with
    | nil => exact absurd hh this
    | cons _ _ => rfl
  rw [this, List.map_map]
  conv => rhs; rw [← List.map_id l]
  apply List.map_congr_left
  intro s _
  simp [String.ofList_toList]

def NFsense (v : String) (s : Sense) : Prop :=
  (∀ r ∈ s.relations, NFmeta r.md) ∧ (∀ e ∈ s.examples, NFexample e) ∧ (∀ c ∈ s.counts, NFcount c) ∧
  (if s.external then s.synset = "" ∧ s.md = none ∧ s.lexicalized = none ∧ s.adjposition = none ∧ s.subcat = []
   else NFmeta s.md ∧ s.lexicalized ≠ some true ∧ NFopt s.adjposition ∧ NFidList s.subcat ∧ (atLeast11 v = false → s.subcat = []))

def senseKids (s : Sense) : List Xml :=
  s.relations.map (dumpRel "SenseRelation") ++ s.examples.map dumpExample ++ s.counts.map dumpCount

theorem senseKids_rels (s : Sense) : (senseKids s).filter (fun c => ["SenseRelation"].contains c.name) = s.relations.map (dumpRel "SenseRelation") := by
  unfold senseKids
  rw [List.filter_append, List.filter_append, filter_map_all _ _ _ (fun _ _ => by rfl), filter_map_none dumpExample _ _ (fun _ _ => by rfl),
    filter_map_none dumpCount _ _ (fun _ _ => by rfl)]
  simp
theorem senseKids_examples (s : Sense) : (senseKids s).filter (fun c => ["Example"].contains c.name) = s.examples.map dumpExample := by
  unfold senseKids
  rw [List.filter_append, List.filter_append, filter_map_none (dumpRel "SenseRelation") _ _ (fun _ _ => by rfl), filter_map_all dumpExample _ _ (fun _ _ => by rfl),
    filter_map_none dumpCount _ _ (fun _ _ => by rfl)]
  simp
theorem senseKids_counts (s : Sense) : (senseKids s).filter (fun c => ["Count"].contains c.name) = s.counts.map dumpCount := by
  unfold senseKids
  rw [List.filter_append, List.filter_append, filter_map_none (dumpRel "SenseRelation") _ _ (fun _ _ => by rfl), filter_map_none dumpExample _ _ (fun _ _ => by rfl),
    filter_map_all dumpCount _ _ (fun _ _ => by rfl)]
  simp

theorem rels_roundtrip (name : String) (rs : List Relation) (h : ∀ r ∈ rs, NFmeta r.md) : (rs.map (dumpRel name)).mapM loadRel = .ok rs :=
  mapM_map_ok (dumpRel name) loadRel rs (fun r hr => loadRel_dumpRel name r (h r hr))
theorem examples_roundtrip (es : List Example) (h : ∀ e ∈ es, NFexample e) : (es.map dumpExample).map loadExample = es :=
  map_map_id dumpExample loadExample es (fun e he => loadExample_dumpExample e (h e he))
theorem counts_roundtrip (cs : List Count) (h : ∀ c ∈ cs, NFcount c) : (cs.map dumpCount).mapM loadCount = .ok cs :=
  mapM_map_ok dumpCount loadCount cs (fun c hc => loadCount_dumpCount c (h c hc))

theorem dumpSense_kids (v : String) (s : Sense) : (dumpSense v s).children = senseKids s := by
  unfold dumpSense senseKids; split <;> rfl

theorem loadSense_dumpSense (v : String) (s : Sense) (h : NFsense v s) : loadSense (dumpSense v s) = .ok s := by
  obtain ⟨h1, h2, h3, h4⟩ := h
  have hk := dumpSense_kids v s
  unfold loadSense
  simp only [kids, hk, senseKids_rels, senseKids_examples, senseKids_counts, rels_roundtrip _ _ h1, examples_roundtrip _ h2,
    counts_roundtrip _ h3, bind, Except.bind, pure, Except.pure]
  obtain ⟨ext, id, synset, md, relations, examples, counts, lexicalized, adjposition, subcat⟩ := s
  simp only at h4 ⊢
  cases ext with
  | true =>
    simp only [if_true] at h4
    obtain ⟨rfl, rfl, rfl, rfl, rfl⟩ := h4
    simp [dumpSense, name_elem, reqAttr, attr_elem, lookup_cons]
  | false =>
    simp only [Bool.false_eq_true, if_false] at h4
    obtain ⟨hm, hl, ha, hs, hv⟩ := h4
    have hname : (dumpSense v ⟨false, id, synset, md, relations, examples, counts, lexicalized, adjposition, subcat⟩).name = "Sense" := rfl
    simp only [hname]
    unfold dumpSense
    simp only [Bool.false_eq_true, if_false, reqAttr, attr_elem, lookup_append, lookup_cons, metaOf, Xml.attrs,
      List.filterMap_append, List.filterMap_cons, List.filterMap_nil, pk "id" (by decide), pk "synset" (by decide),
      lookup_metaAttrs md "lexicalized" (by decide), lookup_metaAttrs md "adjposition" (by decide), lookup_metaAttrs md "subcat" (by decide),
      filterMap_optAttr_nonmeta "adjposition" adjposition (by decide), lookup_optAttr_self "adjposition" adjposition ha,
      lookup_optAttr_ne "lexicalized" "adjposition" _ (by decide), lookup_optAttr_ne "subcat" "adjposition" _ (by decide)]
    have hlex : lexicalized = none ∨ lexicalized = some false := by
      cases lexicalized with
      | none => exact Or.inl rfl
      | some b => cases b; exact Or.inr rfl; exact absurd rfl hl
    cases hc : (atLeast11 v && !subcat.isEmpty) with
    | true =>
      have hne : subcat.isEmpty = false := by simp at hc; simpa using hc.2
      have hsp := splitSp_joinSp subcat hs hne
      rcases hlex with rfl | rfl <;>
        simp [hc, pk "lexicalized" (by decide), pk "subcat" (by decide), mkMeta_filterMap_metaAttrs md hm, boolAttr, lookup_cons, hsp]
    | false =>
      have hsub : subcat = [] := by
        cases hv' : atLeast11 v with
        | false => exact hv hv'
        | true =>
          rw [hv'] at hc
          cases subcat with
          | nil => rfl
          | cons _ _ => simp at hc
      subst hsub
      rcases hlex with rfl | rfl <;>
        simp [pk "lexicalized" (by decide), mkMeta_filterMap_metaAttrs md hm, boolAttr, lookup_cons]

def NFframe (v : String) (f : Frame) : Prop :=
  if atLeast11 v then NFopt f.id ∧ f.senses = [] else f.id = none ∧ NFidList f.senses

theorem loadFrame_dumpFrame (v : String) (f : Frame) (h : NFframe v f) : loadFrame (dumpFrame v f) = .ok f := by
  obtain ⟨id, frame, senses⟩ := f
  unfold NFframe at h
  unfold loadFrame dumpFrame
  simp only [reqAttr, attr_elem, lookup_append, lookup_cons, bind, Except.bind, pure, Except.pure]
  cases hv : atLeast11 v with
  | true =>
    simp only [hv, if_true] at h
    obtain ⟨hid, rfl⟩ := h
    cases id with
    | none => simp [truthy]
    | some i =>
      have : i ≠ "" := fun e => hid (by rw [e])
      simp [truthy, this, optAttr, lookup_cons]
  | false =>
    simp only [hv, Bool.false_eq_true, if_false] at h
    obtain ⟨rfl, hs⟩ := h
    cases hne : senses.isEmpty with
    | true =>
      have : senses = [] := by simpa using hne
      subst this
      simp
    | false =>
      have hsp := splitSp_joinSp senses hs hne
      simp [hne, lookup_cons, hsp]

/-! ### entries -/

theorem dumpLemma_name (v : String) (l : Lemma) : (dumpLemma v l).name = "Lemma" ∨ (dumpLemma v l).name = "ExternalLemma" := by
  unfold dumpLemma; simp only; split <;> simp [name_elem]
theorem dumpForm_name (v : String) (f : Form) : (dumpForm v f).name = "Form" ∨ (dumpForm v f).name = "ExternalForm" := by
  unfold dumpForm; simp only; split <;> simp [name_elem]
theorem dumpSense_name (v : String) (s : Sense) : (dumpSense v s).name = "Sense" ∨ (dumpSense v s).name = "ExternalSense" := by
  unfold dumpSense; simp only; split <;> simp [name_elem]
theorem dumpFrame_name (v : String) (f : Frame) : (dumpFrame v f).name = "SyntacticBehaviour" := rfl

def lemmaKids (v : String) (e : Entry) : List Xml := match e.lemma with | some l => [dumpLemma v l] | none => []

def entryKids (v : String) (e : Entry) : List Xml :=
  lemmaKids v e ++ e.forms.map (dumpForm v) ++ e.senses.map (dumpSense v) ++
  (if atLeast11 v || e.external then [] else e.frames.map (dumpFrame v))

theorem dumpEntry_kids (v : String) (e : Entry) : (dumpEntry v e).children = entryKids v e := by
  unfold dumpEntry entryKids lemmaKids
  cases e.lemma <;> cases he : e.external <;> cases hv : atLeast11 v <;> simp [children_elem]

theorem lemmaKids_filter (v : String) (e : Entry) (names : List String) :
    (lemmaKids v e).filter (fun c => names.contains c.name) =
      if names.contains "Lemma" && names.contains "ExternalLemma" then lemmaKids v e
      else if !names.contains "Lemma" && !names.contains "ExternalLemma" then [] else
      (lemmaKids v e).filter (fun c => names.contains c.name) := by
  unfold lemmaKids
  cases e.lemma with
  | none => simp
  | some l =>
    rcases dumpLemma_name v l with h | h <;> simp only [List.filter_cons, h, List.filter_nil] <;>
      cases names.contains "Lemma" <;> cases names.contains "ExternalLemma" <;> simp

theorem entryKids_filter (v : String) (e : Entry) (names : List String) (bl bf bs bb : Bool)
    (hl1 : names.contains "Lemma" = bl) (hl2 : names.contains "ExternalLemma" = bl)
    (hf1 : names.contains "Form" = bf) (hf2 : names.contains "ExternalForm" = bf)
    (hs1 : names.contains "Sense" = bs) (hs2 : names.contains "ExternalSense" = bs)
    (hb : names.contains "SyntacticBehaviour" = bb) :
    (entryKids v e).filter (fun c => names.contains c.name) =
      (if bl then lemmaKids v e else []) ++ (if bf then e.forms.map (dumpForm v) else []) ++
      (if bs then e.senses.map (dumpSense v) else []) ++
      (if bb then (if atLeast11 v || e.external then [] else e.frames.map (dumpFrame v)) else []) := by
  unfold entryKids
  simp only [List.filter_append]
  congr 1
  · congr 1
    · congr 1
      · rw [lemmaKids_filter, hl1, hl2]; cases bl <;> simp
      · cases bf
        · exact filter_map_none _ _ _ (fun f _ => by rcases dumpForm_name v f with h | h <;> rw [h] <;> assumption)
        · exact filter_map_all _ _ _ (fun f _ => by rcases dumpForm_name v f with h | h <;> rw [h] <;> assumption)
    · cases bs
      · exact filter_map_none _ _ _ (fun f _ => by rcases dumpSense_name v f with h | h <;> rw [h] <;> assumption)
      · exact filter_map_all _ _ _ (fun f _ => by rcases dumpSense_name v f with h | h <;> rw [h] <;> assumption)
  · split
    · simp
    · cases bb
      · exact filter_map_none _ _ _ (fun f _ => by rw [dumpFrame_name]; exact hb)
      · exact filter_map_all _ _ _ (fun f _ => by rw [dumpFrame_name]; exact hb)

def NFentry (v : String) (extension : Bool) (e : Entry) : Prop :=
  (∀ l, e.lemma = some l → NFlemma v l) ∧ (∀ f ∈ e.forms, NFform v f) ∧ (∀ s ∈ e.senses, NFsense v s) ∧
  (∀ f ∈ e.frames, NFframe v f) ∧
  (if e.external then extension = true ∧ e.md = none ∧ e.frames = []
   else e.lemma.isSome = true ∧ NFmeta e.md ∧ (atLeast11 v = true → e.frames = [])) ∧
  (extension = false → e.forms.any (·.external) = false ∧ e.senses.any (·.external) = false ∧
    ((e.lemma.map (·.external)).getD false) = false)

theorem forms_roundtrip (v : String) (fs : List Form) (h : ∀ f ∈ fs, NFform v f) : (fs.map (dumpForm v)).mapM loadForm = .ok fs :=
  mapM_map_ok (dumpForm v) loadForm fs (fun f hf => loadForm_dumpForm v f (h f hf))
theorem senses_roundtrip (v : String) (ss : List Sense) (h : ∀ s ∈ ss, NFsense v s) : (ss.map (dumpSense v)).mapM loadSense = .ok ss :=
  mapM_map_ok (dumpSense v) loadSense ss (fun s hs => loadSense_dumpSense v s (h s hs))
theorem frames_roundtrip (v : String) (fs : List Frame) (h : ∀ f ∈ fs, NFframe v f) : (fs.map (dumpFrame v)).mapM loadFrame = .ok fs :=
  mapM_map_ok (dumpFrame v) loadFrame fs (fun f hf => loadFrame_dumpFrame v f (h f hf))

theorem loadEntry_dumpEntry (v : String) (extension : Bool) (e : Entry) (h : NFentry v extension e) :
    loadEntry extension (dumpEntry v e) = .ok e := by
  obtain ⟨h1, h2, h3, h4, h5, h6⟩ := h
  have hk := dumpEntry_kids v e
  unfold loadEntry
  simp only [kids, hk]
  rw [entryKids_filter v e ["Lemma", "ExternalLemma"] true false false false (by decide) (by decide) (by decide) (by decide) (by decide) (by decide) (by decide),
    entryKids_filter v e ["Form", "ExternalForm"] false true false false (by decide) (by decide) (by decide) (by decide) (by decide) (by decide) (by decide),
    entryKids_filter v e ["Sense", "ExternalSense"] false false true false (by decide) (by decide) (by decide) (by decide) (by decide) (by decide) (by decide),
    entryKids_filter v e ["SyntacticBehaviour"] false false false true (by decide) (by decide) (by decide) (by decide) (by decide) (by decide) (by decide)]
  simp only [if_true, Bool.false_eq_true, if_false, List.append_nil, List.nil_append, forms_roundtrip v _ h2, senses_roundtrip v _ h3]
  obtain ⟨ext, id, md, lemma, forms, senses, frames⟩ := e
  simp only at h1 h2 h3 h4 h5 h6 ⊢
  cases ext with
  | true =>
    simp only [if_true] at h5
    obtain ⟨rfl, rfl, rfl⟩ := h5
    have hname : (dumpEntry v ⟨true, id, none, lemma, forms, senses, []⟩).name = "ExternalLexicalEntry" := rfl
    simp only [hname, Bool.or_true, if_true, List.mapM_nil]
    cases lemma with
    | none =>
      simp [lemmaKids, dumpEntry, reqAttr, attr_elem, lookup_cons, bind, Except.bind, pure, Except.pure]
    | some l =>
      simp [lemmaKids, loadLemma_dumpLemma v l (h1 l rfl), dumpEntry, reqAttr, attr_elem, lookup_cons, bind, Except.bind, pure, Except.pure,
        Except.map]
  | false =>
    simp only [Bool.false_eq_true, if_false] at h5
    obtain ⟨hl, hm, hfr⟩ := h5
    have hname : (dumpEntry v ⟨false, id, md, lemma, forms, senses, frames⟩).name = "LexicalEntry" := rfl
    cases lemma with
    | none => simp at hl
    | some l =>
      have hframes : (if atLeast11 v = true then [] else frames.map (dumpFrame v)).mapM loadFrame = .ok frames := by
        cases hv : atLeast11 v with
        | true => rw [hfr hv]; rfl
        | false => simpa using frames_roundtrip v frames h4
      have hguard : (!extension && (forms.any (·.external) || senses.any (·.external) || l.external)) = false := by
        cases extension with
        | true => rfl
        | false =>
          obtain ⟨a, b, c⟩ := h6 rfl
          simp only [Option.map_some, Option.getD_some] at c
          simp [a, b, c]
      simp only [hname, Bool.or_false]
      simp [hframes, lemmaKids, loadLemma_dumpLemma v l (h1 l rfl), dumpEntry, reqAttr, attr_elem, lookup_append, lookup_cons, bind, Except.bind, pure,
        Except.pure, Except.map, metaOf, Xml.attrs, List.filterMap_append, pk "id" (by decide), mkMeta_filterMap_metaAttrs md hm, hguard]

/-! ### synsets -/

def iliKids (s : Synset) : List Xml :=
  if s.external then [] else match s.iliDef with | some d => [Xml.elem "ILIDefinition" (metaAttrs d.md) d.text []] | none => []

def synsetKids (s : Synset) : List Xml :=
  s.definitions.map dumpDefinition ++ iliKids s ++ s.relations.map (dumpRel "SynsetRelation") ++ s.examples.map dumpExample

theorem dumpSynset_kids (v : String) (s : Synset) : (dumpSynset v s).children = synsetKids s := by
  unfold dumpSynset synsetKids iliKids
  cases s.iliDef <;> cases s.external <;> simp [children_elem]

theorem iliKids_filter (s : Synset) (names : List String) :
    (iliKids s).filter (fun c => names.contains c.name) = if names.contains "ILIDefinition" then iliKids s else [] := by
  unfold iliKids
  cases s.external
  · cases s.iliDef with
    | none => simp
    | some d =>
      simp only [Bool.false_eq_true, if_false, List.filter_cons, List.filter_nil, name_elem]
      by_cases h : names.contains "ILIDefinition" = true <;> simp [h]
  · simp

theorem synsetKids_filter (s : Synset) (names : List String) (bd bi br be : Bool)
    (hd : names.contains "Definition" = bd) (hi : names.contains "ILIDefinition" = bi)
    (hr : names.contains "SynsetRelation" = br) (he : names.contains "Example" = be) :
    (synsetKids s).filter (fun c => names.contains c.name) =
      (if bd then s.definitions.map dumpDefinition else []) ++ (if bi then iliKids s else []) ++
      (if br then s.relations.map (dumpRel "SynsetRelation") else []) ++ (if be then s.examples.map dumpExample else []) := by
  unfold synsetKids
  simp only [List.filter_append]
  congr 1
  · congr 1
    · congr 1
      · cases bd
        · exact filter_map_none _ _ _ (fun _ _ => hd)
        · exact filter_map_all _ _ _ (fun _ _ => hd)
      · rw [iliKids_filter, hi]
    · cases br
      · exact filter_map_none _ _ _ (fun _ _ => hr)
      · exact filter_map_all _ _ _ (fun _ _ => hr)
  · cases be
    · exact filter_map_none _ _ _ (fun _ _ => he)
    · exact filter_map_all _ _ _ (fun _ _ => he)

def NFsynset (v : String) (extension : Bool) (s : Synset) : Prop :=
  (∀ d ∈ s.definitions, NFdefinition d) ∧ (∀ r ∈ s.relations, NFmeta r.md) ∧ (∀ e ∈ s.examples, NFexample e) ∧
  (if s.external then extension = true ∧ s.ili = "" ∧ s.pos = none ∧ s.md = none ∧ s.iliDef = none ∧ s.lexicalized = none ∧
      s.members = [] ∧ s.lexfile = none
   else NFopt s.pos ∧ NFmeta s.md ∧ s.lexicalized ≠ some true ∧ (∀ d, s.iliDef = some d → NFmeta d.md) ∧
     NFidList s.members ∧ NFopt s.lexfile ∧ (atLeast11 v = false → s.members = [] ∧ s.lexfile = none))

theorem definitions_roundtrip (ds : List Definition) (h : ∀ d ∈ ds, NFdefinition d) : (ds.map dumpDefinition).map loadDefinition = ds :=
  map_map_id dumpDefinition loadDefinition ds (fun d hd => loadDefinition_dumpDefinition d (h d hd))

theorem loadSynset_dumpSynset (v : String) (extension : Bool) (s : Synset) (h : NFsynset v extension s) :
    loadSynset extension (dumpSynset v s) = .ok s := by
  obtain ⟨h1, h2, h3, h4⟩ := h
  have hk := dumpSynset_kids v s
  unfold loadSynset
  simp only [kids, hk]
  rw [synsetKids_filter s ["Definition"] true false false false (by decide) (by decide) (by decide) (by decide),
    synsetKids_filter s ["SynsetRelation"] false false true false (by decide) (by decide) (by decide) (by decide),
    synsetKids_filter s ["Example"] false false false true (by decide) (by decide) (by decide) (by decide),
    synsetKids_filter s ["ILIDefinition"] false true false false (by decide) (by decide) (by decide) (by decide)]
  simp only [if_true, Bool.false_eq_true, if_false, List.append_nil, List.nil_append, definitions_roundtrip _ h1,
    rels_roundtrip _ _ h2, examples_roundtrip _ h3]
  obtain ⟨ext, id, ili, pos, md, iliDef, definitions, relations, examples, lexicalized, members, lexfile⟩ := s
  simp only at h1 h2 h3 h4 ⊢
  cases ext with
  | true =>
    simp only [if_true] at h4
    obtain ⟨rfl, rfl, rfl, rfl, rfl, rfl, rfl, rfl⟩ := h4
    have hname : (dumpSynset v ⟨true, id, "", none, none, none, definitions, relations, examples, none, [], none⟩).name = "ExternalSynset" := rfl
    simp only [hname]
    simp [dumpSynset, reqAttr, attr_elem, lookup_cons, bind, Except.bind, pure, Except.pure]
  | false =>
    simp only [Bool.false_eq_true, if_false] at h4
    obtain ⟨hp, hm, hl, hd, hmem, hlf, hv⟩ := h4
    have hname : (dumpSynset v ⟨false, id, ili, pos, md, iliDef, definitions, relations, examples, lexicalized, members, lexfile⟩).name = "Synset" := rfl
    have hili : (iliKids ⟨false, id, ili, pos, md, iliDef, definitions, relations, examples, lexicalized, members, lexfile⟩).head?.map
        (fun d => ({ text := d.text, md := metaOf d } : IliDef)) = iliDef := by
      unfold iliKids
      cases iliDef with
      | none => rfl
      | some d =>
        simp only [Bool.false_eq_true, if_false, List.head?_cons, Option.map_some, Xml.text, metaOf, Xml.attrs,
          mkMeta_filterMap_metaAttrs d.md (hd d rfl)]
    have hlex : lexicalized = none ∨ lexicalized = some false := by
      cases lexicalized with
      | none => exact Or.inl rfl
      | some b => cases b; exact Or.inr rfl; exact absurd rfl hl
    simp only [hname, hili]
    unfold dumpSynset
    simp only [Bool.false_eq_true, if_false, reqAttr, attr_elem, lookup_append, lookup_cons, metaOf, Xml.attrs,
      List.filterMap_append, List.filterMap_cons, List.filterMap_nil, pk "id" (by decide), pk "ili" (by decide),
      filterMap_optAttr_nonmeta "partOfSpeech" pos (by decide), lookup_optAttr_self "partOfSpeech" pos hp,
      lookup_optAttr_ne "lexicalized" "partOfSpeech" _ (by decide), lookup_optAttr_ne "members" "partOfSpeech" _ (by decide),
      lookup_optAttr_ne "lexfile" "partOfSpeech" _ (by decide),
      lookup_metaAttrs md "lexicalized" (by decide), lookup_metaAttrs md "members" (by decide), lookup_metaAttrs md "lexfile" (by decide),
      lookup_metaAttrs md "partOfSpeech" (by decide)]
    cases hv' : atLeast11 v with
    | false =>
      obtain ⟨rfl, rfl⟩ := hv hv'
      rcases hlex with rfl | rfl <;>
        simp [pk "lexicalized" (by decide), mkMeta_filterMap_metaAttrs md hm, boolAttr, lookup_cons, bind, Except.bind, pure, Except.pure]
    | true =>
      cases hne : members.isEmpty with
      | true =>
        have : members = [] := by simpa using hne
        subst this
        rcases hlex with rfl | rfl <;>
          simp [pk "lexicalized" (by decide), mkMeta_filterMap_metaAttrs md hm, boolAttr, lookup_cons, bind, Except.bind, pure, Except.pure,
            lookup_append, lookup_optAttr_self "lexfile" lexfile hlf, filterMap_optAttr_nonmeta "lexfile" lexfile (by decide),
            lookup_optAttr_ne "lexicalized" "lexfile" _ (by decide), lookup_optAttr_ne "members" "lexfile" _ (by decide),
            lookup_optAttr_ne "partOfSpeech" "lexfile" _ (by decide)]
      | false =>
        have hsp := splitSp_joinSp members hmem hne
        rcases hlex with rfl | rfl <;>
          simp [hne, pk "lexicalized" (by decide), pk "members" (by decide), mkMeta_filterMap_metaAttrs md hm, boolAttr, lookup_cons, bind, Except.bind, pure, Except.pure,
            lookup_append, lookup_optAttr_self "lexfile" lexfile hlf, filterMap_optAttr_nonmeta "lexfile" lexfile (by decide),
            lookup_optAttr_ne "lexicalized" "lexfile" _ (by decide), lookup_optAttr_ne "members" "lexfile" _ (by decide),
            lookup_optAttr_ne "partOfSpeech" "lexfile" _ (by decide), hsp]

/-! ### lexicons and the resource -/

theorem dumpEntry_name (v : String) (e : Entry) : (dumpEntry v e).name = "LexicalEntry" ∨ (dumpEntry v e).name = "ExternalLexicalEntry" := by
  unfold dumpEntry; split <;> simp [name_elem]
theorem dumpSynset_name (v : String) (s : Synset) : (dumpSynset v s).name = "Synset" ∨ (dumpSynset v s).name = "ExternalSynset" := by
  unfold dumpSynset; split <;> simp [name_elem]

def extKids (l : Lexicon) : List Xml := match l.ext with | some d => [dumpDep "Extends" d] | none => []

def lexKids (v : String) (l : Lexicon) : List Xml :=
  (if atLeast11 v then extKids l ++ l.requires.map (dumpDep "Requires") else []) ++
  l.entries.map (dumpEntry v) ++ l.synsets.map (dumpSynset v) ++ (if atLeast11 v then l.frames.map (dumpFrame v) else [])

theorem dumpLexicon_kids (v : String) (l : Lexicon) : (dumpLexicon v l).children = lexKids v l := by
  rfl

theorem extKids_filter (l : Lexicon) (names : List String) :
    (extKids l).filter (fun c => names.contains c.name) = if names.contains "Extends" then extKids l else [] := by
  unfold extKids
  cases l.ext with
  | none => simp
  | some d =>
    have : (dumpDep "Extends" d).name = "Extends" := rfl
    simp only [List.filter_cons, List.filter_nil, this]

theorem lexKids_filter (v : String) (l : Lexicon) (names : List String) (bx br be bs bf : Bool)
    (hx : names.contains "Extends" = bx) (hr : names.contains "Requires" = br)
    (he1 : names.contains "LexicalEntry" = be) (he2 : names.contains "ExternalLexicalEntry" = be)
    (hs1 : names.contains "Synset" = bs) (hs2 : names.contains "ExternalSynset" = bs)
    (hf : names.contains "SyntacticBehaviour" = bf) :
    (lexKids v l).filter (fun c => names.contains c.name) =
      (if atLeast11 v then (if bx then extKids l else []) ++ (if br then l.requires.map (dumpDep "Requires") else []) else []) ++
      (if be then l.entries.map (dumpEntry v) else []) ++ (if bs then l.synsets.map (dumpSynset v) else []) ++
      (if bf && atLeast11 v then l.frames.map (dumpFrame v) else []) := by
  unfold lexKids
  simp only [List.filter_append]
  congr 1
  · congr 1
    · congr 1
      · cases atLeast11 v
        · simp
        · simp only [if_true, List.filter_append]
          congr 1
          · rw [extKids_filter, hx]
          · cases br
            · exact filter_map_none _ _ _ (fun _ _ => hr)
            · exact filter_map_all _ _ _ (fun _ _ => hr)
      · cases be
        · exact filter_map_none _ _ _ (fun e _ => by rcases dumpEntry_name v e with h | h <;> rw [h] <;> assumption)
        · exact filter_map_all _ _ _ (fun e _ => by rcases dumpEntry_name v e with h | h <;> rw [h] <;> assumption)
    · cases bs
      · exact filter_map_none _ _ _ (fun e _ => by rcases dumpSynset_name v e with h | h <;> rw [h] <;> assumption)
      · exact filter_map_all _ _ _ (fun e _ => by rcases dumpSynset_name v e with h | h <;> rw [h] <;> assumption)
  · cases atLeast11 v
    · simp
    · cases bf
      · simpa using filter_map_none (dumpFrame v) names l.frames (fun _ _ => hf)
      · simpa using filter_map_all (dumpFrame v) names l.frames (fun _ _ => hf)

def NFlexicon (v : String) (l : Lexicon) : Prop :=
  NFopt l.url ∧ NFopt l.citation ∧ NFopt l.logo ∧ NFmeta l.md ∧ (∀ d, l.ext = some d → NFdep d) ∧
  (∀ d ∈ l.requires, NFdep d) ∧ (∀ e ∈ l.entries, NFentry v l.ext.isSome e) ∧ (∀ s ∈ l.synsets, NFsynset v l.ext.isSome s) ∧
  (∀ f ∈ l.frames, NFframe v f) ∧
  (atLeast11 v = false → l.ext = none ∧ l.requires = [] ∧ l.logo = none ∧ l.frames = [])

theorem deps_roundtrip (name : String) (ds : List Dep) (h : ∀ d ∈ ds, NFdep d) : (ds.map (dumpDep name)).mapM loadDep = .ok ds :=
  mapM_map_ok (dumpDep name) loadDep ds (fun d hd => loadDep_dumpDep name d (h d hd))
theorem entries_roundtrip (v : String) (x : Bool) (es : List Entry) (h : ∀ e ∈ es, NFentry v x e) :
    (es.map (dumpEntry v)).mapM (loadEntry x) = .ok es :=
  mapM_map_ok (dumpEntry v) (loadEntry x) es (fun e he => loadEntry_dumpEntry v x e (h e he))
theorem synsets_roundtrip (v : String) (x : Bool) (ss : List Synset) (h : ∀ s ∈ ss, NFsynset v x s) :
    (ss.map (dumpSynset v)).mapM (loadSynset x) = .ok ss :=
  mapM_map_ok (dumpSynset v) (loadSynset x) ss (fun s hs => loadSynset_dumpSynset v x s (h s hs))

theorem dumpLexicon_attrs (v : String) (l : Lexicon) (hu : NFopt l.url) (hc : NFopt l.citation) (hlg : NFopt l.logo) (hm : NFmeta l.md)
    (hv : atLeast11 v = false → l.logo = none) :
    attr (dumpLexicon v l) "id" = some l.id ∧ attr (dumpLexicon v l) "version" = some l.version ∧
    attr (dumpLexicon v l) "label" = some l.label ∧ attr (dumpLexicon v l) "language" = some l.language ∧
    attr (dumpLexicon v l) "email" = some l.email ∧ attr (dumpLexicon v l) "license" = some l.license ∧
    attr (dumpLexicon v l) "url" = l.url ∧ attr (dumpLexicon v l) "citation" = l.citation ∧
    attr (dumpLexicon v l) "logo" = l.logo ∧ metaOf (dumpLexicon v l) = l.md := by
  obtain ⟨id, version, label, language, email, license, url, citation, logo, md, ext, requires, entries, synsets, frames⟩ := l
  simp only at hu hc hlg hm hv ⊢
  have hmeta : ∀ (L : List (String × String)), L.filterMap metaPick = [] →
      mkMeta (([("id", id), ("label", label), ("language", language), ("email", email), ("license", license), ("version", version)] ++
        optAttr "url" url ++ optAttr "citation" citation ++ L ++ metaAttrs md).filterMap metaPick) = md := by
    intro L hL
    simp only [List.filterMap_append, List.filterMap_cons, List.filterMap_nil, pk "id" (by decide), pk "label" (by decide),
      pk "language" (by decide), pk "email" (by decide), pk "license" (by decide), pk "version" (by decide),
      filterMap_optAttr_nonmeta "url" url (by decide), filterMap_optAttr_nonmeta "citation" citation (by decide), List.nil_append, hL]
    exact mkMeta_filterMap_metaAttrs md hm
  unfold dumpLexicon
  cases hv' : atLeast11 v with
  | false =>
    have := hv hv'; subst this
    simp only [Bool.false_eq_true, if_false, attr_elem, lookup_append, lookup_cons, metaOf, Xml.attrs, hmeta [] rfl,
      lookup_optAttr_self "url" url hu, lookup_optAttr_self "citation" citation hc,
      lookup_optAttr_ne "url" "citation" _ (by decide), lookup_optAttr_ne "citation" "url" _ (by decide),
      lookup_optAttr_ne "logo" "url" _ (by decide), lookup_optAttr_ne "logo" "citation" _ (by decide),
      lookup_optAttr_ne "id" "url" _ (by decide), lookup_optAttr_ne "id" "citation" _ (by decide),
      lookup_metaAttrs md "url" (by decide), lookup_metaAttrs md "citation" (by decide), lookup_metaAttrs md "logo" (by decide)]
    simp
  | true =>
    have hL : (optAttr "logo" logo).filterMap metaPick = [] := filterMap_optAttr_nonmeta "logo" logo (by decide)
    simp only [if_true, attr_elem, lookup_append, lookup_cons, metaOf, Xml.attrs, hmeta _ hL,
      lookup_optAttr_self "url" url hu, lookup_optAttr_self "citation" citation hc, lookup_optAttr_self "logo" logo hlg,
      lookup_optAttr_ne "url" "citation" _ (by decide), lookup_optAttr_ne "citation" "url" _ (by decide),
      lookup_optAttr_ne "logo" "url" _ (by decide), lookup_optAttr_ne "logo" "citation" _ (by decide),
      lookup_optAttr_ne "url" "logo" _ (by decide), lookup_optAttr_ne "citation" "logo" _ (by decide),
      lookup_metaAttrs md "url" (by decide), lookup_metaAttrs md "citation" (by decide), lookup_metaAttrs md "logo" (by decide)]
    simp

theorem loadLexicon_dumpLexicon (v : String) (l : Lexicon) (h : NFlexicon v l) : loadLexicon (dumpLexicon v l) = .ok l := by
  obtain ⟨hu, hc, hlg, hm, hx, hr, he, hs, hf, hv⟩ := h
  have hk := dumpLexicon_kids v l
  obtain ⟨a1, a2, a3, a4, a5, a6, a7, a8, a9, a10⟩ := dumpLexicon_attrs v l hu hc hlg hm (fun h => (hv h).2.2.1)
  unfold loadLexicon
  simp only [kids, hk, reqAttr, a1, a2, a3, a4, a5, a6, a7, a8, a9, a10]
  rw [lexKids_filter v l ["Extends"] true false false false false (by decide) (by decide) (by decide) (by decide) (by decide) (by decide) (by decide),
    lexKids_filter v l ["Requires"] false true false false false (by decide) (by decide) (by decide) (by decide) (by decide) (by decide) (by decide),
    lexKids_filter v l ["LexicalEntry", "ExternalLexicalEntry"] false false true false false (by decide) (by decide) (by decide) (by decide) (by decide) (by decide) (by decide),
    lexKids_filter v l ["Synset", "ExternalSynset"] false false false true false (by decide) (by decide) (by decide) (by decide) (by decide) (by decide) (by decide),
    lexKids_filter v l ["SyntacticBehaviour"] false false false false true (by decide) (by decide) (by decide) (by decide) (by decide) (by decide) (by decide)]
  obtain ⟨id, version, label, language, email, license, url, citation, logo, md, ext, requires, entries, synsets, frames⟩ := l
  simp only at hu hc hlg hm hx hr he hs hf hv ⊢
  have hE : ∀ b, b = ext.isSome → List.mapM (loadEntry b ∘ dumpEntry v) entries = .ok entries := by
    intro b hb; subst hb; simpa using entries_roundtrip v _ entries he
  have hS : ∀ b, b = ext.isSome → List.mapM (loadSynset b ∘ dumpSynset v) synsets = .ok synsets := by
    intro b hb; subst hb; simpa using synsets_roundtrip v _ synsets hs
  cases hv' : atLeast11 v with
  | false =>
    obtain ⟨rfl, rfl, rfl, rfl⟩ := hv hv'
    simp [hE false rfl, hS false rfl, bind, Except.bind, pure, Except.pure]
  | true =>
    have hR : List.mapM (loadDep ∘ dumpDep "Requires") requires = .ok requires := by simpa using deps_roundtrip "Requires" requires hr
    have hF : List.mapM (loadFrame ∘ dumpFrame v) frames = .ok frames := by simpa using frames_roundtrip v frames hf
    cases ext with
    | none => simp [extKids, hE false rfl, hS false rfl, hR, hF, bind, Except.bind, pure, Except.pure]
    | some d => simp [extKids, loadDep_dumpDep "Extends" d (hx d rfl), Except.map, hE true rfl, hS true rfl, hR, hF, bind, Except.bind, pure, Except.pure]

/-! ### every dumped tree passes the loader's structural checks -/

theorem allOk_append (v : String) : ∀ (a b : List Xml), allOk v (a ++ b) = (allOk v a && allOk v b) := by
  intro a
  induction a with
  | nil => intro b; simp [allOk]
  | cons x t ih => intro b; simp [allOk, ih, Bool.and_assoc]

theorem allOk_map {α} (v : String) (f : α → Xml) : ∀ (l : List α), (∀ a ∈ l, treeOk v (f a) = true) → allOk v (l.map f) = true := by
  intro l
  induction l with
  | nil => intro _; rfl
  | cons a t ih =>
    intro h
    simp only [List.map_cons, allOk, Bool.and_eq_true]
    exact ⟨h a List.mem_cons_self, ih (fun x hx => h x (List.mem_cons_of_mem _ hx))⟩

theorem valid_both (v n : String) (h : elems10.contains n = true) : (validElems v).contains n = true := by
  unfold validElems
  split
  · exact h
  · unfold elems11
    simp only [List.contains_iff_mem, List.mem_append] at h ⊢
    exact Or.inl h

theorem valid_11 (v n : String) (hv : atLeast11 v = true) (h : elems11.contains n = true) : (validElems v).contains n = true := by
  unfold validElems
  have : (v == "1.0") = false := by
    unfold atLeast11 at hv
    simpa using hv
  simp [this]
  simpa using h

/-- children without single-valued elements -/
theorem childrenOk_plain (v : String) (cs : List Xml) (hval : ∀ c ∈ cs, (validElems v).contains c.name = true)
    (hs : ∀ c ∈ cs, singleValued c.name = false) : childrenOk v cs = true := by
  unfold childrenOk
  simp only [Bool.and_eq_true, List.all_eq_true]
  refine ⟨hval, ?_⟩
  have : cs.filter (fun c => singleValued c.name) = [] := by
    rw [List.filter_eq_nil_iff]; intro c hc; simp [hs c hc]
  rw [this]; rfl

/-- one optional single-valued child in front of plain children -/
theorem childrenOk_one (v : String) (x : List Xml) (cs : List Xml) (hx : x.length ≤ 1)
    (hval : ∀ c ∈ x ++ cs, (validElems v).contains c.name = true)
    (hs : ∀ c ∈ cs, singleValued c.name = false) : childrenOk v (x ++ cs) = true := by
  unfold childrenOk
  simp only [Bool.and_eq_true, List.all_eq_true]
  refine ⟨hval, ?_⟩
  have : cs.filter (fun c => singleValued c.name) = [] := by
    rw [List.filter_eq_nil_iff]; intro c hc; simp [hs c hc]
  rw [List.filter_append, this, List.append_nil]
  match x, hx with
  | [], _ => rfl
  | [a], _ => simp only [List.filter_cons]; split <;> rfl

theorem leaf_ok (v n : String) (a : List (String × String)) (t : String) : treeOk v (.elem n a t []) = true := by
  simp [treeOk, childrenOk, allOk, nodupB]

theorem pronTagKids_ok (v : String) (ps : List Pron) (ts : List Tag) :
    childrenOk v (pronTagKids v ps ts) = true ∧ allOk v (pronTagKids v ps ts) = true := by
  constructor
  · apply childrenOk_plain
    · intro c hc
      unfold pronTagKids at hc
      rcases List.mem_append.mp hc with hc | hc
      · cases hv : atLeast11 v with
        | false => simp [hv] at hc
        | true =>
          simp only [hv, if_true] at hc
          obtain ⟨p, _, rfl⟩ := List.mem_map.mp hc
          exact valid_11 v "Pronunciation" hv (by decide)
      · obtain ⟨t, _, rfl⟩ := List.mem_map.mp hc
        exact valid_both v "Tag" (by decide)
    · intro c hc
      unfold pronTagKids at hc
      rcases List.mem_append.mp hc with hc | hc
      · split at hc
        · obtain ⟨p, _, rfl⟩ := List.mem_map.mp hc; rfl
        · simp at hc
      · obtain ⟨t, _, rfl⟩ := List.mem_map.mp hc; rfl
  · unfold pronTagKids
    rw [allOk_append]
    simp only [Bool.and_eq_true]
    constructor
    · split
      · exact allOk_map v _ _ (fun p _ => leaf_ok v _ _ _)
      · rfl
    · exact allOk_map v _ _ (fun t _ => leaf_ok v _ _ _)

theorem dumpLemma_ok (v : String) (l : Lemma) : treeOk v (dumpLemma v l) = true := by
  unfold dumpLemma
  simp only
  split <;> simp [treeOk, pronTagKids_ok v l.prons l.tags]

theorem dumpForm_ok (v : String) (f : Form) : treeOk v (dumpForm v f) = true := by
  unfold dumpForm
  simp only
  split <;> simp [treeOk, pronTagKids_ok v f.prons f.tags]

theorem senseKids_ok (v : String) (s : Sense) : childrenOk v (senseKids s) = true ∧ allOk v (senseKids s) = true := by
  constructor
  · apply childrenOk_plain
    · intro c hc
      unfold senseKids at hc
      simp only [List.mem_append, List.mem_map] at hc
      rcases hc with (⟨_, _, rfl⟩ | ⟨_, _, rfl⟩) | ⟨_, _, rfl⟩
      · exact valid_both v "SenseRelation" (by decide)
      · exact valid_both v "Example" (by decide)
      · exact valid_both v "Count" (by decide)
    · intro c hc
      unfold senseKids at hc
      simp only [List.mem_append, List.mem_map] at hc
      rcases hc with (⟨_, _, rfl⟩ | ⟨_, _, rfl⟩) | ⟨_, _, rfl⟩ <;> rfl
  · unfold senseKids
    simp only [allOk_append, Bool.and_eq_true]
    exact ⟨⟨allOk_map v _ _ (fun _ _ => leaf_ok v _ _ _), allOk_map v _ _ (fun _ _ => leaf_ok v _ _ _)⟩,
      allOk_map v _ _ (fun _ _ => leaf_ok v _ _ _)⟩

theorem treeOk_of_children (v : String) (x : Xml) (h1 : childrenOk v x.children = true) (h2 : allOk v x.children = true) : treeOk v x = true := by
  cases x with
  | elem n a t cs => simp only [treeOk, Bool.and_eq_true]; exact ⟨h1, h2⟩

theorem dumpSense_ok (v : String) (s : Sense) : treeOk v (dumpSense v s) = true := by
  apply treeOk_of_children
  · rw [dumpSense_kids]; exact (senseKids_ok v s).1
  · rw [dumpSense_kids]; exact (senseKids_ok v s).2

theorem dumpLemma_valid (v : String) (l : Lemma) (h : atLeast11 v = false → l.external = false) :
    (validElems v).contains (dumpLemma v l).name = true := by
  unfold dumpLemma
  simp only
  cases he : l.external with
  | false => exact valid_both v "Lemma" (by decide)
  | true =>
    have hv : atLeast11 v = true := by
      cases hv : atLeast11 v with
      | true => rfl
      | false => rw [h hv] at he; cases he
    exact valid_11 v "ExternalLemma" hv (by decide)

theorem dumpForm_valid (v : String) (f : Form) (h : atLeast11 v = false → f.external = false) :
    (validElems v).contains (dumpForm v f).name = true := by
  unfold dumpForm
  simp only
  cases he : f.external with
  | false => exact valid_both v "Form" (by decide)
  | true =>
    have hv : atLeast11 v = true := by
      cases hv : atLeast11 v with
      | true => rfl
      | false => rw [h hv] at he; cases he
    exact valid_11 v "ExternalForm" hv (by decide)

theorem dumpSense_valid (v : String) (s : Sense) (h : atLeast11 v = false → s.external = false) :
    (validElems v).contains (dumpSense v s).name = true := by
  unfold dumpSense
  simp only
  cases he : s.external with
  | false => exact valid_both v "Sense" (by decide)
  | true =>
    have hv : atLeast11 v = true := by
      cases hv : atLeast11 v with
      | true => rfl
      | false => rw [h hv] at he; cases he
    exact valid_11 v "ExternalSense" hv (by decide)

theorem dumpEntry_valid (v : String) (e : Entry) (h : atLeast11 v = false → e.external = false) :
    (validElems v).contains (dumpEntry v e).name = true := by
  unfold dumpEntry
  cases he : e.external with
  | false => exact valid_both v "LexicalEntry" (by decide)
  | true =>
    have hv : atLeast11 v = true := by
      cases hv : atLeast11 v with
      | true => rfl
      | false => rw [h hv] at he; cases he
    exact valid_11 v "ExternalLexicalEntry" hv (by decide)

theorem dumpSynset_valid (v : String) (s : Synset) (h : atLeast11 v = false → s.external = false) :
    (validElems v).contains (dumpSynset v s).name = true := by
  unfold dumpSynset
  cases he : s.external with
  | false => exact valid_both v "Synset" (by decide)
  | true =>
    have hv : atLeast11 v = true := by
      cases hv : atLeast11 v with
      | true => rfl
      | false => rw [h hv] at he; cases he
    exact valid_11 v "ExternalSynset" hv (by decide)

theorem any_false_mem {α} (p : α → Bool) (l : List α) (h : l.any p = false) (a : α) (ha : a ∈ l) : p a = false := by
  cases hp : p a with
  | false => rfl
  | true =>
    have : l.any p = true := List.any_eq_true.mpr ⟨a, ha, hp⟩
    rw [h] at this; cases this

/-- nothing external in a 1.0 document -/
def NoExt10 (v : String) (e : Entry) : Prop :=
  atLeast11 v = false → e.external = false ∧ (∀ l, e.lemma = some l → l.external = false) ∧
    (∀ f ∈ e.forms, f.external = false) ∧ (∀ s ∈ e.senses, s.external = false)

theorem NFentry_noExt (v : String) (x : Bool) (e : Entry) (h : NFentry v x e) (hx : atLeast11 v = false → x = false) : NoExt10 v e := by
  intro hv
  obtain ⟨_, _, _, _, h5, h6⟩ := h
  have hx' := hx hv
  subst hx'
  obtain ⟨a, b, c⟩ := h6 rfl
  refine ⟨?_, ?_, fun f hf => any_false_mem _ _ a f hf, fun s hs => any_false_mem _ _ b s hs⟩
  · cases he : e.external with
    | false => rfl
    | true => rw [he] at h5; simp at h5
  · intro l hl; rw [hl] at c; simpa using c

theorem dumpEntry_ok (v : String) (e : Entry) (h : NoExt10 v e) : treeOk v (dumpEntry v e) = true := by
  apply treeOk_of_children
  · rw [dumpEntry_kids]
    unfold entryKids
    rw [List.append_assoc, List.append_assoc]
    apply childrenOk_one
    · unfold lemmaKids; cases e.lemma <;> simp
    · intro c hc
      simp only [List.mem_append] at hc
      rcases hc with hc | hc | hc | hc
      · unfold lemmaKids at hc
        cases hl : e.lemma with
        | none => rw [hl] at hc; simp at hc
        | some l =>
          rw [hl] at hc
          simp at hc; subst hc
          exact dumpLemma_valid v l (fun hv => (h hv).2.1 l hl)
      · obtain ⟨f, hf, rfl⟩ := List.mem_map.mp hc
        exact dumpForm_valid v f (fun hv => (h hv).2.2.1 f hf)
      · obtain ⟨s, hs, rfl⟩ := List.mem_map.mp hc
        exact dumpSense_valid v s (fun hv => (h hv).2.2.2 s hs)
      · split at hc
        · simp at hc
        · obtain ⟨f, _, rfl⟩ := List.mem_map.mp hc
          exact valid_both v "SyntacticBehaviour" (by decide)
    · intro c hc
      simp only [List.mem_append] at hc
      rcases hc with hc | hc | hc
      · obtain ⟨f, _, rfl⟩ := List.mem_map.mp hc
        rcases dumpForm_name v f with h | h <;> rw [h] <;> rfl
      · obtain ⟨f, _, rfl⟩ := List.mem_map.mp hc
        rcases dumpSense_name v f with h | h <;> rw [h] <;> rfl
      · split at hc
        · simp at hc
        · obtain ⟨f, _, rfl⟩ := List.mem_map.mp hc; rfl
  · rw [dumpEntry_kids]
    unfold entryKids
    simp only [allOk_append, Bool.and_eq_true]
    refine ⟨⟨⟨?_, allOk_map v _ _ (fun f _ => dumpForm_ok v f)⟩, allOk_map v _ _ (fun s _ => dumpSense_ok v s)⟩, ?_⟩
    · unfold lemmaKids
      cases e.lemma with
      | none => rfl
      | some l => simp [allOk, dumpLemma_ok]
    · split
      · rfl
      · exact allOk_map v _ _ (fun _ _ => leaf_ok v _ _ _)

theorem dumpSynset_ok (v : String) (s : Synset) : treeOk v (dumpSynset v s) = true := by
  apply treeOk_of_children
  · rw [dumpSynset_kids]
    unfold synsetKids
    have : s.definitions.map dumpDefinition ++ iliKids s ++ s.relations.map (dumpRel "SynsetRelation") ++ s.examples.map dumpExample =
        s.definitions.map dumpDefinition ++ (iliKids s ++ (s.relations.map (dumpRel "SynsetRelation") ++ s.examples.map dumpExample)) := by
      simp [List.append_assoc]
    rw [this]
    unfold childrenOk
    simp only [Bool.and_eq_true, List.all_eq_true]
    constructor
    · intro c hc
      simp only [List.mem_append] at hc
      rcases hc with hc | hc | hc | hc
      · obtain ⟨_, _, rfl⟩ := List.mem_map.mp hc; exact valid_both v "Definition" (by decide)
      · unfold iliKids at hc
        split at hc
        · simp at hc
        · cases hd : s.iliDef with
          | none => rw [hd] at hc; simp at hc
          | some d => rw [hd] at hc; simp at hc; subst hc; exact valid_both v "ILIDefinition" (by decide)
      · obtain ⟨_, _, rfl⟩ := List.mem_map.mp hc; exact valid_both v "SynsetRelation" (by decide)
      · obtain ⟨_, _, rfl⟩ := List.mem_map.mp hc; exact valid_both v "Example" (by decide)
    · simp only [List.filter_append]
      rw [filter_map_none' dumpDefinition, filter_map_none' (dumpRel "SynsetRelation"), filter_map_none' dumpExample]
      · simp only [List.nil_append, List.append_nil]
        unfold iliKids
        cases s.external
        · cases s.iliDef <;> simp [nodupB, name_elem, singleValued, keyOf]
        · simp [nodupB]
      · intro _ _; rfl
      · intro _ _; rfl
      · intro _ _; rfl
  · rw [dumpSynset_kids]
    unfold synsetKids
    simp only [allOk_append, Bool.and_eq_true]
    refine ⟨⟨⟨allOk_map v _ _ (fun _ _ => leaf_ok v _ _ _), ?_⟩, allOk_map v _ _ (fun _ _ => leaf_ok v _ _ _)⟩,
      allOk_map v _ _ (fun _ _ => leaf_ok v _ _ _)⟩
    unfold iliKids
    cases s.external
    · cases s.iliDef <;> simp [allOk, leaf_ok]
    · rfl

theorem dumpLexicon_name (v : String) (l : Lexicon) :
    (dumpLexicon v l).name = if l.ext.isSome then "LexiconExtension" else "Lexicon" := rfl

theorem NFsynset_noExt (v : String) (x : Bool) (s : Synset) (h : NFsynset v x s) (hx : atLeast11 v = false → x = false) :
    atLeast11 v = false → s.external = false := by
  intro hv
  obtain ⟨_, _, _, h4⟩ := h
  cases he : s.external with
  | false => rfl
  | true =>
    rw [he] at h4
    simp only [if_true] at h4
    rw [hx hv] at h4
    exact absurd h4.1 (by decide)

theorem dumpLexicon_ok (v : String) (l : Lexicon) (h : NFlexicon v l) : treeOk v (dumpLexicon v l) = true := by
  obtain ⟨_, _, _, _, _, _, he, hs, _, hv⟩ := h
  have hx : atLeast11 v = false → l.ext.isSome = false := fun h => by rw [(hv h).1]; rfl
  apply treeOk_of_children
  · rw [dumpLexicon_kids]
    unfold lexKids childrenOk
    simp only [Bool.and_eq_true, List.all_eq_true]
    constructor
    · intro c hc
      simp only [List.mem_append] at hc
      rcases hc with ((hc | hc) | hc) | hc
      · cases hv' : atLeast11 v with
        | false => simp [hv'] at hc
        | true =>
          simp only [hv', if_true, List.mem_append] at hc
          rcases hc with hc | hc
          · unfold extKids at hc
            cases hd : l.ext with
            | none => rw [hd] at hc; simp at hc
            | some d => rw [hd] at hc; simp at hc; subst hc; exact valid_11 v "Extends" hv' (by decide)
          · obtain ⟨_, _, rfl⟩ := List.mem_map.mp hc; exact valid_11 v "Requires" hv' (by decide)
      · obtain ⟨e, hm, rfl⟩ := List.mem_map.mp hc
        exact dumpEntry_valid v e (fun h => (NFentry_noExt v _ e (he e hm) hx h).1)
      · obtain ⟨s, hm, rfl⟩ := List.mem_map.mp hc
        exact dumpSynset_valid v s (NFsynset_noExt v _ s (hs s hm) hx)
      · split at hc
        · obtain ⟨_, _, rfl⟩ := List.mem_map.mp hc; exact valid_both v "SyntacticBehaviour" (by decide)
        · simp at hc
    · simp only [List.filter_append]
      rw [filter_map_none' (dumpEntry v), filter_map_none' (dumpSynset v)]
      · have hf : (if atLeast11 v = true then l.frames.map (dumpFrame v) else []).filter (fun c => singleValued c.name) = [] := by
          split
          · exact filter_map_none' _ _ _ (fun _ _ => rfl)
          · rfl
        rw [hf]
        simp only [List.append_nil]
        cases atLeast11 v
        · simp [nodupB]
        · simp only [if_true, List.filter_append]
          rw [filter_map_none' (dumpDep "Requires") _ _ (fun _ _ => rfl)]
          unfold extKids
          cases l.ext <;> simp [nodupB, dumpDep, name_elem, singleValued, keyOf]
      · intro s _; rcases dumpSynset_name v s with h | h <;> rw [h] <;> rfl
      · intro e _; rcases dumpEntry_name v e with h | h <;> rw [h] <;> rfl
  · rw [dumpLexicon_kids]
    unfold lexKids
    simp only [allOk_append, Bool.and_eq_true]
    refine ⟨⟨⟨?_, allOk_map v _ _ (fun e hm => dumpEntry_ok v e (NFentry_noExt v _ e (he e hm) hx))⟩,
      allOk_map v _ _ (fun s _ => dumpSynset_ok v s)⟩, ?_⟩
    · split
      · rw [allOk_append]
        simp only [Bool.and_eq_true]
        refine ⟨?_, allOk_map v _ _ (fun _ _ => leaf_ok v _ _ _)⟩
        unfold extKids
        cases l.ext with
        | none => rfl
        | some d => simp [allOk, dumpDep, leaf_ok]
      · rfl
    · split
      · exact allOk_map v _ _ (fun _ _ => leaf_ok v _ _ _)
      · rfl

/-- the loader's normal form of a whole resource -/
def NFresource (r : Resource) : Prop := ∀ l ∈ r.lexicons, NFlexicon r.version l

theorem dumpTree_ok (r : Resource) (h : NFresource r) : treeOk r.version (.elem "" [] "" [dumpTree r]) = true := by
  have htree : treeOk r.version (dumpTree r) = true := by
    unfold dumpTree
    simp only [treeOk, Bool.and_eq_true]
    constructor
    · apply childrenOk_plain
      · intro c hc
        obtain ⟨l, hl, rfl⟩ := List.mem_map.mp hc
        rw [dumpLexicon_name]
        cases hx : l.ext.isSome with
        | false => exact valid_both _ "Lexicon" (by decide)
        | true =>
          have hv : atLeast11 r.version = true := by
            cases hv : atLeast11 r.version with
            | true => rfl
            | false =>
              have := ((h l hl).2.2.2.2.2.2.2.2.2 hv).1
              rw [this] at hx; cases hx
          exact valid_11 _ "LexiconExtension" hv (by decide)
      · intro c hc
        obtain ⟨l, _, rfl⟩ := List.mem_map.mp hc
        rw [dumpLexicon_name]
        split <;> rfl
    · exact allOk_map _ _ _ (fun l hl => dumpLexicon_ok _ l (h l hl))
  simp only [treeOk, allOk, htree, Bool.and_true]
  unfold childrenOk
  simp only [Bool.and_eq_true, List.all_eq_true]
  constructor
  · intro c hc
    simp at hc; subst hc
    exact valid_both _ "LexicalResource" (by decide)
  · simp [dumpTree, name_elem, singleValued, keyOf, nodupB]

/-- **C02 (tree level)**: loading what was dumped gives back the resource, for every LMF version,
every resource in normal form, with no bound on the number of lexicons, entries, forms, senses,
synsets, relations, examples or metadata keys -/
theorem C02_load_dump (r : Resource) (h : NFresource r) : loadTree r.version (dumpTree r) = .ok r := by
  have hok := dumpTree_ok r h
  unfold loadTree
  have hname : (dumpTree r).name = "LexicalResource" := rfl
  simp only [hname, bne_self_eq_false, Bool.false_eq_true, if_false, hok, Bool.not_true]
  have hkids : kids (dumpTree r) ["Lexicon", "LexiconExtension"] = r.lexicons.map (dumpLexicon r.version) := by
    unfold kids dumpTree
    simp only [children_elem]
    apply filter_map_all
    intro l _
    rw [dumpLexicon_name]
    split <;> rfl
  rw [hkids, mapM_map_ok (dumpLexicon r.version) loadLexicon r.lexicons (fun l hl => loadLexicon_dumpLexicon _ l (h l hl))]
  rfl

/-- consequently dump ∘ load ∘ dump = dump on trees (the byte-level fixed point modulo the printer) -/
theorem C02_fixed_point (r : Resource) (h : NFresource r) :
    (loadTree r.version (dumpTree r)).map dumpTree = .ok (dumpTree r) := by
  rw [C02_load_dump r h]; rfl

/-! ### non-vacuity: a resource with an extension, metadata, members, subcat satisfies the hypotheses -/

def demoBase : Lexicon :=
  { id := "a", version := "1", label := "A <&> \"q\"", language := "en", email := "e", license := "l", url := some "http://a",
    md := some [("publisher", "p"), ("note", "n"), ("confidenceScore", "0.9")],
    requires := [⟨"b", "2", some "http://b"⟩],
    entries := [{ id := "e1", md := some [("note", "x")],
                  lemma := some { form := "cat", pos := "n", script := some "Latn", prons := [{ text := "kat", phonemic := some false }], tags := [⟨"t", "c"⟩] },
                  forms := [{ id := some "f1", form := "cats" }],
                  senses := [{ id := "s1", synset := "y1", lexicalized := some false, adjposition := some "p", subcat := ["fr1", "fr2"],
                               relations := [⟨"s1", "also", some [("type", "T")]⟩], examples := [⟨"ex", some "en", none⟩],
                               counts := [⟨3, none⟩] }] }],
    synsets := [{ id := "y1", ili := "in", pos := some "n", iliDef := some ⟨"def", some [("source", "s")]⟩, members := ["s1"],
                  lexfile := some "noun.animal", definitions := [⟨"d", some "en", some "s1", none⟩] }],
    frames := [⟨some "fr1", "F one", []⟩, ⟨some "fr2", "F two", []⟩] }

def demoExt : Lexicon :=
  { id := "x", version := "1", label := "X", language := "en", email := "e", license := "l", ext := some ⟨"a", "1", none⟩,
    entries := [{ external := true, id := "e1", lemma := some { external := true, tags := [⟨"t2", "c"⟩] },
                  forms := [{ external := true, id := some "f1", tags := [⟨"t3", "c"⟩] }, { form := "kitty" }],
                  senses := [{ external := true, id := "s1", examples := [⟨"more", none, none⟩] }] }],
    synsets := [{ external := true, id := "y1", definitions := [⟨"d2", none, none, none⟩] }] }

def demo : Resource := { version := "1.3", lexicons := [demoBase, demoExt] }

example : NFresource demo := by
  intro l hl
  simp only [demo, List.mem_cons, List.not_mem_nil, or_false] at hl
  rcases hl with rfl | rfl <;>
    simp [NFlexicon, NFentry, NFsynset, NFsense, NFlemma, NFform, NFframe, NFexample, NFcount, NFdefinition, NFdep, NFpron, NFopt,
      NFmeta, NFidList, demoBase, demoExt, demo, atLeast11, truthy, canonMeta, dcKeys, plainMetaKeys, optAttr] <;> decide +kernel

end WnVerif.Props.C02
