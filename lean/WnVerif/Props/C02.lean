import WnVerif.Model.Lmf
namespace WnVerif.Props.C02
theorem placeholder_true : True := trivial
end WnVerif.Props.C02
