/-
C04 — queries stay inside the selected lexicons and ignore unrelated ones.
Theorems over the query layer (`Model/Query.lean`, `Model/Api.lean`) for every database
(no assumption on how it was built).
-/
import WnVerif.Model.Api
import WnVerif.Lemmas.DbAux
import WnVerif.Props.C01
import WnVerif.Props.C05
import WnVerif.Props.C09
namespace WnVerif.Props.C04
open WnVerif.Db

theorem mem_inLexOrAll (lexids : List Nat) (h : lexids ≠ []) (l : Nat) : inLexOrAll lexids l = true ↔ l ∈ lexids := by
  unfold inLexOrAll
  have : lexids.isEmpty = false := by simpa [List.isEmpty_iff] using h
  simp [this]

/-- words(), word(id), words(form): every returned word is owned by a selected lexicon -/
theorem C04_inside_entries (db : Db) (id : Option String) (forms : List String) (pos : Option String)
    (lexids : List Nat) (hne : lexids ≠ []) (n a : Bool) (w : WordData)
    (h : w ∈ findEntries db id forms pos lexids n a) : w.lex ∈ lexids := by
  unfold findEntries at h
  simp only [List.mem_filterMap] at h
  obtain ⟨e, he, hw⟩ := h
  rw [mem_sortBy] at he
  simp only [List.mem_filter, Bool.and_eq_true] at he
  have hl := (mem_inLexOrAll lexids hne e.lex).mp he.2.2
  split at hw
  · simp at hw
  · simp at hw; subst hw; exact hl

/-- senses(): every returned sense is owned by a selected lexicon -/
theorem C04_inside_senses (db : Db) (id : Option String) (forms : List String) (pos : Option String)
    (lexids : List Nat) (hne : lexids ≠ []) (n a : Bool) (s : SenseData)
    (h : s ∈ findSenses db id forms pos lexids n a) : s.lex ∈ lexids := by
  unfold findSenses at h
  simp only [List.mem_filterMap, List.mem_filter, Bool.and_eq_true] at h
  obtain ⟨r, ⟨_, hr⟩, hs⟩ := h
  have hl := (mem_inLexOrAll lexids hne r.lex).mp hr.2
  unfold senseData at hs
  split at hs
  · simp at hs; subst hs; exact hl
  · simp at hs

/-- synsets() without a form: every returned synset is owned by a selected lexicon -/
theorem C04_inside_synsets (db : Db) (id pos ili : Option String) (lexids : List Nat) (hne : lexids ≠ [])
    (n a : Bool) (y : SynsetData) (h : y ∈ findSynsets db id [] pos ili lexids n a) : y.lex ∈ lexids := by
  unfold findSynsets at h
  simp only [List.isEmpty_nil, if_true, List.mem_map, List.mem_filter, Bool.and_eq_true] at h
  obtain ⟨r, ⟨_, hr⟩, rfl⟩ := h
  exact (mem_inLexOrAll lexids hne r.lex).mp hr.2

/-- senses of a word / members of a synset come from the lexicons in scope only -/
theorem C04_inside_entry_senses (db : Db) (entry : Nat) (lexids : List Nat) (s : SenseData)
    (h : s ∈ entrySenses db entry lexids) : s.lex ∈ lexids := by
  unfold entrySenses at h
  simp only [List.mem_filterMap] at h
  obtain ⟨r, hr, hs⟩ := h
  rw [mem_sortBy] at hr
  simp only [List.mem_filter, Bool.and_eq_true, inLex, List.contains_iff_mem] at hr
  unfold senseData at hs
  split at hs
  · simp at hs; subst hs; exact hr.2.2
  · simp at hs

theorem C04_inside_synset_members (db : Db) (synset : Nat) (lexids : List Nat) (s : SenseData)
    (h : s ∈ synsetMembers db synset lexids) : s.lex ∈ lexids := by
  unfold synsetMembers at h
  simp only [List.mem_filterMap] at h
  obtain ⟨r, hr, hs⟩ := h
  rw [mem_sortBy] at hr
  simp only [List.mem_filter, Bool.and_eq_true, inLex, List.contains_iff_mem] at hr
  unfold senseData at hs
  split at hs
  · simp at hs; subst hs; exact hr.2.2
  · simp at hs

/-- relation targets: both the relation and its target are owned by lexicons in scope -/
theorem C04_inside_synset_relations (db : Db) (sources : List Nat) (types : List String) (lexids : List Nat)
    (r : RelData SynsetData) (h : r ∈ synsetRelations db sources types lexids) :
    r.target.lex ∈ lexids ∧ ∃ row ∈ db.synrels, row.lex ∈ lexids ∧ row.source = r.source ∧ lexSpec db row.lex = r.lexicon := by
  unfold synsetRelations at h
  have h' := mem_dedupBy _ _ r h
  simp only [List.mem_filterMap] at h'
  obtain ⟨row, hrow, hr⟩ := h'
  split at hr
  · rename_i hc
    simp only [Bool.and_eq_true, inLex, List.contains_iff_mem] at hc
    split at hr
    · rename_i n tgt _ _
      split at hr
      · rename_i ht
        simp only [inLex, List.contains_iff_mem] at ht
        simp at hr; subst hr
        exact ⟨ht, row, hrow, hc.2, rfl, rfl⟩
      · simp at hr
    · simp at hr
  · simp at hr

/-- in a restricted Wordnet every entity uses exactly the Wordnet's lexicons as its scope;
in default mode its own lexicon, its bases and its extensions -/
theorem C04_scope (db : Db) (w : Wordnet) (lex : Nat) :
    entityLexids db w lex =
      if w.defaultMode then [lex] ++ basesOf db (db.lexicons.length + 1) lex ++ extensionsOf db (db.lexicons.length + 1) lex
      else w.lexids := by
  unfold entityLexids; split <;> rfl

/-- expanded relation targets are resolved back into the scope: a stored synset of the scope
or the placeholder owned by the source's lexicon -/
theorem C04_expanded_targets_in_scope (db : Db) (w : Wordnet) (x : SynsetData) (types : List String)
    (e : RelData SynsetData × String × SynsetData) (h : e ∈ expandedSynsetRelations db w x types) :
    e.2.2.lex ∈ entityLexids db w x.lex ∨ (e.2.2.id = "*INFERRED*" ∧ e.2.2.lex = x.lex) := by
  unfold expandedSynsetRelations at h
  split at h
  · simp at h
  · split at h
    · simp at h
    · simp only [List.mem_flatMap] at h
      obtain ⟨r, _, hr⟩ := h
      split at hr
      · simp at hr
      · split at hr
        · simp at hr; subst hr; right; exact ⟨rfl, rfl⟩
        · simp only [List.mem_map] at hr
          obtain ⟨l, hl, rfl⟩ := hr
          left
          simp only [synsetsForIlis, List.mem_map, List.mem_filter, Bool.and_eq_true, inLex, List.contains_iff_mem] at hl
          obtain ⟨row, ⟨_, _, hin⟩, rfl⟩ := hl
          exact hin

/-! ### the leak of known findings F12 / F13: tags, pronunciations and forms have no owner filter -/

/-- kernel-checked witness (F12): the tags reported for a form do not depend on the selection at
all — a tag row added for the base lemma by any other lexicon is reported -/
theorem C04_frame_counterexample_tags (db : Db) (form : Nat) (t : RTag) (ht : t.form = form) :
    formTags { db with tags := db.tags ++ [t] } form = formTags db form ++ [t] := by
  simp [formTags, List.filter_append, ht]

/-- kernel-checked statement (F13): the forms reported for a word are *all* form rows of its entry,
whoever owns them — a form row written by an unselected extension is reported -/
theorem C04_frame_counterexample_forms (db : Db) (lexids : List Nat) (w : WordData)
    (h : w ∈ findEntries db none [] none lexids false true) (f : RForm) (hf : f ∈ db.forms) (he : f.entry = w.rowid) :
    (⟨f.form, f.id, f.script, f.rowid⟩ : FormData) ∈ w.forms := by
  unfold findEntries at h
  simp only [List.mem_filterMap] at h
  obtain ⟨e, _, hw⟩ := h
  split at hw
  · simp at hw
  · simp at hw; subst hw
    simp only [List.mem_map]
    refine ⟨f, ?_, rfl⟩
    rw [mem_sortBy]
    simp [hf, he]

/-- … while every owner-filtered contribution of a lexicon outside the scope is invisible:
examples, counts, definitions of lexicons not in `lexids` never appear -/
theorem C04_examples_scoped (db : Db) (sense : Nat) (lexids : List Nat) (x : RExample)
    (h : x ∈ senseExamples db sense lexids) : x.lex ∈ lexids := by
  simp only [senseExamples, List.mem_filter, Bool.and_eq_true, inLex, List.contains_iff_mem] at h
  exact h.2.2

theorem C04_counts_scoped (db : Db) (sense : Nat) (lexids : List Nat) (x : RCount)
    (h : x ∈ senseCounts db sense lexids) : x.lex ∈ lexids := by
  simp only [senseCounts, List.mem_filter, Bool.and_eq_true, inLex, List.contains_iff_mem] at h
  exact h.2.2

/-- frame for examples: rows owned by a lexicon outside the scope do not change the answer -/
theorem C04_frame_examples (db : Db) (sense : Nat) (lexids : List Nat) (extra : List RExample)
    (hout : ∀ x ∈ extra, x.lex ∉ lexids) :
    senseExamples { db with sensexs := db.sensexs ++ extra } sense lexids = senseExamples db sense lexids := by
  simp only [senseExamples, List.filter_append]
  have : extra.filter (fun x => x.owner == sense && inLex lexids x.lex) = [] := by
    rw [List.filter_eq_nil_iff]
    intro x hx
    simp [inLex, hout x hx]
  rw [this]; simp

/-! ### frame, end to end: adding a lexicon outside S does not change `synsets()` of S -/

theorem iliIdOf_append (db : Db) (extra : List RIli) (k : Option Nat)
    (hk : ∀ j, k = some j → j ∈ db.ilis.map (·.rowid)) :
    iliIdOf { db with ilis := db.ilis ++ extra } k = iliIdOf db k := by
  unfold iliIdOf
  cases k with
  | none => rfl
  | some j =>
    simp only
    rw [List.find?_append]
    obtain ⟨x, hx, hxj⟩ := List.mem_map.mp (hk j rfl)
    cases hf : db.ilis.find? (fun x => x.rowid == j) with
    | none =>
      rw [List.find?_eq_none] at hf
      have := hf x hx
      simp [hxj] at this
    | some y => rfl

theorem frame_helper {α β} (P' P : α → Bool) (f' f : α → β) (old rows : List α) (h1 : ∀ r ∈ rows, P' r = false)
    (h2 : ∀ o ∈ old, P' o = P o) (h3 : ∀ o ∈ old, f' o = f o) :
    ((old ++ rows).filter P').map f' = (old.filter P).map f := by
  rw [List.filter_append]
  have e1 : rows.filter P' = [] := by
    rw [List.filter_eq_nil_iff]; intro r hr; simp [h1 r hr]
  rw [e1, List.append_nil, List.filter_congr h2]
  apply List.map_congr_left
  intro o ho
  exact h3 o (List.mem_filter.mp ho).1

/-- **C04, frame for synsets, end to end**: let `S` be a non-empty selection and add *any* lexicon
(plain or extension, related or not) that is not in `S`.  Then `synsets()` of a Wordnet restricted to
`S` — with any id / part-of-speech / ILI filter — returns exactly what it returned before, provided
the store's synset → ILI links point at existing ILI rows. -/
theorem C04_frame_synsets_end_to_end (norm : String → String) (dr : Nat) (db db' : Db) (l : Doc.Lexicon)
    (h : addLexicon norm dr db l = .ok db') (S : List Nat) (hS : S ≠ [])
    (hout : nextId (db.lexicons.map (·.rowid)) ∉ S)
    (hlink : ∀ o ∈ db.synsets, ∀ k, o.ili = some k → k ∈ db.ilis.map (·.rowid))
    (id pos ili : Option String) (n a : Bool) :
    findSynsets db' id [] pos ili S n a = findSynsets db id [] pos ili S n a := by
  obtain ⟨rows, extra, hY, hlex, hI⟩ := C01.addLexicon_synset_tables norm dr db db' l h
  have hres : ∀ o ∈ db.synsets, iliIdOf db' o.ili = iliIdOf db o.ili := by
    intro o ho
    have : iliIdOf db' o.ili = iliIdOf { db with ilis := db.ilis ++ extra } o.ili := by
      unfold iliIdOf; rw [hI]
    rw [this]
    exact iliIdOf_append db extra o.ili (hlink o ho)
  unfold findSynsets
  simp only [List.isEmpty_nil, if_true]
  rw [hY]
  apply frame_helper
  · intro r hr
    have : inLexOrAll S r.lex = false := by
      rw [hlex r hr]
      unfold inLexOrAll
      have : S.isEmpty = false := by simpa [List.isEmpty_iff] using hS
      simp [this, hout]
    simp [this]
  · intro o ho
    simp only [hres o ho]
  · intro o ho
    unfold synsetData
    rw [hres o ho]

open WnVerif.Doc WnVerif.Props.C01

/-! ### frame, end to end, for relations, definitions, examples and counts -/

theorem find?_append_of_exists {α} (p : α → Bool) (old extra : List α) (h : ∃ x ∈ old, p x = true) :
    (old ++ extra).find? p = old.find? p := by
  rw [List.find?_append]
  obtain ⟨x, hx, hp⟩ := h
  cases hf : old.find? p with
  | none =>
    rw [List.find?_eq_none] at hf
    exact absurd hp (hf x hx)
  | some y => rfl

theorem filterMap_congr_mem {α β} (f g : α → Option β) : ∀ (l : List α), (∀ a ∈ l, f a = g a) → l.filterMap f = l.filterMap g := by
  intro l
  induction l with
  | nil => intro _; rfl
  | cons a t ih =>
    intro h
    simp only [List.filterMap_cons]
    rw [h a List.mem_cons_self, ih (fun x hx => h x (List.mem_cons_of_mem _ hx))]

theorem lookupInsert_prefix (t : List (Nat × String)) (v : String) : ∃ extra, lookupInsert t v = t ++ extra := by
  unfold lookupInsert
  split
  · exact ⟨[], by simp⟩
  · exact ⟨_, rfl⟩

theorem foldl_lookupInsert_prefix (vs : List String) : ∀ (t : List (Nat × String)), ∃ extra, vs.foldl lookupInsert t = t ++ extra := by
  induction vs with
  | nil => intro t; exact ⟨[], by simp⟩
  | cons v vs ih =>
    intro t
    obtain ⟨e1, h1⟩ := lookupInsert_prefix t v
    obtain ⟨e2, h2⟩ := ih (lookupInsert t v)
    exact ⟨e1 ++ e2, by simp only [List.foldl_cons]; rw [h2, h1, List.append_assoc]⟩

theorem lookupName_append (t extra : List (Nat × String)) (i : Nat) (hi : i ∈ t.map (·.1)) :
    lookupName (t ++ extra) i = lookupName t i := by
  unfold lookupName
  obtain ⟨x, hx, hxi⟩ := List.mem_map.mp hi
  rw [find?_append_of_exists _ _ _ ⟨x, hx, by simp [hxi]⟩]

/-- the store invariants the frame theorems need: relation rows point at existing rows -/
structure RelFK (db : Db) : Prop where
  synrelType : ∀ o ∈ db.synrels, o.type ∈ db.reltypes.map (·.1)
  synrelTarget : ∀ o ∈ db.synrels, o.target ∈ db.synsets.map (·.rowid)
  synrelLex : ∀ o ∈ db.synrels, o.lex ∈ db.lexicons.map (·.rowid)
  synsetIli : ∀ o ∈ db.synsets, ∀ k, o.ili = some k → k ∈ db.ilis.map (·.rowid)

/-- **C04, frame for synset relations, end to end**: adding any lexicon that is not in the selection
`S` leaves `get_synset_relations` restricted to `S` — for any sources and relation types — unchanged -/
theorem C04_frame_synset_relations_end_to_end (norm : String → String) (dr : Nat) (db db' : Db) (l : Doc.Lexicon)
    (h : addLexicon norm dr db l = .ok db') (S : List Nat)
    (hout : nextId (db.lexicons.map (·.rowid)) ∉ S) (fk : RelFK db)
    (sources : List Nat) (types : List String) :
    synsetRelations db' sources types S = synsetRelations db sources types S := by
  obtain ⟨t⟩ := addLexicon_split norm dr db db' l h
  obtain ⟨hT, _, rows, hrows, hF⟩ := addLexicon_synrel_table t
  obtain ⟨yrows, iextra, hY, _, hI⟩ := C01.addLexicon_synset_tables norm dr db db' l h
  have hlexid : t.lexid = nextId (db.lexicons.map (·.rowid)) := (insertLexicon_frame _ _ _ _ _ t.hlex).2.2.1
  obtain ⟨hL1, _, _⟩ := C01_lexicon_row _ _ _ _ _ t.hlex
  -- lexicons: only appended to
  have hL : ∃ lrow, db'.lexicons = db.lexicons ++ [lrow] := by
    let c : Ctx := ⟨t.lexid, t.extid, externalIds l⟩
    let π : Db → List RLexicon := fun b => b.lexicons
    have k2 : π t.d2 = π t.d1 := keepsGF_insertSynsets π l c (fun p => by keepsG_step presupStep)
      (by keepsG_step synsetStep) (by keepsG_step piliStep) _ _ t.hsyn
    have k3 : π t.d3 = π t.d2 := keepsGF_insertEntries π l c (by keepsG_step entryStep) _ _ t.hent
    have k4 : π t.d4 = π t.d3 := keepsGF_insertForms π (fun _ _ => rfl) norm l c _ _ t.hform
    have k5 : π t.d5 = π t.d4 := keepsGF_insertPronsTags π l c (fun _ _ _ => by keepsG_step pronStep)
      (fun _ _ _ => by keepsG_step tagStep) _ _ t.hpt
    have k6 : π t.d6 = π t.d5 := keepsGF_insertSenses π l c dr (fun _ => by keepsG_step senseStep)
      (by keepsG_step adjStep) (fun _ => by keepsG_step countStep) _ _ t.hsen
    have k7 : π t.d7 = π t.d6 := keepsGF_insertSbs π t.sbs c (by keepsG_step sbStep) (fun _ => by keepsG_step sbSenseStep) _ _ t.hsb
    have k8 : π t.d8 = π t.d7 := keepsGF_insertRelations π l c (fun _ => by keepsG_step synRelStep)
      (by keepsG_step senseRelStep) (by keepsG_step senseSynRelStep) _ _ t.hrel
    have k9 : π db' = π t.d8 := keepsGF_insertDefsExamples π l c (fun _ => by keepsG_step defStep)
      (fun _ => by keepsG_step senseExampleStep) (fun _ => by keepsG_step synsetExampleStep) _ _ t.hdx
    refine ⟨⟨t.lexid, l.id, l.label, l.language, l.email, l.license, l.version, l.url, l.citation, l.logo, l.md⟩, ?_⟩
    show π db' = _
    rw [k9, k8, k7, k6, k5, k4, k3, k2]
    exact hL1
  obtain ⟨lrow, hL⟩ := hL
  obtain ⟨textra, hTx⟩ : ∃ extra, db'.reltypes = db.reltypes ++ extra := by
    rw [hT]; unfold updateLookups; exact foldl_lookupInsert_prefix _ _
  rw [synsetRelations_eq, synsetRelations_eq, hrows, List.filterMap_append]
  have hnew : rows.filterMap (relF db' sources types S) = [] := by
    rw [List.filterMap_eq_nil_iff]
    intro r hr
    have hl : r.lex = t.lexid := Forall2.forall_right (fun _ _ hh => hh.1) hF r hr
    unfold relF
    have : inLex S r.lex = false := by
      rw [hl, hlexid]; simpa [inLex] using hout
    simp [this]
  rw [hnew, List.append_nil]
  congr 1
  apply filterMap_congr_mem
  intro o ho
  unfold relF
  have e1 : typeOk db' types o.type = typeOk db types o.type := by
    unfold typeOk
    rw [hTx, lookupName_append _ _ _ (fk.synrelType o ho)]
  obtain ⟨tg, htg, htgr⟩ := List.mem_map.mp (fk.synrelTarget o ho)
  have e2 : db'.synsets.find? (fun x => x.rowid == o.target) = db.synsets.find? (fun x => x.rowid == o.target) := by
    rw [hY]; exact find?_append_of_exists _ _ _ ⟨tg, htg, by simp [htgr]⟩
  have e3 : lexSpec db' o.lex = lexSpec db o.lex := by
    unfold lexSpec
    obtain ⟨lx, hlx, hlxr⟩ := List.mem_map.mp (fk.synrelLex o ho)
    rw [hL, find?_append_of_exists _ _ _ ⟨lx, hlx, by simp [hlxr]⟩]
  rw [e1, e2, e3]
  cases hfind : db.synsets.find? (fun x => x.rowid == o.target) with
  | none => cases typeOk db types o.type <;> rfl
  | some tgt =>
    have htm : tgt ∈ db.synsets := List.mem_of_find?_eq_some hfind
    have e4 : synsetData db' tgt = synsetData db tgt := by
      unfold synsetData
      have : iliIdOf db' tgt.ili = iliIdOf db tgt.ili := by
        have q : iliIdOf db' tgt.ili = iliIdOf { db with ilis := db.ilis ++ iextra } tgt.ili := by
          unfold iliIdOf; rw [hI]
        rw [q]; exact iliIdOf_append db iextra tgt.ili (fk.synsetIli tgt htm)
      rw [this]
    cases typeOk db types o.type with
    | none => rfl
    | some n => simp only [e4]

theorem filter_append_new_outside {ρ} (old rows : List ρ) (owner lex : ρ → Nat) (x : Nat) (S : List Nat) (lexid : Nat)
    (hout : lexid ∉ S) (hnew : ∀ r ∈ rows, lex r = lexid) :
    (old ++ rows).filter (fun r => owner r == x && inLex S (lex r)) = old.filter (fun r => owner r == x && inLex S (lex r)) := by
  rw [List.filter_append]
  have : rows.filter (fun r => owner r == x && inLex S (lex r)) = [] := by
    rw [List.filter_eq_nil_iff]
    intro r hr
    have : inLex S (lex r) = false := by rw [hnew r hr]; simpa [inLex] using hout
    simp [this]
  rw [this, List.append_nil]

/-- **C04, frame for examples and counts, end to end** -/
theorem C04_frame_examples_counts_end_to_end (norm : String → String) (dr : Nat) (db db' : Db) (l : Doc.Lexicon)
    (h : addLexicon norm dr db l = .ok db') (S : List Nat) (hout : nextId (db.lexicons.map (·.rowid)) ∉ S) (x : Nat) :
    synsetExamples db' x S = synsetExamples db x S ∧ senseExamples db' x S = senseExamples db x S ∧
    senseCounts db' x S = senseCounts db x S := by
  obtain ⟨t⟩ := addLexicon_split norm dr db db' l h
  have hlexid : t.lexid = nextId (db.lexicons.map (·.rowid)) := (insertLexicon_frame _ _ _ _ _ t.hlex).2.2.1
  obtain ⟨_, ⟨r2, h2, f2⟩, ⟨r3, h3, f3⟩⟩ := addLexicon_defs_tables t
  obtain ⟨r4, h4, f4⟩ := addLexicon_counts_table t
  rw [← hlexid] at hout
  refine ⟨?_, ?_, ?_⟩
  · unfold synsetExamples
    rw [h2]
    exact filter_append_new_outside _ _ (·.owner) (·.lex) x S t.lexid hout (Forall2.forall_right (fun _ _ hr => hr.1) f2)
  · unfold senseExamples
    rw [h3]
    exact filter_append_new_outside _ _ (·.owner) (·.lex) x S t.lexid hout (Forall2.forall_right (fun _ _ hr => hr.1) f3)
  · unfold senseCounts
    rw [h4]
    exact filter_append_new_outside _ _ (·.sense) (·.lex) x S t.lexid hout (Forall2.forall_right (fun _ _ hr => hr.1) f4)

/-- **C04, frame for definitions, end to end** (the source-sense column must point at stored senses) -/
theorem C04_frame_definitions_end_to_end (norm : String → String) (dr : Nat) (db db' : Db) (l : Doc.Lexicon)
    (h : addLexicon norm dr db l = .ok db') (S : List Nat) (hout : nextId (db.lexicons.map (·.rowid)) ∉ S)
    (hfk : ∀ d ∈ db.defs, ∀ s, d.sense = some s → s ∈ db.senses.map (·.rowid)) (x : Nat) :
    definitions db' x S = definitions db x S := by
  obtain ⟨t⟩ := addLexicon_split norm dr db db' l h
  have hlexid : t.lexid = nextId (db.lexicons.map (·.rowid)) := (insertLexicon_frame _ _ _ _ _ t.hlex).2.2.1
  obtain ⟨⟨r1, h1, f1⟩, _, _⟩ := addLexicon_defs_tables t
  obtain ⟨_, _, srows, hs, _, _⟩ := addLexicon_sense_table t
  rw [← hlexid] at hout
  unfold definitions
  rw [h1, filter_append_new_outside _ _ (·.synset) (·.lex) x S t.lexid hout (Forall2.forall_right (fun _ _ hr => hr.1) f1)]
  apply List.map_congr_left
  intro d hd
  have hdm := (List.mem_filter.mp hd).1
  cases hsn : d.sense with
  | none => rfl
  | some s =>
    obtain ⟨sr, hsr, hsrr⟩ := List.mem_map.mp (hfk d hdm s hsn)
    simp only
    rw [hs, find?_append_of_exists _ _ _ ⟨sr, hsr, by simp [hsrr]⟩]

structure SenseRelFK (db : Db) : Prop where
  relType : ∀ o ∈ db.senserels, o.type ∈ db.reltypes.map (·.1)
  relTarget : ∀ o ∈ db.senserels, o.target ∈ db.senses.map (·.rowid)
  relLex : ∀ o ∈ db.senserels, o.lex ∈ db.lexicons.map (·.rowid)
  senseEntry : ∀ o ∈ db.senses, o.entry ∈ db.entries.map (·.rowid)
  senseSynset : ∀ o ∈ db.senses, o.synset ∈ db.synsets.map (·.rowid)

/-- the lexicons table after one add: the old rows and the new lexicon's row -/
theorem addLexicon_lexicons {norm : String → String} {dr : Nat} {db db' : Db} {l : Lexicon} (t : AddTrace norm dr db db' l) :
    ∃ lrow, db'.lexicons = db.lexicons ++ [lrow] := by
  obtain ⟨hL1, _, _⟩ := C01_lexicon_row _ _ _ _ _ t.hlex
  let c : Ctx := ⟨t.lexid, t.extid, externalIds l⟩
  let π : Db → List RLexicon := fun b => b.lexicons
  have k2 : π t.d2 = π t.d1 := keepsGF_insertSynsets π l c (fun p => by keepsG_step presupStep)
    (by keepsG_step synsetStep) (by keepsG_step piliStep) _ _ t.hsyn
  have k3 : π t.d3 = π t.d2 := keepsGF_insertEntries π l c (by keepsG_step entryStep) _ _ t.hent
  have k4 : π t.d4 = π t.d3 := keepsGF_insertForms π (fun _ _ => rfl) norm l c _ _ t.hform
  have k5 : π t.d5 = π t.d4 := keepsGF_insertPronsTags π l c (fun _ _ _ => by keepsG_step pronStep)
    (fun _ _ _ => by keepsG_step tagStep) _ _ t.hpt
  have k6 : π t.d6 = π t.d5 := keepsGF_insertSenses π l c dr (fun _ => by keepsG_step senseStep)
    (by keepsG_step adjStep) (fun _ => by keepsG_step countStep) _ _ t.hsen
  have k7 : π t.d7 = π t.d6 := keepsGF_insertSbs π t.sbs c (by keepsG_step sbStep) (fun _ => by keepsG_step sbSenseStep) _ _ t.hsb
  have k8 : π t.d8 = π t.d7 := keepsGF_insertRelations π l c (fun _ => by keepsG_step synRelStep)
    (by keepsG_step senseRelStep) (by keepsG_step senseSynRelStep) _ _ t.hrel
  have k9 : π db' = π t.d8 := keepsGF_insertDefsExamples π l c (fun _ => by keepsG_step defStep)
    (fun _ => by keepsG_step senseExampleStep) (fun _ => by keepsG_step synsetExampleStep) _ _ t.hdx
  refine ⟨⟨t.lexid, l.id, l.label, l.language, l.email, l.license, l.version, l.url, l.citation, l.logo, l.md⟩, ?_⟩
  show π db' = _
  rw [k9, k8, k7, k6, k5, k4, k3, k2]
  exact hL1

/-- **C04, frame for sense relations, end to end** -/
theorem C04_frame_sense_relations_end_to_end (norm : String → String) (dr : Nat) (db db' : Db) (l : Doc.Lexicon)
    (h : addLexicon norm dr db l = .ok db') (S : List Nat)
    (hout : nextId (db.lexicons.map (·.rowid)) ∉ S) (fk : SenseRelFK db)
    (source : Nat) (types : List String) :
    senseRelations db' source types S = senseRelations db source types S := by
  obtain ⟨t⟩ := addLexicon_split norm dr db db' l h
  obtain ⟨hT, rows, hrows, hF⟩ := addLexicon_senserel_table t
  obtain ⟨hE, _, srows, hS, _, _⟩ := addLexicon_sense_table t
  obtain ⟨yrows, iextra, hY, _, hI⟩ := C01.addLexicon_synset_tables norm dr db db' l h
  have hlexid : t.lexid = nextId (db.lexicons.map (·.rowid)) := (insertLexicon_frame _ _ _ _ _ t.hlex).2.2.1
  obtain ⟨lrow, hL⟩ := addLexicon_lexicons t
  obtain ⟨textra, hTx⟩ : ∃ extra, db'.reltypes = db.reltypes ++ extra := by
    rw [hT]; unfold updateLookups; exact foldl_lookupInsert_prefix _ _
  -- entries: only appended to
  obtain ⟨erows, hEx⟩ : ∃ erows, db'.entries = db.entries ++ erows := by
    obtain ⟨_, _, g3⟩ := insertLexicon_frame2 _ _ _ _ _ t.hlex
    have e2 := (keepsF_insertSynsets l _ _ _ t.hsyn).1
    have h3 := t.hent
    unfold insertEntries at h3
    obtain ⟨_, er, he, _⟩ := foldlM_rows1 (fun d => d.entries) (fun _ => ()) (entryStep _) (fun _ _ _ => True)
      (fun b a b' hh => by
        obtain ⟨r, hb, _⟩ := entryStep_ok _ b b' a hh
        exact ⟨rfl, r, by rw [hb], trivial⟩) _ _ _ h3
    exact ⟨er, by rw [hE, he, e2, g3]; rfl⟩
  rw [senseRelations_eq, senseRelations_eq, hrows, List.filterMap_append]
  have hnew : rows.filterMap (srelF db' source types S) = [] := by
    rw [List.filterMap_eq_nil_iff]
    intro r hr
    have hl : r.lex = t.lexid := Forall2.forall_right (fun _ _ hh => hh.1) hF r hr
    unfold srelF
    have : inLex S r.lex = false := by
      rw [hl, hlexid]; simpa [inLex] using hout
    simp [this]
  rw [hnew, List.append_nil]
  congr 1
  apply filterMap_congr_mem
  intro o ho
  unfold srelF
  have e1 : typeOk db' types o.type = typeOk db types o.type := by
    unfold typeOk
    rw [hTx, lookupName_append _ _ _ (fk.relType o ho)]
  obtain ⟨tg, htg, htgr⟩ := List.mem_map.mp (fk.relTarget o ho)
  have e2 : db'.senses.find? (fun x => x.rowid == o.target) = db.senses.find? (fun x => x.rowid == o.target) := by
    rw [hS]; exact find?_append_of_exists _ _ _ ⟨tg, htg, by simp [htgr]⟩
  have e3 : lexSpec db' o.lex = lexSpec db o.lex := by
    unfold lexSpec
    obtain ⟨lx, hlx, hlxr⟩ := List.mem_map.mp (fk.relLex o ho)
    rw [hL, find?_append_of_exists _ _ _ ⟨lx, hlx, by simp [hlxr]⟩]
  rw [e1, e2, e3]
  cases hfind : db.senses.find? (fun x => x.rowid == o.target) with
  | none => cases typeOk db types o.type <;> rfl
  | some tgt =>
    have htm : tgt ∈ db.senses := List.mem_of_find?_eq_some hfind
    have e4 : senseData db' tgt = senseData db tgt := by
      unfold senseData
      obtain ⟨en, hen, henr⟩ := List.mem_map.mp (fk.senseEntry tgt htm)
      obtain ⟨sy, hsy, hsyr⟩ := List.mem_map.mp (fk.senseSynset tgt htm)
      rw [hEx, hY, find?_append_of_exists _ _ _ ⟨en, hen, by simp [henr]⟩,
        find?_append_of_exists _ _ _ ⟨sy, hsy, by simp [hsyr]⟩]
    cases typeOk db types o.type with
    | none => rfl
    | some n => simp only [e4]

theorem frame_helper_fm {α β} (P' P : α → Bool) (f' f : α → Option β) (old rows : List α) (h1 : ∀ r ∈ rows, P' r = false)
    (h2 : ∀ o ∈ old, P' o = P o) (h3 : ∀ o ∈ old, f' o = f o) :
    ((old ++ rows).filter P').filterMap f' = (old.filter P).filterMap f := by
  rw [List.filter_append]
  have e1 : rows.filter P' = [] := by
    rw [List.filter_eq_nil_iff]; intro r hr; simp [h1 r hr]
  rw [e1, List.append_nil, List.filter_congr h2]
  apply filterMap_congr_mem
  intro o ho
  exact h3 o (List.mem_filter.mp ho).1

/-- **C04, frame for `senses()`, end to end**: adding any lexicon outside a non-empty selection `S`
leaves `senses()` restricted to `S` — with any id / part-of-speech filter — unchanged, provided the
stored senses point at stored entries and synsets -/
theorem C04_frame_senses_end_to_end (norm : String → String) (dr : Nat) (db db' : Db) (l : Doc.Lexicon)
    (h : addLexicon norm dr db l = .ok db') (S : List Nat) (hS : S ≠ [])
    (hout : nextId (db.lexicons.map (·.rowid)) ∉ S)
    (hfkE : ∀ o ∈ db.senses, o.entry ∈ db.entries.map (·.rowid))
    (hfkY : ∀ o ∈ db.senses, o.synset ∈ db.synsets.map (·.rowid))
    (id pos : Option String) (n a : Bool) :
    findSenses db' id [] pos S n a = findSenses db id [] pos S n a := by
  obtain ⟨t⟩ := addLexicon_split norm dr db db' l h
  have hlexid : t.lexid = nextId (db.lexicons.map (·.rowid)) := (insertLexicon_frame _ _ _ _ _ t.hlex).2.2.1
  obtain ⟨hE, _, srows, hSn, hFs, _⟩ := addLexicon_sense_table t
  obtain ⟨yrows, _, hY, _, _⟩ := C01.addLexicon_synset_tables norm dr db db' l h
  obtain ⟨erows, hEx⟩ : ∃ erows, db'.entries = db.entries ++ erows := by
    obtain ⟨_, _, g3⟩ := insertLexicon_frame2 _ _ _ _ _ t.hlex
    have e2 := (keepsF_insertSynsets l _ _ _ t.hsyn).1
    have h3 := t.hent
    unfold insertEntries at h3
    obtain ⟨_, er, he, _⟩ := foldlM_rows1 (fun d => d.entries) (fun _ => ()) (entryStep _) (fun _ _ _ => True)
      (fun b a b' hh => by
        obtain ⟨r, hb, _⟩ := entryStep_ok _ b b' a hh
        exact ⟨rfl, r, by rw [hb], trivial⟩) _ _ _ h3
    exact ⟨er, by rw [hE, he, e2, g3]; rfl⟩
  have hsnew : ∀ r ∈ srows, r.lex = t.lexid := Forall2.forall_right (fun _ _ hr => hr.2.1) hFs
  have hEfind : ∀ o ∈ db.senses, db'.entries.find? (fun e => e.rowid == o.entry) = db.entries.find? (fun e => e.rowid == o.entry) := by
    intro o ho
    obtain ⟨e, he, her⟩ := List.mem_map.mp (hfkE o ho)
    rw [hEx]; exact find?_append_of_exists _ _ _ ⟨e, he, by simp [her]⟩
  have hYfind : ∀ o ∈ db.senses, db'.synsets.find? (fun x => x.rowid == o.synset) = db.synsets.find? (fun x => x.rowid == o.synset) := by
    intro o ho
    obtain ⟨y, hy, hyr⟩ := List.mem_map.mp (hfkY o ho)
    rw [hY]; exact find?_append_of_exists _ _ _ ⟨y, hy, by simp [hyr]⟩
  unfold findSenses
  rw [hSn]
  apply frame_helper_fm
  · intro r hr
    have : inLexOrAll S r.lex = false := by
      rw [hsnew r hr, hlexid]
      have h1 := mem_inLexOrAll S hS (nextId (db.lexicons.map (·.rowid)))
      cases hb : inLexOrAll S (nextId (db.lexicons.map (·.rowid))) with
      | false => rfl
      | true => exact absurd (h1.mp hb) hout
    simp [this]
  · intro o ho
    rw [hEfind o ho]
    simp only [List.isEmpty_nil, Bool.true_or]
  · intro o ho
    unfold senseData
    rw [hEfind o ho, hYfind o ho]

/-! ### frame for `words()`: a plain lexicon added outside the selection changes nothing, whatever the form query -/

/-- property of a freshly written form row: owned by the new lexicon, attached to an entry found under `c.lid` -/
def NewForm (c : Ctx) (E : List REntry) (r : RForm) : Prop :=
  r.lex = c.lexid ∧ ∃ x ∈ E, x.rowid = r.entry ∧ ∃ i, x.lex = c.lid i

theorem addForm_rows' (db db1 : Db) (norm : String → String) (lexid er : Nat) (id : Option String) (form : String)
    (script : Option String) (rank : Nat) (h : addForm db norm lexid er id form script rank = .ok db1) :
    db1.entries = db.entries ∧ ∃ r, db1.forms = db.forms ++ [r] ∧ r.lex = lexid ∧ r.entry = er := by
  unfold addForm at h
  simp only [bind, Except.bind, pure, Except.pure] at h
  split at h
  · simp [throw, throwThe, MonadExcept.throw] at h
  · simp only [Except.ok.injEq] at h; subst h; exact ⟨rfl, _, rfl, rfl, rfl⟩

theorem entryRow_some (b : Db) (id : String) (lex er : Nat) (h : entryRow b id lex = some er) :
    ∃ x ∈ b.entries, x.rowid = er ∧ x.lex = lex := by
  unfold entryRow at h
  cases hf : b.entries.find? (fun r => r.id == id && r.lex == lex) with
  | none => simp [hf] at h
  | some x =>
    simp only [hf, Option.map_some, Option.some.injEq] at h
    have hp := List.find?_some hf
    simp only [Bool.and_eq_true, beq_iff_eq] at hp
    exact ⟨x, List.mem_of_find?_eq_some hf, h, hp.2⟩

theorem formStep_rows' (norm : String → String) (c : Ctx) (e : Entry) (b : Db) (fi : Form × Nat) (b' : Db)
    (h : formStep norm c e b fi = .ok b') :
    b'.entries = b.entries ∧ ∃ rs, b'.forms = b.forms ++ rs ∧ ∀ r ∈ rs, NewForm c b.entries r := by
  unfold formStep at h
  split at h
  · simp only [Except.ok.injEq] at h; subst h; exact ⟨rfl, [], by simp, by simp⟩
  · cases he : entryRow b e.id (c.lid e.id) with
    | none => simp [he, need, bind, Except.bind] at h
    | some er =>
      simp only [he, need, bind, Except.bind] at h
      obtain ⟨hE, r, hr, hl, hen⟩ := addForm_rows' _ _ _ _ _ _ _ _ _ h
      obtain ⟨x, hx, hxr, hxl⟩ := entryRow_some b _ _ _ he
      refine ⟨hE, [r], hr, ?_⟩
      intro r' hr'
      simp only [List.mem_singleton] at hr'
      subst hr'
      exact ⟨hl, x, hx, by rw [hxr, hen], e.id, hxl⟩

theorem entryFormsStep_rows' (norm : String → String) (c : Ctx) (b : Db) (e : Entry) (b' : Db)
    (h : entryFormsStep norm c b e = .ok b') :
    b'.entries = b.entries ∧ ∃ rs, b'.forms = b.forms ++ rs ∧ ∀ r ∈ rs, NewForm c b.entries r := by
  unfold entryFormsStep at h
  simp only [bind, Except.bind] at h
  cases hx : e.external with
  | true =>
    simp only [hx, Bool.not_true, Bool.false_eq_true, if_false, pure, Except.pure] at h
    exact C05.foldlM_rowsP (fun d => d.forms) (fun d => d.entries) (formStep norm c e) (NewForm c)
      (fun b a b' hh => formStep_rows' norm c e b a b' hh) _ _ _ h
  | false =>
    simp only [hx, Bool.not_false, if_true] at h
    cases hl : e.lemma with
    | none => simp [hl, need] at h
    | some lem =>
      simp only [hl, need] at h
      cases he : entryRow b e.id (c.lid e.id) with
      | none => simp [he] at h
      | some er =>
        simp only [he] at h
        cases ha : addForm b norm c.lexid er none lem.form lem.script 0 with
        | error x => simp [ha] at h
        | ok b1 =>
          simp only [ha] at h
          obtain ⟨hE1, r, hr, hl', hen⟩ := addForm_rows' _ _ _ _ _ _ _ _ _ ha
          obtain ⟨x, hx', hxr, hxl⟩ := entryRow_some b _ _ _ he
          obtain ⟨hE2, rs, hrs, hls⟩ := C05.foldlM_rowsP (fun d => d.forms) (fun d => d.entries) (formStep norm c e) (NewForm c)
            (fun b a b' hh => formStep_rows' norm c e b a b' hh) _ _ _ h
          refine ⟨hE2.trans hE1, r :: rs, by rw [hrs, hr]; simp, ?_⟩
          intro y hy
          rcases List.mem_cons.mp hy with rfl | hy
          · exact ⟨hl', x, hx', by rw [hxr, hen], e.id, hxl⟩
          · have := hls y hy
            rw [hE1] at this
            exact this


theorem addLexicon_forms_table' {norm : String → String} {dr : Nat} {db db' : Db} {l : Lexicon}
    (t : AddTrace norm dr db db' l) :
    ∃ rows, db'.forms = db.forms ++ rows ∧ ∀ r ∈ rows, NewForm t.ctx db'.entries r := by
  obtain ⟨rows0, hr0, _⟩ := C05.addLexicon_forms_table t
  obtain ⟨hE, _, _⟩ := addLexicon_sense_table t
  have hform := t.hform
  unfold insertForms at hform
  obtain ⟨_, rs, hr, hP⟩ := C05.foldlM_rowsP (fun d => d.forms) (fun d => d.entries) (entryFormsStep norm t.ctx)
    (NewForm t.ctx) (fun b e b' hh => entryFormsStep_rows' norm t.ctx b e b' hh) _ _ _ hform
  -- forms are untouched before and after `_insert_forms`
  let c : Ctx := t.ctx
  let π : Db → List RForm := fun b => b.forms
  have k1 : π t.d1 = π (updateLookups db l) := (insertLexicon_frame _ _ _ _ _ t.hlex).2.1
  have k2 : π t.d2 = π t.d1 := keepsGF_insertSynsets π l c (fun p => by keepsG_step presupStep)
    (by keepsG_step synsetStep) (by keepsG_step piliStep) _ _ t.hsyn
  have k3 : π t.d3 = π t.d2 := keepsGF_insertEntries π l c (by keepsG_step entryStep) _ _ t.hent
  have k5 : π t.d5 = π t.d4 := keepsGF_insertPronsTags π l c (fun _ _ _ => by keepsG_step pronStep)
    (fun _ _ _ => by keepsG_step tagStep) _ _ t.hpt
  have k6 : π t.d6 = π t.d5 := keepsGF_insertSenses π l c dr (fun _ => by keepsG_step senseStep)
    (by keepsG_step adjStep) (fun _ => by keepsG_step countStep) _ _ t.hsen
  have k7 : π t.d7 = π t.d6 := keepsGF_insertSbs π t.sbs c (by keepsG_step sbStep) (fun _ => by keepsG_step sbSenseStep) _ _ t.hsb
  have k8 : π t.d8 = π t.d7 := keepsGF_insertRelations π l c (fun _ => by keepsG_step synRelStep)
    (by keepsG_step senseRelStep) (by keepsG_step senseSynRelStep) _ _ t.hrel
  have k9 : π db' = π t.d8 := keepsGF_insertDefsExamples π l c (fun _ => by keepsG_step defStep)
    (fun _ => by keepsG_step senseExampleStep) (fun _ => by keepsG_step synsetExampleStep) _ _ t.hdx
  refine ⟨rs, ?_, ?_⟩
  · show π db' = _
    rw [k9, k8, k7, k6, k5]
    show t.d4.forms = _
    rw [hr]
    have : t.d3.forms = db.forms := by
      show π t.d3 = _
      rw [k3, k2, k1]; rfl
    rw [this]
  · intro r hr'
    rw [hE]
    exact hP r hr'

theorem entries_eq_of_rowid (E : List REntry) (hn : (E.map (·.rowid)).Nodup) :
    ∀ a ∈ E, ∀ b ∈ E, a.rowid = b.rowid → a = b := by
  induction E with
  | nil => intro a ha; simp at ha
  | cons y Y ih =>
    simp only [List.map_cons, List.nodup_cons, List.mem_map, not_exists, not_and] at hn
    intro a ha b hb hab
    rcases List.mem_cons.mp ha with e1 | ha' <;> rcases List.mem_cons.mp hb with e2 | hb'
    · rw [e1, e2]
    · rw [e1] at hab; exact absurd hab.symm (hn.1 b hb')
    · rw [e2] at hab; exact absurd hab (hn.1 a ha')
    · exact ih hn.2 a ha' b hb' hab

theorem any_append_false {α} (P : α → Bool) (old rows : List α) (h : ∀ r ∈ rows, P r = false) :
    (old ++ rows).any P = old.any P := by
  rw [List.any_append]
  have : rows.any P = false := by
    rw [List.any_eq_false]; intro r hr; simp [h r hr]
  rw [this, Bool.or_false]

theorem frame_helper_sorted {α β} (k : α → Nat) (P' P : α → Bool) (f' f : α → Option β) (old rows : List α)
    (h1 : ∀ r ∈ rows, P' r = false) (h2 : ∀ o ∈ old, P' o = P o) (h3 : ∀ o ∈ old, f' o = f o) :
    (sortBy k ((old ++ rows).filter P')).filterMap f' = (sortBy k (old.filter P)).filterMap f := by
  rw [List.filter_append]
  have e1 : rows.filter P' = [] := by
    rw [List.filter_eq_nil_iff]; intro r hr; simp [h1 r hr]
  rw [e1, List.append_nil, List.filter_congr h2]
  apply filterMap_congr_mem
  intro o ho
  exact h3 o (List.mem_filter.mp ((C01.sortBy_perm k _).mem_iff.mp ho)).1

/-- **C04, frame for `words()`, end to end, any form query**: adding a *plain* lexicon (not an
extension) outside a non-empty selection `S` leaves `words()` restricted to `S` unchanged — for any
id, any list of queried forms (with or without normalised matching and `search_all_forms`), any
part of speech — provided the stored entries have unique rowids and point at stored lexicons.  The
restriction to plain lexicons is essential: an extension attaches forms to the entries of its base
(finding F13). -/
theorem C04_frame_words_end_to_end (norm : String → String) (dr : Nat) (db db' : Db) (l : Doc.Lexicon)
    (h : addLexicon norm dr db l = .ok db') (hplain : l.ext = none) (S : List Nat) (hS : S ≠ [])
    (hout : nextId (db.lexicons.map (·.rowid)) ∉ S)
    (hfkE : ∀ o ∈ db.entries, o.lex ∈ db.lexicons.map (·.rowid))
    (hnE : (db.entries.map (·.rowid)).Nodup)
    (id : Option String) (forms : List String) (pos : Option String) (n a : Bool) :
    findEntries db' id forms pos S n a = findEntries db id forms pos S n a := by
  obtain ⟨t⟩ := addLexicon_split norm dr db db' l h
  obtain ⟨_, _, hlexid, hext⟩ := insertLexicon_frame _ _ _ _ _ t.hlex
  have hlexid : t.lexid = nextId (db.lexicons.map (·.rowid)) := hlexid
  have hlid : ∀ i, t.ctx.lid i = t.lexid := by
    intro i
    unfold Ctx.lid AddTrace.ctx
    simp [hext hplain]
  obtain ⟨hE, _, _⟩ := addLexicon_sense_table t
  obtain ⟨_, _, g3⟩ := insertLexicon_frame2 _ _ _ _ _ t.hlex
  have e2 := (keepsF_insertSynsets l _ _ _ t.hsyn).1
  obtain ⟨erows, hEx, hnew⟩ : ∃ erows, db'.entries = db.entries ++ erows ∧ ∀ r ∈ erows, r.lex = t.lexid := by
    have h3 := t.hent
    unfold insertEntries at h3
    obtain ⟨_, er, he, hF⟩ := foldlM_rows1 (fun d => d.entries) (fun _ => ()) (entryStep t.ctx) (fun _ _ r => r.lex = t.lexid)
      (fun b a b' hh => by
        obtain ⟨r, hb, hr, _⟩ := entryStep_ok _ b b' a hh
        exact ⟨rfl, r, by rw [hb], hr.2.1⟩) _ _ _ h3
    exact ⟨er, by rw [hE, he, e2, g3]; rfl, Forall2.forall_right (P := fun (r : REntry) => r.lex = t.lexid) (fun _ _ hr => hr) hF⟩
  have hnE' : (db'.entries.map (·.rowid)).Nodup := by
    rw [hE]
    apply insertEntries_nodupE _ _ _ _ t.hent
    rw [e2, g3]; exact hnE
  obtain ⟨frows, hFx, hNF⟩ := addLexicon_forms_table' t
  have hfresh : ∀ o ∈ db.entries, o.lex ≠ t.lexid := by
    intro o ho e
    have := hfkE o ho
    rw [e, hlexid] at this
    exact nextId_not_mem _ this
  have key : ∀ e ∈ db.entries, ∀ r ∈ frows, (r.entry == e.rowid) = false := by
    intro e he r hr
    obtain ⟨_, x, hx, hxr, i, hxl⟩ := hNF r hr
    rw [hlid] at hxl
    cases hb : r.entry == e.rowid with
    | false => rfl
    | true =>
      exfalso
      have hre : r.entry = e.rowid := by simpa using hb
      have : x = e := entries_eq_of_rowid _ hnE' x hx e (by rw [hEx]; exact List.mem_append_left _ he) (by rw [hxr, hre])
      exact hfresh e he (by rw [← this]; exact hxl)
  have hflt : ∀ e ∈ db.entries, db'.forms.filter (fun f => f.entry == e.rowid) = db.forms.filter (fun f => f.entry == e.rowid) := by
    intro e he
    rw [hFx, List.filter_append]
    have : frows.filter (fun f => f.entry == e.rowid) = [] := by
      rw [List.filter_eq_nil_iff]; intro r hr; simp [key e he r hr]
    rw [this, List.append_nil]
  have hfm : ∀ e ∈ db.entries, formMatch db' forms n a e.rowid = formMatch db forms n a e.rowid := by
    intro e he
    unfold formMatch
    rw [hFx]
    apply any_append_false
    intro r hr
    simp [key e he r hr]
  unfold findEntries
  rw [hEx]
  apply frame_helper_sorted
  · intro r hr
    have : inLexOrAll S r.lex = false := by
      rw [hnew r hr, hlexid]
      have h1 := mem_inLexOrAll S hS (nextId (db.lexicons.map (·.rowid)))
      cases hb : inLexOrAll S (nextId (db.lexicons.map (·.rowid))) with
      | false => rfl
      | true => exact absurd (h1.mp hb) hout
    simp [this]
  · intro o ho
    rw [hfm o ho]
  · intro o ho
    simp only [hflt o ho]


/-! ### frames for the per-entry / per-synset sense listings and for syntactic behaviours -/

theorem inLex_false_of_not_mem (S : List Nat) (x : Nat) (h : x ∉ S) : inLex S x = false := by
  unfold inLex
  cases hb : S.contains x with
  | false => rfl
  | true => exact absurd (by simpa using hb) h

theorem flatMap_frame {α β} (f' f : α → List β) (old rows : List α) (h1 : ∀ r ∈ rows, f' r = [])
    (h2 : ∀ o ∈ old, f' o = f o) : (old ++ rows).flatMap f' = old.flatMap f := by
  rw [List.flatMap_append]
  have : rows.flatMap f' = [] := by
    rw [List.flatMap_eq_nil_iff]; exact h1
  rw [this, List.append_nil]
  clear this h1
  induction old with
  | nil => rfl
  | cons a t ih =>
    rw [List.flatMap_cons, List.flatMap_cons, h2 a (List.mem_cons_self ..), ih (fun o ho => h2 o (List.mem_cons_of_mem _ ho))]

/-- the lookups `senseData` does for stored senses are unaffected by an add -/
theorem senseData_frame (norm : String → String) (dr : Nat) (db db' : Db) (l : Doc.Lexicon)
    (h : addLexicon norm dr db l = .ok db') (t : AddTrace norm dr db db' l)
    (hfkE : ∀ o ∈ db.senses, o.entry ∈ db.entries.map (·.rowid))
    (hfkY : ∀ o ∈ db.senses, o.synset ∈ db.synsets.map (·.rowid)) :
    ∃ srows, db'.senses = db.senses ++ srows ∧ (∀ r ∈ srows, r.lex = t.lexid) ∧
      ∀ o ∈ db.senses, senseData db' o = senseData db o := by
  obtain ⟨hE, hY2, srows, hSn, hFs, _⟩ := addLexicon_sense_table t
  obtain ⟨_, g2, g3⟩ := insertLexicon_frame2 _ _ _ _ _ t.hlex
  have e2 := (keepsF_insertSynsets l _ _ _ t.hsyn).1
  obtain ⟨erows, hEx⟩ : ∃ erows, db'.entries = db.entries ++ erows := by
    have h3 := t.hent
    unfold insertEntries at h3
    obtain ⟨_, er, he, _⟩ := foldlM_rows1 (fun d => d.entries) (fun _ => ()) (entryStep _) (fun _ _ _ => True)
      (fun b a b' hh => by
        obtain ⟨r, hb, _⟩ := entryStep_ok _ b b' a hh
        exact ⟨rfl, r, by rw [hb], trivial⟩) _ _ _ h3
    exact ⟨er, by rw [hE, he, e2, g3]; rfl⟩
  obtain ⟨yrows, _, hYx, _, _⟩ := C01.addLexicon_synset_tables norm dr db db' l h
  refine ⟨srows, hSn, Forall2.forall_right (P := fun (r : RSense) => r.lex = t.lexid) (fun _ _ hr => hr.2.1) hFs, ?_⟩
  intro o ho
  obtain ⟨e, he, her⟩ := List.mem_map.mp (hfkE o ho)
  obtain ⟨y, hy, hyr⟩ := List.mem_map.mp (hfkY o ho)
  unfold senseData
  rw [hEx, hYx, find?_append_of_exists _ _ _ ⟨e, he, by simp [her]⟩, find?_append_of_exists _ _ _ ⟨y, hy, by simp [hyr]⟩]


/-- **C04, frame for `Word.senses()`, end to end**: adding any lexicon outside `S` leaves the senses
listed for an entry within `S` unchanged -/
theorem C04_frame_entry_senses_end_to_end (norm : String → String) (dr : Nat) (db db' : Db) (l : Doc.Lexicon)
    (h : addLexicon norm dr db l = .ok db') (S : List Nat)
    (hout : nextId (db.lexicons.map (·.rowid)) ∉ S)
    (hfkE : ∀ o ∈ db.senses, o.entry ∈ db.entries.map (·.rowid))
    (hfkY : ∀ o ∈ db.senses, o.synset ∈ db.synsets.map (·.rowid)) (entry : Nat) :
    entrySenses db' entry S = entrySenses db entry S := by
  obtain ⟨t⟩ := addLexicon_split norm dr db db' l h
  have hlexid : t.lexid = nextId (db.lexicons.map (·.rowid)) := (insertLexicon_frame _ _ _ _ _ t.hlex).2.2.1
  obtain ⟨srows, hSn, hnew, hsd⟩ := senseData_frame norm dr db db' l h t hfkE hfkY
  unfold entrySenses
  rw [hSn]
  apply frame_helper_sorted
  · intro r hr
    simp [hnew r hr, hlexid, inLex_false_of_not_mem S _ hout]
  · intro o _; rfl
  · exact hsd

/-- **C04, frame for `Synset.senses()` / `Synset.words()`, end to end**: the members of a synset
within `S` are unchanged by adding a lexicon outside `S` -/
theorem C04_frame_synset_members_end_to_end (norm : String → String) (dr : Nat) (db db' : Db) (l : Doc.Lexicon)
    (h : addLexicon norm dr db l = .ok db') (S : List Nat)
    (hout : nextId (db.lexicons.map (·.rowid)) ∉ S)
    (hfkE : ∀ o ∈ db.senses, o.entry ∈ db.entries.map (·.rowid))
    (hfkY : ∀ o ∈ db.senses, o.synset ∈ db.synsets.map (·.rowid)) (synset : Nat) :
    synsetMembers db' synset S = synsetMembers db synset S := by
  obtain ⟨t⟩ := addLexicon_split norm dr db db' l h
  have hlexid : t.lexid = nextId (db.lexicons.map (·.rowid)) := (insertLexicon_frame _ _ _ _ _ t.hlex).2.2.1
  obtain ⟨srows, hSn, hnew, hsd⟩ := senseData_frame norm dr db db' l h t hfkE hfkY
  unfold synsetMembers
  rw [hSn]
  apply frame_helper_sorted
  · intro r hr
    simp [hnew r hr, hlexid, inLex_false_of_not_mem S _ hout]
  · intro o _; rfl
  · exact hsd

/-- **C04, frame for `Sense.frames()`, end to end**: the subcategorisation frames reported for any
sense within `S` are unchanged by adding a lexicon outside `S`, provided stored frames point at
stored lexicons -/
theorem C04_frame_sense_frames_end_to_end (norm : String → String) (dr : Nat) (db db' : Db) (l : Doc.Lexicon)
    (h : addLexicon norm dr db l = .ok db') (S : List Nat)
    (hout : nextId (db.lexicons.map (·.rowid)) ∉ S)
    (hfk : ∀ o ∈ db.sbs, o.lex ∈ db.lexicons.map (·.rowid)) (sense : Nat) :
    senseFrames db' sense S = senseFrames db sense S := by
  obtain ⟨t⟩ := addLexicon_split norm dr db db' l h
  have hlexid : t.lexid = nextId (db.lexicons.map (·.rowid)) := (insertLexicon_frame _ _ _ _ _ t.hlex).2.2.1
  obtain ⟨_, _, ⟨brows, hB, hBn⟩, ⟨xrows, hX, hXn⟩⟩ := C05.addLexicon_misc_tables t
  have hfresh : ∀ o ∈ db.sbs, o.lex ≠ t.lexid := by
    intro o ho e
    have := hfk o ho
    rw [e, hlexid] at this
    exact nextId_not_mem _ this
  unfold senseFrames
  rw [hB]
  apply flatMap_frame
  · intro r hr
    simp [(hBn r hr).1, hlexid, inLex_false_of_not_mem S _ hout]
  · intro o ho
    have : db'.sbsenses.filter (fun x => x.sb == o.rowid && x.sense == sense) =
        db.sbsenses.filter (fun x => x.sb == o.rowid && x.sense == sense) := by
      rw [hX, List.filter_append]
      have : xrows.filter (fun x => x.sb == o.rowid && x.sense == sense) = [] := by
        rw [List.filter_eq_nil_iff]
        intro r hr
        obtain ⟨x, hx, hxl, hxr⟩ := hXn r hr
        have hne : r.sb ≠ o.rowid := by
          intro e
          rw [hB] at hx
          rcases List.mem_append.mp hx with hx | hx
          · exact hfresh x hx hxl
          · exact (hBn x hx).2 (List.mem_map.mpr ⟨o, ho, by rw [hxr, e]⟩)
        simp [hne]
      rw [this, List.append_nil]
    rw [this]


theorem mem_insertSb (a x : RSb) (l : List RSb) : x ∈ insertSb a l ↔ x = a ∨ x ∈ l := by
  induction l with
  | nil => simp [insertSb]
  | cons b t ih =>
    unfold insertSb
    split
    · simp
    · simp only [List.mem_cons, ih]
      constructor
      · rintro (h | h | h)
        · exact Or.inr (Or.inl h)
        · exact Or.inl h
        · exact Or.inr (Or.inr h)
      · rintro (h | h | h)
        · exact Or.inr (Or.inl h)
        · exact Or.inl h
        · exact Or.inr (Or.inr h)

theorem mem_foldr_insertSb (x : RSb) (l : List RSb) : x ∈ l.foldr insertSb [] ↔ x ∈ l := by
  induction l with
  | nil => simp
  | cons a t ih => rw [List.foldr_cons, mem_insertSb, ih]; simp

theorem frame_helper_sb {β} (P' P : RSb → Bool) (f' f : RSb → Option β) (old rows : List RSb)
    (h1 : ∀ r ∈ rows, P' r = false) (h2 : ∀ o ∈ old, P' o = P o) (h3 : ∀ o ∈ old, f' o = f o) :
    (((old ++ rows).filter P').foldr insertSb []).filterMap f' = ((old.filter P).foldr insertSb []).filterMap f := by
  rw [List.filter_append]
  have e1 : rows.filter P' = [] := by
    rw [List.filter_eq_nil_iff]; intro r hr; simp [h1 r hr]
  rw [e1, List.append_nil, List.filter_congr h2]
  apply filterMap_congr_mem
  intro o ho
  exact h3 o (List.mem_filter.mp ((mem_foldr_insertSb o _).mp ho)).1

/-- **C04, frame for the syntactic behaviours of a selection (`find_syntactic_behaviours`, used by
export and `Sense.frames`)**: unchanged by adding a lexicon outside a non-empty `S`, provided stored
frames point at stored lexicons and stored frame–sense links at stored senses -/
theorem C04_frame_sbs_end_to_end (norm : String → String) (dr : Nat) (db db' : Db) (l : Doc.Lexicon)
    (h : addLexicon norm dr db l = .ok db') (S : List Nat) (hS : S ≠ [])
    (hout : nextId (db.lexicons.map (·.rowid)) ∉ S)
    (hfk : ∀ o ∈ db.sbs, o.lex ∈ db.lexicons.map (·.rowid))
    (hfkS : ∀ o ∈ db.sbsenses, o.sense ∈ db.senses.map (·.rowid)) :
    findSbs db' S = findSbs db S := by
  obtain ⟨t⟩ := addLexicon_split norm dr db db' l h
  have hlexid : t.lexid = nextId (db.lexicons.map (·.rowid)) := (insertLexicon_frame _ _ _ _ _ t.hlex).2.2.1
  obtain ⟨_, _, ⟨brows, hB, hBn⟩, ⟨xrows, hX, hXn⟩⟩ := C05.addLexicon_misc_tables t
  obtain ⟨_, _, srows, hSn, _, _⟩ := addLexicon_sense_table t
  have hfresh : ∀ o ∈ db.sbs, o.lex ≠ t.lexid := by
    intro o ho e
    have := hfk o ho
    rw [e, hlexid] at this
    exact nextId_not_mem _ this
  unfold findSbs
  rw [hB]
  apply frame_helper_sb
  · intro r hr
    rw [(hBn r hr).1, hlexid]
    have h1 := mem_inLexOrAll S hS (nextId (db.lexicons.map (·.rowid)))
    cases hb : inLexOrAll S (nextId (db.lexicons.map (·.rowid))) with
    | false => rfl
    | true => exact absurd (h1.mp hb) hout
  · intro o _; rfl
  · intro o ho
    have e1 : db'.sbsenses.filter (fun x => x.sb == o.rowid) = db.sbsenses.filter (fun x => x.sb == o.rowid) := by
      rw [hX, List.filter_append]
      have : xrows.filter (fun x => x.sb == o.rowid) = [] := by
        rw [List.filter_eq_nil_iff]
        intro r hr
        obtain ⟨x, hx, hxl, hxr⟩ := hXn r hr
        have hne : r.sb ≠ o.rowid := by
          intro e
          rw [hB] at hx
          rcases List.mem_append.mp hx with hx | hx
          · exact hfresh x hx hxl
          · exact (hBn x hx).2 (List.mem_map.mpr ⟨o, ho, by rw [hxr, e]⟩)
        simp [hne]
      rw [this, List.append_nil]
    have e2 : (db.sbsenses.filter (fun x => x.sb == o.rowid)).filterMap
          (fun x => (db'.senses.find? (fun s => s.rowid == x.sense)).map (·.id)) =
        (db.sbsenses.filter (fun x => x.sb == o.rowid)).filterMap
          (fun x => (db.senses.find? (fun s => s.rowid == x.sense)).map (·.id)) := by
      apply filterMap_congr_mem
      intro x hx
      obtain ⟨s, hs, hsr⟩ := List.mem_map.mp (hfkS x (List.mem_filter.mp hx).1)
      rw [hSn, find?_append_of_exists _ _ _ ⟨s, hs, by simp [hsr]⟩]
    simp only [e1, e2]


/-! ### frame for `ilis()`: the ILIs (existing and proposed) seen through a selection -/

theorem presupStep_ilis (p : Nat) (b b1 : Db) (ss : Synset) (h : presupStep p b ss = .ok b1) :
    ∃ rs, b1.ilis = b.ilis ++ rs ∧ ∀ r ∈ rs, r.rowid ∉ b.ilis.map (·.rowid) := by
  unfold presupStep at h
  repeat' (split at h)
  all_goals (simp only [Except.ok.injEq] at h; subst h)
  · exact ⟨[_], rfl, by intro r hr; simp only [List.mem_singleton] at hr; subst hr; exact nextId_not_mem _⟩
  · exact ⟨[], by simp, by simp⟩
  · exact ⟨[], by simp, by simp⟩

theorem presupFold_ilis (p : Nat) : ∀ (l : List Synset) (b b' : Db), l.foldlM (presupStep p) b = .ok b' →
    ∃ rs, b'.ilis = b.ilis ++ rs ∧ ∀ r ∈ rs, r.rowid ∉ b.ilis.map (·.rowid) := by
  intro l b b' h
  refine foldlM_ok_induct (presupStep p)
    (fun _ b b' => ∃ rs, b'.ilis = b.ilis ++ rs ∧ ∀ r ∈ rs, r.rowid ∉ b.ilis.map (·.rowid)) ?_ ?_ l b b' h
  · intro b; exact ⟨[], by simp, by simp⟩
  · intro a t b b1 b' h1 _ ih
    obtain ⟨r1, e1, f1⟩ := presupStep_ilis p b b1 a h1
    obtain ⟨r2, e2, f2⟩ := ih
    refine ⟨r1 ++ r2, by rw [e2, e1, List.append_assoc], ?_⟩
    intro r hr
    rcases List.mem_append.mp hr with hr | hr
    · exact f1 r hr
    · intro hmem
      apply f2 r hr
      rw [e1, List.map_append]
      exact List.mem_append_left _ hmem

theorem addLexicon_ilis_fresh {norm : String → String} {dr : Nat} {db db' : Db} {l : Lexicon}
    (t : AddTrace norm dr db db' l) :
    (∃ extra, db'.ilis = db.ilis ++ extra ∧ ∀ r ∈ extra, r.rowid ∉ db.ilis.map (·.rowid)) ∧
    db'.ilistatuses = db.ilistatuses := by
  let c : Ctx := ⟨t.lexid, t.extid, externalIds l⟩
  let π : Db → List RIli × List (Nat × String) := fun b => (b.ilis, b.ilistatuses)
  have k1 : π t.d1 = π db := by
    have h := t.hlex
    unfold insertLexicon at h
    simp only [bind, Except.bind, pure, Except.pure] at h
    split at h
    · simp [throw, throwThe, MonadExcept.throw] at h
    · split at h
      · split at h
        · simp at h
        · simp only [Except.ok.injEq, Prod.mk.injEq] at h
          obtain ⟨h, _, _⟩ := h; rw [← h]; rfl
      · simp only [Except.ok.injEq, Prod.mk.injEq] at h
        obtain ⟨h, _, _⟩ := h; rw [← h]; rfl
  have k3 : π t.d3 = π t.d2 := keepsGF_insertEntries π l c (by keepsG_step entryStep) _ _ t.hent
  have k4 : π t.d4 = π t.d3 := keepsGF_insertForms π (fun _ _ => rfl) norm l c _ _ t.hform
  have k5 : π t.d5 = π t.d4 := keepsGF_insertPronsTags π l c (fun _ _ _ => by keepsG_step pronStep)
    (fun _ _ _ => by keepsG_step tagStep) _ _ t.hpt
  have k6 : π t.d6 = π t.d5 := keepsGF_insertSenses π l c dr (fun _ => by keepsG_step senseStep)
    (by keepsG_step adjStep) (fun _ => by keepsG_step countStep) _ _ t.hsen
  have k7 : π t.d7 = π t.d6 := keepsGF_insertSbs π t.sbs c (by keepsG_step sbStep) (fun _ => by keepsG_step sbSenseStep) _ _ t.hsb
  have k8 : π t.d8 = π t.d7 := keepsGF_insertRelations π l c (fun _ => by keepsG_step synRelStep)
    (by keepsG_step senseRelStep) (by keepsG_step senseSynRelStep) _ _ t.hrel
  have k9 : π db' = π t.d8 := keepsGF_insertDefsExamples π l c (fun _ => by keepsG_step defStep)
    (fun _ => by keepsG_step senseExampleStep) (fun _ => by keepsG_step synsetExampleStep) _ _ t.hdx
  have kk : π db' = π t.d2 := by rw [k9, k8, k7, k6, k5, k4, k3]
  -- the synsets pass
  obtain ⟨presup, b1, b2, hp1, hp2, hp3⟩ := C05.insertSynsets_split l c _ _ t.hsyn
  obtain ⟨extra, he, hf⟩ := presupFold_ilis presup _ _ _ hp1
  have s1 : b1.ilistatuses = t.d1.ilistatuses :=
    fold_keepsG (fun b => b.ilistatuses) (presupStep presup) (by keepsG_step presupStep) _ _ _ hp1
  have s2 : π b2 = π b1 := fold_keepsG π (synsetStep c) (by keepsG_step synsetStep) _ _ _ hp2
  have s3 : π t.d2 = π b2 := fold_keepsG π (piliStep c) (by keepsG_step piliStep) _ _ _ hp3
  have hI : db'.ilis = b1.ilis := by
    have := congrArg Prod.fst (kk.trans (s3.trans s2)); exact this
  have hS : db'.ilistatuses = b1.ilistatuses := by
    have := congrArg Prod.snd (kk.trans (s3.trans s2)); exact this
  have d1i : t.d1.ilis = db.ilis := congrArg Prod.fst k1
  have d1s : t.d1.ilistatuses = db.ilistatuses := congrArg Prod.snd k1
  refine ⟨⟨extra, by rw [hI, he, d1i], ?_⟩, by rw [hS, s1, d1s]⟩
  intro r hr
  have := hf r hr
  rw [d1i] at this
  exact this

theorem ite_branch_congr {α} (c : Prop) [Decidable c] {a a' b b' : α} (h1 : a = a') (h2 : b = b') :
    (if c then a else b) = (if c then a' else b') := by rw [h1, h2]

theorem filterMap_frame {α β} (f' f : α → Option β) (old rows : List α) (h1 : ∀ r ∈ rows, f' r = none)
    (h2 : ∀ o ∈ old, f' o = f o) : (old ++ rows).filterMap f' = old.filterMap f := by
  rw [List.filterMap_append]
  have : rows.filterMap f' = [] := by
    rw [List.filterMap_eq_nil_iff]; exact h1
  rw [this, List.append_nil]
  exact filterMap_congr_mem _ _ _ h2

/-- **C04, frame for `ilis()`, end to end**: adding any lexicon outside a non-empty selection `S`
leaves the ILIs seen through `S` — existing ones with their status and definition, and proposed
ones — unchanged, whatever id / status filter is given; provided stored synsets have unique rowids,
point at stored lexicons and their ILI links at stored ILIs -/
theorem C04_frame_ilis_end_to_end (norm : String → String) (dr : Nat) (db db' : Db) (l : Doc.Lexicon)
    (h : addLexicon norm dr db l = .ok db') (S : List Nat) (hS : S ≠ [])
    (hout : nextId (db.lexicons.map (·.rowid)) ∉ S)
    (hlink : ∀ o ∈ db.synsets, ∀ k, o.ili = some k → k ∈ db.ilis.map (·.rowid))
    (hfkY : ∀ o ∈ db.synsets, o.lex ∈ db.lexicons.map (·.rowid))
    (hnY : (db.synsets.map (·.rowid)).Nodup)
    (id status : Option String) :
    findIlis db' id status S = findIlis db id status S := by
  obtain ⟨t⟩ := addLexicon_split norm dr db db' l h
  have hlexid : t.lexid = nextId (db.lexicons.map (·.rowid)) := (insertLexicon_frame _ _ _ _ _ t.hlex).2.2.1
  obtain ⟨⟨extra, hI, hfresh⟩, hSt⟩ := addLexicon_ilis_fresh t
  obtain ⟨yrows, _, hY, hylex, _⟩ := C01.addLexicon_synset_tables norm dr db db' l h
  obtain ⟨⟨prows, hP, hPn⟩, _, _, _⟩ := C05.addLexicon_misc_tables t
  have hSe : S.isEmpty = false := by simpa [List.isEmpty_iff] using hS
  have hnew : ∀ r ∈ yrows, S.contains r.lex = false := by
    intro r hr
    rw [hylex r hr]
    cases hb : S.contains (nextId (db.lexicons.map (·.rowid))) with
    | false => rfl
    | true => exact absurd (by simpa using hb) hout
  have hnY' : (db'.synsets.map (·.rowid)).Nodup := by
    obtain ⟨_, hY2, _⟩ := addLexicon_sense_table t
    obtain ⟨_, g2, _⟩ := insertLexicon_frame2 _ _ _ _ _ t.hlex
    rw [hY2]
    apply insertSynsets_nodupY _ _ _ _ t.hsyn
    rw [g2]; exact hnY
  have holdlex : ∀ o ∈ db.synsets, o.lex ≠ t.lexid := by
    intro o ho e
    have := hfkY o ho
    rw [e, hlexid] at this
    exact nextId_not_mem _ this
  -- A / B: the synsets carrying an ILI
  have hA : ∀ i : RIli, db'.synsets.any (fun ss => ss.ili == some i.rowid && S.contains ss.lex) =
      db.synsets.any (fun ss => ss.ili == some i.rowid && S.contains ss.lex) := by
    intro i
    rw [hY]
    apply any_append_false
    intro r hr
    have : r.lex ∉ S := by rw [hylex r hr]; exact hout
    simp [this]
  have hB : ∀ i ∈ extra, db.synsets.any (fun ss => ss.ili == some i.rowid && S.contains ss.lex) = false := by
    intro i hi
    rw [List.any_eq_false]
    intro ss hss
    have : ss.ili ≠ some i.rowid := fun e => hfresh i hi (hlink ss hss i.rowid e)
    simp [this]
  -- C / D: the synsets carrying a proposed ILI
  have hC : ∀ p : RPIli, db'.synsets.any (fun ss => ss.rowid == p.synset && S.contains ss.lex) =
      db.synsets.any (fun ss => ss.rowid == p.synset && S.contains ss.lex) := by
    intro p
    rw [hY]
    apply any_append_false
    intro r hr
    have : r.lex ∉ S := by rw [hylex r hr]; exact hout
    simp [this]
  have hD : ∀ p ∈ prows, db.synsets.any (fun ss => ss.rowid == p.synset && S.contains ss.lex) = false := by
    intro p hp
    rw [List.any_eq_false]
    intro ss hss
    obtain ⟨y, hy, hyl, hyr⟩ := hPn p hp
    have : ss.rowid ≠ p.synset := by
      intro e
      have : ss = y := mem_eq_of_rowid _ hnY' ss (by rw [hY]; exact List.mem_append_left _ hss) y hy (by rw [e, hyr])
      exact holdlex ss hss (by rw [this]; exact hyl)
    simp [this]
  unfold findIlis
  simp only [hSe, Bool.false_or, hSt, hA, hC]
  rw [hI, hP]
  congr 1
  · apply ite_branch_congr
    · rfl
    · apply filterMap_frame
      · intro r hr
        simp only [hB r hr, Bool.and_false]
        split <;> simp
      · intro o _; rfl
  · apply ite_branch_congr
    · apply filterMap_frame
      · intro r hr
        simp only [hD r hr]
        rfl
      · intro o _; rfl
    · rfl


/-! ### the status filter of `ilis()` -/

theorem filterMap_filter_opt {α β} (g g' : α → Option β) (q : β → Bool)
    (h : ∀ a, g' a = (g a).filter q) : ∀ (L : List α), L.filterMap g' = (L.filterMap g).filter q := by
  intro L
  induction L with
  | nil => rfl
  | cons a t ih =>
    simp only [List.filterMap_cons, h a]
    cases hg : g a with
    | none => simpa using ih
    | some w =>
      simp only [Option.filter, List.filter_cons]
      cases hq : q w <;> simp [ih]

/-- **`ilis(status=s)` is the sub-list of `ilis()` with status `s`** — on every database and for every
selection, for every status name other than the empty string and `proposed` (proposed ILIs live in a table of
their own and are listed after the stored ones) -/
theorem C04_ilis_status_is_a_filter (db : Db) (S : List Nat) (st : String) (h1 : st ≠ "") (h2 : st ≠ "proposed") :
    findIlis db none (some st) S = (findIlis db none none S).filter (fun i => i.status == st) := by
  unfold findIlis
  have e1 : ((some st : Option String) == some "proposed") = false := by simp [h2]
  have e2 : (st != "") = true := by simp [h1]
  have e3 : ((none : Option String) == some "proposed") = false := rfl
  simp only [e1, e2, e3, Bool.false_eq_true, if_false, Bool.not_true, Bool.false_or, Bool.not_false, Bool.true_and,
    Bool.true_or, Bool.and_true, Bool.or_false, Bool.and_false, if_true, List.append_nil, List.filter_append]
  have hp : (db.pilis.filterMap (fun p =>
      if (S.isEmpty || db.synsets.any (fun ss => ss.rowid == p.synset && S.contains ss.lex)) = true
      then some (⟨none, "proposed", p.definition, p.rowid⟩ : IliData) else none)).filter (fun i => i.status == st) = [] := by
    rw [List.filter_eq_nil_iff]
    intro i hi
    obtain ⟨p, _, hp⟩ := List.mem_filterMap.mp hi
    split at hp
    · simp only [Option.some.injEq] at hp
      subst hp
      simpa using fun e => h2 e.symm
    · simp at hp
  rw [hp, List.append_nil]
  apply filterMap_filter_opt
  intro i
  cases hl : lookupName db.ilistatuses i.status with
  | none => rfl
  | some s0 =>
    simp only [Option.filter]
    generalize (S.isEmpty || db.synsets.any (fun ss => ss.ili == some i.rowid && S.contains ss.lex)) = c
    cases c <;> by_cases hs : s0 = st <;> simp [hs]


/-! ### frame for `senses(form)`: a plain lexicon added outside the selection changes no form look-up of senses -/

/-- the form condition of every stored entry is untouched by the add of a plain lexicon -/
theorem addLexicon_formMatch_frame (norm : String → String) (dr : Nat) (db db' : Db) (l : Doc.Lexicon)
    (h : addLexicon norm dr db l = .ok db') (hplain : l.ext = none)
    (hfkE : ∀ o ∈ db.entries, o.lex ∈ db.lexicons.map (·.rowid))
    (hnE : (db.entries.map (·.rowid)).Nodup) (forms : List String) (n a : Bool) :
    ∀ e ∈ db.entries, formMatch db' forms n a e.rowid = formMatch db forms n a e.rowid := by
  obtain ⟨t⟩ := addLexicon_split norm dr db db' l h
  obtain ⟨_, _, hlexid, hext⟩ := insertLexicon_frame _ _ _ _ _ t.hlex
  have hlexid : t.lexid = nextId (db.lexicons.map (·.rowid)) := hlexid
  have hlid : ∀ i, t.ctx.lid i = t.lexid := by
    intro i
    unfold Ctx.lid AddTrace.ctx
    simp [hext hplain]
  obtain ⟨hE, _, _⟩ := addLexicon_sense_table t
  obtain ⟨_, _, g3⟩ := insertLexicon_frame2 _ _ _ _ _ t.hlex
  have e2 := (keepsF_insertSynsets l _ _ _ t.hsyn).1
  obtain ⟨erows, hEx⟩ : ∃ erows, db'.entries = db.entries ++ erows := by
    have h3 := t.hent
    unfold insertEntries at h3
    obtain ⟨_, er, he, _⟩ := foldlM_rows1 (fun d => d.entries) (fun _ => ()) (entryStep t.ctx) (fun _ _ _ => True)
      (fun b a b' hh => by
        obtain ⟨r, hb, _⟩ := entryStep_ok _ b b' a hh
        exact ⟨rfl, r, by rw [hb], trivial⟩) _ _ _ h3
    exact ⟨er, by rw [hE, he, e2, g3]; rfl⟩
  have hnE' : (db'.entries.map (·.rowid)).Nodup := by
    rw [hE]
    apply insertEntries_nodupE _ _ _ _ t.hent
    rw [e2, g3]; exact hnE
  obtain ⟨frows, hFx, hNF⟩ := addLexicon_forms_table' t
  have hfresh : ∀ o ∈ db.entries, o.lex ≠ t.lexid := by
    intro o ho e
    have := hfkE o ho
    rw [e, hlexid] at this
    exact nextId_not_mem _ this
  intro e he
  unfold formMatch
  rw [hFx]
  apply any_append_false
  intro r hr
  obtain ⟨_, x, hx, hxr, i, hxl⟩ := hNF r hr
  rw [hlid] at hxl
  have : (r.entry == e.rowid) = false := by
    cases hb : r.entry == e.rowid with
    | false => rfl
    | true =>
      exfalso
      have hre : r.entry = e.rowid := by simpa using hb
      have : x = e := entries_eq_of_rowid _ hnE' x hx e (by rw [hEx]; exact List.mem_append_left _ he) (by rw [hxr, hre])
      exact hfresh e he (by rw [← this]; exact hxl)
  simp [this]

/-- **C04, frame for `senses(form, …)`, end to end**: adding a plain lexicon outside a non-empty selection `S`
leaves `senses()` restricted to `S` unchanged for any id, *any form query*, any part of speech -/
theorem C04_frame_senses_forms_end_to_end (norm : String → String) (dr : Nat) (db db' : Db) (l : Doc.Lexicon)
    (h : addLexicon norm dr db l = .ok db') (hplain : l.ext = none) (S : List Nat) (hS : S ≠ [])
    (hout : nextId (db.lexicons.map (·.rowid)) ∉ S)
    (hfkL : ∀ o ∈ db.entries, o.lex ∈ db.lexicons.map (·.rowid))
    (hnE : (db.entries.map (·.rowid)).Nodup)
    (hfkE : ∀ o ∈ db.senses, o.entry ∈ db.entries.map (·.rowid))
    (hfkY : ∀ o ∈ db.senses, o.synset ∈ db.synsets.map (·.rowid))
    (id : Option String) (forms : List String) (pos : Option String) (n a : Bool) :
    findSenses db' id forms pos S n a = findSenses db id forms pos S n a := by
  obtain ⟨t⟩ := addLexicon_split norm dr db db' l h
  have hlexid : t.lexid = nextId (db.lexicons.map (·.rowid)) := (insertLexicon_frame _ _ _ _ _ t.hlex).2.2.1
  obtain ⟨srows, hSn, hsnew, hsd⟩ := senseData_frame norm dr db db' l h t hfkE hfkY
  have hfm := addLexicon_formMatch_frame norm dr db db' l h hplain hfkL hnE forms n a
  obtain ⟨hE, _, _⟩ := addLexicon_sense_table t
  obtain ⟨_, _, g3⟩ := insertLexicon_frame2 _ _ _ _ _ t.hlex
  have e2 := (keepsF_insertSynsets l _ _ _ t.hsyn).1
  obtain ⟨erows, hEx⟩ : ∃ erows, db'.entries = db.entries ++ erows := by
    have h3 := t.hent
    unfold insertEntries at h3
    obtain ⟨_, er, he, _⟩ := foldlM_rows1 (fun d => d.entries) (fun _ => ()) (entryStep t.ctx) (fun _ _ _ => True)
      (fun b a b' hh => by
        obtain ⟨r, hb, _⟩ := entryStep_ok _ b b' a hh
        exact ⟨rfl, r, by rw [hb], trivial⟩) _ _ _ h3
    exact ⟨er, by rw [hE, he, e2, g3]; rfl⟩
  have hEfind : ∀ o ∈ db.senses, db'.entries.find? (fun e => e.rowid == o.entry) = db.entries.find? (fun e => e.rowid == o.entry) := by
    intro o ho
    obtain ⟨e, he, her⟩ := List.mem_map.mp (hfkE o ho)
    rw [hEx]; exact find?_append_of_exists _ _ _ ⟨e, he, by simp [her]⟩
  unfold findSenses
  rw [hSn]
  apply frame_helper_fm
  · intro r hr
    have : inLexOrAll S r.lex = false := by
      rw [hsnew r hr, hlexid]
      have h1 := mem_inLexOrAll S hS (nextId (db.lexicons.map (·.rowid)))
      cases hb : inLexOrAll S (nextId (db.lexicons.map (·.rowid))) with
      | false => rfl
      | true => exact absurd (h1.mp hb) hout
    simp [this]
  · intro o ho
    obtain ⟨e, he, her⟩ := List.mem_map.mp (hfkE o ho)
    rw [hEfind o ho, ← her, hfm e he]
  · exact hsd


/-! ### frame for `synsets(form)` -/

theorem filterMap_drop_none {α β} (g : α → Option β) (L : List α) :
    L.filterMap g = (L.filter (fun a => (g a).isSome)).filterMap g := by
  induction L with
  | nil => rfl
  | cons a t ih =>
    simp only [List.filterMap_cons, List.filter_cons]
    cases hg : g a with
    | none => simpa [hg] using ih
    | some b => simp [hg, ih]

theorem sorted_filterMap_frame {α β} (key : α → Nat) (g' g : α → Option β) (A B : List α)
    (hB : ∀ b ∈ B, g' b = none) (hA : ∀ a ∈ A, g' a = g a) :
    (sortBy key (A ++ B)).filterMap g' = (sortBy key A).filterMap g := by
  rw [filterMap_drop_none g' (sortBy key (A ++ B)), C09.sortBy_filter, List.filter_append]
  have : B.filter (fun a => (g' a).isSome) = [] := by
    rw [List.filter_eq_nil_iff]; intro b hb; simp [hB b hb]
  rw [this, List.append_nil, ← C09.sortBy_filter, ← filterMap_drop_none]
  apply filterMap_congr_mem
  intro a ha
  exact hA a ((C01.sortBy_perm key A).mem_iff.mp ha)

/-- **C04, frame for `synsets(form, …)`, end to end**: adding a plain lexicon outside a non-empty selection `S`
leaves `synsets()` restricted to `S` unchanged for any id, *any form query*, part of speech and ILI filter -/
theorem C04_frame_synsets_forms_end_to_end (norm : String → String) (dr : Nat) (db db' : Db) (l : Doc.Lexicon)
    (h : addLexicon norm dr db l = .ok db') (hplain : l.ext = none) (S : List Nat) (hS : S ≠ [])
    (hout : nextId (db.lexicons.map (·.rowid)) ∉ S)
    (hfkL : ∀ o ∈ db.entries, o.lex ∈ db.lexicons.map (·.rowid))
    (hnE : (db.entries.map (·.rowid)).Nodup) (hnY : (db.synsets.map (·.rowid)).Nodup)
    (hfkE : ∀ o ∈ db.senses, o.entry ∈ db.entries.map (·.rowid))
    (hfkY : ∀ o ∈ db.senses, o.synset ∈ db.synsets.map (·.rowid))
    (hlink : ∀ o ∈ db.synsets, ∀ k, o.ili = some k → k ∈ db.ilis.map (·.rowid))
    (id : Option String) (forms : List String) (hforms : forms ≠ []) (pos ili : Option String) (n a : Bool) :
    findSynsets db' id forms pos ili S n a = findSynsets db id forms pos ili S n a := by
  obtain ⟨t⟩ := addLexicon_split norm dr db db' l h
  obtain ⟨_, _, hlexid0, hext⟩ := insertLexicon_frame _ _ _ _ _ t.hlex
  have hlexid : t.lexid = nextId (db.lexicons.map (·.rowid)) := hlexid0
  have hlid : ∀ i, t.ctx.lid i = t.lexid := by
    intro i; unfold Ctx.lid AddTrace.ctx; simp [hext hplain]
  obtain ⟨hE, hY2, srows, hSn, hFs, _⟩ := addLexicon_sense_table t
  obtain ⟨yrows, extra, hY, hylex, hI⟩ := C01.addLexicon_synset_tables norm dr db db' l h
  obtain ⟨_, g2, _⟩ := insertLexicon_frame2 _ _ _ _ _ t.hlex
  have hnY' : (db'.synsets.map (·.rowid)).Nodup := by
    rw [hY2]; apply insertSynsets_nodupY _ _ _ _ t.hsyn; rw [g2]; exact hnY
  have hfm := addLexicon_formMatch_frame norm dr db db' l h hplain hfkL hnE forms n a
  have hres : ∀ o ∈ db.synsets, iliIdOf db' o.ili = iliIdOf db o.ili := by
    intro o ho
    have : iliIdOf db' o.ili = iliIdOf { db with ilis := db.ilis ++ extra } o.ili := by
      unfold iliIdOf; rw [hI]
    rw [this]
    exact iliIdOf_append db extra o.ili (hlink o ho)
  have hSe : forms.isEmpty = false := by simpa [List.isEmpty_iff] using hforms
  have hnotS : inLexOrAll S t.lexid = false := by
    rw [hlexid]
    have h1 := mem_inLexOrAll S hS (nextId (db.lexicons.map (·.rowid)))
    cases hb : inLexOrAll S (nextId (db.lexicons.map (·.rowid))) with
    | false => rfl
    | true => exact absurd (h1.mp hb) hout
  unfold findSynsets
  simp only [hSe, Bool.false_eq_true, if_false]
  congr 1
  rw [hSn, List.filter_append]
  have hA : db.senses.filter (fun s => formMatch db' forms n a s.entry) = db.senses.filter (fun s => formMatch db forms n a s.entry) := by
    apply List.filter_congr
    intro o ho
    obtain ⟨e, he, her⟩ := List.mem_map.mp (hfkE o ho)
    rw [← her, hfm e he]
  rw [hA]
  apply sorted_filterMap_frame
  · -- a sense of the new lexicon leads to a synset of the new lexicon, which is outside S
    intro r hr
    have hr' := (List.mem_filter.mp hr).1
    obtain ⟨p, _, hp⟩ := Forall2.exists_of_mem_right hFs r hr'
    obtain ⟨x, _, hxm, _, hxl, hxr⟩ := synsetRowY'_some _ _ _ _ hp.2.2.2.2
    rw [hlid] at hxl
    have hfind : db'.synsets.find? (fun y => y.rowid == r.synset) = some x := by
      rw [← hxr]; exact find_by_rowid_Y _ hnY' x hxm
    rw [hfind]
    simp [hxl, hnotS]
  · intro o ho
    have ho' := (List.mem_filter.mp ho).1
    obtain ⟨y, hy, hyr⟩ := List.mem_map.mp (hfkY o ho')
    have e1 : db'.synsets.find? (fun x => x.rowid == o.synset) = db.synsets.find? (fun x => x.rowid == o.synset) := by
      rw [hY]; exact find?_append_of_exists _ _ _ ⟨y, hy, by simp [hyr]⟩
    rw [e1]
    cases hf : db.synsets.find? (fun x => x.rowid == o.synset) with
    | none => rfl
    | some x =>
      have hx := List.mem_of_find?_eq_some hf
      simp only [hres x hx, synsetData]


end WnVerif.Props.C04
