import WnVerif.Model.Api
namespace WnVerif.Props.C04
theorem placeholder_true : True := trivial
end WnVerif.Props.C04
