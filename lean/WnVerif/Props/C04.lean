/-
C04 — queries stay inside the selected lexicons and ignore unrelated ones.
Theorems over the query layer (`Model/Query.lean`, `Model/Api.lean`) for every database
(no assumption on how it was built).
-/
import WnVerif.Model.Api
import WnVerif.Lemmas.DbAux
import WnVerif.Props.C01
namespace WnVerif.Props.C04
open WnVerif.Db

theorem mem_inLexOrAll (lexids : List Nat) (h : lexids ≠ []) (l : Nat) : inLexOrAll lexids l = true ↔ l ∈ lexids := by
  unfold inLexOrAll
  have : lexids.isEmpty = false := by simpa [List.isEmpty_iff] using h
  simp [this]

/-- words(), word(id), words(form): every returned word is owned by a selected lexicon -/
theorem C04_inside_entries (db : Db) (id : Option String) (forms : List String) (pos : Option String)
    (lexids : List Nat) (hne : lexids ≠ []) (n a : Bool) (w : WordData)
    (h : w ∈ findEntries db id forms pos lexids n a) : w.lex ∈ lexids := by
  unfold findEntries at h
  simp only [List.mem_filterMap] at h
  obtain ⟨e, he, hw⟩ := h
  rw [mem_sortBy] at he
  simp only [List.mem_filter, Bool.and_eq_true] at he
  have hl := (mem_inLexOrAll lexids hne e.lex).mp he.2.2
  split at hw
  · simp at hw
  · simp at hw; subst hw; exact hl

/-- senses(): every returned sense is owned by a selected lexicon -/
theorem C04_inside_senses (db : Db) (id : Option String) (forms : List String) (pos : Option String)
    (lexids : List Nat) (hne : lexids ≠ []) (n a : Bool) (s : SenseData)
    (h : s ∈ findSenses db id forms pos lexids n a) : s.lex ∈ lexids := by
  unfold findSenses at h
  simp only [List.mem_filterMap, List.mem_filter, Bool.and_eq_true] at h
  obtain ⟨r, ⟨_, hr⟩, hs⟩ := h
  have hl := (mem_inLexOrAll lexids hne r.lex).mp hr.2
  unfold senseData at hs
  split at hs
  · simp at hs; subst hs; exact hl
  · simp at hs

/-- synsets() without a form: every returned synset is owned by a selected lexicon -/
theorem C04_inside_synsets (db : Db) (id pos ili : Option String) (lexids : List Nat) (hne : lexids ≠ [])
    (n a : Bool) (y : SynsetData) (h : y ∈ findSynsets db id [] pos ili lexids n a) : y.lex ∈ lexids := by
  unfold findSynsets at h
  simp only [List.isEmpty_nil, if_true, List.mem_map, List.mem_filter, Bool.and_eq_true] at h
  obtain ⟨r, ⟨_, hr⟩, rfl⟩ := h
  exact (mem_inLexOrAll lexids hne r.lex).mp hr.2

/-- senses of a word / members of a synset come from the lexicons in scope only -/
theorem C04_inside_entry_senses (db : Db) (entry : Nat) (lexids : List Nat) (s : SenseData)
    (h : s ∈ entrySenses db entry lexids) : s.lex ∈ lexids := by
  unfold entrySenses at h
  simp only [List.mem_filterMap] at h
  obtain ⟨r, hr, hs⟩ := h
  rw [mem_sortBy] at hr
  simp only [List.mem_filter, Bool.and_eq_true, inLex, List.contains_iff_mem] at hr
  unfold senseData at hs
  split at hs
  · simp at hs; subst hs; exact hr.2.2
  · simp at hs

theorem C04_inside_synset_members (db : Db) (synset : Nat) (lexids : List Nat) (s : SenseData)
    (h : s ∈ synsetMembers db synset lexids) : s.lex ∈ lexids := by
  unfold synsetMembers at h
  simp only [List.mem_filterMap] at h
  obtain ⟨r, hr, hs⟩ := h
  rw [mem_sortBy] at hr
  simp only [List.mem_filter, Bool.and_eq_true, inLex, List.contains_iff_mem] at hr
  unfold senseData at hs
  split at hs
  · simp at hs; subst hs; exact hr.2.2
  · simp at hs

/-- relation targets: both the relation and its target are owned by lexicons in scope -/
theorem C04_inside_synset_relations (db : Db) (sources : List Nat) (types : List String) (lexids : List Nat)
    (r : RelData SynsetData) (h : r ∈ synsetRelations db sources types lexids) :
    r.target.lex ∈ lexids ∧ ∃ row ∈ db.synrels, row.lex ∈ lexids ∧ row.source = r.source ∧ lexSpec db row.lex = r.lexicon := by
  unfold synsetRelations at h
  have h' := mem_dedupBy _ _ r h
  simp only [List.mem_filterMap] at h'
  obtain ⟨row, hrow, hr⟩ := h'
  split at hr
  · rename_i hc
    simp only [Bool.and_eq_true, inLex, List.contains_iff_mem] at hc
    split at hr
    · rename_i n tgt _ _
      split at hr
      · rename_i ht
        simp only [inLex, List.contains_iff_mem] at ht
        simp at hr; subst hr
        exact ⟨ht, row, hrow, hc.2, rfl, rfl⟩
      · simp at hr
    · simp at hr
  · simp at hr

/-- in a restricted Wordnet every entity uses exactly the Wordnet's lexicons as its scope;
in default mode its own lexicon, its bases and its extensions -/
theorem C04_scope (db : Db) (w : Wordnet) (lex : Nat) :
    entityLexids db w lex =
      if w.defaultMode then [lex] ++ basesOf db (db.lexicons.length + 1) lex ++ extensionsOf db (db.lexicons.length + 1) lex
      else w.lexids := by
  unfold entityLexids; split <;> rfl

/-- expanded relation targets are resolved back into the scope: a stored synset of the scope
or the placeholder owned by the source's lexicon -/
theorem C04_expanded_targets_in_scope (db : Db) (w : Wordnet) (x : SynsetData) (types : List String)
    (e : RelData SynsetData × String × SynsetData) (h : e ∈ expandedSynsetRelations db w x types) :
    e.2.2.lex ∈ entityLexids db w x.lex ∨ (e.2.2.id = "*INFERRED*" ∧ e.2.2.lex = x.lex) := by
  unfold expandedSynsetRelations at h
  split at h
  · simp at h
  · split at h
    · simp at h
    · simp only [List.mem_flatMap] at h
      obtain ⟨r, _, hr⟩ := h
      split at hr
      · simp at hr
      · split at hr
        · simp at hr; subst hr; right; exact ⟨rfl, rfl⟩
        · simp only [List.mem_map] at hr
          obtain ⟨l, hl, rfl⟩ := hr
          left
          simp only [synsetsForIlis, List.mem_map, List.mem_filter, Bool.and_eq_true, inLex, List.contains_iff_mem] at hl
          obtain ⟨row, ⟨_, _, hin⟩, rfl⟩ := hl
          exact hin

/-! ### the leak of known findings F12 / F13: tags, pronunciations and forms have no owner filter -/

/-- kernel-checked witness (F12): the tags reported for a form do not depend on the selection at
all — a tag row added for the base lemma by any other lexicon is reported -/
theorem C04_frame_counterexample_tags (db : Db) (form : Nat) (t : RTag) (ht : t.form = form) :
    formTags { db with tags := db.tags ++ [t] } form = formTags db form ++ [t] := by
  simp [formTags, List.filter_append, ht]

/-- kernel-checked statement (F13): the forms reported for a word are *all* form rows of its entry,
whoever owns them — a form row written by an unselected extension is reported -/
theorem C04_frame_counterexample_forms (db : Db) (lexids : List Nat) (w : WordData)
    (h : w ∈ findEntries db none [] none lexids false true) (f : RForm) (hf : f ∈ db.forms) (he : f.entry = w.rowid) :
    (⟨f.form, f.id, f.script, f.rowid⟩ : FormData) ∈ w.forms := by
  unfold findEntries at h
  simp only [List.mem_filterMap] at h
  obtain ⟨e, _, hw⟩ := h
  split at hw
  · simp at hw
  · simp at hw; subst hw
    simp only [List.mem_map]
    refine ⟨f, ?_, rfl⟩
    rw [mem_sortBy]
    simp [hf, he]

/-- … while every owner-filtered contribution of a lexicon outside the scope is invisible:
examples, counts, definitions of lexicons not in `lexids` never appear -/
theorem C04_examples_scoped (db : Db) (sense : Nat) (lexids : List Nat) (x : RExample)
    (h : x ∈ senseExamples db sense lexids) : x.lex ∈ lexids := by
  simp only [senseExamples, List.mem_filter, Bool.and_eq_true, inLex, List.contains_iff_mem] at h
  exact h.2.2

theorem C04_counts_scoped (db : Db) (sense : Nat) (lexids : List Nat) (x : RCount)
    (h : x ∈ senseCounts db sense lexids) : x.lex ∈ lexids := by
  simp only [senseCounts, List.mem_filter, Bool.and_eq_true, inLex, List.contains_iff_mem] at h
  exact h.2.2

/-- frame for examples: rows owned by a lexicon outside the scope do not change the answer -/
theorem C04_frame_examples (db : Db) (sense : Nat) (lexids : List Nat) (extra : List RExample)
    (hout : ∀ x ∈ extra, x.lex ∉ lexids) :
    senseExamples { db with sensexs := db.sensexs ++ extra } sense lexids = senseExamples db sense lexids := by
  simp only [senseExamples, List.filter_append]
  have : extra.filter (fun x => x.owner == sense && inLex lexids x.lex) = [] := by
    rw [List.filter_eq_nil_iff]
    intro x hx
    simp [inLex, hout x hx]
  rw [this]; simp

/-! ### frame, end to end: adding a lexicon outside S does not change `synsets()` of S -/

theorem iliIdOf_append (db : Db) (extra : List RIli) (k : Option Nat)
    (hk : ∀ j, k = some j → j ∈ db.ilis.map (·.rowid)) :
    iliIdOf { db with ilis := db.ilis ++ extra } k = iliIdOf db k := by
  unfold iliIdOf
  cases k with
  | none => rfl
  | some j =>
    simp only
    rw [List.find?_append]
    obtain ⟨x, hx, hxj⟩ := List.mem_map.mp (hk j rfl)
    cases hf : db.ilis.find? (fun x => x.rowid == j) with
    | none =>
      rw [List.find?_eq_none] at hf
      have := hf x hx
      simp [hxj] at this
    | some y => rfl

theorem frame_helper {α β} (P' P : α → Bool) (f' f : α → β) (old rows : List α) (h1 : ∀ r ∈ rows, P' r = false)
    (h2 : ∀ o ∈ old, P' o = P o) (h3 : ∀ o ∈ old, f' o = f o) :
    ((old ++ rows).filter P').map f' = (old.filter P).map f := by
  rw [List.filter_append]
  have e1 : rows.filter P' = [] := by
    rw [List.filter_eq_nil_iff]; intro r hr; simp [h1 r hr]
  rw [e1, List.append_nil, List.filter_congr h2]
  apply List.map_congr_left
  intro o ho
  exact h3 o (List.mem_filter.mp ho).1

/-- **C04, frame for synsets, end to end**: let `S` be a non-empty selection and add *any* lexicon
(plain or extension, related or not) that is not in `S`.  Then `synsets()` of a Wordnet restricted to
`S` — with any id / part-of-speech / ILI filter — returns exactly what it returned before, provided
the store's synset → ILI links point at existing ILI rows. -/
theorem C04_frame_synsets_end_to_end (norm : String → String) (dr : Nat) (db db' : Db) (l : Doc.Lexicon)
    (h : addLexicon norm dr db l = .ok db') (S : List Nat) (hS : S ≠ [])
    (hout : nextId (db.lexicons.map (·.rowid)) ∉ S)
    (hlink : ∀ o ∈ db.synsets, ∀ k, o.ili = some k → k ∈ db.ilis.map (·.rowid))
    (id pos ili : Option String) (n a : Bool) :
    findSynsets db' id [] pos ili S n a = findSynsets db id [] pos ili S n a := by
  obtain ⟨rows, extra, hY, hlex, hI⟩ := C01.addLexicon_synset_tables norm dr db db' l h
  have hres : ∀ o ∈ db.synsets, iliIdOf db' o.ili = iliIdOf db o.ili := by
    intro o ho
    have : iliIdOf db' o.ili = iliIdOf { db with ilis := db.ilis ++ extra } o.ili := by
      unfold iliIdOf; rw [hI]
    rw [this]
    exact iliIdOf_append db extra o.ili (hlink o ho)
  unfold findSynsets
  simp only [List.isEmpty_nil, if_true]
  rw [hY]
  apply frame_helper
  · intro r hr
    have : inLexOrAll S r.lex = false := by
      rw [hlex r hr]
      unfold inLexOrAll
      have : S.isEmpty = false := by simpa [List.isEmpty_iff] using hS
      simp [this, hout]
    simp [this]
  · intro o ho
    simp only [hres o ho]
  · intro o ho
    unfold synsetData
    rw [hres o ho]

end WnVerif.Props.C04
