import WnVerif.Model.Api
namespace WnVerif.Props.C01
theorem placeholder_true : True := trivial
end WnVerif.Props.C01
