/-
C01 — the query API reports exactly the content of every added lexicon.

The deciding tie for this property is the full-observation correspondence (see DESIGN.md).  The
theorems below are the part of the refinement "decode (add db doc) = doc" that is proved so far:
the lexicon row and the entry rows written by `_insert_lexicon` / `_insert_entries`, and what
`find_entries` decodes from them.  The remaining steps of `addLexicon` (forms, senses, …) are
covered by correspondence only (`C01_refinement_partial` names the missing part).
-/
import WnVerif.Model.Add
import WnVerif.Model.Query
import WnVerif.Lemmas.ForIn
import WnVerif.Lemmas.DbAux
namespace WnVerif.Props.C01
open WnVerif WnVerif.Db WnVerif.Doc

/-! ### rowid allocation -/

theorem foldr_max_ge (l : List Nat) : ∀ x ∈ l, x ≤ l.foldr max 0 := by
  induction l with
  | nil => intro x hx; simp at hx
  | cons a t ih =>
    intro x hx
    simp only [List.foldr_cons]
    rcases List.mem_cons.mp hx with rfl | hx
    · exact Nat.le_max_left _ _
    · exact Nat.le_trans (ih x hx) (Nat.le_max_right _ _)

/-- a newly allocated rowid is not in use -/
theorem nextId_fresh (ids : List Nat) : nextId ids ∉ ids := by
  intro h
  have := foldr_max_ge ids _ h
  unfold nextId at this
  omega

/-! ### `_insert_lexicon` -/

/-- the lexicon row carries exactly the document's attributes and metadata, gets a fresh rowid,
and the rows of the lexicons already installed are not touched -/
theorem C01_lexicon_row (db db' : Db) (l : Lexicon) (lexid extid : Nat)
    (h : insertLexicon db l = .ok (db', lexid, extid)) :
    db'.lexicons = db.lexicons ++ [⟨lexid, l.id, l.label, l.language, l.email, l.license, l.version, l.url, l.citation, l.logo, l.md⟩] ∧ lexid ∉ db.lexicons.map (·.rowid) ∧ lexiconRow db l.id l.version = none := by
  unfold insertLexicon at h
  simp only [bind, Except.bind, pure, Except.pure] at h
  split at h
  · simp [throw, throwThe, MonadExcept.throw] at h
  · rename_i hnot
    have hnone : lexiconRow db l.id l.version = none := by
      cases hx : lexiconRow db l.id l.version with
      | none => rfl
      | some _ => simp [hx] at hnot
    split at h
    · -- extension
      split at h
      · simp at h
      · simp only [Except.ok.injEq, Prod.mk.injEq] at h
        obtain ⟨h1, h2, _⟩ := h
        subst h1 h2
        exact ⟨rfl, nextId_fresh _, hnone⟩
    · simp only [Except.ok.injEq, Prod.mk.injEq] at h
      obtain ⟨h1, h2, _⟩ := h
      subst h1 h2
      exact ⟨rfl, nextId_fresh _, hnone⟩

/-- declared dependencies are recorded with id, version and url, linked to the provider when it
is installed -/
theorem C01_dependencies_recorded (db db' : Db) (l : Lexicon) (lexid extid : Nat)
    (h : insertLexicon db l = .ok (db', lexid, extid)) (d : Dep) (hd : d ∈ l.requires) :
    ∃ r ∈ db'.deps, r.dependent = lexid ∧ r.pid = d.id ∧ r.pver = d.version ∧ r.purl = d.url := by
  unfold insertLexicon at h
  simp only [bind, Except.bind, pure, Except.pure] at h
  split at h
  · simp [throw, throwThe, MonadExcept.throw] at h
  · split at h
    · split at h
      · simp at h
      · simp only [Except.ok.injEq, Prod.mk.injEq] at h
        obtain ⟨h1, h2, _⟩ := h
        subst h1 h2
        exact ⟨_, List.mem_append_right _ (List.mem_map.mpr ⟨d, hd, rfl⟩), rfl, rfl, rfl, rfl⟩
    · simp only [Except.ok.injEq, Prod.mk.injEq] at h
      obtain ⟨h1, h2, _⟩ := h
      subst h1 h2
      exact ⟨_, List.mem_append_right _ (List.mem_map.mpr ⟨d, hd, rfl⟩), rfl, rfl, rfl, rfl⟩

/-! ### `_insert_entries` as a fold -/

def entryStep (c : Ctx) (db : Db) (e : Entry) : R Db := do
  let lem ← need "KeyError: lemma" e.lemma
  if (entryRow db e.id c.lexid).isSome then throw "UNIQUE entries(id, lexicon_rowid)"
  let row : REntry := {rowid := nextId (db.entries.map (·.rowid)), id := e.id, lex := c.lexid, pos := lem.pos, md := e.md}
  return { db with entries := db.entries ++ [row] }

theorem insertEntries_eq (db : Db) (l : Lexicon) (c : Ctx) :
    insertEntries db l c = (localEntries l).foldlM (entryStep c) db := by
  unfold insertEntries
  rw [← forIn_foldlM]
  simp only [entryStep, bind_assoc, bind_pure]
  congr 1
  funext e db
  cases need "KeyError: lemma" e.lemma with
  | error x => rfl
  | ok lem =>
    simp only [bind, Except.bind]
    split <;> rfl

/-- element-wise relation between two lists of the same length -/
inductive Forall2 {α β} (R : α → β → Prop) : List α → List β → Prop
  | nil : Forall2 R [] []
  | cons {a b l l'} : R a b → Forall2 R l l' → Forall2 R (a :: l) (b :: l')

/-- the row written for a document entry -/
def EntryRowOf (c : Ctx) (e : Entry) (r : REntry) : Prop :=
  r.id = e.id ∧ r.lex = c.lexid ∧ r.md = e.md ∧ ∃ lem, e.lemma = some lem ∧ r.pos = lem.pos

theorem entryStep_ok (c : Ctx) (db db1 : Db) (e : Entry) (h : entryStep c db e = .ok db1) :
    ∃ r, db1 = { db with entries := db.entries ++ [r] } ∧ EntryRowOf c e r ∧ r.rowid ∉ db.entries.map (·.rowid) ∧
      entryRow db e.id c.lexid = none := by
  unfold entryStep at h
  cases hl : e.lemma with
  | none => simp [hl, need, bind, Except.bind] at h
  | some lem =>
    simp only [hl, need, bind, Except.bind] at h
    split at h
    · simp [throw, throwThe, MonadExcept.throw] at h
    · rename_i hnot
      simp only [pure, Except.pure, Except.ok.injEq] at h
      refine ⟨_, h.symm, ⟨rfl, rfl, rfl, lem, hl, rfl⟩, nextId_fresh _, ?_⟩
      cases hx : entryRow db e.id c.lexid with
      | none => rfl
      | some _ => simp [hx] at hnot

/-- `_insert_entries`: one row per non-external entry, in document order, with the entry's id,
the lemma's part of speech and the entry's metadata, owned by the new lexicon; nothing else in the
database changes; rowids are fresh -/
theorem C01_entries_rows (db db' : Db) (l : Lexicon) (c : Ctx) (h : insertEntries db l c = .ok db') :
    ∃ rows, db' = { db with entries := db.entries ++ rows } ∧ Forall2 (EntryRowOf c) (localEntries l) rows := by
  rw [insertEntries_eq] at h
  revert h
  generalize localEntries l = es
  intro h
  refine foldlM_ok_induct (entryStep c)
    (fun es db db' => ∃ rows, db' = { db with entries := db.entries ++ rows } ∧ Forall2 (EntryRowOf c) es rows)
    ?_ ?_ es db db' h
  · intro b; exact ⟨[], by simp, Forall2.nil⟩
  · intro a t b b1 b' hf _ ih
    obtain ⟨r, hb1, hr, _, _⟩ := entryStep_ok c b b1 a hf
    obtain ⟨rows, hb', hrows⟩ := ih
    refine ⟨r :: rows, ?_, Forall2.cons hr hrows⟩
    rw [hb', hb1]
    simp

/-- entry ids stay unique within the lexicon: a repeated id makes the whole add fail -/
theorem C01_duplicate_entry_id_rejected (c : Ctx) (db : Db) (e : Entry) (k : Nat) (h : entryRow db e.id c.lexid = some k) :
    ∃ m, entryStep c db e = .error m := by
  unfold entryStep
  cases hl : e.lemma with
  | none => exact ⟨_, by simp [need, bind, Except.bind]; rfl⟩
  | some lem =>
    simp only [need, bind, Except.bind, h]
    exact ⟨_, rfl⟩

/-! ### what `find_entries` decodes -/

/-- every word reported for a selection is an entry row of a selected lexicon, with that row's
id and part of speech and with exactly the form rows stored for it, ordered by rank -/
theorem C01_words_decode (db : Db) (lexids : List Nat) (w : WordData)
    (h : w ∈ findEntries db none [] none lexids false true) :
    ∃ e ∈ db.entries, w.rowid = e.rowid ∧ w.id = e.id ∧ w.pos = e.pos ∧ w.lex = e.lex ∧
      w.forms = (sortBy (·.rank) (db.forms.filter (fun f => f.entry == e.rowid))).map (fun f => ⟨f.form, f.id, f.script, f.rowid⟩) := by
  unfold findEntries at h
  simp only [List.mem_filterMap] at h
  obtain ⟨e, he, hw⟩ := h
  rw [mem_sortBy] at he
  simp only [List.mem_filter] at he
  split at hw
  · simp at hw
  · simp at hw; subst hw
    exact ⟨e, he.1, rfl, rfl, rfl, rfl, rfl⟩

/-- nothing absent from the store is reported, and every entry row of a selected lexicon that
has at least one form is reported -/
theorem C01_words_complete (db : Db) (lexids : List Nat) (e : REntry) (he : e ∈ db.entries)
    (hl : inLexOrAll lexids e.lex = true) (hf : ∃ f ∈ db.forms, f.entry = e.rowid) :
    ∃ w ∈ findEntries db none [] none lexids false true, w.rowid = e.rowid ∧ w.id = e.id ∧ w.pos = e.pos := by
  unfold findEntries
  simp only [List.mem_filterMap]
  refine ⟨{ id := e.id, pos := e.pos, forms := (sortBy (·.rank) (db.forms.filter (fun f => f.entry == e.rowid))).map (fun f => ⟨f.form, f.id, f.script, f.rowid⟩), lex := e.lex, rowid := e.rowid }, ⟨e, ?_, ?_⟩, rfl, rfl, rfl⟩
  · rw [mem_sortBy]
    simp only [List.mem_filter]
    exact ⟨he, by simp [hl]⟩
  · obtain ⟨f, hf1, hf2⟩ := hf
    have : (sortBy (·.rank) (db.forms.filter (fun f => f.entry == e.rowid))).isEmpty = false := by
      cases hh : sortBy (·.rank) (db.forms.filter (fun f => f.entry == e.rowid)) with
      | nil =>
        have : f ∈ sortBy (·.rank) (db.forms.filter (fun f => f.entry == e.rowid)) := by
          rw [mem_sortBy]; simp [hf1, hf2]
        rw [hh] at this; simp at this
      | cons _ _ => rfl
    simp [this]

end WnVerif.Props.C01
