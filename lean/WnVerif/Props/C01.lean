/-
C01 — the query API reports exactly the content of every added lexicon.

The deciding tie for this property is the full-observation correspondence (see DESIGN.md).  The
theorems below are the part of the refinement "decode (add db doc) = doc" that is proved so far:
the lexicon row and the entry rows written by `_insert_lexicon` / `_insert_entries`, and what
`find_entries` decodes from them.  The remaining steps of `addLexicon` (forms, senses, …) are
covered by correspondence only (`C01_refinement_partial` names the missing part).
-/
import WnVerif.Model.Add
import WnVerif.Model.Query
import WnVerif.Lemmas.ForIn
import WnVerif.Lemmas.DbAux
import WnVerif.Gen.Schema
import WnVerif.Gen.Misc
import WnVerif.Lemmas.AddWords
import WnVerif.Lemmas.Forall2
import WnVerif.Lemmas.FrameG
import WnVerif.Lemmas.AddRels
import WnVerif.Lemmas.AddSenses
import WnVerif.Lemmas.AddOwned
namespace WnVerif.Props.C01
open WnVerif WnVerif.Db WnVerif.Doc

/-! ### tie to `schema.sql`: the UNIQUE constraints that the model's insert steps enforce
(`UNIQUE …` error branches of `Model/Add.lean`) are exactly those of the regenerated schema -/

theorem C01_gen_uniques :
    (Gen.schema.filter (fun t => !t.uniques.isEmpty)).map (fun t => (t.name, t.uniques)) =
      [("entries", [["id", "lexicon_rowid"]]), ("forms", [["entry_rowid", "form", "script"]]),
       ("ili_statuses", [["status"]]), ("ilis", [["id"]]), ("lexfiles", [["name"]]),
       ("lexicon_extensions", [["extension_rowid", "base_rowid"]]), ("lexicons", [["id", "version"]]),
       ("proposed_ilis", [["synset_rowid"]]), ("relation_types", [["type"]]),
       ("syntactic_behaviours", [["lexicon_rowid", "frame"], ["lexicon_rowid", "id"]])] := by decide

/-- the default synset rank of a sense that no `members` attribute lists (`DEFAULT_MEMBER_RANK`),
as passed to the model by the driver -/
theorem C01_gen_default_member_rank : Gen.default_member_rank = 127 := by decide

/-! ### rowid allocation -/

theorem foldr_max_ge (l : List Nat) : ∀ x ∈ l, x ≤ l.foldr max 0 := by
  induction l with
  | nil => intro x hx; simp at hx
  | cons a t ih =>
    intro x hx
    simp only [List.foldr_cons]
    rcases List.mem_cons.mp hx with rfl | hx
    · exact Nat.le_max_left _ _
    · exact Nat.le_trans (ih x hx) (Nat.le_max_right _ _)

/-- a newly allocated rowid is not in use -/
theorem nextId_fresh (ids : List Nat) : nextId ids ∉ ids := by
  intro h
  have := foldr_max_ge ids _ h
  unfold nextId at this
  omega

/-! ### `_insert_lexicon` -/

/-- the lexicon row carries exactly the document's attributes and metadata, gets a fresh rowid,
and the rows of the lexicons already installed are not touched -/
theorem C01_lexicon_row (db db' : Db) (l : Lexicon) (lexid extid : Nat)
    (h : insertLexicon db l = .ok (db', lexid, extid)) :
    db'.lexicons = db.lexicons ++ [⟨lexid, l.id, l.label, l.language, l.email, l.license, l.version, l.url, l.citation, l.logo, l.md⟩] ∧ lexid ∉ db.lexicons.map (·.rowid) ∧ lexiconRow db l.id l.version = none := by
  unfold insertLexicon at h
  simp only [bind, Except.bind, pure, Except.pure] at h
  split at h
  · simp [throw, throwThe, MonadExcept.throw] at h
  · rename_i hnot
    have hnone : lexiconRow db l.id l.version = none := by
      cases hx : lexiconRow db l.id l.version with
      | none => rfl
      | some _ => simp [hx] at hnot
    split at h
    · -- extension
      split at h
      · simp at h
      · simp only [Except.ok.injEq, Prod.mk.injEq] at h
        obtain ⟨h1, h2, _⟩ := h
        subst h1 h2
        exact ⟨rfl, nextId_fresh _, hnone⟩
    · simp only [Except.ok.injEq, Prod.mk.injEq] at h
      obtain ⟨h1, h2, _⟩ := h
      subst h1 h2
      exact ⟨rfl, nextId_fresh _, hnone⟩

/-- declared dependencies are recorded with id, version and url, linked to the provider when it
is installed -/
theorem C01_dependencies_recorded (db db' : Db) (l : Lexicon) (lexid extid : Nat)
    (h : insertLexicon db l = .ok (db', lexid, extid)) (d : Dep) (hd : d ∈ l.requires) :
    ∃ r ∈ db'.deps, r.dependent = lexid ∧ r.pid = d.id ∧ r.pver = d.version ∧ r.purl = d.url := by
  unfold insertLexicon at h
  simp only [bind, Except.bind, pure, Except.pure] at h
  split at h
  · simp [throw, throwThe, MonadExcept.throw] at h
  · split at h
    · split at h
      · simp at h
      · simp only [Except.ok.injEq, Prod.mk.injEq] at h
        obtain ⟨h1, h2, _⟩ := h
        subst h1 h2
        exact ⟨_, List.mem_append_right _ (List.mem_map.mpr ⟨d, hd, rfl⟩), rfl, rfl, rfl, rfl⟩
    · simp only [Except.ok.injEq, Prod.mk.injEq] at h
      obtain ⟨h1, h2, _⟩ := h
      subst h1 h2
      exact ⟨_, List.mem_append_right _ (List.mem_map.mpr ⟨d, hd, rfl⟩), rfl, rfl, rfl, rfl⟩

/-! ### `_insert_entries` -/



/-- the row written for a document entry -/
def EntryRowOf (c : Ctx) (e : Entry) (r : REntry) : Prop :=
  r.id = e.id ∧ r.lex = c.lexid ∧ r.md = e.md ∧ ∃ lem, e.lemma = some lem ∧ r.pos = lem.pos

theorem entryStep_ok (c : Ctx) (db db1 : Db) (e : Entry) (h : entryStep c db e = .ok db1) :
    ∃ r, db1 = { db with entries := db.entries ++ [r] } ∧ EntryRowOf c e r ∧ r.rowid ∉ db.entries.map (·.rowid) ∧
      entryRow db e.id c.lexid = none := by
  unfold entryStep at h
  cases hl : e.lemma with
  | none => simp [hl, need, bind, Except.bind] at h
  | some lem =>
    simp only [hl, need, bind, Except.bind] at h
    split at h
    · simp [throw, throwThe, MonadExcept.throw] at h
    · rename_i hnot
      simp only [pure, Except.pure, Except.ok.injEq] at h
      refine ⟨_, h.symm, ⟨rfl, rfl, rfl, lem, hl, rfl⟩, nextId_fresh _, ?_⟩
      cases hx : entryRow db e.id c.lexid with
      | none => rfl
      | some _ => simp [hx] at hnot

/-- `_insert_entries`: one row per non-external entry, in document order, with the entry's id,
the lemma's part of speech and the entry's metadata, owned by the new lexicon; nothing else in the
database changes; rowids are fresh -/
theorem C01_entries_rows (db db' : Db) (l : Lexicon) (c : Ctx) (h : insertEntries db l c = .ok db') :
    ∃ rows, db' = { db with entries := db.entries ++ rows } ∧ Forall2 (EntryRowOf c) (localEntries l) rows := by
  unfold insertEntries at h
  revert h
  generalize localEntries l = es
  intro h
  refine foldlM_ok_induct (entryStep c)
    (fun es db db' => ∃ rows, db' = { db with entries := db.entries ++ rows } ∧ Forall2 (EntryRowOf c) es rows)
    ?_ ?_ es db db' h
  · intro b; exact ⟨[], by simp, Forall2.nil⟩
  · intro a t b b1 b' hf _ ih
    obtain ⟨r, hb1, hr, _, _⟩ := entryStep_ok c b b1 a hf
    obtain ⟨rows, hb', hrows⟩ := ih
    refine ⟨r :: rows, ?_, Forall2.cons hr hrows⟩
    rw [hb', hb1]
    simp

/-- entry ids stay unique within the lexicon: a repeated id makes the whole add fail -/
theorem C01_duplicate_entry_id_rejected (c : Ctx) (db : Db) (e : Entry) (k : Nat) (h : entryRow db e.id c.lexid = some k) :
    ∃ m, entryStep c db e = .error m := by
  unfold entryStep
  cases hl : e.lemma with
  | none => exact ⟨_, by simp [need, bind, Except.bind]; rfl⟩
  | some lem =>
    simp only [need, bind, Except.bind, h]
    exact ⟨_, rfl⟩

/-! ### what `find_entries` decodes -/

/-- every word reported for a selection is an entry row of a selected lexicon, with that row's
id and part of speech and with exactly the form rows stored for it, ordered by rank -/
theorem C01_words_decode (db : Db) (lexids : List Nat) (w : WordData)
    (h : w ∈ findEntries db none [] none lexids false true) :
    ∃ e ∈ db.entries, w.rowid = e.rowid ∧ w.id = e.id ∧ w.pos = e.pos ∧ w.lex = e.lex ∧
      w.forms = (sortBy (·.rank) (db.forms.filter (fun f => f.entry == e.rowid))).map (fun f => ⟨f.form, f.id, f.script, f.rowid⟩) := by
  unfold findEntries at h
  simp only [List.mem_filterMap] at h
  obtain ⟨e, he, hw⟩ := h
  rw [mem_sortBy] at he
  simp only [List.mem_filter] at he
  split at hw
  · simp at hw
  · simp at hw; subst hw
    exact ⟨e, he.1, rfl, rfl, rfl, rfl, rfl⟩

/-- nothing absent from the store is reported, and every entry row of a selected lexicon that
has at least one form is reported -/
theorem C01_words_complete (db : Db) (lexids : List Nat) (e : REntry) (he : e ∈ db.entries)
    (hl : inLexOrAll lexids e.lex = true) (hf : ∃ f ∈ db.forms, f.entry = e.rowid) :
    ∃ w ∈ findEntries db none [] none lexids false true, w.rowid = e.rowid ∧ w.id = e.id ∧ w.pos = e.pos := by
  unfold findEntries
  simp only [List.mem_filterMap]
  refine ⟨{ id := e.id, pos := e.pos, forms := (sortBy (·.rank) (db.forms.filter (fun f => f.entry == e.rowid))).map (fun f => ⟨f.form, f.id, f.script, f.rowid⟩), lex := e.lex, rowid := e.rowid }, ⟨e, ?_, ?_⟩, rfl, rfl, rfl⟩
  · rw [mem_sortBy]
    simp only [List.mem_filter]
    exact ⟨he, by simp [hl]⟩
  · obtain ⟨f, hf1, hf2⟩ := hf
    have : (sortBy (·.rank) (db.forms.filter (fun f => f.entry == e.rowid))).isEmpty = false := by
      cases hh : sortBy (·.rank) (db.forms.filter (fun f => f.entry == e.rowid)) with
      | nil =>
        have : f ∈ sortBy (·.rank) (db.forms.filter (fun f => f.entry == e.rowid)) := by
          rw [mem_sortBy]; simp [hf1, hf2]
        rw [hh] at this; simp at this
      | cons _ _ => rfl
    simp [this]

/-! ### `_insert_forms` -/

theorem addForm_ok (db db1 : Db) (norm : String → String) (lexid er : Nat) (id : Option String) (form : String)
    (script : Option String) (rank : Nat) (h : addForm db norm lexid er id form script rank = .ok db1) :
    ∃ r, db1 = { db with forms := db.forms ++ [r] } ∧ r.lex = lexid ∧ r.entry = er ∧ r.id = id ∧ r.form = form ∧
      r.script = script ∧ r.rank = rank ∧ r.norm = (if norm form != form then some (norm form) else none) ∧
      r.rowid ∉ db.forms.map (·.rowid) := by
  unfold addForm at h
  simp only [bind, Except.bind, pure, Except.pure] at h
  split at h
  · simp [throw, throwThe, MonadExcept.throw] at h
  · simp only [Except.ok.injEq] at h
    exact ⟨_, h.symm, rfl, rfl, rfl, rfl, rfl, rfl, rfl, nextId_fresh _⟩

/-- the row written for the `i`-th further form of an entry -/
def FormRowOf (norm : String → String) (c : Ctx) (er : Nat) (fi : Form × Nat) (r : RForm) : Prop :=
  r.lex = c.lexid ∧ r.entry = er ∧ r.id = fi.1.id ∧ r.form = fi.1.form ∧ r.script = fi.1.script ∧ r.rank = fi.2 + 1 ∧
  r.norm = (if norm fi.1.form != fi.1.form then some (norm fi.1.form) else none)

theorem formStep_ok (norm : String → String) (c : Ctx) (e : Entry) (db db1 : Db) (fi : Form × Nat)
    (h : formStep norm c e db fi = .ok db1) :
    (fi.1.external = true ∧ db1 = db) ∨
    (fi.1.external = false ∧ ∃ er r, entryRow db e.id (c.lid e.id) = some er ∧ db1 = { db with forms := db.forms ++ [r] } ∧
      FormRowOf norm c er fi r) := by
  unfold formStep at h
  split at h
  · rename_i hx
    simp only [Except.ok.injEq] at h
    exact Or.inl ⟨hx, h.symm⟩
  · rename_i hx
    right
    refine ⟨by simpa using hx, ?_⟩
    cases he : entryRow db e.id (c.lid e.id) with
    | none => simp [he, need, bind, Except.bind] at h
    | some er =>
      simp only [he, need, bind, Except.bind] at h
      obtain ⟨r, h1, h2, h3, h4, h5, h6, h7, h8, _⟩ := addForm_ok _ _ _ _ _ _ _ _ _ h
      exact ⟨er, r, rfl, h1, h2, h3, h4, h5, h6, h7, h8⟩

/-- further forms of one entry: exactly one row per non-external `<Form>`, in document order, whose
rank is its position + 1 and whose text, script and id are the document's (no character altered);
the normalized column holds the normalizer's output when it differs; nothing else changes -/
theorem C01_form_rows (norm : String → String) (c : Ctx) (e : Entry) :
    ∀ (fis : List (Form × Nat)) (db db' : Db), fis.foldlM (formStep norm c e) db = .ok db' →
      ∃ rows, db' = { db with forms := db.forms ++ rows } ∧
        ∃ er, (fis.filter (fun fi => !fi.1.external) ≠ [] → entryRow db e.id (c.lid e.id) = some er) ∧
          Forall2 (FormRowOf norm c er) (fis.filter (fun fi => !fi.1.external)) rows := by
  intro fis db db' h
  refine foldlM_ok_induct (formStep norm c e)
    (fun fis db db' => ∃ rows, db' = { db with forms := db.forms ++ rows } ∧
        ∃ er, (fis.filter (fun fi => !fi.1.external) ≠ [] → entryRow db e.id (c.lid e.id) = some er) ∧
          Forall2 (FormRowOf norm c er) (fis.filter (fun fi => !fi.1.external)) rows)
    ?_ ?_ fis db db' h
  · intro b; exact ⟨[], by simp, 0, by simp, Forall2.nil⟩
  · intro a t b b1 b' hf _ ih
    obtain ⟨rows, hb', er', her', hrows⟩ := ih
    rcases formStep_ok norm c e b b1 a hf with ⟨hx, hb1⟩ | ⟨hx, er, r, her, hb1, hr⟩
    · subst hb1
      refine ⟨rows, hb', er', ?_, ?_⟩ <;> simp only [List.filter_cons, hx, Bool.not_true, Bool.false_eq_true, if_false]
      · exact her'
      · exact hrows
    · have hent : entryRow b1 e.id (c.lid e.id) = entryRow b e.id (c.lid e.id) := by rw [hb1]; rfl
      refine ⟨r :: rows, by rw [hb', hb1]; simp, er, fun _ => her, ?_⟩
      simp only [List.filter_cons, hx, Bool.not_false, if_true]
      refine Forall2.cons hr ?_
      by_cases hne : t.filter (fun fi => !fi.1.external) = []
      · rw [hne] at hrows ⊢
        cases hrows
        exact Forall2.nil
      · have := her' hne
        rw [hent, her] at this
        cases this
        exact hrows

/-- the forms of one non-external entry: the lemma at rank 0 (written form and script of `<Lemma>`),
then its further forms at ranks 1, 2, … in document order -/
theorem C01_entry_forms (norm : String → String) (c : Ctx) (db db' : Db) (e : Entry)
    (h : entryFormsStep norm c db e = .ok db') (hx : e.external = false) :
    ∃ lem er lr rows, e.lemma = some lem ∧ entryRow db e.id (c.lid e.id) = some er ∧
      db' = { db with forms := db.forms ++ lr :: rows } ∧
      lr.form = lem.form ∧ lr.script = lem.script ∧ lr.rank = 0 ∧ lr.entry = er ∧ lr.lex = c.lexid ∧ lr.id = none ∧
      Forall2 (FormRowOf norm c er) (e.forms.zipIdx.filter (fun fi => !fi.1.external)) rows := by
  unfold entryFormsStep at h
  simp only [hx, Bool.not_false, if_true, bind, Except.bind] at h
  cases hl : e.lemma with
  | none => simp [hl, need] at h
  | some lem =>
    simp only [hl, need] at h
    cases he : entryRow db e.id (c.lid e.id) with
    | none => simp [he] at h
    | some er =>
      simp only [he] at h
      cases ha : addForm db norm c.lexid er none lem.form lem.script 0 with
      | error x => simp [ha] at h
      | ok db1 =>
        simp only [ha] at h
        obtain ⟨lr, h1, h2, h3, h4, h5, h6, h7, _, _⟩ := addForm_ok _ _ _ _ _ _ _ _ _ ha
        obtain ⟨rows, hdb', er', her', hrows⟩ := C01_form_rows norm c e _ db1 db' h
        have hent : entryRow db1 e.id (c.lid e.id) = some er := by rw [h1]; exact he
        refine ⟨lem, er, lr, rows, rfl, rfl, by rw [hdb', h1]; simp, h5, h6, h7, h3, h2, h4, ?_⟩
        by_cases hne : e.forms.zipIdx.filter (fun fi => !fi.1.external) = []
        · rw [hne] at hrows ⊢
          cases hrows
          exact Forall2.nil
        · have := her' hne
          rw [hent] at this
          cases this
          exact hrows

/-! ### `_insert_forms` over all entries -/

/-- `entryRow` reads only the `entries` table -/
def entryRowE (E : List REntry) (id : String) (lex : Nat) : Option Nat :=
  (E.find? (fun r => r.id == id && r.lex == lex)).map (·.rowid)

theorem entryRow_eq (db : Db) (id : String) (lex : Nat) : entryRow db id lex = entryRowE db.entries id lex := rfl

/-- the form rows written for one non-external entry, relative to a fixed `entries` table -/
def ChunkOf (norm : String → String) (c : Ctx) (E : List REntry) (e : Entry) (ch : List RForm) : Prop :=
  ∃ lem er lr rows, e.lemma = some lem ∧ entryRowE E e.id (c.lid e.id) = some er ∧ ch = lr :: rows ∧
    lr.form = lem.form ∧ lr.script = lem.script ∧ lr.rank = 0 ∧ lr.entry = er ∧ lr.lex = c.lexid ∧ lr.id = none ∧
    Forall2 (FormRowOf norm c er) (e.forms.zipIdx.filter (fun fi => !fi.1.external)) rows

theorem entryFormsStep_entries (norm : String → String) (c : Ctx) (db db' : Db) (e : Entry)
    (h : entryFormsStep norm c db e = .ok db') (hx : e.external = false) : db'.entries = db.entries := by
  obtain ⟨_, _, _, _, _, _, hdb, _⟩ := C01_entry_forms norm c db db' e h hx
  rw [hdb]

/-- `_insert_forms`: the forms table grows by one chunk per entry, in entry order; the entries table
is not touched -/
theorem insertForms_chunks (norm : String → String) (c : Ctx) : ∀ (es : List Entry) (d d' : Db),
    es.foldlM (entryFormsStep norm c) d = .ok d' → (∀ e ∈ es, e.external = false) →
    d'.entries = d.entries ∧ ∃ chunks, d' = { d with forms := d.forms ++ chunks.flatten } ∧
      Forall2 (ChunkOf norm c d.entries) es chunks := by
  intro es
  induction es with
  | nil =>
    intro d d' h _
    simp only [List.foldlM_nil, pure, Except.pure, Except.ok.injEq] at h
    subst h
    exact ⟨rfl, [], by simp, Forall2.nil⟩
  | cons e t ih =>
    intro d d' h hx
    simp only [List.foldlM_cons, bind, Except.bind] at h
    cases h1 : entryFormsStep norm c d e with
    | error x => rw [h1] at h; simp at h
    | ok d1 =>
      rw [h1] at h
      have hxe := hx e List.mem_cons_self
      obtain ⟨lem, er, lr, rows, a1, a2, a3, a4, a5, a6, a7, a8, a9, a10⟩ := C01_entry_forms norm c d d1 e h1 hxe
      have hent1 : d1.entries = d.entries := by rw [a3]
      obtain ⟨hent, chunks, hd', hch⟩ := ih d1 d' h (fun x hx' => hx x (List.mem_cons_of_mem _ hx'))
      refine ⟨hent.trans hent1, (lr :: rows) :: chunks, ?_, ?_⟩
      · rw [hd', a3]; simp
      · refine Forall2.cons ⟨lem, er, lr, rows, a1, ?_, rfl, a4, a5, a6, a7, a8, a9, a10⟩ ?_
        · rw [← entryRow_eq]; exact a2
        · rw [hent1] at hch; exact hch

/-! ### the tables that `words()` reads, after one whole `addLexicon` -/

theorem insertLexicon_frame (db db' : Db) (l : Lexicon) (lexid extid : Nat)
    (h : insertLexicon db l = .ok (db', lexid, extid)) :
    db'.entries = db.entries ∧ db'.forms = db.forms ∧ lexid = nextId (db.lexicons.map (·.rowid)) ∧
    (l.ext = none → extid = lexid) := by
  unfold insertLexicon at h
  simp only [bind, Except.bind, pure, Except.pure] at h
  split at h
  · simp [throw, throwThe, MonadExcept.throw] at h
  · split at h
    · rename_i b hb
      split at h
      · simp at h
      · simp only [Except.ok.injEq, Prod.mk.injEq] at h
        obtain ⟨h1, h2, h3⟩ := h
        subst h1 h2
        exact ⟨rfl, rfl, rfl, fun hn => by rw [hn] at hb; cases hb⟩
    · simp only [Except.ok.injEq, Prod.mk.injEq] at h
      obtain ⟨h1, h2, h3⟩ := h
      subst h1 h2
      exact ⟨rfl, rfl, rfl, fun _ => h3.symm⟩

/-- after `addLexicon` of a plain (non-extension) lexicon without external entries: the `entries`
table is the old one followed by one row per entry, the `forms` table the old one followed by one
chunk per entry — every later insert step leaves both alone -/
theorem addLexicon_words_tables (norm : String → String) (dr : Nat) (db db' : Db) (l : Lexicon)
    (h : addLexicon norm dr db l = .ok db') (hext : l.ext = none) (hx : ∀ e ∈ l.entries, e.external = false) :
    ∃ (c : Ctx) (rows : List REntry) (chunks : List (List RForm)),
      c.lexid = nextId (db.lexicons.map (·.rowid)) ∧ c.extid = c.lexid ∧
      db'.entries = db.entries ++ rows ∧ EntryRows c db.entries l.entries rows ∧
      db'.forms = db.forms ++ chunks.flatten ∧ Forall2 (ChunkOf norm c (db.entries ++ rows)) l.entries chunks := by
  unfold addLexicon at h
  simp only [bind, Except.bind] at h
  cases h0 : collectFrames l with
  | error x => rw [h0] at h; simp at h
  | ok sbs =>
    rw [h0] at h
    simp only at h
    cases h1 : insertLexicon (updateLookups db l) l with
    | error x => rw [h1] at h; simp at h
    | ok t =>
      obtain ⟨d1, lexid, extid⟩ := t
      rw [h1] at h
      simp only at h
      obtain ⟨f1, f2, f3, f4⟩ := insertLexicon_frame _ _ _ _ _ h1
      have hext' := f4 hext
      subst hext'
      generalize hc : ({ lexid := extid, extid := extid, extIds := externalIds l } : Ctx) = c at h
      cases h2 : insertSynsets d1 l c with
      | error x => rw [h2] at h; simp at h
      | ok d2 =>
        rw [h2] at h
        simp only at h
        obtain ⟨g1, g2⟩ := keepsF_insertSynsets l c d1 d2 h2
        cases h3 : insertEntries d2 l c with
        | error x => rw [h3] at h; simp at h
        | ok d3 =>
          rw [h3] at h
          simp only at h
          cases h4 : insertForms d3 norm l c with
          | error x => rw [h4] at h; simp at h
          | ok d4 =>
            rw [h4] at h
            simp only at h
            cases h5 : insertPronsTags d4 l c with
            | error x => rw [h5] at h; simp at h
            | ok d5 =>
              rw [h5] at h
              simp only at h
              cases h6 : insertSenses d5 l c dr with
              | error x => rw [h6] at h; simp at h
              | ok d6 =>
                rw [h6] at h
                simp only at h
                cases h7 : insertSbs d6 sbs c with
                | error x => rw [h7] at h; simp at h
                | ok d7 =>
                  rw [h7] at h
                  simp only at h
                  cases h8 : insertRelations d7 l c with
                  | error x => rw [h8] at h; simp at h
                  | ok d8 =>
                    rw [h8] at h
                    simp only at h
                    have k5 := keepsF_insertPronsTags l c d4 d5 h5
                    have k6 := keepsF_insertSenses l c dr d5 d6 h6
                    have k7 := keepsF_insertSbs sbs c d6 d7 h7
                    have k8 := keepsF_insertRelations l c d7 d8 h8
                    have k9 := keepsF_insertDefsExamples l c d8 db' h
                    have hloc : localEntries l = l.entries := by
                      unfold localEntries
                      rw [List.filter_eq_self]
                      intro e he; simp [hx e he]
                    unfold insertEntries at h3
                    rw [hloc] at h3
                    obtain ⟨rows, hd3, hrows⟩ := insertEntries_rows c l.entries d2 d3 h3
                    have hd2e : d2.entries = db.entries := by rw [g1, f1]; rfl
                    have hd2f : d2.forms = db.forms := by rw [g2, f2]; rfl
                    unfold insertForms at h4
                    obtain ⟨e4, chunks, hd4, hch⟩ := insertForms_chunks norm c l.entries d3 d4 h4 hx
                    have hd3e : d3.entries = db.entries ++ rows := by rw [hd3]; simp [hd2e]
                    have hd3f : d3.forms = db.forms := by rw [hd3]; exact hd2f
                    refine ⟨c, rows, chunks, ?_, ?_, ?_, ?_, ?_, ?_⟩
                    · rw [← hc]; exact f3.trans (by rfl)
                    · rw [← hc]
                    · rw [k9.1, k8.1, k7.1, k6.1, k5.1, e4, hd3e]
                    · rw [← hd2e]; exact hrows
                    · rw [k9.2, k8.2, k7.2, k6.2, k5.2, hd4]; simp [hd3f]
                    · rw [← hd3e]; exact hch

/-! ### evaluating `find_entries` on a store whose last lexicon was just written -/

/-- the word that `find_entries` builds from an entry row and its (rank-ordered) form rows -/
def wordOf (r : REntry) (ch : List RForm) : WordData :=
  { id := r.id, pos := r.pos, forms := ch.map (fun f => ⟨f.form, f.id, f.script, f.rowid⟩), lex := r.lex, rowid := r.rowid }

theorem filter_flatten_pick : ∀ (rows : List REntry) (chunks : List (List RForm)),
    Forall2 (fun r ch => ∀ f ∈ ch, f.entry = r.rowid) rows chunks → rows.Pairwise (fun a b => a.rowid ≠ b.rowid) →
    ∀ p ∈ rows.zip chunks, chunks.flatten.filter (fun f => f.entry == p.1.rowid) = p.2 := by
  intro rows chunks h
  induction h with
  | nil => intro _ p hp; simp at hp
  | @cons r0 ch0 rows chunks h0 hrest ih =>
    intro hd p hp
    rw [List.pairwise_cons] at hd
    simp only [List.zip_cons_cons, List.mem_cons] at hp
    simp only [List.flatten_cons, List.filter_append]
    rcases hp with rfl | hp
    · have e1 : ch0.filter (fun f => f.entry == r0.rowid) = ch0 := by
        rw [List.filter_eq_self]; intro f hf; simp [h0 f hf]
      have e2 : chunks.flatten.filter (fun f => f.entry == r0.rowid) = [] := by
        rw [List.filter_eq_nil_iff]
        intro f hf
        simp only [List.mem_flatten] at hf
        obtain ⟨ch, hch, hfch⟩ := hf
        -- ch belongs to some later row
        have : ∃ r ∈ rows, ∀ f ∈ ch, f.entry = r.rowid := by
          clear ih hd e1
          induction hrest with
          | nil => simp at hch
          | cons hh _ ih2 =>
            rcases List.mem_cons.mp hch with rfl | hch
            · exact ⟨_, List.mem_cons_self, hh⟩
            · obtain ⟨r, hr, hrf⟩ := ih2 hch
              exact ⟨r, List.mem_cons_of_mem _ hr, hrf⟩
        obtain ⟨r, hr, hrf⟩ := this
        have := hd.1 r hr
        simp [hrf f hfch]
        exact fun e => this e.symm
      simp only
      rw [e1, e2, List.append_nil]
    · have hp1 : p.1 ∈ rows := (List.of_mem_zip hp).1
      have e1 : ch0.filter (fun f => f.entry == p.1.rowid) = [] := by
        rw [List.filter_eq_nil_iff]
        intro f hf
        simp [h0 f hf]
        exact hd.1 p.1 hp1
      rw [e1, List.nil_append]
      exact ih hd.2 p hp

theorem filterMap_zip {α β γ} (G : α → Option γ) (W : α × β → γ) : ∀ (l : List α) (l' : List β), l.length = l'.length →
    (∀ p ∈ l.zip l', G p.1 = some (W p)) → l.filterMap G = (l.zip l').map W := by
  intro l
  induction l with
  | nil => intro l' _ _; simp
  | cons a t ih =>
    intro l' hlen h
    cases l' with
    | nil => simp at hlen
    | cons b t' =>
      simp only [List.zip_cons_cons, List.map_cons]
      rw [List.filterMap_cons, h (a, b) (by simp)]
      simp only
      congr 1
      exact ih t' (by simpa using hlen) (fun p hp => h p (by simp [hp]))


/-- `find_entries` for the lexicon `lexid`, on a store whose entries of that lexicon are `rows` (in
rowid order) and whose forms for them are `chunks` (each in rank order): exactly one word per row,
in order, with exactly that row's forms in order -/
theorem findEntries_of_tables (db' : Db) (Eold rows : List REntry) (Fold : List RForm) (chunks : List (List RForm)) (lexid : Nat)
    (hE : db'.entries = Eold ++ rows) (hF : db'.forms = Fold ++ chunks.flatten)
    (hold : ∀ o ∈ Eold, o.lex ≠ lexid) (hrl : ∀ r ∈ rows, r.lex = lexid)
    (hincr : rows.Pairwise (fun a b => a.rowid < b.rowid))
    (hFold : ∀ f ∈ Fold, ∀ r ∈ rows, f.entry ≠ r.rowid)
    (hch : Forall2 (fun r ch => (∀ f ∈ ch, f.entry = r.rowid) ∧ ch ≠ [] ∧ ch.Pairwise (fun a b => a.rank ≤ b.rank)) rows chunks) :
    findEntries db' none [] none [lexid] false true = (rows.zip chunks).map (fun p => wordOf p.1 p.2) := by
  unfold findEntries
  have hfilter : db'.entries.filter (fun e =>
      (match (none : Option String) with | some i => if i == "" then true else e.id == i | none => true) &&
      (([] : List String).isEmpty || formMatch db' [] false true e.rowid) &&
      (match (none : Option String) with | some p => if p == "" then true else e.pos == p | none => true) &&
      inLexOrAll [lexid] e.lex) = rows := by
    rw [hE, List.filter_append]
    have e1 : Eold.filter (fun e => (match (none : Option String) with | some i => if i == "" then true else e.id == i | none => true) &&
        (([] : List String).isEmpty || formMatch db' [] false true e.rowid) &&
        (match (none : Option String) with | some p => if p == "" then true else e.pos == p | none => true) &&
        inLexOrAll [lexid] e.lex) = [] := by
      rw [List.filter_eq_nil_iff]
      intro o ho
      simp [inLexOrAll, hold o ho]
    have e2 : rows.filter (fun e => (match (none : Option String) with | some i => if i == "" then true else e.id == i | none => true) &&
        (([] : List String).isEmpty || formMatch db' [] false true e.rowid) &&
        (match (none : Option String) with | some p => if p == "" then true else e.pos == p | none => true) &&
        inLexOrAll [lexid] e.lex) = rows := by
      rw [List.filter_eq_self]
      intro r hr
      simp [inLexOrAll, hrl r hr]
    rw [e1, e2, List.nil_append]
  rw [hfilter]
  simp only
  rw [sortBy_of_sorted (fun x : REntry => x.rowid) rows (hincr.imp (fun h => Nat.le_of_lt h))]
  have hdist : rows.Pairwise (fun a b => a.rowid ≠ b.rowid) := hincr.imp (fun h => Nat.ne_of_lt h)
  have hpick := filter_flatten_pick rows chunks (Forall2.imp (fun _ _ h => h.1) hch) hdist
  apply filterMap_zip _ (fun p => wordOf p.1 p.2) rows chunks hch.length_eq
  intro p hp
  have hp1 : p.1 ∈ rows := (List.of_mem_zip hp).1
  have hforms : db'.forms.filter (fun f => f.entry == p.1.rowid) = p.2 := by
    rw [hF, List.filter_append, hpick p hp]
    have : Fold.filter (fun f => f.entry == p.1.rowid) = [] := by
      rw [List.filter_eq_nil_iff]
      intro f hf
      simp [hFold f hf p.1 hp1]
    rw [this, List.nil_append]
  have hprop : p.2 ≠ [] ∧ p.2.Pairwise (fun a b => a.rank ≤ b.rank) := by
    have : ∀ (rows : List REntry) (chunks : List (List RForm)),
        Forall2 (fun r ch => (∀ f ∈ ch, f.entry = r.rowid) ∧ ch ≠ [] ∧ ch.Pairwise (fun a b => a.rank ≤ b.rank)) rows chunks →
        ∀ p ∈ rows.zip chunks, p.2 ≠ [] ∧ p.2.Pairwise (fun a b => a.rank ≤ b.rank) := by
      intro rows chunks h
      induction h with
      | nil => intro p hp; simp at hp
      | cons hh _ ih =>
        intro p hp
        simp only [List.zip_cons_cons, List.mem_cons] at hp
        rcases hp with rfl | hp
        · exact hh.2
        · exact ih p hp
    exact this rows chunks hch p hp
  simp only [hforms, sortBy_of_sorted (fun x : RForm => x.rank) p.2 hprop.2]
  have : p.2.isEmpty = false := by
    cases hq : p.2 with
    | nil => exact absurd hq hprop.1
    | cons _ _ => rfl
  simp [this, wordOf]

/-! ### end to end: `words()` after `add` = the document's entries -/





theorem zipIdx_filter_fst {α} (p : α → Bool) : ∀ (l : List α) (n : Nat),
    ((l.zipIdx n).filter (fun fi => p fi.1)).map (·.1) = l.filter p := by
  intro l
  induction l with
  | nil => intro n; rfl
  | cons a t ih =>
    intro n
    simp only [List.zipIdx_cons, List.filter_cons]
    cases hp : p a <;> simp [ih (n + 1)]

theorem zipIdx_pairwise {α} : ∀ (l : List α) (n : Nat), (l.zipIdx n).Pairwise (fun a b => a.2 < b.2) ∧ ∀ x ∈ l.zipIdx n, n ≤ x.2 := by
  intro l
  induction l with
  | nil => intro n; simp
  | cons a t ih =>
    intro n
    simp only [List.zipIdx_cons, List.pairwise_cons, List.mem_cons]
    obtain ⟨h1, h2⟩ := ih (n + 1)
    refine ⟨⟨fun x hx => ?_, h1⟩, ?_⟩
    · have := h2 x hx; show n < x.2; omega
    · rintro x (rfl | hx)
      · exact Nat.le_refl _
      · have := h2 x hx; omega

theorem find_of_distinct (rows : List REntry) (lexid : Nat) (hd : rows.Pairwise (fun a b => a.id ≠ b.id))
    (hl : ∀ r ∈ rows, r.lex = lexid) : ∀ i (h : i < rows.length),
    rows.find? (fun r => r.id == (rows[i]).id && r.lex == lexid) = some rows[i] := by
  induction rows with
  | nil => intro i h; simp at h
  | cons a t ih =>
    intro i h
    rw [List.pairwise_cons] at hd
    cases i with
    | zero => simp [hl a List.mem_cons_self]
    | succ j =>
      simp only [List.getElem_cons_succ, List.find?_cons]
      have hj : j < t.length := by simpa using h
      have hne : a.id ≠ (t[j]).id := hd.1 _ (List.getElem_mem hj)
      have : (a.id == (t[j]).id && a.lex == lexid) = false := by simp [hne]
      rw [this]
      exact ih hd.2 (fun r hr => hl r (List.mem_cons_of_mem _ hr)) j hj

/-- the content of one entry of the document as `words()` is specified to report it: id, part of
speech of the lemma, then the lemma and the further (non-external) forms in document order, each
with its written form, id and script -/
def docWord (e : Entry) : String × String × List (String × Option String × Option String) :=
  (e.id, (e.lemma.map (·.pos)).getD "",
   (match e.lemma with | some lem => [(lem.form, none, lem.script)] | none => []) ++
   (e.forms.filter (fun f => !f.external)).map (fun f => (f.form, f.id, f.script)))

def obsWord (w : WordData) : String × String × List (String × Option String × Option String) :=
  (w.id, w.pos, w.forms.map (fun f => (f.form, f.id, f.script)))

/-- **C01, words slice, end to end.**  Let `l` be a plain lexicon (no `Extends`, no external
entries) and `db` any store in which entry rows point at existing lexicon rows and form rows at
existing entry rows.  If `add` of `l` succeeds, then `words()` restricted to the new lexicon reports
exactly the document's entries, in document order, each with its id, the part of speech of its
lemma, and its lemma followed by its further forms in document order with written form, id and
script unaltered — nothing else, nothing missing; for documents of any size. -/
theorem C01_words_end_to_end (norm : String → String) (dr : Nat) (db db' : Db) (l : Lexicon)
    (h : addLexicon norm dr db l = .ok db') (hext : l.ext = none) (hx : ∀ e ∈ l.entries, e.external = false)
    (hfkE : ∀ o ∈ db.entries, o.lex ∈ db.lexicons.map (·.rowid))
    (hfkF : ∀ f ∈ db.forms, f.entry ∈ db.entries.map (·.rowid)) :
    (findEntries db' none [] none [nextId (db.lexicons.map (·.rowid))] false true).map obsWord = l.entries.map docWord := by
  obtain ⟨c, rows, chunks, hc1, hc2, hE, hR, hF, hC⟩ := addLexicon_words_tables norm dr db db' l h hext hx
  rw [← hc1]
  have hlid : ∀ id, c.lid id = c.lexid := by
    intro id; unfold Ctx.lid; simp [hc2]
  have hrl : ∀ r ∈ rows, r.lex = c.lexid := by
    intro r hr
    obtain ⟨i, hi, rfl⟩ := List.mem_iff_getElem.mp hr
    exact (hR.spec i (by rw [← hR.len]; exact hi) hi).2.1
  have hlenC : l.entries.length = chunks.length := hC.length_eq
  -- the entry row that `_insert_forms` looked up for the i-th entry is the i-th new row
  have hER : ∀ i (h1 : i < l.entries.length) (h2 : i < rows.length),
      entryRowE (db.entries ++ rows) (l.entries[i]).id (c.lid (l.entries[i]).id) = some (rows[i]).rowid := by
    intro i h1 h2
    rw [hlid]
    unfold entryRowE
    rw [List.find?_append]
    have hid := (hR.spec i h1 h2).1
    have hold : db.entries.find? (fun r => r.id == (l.entries[i]).id && r.lex == c.lexid) = none := by
      rw [List.find?_eq_none]
      intro o ho
      have := hR.fresh (rows[i]) (List.getElem_mem h2) o ho
      rw [hid] at this
      simpa using this
    rw [hold, ← hid, Option.none_or, find_of_distinct rows c.lexid hR.distinct hrl i h2]
    rfl
  have hch : Forall2 (fun r ch => (∀ f ∈ ch, f.entry = r.rowid) ∧ ch ≠ [] ∧ ch.Pairwise (fun a b => a.rank ≤ b.rank)) rows chunks := by
    apply Forall2.of_index rows chunks (by rw [hR.len, hlenC])
    intro i h1 h2
    have h0 : i < l.entries.length := by rw [← hR.len]; exact h1
    obtain ⟨lem, er, lr, rws, a1, a2, a3, a4, a5, a6, a7, a8, a9, a10⟩ := hC.get i h0 h2
    have her : er = (rows[i]).rowid := by
      have := hER i h0 h1
      rw [a2] at this
      exact Option.some.inj this
    rw [a3]
    refine ⟨?_, by simp, ?_⟩
    · intro f hf
      rcases List.mem_cons.mp hf with rfl | hf
      · rw [a7, her]
      · obtain ⟨fi, _, hfi⟩ : ∃ fi ∈ (l.entries[i]).forms.zipIdx.filter (fun fi => !fi.1.external), FormRowOf norm c er fi f := by
          have : ∀ {L : List (Form × Nat)} {R : List RForm}, Forall2 (FormRowOf norm c er) L R → ∀ f ∈ R, ∃ fi ∈ L, FormRowOf norm c er fi f := by
            intro L R hh
            induction hh with
            | nil => intro f hf; simp at hf
            | cons h1 _ ih =>
              intro f hf
              rcases List.mem_cons.mp hf with rfl | hf
              · exact ⟨_, List.mem_cons_self, h1⟩
              · obtain ⟨x, hx, hr⟩ := ih f hf
                exact ⟨x, List.mem_cons_of_mem _ hx, hr⟩
          exact this a10 f hf
        rw [hfi.2.1, her]
    · rw [List.pairwise_cons]
      constructor
      · intro f _; rw [a6]; exact Nat.zero_le _
      · have hp : ((l.entries[i]).forms.zipIdx.filter (fun fi => !fi.1.external)).Pairwise (fun a b => a.2 < b.2) :=
          ((zipIdx_pairwise _ 0).1).sublist List.filter_sublist
        exact Forall2.pairwise (S := fun a b => a.2 < b.2) (T := fun a b => a.rank ≤ b.rank)
          (fun a b a' b' hab hab' hlt => by rw [hab.2.2.2.2.2.1, hab'.2.2.2.2.2.1]; omega) a10 hp
  have hfind := findEntries_of_tables db' db.entries rows db.forms chunks c.lexid hE hF
    (by
      intro o ho e
      have := hfkE o ho
      rw [e, hc1] at this
      exact nextId_fresh _ this)
    hrl hR.incr
    (by
      intro f hf r hr e
      obtain ⟨o, ho, hor⟩ := List.mem_map.mp (hfkF f hf)
      have := hR.above r hr o ho
      omega)
    hch
  rw [hfind, List.map_map]
  apply List.ext_getElem
  · simp [hR.len, hlenC]
  · intro i h1 h2
    simp only [List.getElem_map, List.getElem_zip, Function.comp]
    have hi0 : i < l.entries.length := by simpa using h2
    have hi1 : i < rows.length := by rw [hR.len]; exact hi0
    have hi2 : i < chunks.length := by rw [← hlenC]; exact hi0
    obtain ⟨s1, s2, s3, lem0, s4, s5⟩ := hR.spec i hi0 hi1
    obtain ⟨lem, er, lr, rws, a1, a2, a3, a4, a5, a6, a7, a8, a9, a10⟩ := hC.get i hi0 hi2
    rw [s4] at a1
    cases a1
    unfold obsWord wordOf docWord
    simp only [s1, s5, s4, Option.map_some, Option.getD_some, a3, List.map_cons, List.map_map, a4, a5, a9, List.cons_append, List.nil_append]
    congr 2
    have := Forall2.map_eq (R := FormRowOf norm c er) (fun f : RForm => (f.form, f.id, f.script))
      (fun fi : Form × Nat => (fi.1.form, fi.1.id, fi.1.script)) (fun a b hab => by rw [hab.2.2.2.1, hab.2.2.1, hab.2.2.2.2.1]) a10
    rw [show (List.map ((fun f : FormData => (f.form, f.id, f.script)) ∘ fun f : RForm => (⟨f.form, f.id, f.script, f.rowid⟩ : FormData)) rws) =
      rws.map (fun f : RForm => (f.form, f.id, f.script)) from rfl, this]
    rw [← zipIdx_filter_fst (fun f : Form => !f.external) (l.entries[i]).forms 0, List.map_map]
    rfl

/-! non-vacuity: a concrete lexicon for which `add` succeeds on the empty store, so that the
hypotheses of `C01_words_end_to_end` are jointly satisfiable (the kernel runs the whole `addLexicon`) -/

def demoLex : Lexicon :=
  { id := "a", version := "1", label := "A", language := "en", email := "e", license := "l",
    entries := [{ id := "e1", lemma := some { form := "cat", pos := "n", script := some "Latn" },
                  forms := [{ id := some "f1", form := "cats" }, { form := "kitty" }],
                  senses := [{ id := "s1", synset := "y1" }] },
                { id := "e2", lemma := some { form := "dog", pos := "n" } }],
    synsets := [{ id := "y1", ili := "i1", pos := some "n" }] }

def isOk {α} : R α → Bool | .ok _ => true | .error _ => false

example : isOk (addLexicon (fun s => s) 127 Db.empty demoLex) = true ∧ demoLex.ext = none ∧
    (∀ e ∈ demoLex.entries, e.external = false) := by decide +kernel

/-! ### `_insert_senses` -/

/-- the row written for the `i`-th local sense of an entry -/
def SenseRowOf (l : Lexicon) (c : Ctx) (dr : Nat) (db : Db) (e : Entry) (si : Sense × Nat) (r : RSense) : Prop :=
  r.id = si.1.id ∧ r.lex = c.lexid ∧ r.md = si.1.md ∧ r.lexicalized = si.1.lexicalized.getD true ∧ r.erank = si.2 ∧
  r.srank = memberRank l dr si.1.id ∧ entryRow db e.id (c.lid e.id) = some r.entry ∧
  synsetRow db si.1.synset (c.lid si.1.synset) = some r.synset

theorem senseStep_ok (l : Lexicon) (c : Ctx) (dr : Nat) (e : Entry) (db db1 : Db) (si : Sense × Nat)
    (h : senseStep l c dr e db si = .ok db1) :
    ∃ r, db1 = { db with senses := db.senses ++ [r] } ∧ SenseRowOf l c dr db e si r ∧ r.rowid ∉ db.senses.map (·.rowid) := by
  unfold senseStep at h
  cases he : entryRow db e.id (c.lid e.id) with
  | none => simp [he, need, bind, Except.bind] at h
  | some er =>
    cases hs : synsetRow db si.1.synset (c.lid si.1.synset) with
    | none => simp [he, hs, need, bind, Except.bind] at h
    | some sr =>
      simp only [he, hs, need, bind, Except.bind, pure, Except.pure, Except.ok.injEq] at h
      exact ⟨_, h.symm, ⟨rfl, rfl, rfl, rfl, rfl, rfl, he, hs⟩, nextId_fresh _⟩

/-- senses of one entry: one row per non-external sense in entry order (rank = position), pointing
at the entry row and at the synset row that the document's ids resolve to, with the sense's id,
lexicalized flag (default true) and metadata; only the senses table changes -/
theorem C01_sense_rows (l : Lexicon) (c : Ctx) (dr : Nat) (e : Entry) :
    ∀ (sis : List (Sense × Nat)) (db db' : Db), sis.foldlM (senseStep l c dr e) db = .ok db' →
      ∃ rows, db' = { db with senses := db.senses ++ rows } ∧ Forall2 (SenseRowOf l c dr db e) sis rows := by
  intro sis db db' h
  refine foldlM_ok_induct (senseStep l c dr e)
    (fun sis db db' => ∃ rows, db' = { db with senses := db.senses ++ rows } ∧ Forall2 (SenseRowOf l c dr db e) sis rows)
    ?_ ?_ sis db db' h
  · intro b; exact ⟨[], by simp, Forall2.nil⟩
  · intro a t b b1 b' hf _ ih
    obtain ⟨r, hb1, hr, _⟩ := senseStep_ok l c dr e b b1 a hf
    obtain ⟨rows, hb', hrows⟩ := ih
    refine ⟨r :: rows, by rw [hb', hb1]; simp, Forall2.cons hr ?_⟩
    -- the look-ups of later steps read tables that this step did not touch
    have key : ∀ si r, SenseRowOf l c dr b1 e si r → SenseRowOf l c dr b e si r := by
      intro si r ⟨a1, a2, a3, a4, a5, a6, a7, a8⟩
      refine ⟨a1, a2, a3, a4, a5, a6, ?_, ?_⟩
      · rw [hb1] at a7; exact a7
      · rw [hb1] at a8; exact a8
    exact Forall2.imp key hrows

/-- what `senses()` decodes: every reported sense is a sense row of a selected lexicon; its word and
synset ids are those of the entry and synset rows the sense row points at -/
theorem C01_senses_decode (db : Db) (lexids : List Nat) (s : SenseData)
    (h : s ∈ findSenses db none [] none lexids false true) :
    ∃ r ∈ db.senses, s.rowid = r.rowid ∧ s.id = r.id ∧ s.lex = r.lex ∧ inLexOrAll lexids r.lex = true ∧
      (∃ e ∈ db.entries, e.rowid = r.entry ∧ s.entryId = e.id) ∧ (∃ y ∈ db.synsets, y.rowid = r.synset ∧ s.synsetId = y.id) := by
  unfold findSenses at h
  simp only [List.mem_filterMap, List.mem_filter, Bool.and_eq_true] at h
  obtain ⟨r, ⟨hr, hok⟩, hs⟩ := h
  unfold senseData at hs
  split at hs
  · rename_i e y he hy
    simp at hs; subst hs
    have h1 := List.find?_some he
    have h2 := List.find?_some hy
    simp only [beq_iff_eq] at h1 h2
    exact ⟨r, hr, rfl, rfl, rfl, hok.2, ⟨e, List.mem_of_find?_eq_some he, h1, rfl⟩, ⟨y, List.mem_of_find?_eq_some hy, h2, rfl⟩⟩
  · simp at hs

/-! ### `_insert_synsets` -/

/-- the row written for a document synset; `ili` is the rowid of an ILI row carrying the
document's ILI id (or none for "" / "in") -/
def SynsetRowOf (c : Ctx) (dbIlis : List RIli) (ss : Synset) (r : RSynset) : Prop :=
  r.id = ss.id ∧ r.lex = c.lexid ∧ r.md = ss.md ∧ r.lexicalized = ss.lexicalized.getD true ∧
  (∃ p, ss.pos = some p ∧ r.pos = p) ∧
  (if ss.ili != "" && ss.ili != "in" then r.ili = (dbIlis.find? (fun x => x.id == ss.ili)).map (·.rowid) else r.ili = none)

theorem synsetStep_ok (c : Ctx) (db db1 : Db) (ss : Synset) (h : synsetStep c db ss = .ok db1) :
    ∃ r, db1 = { db with synsets := db.synsets ++ [r] } ∧ SynsetRowOf c db.ilis ss r ∧ r.rowid ∉ db.synsets.map (·.rowid) := by
  unfold synsetStep at h
  cases hp : ss.pos with
  | none => simp [hp, need, bind, Except.bind] at h
  | some p =>
    simp only [hp, need, bind, Except.bind, pure, Except.pure, Except.ok.injEq] at h
    refine ⟨_, h.symm, ⟨rfl, rfl, rfl, rfl, ⟨p, hp, rfl⟩, ?_⟩, nextId_fresh _⟩
    split <;> rfl

/-- second pass of `_insert_synsets`: one row per non-external synset, in document order, with the
synset's id, part of speech, lexicalized flag (default true), metadata and ILI link; only the
synsets table changes -/
theorem C01_synset_rows (c : Ctx) (ss : List Synset) (db db' : Db) (h : ss.foldlM (synsetStep c) db = .ok db') :
    ∃ rows, db' = { db with synsets := db.synsets ++ rows } ∧ Forall2 (SynsetRowOf c db.ilis) ss rows := by
  refine foldlM_ok_induct (synsetStep c)
    (fun ss db db' => ∃ rows, db' = { db with synsets := db.synsets ++ rows } ∧ Forall2 (SynsetRowOf c db.ilis) ss rows)
    ?_ ?_ ss db db' h
  · intro b; exact ⟨[], by simp, Forall2.nil⟩
  · intro a t b b1 b' hf _ ih
    obtain ⟨r, hb1, hr, _⟩ := synsetStep_ok c b b1 a hf
    obtain ⟨rows, hb', hrows⟩ := ih
    have hil : b1.ilis = b.ilis := by rw [hb1]
    rw [hil] at hrows
    refine ⟨r :: rows, ?_, Forall2.cons hr hrows⟩
    rw [hb', hb1]
    simp

/-- first pass: every ILI id named by a synset has an ILI row afterwards, existing ILI rows are
never modified (`INSERT OR IGNORE`), and nothing but the `ilis` table changes -/
theorem presupStep_ok (presup : Nat) (db db1 : Db) (ss : Synset) (h : presupStep presup db ss = .ok db1) :
    (∃ extra, db1 = { db with ilis := db.ilis ++ extra }) ∧
    ((ss.ili != "" && ss.ili != "in") = true → ∃ x ∈ db1.ilis, x.id = ss.ili) := by
  unfold presupStep at h
  split at h
  · rename_i hc
    split at h
    · rename_i hn
      simp only [Except.ok.injEq] at h
      subst h
      exact ⟨⟨_, rfl⟩, fun _ => ⟨⟨nextId (db.ilis.map (·.rowid)), ss.ili, presup, ss.iliDef.map (·.text), ss.iliDef.bind (·.md)⟩, by simp, rfl⟩⟩
    · rename_i hn
      simp only [Except.ok.injEq] at h
      subst h
      refine ⟨⟨[], by simp⟩, fun _ => ?_⟩
      have : db.ilis.any (fun r => r.id == ss.ili) = true := by simpa using hn
      obtain ⟨x, hx, hxi⟩ := List.any_eq_true.mp this
      exact ⟨x, hx, by simpa using hxi⟩
  · rename_i hc
    simp only [Except.ok.injEq] at h
    subst h
    exact ⟨⟨[], by simp⟩, fun hc' => absurd hc' hc⟩

theorem C01_presupposed_ilis (presup : Nat) (ss : List Synset) (db db' : Db) (h : ss.foldlM (presupStep presup) db = .ok db') :
    (∃ extra, db' = { db with ilis := db.ilis ++ extra }) ∧
    ∀ s ∈ ss, (s.ili != "" && s.ili != "in") = true → ∃ x ∈ db'.ilis, x.id = s.ili := by
  refine foldlM_ok_induct (presupStep presup)
    (fun ss db db' => (∃ extra, db' = { db with ilis := db.ilis ++ extra }) ∧
      ∀ s ∈ ss, (s.ili != "" && s.ili != "in") = true → ∃ x ∈ db'.ilis, x.id = s.ili)
    ?_ ?_ ss db db' h
  · intro b; exact ⟨⟨[], by simp⟩, by simp⟩
  · intro a t b b1 b' hf _ ih
    obtain ⟨⟨e1, h1⟩, h2⟩ := presupStep_ok presup b b1 a hf
    obtain ⟨⟨e2, h3⟩, h4⟩ := ih
    refine ⟨⟨e1 ++ e2, by rw [h3, h1]; simp⟩, ?_⟩
    intro s hs hc
    rcases List.mem_cons.mp hs with rfl | hs
    · obtain ⟨x, hx, hxi⟩ := h2 hc
      refine ⟨x, ?_, hxi⟩
      rw [h3]; simp [hx]
    · exact h4 s hs hc


theorem find_rowid_of_nodup (l : List RIli) (h : (l.map (·.rowid)).Nodup) (x : RIli) (hx : x ∈ l) :
    l.find? (fun y => y.rowid == x.rowid) = some x := by
  induction l with
  | nil => simp at hx
  | cons a t ih =>
    simp only [List.map_cons, List.nodup_cons] at h
    rcases List.mem_cons.mp hx with rfl | hx
    · simp
    · have hne : a.rowid ≠ x.rowid := by
        intro e
        exact h.1 (List.mem_map.mpr ⟨x, hx, e.symm⟩)
      simp only [List.find?_cons]
      have : (a.rowid == x.rowid) = false := by simpa using hne
      rw [this]
      exact ih h.2 hx

theorem presupStep_nodup (presup : Nat) (db db1 : Db) (ss : Synset) (h : presupStep presup db ss = .ok db1)
    (hn : (db.ilis.map (·.rowid)).Nodup) : (db1.ilis.map (·.rowid)).Nodup := by
  unfold presupStep at h
  split at h
  · split at h
    · simp only [Except.ok.injEq] at h
      subst h
      simp only [List.map_append, List.map_cons, List.map_nil]
      rw [List.nodup_append]
      refine ⟨hn, by simp, ?_⟩
      intro a ha b hb
      simp at hb; subst hb
      intro e; subst e
      exact nextId_fresh _ ha
    · simp only [Except.ok.injEq] at h; subst h; exact hn
  · simp only [Except.ok.injEq] at h; subst h; exact hn

theorem presup_fold_nodup (presup : Nat) (ss : List Synset) (db db' : Db) (h : ss.foldlM (presupStep presup) db = .ok db')
    (hn : (db.ilis.map (·.rowid)).Nodup) : (db'.ilis.map (·.rowid)).Nodup := by
  revert hn
  refine foldlM_ok_induct (presupStep presup)
    (fun _ db db' => (db.ilis.map (·.rowid)).Nodup → (db'.ilis.map (·.rowid)).Nodup) ?_ ?_ ss db db' h
  · intro b hb; exact hb
  · intro a t b b1 b' hf _ ih hb
    exact ih (presupStep_nodup presup b b1 a hf hb)

theorem piliStep_frame (c : Ctx) (db db1 : Db) (ss : Synset) (h : piliStep c db ss = .ok db1) :
    db1.synsets = db.synsets ∧ db1.ilis = db.ilis := by
  unfold piliStep at h
  split at h
  · cases hs : synsetRow db ss.id c.lexid with
    | none => simp [hs, need, bind, Except.bind] at h
    | some sr =>
      simp only [hs, need, bind, Except.bind] at h
      split at h
      · simp [throw, throwThe, MonadExcept.throw] at h
      · simp only [pure, Except.pure, Except.ok.injEq] at h
        subst h; exact ⟨rfl, rfl⟩
  · simp only [Except.ok.injEq] at h; subst h; exact ⟨rfl, rfl⟩

theorem pili_fold_frame (c : Ctx) (ss : List Synset) (db db' : Db) (h : ss.foldlM (piliStep c) db = .ok db') :
    db'.synsets = db.synsets ∧ db'.ilis = db.ilis := by
  refine foldlM_ok_induct (piliStep c) (fun _ db db' => db'.synsets = db.synsets ∧ db'.ilis = db.ilis) ?_ ?_ ss db db' h
  · intro b; exact ⟨rfl, rfl⟩
  · intro a t b b1 b' hf _ ih
    obtain ⟨h1, h2⟩ := piliStep_frame c b b1 a hf
    exact ⟨ih.1.trans h1, ih.2.trans h2⟩

/-- **synset slice of the refinement**: after `_insert_synsets`, every non-external synset of the
document has a synset row of the new lexicon with its id, part of speech, lexicalized flag and
metadata, and — when the document gives it an ILI id — the row's ILI link resolves back to exactly
that id through the `ilis` table (as `Synset.ili` does) -/
theorem C01_synsets_after_insert (db db' : Db) (l : Lexicon) (c : Ctx) (h : insertSynsets db l c = .ok db')
    (hn : (db.ilis.map (·.rowid)).Nodup) (ss : Synset) (hs : ss ∈ localSynsets l) :
    ∃ r ∈ db'.synsets, r.id = ss.id ∧ r.lex = c.lexid ∧ r.md = ss.md ∧ r.lexicalized = ss.lexicalized.getD true ∧
      (∃ p, ss.pos = some p ∧ r.pos = p) ∧
      ((ss.ili != "" && ss.ili != "in") = true → iliIdOf db' r.ili = some ss.ili) ∧
      ((ss.ili != "" && ss.ili != "in") = false → r.ili = none) := by
  unfold insertSynsets at h
  cases hp : need "ili status" (lookupId db.ilistatuses "presupposed") with
  | error e => simp [hp, bind, Except.bind] at h
  | ok presup =>
    simp only [hp, bind, Except.bind] at h
    cases h1 : (localSynsets l).foldlM (presupStep presup) db with
    | error e => simp [h1] at h
    | ok db1 =>
      simp only [h1] at h
      cases h2 : (localSynsets l).foldlM (synsetStep c) db1 with
      | error e => simp [h2] at h
      | ok db2 =>
        simp only [h2] at h
        obtain ⟨hsyn, hili⟩ := pili_fold_frame c _ db2 db' h
        obtain ⟨rows, hdb2, hrows⟩ := C01_synset_rows c _ db1 db2 h2
        obtain ⟨r, hr, hrow⟩ := hrows.exists_of_mem_left ss hs
        obtain ⟨e1, e2, e3, e4, e5, e6⟩ := hrow
        have hili2 : db2.ilis = db1.ilis := by rw [hdb2]
        refine ⟨r, ?_, e1, e2, e3, e4, e5, ?_, ?_⟩
        · rw [hsyn, hdb2]; simp [hr]
        · intro hc
          simp only [hc, if_true] at e6
          obtain ⟨_, hpres⟩ := C01_presupposed_ilis presup _ db db1 h1
          obtain ⟨x, hx, hxi⟩ := hpres ss hs hc
          have hnd1 := presup_fold_nodup presup _ db db1 h1 hn
          cases hf : db1.ilis.find? (fun x => x.id == ss.ili) with
          | none =>
            rw [List.find?_eq_none] at hf
            have := hf x hx
            simp [hxi] at this
          | some y =>
            have hy := List.mem_of_find?_eq_some hf
            have hyi : y.id = ss.ili := by simpa using List.find?_some hf
            rw [hf] at e6
            simp only [Option.map_some] at e6
            unfold iliIdOf
            rw [e6, hili, hili2]
            simp only
            rw [find_rowid_of_nodup db1.ilis hnd1 y hy]
            simp [hyi]
        · intro hc
          simp only [hc, Bool.false_eq_true, if_false] at e6
          exact e6

/-! ### end to end: `synsets()` after `add` = the document's synsets -/

/-- the rows of `_insert_synsets`, in document order, with their ILI already resolved through the
`ilis` table of the resulting store -/
theorem insertSynsets_rows (db db' : Db) (l : Lexicon) (c : Ctx) (h : insertSynsets db l c = .ok db')
    (hn : (db.ilis.map (·.rowid)).Nodup) :
    ∃ rows, db'.synsets = db.synsets ++ rows ∧
      Forall2 (fun ss r => r.id = ss.id ∧ r.lex = c.lexid ∧ (∃ p, ss.pos = some p ∧ r.pos = p) ∧
        iliIdOf db' r.ili = (if (ss.ili != "" && ss.ili != "in") then some ss.ili else none)) (localSynsets l) rows := by
  unfold insertSynsets at h
  cases hp : need "ili status" (lookupId db.ilistatuses "presupposed") with
  | error e => simp [hp, bind, Except.bind] at h
  | ok presup =>
    simp only [hp, bind, Except.bind] at h
    cases h1 : (localSynsets l).foldlM (presupStep presup) db with
    | error e => simp [h1] at h
    | ok db1 =>
      simp only [h1] at h
      cases h2 : (localSynsets l).foldlM (synsetStep c) db1 with
      | error e => simp [h2] at h
      | ok db2 =>
        simp only [h2] at h
        obtain ⟨hsyn, hili⟩ := pili_fold_frame c _ db2 db' h
        obtain ⟨rows, hdb2, hrows⟩ := C01_synset_rows c _ db1 db2 h2
        have hili2 : db2.ilis = db1.ilis := by rw [hdb2]
        obtain ⟨⟨ex, hex⟩, hpres⟩ := C01_presupposed_ilis presup _ db db1 h1
        have hsyn1 : db1.synsets = db.synsets := by rw [hex]
        have hnd1 := presup_fold_nodup presup _ db db1 h1 hn
        refine ⟨rows, by rw [hsyn, hdb2]; simp [hsyn1], ?_⟩
        apply Forall2.of_index _ _ hrows.length_eq
        intro i h1' h2'
        obtain ⟨e1, e2, _, _, e5, e6⟩ := hrows.get i h1' h2'
        refine ⟨e1, e2, e5, ?_⟩
        have hs : (localSynsets l)[i] ∈ localSynsets l := List.getElem_mem h1'
        by_cases hc : ((localSynsets l)[i].ili != "" && (localSynsets l)[i].ili != "in") = true
        · simp only [hc, if_true] at e6 ⊢
          obtain ⟨x, hx, hxi⟩ := hpres _ hs hc
          cases hf : db1.ilis.find? (fun x => x.id == (localSynsets l)[i].ili) with
          | none =>
            rw [List.find?_eq_none] at hf
            have := hf x hx
            simp [hxi] at this
          | some y =>
            have hy := List.mem_of_find?_eq_some hf
            have hyi : y.id = (localSynsets l)[i].ili := by simpa using List.find?_some hf
            rw [hf] at e6
            simp only [Option.map_some] at e6
            unfold iliIdOf
            rw [e6, hili, hili2]
            simp only
            rw [find_rowid_of_nodup db1.ilis hnd1 y hy]
            simp [hyi]
        · have hc' : ((localSynsets l)[i].ili != "" && (localSynsets l)[i].ili != "in") = false := by simpa using hc
          simp only [hc', Bool.false_eq_true, if_false] at e6 ⊢
          rw [e6]; rfl

/-- the content of one synset of the document as `synsets()` reports it: id, part of speech and the
ILI id (none for "" and for a proposed ILI "in") -/
def docSynset (ss : Synset) : String × String × Option String :=
  (ss.id, ss.pos.getD "", if (ss.ili != "" && ss.ili != "in") then some ss.ili else none)

/-- **C01, synsets slice, end to end**: after a successful `add` of any lexicon (plain or extension),
`synsets()` restricted to the new lexicon reports exactly the document's non-external synsets, in
document order, each with its id, part of speech and ILI id — for documents of any size, on any
store whose synset rows point at existing lexicon rows and whose ILI rowids are unique. -/
theorem C01_synsets_end_to_end (norm : String → String) (dr : Nat) (db db' : Db) (l : Lexicon)
    (h : addLexicon norm dr db l = .ok db')
    (hfkY : ∀ o ∈ db.synsets, o.lex ∈ db.lexicons.map (·.rowid)) (hn : (db.ilis.map (·.rowid)).Nodup) :
    (findSynsets db' none [] none none [nextId (db.lexicons.map (·.rowid))] false true).map (fun y => (y.id, y.pos, y.ili)) =
      (localSynsets l).map docSynset := by
  unfold addLexicon at h
  simp only [bind, Except.bind] at h
  cases h0 : collectFrames l with
  | error x => rw [h0] at h; simp at h
  | ok sbs =>
    rw [h0] at h
    simp only at h
    cases h1 : insertLexicon (updateLookups db l) l with
    | error x => rw [h1] at h; simp at h
    | ok t =>
      obtain ⟨d1, lexid, extid⟩ := t
      rw [h1] at h
      simp only at h
      generalize hc : ({ lexid := lexid, extid := extid, extIds := externalIds l } : Ctx) = c at h
      have hlex : c.lexid = lexid := by rw [← hc]
      cases h2 : insertSynsets d1 l c with
      | error x => rw [h2] at h; simp at h
      | ok d2 =>
        rw [h2] at h
        simp only at h
        cases h3 : insertEntries d2 l c with
        | error x => rw [h3] at h; simp at h
        | ok d3 =>
          rw [h3] at h
          simp only at h
          cases h4 : insertForms d3 norm l c with
          | error x => rw [h4] at h; simp at h
          | ok d4 =>
            rw [h4] at h
            simp only at h
            cases h5 : insertPronsTags d4 l c with
            | error x => rw [h5] at h; simp at h
            | ok d5 =>
              rw [h5] at h
              simp only at h
              cases h6 : insertSenses d5 l c dr with
              | error x => rw [h6] at h; simp at h
              | ok d6 =>
                rw [h6] at h
                simp only at h
                cases h7 : insertSbs d6 sbs c with
                | error x => rw [h7] at h; simp at h
                | ok d7 =>
                  rw [h7] at h
                  simp only at h
                  cases h8 : insertRelations d7 l c with
                  | error x => rw [h8] at h; simp at h
                  | ok d8 =>
                    rw [h8] at h
                    simp only at h
                    have k3 := keepsYF_insertEntries l c d2 d3 h3
                    have k4 := keepsYF_insertForms norm l c d3 d4 h4
                    have k5 := keepsYF_insertPronsTags l c d4 d5 h5
                    have k6 := keepsYF_insertSenses l c dr d5 d6 h6
                    have k7 := keepsYF_insertSbs sbs c d6 d7 h7
                    have k8 := keepsYF_insertRelations l c d7 d8 h8
                    have k9 := keepsYF_insertDefsExamples l c d8 db' h
                    have hsynf : db'.synsets = d2.synsets := by rw [k9.1, k8.1, k7.1, k6.1, k5.1, k4.1, k3.1]
                    have hilif : db'.ilis = d2.ilis := by rw [k9.2, k8.2, k7.2, k6.2, k5.2, k4.2, k3.2]
                    -- the store handed to `_insert_synsets`
                    have hd1 : d1.synsets = db.synsets ∧ d1.ilis = db.ilis ∧ lexid = nextId (db.lexicons.map (·.rowid)) := by
                      unfold insertLexicon at h1
                      simp only [bind, Except.bind, pure, Except.pure] at h1
                      split at h1
                      · simp [throw, throwThe, MonadExcept.throw] at h1
                      · split at h1
                        · split at h1
                          · simp at h1
                          · simp only [Except.ok.injEq, Prod.mk.injEq] at h1
                            obtain ⟨e1, e2, _⟩ := h1
                            subst e1 e2
                            exact ⟨rfl, rfl, rfl⟩
                        · simp only [Except.ok.injEq, Prod.mk.injEq] at h1
                          obtain ⟨e1, e2, _⟩ := h1
                          subst e1 e2
                          exact ⟨rfl, rfl, rfl⟩
                    obtain ⟨rows, hrowsE, hrows⟩ := insertSynsets_rows d1 d2 l c h2 (by rw [hd1.2.1]; exact hn)
                    rw [← hd1.2.2, ← hlex]
                    unfold findSynsets
                    simp only [List.isEmpty_nil, if_true, List.map_map]
                    have hfilter : db'.synsets.filter (fun ss =>
                        (match (none : Option String) with | some i => if i == "" then true else ss.id == i | none => true) &&
                        (match (none : Option String) with | some p => if p == "" then true else ss.pos == p | none => true) &&
                        (match (none : Option String) with
                          | some i => if i == "" then true else (match iliIdOf db' ss.ili with | some j => j == i | none => false)
                          | none => true) &&
                        inLexOrAll [c.lexid] ss.lex) = rows := by
                      rw [hsynf, hrowsE, hd1.1, List.filter_append]
                      have e1 : db.synsets.filter (fun ss =>
                          (match (none : Option String) with | some i => if i == "" then true else ss.id == i | none => true) &&
                          (match (none : Option String) with | some p => if p == "" then true else ss.pos == p | none => true) &&
                          (match (none : Option String) with
                            | some i => if i == "" then true else (match iliIdOf db' ss.ili with | some j => j == i | none => false)
                            | none => true) &&
                          inLexOrAll [c.lexid] ss.lex) = [] := by
                        rw [List.filter_eq_nil_iff]
                        intro o ho
                        have hne : o.lex ≠ c.lexid := by
                          intro e
                          have := hfkY o ho
                          rw [e, hlex, hd1.2.2] at this
                          exact nextId_fresh _ this
                        simp [inLexOrAll, hne]
                      have e2 : rows.filter (fun ss =>
                          (match (none : Option String) with | some i => if i == "" then true else ss.id == i | none => true) &&
                          (match (none : Option String) with | some p => if p == "" then true else ss.pos == p | none => true) &&
                          (match (none : Option String) with
                            | some i => if i == "" then true else (match iliIdOf db' ss.ili with | some j => j == i | none => false)
                            | none => true) &&
                          inLexOrAll [c.lexid] ss.lex) = rows := by
                        rw [List.filter_eq_self]
                        intro r hr
                        obtain ⟨ss, _, hss⟩ : ∃ ss ∈ localSynsets l, r.lex = c.lexid := by
                          have : ∀ {L : List Synset} {R : List RSynset}, Forall2 (fun ss r => r.id = ss.id ∧ r.lex = c.lexid ∧ (∃ p, ss.pos = some p ∧ r.pos = p) ∧
                              iliIdOf d2 r.ili = (if (ss.ili != "" && ss.ili != "in") then some ss.ili else none)) L R → ∀ r ∈ R, ∃ ss ∈ L, r.lex = c.lexid := by
                            intro L R hh
                            induction hh with
                            | nil => intro r hr; simp at hr
                            | cons hd _ ih =>
                              intro r hr
                              rcases List.mem_cons.mp hr with rfl | hr
                              · exact ⟨_, List.mem_cons_self, hd.2.1⟩
                              · obtain ⟨x, hx, hh⟩ := ih r hr
                                exact ⟨x, List.mem_cons_of_mem _ hx, hh⟩
                          exact this hrows r hr
                        simp [inLexOrAll, hss]
                      rw [e1, e2, List.nil_append]
                    rw [hfilter]
                    have hres : ∀ k, iliIdOf db' k = iliIdOf d2 k := by
                      intro k; unfold iliIdOf; rw [hilif]
                    exact Forall2.map_eq (R := fun ss r => r.id = ss.id ∧ r.lex = c.lexid ∧ (∃ p, ss.pos = some p ∧ r.pos = p) ∧
                        iliIdOf d2 r.ili = (if (ss.ili != "" && ss.ili != "in") then some ss.ili else none))
                      ((fun y : SynsetData => (y.id, y.pos, y.ili)) ∘ synsetData db') docSynset
                      (fun ss r hr => by
                        obtain ⟨a1, _, ⟨p, hp, hpp⟩, a4⟩ := hr
                        simp only [Function.comp, synsetData, docSynset, a1, hpp, hp, Option.getD_some, hres, a4]) hrows

/-! ### end to end: `senses()` after `add` = the document's senses -/


/-- `synsetRow` reads only the `synsets` table -/
def synsetRowY (Y : List RSynset) (id : String) (lex : Nat) : Option Nat :=
  (Y.find? (fun r => r.id == id && r.lex == lex)).map (·.rowid)

/-- the sense row written for sense `s` of entry `e`, relative to fixed `entries` / `synsets` tables -/
def SenseRowE (c : Ctx) (E : List REntry) (Y : List RSynset) (es : Entry × Sense) (r : RSense) : Prop :=
  r.id = es.2.id ∧ r.lex = c.lexid ∧ entryRowE E es.1.id (c.lid es.1.id) = some r.entry ∧
  synsetRowY Y es.2.synset (c.lid es.2.synset) = some r.synset

theorem senseStep_tables (l : Lexicon) (c : Ctx) (dr : Nat) (e : Entry) (db db1 : Db) (si : Sense × Nat)
    (h : senseStep l c dr e db si = .ok db1) : db1.entries = db.entries ∧ db1.synsets = db.synsets := by
  obtain ⟨r, hdb1, _, _⟩ := senseStep_ok l c dr e db db1 si h
  rw [hdb1]; exact ⟨rfl, rfl⟩

/-- first loop of `_insert_senses` over all entries: one row per local sense, entry by entry, in
document order; `entries` and `synsets` are not touched -/
theorem insertSenses_rows (l : Lexicon) (c : Ctx) (dr : Nat) : ∀ (es : List Entry) (d d' : Db),
    es.foldlM (fun db e => (localSenses e).zipIdx.foldlM (senseStep l c dr e) db) d = .ok d' →
    d'.entries = d.entries ∧ d'.synsets = d.synsets ∧ ∃ rows, d'.senses = d.senses ++ rows ∧
      Forall2 (SenseRowE c d.entries d.synsets) (es.flatMap (fun e => (localSenses e).map (fun s => (e, s)))) rows := by
  intro es
  induction es with
  | nil =>
    intro d d' h
    simp only [List.foldlM_nil, pure, Except.pure, Except.ok.injEq] at h
    subst h
    exact ⟨rfl, rfl, [], by simp, Forall2.nil⟩
  | cons e t ih =>
    intro d d' h
    simp only [List.foldlM_cons, bind, Except.bind] at h
    cases h1 : (localSenses e).zipIdx.foldlM (senseStep l c dr e) d with
    | error x => rw [h1] at h; simp at h
    | ok d1 =>
      rw [h1] at h
      obtain ⟨rows1, hd1, hr1⟩ := C01_sense_rows l c dr e _ d d1 h1
      have ht1 : d1.entries = d.entries ∧ d1.synsets = d.synsets := by rw [hd1]; exact ⟨rfl, rfl⟩
      obtain ⟨he, hy, rows2, hd', hr2⟩ := ih d1 d' h
      refine ⟨he.trans ht1.1, hy.trans ht1.2, rows1 ++ rows2, by rw [hd', hd1]; simp, ?_⟩
      simp only [List.flatMap_cons]
      apply Forall2.append
      · -- rows of this entry
        have : Forall2 (fun (si : Sense × Nat) r => SenseRowE c d.entries d.synsets (e, si.1) r) (localSenses e).zipIdx rows1 :=
          Forall2.imp (fun si r hh => ⟨hh.1, hh.2.1, hh.2.2.2.2.2.2.1, hh.2.2.2.2.2.2.2⟩) hr1
        -- re-index from zipIdx to the plain list
        have key : ∀ (L : List Sense) (n : Nat) (R : List RSense),
            Forall2 (fun (si : Sense × Nat) r => SenseRowE c d.entries d.synsets (e, si.1) r) (L.zipIdx n) R →
            Forall2 (SenseRowE c d.entries d.synsets) (L.map (fun s => (e, s))) R := by
          intro L
          induction L with
          | nil => intro n R hh; cases hh; exact Forall2.nil
          | cons a t iht =>
            intro n R hh
            simp only [List.zipIdx_cons] at hh
            cases hh with
            | cons h0 hrest => exact Forall2.cons h0 (iht (n + 1) _ hrest)
        exact key _ 0 _ this
      · rw [ht1.1, ht1.2] at hr2; exact hr2

theorem find_by_rowid_entries (E : List REntry) (h : (E.map (·.rowid)).Nodup) (x : REntry) (hx : x ∈ E) :
    E.find? (fun y => y.rowid == x.rowid) = some x := by
  induction E with
  | nil => simp at hx
  | cons a t ih =>
    simp only [List.map_cons, List.nodup_cons] at h
    rcases List.mem_cons.mp hx with rfl | hx
    · simp
    · have hne : a.rowid ≠ x.rowid := fun e => h.1 (List.mem_map.mpr ⟨x, hx, e.symm⟩)
      simp only [List.find?_cons]
      have : (a.rowid == x.rowid) = false := by simpa using hne
      rw [this]; exact ih h.2 hx

theorem find_by_rowid_synsets (Y : List RSynset) (h : (Y.map (·.rowid)).Nodup) (x : RSynset) (hx : x ∈ Y) :
    Y.find? (fun y => y.rowid == x.rowid) = some x := by
  induction Y with
  | nil => simp at hx
  | cons a t ih =>
    simp only [List.map_cons, List.nodup_cons] at h
    rcases List.mem_cons.mp hx with rfl | hx
    · simp
    · have hne : a.rowid ≠ x.rowid := fun e => h.1 (List.mem_map.mpr ⟨x, hx, e.symm⟩)
      simp only [List.find?_cons]
      have : (a.rowid == x.rowid) = false := by simpa using hne
      rw [this]; exact ih h.2 hx

/-- a sense row whose entry / synset rowids were obtained by looking up document ids decodes to a
sense carrying exactly those ids, when rowids are unique -/
theorem senseData_resolve (db : Db) (r : RSense) (eid sid : String) (le ly : Nat)
    (he : entryRowE db.entries eid le = some r.entry) (hy : synsetRowY db.synsets sid ly = some r.synset)
    (hnE : (db.entries.map (·.rowid)).Nodup) (hnY : (db.synsets.map (·.rowid)).Nodup) :
    senseData db r = some ⟨r.id, eid, sid, r.lex, r.rowid⟩ := by
  unfold entryRowE at he
  unfold synsetRowY at hy
  cases h1 : db.entries.find? (fun x => x.id == eid && x.lex == le) with
  | none => rw [h1] at he; simp at he
  | some x =>
    rw [h1] at he
    cases h2 : db.synsets.find? (fun x => x.id == sid && x.lex == ly) with
    | none => rw [h2] at hy; simp at hy
    | some y =>
      rw [h2] at hy
      simp only [Option.map_some, Option.some.injEq] at he hy
      have hxm := List.mem_of_find?_eq_some h1
      have hym := List.mem_of_find?_eq_some h2
      have hxi : x.id = eid := by have := List.find?_some h1; simp at this; exact this.1
      have hyi : y.id = sid := by have := List.find?_some h2; simp at this; exact this.1
      unfold senseData
      rw [← he, ← hy, find_by_rowid_entries db.entries hnE x hxm, find_by_rowid_synsets db.synsets hnY y hym]
      simp [hxi, hyi]

theorem entryStep_nodup (c : Ctx) (db db1 : Db) (e : Entry) (h : entryStep c db e = .ok db1)
    (hn : (db.entries.map (·.rowid)).Nodup) : (db1.entries.map (·.rowid)).Nodup := by
  obtain ⟨r, hdb1, _, hfresh, _⟩ := entryStep_ok c db db1 e h
  rw [hdb1]
  simp only [List.map_append, List.map_cons, List.map_nil]
  rw [List.nodup_append]
  refine ⟨hn, by simp, ?_⟩
  intro a ha b hb
  simp at hb; subst hb
  intro e'; subst e'
  exact hfresh ha

theorem synsetStep_nodup (c : Ctx) (db db1 : Db) (ss : Synset) (h : synsetStep c db ss = .ok db1)
    (hn : (db.synsets.map (·.rowid)).Nodup) : (db1.synsets.map (·.rowid)).Nodup := by
  obtain ⟨r, hdb1, _, hfresh⟩ := synsetStep_ok c db db1 ss h
  rw [hdb1]
  simp only [List.map_append, List.map_cons, List.map_nil]
  rw [List.nodup_append]
  refine ⟨hn, by simp, ?_⟩
  intro a ha b hb
  simp at hb; subst hb
  intro e'; subst e'
  exact hfresh ha

theorem insertLexicon_frame2 (db db' : Db) (l : Lexicon) (lexid extid : Nat)
    (h : insertLexicon db l = .ok (db', lexid, extid)) :
    db'.senses = db.senses ∧ db'.synsets = db.synsets ∧ db'.entries = db.entries := by
  unfold insertLexicon at h
  simp only [bind, Except.bind, pure, Except.pure] at h
  split at h
  · simp [throw, throwThe, MonadExcept.throw] at h
  · split at h
    · split at h
      · simp at h
      · simp only [Except.ok.injEq, Prod.mk.injEq] at h
        obtain ⟨h1, _, _⟩ := h
        subst h1
        exact ⟨rfl, rfl, rfl⟩
    · simp only [Except.ok.injEq, Prod.mk.injEq] at h
      obtain ⟨h1, _, _⟩ := h
      subst h1
      exact ⟨rfl, rfl, rfl⟩

/-- the `synsets` and `ilis` tables after one whole `addLexicon`: the old rows first, unchanged, then
the rows of the new lexicon / the ILIs it presupposes -/
theorem addLexicon_synset_tables (norm : String → String) (dr : Nat) (db db' : Db) (l : Lexicon)
    (h : addLexicon norm dr db l = .ok db') :
    ∃ (rows : List RSynset) (extra : List RIli), db'.synsets = db.synsets ++ rows ∧
      (∀ r ∈ rows, r.lex = nextId (db.lexicons.map (·.rowid))) ∧ db'.ilis = db.ilis ++ extra := by
  unfold addLexicon at h
  simp only [bind, Except.bind] at h
  cases h0 : collectFrames l with
  | error x => rw [h0] at h; simp at h
  | ok sbs =>
    rw [h0] at h
    simp only at h
    cases h1 : insertLexicon (updateLookups db l) l with
    | error x => rw [h1] at h; simp at h
    | ok t =>
      obtain ⟨d1, lexid, extid⟩ := t
      rw [h1] at h
      simp only at h
      obtain ⟨_, _, f3, _⟩ := insertLexicon_frame _ _ _ _ _ h1
      have f3' : lexid = nextId (db.lexicons.map (·.rowid)) := f3
      generalize hc : ({ lexid := lexid, extid := extid, extIds := externalIds l } : Ctx) = c at h
      have hlex : c.lexid = lexid := by rw [← hc]
      cases h2 : insertSynsets d1 l c with
      | error x => rw [h2] at h; simp at h
      | ok d2 =>
        rw [h2] at h
        simp only at h
        have hrest : KeepsYF (fun b => (do
            let db ← insertEntries b l c
            let db ← insertForms db norm l c
            let db ← insertPronsTags db l c
            let db ← insertSenses db l c dr
            let db ← insertSbs db sbs c
            let db ← insertRelations db l c
            insertDefsExamples db l c)) :=
          keepsYF_bind _ _ (keepsYF_insertEntries l c) (keepsYF_bind _ _ (keepsYF_insertForms norm l c)
            (keepsYF_bind _ _ (keepsYF_insertPronsTags l c) (keepsYF_bind _ _ (keepsYF_insertSenses l c dr)
              (keepsYF_bind _ _ (keepsYF_insertSbs sbs c) (keepsYF_bind _ _ (keepsYF_insertRelations l c)
                (keepsYF_insertDefsExamples l c))))))
        have hk := hrest d2 db' h
        -- inside `_insert_synsets`
        have hd1 : d1.synsets = db.synsets ∧ d1.ilis = db.ilis := by
          obtain ⟨_, g2, _⟩ := insertLexicon_frame2 _ _ _ _ _ h1
          refine ⟨g2, ?_⟩
          unfold insertLexicon at h1
          simp only [bind, Except.bind, pure, Except.pure] at h1
          split at h1
          · simp [throw, throwThe, MonadExcept.throw] at h1
          · split at h1
            · split at h1
              · simp at h1
              · simp only [Except.ok.injEq, Prod.mk.injEq] at h1
                obtain ⟨e1, _, _⟩ := h1
                subst e1; rfl
            · simp only [Except.ok.injEq, Prod.mk.injEq] at h1
              obtain ⟨e1, _, _⟩ := h1
              subst e1; rfl
        unfold insertSynsets at h2
        cases hp : need "ili status" (lookupId d1.ilistatuses "presupposed") with
        | error e => simp [hp, bind, Except.bind] at h2
        | ok presup =>
          simp only [hp, bind, Except.bind] at h2
          cases h21 : (localSynsets l).foldlM (presupStep presup) d1 with
          | error e => simp [h21] at h2
          | ok x1 =>
            simp only [h21] at h2
            cases h22 : (localSynsets l).foldlM (synsetStep c) x1 with
            | error e => simp [h22] at h2
            | ok x2 =>
              simp only [h22] at h2
              obtain ⟨hsyn, hili⟩ := pili_fold_frame c _ x2 d2 h2
              obtain ⟨rows, hx2, hrows⟩ := C01_synset_rows c _ x1 x2 h22
              obtain ⟨⟨extra, hex⟩, _⟩ := C01_presupposed_ilis presup _ d1 x1 h21
              refine ⟨rows, extra, ?_, ?_, ?_⟩
              · rw [hk.1, hsyn, hx2, hex]; simp [hd1.1]
              · intro r hr
                have key : ∀ {L : List Synset} {R : List RSynset}, Forall2 (SynsetRowOf c x1.ilis) L R → ∀ r ∈ R, r.lex = c.lexid := by
                  intro L R hh
                  induction hh with
                  | nil => intro r hr; simp at hr
                  | cons hd _ ih =>
                    intro r hr
                    rcases List.mem_cons.mp hr with rfl | hr
                    · exact hd.2.1
                    · exact ih r hr
                rw [key hrows r hr, hlex, f3']
              · rw [hk.2, hili, hx2, hex]; simp [hd1.2]

theorem insertSynsets_nodupY (db db' : Db) (l : Lexicon) (c : Ctx) (h : insertSynsets db l c = .ok db')
    (hn : (db.synsets.map (·.rowid)).Nodup) : (db'.synsets.map (·.rowid)).Nodup := by
  unfold insertSynsets at h
  cases hp : need "ili status" (lookupId db.ilistatuses "presupposed") with
  | error e => simp [hp, bind, Except.bind] at h
  | ok presup =>
    simp only [hp, bind, Except.bind] at h
    cases h1 : (localSynsets l).foldlM (presupStep presup) db with
    | error e => simp [h1] at h
    | ok db1 =>
      simp only [h1] at h
      cases h2 : (localSynsets l).foldlM (synsetStep c) db1 with
      | error e => simp [h2] at h
      | ok db2 =>
        simp only [h2] at h
        obtain ⟨hsyn, _⟩ := pili_fold_frame c _ db2 db' h
        obtain ⟨⟨ex, hex⟩, _⟩ := C01_presupposed_ilis presup _ db db1 h1
        have h1s : db1.synsets = db.synsets := by rw [hex]
        rw [hsyn]
        have : (db1.synsets.map (·.rowid)).Nodup → (db2.synsets.map (·.rowid)).Nodup := by
          refine foldlM_ok_induct (synsetStep c) (fun _ b b' => (b.synsets.map (·.rowid)).Nodup → (b'.synsets.map (·.rowid)).Nodup)
            ?_ ?_ _ db1 db2 h2
          · intro b hb; exact hb
          · intro a t b b1 b' hf _ ih hb
            exact ih (synsetStep_nodup c b b1 a hf hb)
        exact this (by rw [h1s]; exact hn)

theorem insertEntries_nodupE (db db' : Db) (l : Lexicon) (c : Ctx) (h : insertEntries db l c = .ok db')
    (hn : (db.entries.map (·.rowid)).Nodup) : (db'.entries.map (·.rowid)).Nodup := by
  unfold insertEntries at h
  revert hn
  refine foldlM_ok_induct (entryStep c) (fun _ b b' => (b.entries.map (·.rowid)).Nodup → (b'.entries.map (·.rowid)).Nodup)
    ?_ ?_ _ db db' h
  · intro b hb; exact hb
  · intro a t b b1 b' hf _ ih hb
    exact ih (entryStep_nodup c b b1 a hf hb)

/-- **C01, senses slice, end to end**: after a successful `add` of a plain lexicon, `senses()` of the
new lexicon reports exactly the document's (non-external) senses, entry by entry in document order,
each with its own id, the id of the entry it was declared under and the id of the synset it
references — on any store with unique entry / synset rowids whose sense rows point at existing
lexicons; for documents of any size. -/
theorem C01_senses_end_to_end (norm : String → String) (dr : Nat) (db db' : Db) (l : Lexicon)
    (h : addLexicon norm dr db l = .ok db') (hext : l.ext = none)
    (hfkS : ∀ o ∈ db.senses, o.lex ∈ db.lexicons.map (·.rowid))
    (hnE : (db.entries.map (·.rowid)).Nodup) (hnY : (db.synsets.map (·.rowid)).Nodup) :
    (findSenses db' none [] none [nextId (db.lexicons.map (·.rowid))] false true).map (fun s => (s.id, s.entryId, s.synsetId)) =
      l.entries.flatMap (fun e => (localSenses e).map (fun s => (s.id, e.id, s.synset))) := by
  unfold addLexicon at h
  simp only [bind, Except.bind] at h
  cases h0 : collectFrames l with
  | error x => rw [h0] at h; simp at h
  | ok sbs =>
    rw [h0] at h
    simp only at h
    cases h1 : insertLexicon (updateLookups db l) l with
    | error x => rw [h1] at h; simp at h
    | ok t =>
      obtain ⟨d1, lexid, extid⟩ := t
      rw [h1] at h
      simp only at h
      obtain ⟨_, _, f3, f4⟩ := insertLexicon_frame _ _ _ _ _ h1
      obtain ⟨g1, g2, g3⟩ := insertLexicon_frame2 _ _ _ _ _ h1
      have hext' := f4 hext
      subst hext'
      generalize hc : ({ lexid := extid, extid := extid, extIds := externalIds l } : Ctx) = c at h
      have hlex : c.lexid = extid := by rw [← hc]
      have hlid : ∀ id, c.lid id = c.lexid := by
        intro id; rw [← hc]; unfold Ctx.lid; simp
      cases h2 : insertSynsets d1 l c with
      | error x => rw [h2] at h; simp at h
      | ok d2 =>
        rw [h2] at h
        simp only at h
        cases h3 : insertEntries d2 l c with
        | error x => rw [h3] at h; simp at h
        | ok d3 =>
          rw [h3] at h
          simp only at h
          cases h4 : insertForms d3 norm l c with
          | error x => rw [h4] at h; simp at h
          | ok d4 =>
            rw [h4] at h
            simp only at h
            cases h5 : insertPronsTags d4 l c with
            | error x => rw [h5] at h; simp at h
            | ok d5 =>
              rw [h5] at h
              simp only at h
              cases h6 : insertSenses d5 l c dr with
              | error x => rw [h6] at h; simp at h
              | ok d6 =>
                rw [h6] at h
                simp only at h
                cases h7 : insertSbs d6 sbs c with
                | error x => rw [h7] at h; simp at h
                | ok d7 =>
                  rw [h7] at h
                  simp only at h
                  cases h8 : insertRelations d7 l c with
                  | error x => rw [h8] at h; simp at h
                  | ok d8 =>
                    rw [h8] at h
                    simp only at h
                    -- tables seen by `_insert_senses`
                    have n2 := keepsNF_insertSynsets l c d1 d2 h2
                    have n3 := keepsNF_insertEntries l c d2 d3 h3
                    have n4 := keepsNF_insertForms norm l c d3 d4 h4
                    have n5 := keepsNF_insertPronsTags l c d4 d5 h5
                    have hs5 : d5.senses = db.senses := by rw [n5, n4, n3, n2, g1]; rfl
                    have y3 := keepsYF_insertEntries l c d2 d3 h3
                    have y4 := keepsYF_insertForms norm l c d3 d4 h4
                    have y5 := keepsYF_insertPronsTags l c d4 d5 h5
                    have e2 := keepsF_insertSynsets l c d1 d2 h2
                    have e4 : d4.entries = d3.entries := insertForms_entries norm l c d3 d4 h4
                    have e5 := keepsF_insertPronsTags l c d4 d5 h5
                    have hnY2 : (d2.synsets.map (·.rowid)).Nodup := insertSynsets_nodupY d1 d2 l c h2 (by rw [g2]; exact hnY)
                    have hnE3 : (d3.entries.map (·.rowid)).Nodup := insertEntries_nodupE d2 d3 l c h3 (by rw [e2.1, g3]; exact hnE)
                    have hY5 : d5.synsets = d2.synsets := by rw [y5.1, y4.1, y3.1]
                    have hE5 : d5.entries = d3.entries := by rw [e5.1, e4]
                    -- `_insert_senses`
                    unfold insertSenses at h6
                    simp only [bind, Except.bind] at h6
                    cases h61 : l.entries.foldlM (fun db e => (localSenses e).zipIdx.foldlM (senseStep l c dr e) db) d5 with
                    | error x => rw [h61] at h6; simp at h6
                    | ok x1 =>
                      rw [h61] at h6
                      simp only at h6
                      obtain ⟨xe, xy, rows, hx1, hrows⟩ := insertSenses_rows l c dr l.entries d5 x1 h61
                      have k6 := keepsSF_adjCounts l c x1 d6 h6
                      have k7 := keepsSF_insertSbs sbs c d6 d7 h7
                      have k8 := keepsSF_insertRelations l c d7 d8 h8
                      have k9 := keepsSF_insertDefsExamples l c d8 db' h
                      have hSf : db'.senses = db.senses ++ rows := by rw [k9.1, k8.1, k7.1, k6.1, hx1, hs5]
                      have hEf : db'.entries = d5.entries := by rw [k9.2.1, k8.2.1, k7.2.1, k6.2.1, xe]
                      have hYf : db'.synsets = d5.synsets := by rw [k9.2.2, k8.2.2, k7.2.2, k6.2.2, xy]
                      have f3' : extid = nextId (db.lexicons.map (·.rowid)) := f3
                      rw [← f3', ← hlex]
                      unfold findSenses
                      have hfilter : db'.senses.filter (fun s =>
                          (match (none : Option String) with | some i => if i == "" then true else s.id == i | none => true) &&
                          (([] : List String).isEmpty || formMatch db' [] false true s.entry) &&
                          (match (none : Option String) with
                            | some p => if p == "" then true else (match db'.entries.find? (fun e => e.rowid == s.entry) with | some e => e.pos == p | none => false)
                            | none => true) &&
                          inLexOrAll [c.lexid] s.lex) = rows := by
                        rw [hSf, List.filter_append]
                        have e1 : db.senses.filter (fun s =>
                            (match (none : Option String) with | some i => if i == "" then true else s.id == i | none => true) &&
                            (([] : List String).isEmpty || formMatch db' [] false true s.entry) &&
                            (match (none : Option String) with
                              | some p => if p == "" then true else (match db'.entries.find? (fun e => e.rowid == s.entry) with | some e => e.pos == p | none => false)
                              | none => true) &&
                            inLexOrAll [c.lexid] s.lex) = [] := by
                          rw [List.filter_eq_nil_iff]
                          intro o ho
                          have hne : o.lex ≠ c.lexid := by
                            intro e
                            have := hfkS o ho
                            rw [e, hlex, f3'] at this
                            exact nextId_fresh _ this
                          simp [inLexOrAll, hne]
                        have e2' : rows.filter (fun s =>
                            (match (none : Option String) with | some i => if i == "" then true else s.id == i | none => true) &&
                            (([] : List String).isEmpty || formMatch db' [] false true s.entry) &&
                            (match (none : Option String) with
                              | some p => if p == "" then true else (match db'.entries.find? (fun e => e.rowid == s.entry) with | some e => e.pos == p | none => false)
                              | none => true) &&
                            inLexOrAll [c.lexid] s.lex) = rows := by
                          rw [List.filter_eq_self]
                          intro r hr
                          have : r.lex = c.lexid := by
                            have key : ∀ {L : List (Entry × Sense)} {R : List RSense}, Forall2 (SenseRowE c d5.entries d5.synsets) L R → ∀ r ∈ R, r.lex = c.lexid := by
                              intro L R hh
                              induction hh with
                              | nil => intro r hr; simp at hr
                              | cons hd _ ih =>
                                intro r hr
                                rcases List.mem_cons.mp hr with rfl | hr
                                · exact hd.2.1
                                · exact ih r hr
                            exact key hrows r hr
                          simp [inLexOrAll, this]
                        rw [e1, e2', List.nil_append]
                      rw [hfilter]
                      have hnEf : (db'.entries.map (·.rowid)).Nodup := by rw [hEf, hE5]; exact hnE3
                      have hnYf : (db'.synsets.map (·.rowid)).Nodup := by rw [hYf, hY5]; exact hnY2
                      have hdec : ∀ (es : Entry × Sense) (r : RSense), SenseRowE c d5.entries d5.synsets es r →
                          senseData db' r = some ⟨es.2.id, es.1.id, es.2.synset, r.lex, r.rowid⟩ := by
                        intro es r ⟨a1, _, a3, a4⟩
                        rw [← a1]
                        exact senseData_resolve db' r es.1.id es.2.synset _ _ (by rw [hEf]; exact a3) (by rw [hYf]; exact a4) hnEf hnYf
                      have hfm : ∀ {L : List (Entry × Sense)} {R : List RSense}, Forall2 (SenseRowE c d5.entries d5.synsets) L R →
                          (R.filterMap (senseData db')).map (fun s => (s.id, s.entryId, s.synsetId)) = L.map (fun es => (es.2.id, es.1.id, es.2.synset)) := by
                        intro L R hh
                        induction hh with
                        | nil => rfl
                        | cons hd _ ih =>
                          rw [List.filterMap_cons, hdec _ _ hd]
                          simp only [List.map_cons, ih]
                      rw [hfm hrows, List.map_flatMap]
                      congr 1
                      funext e
                      rw [List.map_map]
                      rfl

/-- what `synsets()` decodes: every reported synset is a synset row of a selected lexicon with that
row's id and part of speech, and its ILI is the id of the ILI row the synset row links to -/
theorem C01_synsets_decode (db : Db) (lexids : List Nat) (y : SynsetData)
    (h : y ∈ findSynsets db none [] none none lexids false true) :
    ∃ r ∈ db.synsets, y.rowid = r.rowid ∧ y.id = r.id ∧ y.pos = r.pos ∧ y.lex = r.lex ∧ y.ili = iliIdOf db r.ili ∧
      inLexOrAll lexids r.lex = true := by
  unfold findSynsets at h
  simp only [List.isEmpty_nil, if_true, List.mem_map, List.mem_filter, Bool.and_eq_true] at h
  obtain ⟨r, ⟨hr, hok⟩, rfl⟩ := h
  exact ⟨r, hr, rfl, rfl, rfl, rfl, rfl, hok.2⟩

theorem C01_synsets_complete (db : Db) (lexids : List Nat) (r : RSynset) (hr : r ∈ db.synsets)
    (hl : inLexOrAll lexids r.lex = true) : synsetData db r ∈ findSynsets db none [] none none lexids false true := by
  unfold findSynsets
  simp only [List.isEmpty_nil, if_true, List.mem_map, List.mem_filter, Bool.and_eq_true]
  exact ⟨r, ⟨hr, by simp [hl]⟩, rfl⟩

/-! ### end to end: `Synset.relations()` after `add` = the document's `<SynsetRelation>`s -/

/-- the row function of `get_synset_relations` (`synsetRelations` = `DISTINCT` of its image) -/
def relF (db : Db) (sources : List Nat) (types : List String) (lexids : List Nat) (r : RRel) : Option (RelData SynsetData) :=
  if sources.contains r.source && inLex lexids r.lex then
    match typeOk db types r.type, db.synsets.find? (fun x => x.rowid == r.target) with
    | some n, some tgt => if inLex lexids tgt.lex then
        some ({ name := n, lexicon := lexSpec db r.lex, md := r.md, source := r.source, target := synsetData db tgt } : RelData SynsetData)
      else none
    | _, _ => none
  else none

theorem synsetRelations_eq (db : Db) (sources : List Nat) (types : List String) (lexids : List Nat) :
    synsetRelations db sources types lexids =
      dedupBy (fun r => (r.name, r.lexicon, r.md, r.source, r.target.rowid)) (db.synrels.filterMap (relF db sources types lexids)) := rfl

theorem filterMap_ite_some {α β} (c : α → Bool) (f : α → β) (l : List α) :
    l.filterMap (fun a => if c a then some (f a) else none) = (l.filter c).map f := by
  induction l with
  | nil => rfl
  | cons a t ih =>
    simp only [List.filterMap_cons, List.filter_cons]
    cases c a <;> simp [ih]

/-- what `get_synset_relations` makes of a freshly written row -/
theorem relF_new (db' : Db) (c : Ctx) (types : List String) (htypes : (types.isEmpty || types.contains "*") = true)
    (sid : String) (x0 : Nat) (ss : Synset) (r : Relation) (row : RRel)
    (hnY : (db'.synsets.map (·.rowid)).Nodup) (hnT : (db'.reltypes.map (·.1)).Nodup)
    (hx0 : synsetRowY' db'.synsets sid (c.lid sid) = some x0)
    (hrel : SynRelRowOf c (db'.synsets, db'.reltypes) ss r row) :
    ∃ tr, db'.synsets.find? (fun y => y.id == r.target && y.lex == c.lid r.target) = some tr ∧ tr ∈ db'.synsets ∧
      relF db' [x0] types [c.lexid] row =
        if (ss.id == sid && c.lid r.target == c.lexid) then
          some ⟨r.relType, lexSpec db' c.lexid, r.md, x0, synsetData db' tr⟩ else none := by
  obtain ⟨hlex, hsrc, htgt, hty, hmd⟩ := hrel
  simp only at hsrc htgt hty
  obtain ⟨tr, hfind, htrY, htrid, htrlex, htrrow⟩ := synsetRowY'_some _ _ _ _ htgt
  obtain ⟨sr, _, hsrY, hsrid, hsrlex, hsrrow⟩ := synsetRowY'_some _ _ _ _ hsrc
  obtain ⟨s0, _, hs0Y, hs0id, hs0lex, hs0row⟩ := synsetRowY'_some _ _ _ _ hx0
  refine ⟨tr, hfind, htrY, ?_⟩
  have hname : typeOk db' types row.type = some r.relType := by
    unfold typeOk
    rw [lookupName_of_lookupId _ hnT _ _ hty]
    simp only
    rw [if_pos (by rw [Bool.or_eq_true]; exact Or.inl htypes)]
  have hft : db'.synsets.find? (fun x => x.rowid == row.target) = some tr := by
    rw [← htrrow]; exact find_by_rowid_Y _ hnY tr htrY
  have hsource : ([x0].contains row.source) = (ss.id == sid) := by
    by_cases e : ss.id = sid
    · have : row.source = x0 := by
        rw [e] at hsrc; rw [hsrc] at hx0; exact Option.some.inj hx0
      simp [e, this]
    · have : row.source ≠ x0 := by
        intro q
        have := mem_eq_of_rowid _ hnY sr hsrY s0 hs0Y (by rw [hsrrow, hs0row, q])
        exact e (by rw [← hsrid, this, hs0id])
      have q1 : (ss.id == sid) = false := by simpa using e
      rw [q1]
      simpa using this
  unfold relF
  rw [hsource, hname, hft]
  simp only [hlex, inLex, List.contains_cons, List.contains_nil, Bool.or_false, beq_self_eq_true, Bool.and_true, htrlex, hmd]
  have hsx : ss.id = sid → row.source = x0 := by
    intro e
    rw [e] at hsrc; rw [hsrc] at hx0; exact Option.some.inj hx0
  by_cases e1 : ss.id = sid
  · by_cases e2 : c.lid r.target = c.lexid
    · simp [e1, e2, hsx e1]
    · simp [e1, e2]
  · simp [e1]

/-- what a user sees of a relation: (type, target synset id, metadata) -/
def obsSynRel (r : RelData SynsetData) : String × String × Option Meta := (r.name, r.target.id, r.md)
/-- the same of a document relation -/
def docRel (r : Relation) : String × String × Option Meta := (r.relType, r.target, r.md)

/-- **C01, synset relations, end to end**: after a successful `add` of any lexicon, the relations
that `get_synset_relations` reports, inside the new lexicon, for the synset with id `sid` are exactly
the `<SynsetRelation>` elements that the document lists under that id whose target is resolved in
the new lexicon — in document order, with type, target id and metadata unaltered, exact duplicates
reported once — for documents of any size, on any store with unique rowids whose relation rows
point at existing lexicons. -/
theorem C01_synset_relations_end_to_end {norm : String → String} {dr : Nat} {db db' : Db} {l : Lexicon}
    (t : AddTrace norm dr db db' l)
    (hfkR : ∀ o ∈ db.synrels, o.lex ∈ db.lexicons.map (·.rowid))
    (hnY : (db.synsets.map (·.rowid)).Nodup) (hnT : (db.reltypes.map (·.1)).Nodup)
    (types : List String) (htypes : (types.isEmpty || types.contains "*") = true)
    (sid : String) (x0 : Nat) (hx0 : synsetRow db' sid (t.ctx.lid sid) = some x0) :
    (synsetRelations db' [x0] types [t.lexid]).map obsSynRel =
      dedupBy id (((synRelPairs l).filter (fun p => p.1.id == sid && t.ctx.lid p.2.target == t.lexid)).map (fun p => docRel p.2)) := by
  obtain ⟨hT, hY, rows, hrows, hF⟩ := addLexicon_synrel_table t
  have k1 := insertLexicon_keeps_rels _ _ _ _ _ t.hlex
  have hlexid : t.lexid = nextId (db.lexicons.map (·.rowid)) := (insertLexicon_frame _ _ _ _ _ t.hlex).2.2.1
  have hnY' : (db'.synsets.map (·.rowid)).Nodup := by
    rw [hY]
    apply insertSynsets_nodupY _ _ _ _ t.hsyn
    rw [k1.2.2.2.2.1]; exact hnY
  have hnT' : (db'.reltypes.map (·.1)).Nodup := by rw [hT]; exact updateLookups_reltypes_nodup db l hnT
  have hx0' : synsetRowY' db'.synsets sid (t.ctx.lid sid) = some x0 := hx0
  have hclex : t.ctx.lexid = t.lexid := rfl
  -- rows of other lexicons are not read
  have hold : db.synrels.filterMap (relF db' [x0] types [t.lexid]) = [] := by
    rw [List.filterMap_eq_nil_iff]
    intro o ho
    have hne : o.lex ≠ t.lexid := by
      intro e
      have := hfkR o ho
      rw [e, hlexid] at this
      exact nextId_not_mem _ this
    unfold relF
    have : inLex [t.lexid] o.lex = false := by
      simp only [inLex, List.contains_cons, List.contains_nil, Bool.or_false]
      simpa using hne
    simp [this]
  -- every element of the image comes from a document relation
  have hchar : ∀ a ∈ rows.filterMap (relF db' [x0] types [t.lexid]), ∃ (p : Synset × Relation) (tr : RSynset),
      db'.synsets.find? (fun y => y.id == p.2.target && y.lex == t.lexid) = some tr ∧ tr ∈ db'.synsets ∧
      a = ⟨p.2.relType, lexSpec db' t.lexid, p.2.md, x0, synsetData db' tr⟩ := by
    intro a ha
    obtain ⟨row, hrow, hFa⟩ := List.mem_filterMap.mp ha
    obtain ⟨p, _, hrel⟩ := Forall2.exists_of_mem_right hF row hrow
    obtain ⟨tr, hfind, htrY, hEq⟩ := relF_new db' t.ctx types htypes sid x0 p.1 p.2 row hnY' hnT' hx0' hrel
    rw [hclex] at hEq
    rw [hEq] at hFa
    split at hFa
    · rename_i hc
      simp only [Bool.and_eq_true, beq_iff_eq] at hc
      rw [hc.2] at hfind
      exact ⟨p, tr, hfind, htrY, (Option.some.inj hFa).symm⟩
    · simp at hFa
  rw [synsetRelations_eq, hrows, List.filterMap_append, hold, List.nil_append]
  -- DISTINCT over the selected columns = first-occurrence de-duplication of what is observed
  rw [← dedupBy_map_congr obsSynRel id (fun r => (r.name, r.lexicon, r.md, r.source, r.target.rowid))]
  · congr 1
    rw [List.map_filterMap]
    rw [← filterMap_ite_some]
    apply Forall2.filterMap_eq _ _ _ hF
    intro p row hrel
    obtain ⟨tr, hfind, htrY, hEq⟩ := relF_new db' t.ctx types htypes sid x0 p.1 p.2 row hnY' hnT' hx0' hrel
    rw [hclex] at hEq
    rw [hEq]
    have htid : tr.id = p.2.target := by
      have := List.find?_some hfind
      simp only [Bool.and_eq_true, beq_iff_eq] at this
      exact this.1
    by_cases hc : (p.1.id == sid && t.ctx.lid p.2.target == t.lexid) = true
    · simp only [hc, if_true, Option.map_some]
      simp [obsSynRel, docRel, synsetData, htid]
    · have : (p.1.id == sid && t.ctx.lid p.2.target == t.lexid) = false := by simpa using hc
      simp [this]
  · intro a ha b hb
    obtain ⟨pa, ta, hfa, hta, rfl⟩ := hchar a ha
    obtain ⟨pb, tb, hfb, htb, rfl⟩ := hchar b hb
    have hia : ta.id = pa.2.target := by
      have := List.find?_some hfa
      simp only [Bool.and_eq_true, beq_iff_eq] at this
      exact this.1
    have hib : tb.id = pb.2.target := by
      have := List.find?_some hfb
      simp only [Bool.and_eq_true, beq_iff_eq] at this
      exact this.1
    simp only [id, obsSynRel, synsetData, Prod.mk.injEq]
    constructor
    · rintro ⟨h1, h2, h3⟩
      rw [hia, hib] at h2
      rw [h2] at hfa
      rw [hfa] at hfb
      have := Option.some.inj hfb
      subst this
      exact ⟨h1, trivial, h3, trivial, rfl⟩
    · rintro ⟨h1, _, h3, _, h5⟩
      have := mem_eq_of_rowid _ hnY' ta hta tb htb h5
      subst this
      exact ⟨h1, rfl, h3⟩

/-- the same for a plain (non-extension) lexicon, stated without the trace: every id is resolved in
the new lexicon, so all `<SynsetRelation>`s listed under the id are reported -/
theorem C01_synset_relations_plain (norm : String → String) (dr : Nat) (db db' : Db) (l : Lexicon)
    (h : addLexicon norm dr db l = .ok db') (hplain : l.ext = none)
    (hfkR : ∀ o ∈ db.synrels, o.lex ∈ db.lexicons.map (·.rowid))
    (hnY : (db.synsets.map (·.rowid)).Nodup) (hnT : (db.reltypes.map (·.1)).Nodup)
    (sid : String) (x0 : Nat) (hx0 : synsetRow db' sid (nextId (db.lexicons.map (·.rowid))) = some x0) :
    (synsetRelations db' [x0] [] [nextId (db.lexicons.map (·.rowid))]).map obsSynRel =
      dedupBy id (((synRelPairs l).filter (fun p => p.1.id == sid)).map (fun p => docRel p.2)) := by
  obtain ⟨t⟩ := addLexicon_split norm dr db db' l h
  obtain ⟨_, _, hlexid, hext⟩ := insertLexicon_frame _ _ _ _ _ t.hlex
  have hlexid : t.lexid = nextId (db.lexicons.map (·.rowid)) := hlexid
  have hlid : ∀ i, t.ctx.lid i = t.lexid := by
    intro i
    unfold Ctx.lid AddTrace.ctx
    simp [hext hplain]
  have := C01_synset_relations_end_to_end t hfkR hnY hnT [] rfl sid x0 (by rw [hlid, hlexid]; exact hx0)
  rw [hlexid] at this
  rw [this]
  congr 2
  apply List.filter_congr
  intro p _
  rw [hlid, hlexid]
  simp

/-! non-vacuity: a lexicon with a repeated relation, a self-loop and two relation types; the add
succeeds on the empty store and the theorem's right-hand side is what the model's query returns -/
def relLex : Lexicon :=
  { id := "r", version := "1", label := "R", language := "en", email := "e", license := "l",
    synsets := [{ id := "a", pos := some "n", relations := [{ target := "b", relType := "hypernym" }, { target := "a", relType := "similar" },
                                                            { target := "b", relType := "hypernym" }, { target := "c", relType := "hypernym" }] },
                { id := "b", pos := some "n", relations := [{ target := "a", relType := "hyponym" }] },
                { id := "c", pos := some "n" }] }

example : (match addLexicon (fun s => s) 127 Db.empty relLex with
    | .ok db' => (synsetRow db' "a" 1, ((synsetRelations db' [1] [] [1]).map obsSynRel).map (fun o => (o.1, o.2.1)))
    | .error _ => (none, [])) =
    (some 1, [("hypernym", "b"), ("similar", "a"), ("hypernym", "c")]) := by decide +kernel

/-! ### end to end: `Sense.relations()` after `add` = the document's sense→sense `<SenseRelation>`s -/

/-- the row function of `get_sense_relations` -/
def srelF (db : Db) (source : Nat) (types : List String) (lexids : List Nat) (r : RRel) : Option (RelData SenseData) :=
  if r.source == source && inLex lexids r.lex then
    match typeOk db types r.type, db.senses.find? (fun x => x.rowid == r.target) with
    | some n, some tgt => if inLex lexids tgt.lex then
        (senseData db tgt).map (fun d => ({ name := n, lexicon := lexSpec db r.lex, md := r.md, source := r.source, target := d } : RelData SenseData))
      else none
    | _, _ => none
  else none

theorem senseRelations_eq (db : Db) (source : Nat) (types : List String) (lexids : List Nat) :
    senseRelations db source types lexids =
      dedupBy (fun r => (r.name, r.lexicon, r.md, r.target.rowid)) (db.senserels.filterMap (srelF db source types lexids)) := rfl

theorem senseRowS'_some (S : List RSense) (id : String) (lex x : Nat) (h : senseRowS' S id lex = some x) :
    ∃ r, S.find? (fun r => r.id == id && r.lex == lex) = some r ∧ r ∈ S ∧ r.id = id ∧ r.lex = lex ∧ r.rowid = x := by
  unfold senseRowS' at h
  cases hf : S.find? (fun r => r.id == id && r.lex == lex) with
  | none => simp [hf] at h
  | some r =>
    simp only [hf, Option.map_some, Option.some.injEq] at h
    have hp := List.find?_some hf
    simp only [Bool.and_eq_true, beq_iff_eq] at hp
    exact ⟨r, rfl, List.mem_of_find?_eq_some hf, hp.1, hp.2, h⟩

/-- what `get_sense_relations` makes of a freshly written row -/
theorem srelF_new (db' : Db) (c : Ctx) (types : List String) (htypes : (types.isEmpty || types.contains "*") = true)
    (sid : String) (x0 : Nat) (p : String × Relation) (row : RRel)
    (hnS : (db'.senses.map (·.rowid)).Nodup) (hnT : (db'.reltypes.map (·.1)).Nodup)
    (hsd : ∀ tr ∈ db'.senses, tr.lex = c.lexid → ∃ d, senseData db' tr = some d ∧ d.id = tr.id ∧ d.rowid = tr.rowid)
    (hx0 : senseRowS' db'.senses sid (c.lid sid) = some x0)
    (hrel : SenseRelRowOf c (db'.senses, db'.reltypes) p row) :
    ∃ tr, db'.senses.find? (fun y => y.id == p.2.target && y.lex == c.lid p.2.target) = some tr ∧ tr ∈ db'.senses ∧
      (c.lid p.2.target = c.lexid → ∃ d, senseData db' tr = some d ∧ d.id = tr.id ∧ d.rowid = tr.rowid ∧
        srelF db' x0 types [c.lexid] row = if (p.1 == sid) then some ⟨p.2.relType, lexSpec db' c.lexid, p.2.md, x0, d⟩ else none) ∧
      (c.lid p.2.target ≠ c.lexid → srelF db' x0 types [c.lexid] row = none) := by
  obtain ⟨hlex, hsrc, htgt, hty, hmd⟩ := hrel
  simp only at hsrc htgt hty
  obtain ⟨tr, hfind, htrS, htrid, htrlex, htrrow⟩ := senseRowS'_some _ _ _ _ htgt
  obtain ⟨sr, _, hsrS, hsrid, hsrlex, hsrrow⟩ := senseRowS'_some _ _ _ _ hsrc
  obtain ⟨s0, _, hs0S, hs0id, hs0lex, hs0row⟩ := senseRowS'_some _ _ _ _ hx0
  refine ⟨tr, hfind, htrS, ?_, ?_⟩
  all_goals
    have hname : typeOk db' types row.type = some p.2.relType := by
      unfold typeOk
      rw [lookupName_of_lookupId _ hnT _ _ hty]
      simp only
      rw [if_pos (by rw [Bool.or_eq_true]; exact Or.inl htypes)]
    have hft : db'.senses.find? (fun x => x.rowid == row.target) = some tr := by
      rw [← htrrow]; exact find_by_key (·.rowid) _ hnS tr htrS
    have hsource : (row.source == x0) = (p.1 == sid) := by
      by_cases e : p.1 = sid
      · have : row.source = x0 := by
          rw [e] at hsrc; rw [hsrc] at hx0; exact Option.some.inj hx0
        simp [e, this]
      · have : row.source ≠ x0 := by
          intro q
          have := mem_eq_of_key (·.rowid) _ hnS sr hsrS s0 hs0S (by rw [hsrrow, hs0row, q])
          exact e (by rw [← hsrid, this, hs0id])
        have q1 : (p.1 == sid) = false := by simpa using e
        rw [q1]
        simpa using this
  · intro hl
    obtain ⟨d, hd, hdi, hdr⟩ := hsd tr htrS (by rw [htrlex, hl])
    refine ⟨d, hd, hdi, hdr, ?_⟩
    have hsx : p.1 = sid → row.source = x0 := by
      intro e
      rw [e] at hsrc; rw [hsrc] at hx0; exact Option.some.inj hx0
    unfold srelF
    rw [hsource, hname, hft]
    simp only [hlex, inLex, List.contains_cons, List.contains_nil, Bool.or_false, beq_self_eq_true, Bool.and_true, htrlex, hmd, hl, hd]
    by_cases e1 : p.1 = sid
    · simp [e1, hsx e1]
    · simp [e1]
  · intro hl
    unfold srelF
    rw [hname, hft]
    have : (c.lid p.2.target == c.lexid) = false := by simpa using hl
    simp only [inLex, htrlex, List.contains_cons, List.contains_nil, Bool.or_false, this]
    split <;> simp

def obsSenseRel (r : RelData SenseData) : String × String × Option Meta := (r.name, r.target.id, r.md)

/-- **C01, sense relations, end to end**: after a successful `add` of any lexicon, the sense→sense
relations that `get_sense_relations` reports, inside the new lexicon, for the sense with id `sid`
are exactly the `<SenseRelation>` elements the document lists under that sense id whose target is a
sense resolved in the new lexicon — in document order, with type, target id and metadata unaltered,
exact duplicates once. -/
theorem C01_sense_relations_end_to_end {norm : String → String} {dr : Nat} {db db' : Db} {l : Lexicon}
    (t : AddTrace norm dr db db' l)
    (hfkR : ∀ o ∈ db.senserels, o.lex ∈ db.lexicons.map (·.rowid))
    (hfkS : ∀ o ∈ db.senses, o.lex ∈ db.lexicons.map (·.rowid))
    (hnS : (db.senses.map (·.rowid)).Nodup) (hnE : (db.entries.map (·.rowid)).Nodup)
    (hnY : (db.synsets.map (·.rowid)).Nodup) (hnT : (db.reltypes.map (·.1)).Nodup)
    (types : List String) (htypes : (types.isEmpty || types.contains "*") = true)
    (sid : String) (x0 : Nat) (hx0 : senseRow db' sid (t.ctx.lid sid) = some x0) :
    (senseRelations db' x0 types [t.lexid]).map obsSenseRel =
      dedupBy id (((senseRelPairs l).filter (fun p => p.1 == sid && t.ctx.lid p.2.target == t.lexid)).map (fun p => docRel p.2)) := by
  obtain ⟨hT, rows, hrows, hF⟩ := addLexicon_senserel_table t
  obtain ⟨hE, hY, srows, hsrows, hSF, hnodS⟩ := addLexicon_sense_table t
  have k1 := insertLexicon_keeps_rels _ _ _ _ _ t.hlex
  obtain ⟨g1, g2, g3⟩ := insertLexicon_frame2 _ _ _ _ _ t.hlex
  have hlexid : t.lexid = nextId (db.lexicons.map (·.rowid)) := (insertLexicon_frame _ _ _ _ _ t.hlex).2.2.1
  have hnY' : (db'.synsets.map (·.rowid)).Nodup := by
    rw [hY]
    apply insertSynsets_nodupY _ _ _ _ t.hsyn
    rw [g2]; exact hnY
  have hnE' : (db'.entries.map (·.rowid)).Nodup := by
    rw [hE]
    apply insertEntries_nodupE _ _ _ _ t.hent
    rw [(keepsF_insertSynsets l _ _ _ t.hsyn).1, g3]; exact hnE
  have hnS' : (db'.senses.map (·.rowid)).Nodup := hnodS hnS
  have hnT' : (db'.reltypes.map (·.1)).Nodup := by rw [hT]; exact updateLookups_reltypes_nodup db l hnT
  have hx0' : senseRowS' db'.senses sid (t.ctx.lid sid) = some x0 := hx0
  have hclex : t.ctx.lexid = t.lexid := rfl
  have hfresh : ∀ o ∈ db.senses, o.lex ≠ t.lexid := by
    intro o ho e
    have := hfkS o ho
    rw [e, hlexid] at this
    exact nextId_not_mem _ this
  -- senses of the new lexicon decode
  have hsd : ∀ tr ∈ db'.senses, tr.lex = t.ctx.lexid → ∃ d, senseData db' tr = some d ∧ d.id = tr.id ∧ d.rowid = tr.rowid := by
    intro tr htr hl
    rw [hsrows] at htr
    rcases List.mem_append.mp htr with ho | hn
    · exact absurd hl (hfresh tr ho)
    · obtain ⟨p, _, hp⟩ := Forall2.exists_of_mem_right hSF tr hn
      obtain ⟨_, _, _, he, hy⟩ := hp
      exact ⟨_, senseData_resolve db' tr p.1.id p.2.1.synset _ _ he hy hnE' hnY', rfl, rfl⟩
  -- rows of other lexicons are not read
  have hold : db.senserels.filterMap (srelF db' x0 types [t.lexid]) = [] := by
    rw [List.filterMap_eq_nil_iff]
    intro o ho
    have hne : o.lex ≠ t.lexid := by
      intro e
      have := hfkR o ho
      rw [e, hlexid] at this
      exact nextId_not_mem _ this
    unfold srelF
    have : inLex [t.lexid] o.lex = false := by
      simp only [inLex, List.contains_cons, List.contains_nil, Bool.or_false]
      simpa using hne
    simp [this]
  have hchar : ∀ a ∈ rows.filterMap (srelF db' x0 types [t.lexid]), ∃ (p : String × Relation) (tr : RSense) (d : SenseData),
      db'.senses.find? (fun y => y.id == p.2.target && y.lex == t.lexid) = some tr ∧ tr ∈ db'.senses ∧
      d.id = tr.id ∧ d.rowid = tr.rowid ∧ a = ⟨p.2.relType, lexSpec db' t.lexid, p.2.md, x0, d⟩ := by
    intro a ha
    obtain ⟨row, hrow, hFa⟩ := List.mem_filterMap.mp ha
    obtain ⟨p, _, hrel⟩ := Forall2.exists_of_mem_right hF row hrow
    obtain ⟨tr, hfind, htrS, hyes, hno⟩ := srelF_new db' t.ctx types htypes sid x0 p row hnS' hnT' hsd hx0' hrel
    by_cases hl : t.ctx.lid p.2.target = t.ctx.lexid
    · obtain ⟨d, _, hdi, hdr, hEq⟩ := hyes hl
      rw [hclex] at hEq
      rw [hEq] at hFa
      split at hFa
      · rw [hl, hclex] at hfind
        exact ⟨p, tr, d, hfind, htrS, hdi, hdr, (Option.some.inj hFa).symm⟩
      · simp at hFa
    · have := hno hl
      rw [hclex] at this
      rw [this] at hFa
      simp at hFa
  rw [senseRelations_eq, hrows, List.filterMap_append, hold, List.nil_append]
  rw [← dedupBy_map_congr obsSenseRel id (fun r => (r.name, r.lexicon, r.md, r.target.rowid))]
  · congr 1
    rw [List.map_filterMap]
    rw [← filterMap_ite_some]
    apply Forall2.filterMap_eq _ _ _ hF
    intro p row hrel
    obtain ⟨tr, hfind, htrS, hyes, hno⟩ := srelF_new db' t.ctx types htypes sid x0 p row hnS' hnT' hsd hx0' hrel
    have htid : tr.id = p.2.target := by
      have := List.find?_some hfind
      simp only [Bool.and_eq_true, beq_iff_eq] at this
      exact this.1
    by_cases hl : t.ctx.lid p.2.target = t.ctx.lexid
    · obtain ⟨d, _, hdi, _, hEq⟩ := hyes hl
      rw [hclex] at hEq hl
      rw [hEq]
      by_cases hc : p.1 = sid
      · simp [hc, hl, obsSenseRel, docRel, hdi, htid]
      · simp [hc]
    · have := hno hl
      rw [hclex] at this hl
      rw [this]
      simp [hl]
  · intro a ha b hb
    obtain ⟨pa, ta, da, hfa, hta, hdia, hdra, rfl⟩ := hchar a ha
    obtain ⟨pb, tb, db2, hfb, htb, hdib, hdrb, rfl⟩ := hchar b hb
    have hia : ta.id = pa.2.target := by
      have := List.find?_some hfa
      simp only [Bool.and_eq_true, beq_iff_eq] at this
      exact this.1
    have hib : tb.id = pb.2.target := by
      have := List.find?_some hfb
      simp only [Bool.and_eq_true, beq_iff_eq] at this
      exact this.1
    simp only [id, obsSenseRel, Prod.mk.injEq]
    constructor
    · rintro ⟨h1, h2, h3⟩
      rw [hdia, hdib, hia, hib] at h2
      rw [h2] at hfa
      rw [hfa] at hfb
      have := Option.some.inj hfb
      subst this
      exact ⟨h1, trivial, h3, by rw [hdra, hdrb]⟩
    · rintro ⟨h1, _, h3, h5⟩
      rw [hdra, hdrb] at h5
      have := mem_eq_of_key (·.rowid) _ hnS' ta hta tb htb h5
      subst this
      exact ⟨h1, by rw [hdia, hdib], h3⟩

example : (match addLexicon (fun s => s) 127 Db.empty
      { id := "r", version := "1", label := "R", language := "en", email := "e", license := "l",
        entries := [{ id := "e1", lemma := some { form := "hot", pos := "a" },
                      senses := [{ id := "s1", synset := "y1", relations := [{ target := "s2", relType := "antonym" },
                                   { target := "s2", relType := "antonym" }, { target := "y1", relType := "domain_topic" }] }] },
                    { id := "e2", lemma := some { form := "cold", pos := "a" },
                      senses := [{ id := "s2", synset := "y1", relations := [{ target := "s1", relType := "antonym" }] }] }],
        synsets := [{ id := "y1", pos := some "a" }] } with
    | .ok db' => (senseRow db' "s1" 1, ((senseRelations db' 1 [] [1]).map obsSenseRel).map (fun o => (o.1, o.2.1)))
    | .error _ => (none, [])) = (some 1, [("antonym", "s2")]) := by decide +kernel

/-! ### end to end: `Sense.get_related_synsets()` after `add` = the document's sense→synset relations -/

/-- the row function of `get_sense_synset_relations` -/
def ssrelF (db : Db) (source : Nat) (types : List String) (lexids : List Nat) (r : RRel) : Option (RelData SynsetData) :=
  if r.source == source && inLex lexids r.lex then
    match typeOk db types r.type, db.synsets.find? (fun x => x.rowid == r.target) with
    | some n, some tgt => if inLex lexids tgt.lex then
        some ({ name := n, lexicon := lexSpec db r.lex, md := r.md, source := r.source, target := synsetData db tgt } : RelData SynsetData)
      else none
    | _, _ => none
  else none

theorem senseSynsetRelations_eq (db : Db) (source : Nat) (types : List String) (lexids : List Nat) :
    senseSynsetRelations db source types lexids =
      dedupBy (fun r => (r.name, r.lexicon, r.md, r.source, r.target.rowid)) (db.sensesynrels.filterMap (ssrelF db source types lexids)) := rfl

theorem ssrelF_new (db' : Db) (c : Ctx) (types : List String) (htypes : (types.isEmpty || types.contains "*") = true)
    (sid : String) (x0 : Nat) (p : String × Relation) (row : RRel)
    (hnS : (db'.senses.map (·.rowid)).Nodup) (hnY : (db'.synsets.map (·.rowid)).Nodup) (hnT : (db'.reltypes.map (·.1)).Nodup)
    (hx0 : senseRowS' db'.senses sid (c.lid sid) = some x0)
    (hrel : SenseSynRelRowOf c (db'.senses, db'.synsets, db'.reltypes) p row) :
    ∃ tr, db'.synsets.find? (fun y => y.id == p.2.target && y.lex == c.lid p.2.target) = some tr ∧ tr ∈ db'.synsets ∧
      ssrelF db' x0 types [c.lexid] row =
        if (p.1 == sid && c.lid p.2.target == c.lexid) then
          some ⟨p.2.relType, lexSpec db' c.lexid, p.2.md, x0, synsetData db' tr⟩ else none := by
  obtain ⟨hlex, hsrc, htgt, hty, hmd⟩ := hrel
  simp only at hsrc htgt hty
  obtain ⟨tr, hfind, htrY, htrid, htrlex, htrrow⟩ := synsetRowY'_some _ _ _ _ htgt
  obtain ⟨sr, _, hsrS, hsrid, hsrlex, hsrrow⟩ := senseRowS'_some _ _ _ _ hsrc
  obtain ⟨s0, _, hs0S, hs0id, hs0lex, hs0row⟩ := senseRowS'_some _ _ _ _ hx0
  refine ⟨tr, hfind, htrY, ?_⟩
  have hname : typeOk db' types row.type = some p.2.relType := by
    unfold typeOk
    rw [lookupName_of_lookupId _ hnT _ _ hty]
    simp only
    rw [if_pos (by rw [Bool.or_eq_true]; exact Or.inl htypes)]
  have hft : db'.synsets.find? (fun x => x.rowid == row.target) = some tr := by
    rw [← htrrow]; exact find_by_rowid_Y _ hnY tr htrY
  have hsource : (row.source == x0) = (p.1 == sid) := by
    by_cases e : p.1 = sid
    · have : row.source = x0 := by
        rw [e] at hsrc; rw [hsrc] at hx0; exact Option.some.inj hx0
      simp [e, this]
    · have : row.source ≠ x0 := by
        intro q
        have := mem_eq_of_key (·.rowid) _ hnS sr hsrS s0 hs0S (by rw [hsrrow, hs0row, q])
        exact e (by rw [← hsrid, this, hs0id])
      have q1 : (p.1 == sid) = false := by simpa using e
      rw [q1]
      simpa using this
  have hsx : p.1 = sid → row.source = x0 := by
    intro e
    rw [e] at hsrc; rw [hsrc] at hx0; exact Option.some.inj hx0
  unfold ssrelF
  rw [hsource, hname, hft]
  simp only [hlex, inLex, List.contains_cons, List.contains_nil, Bool.or_false, beq_self_eq_true, Bool.and_true, htrlex, hmd]
  by_cases e1 : p.1 = sid
  · by_cases e2 : c.lid p.2.target = c.lexid
    · simp [e1, e2, hsx e1]
    · simp [e1, e2]
  · simp [e1]

/-- **C01, sense→synset relations, end to end** -/
theorem C01_sense_synset_relations_end_to_end {norm : String → String} {dr : Nat} {db db' : Db} {l : Lexicon}
    (t : AddTrace norm dr db db' l)
    (hfkR : ∀ o ∈ db.sensesynrels, o.lex ∈ db.lexicons.map (·.rowid))
    (hnS : (db.senses.map (·.rowid)).Nodup)
    (hnY : (db.synsets.map (·.rowid)).Nodup) (hnT : (db.reltypes.map (·.1)).Nodup)
    (types : List String) (htypes : (types.isEmpty || types.contains "*") = true)
    (sid : String) (x0 : Nat) (hx0 : senseRow db' sid (t.ctx.lid sid) = some x0) :
    (senseSynsetRelations db' x0 types [t.lexid]).map obsSynRel =
      dedupBy id (((senseSynRelPairs l).filter (fun p => p.1 == sid && t.ctx.lid p.2.target == t.lexid)).map (fun p => docRel p.2)) := by
  obtain ⟨hT, rows, hrows, hF⟩ := addLexicon_sensesynrel_table t
  obtain ⟨_, hY, _, _, _, hnodS⟩ := addLexicon_sense_table t
  obtain ⟨_, g2, _⟩ := insertLexicon_frame2 _ _ _ _ _ t.hlex
  have hlexid : t.lexid = nextId (db.lexicons.map (·.rowid)) := (insertLexicon_frame _ _ _ _ _ t.hlex).2.2.1
  have hnY' : (db'.synsets.map (·.rowid)).Nodup := by
    rw [hY]
    apply insertSynsets_nodupY _ _ _ _ t.hsyn
    rw [g2]; exact hnY
  have hnS' : (db'.senses.map (·.rowid)).Nodup := hnodS hnS
  have hnT' : (db'.reltypes.map (·.1)).Nodup := by rw [hT]; exact updateLookups_reltypes_nodup db l hnT
  have hx0' : senseRowS' db'.senses sid (t.ctx.lid sid) = some x0 := hx0
  have hclex : t.ctx.lexid = t.lexid := rfl
  have hold : db.sensesynrels.filterMap (ssrelF db' x0 types [t.lexid]) = [] := by
    rw [List.filterMap_eq_nil_iff]
    intro o ho
    have hne : o.lex ≠ t.lexid := by
      intro e
      have := hfkR o ho
      rw [e, hlexid] at this
      exact nextId_not_mem _ this
    unfold ssrelF
    have : inLex [t.lexid] o.lex = false := by
      simp only [inLex, List.contains_cons, List.contains_nil, Bool.or_false]
      simpa using hne
    simp [this]
  have hchar : ∀ a ∈ rows.filterMap (ssrelF db' x0 types [t.lexid]), ∃ (p : String × Relation) (tr : RSynset),
      db'.synsets.find? (fun y => y.id == p.2.target && y.lex == t.lexid) = some tr ∧ tr ∈ db'.synsets ∧
      a = ⟨p.2.relType, lexSpec db' t.lexid, p.2.md, x0, synsetData db' tr⟩ := by
    intro a ha
    obtain ⟨row, hrow, hFa⟩ := List.mem_filterMap.mp ha
    obtain ⟨p, _, hrel⟩ := Forall2.exists_of_mem_right hF row hrow
    obtain ⟨tr, hfind, htrY, hEq⟩ := ssrelF_new db' t.ctx types htypes sid x0 p row hnS' hnY' hnT' hx0' hrel
    rw [hclex] at hEq
    rw [hEq] at hFa
    split at hFa
    · rename_i hc
      simp only [Bool.and_eq_true, beq_iff_eq] at hc
      rw [hc.2] at hfind
      exact ⟨p, tr, hfind, htrY, (Option.some.inj hFa).symm⟩
    · simp at hFa
  rw [senseSynsetRelations_eq, hrows, List.filterMap_append, hold, List.nil_append]
  rw [← dedupBy_map_congr obsSynRel id (fun r => (r.name, r.lexicon, r.md, r.source, r.target.rowid))]
  · congr 1
    rw [List.map_filterMap]
    rw [← filterMap_ite_some]
    apply Forall2.filterMap_eq _ _ _ hF
    intro p row hrel
    obtain ⟨tr, hfind, htrY, hEq⟩ := ssrelF_new db' t.ctx types htypes sid x0 p row hnS' hnY' hnT' hx0' hrel
    rw [hclex] at hEq
    rw [hEq]
    have htid : tr.id = p.2.target := by
      have := List.find?_some hfind
      simp only [Bool.and_eq_true, beq_iff_eq] at this
      exact this.1
    by_cases hc : (p.1 == sid && t.ctx.lid p.2.target == t.lexid) = true
    · simp only [hc, if_true, Option.map_some]
      simp [obsSynRel, docRel, synsetData, htid]
    · have : (p.1 == sid && t.ctx.lid p.2.target == t.lexid) = false := by simpa using hc
      simp [this]
  · intro a ha b hb
    obtain ⟨pa, ta, hfa, hta, rfl⟩ := hchar a ha
    obtain ⟨pb, tb, hfb, htb, rfl⟩ := hchar b hb
    have hia : ta.id = pa.2.target := by
      have := List.find?_some hfa
      simp only [Bool.and_eq_true, beq_iff_eq] at this
      exact this.1
    have hib : tb.id = pb.2.target := by
      have := List.find?_some hfb
      simp only [Bool.and_eq_true, beq_iff_eq] at this
      exact this.1
    simp only [id, obsSynRel, synsetData, Prod.mk.injEq]
    constructor
    · rintro ⟨h1, h2, h3⟩
      rw [hia, hib] at h2
      rw [h2] at hfa
      rw [hfa] at hfb
      have := Option.some.inj hfb
      subst this
      exact ⟨h1, trivial, h3, trivial, rfl⟩
    · rintro ⟨h1, _, h3, _, h5⟩
      have := mem_eq_of_rowid _ hnY' ta hta tb htb h5
      subst this
      exact ⟨h1, rfl, h3⟩

/-! ### end to end: definitions and examples after `add` = the document's -/

theorem filter_owned_append {ρ} (old rows : List ρ) (owner lex : ρ → Nat) (x0 lexid : Nat)
    (hold : ∀ o ∈ old, lex o ≠ lexid) (hnew : ∀ r ∈ rows, lex r = lexid) :
    (old ++ rows).filter (fun r => owner r == x0 && inLex [lexid] (lex r)) = rows.filter (fun r => owner r == x0) := by
  rw [List.filter_append]
  have e1 : old.filter (fun r => owner r == x0 && inLex [lexid] (lex r)) = [] := by
    rw [List.filter_eq_nil_iff]
    intro o ho
    have := hold o ho
    simp [inLex, this]
  rw [e1, List.nil_append]
  apply List.filter_congr
  intro r hr
  simp [inLex, hnew r hr]

theorem Forall2.forall_right {α β} {R : α → β → Prop} {P : β → Prop} (h : ∀ a b, R a b → P b) :
    ∀ {l : List α} {l' : List β}, Forall2 R l l' → ∀ b ∈ l', P b := by
  intro l l' hh b hb
  obtain ⟨a, _, hr⟩ := Forall2.exists_of_mem_right hh b hb
  exact h a b hr

/-- **C01, definitions, end to end**: the definitions `get_definitions` reports, inside the new
lexicon, for the synset with id `sid` are exactly the `<Definition>`s the document lists under that
id, in order, with text and language unaltered. -/
theorem C01_definitions_end_to_end {norm : String → String} {dr : Nat} {db db' : Db} {l : Lexicon}
    (t : AddTrace norm dr db db' l)
    (hfk : ∀ o ∈ db.defs, o.lex ∈ db.lexicons.map (·.rowid)) (hnY : (db.synsets.map (·.rowid)).Nodup)
    (sid : String) (x0 : Nat) (hx0 : synsetRow db' sid (t.ctx.lid sid) = some x0) :
    (definitions db' x0 [t.lexid]).map (fun d => (d.1, d.2.1)) =
      ((defPairs l).filter (fun p => p.1.id == sid)).map (fun p => (p.2.text, p.2.language)) := by
  obtain ⟨⟨rows, hrows, hF⟩, _, _⟩ := addLexicon_defs_tables t
  obtain ⟨_, hY, _⟩ := addLexicon_synrel_table t
  obtain ⟨_, g2, _⟩ := insertLexicon_frame2 _ _ _ _ _ t.hlex
  have hlexid : t.lexid = nextId (db.lexicons.map (·.rowid)) := (insertLexicon_frame _ _ _ _ _ t.hlex).2.2.1
  have hnY' : (db'.synsets.map (·.rowid)).Nodup := by
    rw [hY]
    apply insertSynsets_nodupY _ _ _ _ t.hsyn
    rw [g2]; exact hnY
  unfold definitions
  rw [List.map_map, hrows]
  rw [filter_owned_append db.defs rows (·.synset) (·.lex) x0 t.lexid
    (fun o ho e => by have := hfk o ho; rw [e, hlexid] at this; exact nextId_not_mem _ this)
    (Forall2.forall_right (fun _ _ hr => hr.1) hF)]
  show List.map (fun d : RDef => (d.text, d.language)) _ = _
  exact owned_rows_filter (fun i => synsetRowY' db'.synsets i (t.ctx.lid i)) (synsetRowY'_inj _ hnY' _)
    (·.synset) (fun (p : Synset × Definition) => p.1.id) (fun d : RDef => (d.text, d.language)) (fun p => (p.2.text, p.2.language))
    (Forall2.imp (fun p r hr => ⟨hr.2.1, by rw [hr.2.2.1, hr.2.2.2.1]⟩) hF) sid x0 hx0

/-- **C01, synset examples, end to end** -/
theorem C01_synset_examples_end_to_end {norm : String → String} {dr : Nat} {db db' : Db} {l : Lexicon}
    (t : AddTrace norm dr db db' l)
    (hfk : ∀ o ∈ db.synexs, o.lex ∈ db.lexicons.map (·.rowid)) (hnY : (db.synsets.map (·.rowid)).Nodup)
    (sid : String) (x0 : Nat) (hx0 : synsetRow db' sid (t.ctx.lid sid) = some x0) :
    (synsetExamples db' x0 [t.lexid]).map (fun x => (x.text, x.language, x.md)) =
      ((synExPairs l).filter (fun p => p.1.id == sid)).map (fun p => (p.2.text, p.2.language, p.2.md)) := by
  obtain ⟨_, ⟨rows, hrows, hF⟩, _⟩ := addLexicon_defs_tables t
  obtain ⟨_, hY, _⟩ := addLexicon_synrel_table t
  obtain ⟨_, g2, _⟩ := insertLexicon_frame2 _ _ _ _ _ t.hlex
  have hlexid : t.lexid = nextId (db.lexicons.map (·.rowid)) := (insertLexicon_frame _ _ _ _ _ t.hlex).2.2.1
  have hnY' : (db'.synsets.map (·.rowid)).Nodup := by
    rw [hY]
    apply insertSynsets_nodupY _ _ _ _ t.hsyn
    rw [g2]; exact hnY
  unfold synsetExamples
  rw [hrows]
  rw [filter_owned_append db.synexs rows (·.owner) (·.lex) x0 t.lexid
    (fun o ho e => by have := hfk o ho; rw [e, hlexid] at this; exact nextId_not_mem _ this)
    (Forall2.forall_right (fun _ _ hr => hr.1) hF)]
  exact owned_rows_filter (fun i => synsetRowY' db'.synsets i (t.ctx.lid i)) (synsetRowY'_inj _ hnY' _)
    (·.owner) (fun (p : Synset × Example) => p.1.id) (fun x : RExample => (x.text, x.language, x.md)) (fun p => (p.2.text, p.2.language, p.2.md))
    (Forall2.imp (fun p r hr => ⟨hr.2.1, by rw [hr.2.2.1, hr.2.2.2.1, hr.2.2.2.2]⟩) hF) sid x0 hx0

/-- **C01, sense examples, end to end** -/
theorem C01_sense_examples_end_to_end {norm : String → String} {dr : Nat} {db db' : Db} {l : Lexicon}
    (t : AddTrace norm dr db db' l)
    (hfk : ∀ o ∈ db.sensexs, o.lex ∈ db.lexicons.map (·.rowid)) (hnS : (db.senses.map (·.rowid)).Nodup)
    (sid : String) (x0 : Nat) (hx0 : senseRow db' sid (t.ctx.lid sid) = some x0) :
    (senseExamples db' x0 [t.lexid]).map (fun x => (x.text, x.language, x.md)) =
      ((senseExPairs l).filter (fun p => p.1.id == sid)).map (fun p => (p.2.text, p.2.language, p.2.md)) := by
  obtain ⟨_, _, ⟨rows, hrows, hF⟩⟩ := addLexicon_defs_tables t
  obtain ⟨_, _, _, _, _, hnodS⟩ := addLexicon_sense_table t
  have hlexid : t.lexid = nextId (db.lexicons.map (·.rowid)) := (insertLexicon_frame _ _ _ _ _ t.hlex).2.2.1
  have hnS' : (db'.senses.map (·.rowid)).Nodup := hnodS hnS
  unfold senseExamples
  rw [hrows]
  rw [filter_owned_append db.sensexs rows (·.owner) (·.lex) x0 t.lexid
    (fun o ho e => by have := hfk o ho; rw [e, hlexid] at this; exact nextId_not_mem _ this)
    (Forall2.forall_right (fun _ _ hr => hr.1) hF)]
  exact owned_rows_filter (fun i => senseRowS' db'.senses i (t.ctx.lid i)) (senseRowS'_inj _ hnS' _)
    (·.owner) (fun (p : Sense × Example) => p.1.id) (fun x : RExample => (x.text, x.language, x.md)) (fun p => (p.2.text, p.2.language, p.2.md))
    (Forall2.imp (fun p r hr => ⟨hr.2.1, by rw [hr.2.2.1, hr.2.2.2.1, hr.2.2.2.2]⟩) hF) sid x0 hx0

/-- **C01, counts, end to end** -/
theorem C01_counts_end_to_end {norm : String → String} {dr : Nat} {db db' : Db} {l : Lexicon}
    (t : AddTrace norm dr db db' l)
    (hfk : ∀ o ∈ db.counts, o.lex ∈ db.lexicons.map (·.rowid)) (hnS : (db.senses.map (·.rowid)).Nodup)
    (sid : String) (x0 : Nat) (hx0 : senseRow db' sid (t.ctx.lid sid) = some x0) :
    (senseCounts db' x0 [t.lexid]).map (fun x => (x.value, x.md)) =
      ((countPairs l).filter (fun p => p.1.id == sid)).map (fun p => (p.2.value, p.2.md)) := by
  obtain ⟨rows, hrows, hF⟩ := addLexicon_counts_table t
  obtain ⟨_, _, _, _, _, hnodS⟩ := addLexicon_sense_table t
  have hlexid : t.lexid = nextId (db.lexicons.map (·.rowid)) := (insertLexicon_frame _ _ _ _ _ t.hlex).2.2.1
  have hnS' : (db'.senses.map (·.rowid)).Nodup := hnodS hnS
  unfold senseCounts
  rw [hrows]
  rw [filter_owned_append db.counts rows (·.sense) (·.lex) x0 t.lexid
    (fun o ho e => by have := hfk o ho; rw [e, hlexid] at this; exact nextId_not_mem _ this)
    (Forall2.forall_right (fun _ _ hr => hr.1) hF)]
  exact owned_rows_filter (fun i => senseRowS' db'.senses i (t.ctx.lid i)) (senseRowS'_inj _ hnS' _)
    (·.sense) (fun (p : Sense × Count) => p.1.id) (fun x : RCount => (x.value, x.md)) (fun p => (p.2.value, p.2.md))
    (Forall2.imp (fun p r hr => ⟨hr.2.1, by rw [hr.2.2.1, hr.2.2.2]⟩) hF) sid x0 hx0

/-! ### end to end: `Word.senses()` after `add` = the entry's senses in document order -/

theorem Forall2.filter_agree {α β} {R : α → β → Prop} (P : α → Bool) (Q : β → Bool) (hPQ : ∀ a b, R a b → P a = Q b) :
    ∀ {l : List α} {l' : List β}, Forall2 R l l' → Forall2 R (l.filter P) (l'.filter Q) := by
  intro l l' h
  induction h with
  | nil => exact Forall2.nil
  | @cons a b l l' h0 _ ih =>
    simp only [List.filter_cons]
    rw [← hPQ a b h0]
    cases P a
    · exact ih
    · exact Forall2.cons h0 ih

/-- in a list with pairwise distinct keys, the children listed under one key are those of the one element carrying it -/
theorem pairs_filter_of_nodup {α γ κ} [BEq κ] [LawfulBEq κ] (key : α → κ) (items : α → List γ) :
    ∀ (l : List α), (l.map key).Nodup → ∀ a ∈ l,
      (l.flatMap (fun s => (items s).map (fun x => (s, x)))).filter (fun p => key p.1 == key a) = (items a).map (fun x => (a, x)) := by
  intro l
  induction l with
  | nil => intro _ a ha; simp at ha
  | cons b t ih =>
    intro hn a ha
    simp only [List.map_cons, List.nodup_cons] at hn
    simp only [List.flatMap_cons, List.filter_append]
    rcases List.mem_cons.mp ha with rfl | ha'
    · have e1 : ((items a).map (fun x => (a, x))).filter (fun p => key p.1 == key a) = (items a).map (fun x => (a, x)) := by
        rw [List.filter_eq_self]
        intro p hp
        obtain ⟨x, _, rfl⟩ := List.mem_map.mp hp
        simp
      have e2 : (t.flatMap (fun s => (items s).map (fun x => (s, x)))).filter (fun p => key p.1 == key a) = [] := by
        rw [List.filter_eq_nil_iff]
        intro p hp
        obtain ⟨s, hs, hp'⟩ := List.mem_flatMap.mp hp
        obtain ⟨x, _, rfl⟩ := List.mem_map.mp hp'
        have : key s ≠ key a := fun e => hn.1 (List.mem_map.mpr ⟨s, hs, e⟩)
        simpa using this
      rw [e1, e2, List.append_nil]
    · have e1 : ((items b).map (fun x => (b, x))).filter (fun p => key p.1 == key a) = [] := by
        rw [List.filter_eq_nil_iff]
        intro p hp
        obtain ⟨x, _, rfl⟩ := List.mem_map.mp hp
        have : key b ≠ key a := fun e => hn.1 (List.mem_map.mpr ⟨a, ha', e.symm⟩)
        simpa using this
      rw [e1, List.nil_append]
      exact ih hn.2 a ha'

theorem entryRowE'_some (E : List REntry) (id : String) (lex x : Nat) (h : entryRowE' E id lex = some x) :
    ∃ r, r ∈ E ∧ r.id = id ∧ r.lex = lex ∧ r.rowid = x := by
  unfold entryRowE' at h
  cases hf : E.find? (fun r => r.id == id && r.lex == lex) with
  | none => simp [hf] at h
  | some r =>
    simp only [hf, Option.map_some, Option.some.injEq] at h
    have hp := List.find?_some hf
    simp only [Bool.and_eq_true, beq_iff_eq] at hp
    exact ⟨r, List.mem_of_find?_eq_some hf, hp.1, hp.2, h⟩

theorem entryRowE'_inj (E : List REntry) (hn : (E.map (·.rowid)).Nodup) (lid : String → Nat) :
    ∀ i j x, entryRowE' E i (lid i) = some x → entryRowE' E j (lid j) = some x → i = j := by
  intro i j x hi hj
  obtain ⟨a, ha, hai, _, har⟩ := entryRowE'_some _ _ _ _ hi
  obtain ⟨b, hb, hbi, _, hbr⟩ := entryRowE'_some _ _ _ _ hj
  have := mem_eq_of_key (·.rowid) E hn a ha b hb (by rw [har, hbr])
  rw [← hai, ← hbi, this]

/-- **C01, senses of a word, end to end**: for an entry id that occurs once in the document,
`get_entry_senses` of its row, inside the new lexicon, lists exactly the entry's non-external
senses in document order (`ORDER BY entry_rank` = position), each with its id and synset id -/
theorem C01_word_senses_end_to_end {norm : String → String} {dr : Nat} {db db' : Db} {l : Lexicon}
    (t : AddTrace norm dr db db' l)
    (hfkS : ∀ o ∈ db.senses, o.lex ∈ db.lexicons.map (·.rowid))
    (hnE : (db.entries.map (·.rowid)).Nodup) (hnY : (db.synsets.map (·.rowid)).Nodup)
    (hids : (l.entries.map (·.id)).Nodup)
    (e : Entry) (he : e ∈ l.entries) (er : Nat) (her : entryRow db' e.id (t.ctx.lid e.id) = some er) :
    (entrySenses db' er [t.lexid]).map (fun s => (s.id, s.synsetId)) = (localSenses e).map (fun s => (s.id, s.synset)) := by
  obtain ⟨hE, hY, rows, hrows, hF, _⟩ := addLexicon_sense_table t
  obtain ⟨_, g2, g3⟩ := insertLexicon_frame2 _ _ _ _ _ t.hlex
  have hlexid : t.lexid = nextId (db.lexicons.map (·.rowid)) := (insertLexicon_frame _ _ _ _ _ t.hlex).2.2.1
  have hnY' : (db'.synsets.map (·.rowid)).Nodup := by
    rw [hY]
    apply insertSynsets_nodupY _ _ _ _ t.hsyn
    rw [g2]; exact hnY
  have hnE' : (db'.entries.map (·.rowid)).Nodup := by
    rw [hE]
    apply insertEntries_nodupE _ _ _ _ t.hent
    rw [(keepsF_insertSynsets l _ _ _ t.hsyn).1, g3]; exact hnE
  have her' : entryRowE' db'.entries e.id (t.ctx.lid e.id) = some er := her
  unfold entrySenses
  rw [hrows]
  rw [filter_owned_append db.senses rows (·.entry) (·.lex) er t.lexid
    (fun o ho e' => by have := hfkS o ho; rw [e', hlexid] at this; exact nextId_not_mem _ this)
    (Forall2.forall_right (fun _ _ hr => hr.2.1) hF)]
  -- the rows of this entry, in document order
  have hsub : Forall2 (fun (p : Entry × (Sense × Nat)) row => SenseRowT t.ctx (db'.entries, db'.synsets) p.1 p.2 row)
      ((sensePairs l).filter (fun p => p.1.id == e.id)) (rows.filter (fun r => r.entry == er)) := by
    apply Forall2.filter_agree _ _ _ hF
    intro p row hr
    by_cases q : p.1.id = e.id
    · have : row.entry = er := by
        have h4 := hr.2.2.2.1
        simp only at h4
        rw [q, her'] at h4
        exact (Option.some.inj h4).symm
      simp [q, this]
    · have : row.entry ≠ er := by
        intro q'
        have h4 := hr.2.2.2.1
        simp only at h4
        exact q (entryRowE'_inj _ hnE' _ _ _ _ (by rw [h4, q']) her')
      have q1 : (p.1.id == e.id) = false := by simpa using q
      have q2 : (row.entry == er) = false := by simpa using this
      rw [q1, q2]
  have hpairs : (sensePairs l).filter (fun p => p.1.id == e.id) = (localSenses e).zipIdx.map (fun si => (e, si)) :=
    pairs_filter_of_nodup (fun x : Entry => x.id) (fun x => (localSenses x).zipIdx) l.entries hids e he
  rw [hpairs] at hsub
  -- already ordered by rank
  have hsorted : (rows.filter (fun r => r.entry == er)).Pairwise (fun x y => x.erank ≤ y.erank) := by
    have key : ∀ (L : List (Sense × Nat)) (R : List RSense) (n : Nat),
        Forall2 (fun (p : Entry × (Sense × Nat)) row => SenseRowT t.ctx (db'.entries, db'.synsets) p.1 p.2 row) (L.map (fun si => (e, si))) R →
        L.Pairwise (fun a b => a.2 < b.2) → (∀ a ∈ L, n ≤ a.2) → R.Pairwise (fun x y => x.erank ≤ y.erank) ∧ ∀ x ∈ R, n ≤ x.erank := by
      intro L
      induction L with
      | nil => intro R n hh _ _; cases hh; exact ⟨List.Pairwise.nil, by simp⟩
      | cons a L ih =>
        intro R n hh hp hn
        simp only [List.map_cons] at hh
        cases hh with
        | cons h0 hrest =>
          rename_i b R'
          rw [List.pairwise_cons] at hp
          obtain ⟨ihp, ihn⟩ := ih R' (a.2 + 1) hrest hp.2 (fun x hx => hp.1 x hx)
          have hb : b.erank = a.2 := h0.2.2.1
          refine ⟨List.pairwise_cons.mpr ⟨fun y hy => by have := ihn y hy; omega, ihp⟩, ?_⟩
          intro x hx
          rcases List.mem_cons.mp hx with rfl | hx
          · rw [hb]; exact hn a List.mem_cons_self
          · have := ihn x hx; have := hn a List.mem_cons_self; omega
    obtain ⟨hz1, hz2⟩ := zipIdx_pairwise (localSenses e) 0
    exact (key _ _ 0 hsub hz1 (fun a _ => Nat.zero_le _)).1
  rw [sortBy_of_sorted _ _ hsorted]
  -- decode
  have hdec : ∀ (p : Entry × (Sense × Nat)) (r : RSense), SenseRowT t.ctx (db'.entries, db'.synsets) p.1 p.2 r →
      senseData db' r = some ⟨p.2.1.id, p.1.id, p.2.1.synset, r.lex, r.rowid⟩ := by
    intro p r ⟨a1, _, _, a4, a5⟩
    rw [← a1]
    exact senseData_resolve db' r p.1.id p.2.1.synset _ _ a4 a5 hnE' hnY'
  have hfm : ∀ {L : List (Entry × (Sense × Nat))} {R : List RSense},
      Forall2 (fun (p : Entry × (Sense × Nat)) row => SenseRowT t.ctx (db'.entries, db'.synsets) p.1 p.2 row) L R →
      (R.filterMap (senseData db')).map (fun s => (s.id, s.synsetId)) = L.map (fun p => (p.2.1.id, p.2.1.synset)) := by
    intro L R hh
    induction hh with
    | nil => rfl
    | cons hd _ ih =>
      rw [List.filterMap_cons, hdec _ _ hd]
      simp only [List.map_cons, ih]
  rw [hfm hsub, List.map_map]
  have : ∀ (L : List Sense) (n : Nat), (L.zipIdx n).map ((fun (p : Entry × (Sense × Nat)) => (p.2.1.id, p.2.1.synset)) ∘ fun si => (e, si)) = L.map (fun s => (s.id, s.synset)) := by
    intro L
    induction L with
    | nil => intro n; rfl
    | cons a L ih => intro n; simp only [List.zipIdx_cons, List.map_cons, Function.comp, ih]
  exact this _ 0

/-! ### listings used by the export round trip (C03) -/

/-- what `words()` of the new lexicon lists after a successful add of a plain lexicon: one word per
entry row, in order, with the row's forms chunk -/
theorem words_listing (norm : String → String) (dr : Nat) (db db' : Db) (l : Lexicon)
    (h : addLexicon norm dr db l = .ok db') (hext : l.ext = none) (hx : ∀ e ∈ l.entries, e.external = false)
    (hfkE : ∀ o ∈ db.entries, o.lex ∈ db.lexicons.map (·.rowid))
    (hfkF : ∀ f ∈ db.forms, f.entry ∈ db.entries.map (·.rowid)) :
    ∃ (c : Ctx) (rows : List REntry) (chunks : List (List RForm)),
      c.lexid = nextId (db.lexicons.map (·.rowid)) ∧ c.extid = c.lexid ∧ db'.entries = db.entries ++ rows ∧
      EntryRows c db.entries l.entries rows ∧ chunks.length = rows.length ∧
      findEntries db' none [] none [c.lexid] false true = (rows.zip chunks).map (fun p => wordOf p.1 p.2) ∧
      (∀ i (h1 : i < l.entries.length) (h2 : i < rows.length),
        entryRowE (db.entries ++ rows) (l.entries[i]).id c.lexid = some (rows[i]).rowid) := by
  obtain ⟨c, rows, chunks, hc1, hc2, hE, hR, hF, hC⟩ := addLexicon_words_tables norm dr db db' l h hext hx
  have hlid : ∀ id, c.lid id = c.lexid := by
    intro id; unfold Ctx.lid; simp [hc2]
  have hrl : ∀ r ∈ rows, r.lex = c.lexid := by
    intro r hr
    obtain ⟨i, hi, rfl⟩ := List.mem_iff_getElem.mp hr
    exact (hR.spec i (by rw [← hR.len]; exact hi) hi).2.1
  have hlenC : l.entries.length = chunks.length := hC.length_eq
  -- the entry row that `_insert_forms` looked up for the i-th entry is the i-th new row
  have hER : ∀ i (h1 : i < l.entries.length) (h2 : i < rows.length),
      entryRowE (db.entries ++ rows) (l.entries[i]).id (c.lid (l.entries[i]).id) = some (rows[i]).rowid := by
    intro i h1 h2
    rw [hlid]
    unfold entryRowE
    rw [List.find?_append]
    have hid := (hR.spec i h1 h2).1
    have hold : db.entries.find? (fun r => r.id == (l.entries[i]).id && r.lex == c.lexid) = none := by
      rw [List.find?_eq_none]
      intro o ho
      have := hR.fresh (rows[i]) (List.getElem_mem h2) o ho
      rw [hid] at this
      simpa using this
    rw [hold, ← hid, Option.none_or, find_of_distinct rows c.lexid hR.distinct hrl i h2]
    rfl
  have hch : Forall2 (fun r ch => (∀ f ∈ ch, f.entry = r.rowid) ∧ ch ≠ [] ∧ ch.Pairwise (fun a b => a.rank ≤ b.rank)) rows chunks := by
    apply Forall2.of_index rows chunks (by rw [hR.len, hlenC])
    intro i h1 h2
    have h0 : i < l.entries.length := by rw [← hR.len]; exact h1
    obtain ⟨lem, er, lr, rws, a1, a2, a3, a4, a5, a6, a7, a8, a9, a10⟩ := hC.get i h0 h2
    have her : er = (rows[i]).rowid := by
      have := hER i h0 h1
      rw [a2] at this
      exact Option.some.inj this
    rw [a3]
    refine ⟨?_, by simp, ?_⟩
    · intro f hf
      rcases List.mem_cons.mp hf with rfl | hf
      · rw [a7, her]
      · obtain ⟨fi, _, hfi⟩ : ∃ fi ∈ (l.entries[i]).forms.zipIdx.filter (fun fi => !fi.1.external), FormRowOf norm c er fi f := by
          have : ∀ {L : List (Form × Nat)} {R : List RForm}, Forall2 (FormRowOf norm c er) L R → ∀ f ∈ R, ∃ fi ∈ L, FormRowOf norm c er fi f := by
            intro L R hh
            induction hh with
            | nil => intro f hf; simp at hf
            | cons h1 _ ih =>
              intro f hf
              rcases List.mem_cons.mp hf with rfl | hf
              · exact ⟨_, List.mem_cons_self, h1⟩
              · obtain ⟨x, hx, hr⟩ := ih f hf
                exact ⟨x, List.mem_cons_of_mem _ hx, hr⟩
          exact this a10 f hf
        rw [hfi.2.1, her]
    · rw [List.pairwise_cons]
      constructor
      · intro f _; rw [a6]; exact Nat.zero_le _
      · have hp : ((l.entries[i]).forms.zipIdx.filter (fun fi => !fi.1.external)).Pairwise (fun a b => a.2 < b.2) :=
          ((zipIdx_pairwise _ 0).1).sublist List.filter_sublist
        exact Forall2.pairwise (S := fun a b => a.2 < b.2) (T := fun a b => a.rank ≤ b.rank)
          (fun a b a' b' hab hab' hlt => by rw [hab.2.2.2.2.2.1, hab'.2.2.2.2.2.1]; omega) a10 hp
  have hfind := findEntries_of_tables db' db.entries rows db.forms chunks c.lexid hE hF
    (by
      intro o ho e
      have := hfkE o ho
      rw [e, hc1] at this
      exact nextId_fresh _ this)
    hrl hR.incr
    (by
      intro f hf r hr e
      obtain ⟨o, ho, hor⟩ := List.mem_map.mp (hfkF f hf)
      have := hR.above r hr o ho
      omega)
    hch
  refine ⟨c, rows, chunks, hc1, hc2, hE, hR, by rw [← hlenC, hR.len], hfind, ?_⟩
  intro i h1 h2
  have := hER i h1 h2
  rw [hlid] at this
  exact this

/-- **C01, senses of a word, end to end**: for an entry id that occurs once in the document,
`get_entry_senses` of its row, inside the new lexicon, lists exactly the entry's non-external
senses in document order (`ORDER BY entry_rank` = position), each with its id and synset id -/
theorem entry_senses_listing {norm : String → String} {dr : Nat} {db db' : Db} {l : Lexicon}
    (t : AddTrace norm dr db db' l)
    (hfkS : ∀ o ∈ db.senses, o.lex ∈ db.lexicons.map (·.rowid))
    (hnE : (db.entries.map (·.rowid)).Nodup) (hnY : (db.synsets.map (·.rowid)).Nodup)
    (hids : (l.entries.map (·.id)).Nodup)
    (e : Entry) (he : e ∈ l.entries) (er : Nat) (her : entryRow db' e.id (t.ctx.lid e.id) = some er) :
    ∃ rows, db'.senses = db.senses ++ rows ∧ (∀ r ∈ rows, r.lex = t.lexid) ∧ (∀ o ∈ db.senses, o.lex ≠ t.lexid) ∧
      rows.map (·.id) = (sensePairs l).map (fun p => p.2.1.id) ∧
      Forall2 (fun (s : Sense) (d : SenseData) => d.id = s.id ∧ d.synsetId = s.synset ∧ ∃ r ∈ rows, r.rowid = d.rowid ∧ r.id = d.id)
        (localSenses e) (entrySenses db' er [t.lexid]) := by
  obtain ⟨hE, hY, rows, hrows, hF, _⟩ := addLexicon_sense_table t
  obtain ⟨_, g2, g3⟩ := insertLexicon_frame2 _ _ _ _ _ t.hlex
  have hlexid : t.lexid = nextId (db.lexicons.map (·.rowid)) := (insertLexicon_frame _ _ _ _ _ t.hlex).2.2.1
  have hnY' : (db'.synsets.map (·.rowid)).Nodup := by
    rw [hY]
    apply insertSynsets_nodupY _ _ _ _ t.hsyn
    rw [g2]; exact hnY
  have hnE' : (db'.entries.map (·.rowid)).Nodup := by
    rw [hE]
    apply insertEntries_nodupE _ _ _ _ t.hent
    rw [(keepsF_insertSynsets l _ _ _ t.hsyn).1, g3]; exact hnE
  have her' : entryRowE' db'.entries e.id (t.ctx.lid e.id) = some er := her
  unfold entrySenses
  rw [hrows]
  rw [filter_owned_append db.senses rows (·.entry) (·.lex) er t.lexid
    (fun o ho e' => by have := hfkS o ho; rw [e', hlexid] at this; exact nextId_not_mem _ this)
    (Forall2.forall_right (fun _ _ hr => hr.2.1) hF)]
  -- the rows of this entry, in document order
  have hsub : Forall2 (fun (p : Entry × (Sense × Nat)) row => SenseRowT t.ctx (db'.entries, db'.synsets) p.1 p.2 row)
      ((sensePairs l).filter (fun p => p.1.id == e.id)) (rows.filter (fun r => r.entry == er)) := by
    apply Forall2.filter_agree _ _ _ hF
    intro p row hr
    by_cases q : p.1.id = e.id
    · have : row.entry = er := by
        have h4 := hr.2.2.2.1
        simp only at h4
        rw [q, her'] at h4
        exact (Option.some.inj h4).symm
      simp [q, this]
    · have : row.entry ≠ er := by
        intro q'
        have h4 := hr.2.2.2.1
        simp only at h4
        exact q (entryRowE'_inj _ hnE' _ _ _ _ (by rw [h4, q']) her')
      have q1 : (p.1.id == e.id) = false := by simpa using q
      have q2 : (row.entry == er) = false := by simpa using this
      rw [q1, q2]
  have hpairs : (sensePairs l).filter (fun p => p.1.id == e.id) = (localSenses e).zipIdx.map (fun si => (e, si)) :=
    pairs_filter_of_nodup (fun x : Entry => x.id) (fun x => (localSenses x).zipIdx) l.entries hids e he
  rw [hpairs] at hsub
  -- already ordered by rank
  have hsorted : (rows.filter (fun r => r.entry == er)).Pairwise (fun x y => x.erank ≤ y.erank) := by
    have key : ∀ (L : List (Sense × Nat)) (R : List RSense) (n : Nat),
        Forall2 (fun (p : Entry × (Sense × Nat)) row => SenseRowT t.ctx (db'.entries, db'.synsets) p.1 p.2 row) (L.map (fun si => (e, si))) R →
        L.Pairwise (fun a b => a.2 < b.2) → (∀ a ∈ L, n ≤ a.2) → R.Pairwise (fun x y => x.erank ≤ y.erank) ∧ ∀ x ∈ R, n ≤ x.erank := by
      intro L
      induction L with
      | nil => intro R n hh _ _; cases hh; exact ⟨List.Pairwise.nil, by simp⟩
      | cons a L ih =>
        intro R n hh hp hn
        simp only [List.map_cons] at hh
        cases hh with
        | cons h0 hrest =>
          rename_i b R'
          rw [List.pairwise_cons] at hp
          obtain ⟨ihp, ihn⟩ := ih R' (a.2 + 1) hrest hp.2 (fun x hx => hp.1 x hx)
          have hb : b.erank = a.2 := h0.2.2.1
          refine ⟨List.pairwise_cons.mpr ⟨fun y hy => by have := ihn y hy; omega, ihp⟩, ?_⟩
          intro x hx
          rcases List.mem_cons.mp hx with rfl | hx
          · rw [hb]; exact hn a List.mem_cons_self
          · have := ihn x hx; have := hn a List.mem_cons_self; omega
    obtain ⟨hz1, hz2⟩ := zipIdx_pairwise (localSenses e) 0
    exact (key _ _ 0 hsub hz1 (fun a _ => Nat.zero_le _)).1
  rw [sortBy_of_sorted _ _ hsorted]
  -- decode
  have hdec : ∀ (p : Entry × (Sense × Nat)) (r : RSense), SenseRowT t.ctx (db'.entries, db'.synsets) p.1 p.2 r →
      senseData db' r = some ⟨p.2.1.id, p.1.id, p.2.1.synset, r.lex, r.rowid⟩ := by
    intro p r ⟨a1, _, _, a4, a5⟩
    rw [← a1]
    exact senseData_resolve db' r p.1.id p.2.1.synset _ _ a4 a5 hnE' hnY'
  have hfm : ∀ {L : List (Sense × Nat)} {R : List RSense}, (∀ r ∈ R, r ∈ rows) →
      Forall2 (fun (p : Entry × (Sense × Nat)) row => SenseRowT t.ctx (db'.entries, db'.synsets) p.1 p.2 row) (L.map (fun si => (e, si))) R →
      Forall2 (fun (s : Sense) (d : SenseData) => d.id = s.id ∧ d.synsetId = s.synset ∧ ∃ r ∈ rows, r.rowid = d.rowid ∧ r.id = d.id)
        (L.map (·.1)) (R.filterMap (senseData db')) := by
    intro L
    induction L with
    | nil => intro R _ hh; cases hh; exact Forall2.nil
    | cons a L ih =>
      intro R hsubR hh
      simp only [List.map_cons] at hh
      cases hh with
      | cons hd hrest =>
        rename_i b R'
        rw [List.filterMap_cons, hdec _ _ hd]
        simp only [List.map_cons]
        refine Forall2.cons ⟨rfl, rfl, b, hsubR b List.mem_cons_self, rfl, hd.1⟩ ?_
        exact ih (fun r hr => hsubR r (List.mem_cons_of_mem _ hr)) hrest
  have hmapfst : ∀ (L : List Sense) (n : Nat), (L.zipIdx n).map (·.1) = L := by
    intro L
    induction L with
    | nil => intro n; rfl
    | cons a L ih => intro n; simp only [List.zipIdx_cons, List.map_cons, ih]
  refine ⟨rows, rfl, Forall2.forall_right (fun _ _ hr => hr.2.1) hF,
    (fun o ho e' => by have := hfkS o ho; rw [e', hlexid] at this; exact nextId_not_mem _ this),
    Forall2.map_eq (fun r : RSense => r.id) (fun p : Entry × (Sense × Nat) => p.2.1.id) (fun _ _ hr => hr.1) hF, ?_⟩
  have := hfm (L := (localSenses e).zipIdx) (fun r hr => (List.mem_filter.mp hr).1) hsub
  rw [hmapfst] at this
  exact this


/-! ### end to end: `Synset.senses()` / members after `add` -/

/-- the synset rank written for each local sense (same rows as `addLexicon_sense_table`) -/
theorem addLexicon_sense_ranks {norm : String → String} {dr : Nat} {db db' : Db} {l : Lexicon}
    (t : AddTrace norm dr db db' l) :
    ∃ rows, db'.senses = db.senses ++ rows ∧
      Forall2 (fun (p : Entry × (Sense × Nat)) (row : RSense) => row.srank = memberRank l dr p.2.1.id ∧ row.id = p.2.1.id) (sensePairs l) rows := by
  obtain ⟨_, _, rows, hrows, _, _⟩ := addLexicon_sense_table t
  let c : Ctx := ⟨t.lexid, t.extid, externalIds l⟩
  obtain ⟨b1, b2, h1, h2, h3⟩ := insertSenses_split l c dr _ _ t.hsen
  obtain ⟨_, rows', hrows', hF⟩ := foldlM_rows_nested (fun d => d.senses) (fun _ => ()) (fun (e : Entry) => (localSenses e).zipIdx)
    (fun e => senseStep l c dr e) (fun _ _ si row => row.srank = memberRank l dr si.1.id ∧ row.id = si.1.id)
    (fun e b si b' hh => by
      obtain ⟨r, hb, hr, _⟩ := senseStep_ok l c dr e b b' si hh
      exact ⟨rfl, r, by rw [hb], hr.2.2.2.2.2.1, hr.1⟩) l.entries _ _ h1
  -- both descriptions speak of the same rows
  obtain ⟨_, _, rows2, hrows2, _, _⟩ := addLexicon_sense_table t
  refine ⟨rows, hrows, ?_⟩
  -- db'.senses = b1.senses (later passes keep senses) and b1.senses = d5.senses ++ rows', d5.senses = db.senses
  have k1 := insertLexicon_keeps_rels _ _ _ _ _ t.hlex
  let πS : Db → List RSense := fun b => b.senses
  have s2 : πS t.d2 = πS t.d1 := keepsGF_insertSynsets πS l c (fun p => by keepsG_step presupStep)
    (by keepsG_step synsetStep) (by keepsG_step piliStep) _ _ t.hsyn
  have s3 : πS t.d3 = πS t.d2 := keepsGF_insertEntries πS l c (by keepsG_step entryStep) _ _ t.hent
  have s4 : πS t.d4 = πS t.d3 := keepsGF_insertForms πS (fun _ _ => rfl) norm l c _ _ t.hform
  have s5 : πS t.d5 = πS t.d4 := keepsGF_insertPronsTags πS l c (fun _ _ _ => by keepsG_step pronStep)
    (fun _ _ _ => by keepsG_step tagStep) _ _ t.hpt
  have hs5 : t.d5.senses = db.senses := by
    show πS t.d5 = _
    rw [s5, s4, s3, s2]
    show t.d1.senses = _
    rw [k1.2.2.2.2.2]; rfl
  have a2 : πS b2 = πS b1 := keepsGF_fold πS _ (keepsG_nested πS (fun e => localSenses e) (fun _ => adjStep c) (fun _ => by keepsG_step adjStep)) _ _ _ h2
  have a3 : πS t.d6 = πS b2 := by
    apply keepsGF_fold πS _ _ _ _ _ h3
    apply keepsG_nested πS (fun (e : Entry) => e.senses) (fun _ db s => s.counts.foldlM (countStep c s) db)
    intro _
    exact fun b s b' h => fold_keepsG πS _ (by keepsG_step countStep) b s.counts b' h
  have a7 : πS t.d7 = πS t.d6 := keepsGF_insertSbs πS t.sbs c (by keepsG_step sbStep) (fun _ => by keepsG_step sbSenseStep) _ _ t.hsb
  have a8 : πS t.d8 = πS t.d7 := keepsGF_insertRelations πS l c (fun _ => by keepsG_step synRelStep)
    (by keepsG_step senseRelStep) (by keepsG_step senseSynRelStep) _ _ t.hrel
  have a9 : πS db' = πS t.d8 := keepsGF_insertDefsExamples πS l c (fun _ => by keepsG_step defStep)
    (fun _ => by keepsG_step senseExampleStep) (fun _ => by keepsG_step synsetExampleStep) _ _ t.hdx
  have : db'.senses = db.senses ++ rows' := by
    show πS db' = _
    rw [a9, a8, a7, a3, a2]
    show b1.senses = _
    rw [hrows', hs5]
  have heq : rows = rows' := List.append_cancel_left (hrows.symm.trans this)
  rw [heq]
  exact hF

theorem Forall2.and {α β} {R S : α → β → Prop} : ∀ {l : List α} {l' : List β}, Forall2 R l l' → Forall2 S l l' →
    Forall2 (fun a b => R a b ∧ S a b) l l' := by
  intro l l' h1
  induction h1 with
  | nil => intro h2; cases h2; exact Forall2.nil
  | cons hd _ ih => intro h2; cases h2 with | cons hd2 tl2 => exact Forall2.cons ⟨hd, hd2⟩ (ih tl2)

/-- **C01, members of a synset, end to end** (no `members` attribute ranks the senses: every sense
has the default rank): `get_synset_members` of the synset with id `sid`, inside the new lexicon,
lists exactly the non-external senses of the document that reference `sid`, in document order -/
theorem C01_synset_members_default_order {norm : String → String} {dr : Nat} {db db' : Db} {l : Lexicon}
    (t : AddTrace norm dr db db' l)
    (hfkS : ∀ o ∈ db.senses, o.lex ∈ db.lexicons.map (·.rowid))
    (hnE : (db.entries.map (·.rowid)).Nodup) (hnY : (db.synsets.map (·.rowid)).Nodup)
    (hrank : ∀ p ∈ sensePairs l, memberRank l dr p.2.1.id = dr)
    (sid : String) (x0 : Nat) (hx0 : synsetRow db' sid (t.ctx.lid sid) = some x0) :
    (synsetMembers db' x0 [t.lexid]).map (fun s => (s.id, s.entryId)) =
      ((sensePairs l).filter (fun p => p.2.1.synset == sid)).map (fun p => (p.2.1.id, p.1.id)) := by
  obtain ⟨hE, hY, rows, hrows, hF, _⟩ := addLexicon_sense_table t
  obtain ⟨rows', hrows', hR⟩ := addLexicon_sense_ranks t
  have heq : rows = rows' := List.append_cancel_left (hrows.symm.trans hrows')
  rw [← heq] at hR
  have hFR := Forall2.and hF hR
  obtain ⟨_, g2, g3⟩ := insertLexicon_frame2 _ _ _ _ _ t.hlex
  have hlexid : t.lexid = nextId (db.lexicons.map (·.rowid)) := (insertLexicon_frame _ _ _ _ _ t.hlex).2.2.1
  have hnY' : (db'.synsets.map (·.rowid)).Nodup := by
    rw [hY]
    apply insertSynsets_nodupY _ _ _ _ t.hsyn
    rw [g2]; exact hnY
  have hnE' : (db'.entries.map (·.rowid)).Nodup := by
    rw [hE]
    apply insertEntries_nodupE _ _ _ _ t.hent
    rw [(keepsF_insertSynsets l _ _ _ t.hsyn).1, g3]; exact hnE
  have hx0' : synsetRowY' db'.synsets sid (t.ctx.lid sid) = some x0 := hx0
  unfold synsetMembers
  rw [hrows]
  rw [filter_owned_append db.senses rows (·.synset) (·.lex) x0 t.lexid
    (fun o ho e' => by have := hfkS o ho; rw [e', hlexid] at this; exact nextId_not_mem _ this)
    (Forall2.forall_right (fun _ _ hr => hr.2.1) hF)]
  have hsub : Forall2 (fun (p : Entry × (Sense × Nat)) row => SenseRowT t.ctx (db'.entries, db'.synsets) p.1 p.2 row ∧
        (row.srank = memberRank l dr p.2.1.id ∧ row.id = p.2.1.id))
      ((sensePairs l).filter (fun p => p.2.1.synset == sid)) (rows.filter (fun r => r.synset == x0)) := by
    apply Forall2.filter_agree _ _ _ hFR
    intro p row hr
    by_cases q : p.2.1.synset = sid
    · have : row.synset = x0 := by
        have h5 := hr.1.2.2.2.2
        simp only at h5
        rw [q, hx0'] at h5
        exact (Option.some.inj h5).symm
      simp [q, this]
    · have : row.synset ≠ x0 := by
        intro q'
        have h5 := hr.1.2.2.2.2
        simp only at h5
        exact q (synsetRowY'_inj _ hnY' _ _ _ _ (by rw [h5, q']) hx0')
      have q1 : (p.2.1.synset == sid) = false := by simpa using q
      have q2 : (row.synset == x0) = false := by simpa using this
      rw [q1, q2]
  -- all ranks are equal: the stable sort keeps insertion order
  have hsorted : (rows.filter (fun r => r.synset == x0)).Pairwise (fun x y => x.srank ≤ y.srank) := by
    have hall : ∀ r ∈ rows.filter (fun r => r.synset == x0), r.srank = dr := by
      intro r hr
      obtain ⟨p, hp, hpr⟩ := Forall2.exists_of_mem_right hsub r hr
      rw [hpr.2.1]
      exact hrank p (List.mem_filter.mp hp).1
    apply List.pairwise_of_forall_mem_list
    intro a ha b hb
    rw [hall a ha, hall b hb]
    exact Nat.le_refl _
  rw [sortBy_of_sorted _ _ hsorted]
  have hdec : ∀ (p : Entry × (Sense × Nat)) (r : RSense), SenseRowT t.ctx (db'.entries, db'.synsets) p.1 p.2 r →
      senseData db' r = some ⟨p.2.1.id, p.1.id, p.2.1.synset, r.lex, r.rowid⟩ := by
    intro p r ⟨a1, _, _, a4, a5⟩
    rw [← a1]
    exact senseData_resolve db' r p.1.id p.2.1.synset _ _ a4 a5 hnE' hnY'
  have hfm : ∀ {L : List (Entry × (Sense × Nat))} {R : List RSense},
      Forall2 (fun (p : Entry × (Sense × Nat)) row => SenseRowT t.ctx (db'.entries, db'.synsets) p.1 p.2 row ∧
        (row.srank = memberRank l dr p.2.1.id ∧ row.id = p.2.1.id)) L R →
      (R.filterMap (senseData db')).map (fun s => (s.id, s.entryId)) = L.map (fun p => (p.2.1.id, p.1.id)) := by
    intro L R hh
    induction hh with
    | nil => rfl
    | cons hd _ ih =>
      rw [List.filterMap_cons, hdec _ _ hd.1]
      simp only [List.map_cons, ih]
  exact hfm hsub

/-! ### end to end: tags and pronunciations after `add` -/

/-- rows whose owner was resolved by a look-up: the rows of owner `x0` are the children whose look-up gives `x0` -/
theorem looked_up_rows_filter {π ρ τ} (look : π → Option Nat) (owner : ρ → Nat) (payR : ρ → τ) (payD : π → τ) :
    ∀ {pairs : List π} {rows : List ρ}, Forall2 (fun p r => look p = some (owner r) ∧ payR r = payD p) pairs rows →
      ∀ (x0 : Nat), (rows.filter (fun r => owner r == x0)).map payR = (pairs.filter (fun p => look p == some x0)).map payD := by
  intro pairs rows h
  induction h with
  | nil => intro _; rfl
  | @cons p r ps rs h0 _ ih =>
    intro x0
    simp only [List.filter_cons]
    rw [h0.1]
    by_cases e : owner r = x0
    · simp [e, ih x0, h0.2]
    · have q1 : (owner r == x0) = false := by simpa using e
      have q2 : (some (owner r) == some x0) = false := by simpa using e
      rw [q1, q2]
      exact ih x0

/-- form-like elements of the document with their entry: (entry, (form id, rank, pronunciations, tags)) -/
def formLikePairs (l : Lexicon) : List (Entry × (Option String × Option Nat × List Pron × List Tag)) :=
  l.entries.flatMap (fun e => (formLikes e).map (fun fl => (e, fl)))

abbrev FL := Option String × Option Nat × List Pron × List Tag

def tagPairs (l : Lexicon) : List ((Entry × FL) × Tag) :=
  l.entries.flatMap (fun e => (formLikes e).flatMap (fun fl => fl.2.2.2.map (fun t => ((e, fl), t))))
def pronPairs (l : Lexicon) : List ((Entry × FL) × Pron) :=
  l.entries.flatMap (fun e => (formLikes e).flatMap (fun fl => fl.2.2.1.map (fun t => ((e, fl), t))))

/-- `FORM_QUERY`, on fixed `entries` / `forms` tables -/
def formRowEF (fr : List REntry × List RForm) (eid : String) (lex : Nat) (fid : Option String) (rank : Option Nat) : Option Nat :=
  match fr.1.find? (fun r => r.id == eid && r.lex == lex) with
  | none => none
  | some e =>
    (fr.2.find? (fun f => f.entry == e.rowid &&
      ((match fid, f.id with | some a, some b => a == b | _, _ => false) ||
       (match rank with | some k => f.rank == k | none => false)))).map (·.rowid)

theorem formRow_eq (db : Db) (eid : String) (lex : Nat) (fid : Option String) (rank : Option Nat) :
    formRow db eid lex fid rank = formRowEF (db.entries, db.forms) eid lex fid rank := rfl

theorem tagStep_ok (c : Ctx) (e : Entry) (fid : Option String) (rank : Option Nat) (b : Db) (t : Tag) (b' : Db)
    (h : tagStep c e fid rank b t = .ok b') :
    (b'.entries, b'.forms) = (b.entries, b.forms) ∧ ∃ row, b'.tags = b.tags ++ [row] ∧
      formRowEF (b.entries, b.forms) e.id (c.lid e.id) fid rank = some row.form ∧ row.tag = t.text ∧ row.category = t.category := by
  unfold tagStep at h
  simp only [bind, Except.bind, need, pure, Except.pure] at h
  cases h1 : formRow b e.id (c.lid e.id) fid rank with
  | none => simp [h1] at h
  | some fr =>
    simp only [h1, Except.ok.injEq] at h
    subst h
    exact ⟨rfl, _, rfl, h1, rfl, rfl⟩

theorem pronStep_ok (c : Ctx) (e : Entry) (fid : Option String) (rank : Option Nat) (b : Db) (p : Pron) (b' : Db)
    (h : pronStep c e fid rank b p = .ok b') :
    (b'.entries, b'.forms) = (b.entries, b.forms) ∧ ∃ row, b'.prons = b.prons ++ [row] ∧
      formRowEF (b.entries, b.forms) e.id (c.lid e.id) fid rank = some row.form ∧
      (row.value, row.variety, row.notat, row.phonemic, row.audio) = (p.text, p.variety, p.notat, boolOr p.phonemic true, p.audio) := by
  unfold pronStep at h
  simp only [bind, Except.bind, need, pure, Except.pure] at h
  cases h1 : formRow b e.id (c.lid e.id) fid rank with
  | none => simp [h1] at h
  | some fr =>
    simp only [h1, Except.ok.injEq] at h
    subst h
    exact ⟨rfl, _, rfl, h1, rfl⟩

theorem insertPronsTags_split (l : Lexicon) (c : Ctx) (b b' : Db) (h : insertPronsTags b l c = .ok b') :
    ∃ b1, l.entries.foldlM (fun db e => (formLikes e).foldlM (fun db fl => fl.2.2.1.foldlM (pronStep c e fl.1 fl.2.1) db) db) b = .ok b1 ∧
      l.entries.foldlM (fun db e => (formLikes e).foldlM (fun db fl => fl.2.2.2.foldlM (tagStep c e fl.1 fl.2.1) db) db) b1 = .ok b' := by
  unfold insertPronsTags at h
  simp only [bind, Except.bind] at h
  cases h1 : l.entries.foldlM (fun db e => (formLikes e).foldlM (fun db fl => fl.2.2.1.foldlM (pronStep c e fl.1 fl.2.1) db) db) b with
  | error x => rw [h1] at h; simp at h
  | ok b1 => rw [h1] at h; exact ⟨b1, rfl, h⟩

theorem Forall2.map_left {α α' β} {R : α' → β → Prop} (f : α → α') : ∀ {l : List α} {l' : List β},
    Forall2 (fun a b => R (f a) b) l l' → Forall2 R (l.map f) l' := by
  intro l l' h
  induction h with
  | nil => exact Forall2.nil
  | cons h0 _ ih => exact Forall2.cons h0 ih

def TagRowOf (c : Ctx) (fr : List REntry × List RForm) (p : Entry × FL) (t : Tag) (row : RTag) : Prop :=
  formRowEF fr p.1.id (c.lid p.1.id) p.2.1 p.2.2.1 = some row.form ∧ row.tag = t.text ∧ row.category = t.category
def PronRowOf (c : Ctx) (fr : List REntry × List RForm) (p : Entry × FL) (t : Pron) (row : RPron) : Prop :=
  formRowEF fr p.1.id (c.lid p.1.id) p.2.1 p.2.2.1 = some row.form ∧
  (row.value, row.variety, row.notat, row.phonemic, row.audio) = (t.text, t.variety, t.notat, boolOr t.phonemic true, t.audio)

/-- **the `tags` and `pronunciations` tables after one `addLexicon`** -/
theorem addLexicon_tags_prons_tables {norm : String → String} {dr : Nat} {db db' : Db} {l : Lexicon}
    (t : AddTrace norm dr db db' l) :
    (∃ rows, db'.tags = db.tags ++ rows ∧
      Forall2 (fun (q : (Entry × FL) × Tag) row => TagRowOf t.ctx (db'.entries, db'.forms) q.1 q.2 row) (tagPairs l) rows) ∧
    (∃ rows, db'.prons = db.prons ++ rows ∧
      Forall2 (fun (q : (Entry × FL) × Pron) row => PronRowOf t.ctx (db'.entries, db'.forms) q.1 q.2 row) (pronPairs l) rows) := by
  let c : Ctx := ⟨t.lexid, t.extid, externalIds l⟩
  -- before: tags and prons untouched
  let π : Db → List RTag × List RPron := fun b => (b.tags, b.prons)
  have k1 : π t.d1 = π (updateLookups db l) := by
    have h := t.hlex
    unfold insertLexicon at h
    simp only [bind, Except.bind, pure, Except.pure] at h
    split at h
    · simp [throw, throwThe, MonadExcept.throw] at h
    · split at h
      · split at h
        · simp at h
        · simp only [Except.ok.injEq, Prod.mk.injEq] at h
          obtain ⟨h, _, _⟩ := h; rw [← h]
      · simp only [Except.ok.injEq, Prod.mk.injEq] at h
        obtain ⟨h, _, _⟩ := h; rw [← h]
  have k2 : π t.d2 = π t.d1 := keepsGF_insertSynsets π l c (fun p => by keepsG_step presupStep)
    (by keepsG_step synsetStep) (by keepsG_step piliStep) _ _ t.hsyn
  have k3 : π t.d3 = π t.d2 := keepsGF_insertEntries π l c (by keepsG_step entryStep) _ _ t.hent
  have k4 : π t.d4 = π t.d3 := keepsGF_insertForms π (fun _ _ => rfl) norm l c _ _ t.hform
  have hpre : π t.d4 = (db.tags, db.prons) := by rw [k4, k3, k2, k1]; rfl
  obtain ⟨b1, h1, h2⟩ := insertPronsTags_split l c _ _ t.hpt
  -- pronunciations
  obtain ⟨f1, rss1, hr1, hF1⟩ := foldlM_rowsL (fun d => d.prons) (fun d => (d.entries, d.forms))
    (fun db (e : Entry) => (formLikes e).foldlM (fun db fl => fl.2.2.1.foldlM (pronStep c e fl.1 fl.2.1) db) db)
    (fun fr e rs => Forall2 (fun (q : FL × Pron) row => PronRowOf c fr (e, q.1) q.2 row) ((formLikes e).flatMap (fun fl => fl.2.2.1.map (fun x => (fl, x)))) rs)
    (fun b e b' hh => by
      obtain ⟨g1, rows, g2, g3⟩ := foldlM_rows_nested (fun d => d.prons) (fun d => (d.entries, d.forms)) (fun (fl : FL) => fl.2.2.1)
        (fun fl => pronStep c e fl.1 fl.2.1) (fun fr fl x row => PronRowOf c fr (e, fl) x row)
        (fun fl b x b' hh => pronStep_ok c e fl.1 fl.2.1 b x b' hh) (formLikes e) b b' hh
      exact ⟨g1, rows, g2, g3⟩) l.entries _ _ h1
  -- tags
  obtain ⟨f2, rss2, hr2, hF2⟩ := foldlM_rowsL (fun d => d.tags) (fun d => (d.entries, d.forms))
    (fun db (e : Entry) => (formLikes e).foldlM (fun db fl => fl.2.2.2.foldlM (tagStep c e fl.1 fl.2.1) db) db)
    (fun fr e rs => Forall2 (fun (q : FL × Tag) row => TagRowOf c fr (e, q.1) q.2 row) ((formLikes e).flatMap (fun fl => fl.2.2.2.map (fun x => (fl, x)))) rs)
    (fun b e b' hh => by
      obtain ⟨g1, rows, g2, g3⟩ := foldlM_rows_nested (fun d => d.tags) (fun d => (d.entries, d.forms)) (fun (fl : FL) => fl.2.2.2)
        (fun fl => tagStep c e fl.1 fl.2.1) (fun fr fl x row => TagRowOf c fr (e, fl) x row)
        (fun fl b x b' hh => tagStep_ok c e fl.1 fl.2.1 b x b' hh) (formLikes e) b b' hh
      exact ⟨g1, rows, g2, g3⟩) l.entries _ _ h2
  -- cross frames inside the pass
  let πt : Db → List RTag := fun b => b.tags
  have t1 : πt b1 = πt t.d4 := by
    apply keepsGF_fold πt _ _ _ _ _ h1
    apply keepsG_nested πt (fun e => formLikes e) (fun e db fl => fl.2.2.1.foldlM (pronStep c e fl.1 fl.2.1) db)
    intro e
    exact fun b fl b' h => fold_keepsG πt _ (by keepsG_step pronStep) b fl.2.2.1 b' h
  let πp : Db → List RPron := fun b => b.prons
  have p2 : πp t.d5 = πp b1 := by
    apply keepsGF_fold πp _ _ _ _ _ h2
    apply keepsG_nested πp (fun e => formLikes e) (fun e db fl => fl.2.2.2.foldlM (tagStep c e fl.1 fl.2.1) db)
    intro e
    exact fun b fl b' h => fold_keepsG πp _ (by keepsG_step tagStep) b fl.2.2.2 b' h
  -- after: nothing touches tags, prons, entries, forms
  let π4 : Db → List RTag × List RPron × List REntry × List RForm := fun b => (b.tags, b.prons, b.entries, b.forms)
  have a6 : π4 t.d6 = π4 t.d5 := keepsGF_insertSenses π4 l c dr (fun _ => by keepsG_step senseStep)
    (by keepsG_step adjStep) (fun _ => by keepsG_step countStep) _ _ t.hsen
  have a7 : π4 t.d7 = π4 t.d6 := keepsGF_insertSbs π4 t.sbs c (by keepsG_step sbStep) (fun _ => by keepsG_step sbSenseStep) _ _ t.hsb
  have a8 : π4 t.d8 = π4 t.d7 := keepsGF_insertRelations π4 l c (fun _ => by keepsG_step synRelStep)
    (by keepsG_step senseRelStep) (by keepsG_step senseSynRelStep) _ _ t.hrel
  have a9 : π4 db' = π4 t.d8 := keepsGF_insertDefsExamples π4 l c (fun _ => by keepsG_step defStep)
    (fun _ => by keepsG_step senseExampleStep) (fun _ => by keepsG_step synsetExampleStep) _ _ t.hdx
  have hpost : π4 db' = π4 t.d5 := by rw [a9, a8, a7, a6]
  have q1 : db'.tags = t.d5.tags := congrArg (fun x => x.1) hpost
  have q2 : db'.prons = t.d5.prons := congrArg (fun x => x.2.1) hpost
  have q3 : db'.entries = t.d5.entries := congrArg (fun x => x.2.2.1) hpost
  have q4 : db'.forms = t.d5.forms := congrArg (fun x => x.2.2.2) hpost
  have e51 : (t.d5.entries, t.d5.forms) = (b1.entries, b1.forms) := f2
  have e14 : (b1.entries, b1.forms) = (t.d4.entries, t.d4.forms) := f1
  have hfr : (db'.entries, db'.forms) = (b1.entries, b1.forms) := by rw [q3, q4]; exact e51
  have hfr4 : (db'.entries, db'.forms) = (t.d4.entries, t.d4.forms) := hfr.trans e14
  constructor
  · refine ⟨rss2.flatten, ?_, ?_⟩
    · rw [q1, hr2]
      have : b1.tags = db.tags := by
        show πt b1 = _
        rw [t1]; exact congrArg Prod.fst hpre
      rw [this]
    · rw [hfr]
      have := Forall2.flatten_blocks (fun (e : Entry) => ((formLikes e).flatMap (fun fl => fl.2.2.2.map (fun x => (fl, x)))).map (fun q => ((e, q.1), q.2)))
        (fun (q : (Entry × FL) × Tag) row => TagRowOf c (b1.entries, b1.forms) q.1 q.2 row)
        (Forall2.imp (fun e rs hh => Forall2.map_left (fun (q : FL × Tag) => ((e, q.1), q.2)) hh) hF2)
      have heq : l.entries.flatMap (fun (e : Entry) => ((formLikes e).flatMap (fun fl => fl.2.2.2.map (fun x => (fl, x)))).map (fun q => ((e, q.1), q.2))) = tagPairs l := by
        unfold tagPairs
        congr 1
        funext e
        rw [List.map_flatMap]
        congr 1
        funext fl
        rw [List.map_map]
        rfl
      rw [heq] at this
      exact this
  · refine ⟨rss1.flatten, ?_, ?_⟩
    · rw [q2]
      show πp t.d5 = _
      rw [p2]
      show b1.prons = _
      rw [hr1]
      have : t.d4.prons = db.prons := congrArg Prod.snd hpre
      rw [this]
    · rw [hfr4]
      have := Forall2.flatten_blocks (fun (e : Entry) => ((formLikes e).flatMap (fun fl => fl.2.2.1.map (fun x => (fl, x)))).map (fun q => ((e, q.1), q.2)))
        (fun (q : (Entry × FL) × Pron) row => PronRowOf c (t.d4.entries, t.d4.forms) q.1 q.2 row)
        (Forall2.imp (fun e rs hh => Forall2.map_left (fun (q : FL × Pron) => ((e, q.1), q.2)) hh) hF1)
      have heq : l.entries.flatMap (fun (e : Entry) => ((formLikes e).flatMap (fun fl => fl.2.2.1.map (fun x => (fl, x)))).map (fun q => ((e, q.1), q.2))) = pronPairs l := by
        unfold pronPairs
        congr 1
        funext e
        rw [List.map_flatMap]
        congr 1
        funext fl
        rw [List.map_map]
        rfl
      rw [heq] at this
      exact this

/-- **C01, tags of a form, end to end**: for a form row `f0` written by this add, `get_form_tags`
reports exactly the `<Tag>`s of the document's form-like elements (lemma or form, with the
(id, rank) pair `FORM_QUERY` is asked for) that resolve to `f0`, in document order, text and category
unaltered — provided the tags already stored point at forms already stored -/
theorem C01_form_tags_end_to_end {norm : String → String} {dr : Nat} {db db' : Db} {l : Lexicon}
    (t : AddTrace norm dr db db' l)
    (hfk : ∀ o ∈ db.tags, o.form ∈ db.forms.map (·.rowid)) (f0 : Nat) (hnew : f0 ∉ db.forms.map (·.rowid)) :
    (formTags db' f0).map (fun r => (r.tag, r.category)) =
      ((tagPairs l).filter (fun q => formRow db' q.1.1.id (t.ctx.lid q.1.1.id) q.1.2.1 q.1.2.2.1 == some f0)).map
        (fun q => (q.2.text, q.2.category)) := by
  obtain ⟨⟨rows, hrows, hF⟩, _⟩ := addLexicon_tags_prons_tables t
  unfold formTags
  rw [hrows, List.filter_append]
  have hold : db.tags.filter (fun r => r.form == f0) = [] := by
    rw [List.filter_eq_nil_iff]
    intro o ho
    have : o.form ≠ f0 := fun e => hnew (e ▸ hfk o ho)
    simpa using this
  rw [hold, List.nil_append]
  exact looked_up_rows_filter (fun (q : (Entry × FL) × Tag) => formRow db' q.1.1.id (t.ctx.lid q.1.1.id) q.1.2.1 q.1.2.2.1)
    (·.form) (fun r : RTag => (r.tag, r.category)) (fun q => (q.2.text, q.2.category))
    (Forall2.imp (fun q r hr => ⟨hr.1, by rw [hr.2.1, hr.2.2]⟩) hF) f0

/-- **C01, pronunciations of a form, end to end** -/
theorem C01_form_pronunciations_end_to_end {norm : String → String} {dr : Nat} {db db' : Db} {l : Lexicon}
    (t : AddTrace norm dr db db' l)
    (hfk : ∀ o ∈ db.prons, o.form ∈ db.forms.map (·.rowid)) (f0 : Nat) (hnew : f0 ∉ db.forms.map (·.rowid)) :
    (formProns db' f0).map (fun r => (r.value, r.variety, r.notat, r.phonemic, r.audio)) =
      ((pronPairs l).filter (fun q => formRow db' q.1.1.id (t.ctx.lid q.1.1.id) q.1.2.1 q.1.2.2.1 == some f0)).map
        (fun q => (q.2.text, q.2.variety, q.2.notat, boolOr q.2.phonemic true, q.2.audio)) := by
  obtain ⟨_, ⟨rows, hrows, hF⟩⟩ := addLexicon_tags_prons_tables t
  unfold formProns
  rw [hrows, List.filter_append]
  have hold : db.prons.filter (fun r => r.form == f0) = [] := by
    rw [List.filter_eq_nil_iff]
    intro o ho
    have : o.form ≠ f0 := fun e => hnew (e ▸ hfk o ho)
    simpa using this
  rw [hold, List.nil_append]
  exact looked_up_rows_filter (fun (q : (Entry × FL) × Pron) => formRow db' q.1.1.id (t.ctx.lid q.1.1.id) q.1.2.1 q.1.2.2.1)
    (·.form) (fun r : RPron => (r.value, r.variety, r.notat, r.phonemic, r.audio))
    (fun q => (q.2.text, q.2.variety, q.2.notat, boolOr q.2.phonemic true, q.2.audio))
    (Forall2.imp (fun q r hr => ⟨hr.1, hr.2⟩) hF) f0

/-! ### members of a synset in the order of its `members` attribute -/

theorem insertBy_perm {α} (key : α → Nat) (a : α) : ∀ (l : List α), (insertBy key a l).Perm (a :: l) := by
  intro l
  induction l with
  | nil => exact List.Perm.refl _
  | cons b t ih =>
    simp only [insertBy]
    split
    · exact (List.Perm.cons b ih).trans (List.Perm.swap a b t)
    · exact List.Perm.refl _

theorem sortBy_perm {α} (key : α → Nat) (l : List α) : (sortBy key l).Perm l := by
  unfold sortBy
  suffices ∀ (l acc : List α), (l.foldl (fun acc a => insertBy key a acc) acc).Perm (acc ++ l) by
    simpa using this l []
  intro l
  induction l with
  | nil => intro acc; simp
  | cons a t ih =>
    intro acc
    simp only [List.foldl_cons]
    refine (ih (insertBy key a acc)).trans ?_
    have h1 : (insertBy key a acc ++ t).Perm ((a :: acc) ++ t) := List.Perm.append_right t (insertBy_perm key a acc)
    refine h1.trans ?_
    simp only [List.cons_append]
    exact (List.perm_middle).symm

theorem insertBy_sorted {α} (key : α → Nat) (a : α) : ∀ (l : List α), l.Pairwise (fun x y => key x ≤ key y) →
    (insertBy key a l).Pairwise (fun x y => key x ≤ key y) := by
  intro l
  induction l with
  | nil => intro _; simp [insertBy]
  | cons b t ih =>
    intro h
    rw [List.pairwise_cons] at h
    simp only [insertBy]
    split
    · rename_i hle
      rw [List.pairwise_cons]
      refine ⟨?_, ih h.2⟩
      intro x hx
      rcases (mem_insertBy key a t x).mp hx with rfl | hx
      · exact hle
      · exact h.1 x hx
    · rename_i hnle
      rw [List.pairwise_cons]
      refine ⟨?_, List.pairwise_cons.mpr h⟩
      intro x hx
      rcases List.mem_cons.mp hx with rfl | hx
      · omega
      · have := h.1 x hx; omega

theorem sortBy_sorted {α} (key : α → Nat) (l : List α) : (sortBy key l).Pairwise (fun x y => key x ≤ key y) := by
  unfold sortBy
  suffices ∀ (l acc : List α), acc.Pairwise (fun x y => key x ≤ key y) →
      (l.foldl (fun acc a => insertBy key a acc) acc).Pairwise (fun x y => key x ≤ key y) by
    exact this l [] List.Pairwise.nil
  intro l
  induction l with
  | nil => intro acc h; exact h
  | cons a t ih => intro acc h; exact ih _ (insertBy_sorted key a acc h)

theorem idxOf_pairwise_of_nodup : ∀ (M : List String), M.Nodup → M.Pairwise (fun a b => M.idxOf a ≤ M.idxOf b) := by
  intro M
  induction M with
  | nil => intro _; exact List.Pairwise.nil
  | cons a t ih =>
    intro h
    rw [List.nodup_cons] at h
    rw [List.pairwise_cons]
    constructor
    · intro b _
      simp [List.idxOf_cons]
    · have := ih h.2
      refine List.Pairwise.imp_of_mem ?_ this
      intro x y hx hy hxy
      have hxa : (a == x) = false := by
        have : a ≠ x := fun e => h.1 (e ▸ hx)
        simpa using this
      have hya : (a == y) = false := by
        have : a ≠ y := fun e => h.1 (e ▸ hy)
        simpa using this
      simp only [List.idxOf_cons, hxa, hya, cond_false]
      omega

theorem idxOf_inj_of_mem (M : List String) (a b : String) (ha : a ∈ M) (h : M.idxOf a = M.idxOf b) : a = b := by
  have h1 := List.getElem_idxOf (List.idxOf_lt_length_of_mem ha)
  have hb : M.idxOf b < M.length := by rw [← h]; exact List.idxOf_lt_length_of_mem ha
  have h2 := List.getElem_idxOf hb
  rw [← h1, ← h2]
  simp only [h]

/-- **C01, members of a synset in the order of its `members` attribute**: when the senses that
reference the synset are exactly the ids listed in `members` (each once) and each is ranked by its
position there, `get_synset_members` lists them in exactly that order -/
theorem C01_synset_members_listed_order {norm : String → String} {dr : Nat} {db db' : Db} {l : Lexicon}
    (t : AddTrace norm dr db db' l)
    (hfkS : ∀ o ∈ db.senses, o.lex ∈ db.lexicons.map (·.rowid))
    (hnE : (db.entries.map (·.rowid)).Nodup) (hnY : (db.synsets.map (·.rowid)).Nodup)
    (sid : String) (x0 : Nat) (hx0 : synsetRow db' sid (t.ctx.lid sid) = some x0)
    (M : List String) (hM : M.Nodup)
    (hcover : (((sensePairs l).filter (fun p => p.2.1.synset == sid)).map (fun p => p.2.1.id)).Perm M)
    (hrank : ∀ p ∈ sensePairs l, p.2.1.synset = sid → memberRank l dr p.2.1.id = M.idxOf p.2.1.id) :
    (synsetMembers db' x0 [t.lexid]).map (fun s => s.id) = M := by
  obtain ⟨hE, hY, rows, hrows, hF, _⟩ := addLexicon_sense_table t
  obtain ⟨rows', hrows', hR⟩ := addLexicon_sense_ranks t
  have heq : rows = rows' := List.append_cancel_left (hrows.symm.trans hrows')
  rw [← heq] at hR
  have hFR := Forall2.and hF hR
  obtain ⟨_, g2, g3⟩ := insertLexicon_frame2 _ _ _ _ _ t.hlex
  have hlexid : t.lexid = nextId (db.lexicons.map (·.rowid)) := (insertLexicon_frame _ _ _ _ _ t.hlex).2.2.1
  have hnY' : (db'.synsets.map (·.rowid)).Nodup := by
    rw [hY]
    apply insertSynsets_nodupY _ _ _ _ t.hsyn
    rw [g2]; exact hnY
  have hnE' : (db'.entries.map (·.rowid)).Nodup := by
    rw [hE]
    apply insertEntries_nodupE _ _ _ _ t.hent
    rw [(keepsF_insertSynsets l _ _ _ t.hsyn).1, g3]; exact hnE
  have hx0' : synsetRowY' db'.synsets sid (t.ctx.lid sid) = some x0 := hx0
  unfold synsetMembers
  rw [hrows]
  rw [filter_owned_append db.senses rows (·.synset) (·.lex) x0 t.lexid
    (fun o ho e' => by have := hfkS o ho; rw [e', hlexid] at this; exact nextId_not_mem _ this)
    (Forall2.forall_right (fun _ _ hr => hr.2.1) hF)]
  have hsub : Forall2 (fun (p : Entry × (Sense × Nat)) row => SenseRowT t.ctx (db'.entries, db'.synsets) p.1 p.2 row ∧
        (row.srank = memberRank l dr p.2.1.id ∧ row.id = p.2.1.id))
      ((sensePairs l).filter (fun p => p.2.1.synset == sid)) (rows.filter (fun r => r.synset == x0)) := by
    apply Forall2.filter_agree _ _ _ hFR
    intro p row hr
    by_cases q : p.2.1.synset = sid
    · have : row.synset = x0 := by
        have h5 := hr.1.2.2.2.2
        simp only at h5
        rw [q, hx0'] at h5
        exact (Option.some.inj h5).symm
      simp [q, this]
    · have : row.synset ≠ x0 := by
        intro q'
        have h5 := hr.1.2.2.2.2
        simp only at h5
        exact q (synsetRowY'_inj _ hnY' _ _ _ _ (by rw [h5, q']) hx0')
      have q1 : (p.2.1.synset == sid) = false := by simpa using q
      have q2 : (row.synset == x0) = false := by simpa using this
      rw [q1, q2]
  -- ranks are the positions in `members`
  have hkey : ∀ r ∈ rows.filter (fun r => r.synset == x0), r.srank = M.idxOf r.id := by
    intro r hr
    obtain ⟨p, hp, hpr⟩ := Forall2.exists_of_mem_right hsub r hr
    obtain ⟨hpm, hps⟩ := List.mem_filter.mp hp
    rw [hpr.2.1, hpr.2.2]
    exact hrank p hpm (by simpa using hps)
  have hdec : ∀ r ∈ rows.filter (fun r => r.synset == x0), ∃ d, senseData db' r = some d ∧ d.id = r.id := by
    intro r hr
    obtain ⟨p, _, hpr⟩ := Forall2.exists_of_mem_right hsub r hr
    obtain ⟨a1, _, _, a4, a5⟩ := hpr.1
    exact ⟨_, senseData_resolve db' r p.1.id p.2.1.synset _ _ a4 a5 hnE' hnY', rfl⟩
  have hfm : ∀ (S : List RSense), (∀ r ∈ S, ∃ d, senseData db' r = some d ∧ d.id = r.id) →
      (S.filterMap (senseData db')).map (fun s => s.id) = S.map (·.id) := by
    intro S
    induction S with
    | nil => intro _; rfl
    | cons a S ih =>
      intro h
      obtain ⟨d, hd, hdi⟩ := h a List.mem_cons_self
      rw [List.filterMap_cons, hd]
      simp only [List.map_cons, hdi, ih (fun r hr => h r (List.mem_cons_of_mem _ hr))]
  rw [hfm _ (fun r hr => hdec r ((mem_sortBy _ _ r).mp hr))]
  -- a permutation of `members`, sorted by position in `members`
  have hperm : ((sortBy (·.srank) (rows.filter (fun r => r.synset == x0))).map (·.id)).Perm M := by
    refine ((sortBy_perm _ _).map _).trans ?_
    have : (rows.filter (fun r => r.synset == x0)).map (·.id) =
        ((sensePairs l).filter (fun p => p.2.1.synset == sid)).map (fun p => p.2.1.id) :=
      Forall2.map_eq (fun r : RSense => r.id) (fun p : Entry × (Sense × Nat) => p.2.1.id) (fun _ _ hr => hr.2.2) hsub
    rw [this]
    exact hcover
  have hsorted : ((sortBy (·.srank) (rows.filter (fun r => r.synset == x0))).map (·.id)).Pairwise
      (fun a b => M.idxOf a ≤ M.idxOf b) := by
    rw [List.pairwise_map]
    refine List.Pairwise.imp_of_mem ?_ (sortBy_sorted (fun r : RSense => r.srank) _)
    intro a b ha hb hab
    rw [← hkey a ((mem_sortBy _ _ a).mp ha), ← hkey b ((mem_sortBy _ _ b).mp hb)]
    exact hab
  exact List.Perm.eq_of_pairwise (le := fun a b => M.idxOf a ≤ M.idxOf b)
    (fun a b ha _ h1 h2 => idxOf_inj_of_mem M a b (hperm.subset ha) (Nat.le_antisymm h1 h2))
    hsorted (idxOf_pairwise_of_nodup M hM) hperm


end WnVerif.Props.C01
