/-
C20 — invalid WN-LMF is rejected as a whole; `is_lmf` agrees with the header check of `load`.
Theorems over `Model/LmfScan.lean` (header, `is_lmf`) and the structural checks of the loader in
`Model/Lmf.lean` (`treeOk`, `loadTree`), plus the obligations that tie the model's tables to the
tables regenerated from `wn/lmf.py` (`Gen/Lmf.lean`).
-/
import WnVerif.Model.LmfScan
import WnVerif.Model.Lmf
import WnVerif.Gen.Lmf
namespace WnVerif.Props.C20
open WnVerif.LmfScan WnVerif.Lmf

/-! ### tie to the source: the tables of the model are the tables of `lmf.py` -/

theorem C20_gen_xmldecl : Gen.lmf_xmldecl = xmldecl := by decide
theorem C20_gen_versions : Gen.lmf_versions = versions := by decide
theorem C20_gen_doctypes : Gen.lmf_doctypes = versions.map (fun v => (doctypeOf v, v)) := by decide
/-- every element name valid in version v (and the key it is stored under) -/
theorem C20_gen_elems_1_0 : (∀ n ∈ elems10, n ∈ Gen.lmf_elems_1_0.map (·.1)) ∧ (∀ n ∈ Gen.lmf_elems_1_0.map (·.1), n ∈ elems10) := by decide
theorem C20_gen_elems_1_1 : (∀ n ∈ elems11, n ∈ Gen.lmf_elems_1_1.map (·.1)) ∧ (∀ n ∈ Gen.lmf_elems_1_1.map (·.1), n ∈ elems11) := by decide
theorem C20_gen_elems_later : Gen.lmf_elems_1_2 = Gen.lmf_elems_1_1 ∧ Gen.lmf_elems_1_3 = Gen.lmf_elems_1_1 := by decide
theorem C20_gen_keys : ∀ p ∈ Gen.lmf_elems_1_1, keyOf p.1 = p.2 := by decide
/-- single-valued = valid element that is not in `_LIST_ELEMS` -/
theorem C20_gen_single_valued : ∀ p ∈ Gen.lmf_elems_1_1, singleValued p.1 = !Gen.lmf_list_elems.contains p.1 := by decide

/-! ### header -/

theorem rstrip_prefix (s : List Char) : ∃ t, s = rstrip s ++ t := by
  unfold rstrip
  refine ⟨(s.reverse.takeWhile isAsciiWs).reverse, ?_⟩
  rw [← List.reverse_append, List.takeWhile_append_dropWhile, List.reverse_reverse]

theorem dq_eq_of_ne (c : Char) (d : Char) (hd : d ≠ '"') (h : (if c == '\'' then '"' else c) = d) : c = d := by
  split at h
  · exact absurd h.symm hd
  · exact h

/-- a first line accepted by `_read_header` starts with `<?xml ` -/
theorem header_isXml (l1 : List Char) (h : dq (rstrip l1) = xmldecl.toList) : isXml l1 = true := by
  obtain ⟨t, ht⟩ := rstrip_prefix l1
  generalize rstrip l1 = r at h ht
  unfold dq at h
  have hx : xmldecl.toList = ['<', '?', 'x', 'm', 'l', ' '] ++ "version=\"1.0\" encoding=\"UTF-8\"?>".toList := by decide
  rw [hx] at h
  rcases r with _ | ⟨c1, _ | ⟨c2, _ | ⟨c3, _ | ⟨c4, _ | ⟨c5, _ | ⟨c6, rest⟩⟩⟩⟩⟩⟩
  iterate 6 simp at h
  · simp only [List.map_cons, List.cons_append, List.nil_append, List.cons.injEq] at h
    obtain ⟨h1, h2, h3, h4, h5, h6, _⟩ := h
    have e1 := dq_eq_of_ne c1 '<' (by decide) h1
    have e2 := dq_eq_of_ne c2 '?' (by decide) h2
    have e3 := dq_eq_of_ne c3 'x' (by decide) h3
    have e4 := dq_eq_of_ne c4 'm' (by decide) h4
    have e5 := dq_eq_of_ne c5 'l' (by decide) h5
    have e6 := dq_eq_of_ne c6 ' ' (by decide) h6
    subst e1 e2 e3 e4 e5 e6
    rw [ht]
    have : "<?xml ".toList = ['<', '?', 'x', 'm', 'l', ' '] := by decide
    unfold isXml
    rw [this]
    simp [List.isPrefixOf]

/-- `is_lmf()` is true exactly for the files whose header `load()` accepts -/
theorem C20_islmf_iff_header (l1 l2 : List Char) : isLmf l1 l2 = true ↔ (readHeader l1 l2).isSome = true := by
  unfold isLmf
  constructor
  · intro h; simp only [Bool.and_eq_true] at h; exact h.2
  · intro h
    simp only [Bool.and_eq_true]
    refine ⟨?_, h⟩
    unfold readHeader at h
    split at h
    · simp at h
    · rename_i hne
      apply header_isXml
      simpa using hne

/-- an accepted header names a supported version, and the second line is that version's DOCTYPE
(modulo trailing whitespace and the kind of quotes) -/
theorem C20_header_version (l1 l2 : List Char) (v : String) (h : readHeader l1 l2 = some v) :
    v ∈ versions ∧ dq (rstrip l1) = xmldecl.toList ∧ dq (rstrip l2) = (doctypeOf v).toList := by
  unfold readHeader at h
  split at h
  · simp at h
  · rename_i hne
    have h1 := List.mem_of_find?_eq_some h
    have h2 := List.find?_some h
    exact ⟨h1, by simpa using hne, by simpa using h2⟩

/-- without the XML declaration, or without a supported DOCTYPE, the header is rejected -/
theorem C20_header_rejects_no_decl (l1 l2 : List Char) (h : dq (rstrip l1) ≠ xmldecl.toList) : readHeader l1 l2 = none := by
  unfold readHeader; simp [h]
theorem C20_header_rejects_no_doctype (l1 l2 : List Char) (h : ∀ v ∈ versions, dq (rstrip l2) ≠ (doctypeOf v).toList) :
    readHeader l1 l2 = none := by
  unfold readHeader
  split
  · rfl
  · rw [List.find?_eq_none]
    intro v hv
    simpa using h v hv

/-! ### structure: unknown elements and repeated single-valued children -/

/-- `s` is `t` or nested somewhere inside it -/
inductive Sub : Xml → Xml → Prop
  | refl (t) : Sub t t
  | child {s c t} : c ∈ t.children → Sub s c → Sub s t

theorem allOk_mem (v : String) : ∀ (cs : List Xml), allOk v cs = true → ∀ c ∈ cs, treeOk v c = true := by
  intro cs
  induction cs with
  | nil => intro _ c hc; simp at hc
  | cons a t ih =>
    intro h c hc
    simp only [allOk, Bool.and_eq_true] at h
    rcases List.mem_cons.mp hc with rfl | hc
    · exact h.1
    · exact ih h.2 c hc

theorem treeOk_children (v : String) (t : Xml) (h : treeOk v t = true) :
    childrenOk v t.children = true ∧ ∀ c ∈ t.children, treeOk v c = true := by
  cases t with
  | elem n a tx cs =>
    simp only [treeOk, Bool.and_eq_true] at h
    exact ⟨h.1, allOk_mem v cs h.2⟩

theorem treeOk_sub (v : String) (s t : Xml) (hs : Sub s t) (h : treeOk v t = true) : childrenOk v s.children = true := by
  revert h
  induction hs with
  | refl => intro h; exact (treeOk_children v _ h).1
  | child hc _ ih => intro h; exact ih ((treeOk_children v _ h).2 _ hc)

/-- a document using, at any depth, an element that does not exist in its declared version is
rejected -/
theorem C20_unknown_element_rejected (v : String) (t s c : Xml) (hs : Sub s t) (hc : c ∈ s.children)
    (hbad : c.name ∉ validElems v) : ∃ e, loadTree v t = .error e := by
  have hnot : treeOk v (.elem "" [] "" [t]) = false := by
    cases hok : treeOk v (.elem "" [] "" [t]) with
    | false => rfl
    | true =>
      have h1 := (treeOk_children v _ hok).2 t (by simp [Xml.children])
      have h2 := treeOk_sub v s t hs h1
      unfold childrenOk at h2
      simp only [Bool.and_eq_true, List.all_eq_true, List.contains_iff_mem] at h2
      exact absurd (h2.1 c hc) hbad
  unfold loadTree
  by_cases hn : t.name != "LexicalResource"
  · exact ⟨_, by simp [hn]; rfl⟩
  · simp only [hn, hnot]
    exact ⟨_, rfl⟩

/-- the root itself must be an element of the version (and be `LexicalResource`) -/
theorem C20_root_checked (v : String) (t : Xml) (h : t.name ≠ "LexicalResource") : ∃ e, loadTree v t = .error e := by
  unfold loadTree
  have : (t.name != "LexicalResource") = true := by simpa using h
  simp only [this]
  exact ⟨_, rfl⟩

theorem nodupB_nodup : ∀ (l : List String), nodupB l = true → l.Nodup := by
  intro l
  induction l with
  | nil => intro _; simp
  | cons a t ih =>
    intro h
    simp only [nodupB, Bool.and_eq_true, Bool.not_eq_eq_eq_not, Bool.not_true] at h
    rw [List.nodup_cons]
    exact ⟨by simpa using h.1, ih h.2⟩

/-- a parent with two children stored under the same single-valued key (two `Lemma`s, a `Lemma` and
an `ExternalLemma`, two `ILIDefinition`s, two `Extends`) is rejected -/
theorem C20_repeated_single_rejected (v : String) (t s : Xml) (hs : Sub s t)
    (hdup : ¬ ((s.children.filter (fun c => singleValued c.name)).map (fun c => keyOf c.name)).Nodup) :
    ∃ e, loadTree v t = .error e := by
  have hnot : treeOk v (.elem "" [] "" [t]) = false := by
    cases hok : treeOk v (.elem "" [] "" [t]) with
    | false => rfl
    | true =>
      have h1 := (treeOk_children v _ hok).2 t (by simp [Xml.children])
      have h2 := treeOk_sub v s t hs h1
      unfold childrenOk at h2
      simp only [Bool.and_eq_true] at h2
      exact absurd (nodupB_nodup _ h2.2) hdup
  unfold loadTree
  by_cases hn : t.name != "LexicalResource"
  · exact ⟨_, by simp [hn]; rfl⟩
  · simp only [hn, hnot]
    exact ⟨_, rfl⟩

/-! ### required identifying attributes -/

theorem reqAttr_missing (x : Xml) (k : String) (h : attr x k = none) : ∃ e, reqAttr x k = .error e := by
  unfold reqAttr; rw [h]; exact ⟨_, rfl⟩

/-- a `Lexicon` / `LexiconExtension` without `id` (or `version`) is rejected, whatever else it contains -/
theorem C20_lexicon_without_id_rejected (x : Xml) (h : attr x "id" = none) : ∃ e, loadLexicon x = .error e := by
  obtain ⟨e, he⟩ := reqAttr_missing x "id" h
  unfold loadLexicon
  simp only [bind, Except.bind, he]
  repeat' split
  all_goals exact ⟨_, rfl⟩

theorem C20_lexicon_without_version_rejected (x : Xml) (h : attr x "version" = none) : ∃ e, loadLexicon x = .error e := by
  obtain ⟨e, he⟩ := reqAttr_missing x "version" h
  unfold loadLexicon
  simp only [bind, Except.bind, he]
  repeat' split
  all_goals exact ⟨_, rfl⟩

/-- an entry, sense or synset without `id` is rejected -/
theorem C20_sense_without_id_rejected (x : Xml) (h : attr x "id" = none) : ∃ e, loadSense x = .error e := by
  obtain ⟨e, he⟩ := reqAttr_missing x "id" h
  unfold loadSense
  simp only [bind, Except.bind, he]
  repeat' split
  all_goals exact ⟨_, rfl⟩

theorem C20_synset_without_id_rejected (b : Bool) (x : Xml) (h : attr x "id" = none) : ∃ e, loadSynset b x = .error e := by
  obtain ⟨e, he⟩ := reqAttr_missing x "id" h
  unfold loadSynset
  simp only [bind, Except.bind, he]
  repeat' split
  all_goals first | exact ⟨_, rfl⟩ | (simp only [throw, throwThe, MonadExcept.throw]; exact ⟨_, rfl⟩)

theorem C20_entry_without_id_rejected (b : Bool) (x : Xml) (h : attr x "id" = none) : ∃ e, loadEntry b x = .error e := by
  obtain ⟨e, he⟩ := reqAttr_missing x "id" h
  unfold loadEntry
  simp only [bind, Except.bind, he]
  repeat' split
  all_goals first | exact ⟨_, rfl⟩ | (simp only [throw, throwThe, MonadExcept.throw]; exact ⟨_, rfl⟩)

/-- errors propagate: if any lexicon of the document is rejected, the whole load is rejected -/
theorem mapM_error {α β} (f : α → R β) : ∀ (l : List α) (a : α), a ∈ l → (∃ e, f a = .error e) → ∃ e, l.mapM f = .error e := by
  intro l
  induction l with
  | nil => intro a ha; simp at ha
  | cons b t ih =>
    intro a ha he
    rw [List.mapM_cons]
    rcases List.mem_cons.mp ha with rfl | ha
    · obtain ⟨e, he⟩ := he
      exact ⟨e, by simp [bind, Except.bind, he]⟩
    · obtain ⟨e, he'⟩ := ih a ha he
      cases hb : f b with
      | error e0 => exact ⟨e0, by simp [bind, Except.bind]⟩
      | ok vb => exact ⟨e, by simp [bind, Except.bind, he']⟩

theorem C20_rejected_as_a_whole (v : String) (t x : Xml) (hx : x ∈ kids t ["Lexicon", "LexiconExtension"])
    (hbad : ∃ e, loadLexicon x = .error e) : ∃ e, loadTree v t = .error e := by
  obtain ⟨e, he⟩ := mapM_error loadLexicon _ x hx hbad
  unfold loadTree
  simp only [bind, Except.bind, he]
  repeat' split
  all_goals first | exact ⟨_, rfl⟩ | (simp only [throw, throwThe, MonadExcept.throw]; exact ⟨_, rfl⟩)

/-! ### known finding F15: `scan_lexicons` reports the raw attribute text of the label -/

/-- kernel-checked witness: the regular-expression scan returns `Tom &amp; Jerry` for a label that
`load()` reports as `Tom & Jerry` (ids and versions agree) -/
theorem C20_scan_label_entity_counterexample :
    scanLexicons "<Lexicon id=\"a\" label=\"Tom &amp; Jerry\" version=\"1\">".toList =
      some [{ id := "a", version := "1", label := some "Tom &amp; Jerry", ext := none }] := by decide +kernel

end WnVerif.Props.C20
