import WnVerif.Model.Lmf
import WnVerif.Model.LmfScan
namespace WnVerif.Props.C20
theorem placeholder_true : True := trivial
end WnVerif.Props.C20
