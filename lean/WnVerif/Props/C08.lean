import WnVerif.Model.Glob
namespace WnVerif.Props.C08
theorem placeholder_true : True := trivial
end WnVerif.Props.C08
