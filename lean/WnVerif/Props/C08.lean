/-
C08 — lexicon specifiers and language codes select exactly the documented lexicons.
Model: `Model/Glob.lean` (SQLite GLOB, `find_lexicons`).
-/
import WnVerif.Model.Glob
import WnVerif.Model.Api
namespace WnVerif.Props.C08
open WnVerif.Glob WnVerif.Db

def PlainC (c : Char) : Prop := c ≠ '*' ∧ c ≠ '?' ∧ c ≠ '['

/-- a pattern without metacharacters matches exactly itself (`id:version` selects exactly that lexicon) -/
theorem glob_plain : ∀ (p s : List Char) (fuel : Nat), (∀ c ∈ p, PlainC c) → p.length ≤ fuel →
    (glob fuel p s = true ↔ s = p) := by
  intro p
  induction p with
  | nil => intro s fuel _ _; cases s <;> simp [glob]
  | cons c p ih =>
    intro s fuel hp hf
    have hc := hp c (by simp)
    obtain ⟨h1, h2, h3⟩ := hc
    cases s with
    | nil => simp [glob, h1, h2, h3]
    | cons d s =>
      cases fuel with
      | zero => simp at hf
      | succ f =>
        have := ih s f (fun c hc => hp c (by simp [hc])) (by simp at hf; omega)
        simp [glob, h1, h2, h3, this]
        intro _; exact eq_comm

theorem C08_literal (p s : List Char) (hp : ∀ c ∈ p, PlainC c) : globL p s = true ↔ s = p :=
  glob_plain p s _ hp (by omega)

/-- `*` matches every string (`'*'` selects all lexicons) -/
theorem glob_star_all : ∀ (s : List Char) (fuel : Nat), s.length < fuel → glob fuel ['*'] s = true := by
  intro s
  induction s with
  | nil => intro fuel h; cases fuel with
    | zero => omega
    | succ f => simp [glob]
  | cons c s ih =>
    intro fuel h
    cases fuel with
    | zero => omega
    | succ f =>
      have := ih f (by simp at h; omega)
      simp [glob, this]

theorem C08_star (s : List Char) : globL ['*'] s = true :=
  glob_star_all s _ (by simp; omega)

/-- a plain prefix followed by `*` matches exactly the strings with that prefix
(`id:*` selects all versions of an id: the prefix is `id:`) -/
theorem glob_prefix_star : ∀ (p s : List Char) (fuel : Nat), (∀ c ∈ p, PlainC c) → p.length + s.length < fuel →
    (glob fuel (p ++ ['*']) s = true ↔ p.isPrefixOf s = true) := by
  intro p
  induction p with
  | nil =>
    intro s fuel _ hf
    simp [glob_star_all s fuel (by simpa using hf)]
  | cons c p ih =>
    intro s fuel hp hf
    obtain ⟨h1, h2, h3⟩ := hp c (by simp)
    cases s with
    | nil => simp [glob, h1, h2, h3]
    | cons d s =>
      cases fuel with
      | zero => omega
      | succ f =>
        have := ih s f (fun c hc => hp c (by simp [hc])) (by simp at hf; omega)
        simp [glob, h1, h2, h3, this, List.isPrefixOf]

theorem C08_id_star (p s : List Char) (hp : ∀ c ∈ p, PlainC c) :
    globL (p ++ ['*']) s = true ↔ p.isPrefixOf s = true :=
  glob_prefix_star p s _ hp (by simp [List.length_append]; omega)

theorem pickLast_mem : ∀ (rows : List RLexicon) (y : RLexicon), pickLast rows = some y → y ∈ rows := by
  intro rows
  induction rows with
  | nil => intro y h; simp [pickLast] at h
  | cons a t ih =>
    intro y h
    simp only [pickLast] at h
    cases hp : pickLast t with
    | none => rw [hp] at h; simp at h; subst h; simp
    | some x =>
      rw [hp] at h
      simp only at h
      split at h
      · simp at h; subst h; simp
      · simp at h; subst h; exact List.mem_cons_of_mem _ (ih x hp)

theorem pickLast_max : ∀ (rows : List RLexicon) (y : RLexicon), pickLast rows = some y →
    ∀ z ∈ rows, z.rowid ≤ y.rowid := by
  intro rows
  induction rows with
  | nil => intro y h; simp [pickLast] at h
  | cons a t ih =>
    intro y h z hz
    simp only [pickLast] at h
    cases hp : pickLast t with
    | none =>
      rw [hp] at h; simp at h; subst h
      cases t with
      | nil => simp at hz; subst hz; exact Nat.le_refl _
      | cons b t' =>
        simp only [pickLast] at hp
        split at hp
        · simp at hp
        · split at hp <;> simp at hp
    | some x =>
      rw [hp] at h
      simp only at h
      have hx := ih x hp
      split at h
      · rename_i hlt
        simp at h; subst h
        rcases List.mem_cons.mp hz with rfl | hz
        · exact Nat.le_refl _
        · exact Nat.le_of_lt (Nat.lt_of_le_of_lt (hx z hz) hlt)
      · rename_i hnlt
        simp at h; subst h
        rcases List.mem_cons.mp hz with rfl | hz
        · omega
        · exact hx z hz

/-- every lexicon returned for a specifier matches it by GLOB and has the requested language:
"a lexicon matched by none of the given specifiers is never selected" -/
theorem C08_never_unmatched (db : Db) (spec : List Char) (lang : Option String) (r : RLexicon)
    (h : r ∈ matchSpecifier db spec lang) : r ∈ db.lexicons ∧ specMatches spec lang r = true := by
  unfold matchSpecifier at h
  simp only at h
  split at h
  · simpa [List.mem_filter] using h
  · cases hp : pickLast (db.lexicons.filter (specMatches spec lang)) with
    | none => rw [hp] at h; simp at h
    | some y =>
      rw [hp] at h
      simp at h; subst h
      simpa [List.mem_filter] using pickLast_mem _ _ hp

/-- starred or colon-containing specifiers select *all* matching lexicons -/
theorem C08_all_matching (db : Db) (spec : List Char) (lang : Option String)
    (hs : (spec.contains '*' || spec.contains ':') = true) (r : RLexicon) :
    r ∈ matchSpecifier db spec lang ↔ r ∈ db.lexicons ∧ specMatches spec lang r = true := by
  unfold matchSpecifier
  simp only [hs, if_true, List.mem_filter]

/-- a bare id selects exactly one lexicon when some lexicon matches: the one with the greatest
rowid, i.e. (rowids are allocated as max+1) the most recently added one -/
theorem C08_bare_most_recent (db : Db) (spec : List Char) (lang : Option String)
    (hb : (spec.contains '*' || spec.contains ':') = false) :
    (matchSpecifier db spec lang = [] ∧ ∀ r ∈ db.lexicons, specMatches spec lang r = false) ∨
    (∃ y, matchSpecifier db spec lang = [y] ∧ y ∈ db.lexicons ∧ specMatches spec lang y = true ∧
      ∀ z ∈ db.lexicons, specMatches spec lang z = true → z.rowid ≤ y.rowid) := by
  unfold matchSpecifier
  simp only [hb, Bool.false_eq_true, if_false]
  cases hp : pickLast (db.lexicons.filter (specMatches spec lang)) with
  | none =>
    left
    refine ⟨rfl, ?_⟩
    intro r hr
    cases hm : specMatches spec lang r with
    | false => rfl
    | true =>
      have : r ∈ db.lexicons.filter (specMatches spec lang) := List.mem_filter.mpr ⟨hr, hm⟩
      cases hl : db.lexicons.filter (specMatches spec lang) with
      | nil => rw [hl] at this; simp at this
      | cons a t =>
        rw [hl] at hp
        simp only [pickLast] at hp
        split at hp
        · simp at hp
        · split at hp <;> simp at hp
  | some y =>
    right
    have hy := pickLast_mem _ _ hp
    have hmax := pickLast_max _ _ hp
    simp only [List.mem_filter] at hy
    exact ⟨y, rfl, hy.1, hy.2, fun z hz hm => hmax z (List.mem_filter.mpr ⟨hz, hm⟩)⟩

/-- a bare id never selects more than one lexicon -/
theorem C08_bare_at_most_one (db : Db) (spec : List Char) (lang : Option String)
    (hb : (spec.contains '*' || spec.contains ':') = false) : (matchSpecifier db spec lang).length ≤ 1 := by
  unfold matchSpecifier
  simp only [hb, Bool.false_eq_true, if_false]
  split <;> simp

/-- the language code restricts to lexicons of that language -/
theorem C08_lang (db : Db) (spec : List Char) (l : String) (r : RLexicon)
    (h : r ∈ matchSpecifier db spec (some l)) : r.language = l := by
  have := (C08_never_unmatched db spec (some l) r h).2
  simp only [specMatches, Bool.and_eq_true, beq_iff_eq] at this
  exact this.2

/-- a request that matches nothing is an error exactly when it specifies something -/
theorem C08_none_error_vs_empty (db : Db) (lexicon : String) (lang : Option String) :
    findLexicons db lexicon lang = none ↔
      ((splitWs lexicon.toList).flatMap (fun sp => matchSpecifier db sp lang) = [] ∧ (lexicon ≠ "*" ∨ lang.isSome)) := by
  unfold findLexicons
  simp only
  split
  · rename_i h
    simp only [Bool.and_eq_true, List.isEmpty_iff, Bool.or_eq_true, bne_iff_ne, ne_eq] at h
    simp [h.1, h.2]
  · rename_i h
    simp only [Bool.and_eq_true, List.isEmpty_iff, Bool.or_eq_true, bne_iff_ne, ne_eq, not_and] at h
    simp only [reduceCtorEq, false_iff, not_and]
    intro he
    have := h he
    simpa using this

/-- the result of a space-separated list is the concatenation (union) of its specifiers' results -/
theorem C08_union (db : Db) (lexicon : String) (lang : Option String) (rows : List RLexicon)
    (h : findLexicons db lexicon lang = some rows) :
    rows = (splitWs lexicon.toList).flatMap (fun sp => matchSpecifier db sp lang) := by
  unfold findLexicons at h
  simp only at h
  split at h
  · simp at h
  · simpa using h.symm

/-- non-vacuity: two versions added in the order 2020, 2019 — the bare id selects 2019 -/
def demoDb : Db := { lexicons := [
  { rowid := 1, id := "ewn", label := "", language := "en", email := "", license := "", version := "2020", url := none, citation := none, logo := none, md := none },
  { rowid := 2, id := "ewn", label := "", language := "en", email := "", license := "", version := "2019", url := none, citation := none, logo := none, md := none },
  { rowid := 3, id := "ewnx", label := "", language := "de", email := "", license := "", version := "2019", url := none, citation := none, logo := none, md := none }] }

theorem C08_example :
    ((findLexicons demoDb "ewn" none).map (·.map (·.version))) = some ["2019"] ∧
    ((findLexicons demoDb "ewn:*" none).map (·.map (·.version))) = some ["2020", "2019"] ∧
    ((findLexicons demoDb "*:2019" none).map (·.map (·.id))) = some ["ewn", "ewnx"] ∧
    ((findLexicons demoDb "ewn ewnx:*" (some "de")).map (·.map (·.id))) = some ["ewnx"] ∧
    findLexicons demoDb "zz" none = none ∧ findLexicons Db.empty "*" none = some [] := by
  decide +kernel

end WnVerif.Props.C08
