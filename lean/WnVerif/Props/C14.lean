/-
C14 — similarity metrics equal their formulas, are symmetric and bounded.

The formulas are those of `wn/similarity.py` over exact rationals (`Model/Sim.lean`);
`-log` is `Real.log` of Mathlib for `lch`.  Float rounding and `math.log` are
runtime behaviour, tied by the correspondence check only.
-/
import Mathlib.Algebra.Order.Field.Basic
import Mathlib.Tactic.Linarith
import Mathlib.Tactic.Positivity
import Mathlib.Tactic.FieldSimp
import Mathlib.Analysis.SpecialFunctions.Log.Basic
import WnVerif.Model.Sim
namespace WnVerif.Props.C14
open WnVerif.Sim WnVerif.Graph

/-- path lies in [0, 1] -/
theorem C14_path_range (d : Option Nat) : 0 ≤ pathQ d ∧ pathQ d ≤ 1 := by
  cases d with
  | none => simp [pathQ]
  | some d =>
    unfold pathQ
    constructor
    · positivity
    · rw [div_le_one (by positivity)]
      have : (0:ℚ) ≤ d := Nat.cast_nonneg d
      linarith

/-- path is 1 exactly for identical synsets (shortest path of length 0) … -/
theorem C14_path_one_iff (d : Option Nat) : pathQ d = 1 ↔ d = some 0 := by
  cases d with
  | none => simp [pathQ]
  | some d =>
    unfold pathQ
    have hpos : (0:ℚ) < (d:ℚ) + 1 := by positivity
    rw [div_eq_one_iff_eq (ne_of_gt hpos)]
    constructor
    · intro h
      have : (d:ℚ) = 0 := by linarith
      simp at this; simp [this]
    · intro h; simp at h; simp [h]

/-- … and 0 exactly when the synsets are unconnected -/
theorem C14_path_zero_iff (d : Option Nat) : pathQ d = 0 ↔ d = none := by
  cases d with
  | none => simp [pathQ]
  | some d =>
    unfold pathQ
    have hpos : (0:ℚ) < (d:ℚ) + 1 := by positivity
    simp
    intro h; linarith

/-- no pair scores higher than a synset with itself (path) -/
theorem C14_path_self_max (d : Option Nat) : pathQ d ≤ pathQ (some 0) := by
  have := (C14_path_range d).2
  simpa [pathQ] using this

/-- wup lies in (0, 1] (k = depth of the LCS + 1 ≥ 1) -/
theorem C14_wup_range (i j k : Nat) (hk : 1 ≤ k) : 0 < wupQ i j k ∧ wupQ i j k ≤ 1 := by
  unfold wupQ
  have hk' : (1:ℚ) ≤ k := by exact_mod_cast hk
  have hi : (0:ℚ) ≤ i := Nat.cast_nonneg i
  have hj : (0:ℚ) ≤ j := Nat.cast_nonneg j
  have hden : (0:ℚ) < (i:ℚ) + j + 2 * k := by linarith
  constructor
  · apply div_pos <;> linarith
  · rw [div_le_one hden]; linarith

/-- wup of a synset with itself is 1 (i = j = 0), hence maximal -/
theorem C14_wup_self (k : Nat) (hk : 1 ≤ k) : wupQ 0 0 k = 1 := by
  unfold wupQ
  have hk' : (1:ℚ) ≤ k := by exact_mod_cast hk
  have : (2:ℚ) * k ≠ 0 := by linarith
  simp [this]

theorem C14_wup_self_max (i j k k' : Nat) (hk : 1 ≤ k) (hk' : 1 ≤ k') :
    wupQ i j k ≤ wupQ 0 0 k' := by
  rw [C14_wup_self k' hk']; exact (C14_wup_range i j k hk).2

/-- the wup formula is symmetric in the two path lengths -/
theorem C14_wup_symm (i j k : Nat) : wupQ i j k = wupQ j i k := by
  unfold wupQ; rw [add_comm (i:ℚ) (j:ℚ)]

/-- the `lch` argument, as a real number, and the Leacock-Chodorow value -/
noncomputable def lchR (d D : ℕ) : ℝ := -Real.log (((d:ℝ) + 1) / (2 * (D:ℝ)))

/-- the rational computed by the model is the argument of the logarithm -/
theorem C14_lch_arg (d D : ℕ) : ((lchArg d D : ℚ) : ℝ) = ((d:ℝ) + 1) / (2 * (D:ℝ)) := by
  unfold lchArg; push_cast; ring

/-- no pair scores higher than a synset with itself (lch), for every taxonomy depth D > 0 -/
theorem C14_lch_self_max (d D : ℕ) (hD : 0 < D) : lchR d D ≤ lchR 0 D := by
  unfold lchR
  have hD' : (0:ℝ) < 2 * (D:ℝ) := by positivity
  have h1 : (0:ℝ) < ((0:ℕ):ℝ) + 1 := by norm_num
  have hle : (((0:ℕ):ℝ) + 1) / (2 * (D:ℝ)) ≤ ((d:ℝ) + 1) / (2 * (D:ℝ)) := by
    apply div_le_div_of_nonneg_right _ (le_of_lt hD')
    have : (0:ℝ) ≤ d := Nat.cast_nonneg d
    push_cast; linarith
  have := Real.log_le_log (by positivity) hle
  linarith

/-- incompatible parts of speech: `s` is treated as `a`, everything else must be equal -/
theorem C14_pos_compatible (p q : String) :
    posCompatible p q = true ↔ (if p = "s" then "a" else p) = (if q = "s" then "a" else q) := by
  unfold posCompatible
  by_cases hp : p = "s" <;> by_cases hq : q = "s" <;> simp [hp, hq]

theorem C14_a_s_compatible : posCompatible "a" "s" = true ∧ posCompatible "s" "a" = true ∧
    posCompatible "s" "s" = true := by decide

/-- incompatible parts of speech raise an error in every metric of the model -/
theorem C14_pos_error (g : Adj) (fuel : Nat) (pos : Nat → String) (a b : Nat) (sim : Bool) (D : Nat)
    (h : posCompatible (pos a) (pos b) = false) :
    (match Sim.path g fuel pos a b sim with | .error => True | _ => False) ∧
    (match Sim.wup g fuel pos a b sim with | .error => True | _ => False) ∧
    (match Sim.lch g fuel pos a b D sim with | .error => True | _ => False) := by
  simp [Sim.path, Sim.wup, Sim.lch, h]

/-- wup / lch raise without a common hypernym / without a path -/
theorem C14_no_common_error (g : Adj) (fuel : Nat) (pos : Nat → String) (a b : Nat) (sim : Bool)
    (h : lowestCommonHypernyms g fuel (some a) (some b) sim = []) :
    (match Sim.wup g fuel pos a b sim with | .error => True | _ => False) := by
  have : Sim.wup g fuel pos a b sim = .error := by
    unfold Sim.wup
    rw [h]
    split <;> rfl
  rw [this]; trivial

/-- path never raises for compatible parts of speech; it is `pathQ` of the shortest path length -/
theorem C14_path_formula (g : Adj) (fuel : Nat) (pos : Nat → String) (a b : Nat) (sim : Bool)
    (h : posCompatible (pos a) (pos b) = true) :
    Sim.path g fuel pos a b sim =
      .ok (pathQ ((shortestPath g fuel (some a) (some b) sim).map List.length)) := by
  simp [Sim.path, h]

/-! ### res: the selected subsumer is the one of highest *weight* (known finding F19) -/

/-- `_most_informative_lcs` returns a lowest common hypernym whose weight is maximal among them:
with weights monotone along hypernymy this is the *least* informative of the lowest common
hypernyms, not the maximum-IC common subsumer the documentation defines -/
theorem C14_res_partial (g : Adj) (fuel : Nat) (w : Nat → Rat) (a b c : Nat)
    (h : mostInformativeLcs g fuel w a b = some c) :
    c ∈ (lowestCommonHypernyms g fuel (some a) (some b) false).filterMap id ∧
    ∀ x ∈ (lowestCommonHypernyms g fuel (some a) (some b) false).filterMap id, w x ≤ w c := by
  unfold mostInformativeLcs at h
  generalize (lowestCommonHypernyms g fuel (some a) (some b) false).filterMap id = L at h ⊢
  cases L with
  | nil => simp at h
  | cons c0 t =>
    simp only [Option.some.injEq] at h
    have key : ∀ (t : List Nat) (m : Nat), (t.foldl (fun m x => if w m < w x then x else m) m = m ∨
        t.foldl (fun m x => if w m < w x then x else m) m ∈ t) ∧ w m ≤ w (t.foldl (fun m x => if w m < w x then x else m) m) ∧
        ∀ x ∈ t, w x ≤ w (t.foldl (fun m x => if w m < w x then x else m) m) := by
      intro t
      induction t with
      | nil => intro m; simp
      | cons y t ih =>
        intro m
        simp only [List.foldl_cons]
        by_cases hlt : w m < w y
        · obtain ⟨h1, h2, h3⟩ := ih y
          simp only [hlt, if_true]
          refine ⟨?_, le_trans (le_of_lt hlt) h2, ?_⟩
          · rcases h1 with h1 | h1
            · rw [h1]; right; exact List.mem_cons_self
            · right; exact List.mem_cons_of_mem _ h1
          · intro x hx
            rcases List.mem_cons.mp hx with rfl | hx
            · exact h2
            · exact h3 x hx
        · obtain ⟨h1, h2, h3⟩ := ih m
          simp only [hlt, if_false]
          refine ⟨?_, h2, ?_⟩
          · rcases h1 with h1 | h1
            · left; exact h1
            · right; exact List.mem_cons_of_mem _ h1
          · intro x hx
            rcases List.mem_cons.mp hx with rfl | hx
            · exact le_trans (not_lt.mp hlt) h2
            · exact h3 x hx
    obtain ⟨h1, h2, h3⟩ := key t c0
    rw [h] at h1 h2 h3
    refine ⟨?_, ?_⟩
    · rcases h1 with h1 | h1
      · rw [h1]; exact List.mem_cons_self
      · exact List.mem_cons_of_mem _ h1
    · intro x hx
      rcases List.mem_cons.mp hx with rfl | hx
      · exact h2
      · exact h3 x hx

/-- kernel-checked witness: 0 and 1 have the two lowest common hypernyms 2 and 3; with weights
w 2 = 5 > w 3 = 1 the code selects 2, whose information content −log(5/total) is *smaller* than
that of 3 — `res` is not the maximum IC over the common subsumers -/
def twoLcs : Adj := fun i => match i with
  | 0 => [2, 3]
  | 1 => [2, 3]
  | 2 => [4]
  | 3 => [4]
  | _ => []

theorem C14_res_two_lcs_counterexample :
    mostInformativeLcs twoLcs 6 (fun i => if i = 2 then 5 else if i = 3 then 1 else 6) 0 1 = some 2 := by decide +kernel

end WnVerif.Props.C14
