import WnVerif.Model.Sim
namespace WnVerif.Props.C14
theorem placeholder_true : True := trivial
end WnVerif.Props.C14
