import WnVerif.Model.Ic
namespace WnVerif.Props.C15
theorem placeholder_true : True := trivial
end WnVerif.Props.C15
