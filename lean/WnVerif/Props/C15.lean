/-
C15 — information-content weights are conserved, counted once and monotone.

`Model/Ic.lean` mirrors `wn/ic.py` (`_initialize`, `compute`) over exact
rationals.  `touched g n s` is the agenda walk of `compute`; the theorems show it
is exactly the set of `s` and its hypernym ancestors, each once, for every finite
hypernym graph (trees, diamonds, deeper convergences, cycles), and derive the
closed form of every weight from it.
-/
import Mathlib.Algebra.Order.Field.Basic
import Mathlib.Algebra.Order.BigOperators.Group.List
import Mathlib.Tactic.Linarith
import Mathlib.Tactic.Ring
import Mathlib.Tactic.Positivity
import WnVerif.Model.Ic
import WnVerif.Lemmas.Walk
import WnVerif.Gen.Misc
import WnVerif.Gen.Constants
namespace WnVerif.Props.C15
open WnVerif.Graph WnVerif.Ic

/-- tie to the source: the parts of speech that carry information content (`IC_PARTS_OF_SPEECH`,
with the satellite adjective folded into the adjective) are those of `icPos` -/
theorem C15_gen_ic_parts_of_speech :
    (∀ p ∈ Gen.ic_parts_of_speech, icPos p = some p) ∧ icPos Gen.pos_adj_sat = some Gen.pos_adj ∧
    (∀ p ∈ Gen.parts_of_speech, (icPos p).isSome = (Gen.ic_parts_of_speech.contains p || p == Gen.pos_adj_sat)) := by decide

/-- the ancestor walk terminates (on cycles too) and visits exactly `s` and its
ancestors, each once — "once per word synset however many hypernym paths converge" -/
theorem C15_touched (g : Adj) (n : Nat) (hr : InRange g n) (s : Nat) (hs : s < n) :
    (touched g n s).Nodup ∧ ∀ c, c ∈ touched g n s ↔ Reach g s c := by
  obtain ⟨r, hw⟩ := walkFuel_suffices pushStack goodPush_stack g n hr [s] (by simpa using hs)
  have ht : touched g n s = r := by simp [touched, hw]
  rw [ht]
  refine ⟨walk_nodup pushStack g _ _ _ r hw (by simp), ?_⟩
  intro c
  constructor
  · intro hc
    rcases walk_sound pushStack goodPush_stack g _ _ _ r hw c hc with h | ⟨x, hx, hxc⟩
    · simp at h
    · simp at hx; subst hx; exact hxc
  · intro hc
    exact walk_complete pushStack goodPush_stack g _ [s] r hw s (by simp) c hc

/-- adding `w` along a duplicate-free list adds it exactly once to each member -/
theorem foldl_addNode (w : Rat) : ∀ (L : List Nat) (f : Nat → Rat) (c : Nat), L.Nodup →
    (L.foldl (fun f i => addNode f i w) f) c = f c + (if c ∈ L then w else 0) := by
  intro L
  induction L with
  | nil => intro f c _; simp
  | cons a t ih =>
    intro f c hn
    obtain ⟨hat, hnt⟩ := List.nodup_cons.mp hn
    simp only [List.foldl_cons]
    rw [ih _ c hnt]
    by_cases hca : c = a
    · subst hca; simp [addNode, hat]
    · have : (c == a) = false := by simpa using hca
      simp [addNode, this, hca]

/-- contribution of one word synset `s` with weight `w` to the weight of `c` -/
def contrib (g : Adj) (n : Nat) (pos : Nat → String) (w : Rat) (s c : Nat) : Rat :=
  if (icPos (pos s)).isSome ∧ c ∈ touched g n s then w else 0

/-- weight added to the total of part of speech `p` -/
def contribTot (pos : Nat → String) (w : Rat) (s : Nat) (p : String) : Rat :=
  if icPos (pos s) = some p then w else 0

theorem addSynset_node (g : Adj) (n : Nat) (hr : InRange g n) (pos : Nat → String) (w : Rat)
    (fr : Freq) (s : Nat) (hs : s < n) (c : Nat) :
    (addSynset g n pos w fr s).node c = fr.node c + contrib g n pos w s c := by
  unfold addSynset contrib
  cases h : icPos (pos s) with
  | none => simp
  | some p =>
    simp only [Option.isSome_some, true_and]
    exact foldl_addNode w _ _ c (C15_touched g n hr s hs).1

theorem addSynset_total (g : Adj) (n : Nat) (pos : Nat → String) (w : Rat)
    (fr : Freq) (s : Nat) (p : String) :
    (addSynset g n pos w fr s).total p = fr.total p + contribTot pos w s p := by
  unfold addSynset contribTot
  cases h : icPos (pos s) with
  | none => simp
  | some q =>
    by_cases hqp : q = p
    · subst hqp; simp [addTot]
    · have h1 : (p == q) = false := by simpa using fun h => hqp h.symm
      simp [addTot, h1, hqp]

theorem foldl_addSynset_node (g : Adj) (n : Nat) (hr : InRange g n) (pos : Nat → String) (w : Rat) (c : Nat) :
    ∀ (syns : List Nat) (fr : Freq), (∀ s ∈ syns, s < n) →
    (syns.foldl (addSynset g n pos w) fr).node c = fr.node c + (syns.map (fun s => contrib g n pos w s c)).sum := by
  intro syns
  induction syns with
  | nil => intro fr _; simp
  | cons s t ih =>
    intro fr hs
    simp only [List.foldl_cons, List.map_cons, List.sum_cons]
    rw [ih _ (fun x hx => hs x (List.mem_cons_of_mem _ hx)), addSynset_node g n hr pos w fr s (hs s (by simp))]
    ring

theorem foldl_addSynset_total (g : Adj) (n : Nat) (pos : Nat → String) (w : Rat) (p : String) :
    ∀ (syns : List Nat) (fr : Freq),
    (syns.foldl (addSynset g n pos w) fr).total p = fr.total p + (syns.map (fun s => contribTot pos w s p)).sum := by
  intro syns
  induction syns with
  | nil => intro fr; simp
  | cons s t ih =>
    intro fr
    simp only [List.foldl_cons, List.map_cons, List.sum_cons]
    rw [ih, addSynset_total]; ring

/-- the (optionally evenly distributed) count of a corpus word -/
def wordWeight (distribute : Bool) (wc : Nat × List Nat) : Rat :=
  if distribute then (wc.1 : Rat) / (wc.2.length : Rat) else (wc.1 : Rat)

/-- what one corpus word adds to synset `c` / to the total of `p` (nothing for unknown words) -/
def wordContrib (g : Adj) (n : Nat) (pos : Nat → String) (distribute : Bool) (wc : Nat × List Nat) (c : Nat) : Rat :=
  (wc.2.map (fun s => contrib g n pos (wordWeight distribute wc) s c)).sum
def wordContribTot (pos : Nat → String) (distribute : Bool) (wc : Nat × List Nat) (p : String) : Rat :=
  (wc.2.map (fun s => contribTot pos (wordWeight distribute wc) s p)).sum

theorem addWord_node (g : Adj) (n : Nat) (hr : InRange g n) (pos : Nat → String) (distribute : Bool)
    (fr : Freq) (wc : Nat × List Nat) (hs : ∀ s ∈ wc.2, s < n) (c : Nat) :
    (addWord g n pos distribute fr wc).node c = fr.node c + wordContrib g n pos distribute wc c := by
  obtain ⟨count, syns⟩ := wc
  unfold addWord wordContrib
  simp only
  split
  · rename_i he; simp [List.isEmpty_iff] at he; simp [he]
  · exact foldl_addSynset_node g n hr pos _ c syns fr hs

theorem addWord_total (g : Adj) (n : Nat) (pos : Nat → String) (distribute : Bool)
    (fr : Freq) (wc : Nat × List Nat) (p : String) :
    (addWord g n pos distribute fr wc).total p = fr.total p + wordContribTot pos distribute wc p := by
  obtain ⟨count, syns⟩ := wc
  unfold addWord wordContribTot
  simp only
  split
  · rename_i he; simp [List.isEmpty_iff] at he; simp [he]
  · exact foldl_addSynset_total g n pos _ p syns fr

/-- **C15_once**: every synset weight is smoothing + the sum, over corpus words and
their synsets, of the word's weight whenever the synset is the word synset itself or
one of its hypernym ancestors — once per word synset. -/
theorem C15_once (g : Adj) (n : Nat) (hr : InRange g n) (pos : Nat → String) (distribute : Bool)
    (smoothing : Rat) (words : List (Nat × List Nat)) (hw : ∀ wc ∈ words, ∀ s ∈ wc.2, s < n) (c : Nat) :
    (compute g n pos distribute smoothing words).node c =
      smoothing + (words.map (fun wc => wordContrib g n pos distribute wc c)).sum := by
  unfold compute
  have key : ∀ (ws : List (Nat × List Nat)) (fr : Freq), (∀ wc ∈ ws, ∀ s ∈ wc.2, s < n) →
      (ws.foldl (addWord g n pos distribute) fr).node c =
        fr.node c + (ws.map (fun wc => wordContrib g n pos distribute wc c)).sum := by
    intro ws
    induction ws with
    | nil => intro fr _; simp
    | cons wc t ih =>
      intro fr h
      simp only [List.foldl_cons, List.map_cons, List.sum_cons]
      rw [ih _ (fun x hx => h x (List.mem_cons_of_mem _ hx)), addWord_node g n hr pos distribute fr wc (h wc (by simp))]
      ring
  rw [key words _ hw]; rfl

/-- **C15_total**: each part of speech gets smoothing + the sum of the weights of the
corpus words' synsets of that part of speech (satellite adjectives count as adjectives,
words not found contribute nothing). -/
theorem C15_total (g : Adj) (n : Nat) (pos : Nat → String) (distribute : Bool)
    (smoothing : Rat) (words : List (Nat × List Nat)) (p : String) :
    (compute g n pos distribute smoothing words).total p =
      smoothing + (words.map (fun wc => wordContribTot pos distribute wc p)).sum := by
  unfold compute
  have key : ∀ (ws : List (Nat × List Nat)) (fr : Freq),
      (ws.foldl (addWord g n pos distribute) fr).total p =
        fr.total p + (ws.map (fun wc => wordContribTot pos distribute wc p)).sum := by
    intro ws
    induction ws with
    | nil => intro fr; simp
    | cons wc t ih =>
      intro fr
      simp only [List.foldl_cons, List.map_cons, List.sum_cons]
      rw [ih, addWord_total]; ring
  rw [key words _]; rfl

theorem C15_sat_as_adj : icPos "s" = some "a" ∧ icPos "a" = some "a" := by decide

theorem C15_unknown_ignored (g : Adj) (n : Nat) (pos : Nat → String) (distribute : Bool) (fr : Freq)
    (count : Nat) : addWord g n pos distribute fr (count, []) = fr := by
  simp [addWord]

theorem wordWeight_nonneg (distribute : Bool) (wc : Nat × List Nat) : 0 ≤ wordWeight distribute wc := by
  unfold wordWeight
  split <;> positivity

/-- **C15_monotone**: weights never decrease going up the taxonomy. -/
theorem C15_monotone (g : Adj) (n : Nat) (hr : InRange g n) (pos : Nat → String) (distribute : Bool)
    (smoothing : Rat) (words : List (Nat × List Nat)) (hw : ∀ wc ∈ words, ∀ s ∈ wc.2, s < n)
    (c h : Nat) (hch : h ∈ g c) :
    (compute g n pos distribute smoothing words).node c ≤
      (compute g n pos distribute smoothing words).node h := by
  rw [C15_once g n hr pos distribute smoothing words hw c, C15_once g n hr pos distribute smoothing words hw h]
  have hmono : ∀ wc ∈ words, wordContrib g n pos distribute wc c ≤ wordContrib g n pos distribute wc h := by
    intro wc hwc
    unfold wordContrib
    apply List.sum_le_sum
    intro s hs
    unfold contrib
    have hsn := hw wc hwc s hs
    have hiff := (C15_touched g n hr s hsn).2
    by_cases hc : (icPos (pos s)).isSome ∧ c ∈ touched g n s
    · have : (icPos (pos s)).isSome ∧ h ∈ touched g n s :=
        ⟨hc.1, (hiff h).mpr (Reach.step ((hiff c).mp hc.2) hch)⟩
      simp [hc, this]
    · simp only [hc, if_false]
      split
      · exact wordWeight_nonneg distribute wc
      · exact le_refl _
  have := List.sum_le_sum (l := words) hmono
  linarith

/-- the hypernym relation stays inside one (a/s-folded) part of speech -/
def PosClosed (g : Adj) (pos : Nat → String) : Prop := ∀ c h, h ∈ g c → icPos (pos h) = icPos (pos c)

theorem posClosed_reach (g : Adj) (pos : Nat → String) (hp : PosClosed g pos) {s c : Nat}
    (h : Reach g s c) : icPos (pos c) = icPos (pos s) := by
  induction h with
  | refl => rfl
  | step _ hz ih => rw [hp _ _ hz, ih]

/-- **C15_prob_range**: a synset's weight never exceeds the total of its part of speech,
so with smoothing > 0 the synset probability lies in (0, 1]. -/
theorem C15_le_total (g : Adj) (n : Nat) (hr : InRange g n) (pos : Nat → String) (hp : PosClosed g pos)
    (distribute : Bool) (smoothing : Rat) (words : List (Nat × List Nat))
    (hw : ∀ wc ∈ words, ∀ s ∈ wc.2, s < n) (c : Nat) (p : String) (hc : icPos (pos c) = some p) :
    (compute g n pos distribute smoothing words).node c ≤
      (compute g n pos distribute smoothing words).total p := by
  rw [C15_once g n hr pos distribute smoothing words hw c, C15_total]
  have hle : ∀ wc ∈ words, wordContrib g n pos distribute wc c ≤ wordContribTot pos distribute wc p := by
    intro wc hwc
    unfold wordContrib wordContribTot
    apply List.sum_le_sum
    intro s hs
    unfold contrib contribTot
    have hiff := (C15_touched g n hr s (hw wc hwc s hs)).2
    by_cases h1 : (icPos (pos s)).isSome ∧ c ∈ touched g n s
    · have : icPos (pos s) = some p := by
        rw [← posClosed_reach g pos hp ((hiff c).mp h1.2)]; exact hc
      simp [h1, this]
    · simp only [h1, if_false]
      split
      · exact wordWeight_nonneg distribute wc
      · exact le_refl _
  have := List.sum_le_sum (l := words) hle
  linarith

theorem C15_weight_pos (g : Adj) (n : Nat) (hr : InRange g n) (pos : Nat → String) (distribute : Bool)
    (smoothing : Rat) (hsm : 0 < smoothing) (words : List (Nat × List Nat))
    (hw : ∀ wc ∈ words, ∀ s ∈ wc.2, s < n) (c : Nat) :
    0 < (compute g n pos distribute smoothing words).node c := by
  rw [C15_once g n hr pos distribute smoothing words hw c]
  have : 0 ≤ (words.map (fun wc => wordContrib g n pos distribute wc c)).sum := by
    apply List.sum_nonneg
    intro x hx
    obtain ⟨wc, _, rfl⟩ := List.mem_map.mp hx
    unfold wordContrib
    apply List.sum_nonneg
    intro y hy
    obtain ⟨s, _, rfl⟩ := List.mem_map.mp hy
    unfold contrib
    split
    · exact wordWeight_nonneg distribute wc
    · exact le_refl _
  linarith

/-- synset probability in (0, 1] -/
theorem C15_prob_range (g : Adj) (n : Nat) (hr : InRange g n) (pos : Nat → String) (hp : PosClosed g pos)
    (distribute : Bool) (smoothing : Rat) (hsm : 0 < smoothing) (words : List (Nat × List Nat))
    (hw : ∀ wc ∈ words, ∀ s ∈ wc.2, s < n) (c : Nat) (p : String) (hc : icPos (pos c) = some p) :
    let fr := compute g n pos distribute smoothing words
    0 < fr.node c / fr.total p ∧ fr.node c / fr.total p ≤ 1 := by
  intro fr
  have h1 := C15_weight_pos g n hr pos distribute smoothing hsm words hw c
  have h2 := C15_le_total g n hr pos hp distribute smoothing words hw c p hc
  have h3 : 0 < fr.total p := lt_of_lt_of_le h1 h2
  exact ⟨div_pos h1 h3, (div_le_one h3).mpr h2⟩

/-- information content −log p is non-negative and antitone along hypernymy: stated on
the probabilities (−log is antitone): the hypernym's probability is the larger one. -/
theorem C15_prob_monotone (g : Adj) (n : Nat) (hr : InRange g n) (pos : Nat → String) (hp : PosClosed g pos)
    (distribute : Bool) (smoothing : Rat) (hsm : 0 < smoothing) (words : List (Nat × List Nat))
    (hw : ∀ wc ∈ words, ∀ s ∈ wc.2, s < n) (c h : Nat) (hch : h ∈ g c) (p : String)
    (hc : icPos (pos c) = some p) :
    let fr := compute g n pos distribute smoothing words
    fr.node c / fr.total p ≤ fr.node h / fr.total p := by
  intro fr
  have h1 := C15_weight_pos g n hr pos distribute smoothing hsm words hw c
  have h2 := C15_le_total g n hr pos hp distribute smoothing words hw c p hc
  have h3 : 0 < fr.total p := lt_of_lt_of_le h1 h2
  exact div_le_div_of_nonneg_right (C15_monotone g n hr pos distribute smoothing words hw c h hch) (le_of_lt h3)

/-- non-vacuity: the diamond 0→1, 0→2, 1→3, 2→3 with the word synset 0 — the root 3 is
reached along two paths and still receives the weight once (2 = smoothing 1 + 1). -/
def diamond : Adj := fun i => match i with
  | 0 => [1, 2]
  | 1 => [3]
  | 2 => [3]
  | _ => []

theorem C15_diamond_once :
    (compute diamond 4 (fun _ => "n") true 1 [(1, [0])]).node 3 = 2 ∧
    (compute diamond 4 (fun _ => "n") true 1 [(1, [0])]).total "n" = 2 := by
  decide +kernel

end WnVerif.Props.C15
