/-
C06 — a failed add or remove leaves the database exactly as it was.
The theorems are about the transaction bracket (`Model/Txn.lean`) and about the add model
(`Model/Add.lean`, which returns `Except`); SQLite's rollback and Python's `with conn:` are
trusted and exercised by the fault-enumeration correspondence.
-/
import WnVerif.Model.Txn
import WnVerif.Model.Add
namespace WnVerif.Props.C06
open WnVerif.Txn

variable {σ : Type}

theorem go_working_none (c : Conn σ) (body : List (σ → Option σ)) :
    (bracket.go c body).1.working = none := by
  induction body generalizing c with
  | nil => simp [bracket.go, step]
  | cons f rest ih =>
    simp only [bracket.go]
    cases h : step c (.write f) with
    | none => simp [step]
    | some c' => exact ih c'

theorem step_write_committed (c c' : Conn σ) (f : σ → Option σ) (h : step c (.write f) = some c') :
    c'.committed = c.committed := by
  simp only [step] at h
  split at h
  · simp at h; subst h; rfl
  · simp at h

/-- **C06_atomic**: if any statement of the bracket fails — at whatever position — the
committed state is exactly what it was before the operation, and no transaction stays open -/
theorem C06_atomic (c : Conn σ) (body : List (σ → Option σ)) (hfail : (bracket c body).2 = false) :
    (bracket c body).1.committed = c.committed ∧ (bracket c body).1.working = none := by
  refine ⟨?_, go_working_none c body⟩
  unfold bracket at hfail ⊢
  induction body generalizing c with
  | nil => simp [bracket.go] at hfail
  | cons f rest ih =>
    simp only [bracket.go] at hfail ⊢
    cases h : step c (.write f) with
    | none => simp [step]
    | some c' =>
      rw [h] at hfail
      simp only at hfail ⊢
      rw [ih c' hfail, step_write_committed c c' f h]

/-- failure at position `k`: the statements before it succeed, the `k`-th raises -/
theorem C06_fail_at_any_point (c : Conn σ) (pre : List (σ → σ)) (post : List (σ → Option σ)) :
    (bracket c (pre.map (fun g s => some (g s)) ++ [fun _ => none] ++ post)).2 = false := by
  unfold bracket
  induction pre generalizing c with
  | nil => simp [bracket.go, step]
  | cons g rest ih =>
    simp only [List.map_cons, List.cons_append, bracket.go, step]
    exact ih _

/-- **C06_usable**: after a failure the connection is clean, so a following operation behaves
exactly as on the original state -/
theorem C06_usable (c : Conn σ) (hc : c.working = none) (bad good : List (σ → Option σ))
    (hfail : (bracket c bad).2 = false) : bracket (bracket c bad).1 good = bracket c good := by
  obtain ⟨h1, h2⟩ := C06_atomic c bad hfail
  have : (bracket c bad).1 = c := by
    cases hb : (bracket c bad).1 with
    | mk cm wk =>
      rw [hb] at h1 h2
      simp only at h1 h2
      cases c with
      | mk cm' wk' => simp only at hc h1; subst hc h1 h2; rfl
  rw [this]

/-- a successful bracket commits the composition of its statements -/
theorem C06_success (c : Conn σ) (hc : c.working = none) (body : List (σ → σ)) :
    (bracket c (body.map (fun g s => some (g s)))).1.committed = body.foldl (fun s g => g s) c.committed ∧
    (bracket c (body.map (fun g s => some (g s)))).2 = true := by
  unfold bracket
  have key : ∀ (body : List (σ → σ)) (c : Conn σ),
      (bracket.go c (body.map (fun g s => some (g s)))).1.committed =
        body.foldl (fun s g => g s) (c.working.getD c.committed) ∧
      (bracket.go c (body.map (fun g s => some (g s)))).2 = true := by
    intro body
    induction body with
    | nil => intro c; simp [bracket.go, step]
    | cons g rest ih =>
      intro c
      simp only [List.map_cons, bracket.go, step, List.foldl_cons]
      exact ih _
  have := key body c
  simpa [hc] using this

/-- **C06_add_fails_closed**: whenever the add model raises (unresolvable synset / sense /
relation target, duplicate identifier, …) the observable database is the old one -/
theorem C06_add_fails_closed (norm : String → String) (rank : Nat) (db : Db.Db) (r : Doc.Resource)
    (h : (Db.addResourceOrKeep norm rank db r).2 = false) : (Db.addResourceOrKeep norm rank db r).1 = db := by
  unfold Db.addResourceOrKeep at h ⊢
  split <;> simp_all

/-- a statement stream with a COMMIT between two writes is two units, a write outside any
transaction is rejected -/
theorem C06_trace_example :
    countUnits [.begin_, .write, .write, .commit] false false 0 = some 1 ∧
    countUnits [.begin_, .write, .commit, .begin_, .write, .commit] false false 0 = some 2 ∧
    countUnits [.other, .write] false false 0 = none ∧
    countUnits [.begin_, .write, .rollback, .other] false false 0 = some 1 := by
  decide

/-- soundness of the trace classifier: if a stream is accepted with `n` units, then every
write of the stream happened inside a transaction -/
theorem C06_trace_writes_in_tx : ∀ (ks : List Kind) (inTx wrote : Bool) (n m : Nat),
    countUnits ks inTx wrote n = some m → inTx = false → ∀ pre post, ks = pre ++ Kind.write :: post →
      Kind.begin_ ∈ pre := by
  intro ks
  induction ks with
  | nil => intro _ _ _ _ _ _ pre post h; cases pre <;> simp at h
  | cons k rest ih =>
    intro inTx wrote n m hc hin pre post hks
    subst hin
    cases pre with
    | nil =>
      simp at hks
      obtain ⟨rfl, rfl⟩ := hks
      simp [countUnits] at hc
    | cons p pre' =>
      simp at hks
      obtain ⟨rfl, rfl⟩ := hks
      cases k with
      | begin_ => simp
      | commit =>
        simp only [countUnits] at hc
        have := ih false false _ m hc rfl pre' post rfl
        exact List.mem_cons_of_mem _ this
      | rollback =>
        simp only [countUnits] at hc
        have := ih false false _ m hc rfl pre' post rfl
        exact List.mem_cons_of_mem _ this
      | write => simp [countUnits] at hc
      | other =>
        simp only [countUnits] at hc
        have := ih false wrote n m hc rfl pre' post rfl
        exact List.mem_cons_of_mem _ this

/-! ### `remove`: a sequence of brackets, one per matched lexicon -/

def lift (body : List (σ → σ)) : List (σ → Option σ) := body.map (fun g s => some (g s))

theorem bracket_working_none (c : Conn σ) (body : List (σ → Option σ)) : (bracket c body).1.working = none :=
  go_working_none c body

theorem brackets_success (done : List (List (σ → σ))) :
    ∀ (c : Conn σ), c.working = none →
      (brackets c (done.map lift)).1.committed = done.foldl (fun s body => body.foldl (fun s g => g s) s) c.committed ∧
      (brackets c (done.map lift)).1.working = none ∧ (brackets c (done.map lift)).2 = true := by
  induction done with
  | nil => intro c hc; exact ⟨rfl, hc, rfl⟩
  | cons b rest ih =>
    intro c hc
    obtain ⟨h1, h2⟩ := C06_success c hc b
    simp only [List.map_cons, brackets, lift] at *
    rw [h2]
    simp only [if_true, List.foldl_cons]
    have := ih (bracket c (b.map (fun g s => some (g s)))).1 (bracket_working_none _ _)
    rw [h1] at this
    exact this

theorem brackets_append (xs ys : List (List (σ → Option σ))) :
    ∀ (c : Conn σ), brackets c (xs ++ ys) =
      if (brackets c xs).2 then brackets (brackets c xs).1 ys else brackets c xs := by
  induction xs with
  | nil => intro c; simp [brackets]
  | cons b rest ih =>
    intro c
    simp only [List.cons_append, brackets]
    by_cases hb : (bracket c b).2 = true
    · simp only [hb, if_true]; exact ih _
    · simp only [hb, if_false]
      simp [hb]

/-- **C06, interrupted removal**: `remove` deletes the matched lexicons one transaction each.  If
the deletion of the `k`-th one is interrupted at any statement, the lexicons before it are gone
(their transactions were committed), the `k`-th lexicon and its extensions are exactly as they
were — nothing of its transaction is kept —, the later ones are not touched, and no transaction
stays open. -/
theorem C06_interrupted_remove (c : Conn σ) (hc : c.working = none) (done : List (List (σ → σ)))
    (bad : List (σ → Option σ)) (later : List (List (σ → Option σ)))
    (hfail : (bracket (brackets c (done.map lift)).1 bad).2 = false) :
    let r := brackets c (done.map lift ++ [bad] ++ later)
    r.1.committed = done.foldl (fun s body => body.foldl (fun s g => g s) s) c.committed ∧
    r.1.working = none ∧ r.2 = false := by
  obtain ⟨s1, s2, s3⟩ := brackets_success done c hc
  obtain ⟨a1, a2⟩ := C06_atomic _ bad hfail
  simp only [List.append_assoc, brackets_append, s3, if_true, List.cons_append, List.nil_append, brackets, hfail]
  simp only [Bool.false_eq_true, if_false]
  exact ⟨by rw [a1, s1], a2, hfail⟩

/-- non-vacuity: three lexicons, the second removal fails at its second statement -/
example : (brackets (σ := List Nat) ⟨[1, 2, 3], none⟩
    [[fun s => some (s.erase 1)], [fun s => some (s.erase 2), fun _ => none], [fun s => some (s.erase 3)]]).1.committed = [2, 3] := by
  decide


end WnVerif.Props.C06
