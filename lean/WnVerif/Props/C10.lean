import WnVerif.Model.Api
namespace WnVerif.Props.C10
theorem placeholder_true : True := trivial
end WnVerif.Props.C10
