/-
C10 — navigation between words, senses and synsets is referentially faithful; translation
goes through the ILI exactly.  Theorems over `Model/Api.lean` for every database.
-/
import WnVerif.Model.Api
import WnVerif.Lemmas.DbAux
namespace WnVerif.Props.C10
open WnVerif.Db

/-! ### word ↔ sense ↔ synset -/

/-- every sense listed by `word.senses()` is a stored sense declared under that entry, owned by
a lexicon in scope -/
theorem C10_word_senses_declared (db : Db) (w : Wordnet) (x : WordData) (s : SenseData)
    (h : s ∈ wordSenses db w x) :
    ∃ row ∈ db.senses, row.entry = x.rowid ∧ row.lex ∈ entityLexids db w x.lex ∧ senseData db row = some s := by
  unfold wordSenses entrySenses at h
  simp only [List.mem_filterMap] at h
  obtain ⟨r, hr, hs⟩ := h
  rw [mem_sortBy] at hr
  simp only [List.mem_filter, Bool.and_eq_true, inLex, List.contains_iff_mem, beq_iff_eq] at hr
  exact ⟨r, hr.1, hr.2.1, hr.2.2, hs⟩

/-- … and conversely every stored sense of the entry owned by a lexicon in scope is listed -/
theorem C10_sense_in_word_senses (db : Db) (w : Wordnet) (x : WordData) (row : RSense) (s : SenseData)
    (hrow : row ∈ db.senses) (he : row.entry = x.rowid) (hl : row.lex ∈ entityLexids db w x.lex)
    (hs : senseData db row = some s) : s ∈ wordSenses db w x := by
  unfold wordSenses entrySenses
  simp only [List.mem_filterMap]
  refine ⟨row, ?_, hs⟩
  rw [mem_sortBy]
  simp only [List.mem_filter, Bool.and_eq_true, inLex, List.contains_iff_mem, beq_iff_eq]
  exact ⟨hrow, he, hl⟩

theorem C10_synset_senses_declared (db : Db) (w : Wordnet) (x : SynsetData) (s : SenseData)
    (h : s ∈ synsetSenses db w x) :
    ∃ row ∈ db.senses, row.synset = x.rowid ∧ row.lex ∈ entityLexids db w x.lex ∧ senseData db row = some s := by
  unfold synsetSenses synsetMembers at h
  simp only [List.mem_filterMap] at h
  obtain ⟨r, hr, hs⟩ := h
  rw [mem_sortBy] at hr
  simp only [List.mem_filter, Bool.and_eq_true, inLex, List.contains_iff_mem, beq_iff_eq] at hr
  exact ⟨r, hr.1, hr.2.1, hr.2.2, hs⟩

theorem C10_sense_in_synset_senses (db : Db) (w : Wordnet) (x : SynsetData) (row : RSense) (s : SenseData)
    (hrow : row ∈ db.senses) (he : row.synset = x.rowid) (hl : row.lex ∈ entityLexids db w x.lex)
    (hs : senseData db row = some s) : s ∈ synsetSenses db w x := by
  unfold synsetSenses synsetMembers
  simp only [List.mem_filterMap]
  refine ⟨row, ?_, hs⟩
  rw [mem_sortBy]
  simp only [List.mem_filter, Bool.and_eq_true, inLex, List.contains_iff_mem, beq_iff_eq]
  exact ⟨hrow, he, hl⟩

/-- the observable sense carries the ids of the entry and synset rows it references -/
theorem C10_sense_data_ids (db : Db) (row : RSense) (s : SenseData) (h : senseData db row = some s) :
    s.rowid = row.rowid ∧ s.id = row.id ∧ s.lex = row.lex ∧
    (∃ e ∈ db.entries, e.rowid = row.entry ∧ e.id = s.entryId) ∧
    (∃ y ∈ db.synsets, y.rowid = row.synset ∧ y.id = s.synsetId) := by
  unfold senseData at h
  split at h
  · rename_i e ss he hss
    simp at h; subst h
    have h1 := List.find?_some he
    have h2 := List.find?_some hss
    simp only [beq_iff_eq] at h1 h2
    exact ⟨rfl, rfl, rfl, ⟨e, List.mem_of_find?_eq_some he, h1, rfl⟩, ⟨ss, List.mem_of_find?_eq_some hss, h2, rfl⟩⟩
  · simp at h

/-- `Sense.word()` re-queries by *id* within the Wordnet's lexicons: what it returns is an entry
with the declared id (owned by one of the Wordnet's lexicons when these are restricted) -/
theorem C10_sense_word_by_id (db : Db) (w : Wordnet) (s : SenseData) (x : WordData)
    (h : senseWord db w s = some x) (hne : s.entryId ≠ "") :
    x.id = s.entryId ∧ (w.lexids ≠ [] → x.lex ∈ w.lexids) := by
  unfold senseWord wordById at h
  have hm := List.mem_of_mem_head? h
  unfold findEntries at hm
  simp only [List.mem_filterMap] at hm
  obtain ⟨e, he, hx⟩ := hm
  rw [mem_sortBy] at he
  simp only [List.mem_filter, Bool.and_eq_true] at he
  have hid : e.id = s.entryId := by
    have := he.2.1.1.1
    simp [hne] at this
    exact this
  split at hx
  · simp at hx
  · simp at hx; subst hx
    refine ⟨hid, ?_⟩
    intro hl
    have := he.2.2
    unfold inLexOrAll at this
    have hem : w.lexids.isEmpty = false := by simpa [List.isEmpty_iff] using hl
    simpa [hem] using this

/-- kernel-checked witness of known finding F5: with two lexicons in scope that reuse an entry
id, `sense.word()` of the second lexicon's sense is the *first* lexicon's word -/
def twoVersions : Db :=
  { lexicons := [⟨1, "a", "A", "en", "e", "l", "1", none, none, none, none⟩, ⟨2, "a", "A", "en", "e", "l", "2", none, none, none, none⟩]
    entries := [⟨1, "e", 1, "n", none⟩, ⟨2, "e", 2, "n", none⟩]
    forms := [⟨1, none, 1, 1, "cat", none, none, 0⟩, ⟨2, none, 2, 2, "dog", none, none, 0⟩]
    synsets := [⟨1, "s", 1, none, "n", true, none, none⟩, ⟨2, "s", 2, none, "n", true, none, none⟩]
    senses := [⟨1, "n", 1, 1, 0, 1, 0, true, none⟩, ⟨2, "n", 2, 2, 0, 2, 0, true, none⟩] }

theorem C10_sense_word_two_versions_counterexample :
    let w : Wordnet := { lexids := [1, 2], expids := [], defaultMode := false }
    (senseWord twoVersions w ⟨"n", "e", "s", 2, 2⟩).map (·.rowid) = some 1 := by decide

/-! ### translation -/

/-- `synset.translate()` returns exactly the synsets of the target lexicons sharing the ILI -/
theorem C10_translate_exact (db : Db) (x : SynsetData) (lexicon lang : Option String) (i : String)
    (hi : x.ili = some i) (hne : i ≠ "") (w : Wordnet) (hw : mkWordnet db lexicon lang none = some w) (y : SynsetData) :
    (∃ ys, synsetTranslate db x lexicon lang = some ys ∧ y ∈ ys) ↔
      ∃ row ∈ db.synsets, iliIdOf db row.ili = some i ∧ inLexOrAll w.lexids row.lex = true ∧ y = synsetData db row := by
  unfold synsetTranslate
  simp only [hi, hw, Option.map_some]
  have hne' : (i == "") = false := by simpa using hne
  simp only [hne', Bool.false_eq_true, if_false, Option.some.injEq, exists_eq_left']
  unfold findSynsets
  simp only [List.isEmpty_nil, if_true, List.mem_map, List.mem_filter, Bool.and_eq_true, Bool.true_and]
  constructor
  · rintro ⟨row, ⟨hrow, hok, hl⟩, rfl⟩
    refine ⟨row, hrow, ?_, hl, rfl⟩
    simp only [hne', Bool.false_eq_true, if_false] at hok
    split at hok
    · rename_i j hj
      rw [hj]; simp at hok; rw [hok]
    · simp at hok
  · rintro ⟨row, hrow, hili, hl, rfl⟩
    refine ⟨row, ⟨hrow, ?_, hl⟩, rfl⟩
    simp [hne', hili]

/-- a synset without an ILI (or with only a proposed one: its `ili` is `none`) translates to nothing -/
theorem C10_translate_no_ili (db : Db) (x : SynsetData) (lexicon lang : Option String) (h : x.ili = none) :
    synsetTranslate db x lexicon lang = some [] := by
  unfold synsetTranslate; rw [h]

/-- every translation carries the same ILI -/
theorem C10_translate_same_ili (db : Db) (x : SynsetData) (lexicon lang : Option String) (ys : List SynsetData)
    (h : synsetTranslate db x lexicon lang = some ys) (y : SynsetData) (hy : y ∈ ys) : y.ili = x.ili ∧ x.ili ≠ none := by
  unfold synsetTranslate at h
  split at h
  · simp at h; subst h; simp at hy
  · rename_i i hi
    split at h
    · simp at h; subst h; simp at hy
    · rename_i hne
      cases hw : mkWordnet db lexicon lang none with
      | none => rw [hw] at h; simp at h
      | some w =>
        have := (C10_translate_exact db x lexicon lang i hi (by simpa using hne) w hw y).mp ⟨ys, by
          unfold synsetTranslate; simp only [hi]; simp only [hne]; rw [hw] at h ⊢; exact h, hy⟩
        obtain ⟨row, _, hili, _, rfl⟩ := this
        simp [synsetData, hili, hi]

/-- translation is symmetric: if `y` (of lexicon selection `T`) is a translation of `x`, and `x` is the
observation of a stored synset of selection `S`, then `x` is a translation of `y` into `S` -/
theorem C10_translate_symmetric (db : Db) (x y : SynsetData) (lexT langT lexS langS : Option String)
    (ys : List SynsetData) (h : synsetTranslate db x lexT langT = some ys) (hy : y ∈ ys)
    (wS : Wordnet) (hwS : mkWordnet db lexS langS none = some wS)
    (xrow : RSynset) (hx : xrow ∈ db.synsets) (hxd : x = synsetData db xrow) (hxl : inLexOrAll wS.lexids xrow.lex = true) :
    ∃ xs, synsetTranslate db y lexS langS = some xs ∧ x ∈ xs := by
  obtain ⟨hyi, hxn⟩ := C10_translate_same_ili db x lexT langT ys h y hy
  cases hxi : x.ili with
  | none => exact absurd hxi hxn
  | some i =>
    have hne : i ≠ "" := by
      intro e
      unfold synsetTranslate at h
      simp [hxi, e] at h
      subst h; simp at hy
    refine (C10_translate_exact db y lexS langS i (by rw [hyi, hxi]) hne wS hwS x).mpr ⟨xrow, hx, ?_, hxl, hxd⟩
    have : (synsetData db xrow).ili = some i := by rw [← hxd]; exact hxi
    simpa [synsetData] using this

end WnVerif.Props.C10
