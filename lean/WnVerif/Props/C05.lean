import WnVerif.Model.Api
namespace WnVerif.Props.C05
theorem placeholder_true : True := trivial
end WnVerif.Props.C05
