/-
C05 — `remove()` deletes a lexicon with everything it owns, leaves no dangling row and
leaves the other lexicons alone (modulo the cascade through rows that referenced it).
Theorems over `deleteLexicon` / `removeLexicon` (`Model/Remove.lean`) for every database.
-/
import WnVerif.Model.Remove
import WnVerif.Gen.Schema
import WnVerif.Model.Add
import WnVerif.Props.C01
namespace WnVerif.Props.C05
open WnVerif.Db

/-! ### tie to `schema.sql`: the foreign keys and their ON DELETE actions that `FK` and
`deleteLexicon` below transcribe are exactly those of the schema as regenerated on this run -/

/-- (table, column, referenced table, ON DELETE action) -/
def modelFks : List (String × String × String × String) := [
  ("adjpositions", "sense_rowid", "senses", "CASCADE"),
  ("counts", "lexicon_rowid", "lexicons", "CASCADE"), ("counts", "sense_rowid", "senses", "CASCADE"),
  ("definitions", "lexicon_rowid", "lexicons", "CASCADE"), ("definitions", "sense_rowid", "senses", "SET NULL"),
  ("definitions", "synset_rowid", "synsets", "CASCADE"),
  ("entries", "lexicon_rowid", "lexicons", "CASCADE"),
  ("forms", "entry_rowid", "entries", "CASCADE"), ("forms", "lexicon_rowid", "lexicons", "CASCADE"),
  ("ilis", "status_rowid", "ili_statuses", "NO ACTION"),
  ("lexicon_dependencies", "dependent_rowid", "lexicons", "CASCADE"), ("lexicon_dependencies", "provider_rowid", "lexicons", "SET NULL"),
  ("lexicon_extensions", "base_rowid", "lexicons", "NO ACTION"), ("lexicon_extensions", "extension_rowid", "lexicons", "CASCADE"),
  ("pronunciations", "form_rowid", "forms", "CASCADE"),
  ("proposed_ilis", "synset_rowid", "synsets", "CASCADE"),
  ("sense_examples", "lexicon_rowid", "lexicons", "CASCADE"), ("sense_examples", "sense_rowid", "senses", "CASCADE"),
  ("sense_relations", "lexicon_rowid", "lexicons", "CASCADE"), ("sense_relations", "source_rowid", "senses", "CASCADE"),
  ("sense_relations", "target_rowid", "senses", "CASCADE"), ("sense_relations", "type_rowid", "relation_types", "NO ACTION"),
  ("sense_synset_relations", "lexicon_rowid", "lexicons", "CASCADE"), ("sense_synset_relations", "source_rowid", "senses", "CASCADE"),
  ("sense_synset_relations", "target_rowid", "synsets", "CASCADE"), ("sense_synset_relations", "type_rowid", "relation_types", "NO ACTION"),
  ("senses", "entry_rowid", "entries", "CASCADE"), ("senses", "lexicon_rowid", "lexicons", "CASCADE"),
  ("senses", "synset_rowid", "synsets", "CASCADE"),
  ("synset_examples", "lexicon_rowid", "lexicons", "CASCADE"), ("synset_examples", "synset_rowid", "synsets", "CASCADE"),
  ("synset_relations", "lexicon_rowid", "lexicons", "CASCADE"), ("synset_relations", "source_rowid", "synsets", "CASCADE"),
  ("synset_relations", "target_rowid", "synsets", "CASCADE"), ("synset_relations", "type_rowid", "relation_types", "NO ACTION"),
  ("synsets", "ili_rowid", "ilis", "NO ACTION"), ("synsets", "lexfile_rowid", "lexfiles", "NO ACTION"),
  ("synsets", "lexicon_rowid", "lexicons", "CASCADE"),
  ("syntactic_behaviour_senses", "sense_rowid", "senses", "CASCADE"),
  ("syntactic_behaviour_senses", "syntactic_behaviour_rowid", "syntactic_behaviours", "CASCADE"),
  ("syntactic_behaviours", "lexicon_rowid", "lexicons", "CASCADE"),
  ("tags", "form_rowid", "forms", "CASCADE")]

theorem C05_gen_foreign_keys :
    Gen.schema.flatMap (fun t => t.fks.map (fun f => (t.name, f.col, f.table, f.onDelete))) = modelFks := by decide

/-- referential integrity of the store: every `REFERENCES … ON DELETE CASCADE / SET NULL`
column of `schema.sql` points at an existing row -/
structure FK (db : Db) : Prop where
  deps_dependent : ∀ r ∈ db.deps, ∃ x ∈ db.lexicons, x.rowid = r.dependent
  deps_provider : ∀ r ∈ db.deps, ∀ p, r.provider = some p → ∃ x ∈ db.lexicons, x.rowid = p
  exts_ext : ∀ r ∈ db.exts, ∃ x ∈ db.lexicons, x.rowid = r.ext
  entries_lex : ∀ r ∈ db.entries, ∃ x ∈ db.lexicons, x.rowid = r.lex
  forms_lex : ∀ r ∈ db.forms, ∃ x ∈ db.lexicons, x.rowid = r.lex
  forms_entry : ∀ r ∈ db.forms, ∃ x ∈ db.entries, x.rowid = r.entry
  prons_form : ∀ r ∈ db.prons, ∃ x ∈ db.forms, x.rowid = r.form
  tags_form : ∀ r ∈ db.tags, ∃ x ∈ db.forms, x.rowid = r.form
  synsets_lex : ∀ r ∈ db.synsets, ∃ x ∈ db.lexicons, x.rowid = r.lex
  synrels_lex : ∀ r ∈ db.synrels, ∃ x ∈ db.lexicons, x.rowid = r.lex
  synrels_source : ∀ r ∈ db.synrels, ∃ x ∈ db.synsets, x.rowid = r.source
  synrels_target : ∀ r ∈ db.synrels, ∃ x ∈ db.synsets, x.rowid = r.target
  defs_lex : ∀ r ∈ db.defs, ∃ x ∈ db.lexicons, x.rowid = r.lex
  defs_synset : ∀ r ∈ db.defs, ∃ x ∈ db.synsets, x.rowid = r.synset
  defs_sense : ∀ r ∈ db.defs, ∀ s, r.sense = some s → ∃ x ∈ db.senses, x.rowid = s
  synexs_lex : ∀ r ∈ db.synexs, ∃ x ∈ db.lexicons, x.rowid = r.lex
  synexs_owner : ∀ r ∈ db.synexs, ∃ x ∈ db.synsets, x.rowid = r.owner
  senses_lex : ∀ r ∈ db.senses, ∃ x ∈ db.lexicons, x.rowid = r.lex
  senses_entry : ∀ r ∈ db.senses, ∃ x ∈ db.entries, x.rowid = r.entry
  senses_synset : ∀ r ∈ db.senses, ∃ x ∈ db.synsets, x.rowid = r.synset
  senserels_lex : ∀ r ∈ db.senserels, ∃ x ∈ db.lexicons, x.rowid = r.lex
  senserels_source : ∀ r ∈ db.senserels, ∃ x ∈ db.senses, x.rowid = r.source
  senserels_target : ∀ r ∈ db.senserels, ∃ x ∈ db.senses, x.rowid = r.target
  ssrels_lex : ∀ r ∈ db.sensesynrels, ∃ x ∈ db.lexicons, x.rowid = r.lex
  ssrels_source : ∀ r ∈ db.sensesynrels, ∃ x ∈ db.senses, x.rowid = r.source
  ssrels_target : ∀ r ∈ db.sensesynrels, ∃ x ∈ db.synsets, x.rowid = r.target
  adjs_sense : ∀ r ∈ db.adjs, ∃ x ∈ db.senses, x.rowid = r.sense
  sensexs_lex : ∀ r ∈ db.sensexs, ∃ x ∈ db.lexicons, x.rowid = r.lex
  sensexs_owner : ∀ r ∈ db.sensexs, ∃ x ∈ db.senses, x.rowid = r.owner
  counts_lex : ∀ r ∈ db.counts, ∃ x ∈ db.lexicons, x.rowid = r.lex
  counts_sense : ∀ r ∈ db.counts, ∃ x ∈ db.senses, x.rowid = r.sense
  sbs_lex : ∀ r ∈ db.sbs, ∃ x ∈ db.lexicons, x.rowid = r.lex
  sbsenses_sb : ∀ r ∈ db.sbsenses, ∃ x ∈ db.sbs, x.rowid = r.sb
  sbsenses_sense : ∀ r ∈ db.sbsenses, ∃ x ∈ db.senses, x.rowid = r.sense
  pilis_synset : ∀ r ∈ db.pilis, ∃ x ∈ db.synsets, x.rowid = r.synset

theorem FK_empty : FK Db.empty := by
  constructor <;> simp [Db.empty]

/-! ### the cascade sets -/
theorem mem_entriesDel (db : Db) (l k : Nat) : k ∈ entriesDel db l ↔ ∃ e ∈ db.entries, e.lex = l ∧ e.rowid = k := by
  simp [entriesDel, and_assoc]
theorem mem_synsetsDel (db : Db) (l k : Nat) : k ∈ synsetsDel db l ↔ ∃ e ∈ db.synsets, e.lex = l ∧ e.rowid = k := by
  simp [synsetsDel, and_assoc]
theorem mem_formsDel (db : Db) (l k : Nat) : k ∈ formsDel db l ↔ ∃ e ∈ db.forms, formGone db l e = true ∧ e.rowid = k := by
  simp [formsDel, and_assoc]
theorem mem_sensesDel (db : Db) (l k : Nat) : k ∈ sensesDel db l ↔ ∃ e ∈ db.senses, senseGone db l e = true ∧ e.rowid = k := by
  simp [sensesDel, and_assoc]
theorem mem_sbsDel (db : Db) (l k : Nat) : k ∈ sbsDel db l ↔ ∃ e ∈ db.sbs, e.lex = l ∧ e.rowid = k := by
  simp [sbsDel, and_assoc]

@[simp] theorem unlinkSense_lex (g : List Nat) (r : RDef) : (unlinkSense g r).lex = r.lex := by
  unfold unlinkSense; split
  · split <;> rfl
  · rfl
@[simp] theorem unlinkSense_synset (g : List Nat) (r : RDef) : (unlinkSense g r).synset = r.synset := by
  unfold unlinkSense; split
  · split <;> rfl
  · rfl
@[simp] theorem unlinkSense_text (g : List Nat) (r : RDef) : (unlinkSense g r).text = r.text := by
  unfold unlinkSense; split
  · split <;> rfl
  · rfl
theorem unlinkSense_sense (g : List Nat) (r : RDef) (s : Nat) (h : (unlinkSense g r).sense = some s) :
    r.sense = some s ∧ s ∉ g := by
  unfold unlinkSense at h
  split at h
  · rename_i s' hs'
    split at h
    · simp at h
    · rename_i hc
      rw [hs'] at h
      cases h
      exact ⟨hs', by simpa using hc⟩
  · rename_i hn; rw [hn] at h; simp at h
@[simp] theorem unlinkProvider_dependent (l : Nat) (r : RDep) : (unlinkProvider l r).dependent = r.dependent := by
  unfold unlinkProvider; split <;> rfl
@[simp] theorem unlinkProvider_pid (l : Nat) (r : RDep) : (unlinkProvider l r).pid = r.pid := by
  unfold unlinkProvider; split <;> rfl
@[simp] theorem unlinkProvider_pver (l : Nat) (r : RDep) : (unlinkProvider l r).pver = r.pver := by
  unfold unlinkProvider; split <;> rfl
@[simp] theorem unlinkProvider_purl (l : Nat) (r : RDep) : (unlinkProvider l r).purl = r.purl := by
  unfold unlinkProvider; split <;> rfl
theorem unlinkProvider_provider (l : Nat) (r : RDep) :
    (unlinkProvider l r).provider = if r.provider = some l then none else r.provider := by
  unfold unlinkProvider
  by_cases h : r.provider = some l <;> simp [h]

/-! ### what remains after `DELETE FROM lexicons WHERE rowid = l` -/

/-- the lexicon row itself is gone -/
theorem C05_lexicon_gone (db : Db) (l : Nat) : ∀ x ∈ (deleteLexicon db l).lexicons, x.rowid ≠ l := by
  intro x hx
  simp only [deleteLexicon, List.mem_filter] at hx
  simpa using hx.2

/-- nothing owned by the removed lexicon remains in any owned table -/
theorem C05_nothing_owned_remains (db : Db) (l : Nat) :
    (∀ r ∈ (deleteLexicon db l).entries, r.lex ≠ l) ∧ (∀ r ∈ (deleteLexicon db l).forms, r.lex ≠ l) ∧
    (∀ r ∈ (deleteLexicon db l).synsets, r.lex ≠ l) ∧ (∀ r ∈ (deleteLexicon db l).senses, r.lex ≠ l) ∧
    (∀ r ∈ (deleteLexicon db l).synrels, r.lex ≠ l) ∧ (∀ r ∈ (deleteLexicon db l).senserels, r.lex ≠ l) ∧
    (∀ r ∈ (deleteLexicon db l).sensesynrels, r.lex ≠ l) ∧ (∀ r ∈ (deleteLexicon db l).defs, r.lex ≠ l) ∧
    (∀ r ∈ (deleteLexicon db l).synexs, r.lex ≠ l) ∧ (∀ r ∈ (deleteLexicon db l).sensexs, r.lex ≠ l) ∧
    (∀ r ∈ (deleteLexicon db l).counts, r.lex ≠ l) ∧ (∀ r ∈ (deleteLexicon db l).sbs, r.lex ≠ l) ∧
    (∀ r ∈ (deleteLexicon db l).deps, r.dependent ≠ l) ∧ (∀ r ∈ (deleteLexicon db l).exts, r.ext ≠ l) := by
  refine ⟨?_, ?_, ?_, ?_, ?_, ?_, ?_, ?_, ?_, ?_, ?_, ?_, ?_, ?_⟩ <;> intro r hr <;>
    simp only [deleteLexicon, List.mem_filter, List.mem_map] at hr
  · simpa using hr.2
  · have := hr.2; simp [formGone] at this; exact this.1
  · simpa using hr.2
  · have := hr.2; simp [senseGone] at this; exact this.1.1
  · have := hr.2; simp at this; exact this.1.1
  · have := hr.2; simp at this; exact this.1.1
  · have := hr.2; simp at this; exact this.1.1
  · obtain ⟨a, ⟨_, ha⟩, rfl⟩ := hr
    simp at ha; simpa using ha.1
  · have := hr.2; simp at this; exact this.1
  · have := hr.2; simp at this; exact this.1
  · have := hr.2; simp at this; exact this.1
  · simpa using hr.2
  · obtain ⟨a, ⟨_, ha⟩, rfl⟩ := hr
    simpa using ha
  · simpa using hr.2

/-- no dependency of another lexicon still points at the removed one (`ON DELETE SET NULL`) -/
theorem C05_dependency_unlinked (db : Db) (l : Nat) : ∀ r ∈ (deleteLexicon db l).deps, r.provider ≠ some l := by
  intro r hr
  simp only [deleteLexicon, List.mem_map, List.mem_filter] at hr
  obtain ⟨a, _, rfl⟩ := hr
  rw [unlinkProvider_provider]
  split
  · simp
  · assumption

/-- … and the dependency row itself survives, with its declared id, version and url -/
theorem C05_dependency_kept (db : Db) (l : Nat) (r : RDep) (h : r ∈ db.deps) (hd : r.dependent ≠ l) :
    ∃ r' ∈ (deleteLexicon db l).deps, r'.dependent = r.dependent ∧ r'.pid = r.pid ∧ r'.pver = r.pver ∧ r'.purl = r.purl ∧
      (r'.provider = if r.provider = some l then none else r.provider) := by
  refine ⟨unlinkProvider l r, ?_, by simp, by simp, by simp, by simp, unlinkProvider_provider l r⟩
  simp only [deleteLexicon, List.mem_map, List.mem_filter]
  exact ⟨r, ⟨h, by simpa using hd⟩, rfl⟩

/-! ### keeping what is not reached by the cascade -/
theorem keepLex (db : Db) (l k : Nat) (hk : k ≠ l) (h : ∃ x ∈ db.lexicons, x.rowid = k) :
    ∃ x ∈ (deleteLexicon db l).lexicons, x.rowid = k := by
  obtain ⟨x, hx, hxk⟩ := h
  exact ⟨x, by simp only [deleteLexicon, List.mem_filter]; exact ⟨hx, by simpa [hxk] using hk⟩, hxk⟩
theorem keepEntry (db : Db) (l k : Nat) (hk : k ∉ entriesDel db l) (h : ∃ x ∈ db.entries, x.rowid = k) :
    ∃ x ∈ (deleteLexicon db l).entries, x.rowid = k := by
  obtain ⟨x, hx, hxk⟩ := h
  refine ⟨x, ?_, hxk⟩
  simp only [deleteLexicon, List.mem_filter]
  refine ⟨hx, ?_⟩
  simp only [bne_iff_ne, ne_eq]
  intro hl
  exact hk ((mem_entriesDel db l k).mpr ⟨x, hx, hl, hxk⟩)
theorem keepSynset (db : Db) (l k : Nat) (hk : k ∉ synsetsDel db l) (h : ∃ x ∈ db.synsets, x.rowid = k) :
    ∃ x ∈ (deleteLexicon db l).synsets, x.rowid = k := by
  obtain ⟨x, hx, hxk⟩ := h
  refine ⟨x, ?_, hxk⟩
  simp only [deleteLexicon, List.mem_filter]
  refine ⟨hx, ?_⟩
  simp only [bne_iff_ne, ne_eq]
  intro hl
  exact hk ((mem_synsetsDel db l k).mpr ⟨x, hx, hl, hxk⟩)
theorem keepForm (db : Db) (l k : Nat) (hk : k ∉ formsDel db l) (h : ∃ x ∈ db.forms, x.rowid = k) :
    ∃ x ∈ (deleteLexicon db l).forms, x.rowid = k := by
  obtain ⟨x, hx, hxk⟩ := h
  refine ⟨x, ?_, hxk⟩
  simp only [deleteLexicon, List.mem_filter]
  refine ⟨hx, ?_⟩
  simp only [Bool.not_eq_eq_eq_not, Bool.not_true]
  cases hg : formGone db l x
  · rfl
  · exact absurd ((mem_formsDel db l k).mpr ⟨x, hx, hg, hxk⟩) hk
theorem keepSense (db : Db) (l k : Nat) (hk : k ∉ sensesDel db l) (h : ∃ x ∈ db.senses, x.rowid = k) :
    ∃ x ∈ (deleteLexicon db l).senses, x.rowid = k := by
  obtain ⟨x, hx, hxk⟩ := h
  refine ⟨x, ?_, hxk⟩
  simp only [deleteLexicon, List.mem_filter]
  refine ⟨hx, ?_⟩
  simp only [Bool.not_eq_eq_eq_not, Bool.not_true]
  cases hg : senseGone db l x
  · rfl
  · exact absurd ((mem_sensesDel db l k).mpr ⟨x, hx, hg, hxk⟩) hk
theorem keepSb (db : Db) (l k : Nat) (hk : k ∉ sbsDel db l) (h : ∃ x ∈ db.sbs, x.rowid = k) :
    ∃ x ∈ (deleteLexicon db l).sbs, x.rowid = k := by
  obtain ⟨x, hx, hxk⟩ := h
  refine ⟨x, ?_, hxk⟩
  simp only [deleteLexicon, List.mem_filter]
  refine ⟨hx, ?_⟩
  simp only [bne_iff_ne, ne_eq]
  intro hl
  exact hk ((mem_sbsDel db l k).mpr ⟨x, hx, hl, hxk⟩)

/-- referential integrity is preserved: no dangling row remains -/
theorem C05_no_dangling (db : Db) (l : Nat) (h : FK db) : FK (deleteLexicon db l) := by
  constructor
  · intro r hr
    simp only [deleteLexicon, List.mem_map, List.mem_filter] at hr
    obtain ⟨a, ⟨ha, hne⟩, rfl⟩ := hr
    simpa using keepLex db l a.dependent (by simpa using hne) (h.deps_dependent a ha)
  · intro r hr p hp
    simp only [deleteLexicon, List.mem_map, List.mem_filter] at hr
    obtain ⟨a, ⟨ha, _⟩, rfl⟩ := hr
    rw [unlinkProvider_provider] at hp
    split at hp
    · simp at hp
    · rename_i hnp
      exact keepLex db l p (by intro e; subst e; exact hnp hp) (h.deps_provider a ha p hp)
  · intro r hr
    simp only [deleteLexicon, List.mem_filter] at hr
    exact keepLex db l r.ext (by simpa using hr.2) (h.exts_ext r hr.1)
  · intro r hr
    simp only [deleteLexicon, List.mem_filter] at hr
    exact keepLex db l r.lex (by simpa using hr.2) (h.entries_lex r hr.1)
  · intro r hr
    simp only [deleteLexicon, List.mem_filter] at hr
    have h2 := hr.2; simp [formGone] at h2
    exact keepLex db l r.lex h2.1 (h.forms_lex r hr.1)
  · intro r hr
    simp only [deleteLexicon, List.mem_filter] at hr
    have h2 := hr.2; simp [formGone] at h2
    exact keepEntry db l r.entry (by simpa using h2.2) (h.forms_entry r hr.1)
  · intro r hr
    simp only [deleteLexicon, List.mem_filter] at hr
    exact keepForm db l r.form (by simpa using hr.2) (h.prons_form r hr.1)
  · intro r hr
    simp only [deleteLexicon, List.mem_filter] at hr
    exact keepForm db l r.form (by simpa using hr.2) (h.tags_form r hr.1)
  · intro r hr
    simp only [deleteLexicon, List.mem_filter] at hr
    exact keepLex db l r.lex (by simpa using hr.2) (h.synsets_lex r hr.1)
  · intro r hr
    simp only [deleteLexicon, List.mem_filter] at hr
    have h2 := hr.2; simp at h2
    exact keepLex db l r.lex h2.1.1 (h.synrels_lex r hr.1)
  · intro r hr
    simp only [deleteLexicon, List.mem_filter] at hr
    have h2 := hr.2; simp at h2
    exact keepSynset db l r.source (by simpa using h2.1.2) (h.synrels_source r hr.1)
  · intro r hr
    simp only [deleteLexicon, List.mem_filter] at hr
    have h2 := hr.2; simp at h2
    exact keepSynset db l r.target (by simpa using h2.2) (h.synrels_target r hr.1)
  · intro r hr
    simp only [deleteLexicon, List.mem_map, List.mem_filter] at hr
    obtain ⟨a, ⟨ha, h2⟩, rfl⟩ := hr
    simp at h2
    simpa using keepLex db l a.lex h2.1 (h.defs_lex a ha)
  · intro r hr
    simp only [deleteLexicon, List.mem_map, List.mem_filter] at hr
    obtain ⟨a, ⟨ha, h2⟩, rfl⟩ := hr
    simp at h2
    simpa using keepSynset db l a.synset (by simpa using h2.2) (h.defs_synset a ha)
  · intro r hr s hs
    simp only [deleteLexicon, List.mem_map, List.mem_filter] at hr
    obtain ⟨a, ⟨ha, _⟩, rfl⟩ := hr
    obtain ⟨hs1, hs2⟩ := unlinkSense_sense _ _ _ hs
    exact keepSense db l s hs2 (h.defs_sense a ha s hs1)
  · intro r hr
    simp only [deleteLexicon, List.mem_filter] at hr
    have h2 := hr.2; simp at h2
    exact keepLex db l r.lex h2.1 (h.synexs_lex r hr.1)
  · intro r hr
    simp only [deleteLexicon, List.mem_filter] at hr
    have h2 := hr.2; simp at h2
    exact keepSynset db l r.owner (by simpa using h2.2) (h.synexs_owner r hr.1)
  · intro r hr
    simp only [deleteLexicon, List.mem_filter] at hr
    have h2 := hr.2; simp [senseGone] at h2
    exact keepLex db l r.lex h2.1.1 (h.senses_lex r hr.1)
  · intro r hr
    simp only [deleteLexicon, List.mem_filter] at hr
    have h2 := hr.2; simp [senseGone] at h2
    exact keepEntry db l r.entry (by simpa using h2.1.2) (h.senses_entry r hr.1)
  · intro r hr
    simp only [deleteLexicon, List.mem_filter] at hr
    have h2 := hr.2; simp [senseGone] at h2
    exact keepSynset db l r.synset (by simpa using h2.2) (h.senses_synset r hr.1)
  · intro r hr
    simp only [deleteLexicon, List.mem_filter] at hr
    have h2 := hr.2; simp at h2
    exact keepLex db l r.lex h2.1.1 (h.senserels_lex r hr.1)
  · intro r hr
    simp only [deleteLexicon, List.mem_filter] at hr
    have h2 := hr.2; simp at h2
    exact keepSense db l r.source (by simpa using h2.1.2) (h.senserels_source r hr.1)
  · intro r hr
    simp only [deleteLexicon, List.mem_filter] at hr
    have h2 := hr.2; simp at h2
    exact keepSense db l r.target (by simpa using h2.2) (h.senserels_target r hr.1)
  · intro r hr
    simp only [deleteLexicon, List.mem_filter] at hr
    have h2 := hr.2; simp at h2
    exact keepLex db l r.lex h2.1.1 (h.ssrels_lex r hr.1)
  · intro r hr
    simp only [deleteLexicon, List.mem_filter] at hr
    have h2 := hr.2; simp at h2
    exact keepSense db l r.source (by simpa using h2.1.2) (h.ssrels_source r hr.1)
  · intro r hr
    simp only [deleteLexicon, List.mem_filter] at hr
    have h2 := hr.2; simp at h2
    exact keepSynset db l r.target (by simpa using h2.2) (h.ssrels_target r hr.1)
  · intro r hr
    simp only [deleteLexicon, List.mem_filter] at hr
    exact keepSense db l r.sense (by simpa using hr.2) (h.adjs_sense r hr.1)
  · intro r hr
    simp only [deleteLexicon, List.mem_filter] at hr
    have h2 := hr.2; simp at h2
    exact keepLex db l r.lex h2.1 (h.sensexs_lex r hr.1)
  · intro r hr
    simp only [deleteLexicon, List.mem_filter] at hr
    have h2 := hr.2; simp at h2
    exact keepSense db l r.owner (by simpa using h2.2) (h.sensexs_owner r hr.1)
  · intro r hr
    simp only [deleteLexicon, List.mem_filter] at hr
    have h2 := hr.2; simp at h2
    exact keepLex db l r.lex h2.1 (h.counts_lex r hr.1)
  · intro r hr
    simp only [deleteLexicon, List.mem_filter] at hr
    have h2 := hr.2; simp at h2
    exact keepSense db l r.sense (by simpa using h2.2) (h.counts_sense r hr.1)
  · intro r hr
    simp only [deleteLexicon, List.mem_filter] at hr
    exact keepLex db l r.lex (by simpa using hr.2) (h.sbs_lex r hr.1)
  · intro r hr
    simp only [deleteLexicon, List.mem_filter] at hr
    have h2 := hr.2; simp at h2
    exact keepSb db l r.sb (by simpa using h2.1) (h.sbsenses_sb r hr.1)
  · intro r hr
    simp only [deleteLexicon, List.mem_filter] at hr
    have h2 := hr.2; simp at h2
    exact keepSense db l r.sense (by simpa using h2.2) (h.sbsenses_sense r hr.1)
  · intro r hr
    simp only [deleteLexicon, List.mem_filter] at hr
    exact keepSynset db l r.synset (by simpa using hr.2) (h.pilis_synset r hr.1)

/-! ### `remove()`: extensions first, then the lexicon -/

theorem foldl_delete_FK (L : List Nat) : ∀ (db : Db), FK db → FK (L.foldl deleteLexicon db) := by
  induction L with
  | nil => intro db h; exact h
  | cons a t ih => intro db h; exact ih _ (C05_no_dangling db a h)

/-- `remove()` of one lexicon leaves no dangling row -/
theorem C05_remove_no_dangling (db : Db) (l : Nat) (h : FK db) : FK (removeLexicon db l) := by
  unfold removeLexicon
  exact C05_no_dangling _ l (foldl_delete_FK _ db h)

theorem foldl_delete_lexicons (L : List Nat) : ∀ (db : Db),
    (L.foldl deleteLexicon db).lexicons = db.lexicons.filter (fun r => !L.contains r.rowid) := by
  induction L with
  | nil => intro db; exact (List.filter_eq_self.mpr (by simp)).symm
  | cons a t ih =>
    intro db
    simp only [List.foldl_cons, ih]
    simp only [deleteLexicon, List.filter_filter]
    congr 1
    funext r
    by_cases h1 : r.rowid = a <;> simp [h1]

/-- after `remove()` the lexicon and every lexicon of `get_lexicon_extensions` are gone,
and every other lexicon row is still there, unchanged -/
theorem C05_remove_lexicons (db : Db) (l : Nat) :
    (removeLexicon db l).lexicons =
      db.lexicons.filter (fun r => r.rowid != l && !(extensionsOf db (db.lexicons.length + 1) l).contains r.rowid) := by
  unfold removeLexicon
  show (deleteLexicon _ l).lexicons = _
  simp only [deleteLexicon]
  rw [foldl_delete_lexicons, List.filter_filter]
  congr 1
  funext r
  simp

/-- a lexicon that is neither removed nor one of its extensions keeps its row -/
theorem C05_other_lexicons_kept (db : Db) (l : Nat) (x : RLexicon) (hx : x ∈ db.lexicons) (h1 : x.rowid ≠ l)
    (h2 : x.rowid ∉ extensionsOf db (db.lexicons.length + 1) l) : x ∈ (removeLexicon db l).lexicons := by
  rw [C05_remove_lexicons]
  simp only [List.mem_filter, Bool.and_eq_true]
  exact ⟨hx, by simpa using h1, by simpa using h2⟩

/-- direct extensions of a lexicon -/
def directExts (db : Db) (b : Nat) : List Nat := (db.exts.filter (fun e => e.base == some b)).map (·.ext)

theorem mem_eraseDups {α} [BEq α] [LawfulBEq α] (l : List α) (x : α) : x ∈ l.eraseDups ↔ x ∈ l := by
  simp [List.mem_eraseDups]

theorem nodup_eraseDups {α} [BEq α] [LawfulBEq α] : ∀ (n : Nat) (l : List α), l.length ≤ n → l.eraseDups.Nodup := by
  intro n
  induction n with
  | zero =>
    intro l h
    have : l = [] := by cases l with | nil => rfl | cons _ _ => simp at h
    subst this; simp
  | succ n ih =>
    intro l h
    cases l with
    | nil => simp
    | cons a t =>
      rw [List.eraseDups_cons, List.nodup_cons]
      constructor
      · intro hm
        rw [mem_eraseDups] at hm
        simp at hm
      · apply ih
        have := List.length_filter_le (fun b => !b == a) t
        simp only [List.length_cons] at h
        omega

theorem extensionsOf_go_closed (db : Db) (root : Nat) : ∀ (f : Nat) (frontier acc : List Nat),
    acc.Nodup → (∀ x ∈ acc, x ∈ db.exts.map (·.ext)) →
    (∀ x, (x ∈ acc ∨ x = root) → x ∉ frontier → ∀ y ∈ directExts db x, y ∈ acc) →
    (∀ x ∈ frontier, x ∈ acc ∨ x = root) →
    (db.exts.map (·.ext)).length - acc.length < f →
    ∀ x, (x ∈ extensionsOf.go db f frontier acc ∨ x = root) → ∀ y ∈ directExts db x, y ∈ extensionsOf.go db f frontier acc := by
  intro f
  induction f with
  | zero => intro frontier acc _ _ _ _ hf; omega
  | succ f ih =>
    intro frontier acc hnd hsub h1 h2 hf x hx y hy
    simp only [extensionsOf.go] at hx ⊢
    have hnext : ∀ z, z ∈ frontier.flatMap (fun b => (db.exts.filter (fun e => e.base == some b)).map (·.ext)) ↔
        ∃ b ∈ frontier, z ∈ directExts db b := by
      intro z; simp only [List.mem_flatMap, directExts]
    split
    · rename_i hemp
      split at hx
      · -- fresh empty: acc is closed
        by_cases hxf : x ∈ frontier
        · have : y ∈ (frontier.flatMap (fun b => (db.exts.filter (fun e => e.base == some b)).map (·.ext))) := (hnext y).mpr ⟨x, hxf, hy⟩
          have hfe : ((frontier.flatMap (fun b => (db.exts.filter (fun e => e.base == some b)).map (·.ext))).filter (fun x => !acc.contains x)).eraseDups = [] := by
            simpa using hemp
          by_cases hya : y ∈ acc
          · exact hya
          · have : y ∈ ((frontier.flatMap (fun b => (db.exts.filter (fun e => e.base == some b)).map (·.ext))).filter (fun x => !acc.contains x)).eraseDups := by
              rw [mem_eraseDups]; simp only [List.mem_filter]; exact ⟨this, by simpa using hya⟩
            rw [hfe] at this; simp at this
        · exact h1 x hx hxf y hy
      · rename_i hne; exact absurd hemp hne
    · rename_i hne
      split at hx
      · rename_i hemp; exact absurd hemp hne
      · -- recursive call
        let next := frontier.flatMap (fun b => (db.exts.filter (fun e => e.base == some b)).map (·.ext))
        let fresh := (next.filter (fun x => !acc.contains x)).eraseDups
        have hfresh_mem : ∀ z, z ∈ fresh ↔ z ∈ next ∧ z ∉ acc := by
          intro z; simp only [fresh, mem_eraseDups, List.mem_filter]; simp
        have hfresh_ne : fresh ≠ [] := by
          intro e; apply hne; show fresh.isEmpty = true; rw [e]; rfl
        refine ih fresh (acc ++ fresh) ?_ ?_ ?_ ?_ ?_ x hx y hy
        · rw [List.nodup_append]
          refine ⟨hnd, nodup_eraseDups _ _ (Nat.le_refl _), ?_⟩
          intro a ha b hb e
          subst e
          exact ((hfresh_mem a).mp hb).2 ha
        · intro z hz
          rcases List.mem_append.mp hz with hz | hz
          · exact hsub z hz
          · obtain ⟨b, _, hzb⟩ := (hnext z).mp ((hfresh_mem z).mp hz).1
            simp only [directExts, List.mem_map, List.mem_filter] at hzb ⊢
            obtain ⟨e, ⟨he, _⟩, rfl⟩ := hzb
            exact ⟨e, he, rfl⟩
        · intro z hz hzf w hw
          have hz' : z ∈ acc ∨ z = root := by
            rcases hz with hz | hz
            · rcases List.mem_append.mp hz with hz | hz
              · exact Or.inl hz
              · exact absurd hz hzf
            · exact Or.inr hz
          by_cases hzfr : z ∈ frontier
          · have hwn : w ∈ next := (hnext w).mpr ⟨z, hzfr, hw⟩
            by_cases hwa : w ∈ acc
            · exact List.mem_append_left _ hwa
            · exact List.mem_append_right _ ((hfresh_mem w).mpr ⟨hwn, hwa⟩)
          · exact List.mem_append_left _ (h1 z hz' hzfr w hw)
        · intro z hz; exact Or.inl (List.mem_append_right _ hz)
        · have hlen : (acc ++ fresh).length ≤ (db.exts.map (·.ext)).length := by
            apply List.Nodup.length_le_of_subset
            · rw [List.nodup_append]
              refine ⟨hnd, nodup_eraseDups _ _ (Nat.le_refl _), ?_⟩
              intro a ha b hb e
              subst e
              exact ((hfresh_mem a).mp hb).2 ha
            · intro z hz
              rcases List.mem_append.mp hz with hz | hz
              · exact hsub z hz
              · obtain ⟨b, _, hzb⟩ := (hnext z).mp ((hfresh_mem z).mp hz).1
                simp only [directExts, List.mem_map, List.mem_filter] at hzb ⊢
                obtain ⟨e, ⟨he, _⟩, rfl⟩ := hzb
                exact ⟨e, he, rfl⟩
          have hpos : 0 < fresh.length := List.length_pos_iff.mpr hfresh_ne
          simp only [List.length_append] at hlen ⊢
          omega

/-- `get_lexicon_extensions` is closed under "extends": it contains the direct extensions of the
lexicon and of every lexicon it contains, i.e. all transitive extensions — whenever the fuel
exceeds the number of extension rows -/
theorem C05_extensions_closed (db : Db) (l : Nat) (fuel : Nat) (hf : db.exts.length < fuel) (x : Nat)
    (hx : x ∈ extensionsOf db fuel l ∨ x = l) : ∀ y ∈ directExts db x, y ∈ extensionsOf db fuel l := by
  unfold extensionsOf at hx ⊢
  exact extensionsOf_go_closed db l fuel [l] [] (by simp) (by simp)
    (by intro z hz hzf; rcases hz with hz | hz; simp at hz; subst hz; simp at hzf)
    (by intro z hz; right; simpa using hz) (by simp; exact hf) x hx


theorem foldl_delete_exts (L : List Nat) : ∀ (db : Db),
    (L.foldl deleteLexicon db).exts = db.exts.filter (fun r => !L.contains r.ext) := by
  induction L with
  | nil => intro db; exact (List.filter_eq_self.mpr (by simp)).symm
  | cons a t ih =>
    intro db
    simp only [List.foldl_cons, ih]
    simp only [deleteLexicon, List.filter_filter]
    congr 1
    funext r
    by_cases h1 : r.ext = a <;> simp [h1]

/-- after `remove()` no extension row is left pointing at a removed base: the last clause of
referential integrity (`lexicon_extensions.base_rowid`, declared without ON DELETE action, so
SQLite would refuse the delete otherwise) -/
theorem C05_remove_no_dangling_base (db : Db) (l : Nat) (hf : db.exts.length < db.lexicons.length + 1)
    (e : RExt) (he : e ∈ (removeLexicon db l).exts) (b : Nat) (hb : e.base = some b) :
    b ≠ l ∧ b ∉ extensionsOf db (db.lexicons.length + 1) l := by
  unfold removeLexicon at he
  simp only [deleteLexicon] at he
  rw [foldl_delete_exts] at he
  simp only [List.mem_filter, List.contains_reverse] at he
  obtain ⟨⟨he1, he2⟩, he3⟩ := he
  have hnot : e.ext ∉ extensionsOf db (db.lexicons.length + 1) l := by simpa using he2
  have hdir : e.ext ∈ directExts db b := by
    simp only [directExts, List.mem_map, List.mem_filter]
    exact ⟨e, ⟨he1, by simp [hb]⟩, rfl⟩
  constructor
  · intro hbl
    exact hnot (C05_extensions_closed db l _ hf b (Or.inr hbl) _ hdir)
  · intro hbx
    exact hnot (C05_extensions_closed db l _ hf b (Or.inl hbx) _ hdir)

/-! ### the removed lexicon can be added again; dependency links follow what is installed -/

/-- after `remove()` of the lexicon row `x`, no row with its (id, version) is left — `_precheck` will
not skip it, and `_insert_lexicon` will not hit the UNIQUE(id, version) constraint — provided the
store respected that constraint -/
theorem C05_can_be_added_again (db : Db) (x : RLexicon)
    (huniq : ∀ y ∈ db.lexicons, y.id = x.id → y.version = x.version → y.rowid = x.rowid) :
    lexiconRow (removeLexicon db x.rowid) x.id x.version = none := by
  unfold lexiconRow
  rw [Option.map_eq_none_iff, List.find?_eq_none]
  intro y hy
  rw [C05_remove_lexicons] at hy
  simp only [List.mem_filter, Bool.and_eq_true, bne_iff_ne, ne_eq] at hy
  intro hc
  simp only [Bool.and_eq_true, beq_iff_eq] at hc
  exact hy.2.1 (huniq y hy.1 hc.1 hc.2)

/-- adding a lexicon links every waiting dependency on it (same id and version) to the new row, and
leaves every other dependency row as it was -/
theorem C05_dependencies_relinked (db db' : Db) (l : Doc.Lexicon) (lexid extid : Nat)
    (h : insertLexicon db l = .ok (db', lexid, extid)) (d : RDep) (hd : d ∈ db.deps) :
    (if d.pid = l.id ∧ d.pver = l.version then { d with provider := some lexid } else d) ∈ db'.deps := by
  unfold insertLexicon at h
  simp only [bind, Except.bind, pure, Except.pure] at h
  have key : (if d.pid = l.id ∧ d.pver = l.version then { d with provider := some lexid } else d) ∈
      db.deps.map (fun d => if d.pid == l.id && d.pver == l.version then { d with provider := some lexid } else d) := by
    refine List.mem_map.mpr ⟨d, hd, ?_⟩
    by_cases hc : d.pid = l.id ∧ d.pver = l.version
    · simp [hc.1, hc.2]
    · have : (d.pid == l.id && d.pver == l.version) = false := by
        simp only [Bool.and_eq_false_iff, beq_eq_false_iff_ne]
        by_cases h1 : d.pid = l.id
        · right; exact fun h2 => hc ⟨h1, h2⟩
        · left; exact h1
      simp [this, hc]
  split at h
  · simp [throw, throwThe, MonadExcept.throw] at h
  · split at h
    · split at h
      · simp at h
      · simp only [Except.ok.injEq, Prod.mk.injEq] at h
        obtain ⟨h1, h2, _⟩ := h
        subst h1 h2
        exact List.mem_append_left _ key
    · simp only [Except.ok.injEq, Prod.mk.injEq] at h
      obtain ⟨h1, h2, _⟩ := h
      subst h1 h2
      exact List.mem_append_left _ key

/-! ### frame: rows that reference nothing removed survive unchanged -/
theorem C05_entry_survives_iff (db : Db) (l : Nat) (r : REntry) :
    r ∈ (deleteLexicon db l).entries ↔ r ∈ db.entries ∧ r.lex ≠ l := by
  simp [deleteLexicon]
theorem C05_synset_survives_iff (db : Db) (l : Nat) (r : RSynset) :
    r ∈ (deleteLexicon db l).synsets ↔ r ∈ db.synsets ∧ r.lex ≠ l := by
  simp [deleteLexicon]
theorem C05_sense_survives_iff (db : Db) (l : Nat) (r : RSense) :
    r ∈ (deleteLexicon db l).senses ↔
      r ∈ db.senses ∧ r.lex ≠ l ∧ (∀ e ∈ db.entries, e.lex = l → e.rowid ≠ r.entry) ∧
        (∀ y ∈ db.synsets, y.lex = l → y.rowid ≠ r.synset) := by
  simp only [deleteLexicon, List.mem_filter, senseGone, entriesDel, synsetsDel]
  simp [and_assoc]
theorem C05_form_survives_iff (db : Db) (l : Nat) (r : RForm) :
    r ∈ (deleteLexicon db l).forms ↔
      r ∈ db.forms ∧ r.lex ≠ l ∧ (∀ e ∈ db.entries, e.lex = l → e.rowid ≠ r.entry) := by
  simp only [deleteLexicon, List.mem_filter, formGone, entriesDel]
  simp [and_assoc]
theorem C05_synrel_survives_iff (db : Db) (l : Nat) (r : RRel) :
    r ∈ (deleteLexicon db l).synrels ↔
      r ∈ db.synrels ∧ r.lex ≠ l ∧ (∀ y ∈ db.synsets, y.lex = l → y.rowid ≠ r.source) ∧
        (∀ y ∈ db.synsets, y.lex = l → y.rowid ≠ r.target) := by
  simp only [deleteLexicon, List.mem_filter, synsetsDel]
  simp [and_assoc]

/-- the lookup tables (relation types, ILI statuses, lexfiles) and the ILI table are not touched -/
theorem C05_shared_tables_untouched (db : Db) (l : Nat) :
    (deleteLexicon db l).ilis = db.ilis ∧ (deleteLexicon db l).reltypes = db.reltypes ∧
    (deleteLexicon db l).ilistatuses = db.ilistatuses ∧ (deleteLexicon db l).lexfiles = db.lexfiles :=
  ⟨rfl, rfl, rfl, rfl⟩

/-! ### known finding F12-residue: tag / pronunciation rows have no owner -/

/-- a tag row that an extension attached to a form owned by another lexicon (a base lemma) is not
reached by the cascade: it survives the removal of the extension.  General statement: a tag
survives `DELETE FROM lexicons WHERE rowid = l` whenever its form is not deleted, whoever wrote it. -/
theorem C05_residue_tags (db : Db) (l : Nat) (t : RTag) (ht : t ∈ db.tags) (hf : t.form ∉ formsDel db l) :
    t ∈ (deleteLexicon db l).tags := by
  simp only [deleteLexicon, List.mem_filter]
  exact ⟨ht, by simpa using hf⟩

theorem C05_residue_prons (db : Db) (l : Nat) (t : RPron) (ht : t ∈ db.prons) (hf : t.form ∉ formsDel db l) :
    t ∈ (deleteLexicon db l).prons := by
  simp only [deleteLexicon, List.mem_filter]
  exact ⟨ht, by simpa using hf⟩

/-- kernel-checked witness: base lexicon 1 with lemma form 1, extension 2 added a tag to that
form; after removing the extension the tag is still there -/
def residueDemo : Db :=
  { lexicons := [⟨1, "a", "A", "en", "e", "l", "1", none, none, none, none⟩, ⟨2, "x", "X", "en", "e", "l", "1", none, none, none, none⟩]
    exts := [⟨2, "a", "1", none, some 1⟩]
    entries := [⟨1, "e1", 1, "n", none⟩]
    forms := [⟨1, none, 1, 1, "cat", none, none, 0⟩]
    tags := [⟨1, "added-by-extension", "c"⟩] }

theorem C05_residue_counterexample : (removeLexicon residueDemo 2).tags = [⟨1, "added-by-extension", "c"⟩] ∧
    (removeLexicon residueDemo 2).lexicons.map (·.id) = ["a"] := by decide

/-! ### non-vacuity: a store with a base, an extension and a dependant -/
def demo : Db :=
  { lexicons := [⟨1, "a", "A", "en", "e", "l", "1", none, none, none, none⟩, ⟨2, "x", "X", "en", "e", "l", "1", none, none, none, none⟩,
                 ⟨3, "b", "B", "en", "e", "l", "1", none, none, none, none⟩]
    exts := [⟨2, "a", "1", none, some 1⟩]
    deps := [⟨3, "a", "1", none, some 1⟩]
    entries := [⟨1, "e1", 1, "n", none⟩, ⟨2, "e2", 3, "n", none⟩]
    forms := [⟨1, none, 1, 1, "cat", none, none, 0⟩, ⟨2, none, 2, 1, "cats", none, none, 1⟩, ⟨3, none, 3, 2, "dog", none, none, 0⟩]
    synsets := [⟨1, "s1", 1, none, "n", true, none, none⟩, ⟨2, "s2", 3, none, "n", true, none, none⟩]
    senses := [⟨1, "n1", 1, 1, 0, 1, 0, true, none⟩, ⟨2, "n2", 3, 2, 0, 2, 0, true, none⟩] }

example : (removeLexicon demo 1).lexicons.map (·.id) = ["b"] := by decide
example : (removeLexicon demo 1).forms.map (·.form) = ["dog"] := by decide
example : (removeLexicon demo 1).deps = [⟨3, "a", "1", none, none⟩] := by decide
example : extensionsOf demo 4 1 = [2] := by decide

open WnVerif WnVerif.Doc WnVerif.Props.C01

/-! ### `remove` undoes `add`: the relation, definition, example, count and sense tables -/

/-- rowids of the rows of `old ++ rows` owned by `l`, when no old row is owned by `l` and all new ones are -/
theorem del_eq_new {ρ} (old rows : List ρ) (lex rowid : ρ → Nat) (l : Nat)
    (hold : ∀ o ∈ old, lex o ≠ l) (hnew : ∀ r ∈ rows, lex r = l) :
    ((old ++ rows).filter (fun r => lex r == l)).map rowid = rows.map rowid := by
  rw [List.filter_append]
  have e1 : old.filter (fun r => lex r == l) = [] := by
    rw [List.filter_eq_nil_iff]; intro o ho; simpa using hold o ho
  have e2 : rows.filter (fun r => lex r == l) = rows := by
    rw [List.filter_eq_self]; intro r hr; simpa using hnew r hr
  rw [e1, e2, List.nil_append]

theorem old_not_new {ρ} (old rows : List ρ) (rowid : ρ → Nat) (hn : ((old ++ rows).map rowid).Nodup) (x : Nat)
    (hx : x ∈ old.map rowid) : x ∉ rows.map rowid := by
  rw [List.map_append, List.nodup_append] at hn
  intro h
  exact hn.2.2 x hx x h rfl

/-- a table whose rows are filtered by "not owned by `l` and not referring to deleted rows" -/
theorem filter_restores {ρ} (old rows : List ρ) (gone : ρ → Bool)
    (hold : ∀ o ∈ old, gone o = false) (hnew : ∀ r ∈ rows, gone r = true) :
    (old ++ rows).filter (fun r => !gone r) = old := by
  rw [List.filter_append]
  have e1 : old.filter (fun r => !gone r) = old := by
    rw [List.filter_eq_self]; intro o ho; simp [hold o ho]
  have e2 : rows.filter (fun r => !gone r) = [] := by
    rw [List.filter_eq_nil_iff]; intro r hr; simp [hnew r hr]
  rw [e1, e2, List.append_nil]

/-- **C05: `remove` undoes `add`** — deleting the lexicon that was just added restores the senses,
the three relation tables, definitions, examples and counts exactly (for any lexicon, on any store
satisfying the schema's foreign keys with unique rowids) -/
theorem C05_add_then_delete_restores (norm : String → String) (dr : Nat) (db db' : Db) (l : Lexicon)
    (h : addLexicon norm dr db l = .ok db') (fk : FK db)
    (hnS : (db.senses.map (·.rowid)).Nodup) (hnE : (db.entries.map (·.rowid)).Nodup)
    (hnY : (db.synsets.map (·.rowid)).Nodup) (hnI : (db.ilis.map (·.rowid)).Nodup) :
    let d := deleteLexicon db' (nextId (db.lexicons.map (·.rowid)))
    d.synsets = db.synsets ∧ d.senses = db.senses ∧ d.synrels = db.synrels ∧ d.senserels = db.senserels ∧
    d.sensesynrels = db.sensesynrels ∧ d.synexs = db.synexs ∧ d.sensexs = db.sensexs ∧ d.counts = db.counts := by
  obtain ⟨t⟩ := addLexicon_split norm dr db db' l h
  have hlexid : t.lexid = nextId (db.lexicons.map (·.rowid)) := (insertLexicon_frame _ _ _ _ _ t.hlex).2.2.1
  have hfresh : ∀ (x : Nat), (∃ y ∈ db.lexicons, y.rowid = x) → x ≠ t.lexid := by
    rintro x ⟨y, hy, rfl⟩ e
    have : t.lexid ∈ db.lexicons.map (·.rowid) := List.mem_map.mpr ⟨y, hy, e⟩
    rw [hlexid] at this
    exact nextId_not_mem _ this
  rw [← hlexid]
  -- tables
  obtain ⟨_, g2, g3⟩ := insertLexicon_frame2 _ _ _ _ _ t.hlex
  obtain ⟨hT, hYeq, rrows, hrr, hFr⟩ := addLexicon_synrel_table t
  obtain ⟨hE, _, srows, hS, hFs, hnodS⟩ := addLexicon_sense_table t
  obtain ⟨_, r2, hr2, hF2⟩ := addLexicon_senserel_table t
  obtain ⟨_, r3, hr3, hF3⟩ := addLexicon_sensesynrel_table t
  obtain ⟨⟨r4, hr4, hF4⟩, ⟨r5, hr5, hF5⟩, ⟨r6, hr6, hF6⟩⟩ := addLexicon_defs_tables t
  obtain ⟨r7, hr7, hF7⟩ := addLexicon_counts_table t
  have hd1i : t.d1.ilis = db.ilis := by
    have h := t.hlex
    unfold insertLexicon at h
    simp only [bind, Except.bind, pure, Except.pure] at h
    split at h
    · simp [throw, throwThe, MonadExcept.throw] at h
    · split at h
      · split at h
        · simp at h
        · simp only [Except.ok.injEq, Prod.mk.injEq] at h
          obtain ⟨h, _, _⟩ := h; rw [← h]; rfl
      · simp only [Except.ok.injEq, Prod.mk.injEq] at h
        obtain ⟨h, _, _⟩ := h; rw [← h]; rfl
  obtain ⟨yrows, hyE, hyF⟩ := insertSynsets_rows t.d1 t.d2 l _ t.hsyn (by rw [hd1i]; exact hnI)
  have hY : db'.synsets = db.synsets ++ yrows := by rw [hYeq, hyE, g2]; rfl
  have hynew : ∀ r ∈ yrows, r.lex = t.lexid := Forall2.forall_right (fun _ _ hr => hr.2.1) hyF
  have hyold : ∀ o ∈ db.synsets, o.lex ≠ t.lexid := fun o ho => hfresh _ (fk.synsets_lex o ho)
  have hsnew : ∀ r ∈ srows, r.lex = t.lexid := Forall2.forall_right (fun _ _ hr => hr.2.1) hFs
  have hsold : ∀ o ∈ db.senses, o.lex ≠ t.lexid := fun o ho => hfresh _ (fk.senses_lex o ho)
  -- entries: old rows then new rows owned by the new lexicon
  obtain ⟨erows, hEx, henew⟩ : ∃ erows, db'.entries = db.entries ++ erows ∧ ∀ r ∈ erows, r.lex = t.lexid := by
    have e2 := (keepsF_insertSynsets l _ _ _ t.hsyn).1
    have h3 := t.hent
    unfold insertEntries at h3
    obtain ⟨_, er, he, hFe⟩ := foldlM_rows1 (fun d => d.entries) (fun _ => ()) (entryStep t.ctx) (fun _ _ r => r.lex = t.lexid)
      (fun b a b' hh => by
        obtain ⟨r, hb, hr⟩ := entryStep_ok _ b b' a hh
        exact ⟨rfl, r, by rw [hb], hr.1.2.1⟩) _ _ _ h3
    exact ⟨er, by rw [hE, he, e2, g3]; rfl, Forall2.forall_right (P := fun (r : REntry) => r.lex = t.lexid) (fun _ _ hr => hr) hFe⟩
  have heold : ∀ o ∈ db.entries, o.lex ≠ t.lexid := fun o ho => hfresh _ (fk.entries_lex o ho)
  -- uniqueness of rowids after the add
  have hnY' : (db'.synsets.map (·.rowid)).Nodup := by
    rw [hYeq]; apply insertSynsets_nodupY _ _ _ _ t.hsyn; rw [g2]; exact hnY
  have hnE' : (db'.entries.map (·.rowid)).Nodup := by
    rw [hE]; apply insertEntries_nodupE _ _ _ _ t.hent
    rw [(keepsF_insertSynsets l _ _ _ t.hsyn).1, g3]; exact hnE
  have hnS' : (db'.senses.map (·.rowid)).Nodup := hnodS hnS
  -- what the cascade reaches
  have hYdel : synsetsDel db' t.lexid = yrows.map (·.rowid) := by
    unfold synsetsDel; rw [hY]; exact del_eq_new db.synsets yrows (fun r => r.lex) (fun r => r.rowid) _ hyold hynew
  have hEdel : entriesDel db' t.lexid = erows.map (·.rowid) := by
    unfold entriesDel; rw [hEx]; exact del_eq_new db.entries erows (fun r => r.lex) (fun r => r.rowid) _ heold henew
  have oldY : ∀ x, (∃ y ∈ db.synsets, y.rowid = x) → (synsetsDel db' t.lexid).contains x = false := by
    rintro x ⟨y, hy, rfl⟩
    rw [hYdel]
    have := old_not_new db.synsets yrows (fun r => r.rowid) (by rw [← hY]; exact hnY') y.rowid (List.mem_map.mpr ⟨y, hy, rfl⟩)
    simpa using this
  have oldE : ∀ x, (∃ y ∈ db.entries, y.rowid = x) → (entriesDel db' t.lexid).contains x = false := by
    rintro x ⟨y, hy, rfl⟩
    rw [hEdel]
    have := old_not_new db.entries erows (fun r => r.rowid) (by rw [← hEx]; exact hnE') y.rowid (List.mem_map.mpr ⟨y, hy, rfl⟩)
    simpa using this
  have hgoneOld : ∀ o ∈ db.senses, senseGone db' t.lexid o = false := by
    intro o ho
    unfold senseGone
    have a1 : (o.lex == t.lexid) = false := by simpa using hsold o ho
    rw [a1, oldE _ (fk.senses_entry o ho), oldY _ (fk.senses_synset o ho)]
    rfl
  have hgoneNew : ∀ r ∈ srows, senseGone db' t.lexid r = true := by
    intro r hr
    unfold senseGone
    simp [hsnew r hr]
  have hSdel : sensesDel db' t.lexid = srows.map (·.rowid) := by
    unfold sensesDel
    rw [hS, List.filter_append]
    have e1 : db.senses.filter (senseGone db' t.lexid) = [] := by
      rw [List.filter_eq_nil_iff]; intro o ho; simp [hgoneOld o ho]
    have e2 : srows.filter (senseGone db' t.lexid) = srows := by
      rw [List.filter_eq_self]; intro r hr; exact hgoneNew r hr
    rw [e1, e2, List.nil_append]
  have oldS : ∀ x, (∃ y ∈ db.senses, y.rowid = x) → (sensesDel db' t.lexid).contains x = false := by
    rintro x ⟨y, hy, rfl⟩
    rw [hSdel]
    have := old_not_new db.senses srows (fun r => r.rowid) (by rw [← hS]; exact hnS') y.rowid (List.mem_map.mpr ⟨y, hy, rfl⟩)
    simpa using this
  have lexNe : ∀ x, (∃ y ∈ db.lexicons, y.rowid = x) → (x == t.lexid) = false := by
    intro x hx; simpa using hfresh x hx
  simp only [deleteLexicon]
  refine ⟨?_, ?_, ?_, ?_, ?_, ?_, ?_, ?_⟩
  · rw [hY]
    have := filter_restores db.synsets yrows (fun r => r.lex == t.lexid) (fun o ho => by simpa using hyold o ho) (fun r hr => by simpa using hynew r hr)
    simpa [bne] using this
  · rw [hS]; exact filter_restores db.senses srows (senseGone db' t.lexid) hgoneOld hgoneNew
  · rw [hrr]
    exact filter_restores db.synrels rrows (fun r => r.lex == t.lexid || (synsetsDel db' t.lexid).contains r.source || (synsetsDel db' t.lexid).contains r.target)
      (fun o ho => by rw [lexNe _ (fk.synrels_lex o ho), oldY _ (fk.synrels_source o ho), oldY _ (fk.synrels_target o ho)]; rfl)
      (fun r hr => by have := Forall2.forall_right (fun _ _ hh => hh.1) hFr r hr; simp [show r.lex = t.lexid from this])
  · rw [hr2]
    exact filter_restores db.senserels r2 (fun r => r.lex == t.lexid || (sensesDel db' t.lexid).contains r.source || (sensesDel db' t.lexid).contains r.target)
      (fun o ho => by rw [lexNe _ (fk.senserels_lex o ho), oldS _ (fk.senserels_source o ho), oldS _ (fk.senserels_target o ho)]; rfl)
      (fun r hr => by have := Forall2.forall_right (fun _ _ hh => hh.1) hF2 r hr; simp [show r.lex = t.lexid from this])
  · rw [hr3]
    exact filter_restores db.sensesynrels r3 (fun r => r.lex == t.lexid || (sensesDel db' t.lexid).contains r.source || (synsetsDel db' t.lexid).contains r.target)
      (fun o ho => by rw [lexNe _ (fk.ssrels_lex o ho), oldS _ (fk.ssrels_source o ho), oldY _ (fk.ssrels_target o ho)]; rfl)
      (fun r hr => by have := Forall2.forall_right (fun _ _ hh => hh.1) hF3 r hr; simp [show r.lex = t.lexid from this])
  · rw [hr5]
    exact filter_restores db.synexs r5 (fun r => r.lex == t.lexid || (synsetsDel db' t.lexid).contains r.owner)
      (fun o ho => by rw [lexNe _ (fk.synexs_lex o ho), oldY _ (fk.synexs_owner o ho)]; rfl)
      (fun r hr => by have := Forall2.forall_right (fun _ _ hh => hh.1) hF5 r hr; simp [show r.lex = t.lexid from this])
  · rw [hr6]
    exact filter_restores db.sensexs r6 (fun r => r.lex == t.lexid || (sensesDel db' t.lexid).contains r.owner)
      (fun o ho => by rw [lexNe _ (fk.sensexs_lex o ho), oldS _ (fk.sensexs_owner o ho)]; rfl)
      (fun r hr => by have := Forall2.forall_right (fun _ _ hh => hh.1) hF6 r hr; simp [show r.lex = t.lexid from this])
  · rw [hr7]
    exact filter_restores db.counts r7 (fun r => r.lex == t.lexid || (sensesDel db' t.lexid).contains r.sense)
      (fun o ho => by rw [lexNe _ (fk.counts_lex o ho), oldS _ (fk.counts_sense o ho)]; rfl)
      (fun r hr => by have := Forall2.forall_right (fun _ _ hh => hh.1) hF7 r hr; simp [show r.lex = t.lexid from this])

/-! ### `remove` undoes `add`, continued: entries, forms, and (plain lexicons) tags and pronunciations -/

theorem addForm_rows (db db1 : Db) (norm : String → String) (lexid er : Nat) (id : Option String) (form : String)
    (script : Option String) (rank : Nat) (h : addForm db norm lexid er id form script rank = .ok db1) :
    ∃ r, db1.forms = db.forms ++ [r] ∧ r.lex = lexid ∧ r.entry = er := by
  unfold addForm at h
  simp only [bind, Except.bind, pure, Except.pure] at h
  split at h
  · simp [throw, throwThe, MonadExcept.throw] at h
  · simp only [Except.ok.injEq] at h; subst h; exact ⟨_, rfl, rfl, rfl⟩

theorem formStep_rows (norm : String → String) (c : Ctx) (e : Entry) (b : Db) (fi : Form × Nat) (b' : Db)
    (h : formStep norm c e b fi = .ok b') : ∃ rs, b'.forms = b.forms ++ rs ∧ ∀ r ∈ rs, r.lex = c.lexid := by
  unfold formStep at h
  split at h
  · simp only [Except.ok.injEq] at h; subst h; exact ⟨[], by simp, by simp⟩
  · cases he : entryRow b e.id (c.lid e.id) with
    | none => simp [he, need, bind, Except.bind] at h
    | some er =>
      simp only [he, need, bind, Except.bind] at h
      obtain ⟨r, hr, hl, _⟩ := addForm_rows _ _ _ _ _ _ _ _ _ h
      exact ⟨[r], hr, by simp [hl]⟩

theorem forms_fold_rows (norm : String → String) (c : Ctx) (e : Entry) : ∀ (fis : List (Form × Nat)) (b b' : Db),
    fis.foldlM (formStep norm c e) b = .ok b' → ∃ rs, b'.forms = b.forms ++ rs ∧ ∀ r ∈ rs, r.lex = c.lexid := by
  intro fis b b' h
  refine foldlM_ok_induct (formStep norm c e) (fun _ b b' => ∃ rs, b'.forms = b.forms ++ rs ∧ ∀ r ∈ rs, r.lex = c.lexid) ?_ ?_ fis b b' h
  · intro b; exact ⟨[], by simp, by simp⟩
  · intro a t b b1 b' h1 _ ih
    obtain ⟨r1, e1, l1⟩ := formStep_rows norm c e b a b1 h1
    obtain ⟨r2, e2, l2⟩ := ih
    refine ⟨r1 ++ r2, by rw [e2, e1, List.append_assoc], ?_⟩
    intro r hr
    rcases List.mem_append.mp hr with hr | hr
    · exact l1 r hr
    · exact l2 r hr

theorem entryFormsStep_rows (norm : String → String) (c : Ctx) (b : Db) (e : Entry) (b' : Db)
    (h : entryFormsStep norm c b e = .ok b') : ∃ rs, b'.forms = b.forms ++ rs ∧ ∀ r ∈ rs, r.lex = c.lexid := by
  unfold entryFormsStep at h
  simp only [bind, Except.bind] at h
  cases hx : e.external with
  | true =>
    simp only [hx, Bool.not_true, Bool.false_eq_true, if_false, pure, Except.pure] at h
    exact forms_fold_rows norm c e _ _ _ h
  | false =>
    simp only [hx, Bool.not_false, if_true] at h
    cases hl : e.lemma with
    | none => simp [hl, need] at h
    | some lem =>
      simp only [hl, need] at h
      cases he : entryRow b e.id (c.lid e.id) with
      | none => simp [he] at h
      | some er =>
        simp only [he] at h
        cases ha : addForm b norm c.lexid er none lem.form lem.script 0 with
        | error x => simp [ha] at h
        | ok b1 =>
          simp only [ha] at h
          obtain ⟨r, hr, hl', _⟩ := addForm_rows _ _ _ _ _ _ _ _ _ ha
          obtain ⟨rs, hrs, hls⟩ := forms_fold_rows norm c e _ _ _ h
          refine ⟨r :: rs, by rw [hrs, hr]; simp, ?_⟩
          intro x hx'
          rcases List.mem_cons.mp hx' with rfl | hx'
          · exact hl'
          · exact hls x hx'

/-- the `forms` table after one `addLexicon`: old rows, then rows owned by the new lexicon -/
theorem addLexicon_forms_table {norm : String → String} {dr : Nat} {db db' : Db} {l : Lexicon}
    (t : AddTrace norm dr db db' l) : ∃ rows, db'.forms = db.forms ++ rows ∧ ∀ r ∈ rows, r.lex = t.lexid := by
  let c : Ctx := ⟨t.lexid, t.extid, externalIds l⟩
  let π : Db → List RForm := fun b => b.forms
  have k1 : π t.d1 = π (updateLookups db l) := (insertLexicon_frame _ _ _ _ _ t.hlex).2.1
  have k2 : π t.d2 = π t.d1 := keepsGF_insertSynsets π l c (fun p => by keepsG_step presupStep)
    (by keepsG_step synsetStep) (by keepsG_step piliStep) _ _ t.hsyn
  have k3 : π t.d3 = π t.d2 := keepsGF_insertEntries π l c (by keepsG_step entryStep) _ _ t.hent
  have hform := t.hform
  unfold insertForms at hform
  obtain ⟨_, rss, hr, hF⟩ := foldlM_rowsL (fun d => d.forms) (fun _ => ()) (entryFormsStep norm c)
    (fun _ _ rs => ∀ r ∈ rs, r.lex = t.lexid)
    (fun b e b' hh => by
      obtain ⟨rs, h1, h2⟩ := entryFormsStep_rows norm c b e b' hh
      exact ⟨rfl, rs, h1, h2⟩) _ _ _ hform
  have k5 : π t.d5 = π t.d4 := keepsGF_insertPronsTags π l c (fun _ _ _ => by keepsG_step pronStep)
    (fun _ _ _ => by keepsG_step tagStep) _ _ t.hpt
  have k6 : π t.d6 = π t.d5 := keepsGF_insertSenses π l c dr (fun _ => by keepsG_step senseStep)
    (by keepsG_step adjStep) (fun _ => by keepsG_step countStep) _ _ t.hsen
  have k7 : π t.d7 = π t.d6 := keepsGF_insertSbs π t.sbs c (by keepsG_step sbStep) (fun _ => by keepsG_step sbSenseStep) _ _ t.hsb
  have k8 : π t.d8 = π t.d7 := keepsGF_insertRelations π l c (fun _ => by keepsG_step synRelStep)
    (by keepsG_step senseRelStep) (by keepsG_step senseSynRelStep) _ _ t.hrel
  have k9 : π db' = π t.d8 := keepsGF_insertDefsExamples π l c (fun _ => by keepsG_step defStep)
    (fun _ => by keepsG_step senseExampleStep) (fun _ => by keepsG_step synsetExampleStep) _ _ t.hdx
  refine ⟨rss.flatten, ?_, ?_⟩
  · show π db' = _
    rw [k9, k8, k7, k6, k5]
    show t.d4.forms = _
    rw [hr]
    have : t.d3.forms = db.forms := by
      show π t.d3 = _
      rw [k3, k2, k1]; rfl
    rw [this]
  · intro r hr'
    obtain ⟨rs, hrs, hrr⟩ := List.mem_flatten.mp hr'
    obtain ⟨e, _, he⟩ := Forall2.exists_of_mem_right hF rs hrs
    exact he r hrr

theorem addForm_nodup (db db1 : Db) (norm : String → String) (lexid er : Nat) (id : Option String) (form : String)
    (script : Option String) (rank : Nat) (h : addForm db norm lexid er id form script rank = .ok db1)
    (hn : (db.forms.map (·.rowid)).Nodup) : (db1.forms.map (·.rowid)).Nodup := by
  unfold addForm at h
  simp only [bind, Except.bind, pure, Except.pure] at h
  split at h
  · simp [throw, throwThe, MonadExcept.throw] at h
  · simp only [Except.ok.injEq] at h; subst h
    simp only [List.map_append, List.map_cons, List.map_nil]
    rw [List.nodup_append]
    refine ⟨hn, by simp, ?_⟩
    intro a ha b hb
    simp only [List.mem_singleton] at hb
    subst hb
    intro e; subst e
    exact nextId_not_mem _ ha

theorem formStep_nodup (norm : String → String) (c : Ctx) (e : Entry) (b : Db) (fi : Form × Nat) (b' : Db)
    (h : formStep norm c e b fi = .ok b') (hn : (b.forms.map (·.rowid)).Nodup) : (b'.forms.map (·.rowid)).Nodup := by
  unfold formStep at h
  split at h
  · simp only [Except.ok.injEq] at h; subst h; exact hn
  · cases he : entryRow b e.id (c.lid e.id) with
    | none => simp [he, need, bind, Except.bind] at h
    | some er =>
      simp only [he, need, bind, Except.bind] at h
      exact addForm_nodup _ _ _ _ _ _ _ _ _ h hn

theorem entryFormsStep_nodup (norm : String → String) (c : Ctx) (b : Db) (e : Entry) (b' : Db)
    (h : entryFormsStep norm c b e = .ok b') (hn : (b.forms.map (·.rowid)).Nodup) : (b'.forms.map (·.rowid)).Nodup := by
  unfold entryFormsStep at h
  simp only [bind, Except.bind] at h
  cases hx : e.external with
  | true =>
    simp only [hx, Bool.not_true, Bool.false_eq_true, if_false, pure, Except.pure] at h
    exact foldlM_inv (fun d => (d.forms.map (·.rowid)).Nodup) _ (fun b a b' hh => formStep_nodup norm c e b a b' hh) _ _ _ h hn
  | false =>
    simp only [hx, Bool.not_false, if_true] at h
    cases hl : e.lemma with
    | none => simp [hl, need] at h
    | some lem =>
      simp only [hl, need] at h
      cases he : entryRow b e.id (c.lid e.id) with
      | none => simp [he] at h
      | some er =>
        simp only [he] at h
        cases ha : addForm b norm c.lexid er none lem.form lem.script 0 with
        | error x => simp [ha] at h
        | ok b1 =>
          simp only [ha] at h
          exact foldlM_inv (fun d => (d.forms.map (·.rowid)).Nodup) _ (fun b a b' hh => formStep_nodup norm c e b a b' hh) _ _ _ h
            (addForm_nodup _ _ _ _ _ _ _ _ _ ha hn)

theorem addLexicon_forms_nodup {norm : String → String} {dr : Nat} {db db' : Db} {l : Lexicon}
    (t : AddTrace norm dr db db' l) (hn : (db.forms.map (·.rowid)).Nodup) : (db'.forms.map (·.rowid)).Nodup := by
  let c : Ctx := ⟨t.lexid, t.extid, externalIds l⟩
  let π : Db → List RForm := fun b => b.forms
  have k1 : π t.d1 = π (updateLookups db l) := (insertLexicon_frame _ _ _ _ _ t.hlex).2.1
  have k2 : π t.d2 = π t.d1 := keepsGF_insertSynsets π l c (fun p => by keepsG_step presupStep)
    (by keepsG_step synsetStep) (by keepsG_step piliStep) _ _ t.hsyn
  have k3 : π t.d3 = π t.d2 := keepsGF_insertEntries π l c (by keepsG_step entryStep) _ _ t.hent
  have hform := t.hform
  unfold insertForms at hform
  have h4 : (t.d4.forms.map (·.rowid)).Nodup :=
    foldlM_inv (fun d => (d.forms.map (·.rowid)).Nodup) _ (fun b a b' hh => entryFormsStep_nodup norm c b a b' hh) _ _ _ hform
      (by
        have : t.d3.forms = db.forms := by
          show π t.d3 = _
          rw [k3, k2, k1]; rfl
        rw [this]; exact hn)
  have k5 : π t.d5 = π t.d4 := keepsGF_insertPronsTags π l c (fun _ _ _ => by keepsG_step pronStep)
    (fun _ _ _ => by keepsG_step tagStep) _ _ t.hpt
  have k6 : π t.d6 = π t.d5 := keepsGF_insertSenses π l c dr (fun _ => by keepsG_step senseStep)
    (by keepsG_step adjStep) (fun _ => by keepsG_step countStep) _ _ t.hsen
  have k7 : π t.d7 = π t.d6 := keepsGF_insertSbs π t.sbs c (by keepsG_step sbStep) (fun _ => by keepsG_step sbSenseStep) _ _ t.hsb
  have k8 : π t.d8 = π t.d7 := keepsGF_insertRelations π l c (fun _ => by keepsG_step synRelStep)
    (by keepsG_step senseRelStep) (by keepsG_step senseSynRelStep) _ _ t.hrel
  have k9 : π db' = π t.d8 := keepsGF_insertDefsExamples π l c (fun _ => by keepsG_step defStep)
    (fun _ => by keepsG_step senseExampleStep) (fun _ => by keepsG_step synsetExampleStep) _ _ t.hdx
  have : db'.forms = t.d4.forms := by
    show π db' = _
    rw [k9, k8, k7, k6, k5]
  rw [this]; exact h4

/-- **C05: `remove` undoes `add`, forms level** — entries and forms are restored for any lexicon; for
a plain lexicon (every id resolved in the new lexicon) so are tags and pronunciations: nothing the
add wrote on forms survives (the residue of finding F12 needs an *extension* writing on base forms) -/
theorem C05_add_then_delete_restores_forms (norm : String → String) (dr : Nat) (db db' : Db) (l : Lexicon)
    (h : addLexicon norm dr db l = .ok db') (fk : FK db)
    (hnE : (db.entries.map (·.rowid)).Nodup) (hnF : (db.forms.map (·.rowid)).Nodup) :
    let d := deleteLexicon db' (nextId (db.lexicons.map (·.rowid)))
    d.entries = db.entries ∧ d.forms = db.forms ∧
    (l.ext = none → d.tags = db.tags ∧ d.prons = db.prons) := by
  obtain ⟨t⟩ := addLexicon_split norm dr db db' l h
  obtain ⟨_, _, hlexid0, hextid⟩ := insertLexicon_frame _ _ _ _ _ t.hlex
  have hlexid : t.lexid = nextId (db.lexicons.map (·.rowid)) := hlexid0
  have hfresh : ∀ (x : Nat), (∃ y ∈ db.lexicons, y.rowid = x) → x ≠ t.lexid := by
    rintro x ⟨y, hy, rfl⟩ e
    have : t.lexid ∈ db.lexicons.map (·.rowid) := List.mem_map.mpr ⟨y, hy, e⟩
    rw [hlexid] at this
    exact nextId_not_mem _ this
  rw [← hlexid]
  obtain ⟨_, _, g3⟩ := insertLexicon_frame2 _ _ _ _ _ t.hlex
  obtain ⟨hE, _, _, _, _, _⟩ := addLexicon_sense_table t
  obtain ⟨frows, hF, hfnew⟩ := addLexicon_forms_table t
  obtain ⟨⟨trows, hT, hFT⟩, ⟨prows, hP, hFP⟩⟩ := addLexicon_tags_prons_tables t
  obtain ⟨erows, hEx, henew⟩ : ∃ erows, db'.entries = db.entries ++ erows ∧ ∀ r ∈ erows, r.lex = t.lexid := by
    have e2 := (keepsF_insertSynsets l _ _ _ t.hsyn).1
    have h3 := t.hent
    unfold insertEntries at h3
    obtain ⟨_, er, he, hFe⟩ := foldlM_rows1 (fun d => d.entries) (fun _ => ()) (entryStep t.ctx) (fun _ _ r => r.lex = t.lexid)
      (fun b a b' hh => by
        obtain ⟨r, hb, hr⟩ := entryStep_ok _ b b' a hh
        exact ⟨rfl, r, by rw [hb], hr.1.2.1⟩) _ _ _ h3
    exact ⟨er, by rw [hE, he, e2, g3]; rfl, Forall2.forall_right (P := fun (r : REntry) => r.lex = t.lexid) (fun _ _ hr => hr) hFe⟩
  have heold : ∀ o ∈ db.entries, o.lex ≠ t.lexid := fun o ho => hfresh _ (fk.entries_lex o ho)
  have hfold : ∀ o ∈ db.forms, o.lex ≠ t.lexid := fun o ho => hfresh _ (fk.forms_lex o ho)
  have hnE' : (db'.entries.map (·.rowid)).Nodup := by
    rw [hE]; apply insertEntries_nodupE _ _ _ _ t.hent
    rw [(keepsF_insertSynsets l _ _ _ t.hsyn).1, g3]; exact hnE
  have hnF' : (db'.forms.map (·.rowid)).Nodup := addLexicon_forms_nodup t hnF
  have hEdel : entriesDel db' t.lexid = erows.map (·.rowid) := by
    unfold entriesDel; rw [hEx]; exact del_eq_new db.entries erows (fun r => r.lex) (fun r => r.rowid) _ heold henew
  have oldE : ∀ x, (∃ y ∈ db.entries, y.rowid = x) → (entriesDel db' t.lexid).contains x = false := by
    rintro x ⟨y, hy, rfl⟩
    rw [hEdel]
    have := old_not_new db.entries erows (fun r => r.rowid) (by rw [← hEx]; exact hnE') y.rowid (List.mem_map.mpr ⟨y, hy, rfl⟩)
    simpa using this
  have hgoneOld : ∀ o ∈ db.forms, formGone db' t.lexid o = false := by
    intro o ho
    unfold formGone
    have a1 : (o.lex == t.lexid) = false := by simpa using hfold o ho
    rw [a1, oldE _ (fk.forms_entry o ho)]; rfl
  have hgoneNew : ∀ r ∈ frows, formGone db' t.lexid r = true := by
    intro r hr; unfold formGone; simp [hfnew r hr]
  have hFdel : formsDel db' t.lexid = frows.map (·.rowid) := by
    unfold formsDel
    rw [hF, List.filter_append]
    have e1 : db.forms.filter (formGone db' t.lexid) = [] := by
      rw [List.filter_eq_nil_iff]; intro o ho; simp [hgoneOld o ho]
    have e2 : frows.filter (formGone db' t.lexid) = frows := by
      rw [List.filter_eq_self]; intro r hr; exact hgoneNew r hr
    rw [e1, e2, List.nil_append]
  have oldF : ∀ x, (∃ y ∈ db.forms, y.rowid = x) → (formsDel db' t.lexid).contains x = false := by
    rintro x ⟨y, hy, rfl⟩
    rw [hFdel]
    have := old_not_new db.forms frows (fun r => r.rowid) (by rw [← hF]; exact hnF') y.rowid (List.mem_map.mpr ⟨y, hy, rfl⟩)
    simpa using this
  simp only [deleteLexicon]
  refine ⟨?_, ?_, ?_⟩
  · rw [hEx]
    have := filter_restores db.entries erows (fun r => r.lex == t.lexid) (fun o ho => by simpa using heold o ho) (fun r hr => by simpa using henew r hr)
    simpa [bne] using this
  · rw [hF]; exact filter_restores db.forms frows (formGone db' t.lexid) hgoneOld hgoneNew
  · intro hplain
    have hlid : ∀ i, t.ctx.lid i = t.lexid := by
      intro i; unfold Ctx.lid AddTrace.ctx; simp [hextid hplain]
    -- a form found through an entry of the new lexicon is deleted with it
    have hres : ∀ (eid : String) (fid : Option String) (rank : Option Nat) (x : Nat),
        formRowEF (db'.entries, db'.forms) eid t.lexid fid rank = some x → (formsDel db' t.lexid).contains x = true := by
      intro eid fid rank x hx
      unfold formRowEF at hx
      simp only at hx
      cases he : db'.entries.find? (fun r => r.id == eid && r.lex == t.lexid) with
      | none => rw [he] at hx; cases hx
      | some er =>
        rw [he] at hx
        simp only at hx
        obtain ⟨f, hf, hx⟩ := Option.map_eq_some_iff.mp hx
        · have hfm := List.mem_of_find?_eq_some hf
          have hfp := List.find?_some hf
          have hem := List.mem_of_find?_eq_some he
          have hep := List.find?_some he
          simp only [Bool.and_eq_true, beq_iff_eq] at hep hfp
          have hgone : formGone db' t.lexid f = true := by
            unfold formGone
            have : (entriesDel db' t.lexid).contains f.entry = true := by
              rw [List.contains_iff_mem, mem_entriesDel]
              exact ⟨er, hem, hep.2, hfp.1.symm⟩
            rw [this, Bool.or_true]
          rw [List.contains_iff_mem, mem_formsDel]
          exact ⟨f, hfm, hgone, hx⟩
    constructor
    · rw [hT]
      exact filter_restores db.tags trows (fun r => (formsDel db' t.lexid).contains r.form)
        (fun o ho => oldF _ (fk.tags_form o ho))
        (fun r hr => by
          obtain ⟨q, _, hq⟩ := Forall2.exists_of_mem_right hFT r hr
          have := hq.1
          rw [hlid] at this
          exact hres _ _ _ _ this)
    · rw [hP]
      exact filter_restores db.prons prows (fun r => (formsDel db' t.lexid).contains r.form)
        (fun o ho => oldF _ (fk.prons_form o ho))
        (fun r hr => by
          obtain ⟨q, _, hq⟩ := Forall2.exists_of_mem_right hFP r hr
          have := hq.1
          rw [hlid] at this
          exact hres _ _ _ _ this)

/-! ### `remove` undoes `add`, the remaining tables -/

theorem foldlM_rowsP {α ρ β} (tbl : Db → List ρ) (frame : Db → β) (f : Db → α → R Db) (P : β → ρ → Prop)
    (hstep : ∀ b a b', f b a = .ok b' → frame b' = frame b ∧ ∃ rs, tbl b' = tbl b ++ rs ∧ ∀ r ∈ rs, P (frame b) r) :
    ∀ (l : List α) (b b' : Db), l.foldlM f b = .ok b' →
      frame b' = frame b ∧ ∃ rs, tbl b' = tbl b ++ rs ∧ ∀ r ∈ rs, P (frame b) r := by
  intro l b b' h
  obtain ⟨hf, rss, ht, hF⟩ := foldlM_rowsL tbl frame f (fun fr _ rs => ∀ r ∈ rs, P fr r) hstep l b b' h
  refine ⟨hf, rss.flatten, ht, ?_⟩
  intro r hr
  obtain ⟨rs, hrs, hrr⟩ := List.mem_flatten.mp hr
  obtain ⟨a, _, ha⟩ := Forall2.exists_of_mem_right hF rs hrs
  exact ha r hrr

theorem piliStep_rows (c : Ctx) (b : Db) (ss : Synset) (b' : Db) (h : piliStep c b ss = .ok b') :
    b'.synsets = b.synsets ∧ ∃ rs, b'.pilis = b.pilis ++ rs ∧
      ∀ r ∈ rs, ∃ y ∈ b.synsets, y.lex = c.lexid ∧ y.rowid = r.synset := by
  unfold piliStep at h
  split at h
  · simp only [bind, Except.bind, need, pure, Except.pure] at h
    cases h1 : synsetRow b ss.id c.lexid with
    | none => simp [h1] at h
    | some sr =>
      simp only [h1] at h
      split at h
      · simp [throw, throwThe, MonadExcept.throw] at h
      · simp only [Except.ok.injEq] at h
        subst h
        obtain ⟨y, _, hy, _, hyl, hyr⟩ := synsetRowY'_some _ _ _ _ h1
        exact ⟨rfl, [_], rfl, by intro r hr; simp only [List.mem_singleton] at hr; subst hr; exact ⟨y, hy, hyl, hyr⟩⟩
  · simp only [Except.ok.injEq] at h; subst h; exact ⟨rfl, [], by simp, by simp⟩

theorem adjStep_rows (c : Ctx) (b : Db) (s : Sense) (b' : Db) (h : adjStep c b s = .ok b') :
    b'.senses = b.senses ∧ ∃ rs, b'.adjs = b.adjs ++ rs ∧
      ∀ r ∈ rs, ∃ x ∈ b.senses, x.rowid = r.sense ∧ ∃ i, x.lex = c.lid i := by
  unfold adjStep at h
  split at h
  · split at h
    · simp only [bind, Except.bind, need, pure, Except.pure] at h
      cases h1 : senseRow b s.id (c.lid s.id) with
      | none => simp [h1] at h
      | some sr =>
        simp only [h1, Except.ok.injEq] at h
        subst h
        obtain ⟨x, hx, _, hxl, hxr⟩ := senseRowS'_some' _ _ _ _ h1
        exact ⟨rfl, [_], rfl, by intro r hr; simp only [List.mem_singleton] at hr; subst hr; exact ⟨x, hx, hxr, s.id, hxl⟩⟩
    · simp only [Except.ok.injEq] at h; subst h; exact ⟨rfl, [], by simp, by simp⟩
  · simp only [Except.ok.injEq] at h; subst h; exact ⟨rfl, [], by simp, by simp⟩

theorem sbStep_rows (c : Ctx) (b : Db) (sb : Sb) (b' : Db) (h : sbStep c b sb = .ok b') :
    ∃ rs, b'.sbs = b.sbs ++ rs ∧ ∀ r ∈ rs, r.lex = c.lexid ∧ r.rowid ∉ b.sbs.map (·.rowid) := by
  unfold sbStep at h
  simp only [bind, Except.bind, pure, Except.pure] at h
  repeat' (split at h)
  all_goals first
    | (simp only [Except.ok.injEq] at h; subst h
       exact ⟨[_], rfl, by intro r hr; simp only [List.mem_singleton] at hr; subst hr; exact ⟨rfl, nextId_not_mem _⟩⟩)
    | (simp [throw, throwThe, MonadExcept.throw] at h)

theorem sbSenseStep_rows (c : Ctx) (sb : Sb) (b : Db) (sid : String) (b' : Db) (h : sbSenseStep c sb b sid = .ok b') :
    b'.sbs = b.sbs ∧ ∃ rs, b'.sbsenses = b.sbsenses ++ rs ∧ ∀ r ∈ rs, ∃ x ∈ b.sbs, x.lex = c.lexid ∧ x.rowid = r.sb := by
  unfold sbSenseStep at h
  simp only [bind, Except.bind, need, pure, Except.pure] at h
  cases h1 : b.sbs.find? (fun r => r.lex == c.lexid && r.frame == sb.frame) with
  | none => simp [h1] at h
  | some x =>
    simp only [h1, Option.map_some] at h
    cases h2 : senseRow b sid (c.lid sid) with
    | none => simp [h2] at h
    | some sr =>
      simp only [h2, Except.ok.injEq] at h
      subst h
      have hp := List.find?_some h1
      simp only [Bool.and_eq_true, beq_iff_eq] at hp
      exact ⟨rfl, [_], rfl, by intro r hr; simp only [List.mem_singleton] at hr; subst hr; exact ⟨x, List.mem_of_find?_eq_some h1, hp.1, rfl⟩⟩

theorem insertSynsets_split (l : Lexicon) (c : Ctx) (b b' : Db) (h : insertSynsets b l c = .ok b') :
    ∃ presup b1 b2, (localSynsets l).foldlM (presupStep presup) b = .ok b1 ∧ (localSynsets l).foldlM (synsetStep c) b1 = .ok b2 ∧
      (localSynsets l).foldlM (piliStep c) b2 = .ok b' := by
  unfold insertSynsets at h
  simp only [bind, Except.bind] at h
  cases hp : need "ili status" (lookupId b.ilistatuses "presupposed") with
  | error e => rw [hp] at h; simp at h
  | ok presup =>
    rw [hp] at h
    simp only at h
    cases h1 : (localSynsets l).foldlM (presupStep presup) b with
    | error e => rw [h1] at h; simp at h
    | ok b1 =>
      rw [h1] at h
      simp only at h
      cases h2 : (localSynsets l).foldlM (synsetStep c) b1 with
      | error e => rw [h2] at h; simp at h
      | ok b2 =>
        rw [h2] at h
        exact ⟨presup, b1, b2, h1, h2, h⟩

theorem insertSbs_split (sbs : List Sb) (c : Ctx) (b b' : Db) (h : insertSbs b sbs c = .ok b') :
    ∃ b1, sbs.foldlM (sbStep c) b = .ok b1 ∧ sbs.foldlM (fun db sb => sb.senses.foldlM (sbSenseStep c sb) db) b1 = .ok b' := by
  unfold insertSbs at h
  simp only [bind, Except.bind] at h
  cases h1 : sbs.foldlM (sbStep c) b with
  | error e => rw [h1] at h; simp at h
  | ok b1 => rw [h1] at h; exact ⟨b1, rfl, h⟩

/-- the remaining owned tables after one `addLexicon` -/
theorem addLexicon_misc_tables {norm : String → String} {dr : Nat} {db db' : Db} {l : Lexicon}
    (t : AddTrace norm dr db db' l) :
    (∃ rows, db'.pilis = db.pilis ++ rows ∧ ∀ r ∈ rows, ∃ y ∈ db'.synsets, y.lex = t.lexid ∧ y.rowid = r.synset) ∧
    (∃ rows, db'.adjs = db.adjs ++ rows ∧ ∀ r ∈ rows, ∃ x ∈ db'.senses, x.rowid = r.sense ∧ ∃ i, x.lex = t.ctx.lid i) ∧
    (∃ rows, db'.sbs = db.sbs ++ rows ∧ ∀ r ∈ rows, r.lex = t.lexid ∧ r.rowid ∉ db.sbs.map (·.rowid)) ∧
    (∃ rows, db'.sbsenses = db.sbsenses ++ rows ∧ ∀ r ∈ rows, ∃ x ∈ db'.sbs, x.lex = t.lexid ∧ x.rowid = r.sb) := by
  let c : Ctx := ⟨t.lexid, t.extid, externalIds l⟩
  -- (pilis, adjs, sbs, sbsenses) are untouched by every pass except the one writing each
  let π : Db → List RPIli × List RAdj × List RSb × List RSbSense := fun b => (b.pilis, b.adjs, b.sbs, b.sbsenses)
  have k1 : π t.d1 = π (updateLookups db l) := by
    have h := t.hlex
    unfold insertLexicon at h
    simp only [bind, Except.bind, pure, Except.pure] at h
    split at h
    · simp [throw, throwThe, MonadExcept.throw] at h
    · split at h
      · split at h
        · simp at h
        · simp only [Except.ok.injEq, Prod.mk.injEq] at h
          obtain ⟨h, _, _⟩ := h; rw [← h]
      · simp only [Except.ok.injEq, Prod.mk.injEq] at h
        obtain ⟨h, _, _⟩ := h; rw [← h]
  -- insertSynsets
  obtain ⟨presup, s1, s2, hs1, hs2, hs3⟩ := insertSynsets_split l c _ _ t.hsyn
  have p1 : π s1 = π t.d1 := keepsGF_fold π _ (by keepsG_step presupStep) _ _ _ hs1
  have p2 : π s2 = π s1 := keepsGF_fold π _ (by keepsG_step synsetStep) _ _ _ hs2
  obtain ⟨fY, prow, hprow, hpP⟩ := foldlM_rowsP (fun d => d.pilis) (fun d => d.synsets) (piliStep c)
    (fun Y r => ∃ y ∈ Y, y.lex = c.lexid ∧ y.rowid = r.synset) (fun b a b' hh => piliStep_rows c b a b' hh) _ _ _ hs3
  let π3 : Db → List RAdj × List RSb × List RSbSense := fun b => (b.adjs, b.sbs, b.sbsenses)
  have p3 : π3 t.d2 = π3 s2 := keepsGF_fold π3 _ (by keepsG_step piliStep) _ _ _ hs3
  have k3 : π t.d3 = π t.d2 := keepsGF_insertEntries π l c (by keepsG_step entryStep) _ _ t.hent
  have k4 : π t.d4 = π t.d3 := keepsGF_insertForms π (fun _ _ => rfl) norm l c _ _ t.hform
  have k5 : π t.d5 = π t.d4 := keepsGF_insertPronsTags π l c (fun _ _ _ => by keepsG_step pronStep)
    (fun _ _ _ => by keepsG_step tagStep) _ _ t.hpt
  -- insertSenses
  obtain ⟨n1, n2, hn1, hn2, hn3⟩ := insertSenses_split l c dr _ _ t.hsen
  have q1 : π n1 = π t.d5 := keepsGF_fold π _ (keepsG_nested π (fun (e : Entry) => (localSenses e).zipIdx) (fun e => senseStep l c dr e)
    (fun _ => by keepsG_step senseStep)) _ _ _ hn1
  obtain ⟨fS, arow, harow, haP⟩ := foldlM_rowsP (fun d => d.adjs) (fun d => d.senses)
    (fun db (e : Entry) => (localSenses e).foldlM (adjStep c) db)
    (fun S r => ∃ x ∈ S, x.rowid = r.sense ∧ ∃ i, x.lex = c.lid i)
    (fun b e b' hh => foldlM_rowsP (fun d => d.adjs) (fun d => d.senses) (adjStep c)
      (fun S r => ∃ x ∈ S, x.rowid = r.sense ∧ ∃ i, x.lex = c.lid i) (fun b a b' hh => adjStep_rows c b a b' hh) _ b b' hh) _ _ _ hn2
  let π2 : Db → List RPIli × List RSb × List RSbSense := fun b => (b.pilis, b.sbs, b.sbsenses)
  have q2 : π2 n2 = π2 n1 := keepsGF_fold π2 _ (keepsG_nested π2 (fun e => localSenses e) (fun _ => adjStep c) (fun _ => by keepsG_step adjStep)) _ _ _ hn2
  let π5 : Db → List RPIli × List RAdj × List RSb × List RSbSense × List RSense := fun b => (b.pilis, b.adjs, b.sbs, b.sbsenses, b.senses)
  have q3 : π5 t.d6 = π5 n2 := by
    apply keepsGF_fold π5 _ _ _ _ _ hn3
    apply keepsG_nested π5 (fun (e : Entry) => e.senses) (fun _ db s => s.counts.foldlM (countStep c s) db)
    intro _
    exact fun b s b' h => fold_keepsG π5 _ (by keepsG_step countStep) b s.counts b' h
  -- insertSbs
  obtain ⟨m1, hm1, hm2⟩ := insertSbs_split t.sbs c _ _ t.hsb
  obtain ⟨srow, hsrow, hsP⟩ : ∃ rs, m1.sbs = t.d6.sbs ++ rs ∧ ∀ r ∈ rs, r.lex = c.lexid ∧ r.rowid ∉ t.d6.sbs.map (·.rowid) :=
    foldlM_inv (fun d => ∃ rs, d.sbs = t.d6.sbs ++ rs ∧ ∀ r ∈ rs, r.lex = c.lexid ∧ r.rowid ∉ t.d6.sbs.map (·.rowid)) (sbStep c)
      (fun b a b' hh ⟨rs, hrs, hP⟩ => by
        obtain ⟨r1, h1, h2⟩ := sbStep_rows c b a b' hh
        refine ⟨rs ++ r1, by rw [h1, hrs, List.append_assoc], ?_⟩
        intro r hr
        rcases List.mem_append.mp hr with hr | hr
        · exact hP r hr
        · obtain ⟨q1, q2⟩ := h2 r hr
          refine ⟨q1, fun hmem => q2 ?_⟩
          rw [hrs, List.map_append]
          exact List.mem_append_left _ hmem) _ _ _ hm1 ⟨[], by simp, by simp⟩
  let π6 : Db → List RPIli × List RAdj × List RSbSense × List RSense := fun b => (b.pilis, b.adjs, b.sbsenses, b.senses)
  have m1k : π6 m1 = π6 t.d6 := keepsGF_fold π6 _ (by keepsG_step sbStep) _ _ _ hm1
  obtain ⟨fB, brow, hbrow, hbP⟩ := foldlM_rowsP (fun d => d.sbsenses) (fun d => d.sbs)
    (fun db (sb : Sb) => sb.senses.foldlM (sbSenseStep c sb) db)
    (fun SB r => ∃ x ∈ SB, x.lex = c.lexid ∧ x.rowid = r.sb)
    (fun b sb b' hh => foldlM_rowsP (fun d => d.sbsenses) (fun d => d.sbs) (sbSenseStep c sb)
      (fun SB r => ∃ x ∈ SB, x.lex = c.lexid ∧ x.rowid = r.sb) (fun b a b' hh => sbSenseStep_rows c sb b a b' hh) _ b b' hh) _ _ _ hm2
  let π7 : Db → List RPIli × List RAdj × List RSense := fun b => (b.pilis, b.adjs, b.senses)
  have m2k : π7 t.d7 = π7 m1 := keepsGF_fold π7 _ (keepsG_nested π7 (fun (sb : Sb) => sb.senses) (fun sb => sbSenseStep c sb)
    (fun _ => by keepsG_step sbSenseStep)) _ _ _ hm2
  -- afterwards
  let π8 : Db → List RPIli × List RAdj × List RSb × List RSbSense × List RSense × List RSynset := fun b => (b.pilis, b.adjs, b.sbs, b.sbsenses, b.senses, b.synsets)
  have a8 : π8 t.d8 = π8 t.d7 := keepsGF_insertRelations π8 l c (fun _ => by keepsG_step synRelStep)
    (by keepsG_step senseRelStep) (by keepsG_step senseSynRelStep) _ _ t.hrel
  have a9 : π8 db' = π8 t.d8 := keepsGF_insertDefsExamples π8 l c (fun _ => by keepsG_step defStep)
    (fun _ => by keepsG_step senseExampleStep) (fun _ => by keepsG_step synsetExampleStep) _ _ t.hdx
  have hpost : π8 db' = π8 t.d7 := by rw [a9, a8]
  -- synsets and senses as seen by the row properties
  obtain ⟨_, hYeq, _⟩ := addLexicon_synrel_table t
  have hY2 : t.d2.synsets = s2.synsets := fY
  have hSfin : db'.senses = t.d7.senses := congrArg (fun x => x.2.2.2.2.1) hpost
  have hS7 : t.d7.senses = m1.senses := congrArg (fun x => x.2.2) m2k
  have hSm1 : m1.senses = t.d6.senses := congrArg (fun x => x.2.2.2) m1k
  have hS6 : t.d6.senses = n2.senses := congrArg (fun x => x.2.2.2.2) q3
  have hSn2 : n2.senses = n1.senses := fS
  refine ⟨⟨prow, ?_, ?_⟩, ⟨arow, ?_, ?_⟩, ⟨srow, ?_, ?_⟩, ⟨brow, ?_, ?_⟩⟩
  · -- pilis
    have e1 : db'.pilis = t.d7.pilis := congrArg (fun x => x.1) hpost
    have e2 : t.d7.pilis = m1.pilis := congrArg (fun x => x.1) m2k
    have e3 : m1.pilis = t.d6.pilis := congrArg (fun x => x.1) m1k
    have e4 : t.d6.pilis = n2.pilis := congrArg (fun x => x.1) q3
    have e5 : n2.pilis = n1.pilis := congrArg (fun x => x.1) q2
    have e6 : n1.pilis = t.d5.pilis := congrArg (fun x => x.1) q1
    have e7 : t.d5.pilis = t.d2.pilis := congrArg (fun x => x.1) (k5.trans (k4.trans k3))
    have e8 : s2.pilis = db.pilis := by
      have := congrArg (fun x => x.1) (p2.trans (p1.trans k1)); exact this
    rw [e1, e2, e3, e4, e5, e6, e7, hprow, e8]
  · intro r hr
    obtain ⟨y, hy, hyl, hyr⟩ := hpP r hr
    exact ⟨y, by rw [hYeq, hY2]; exact hy, hyl, hyr⟩
  · -- adjs
    have e1 : db'.adjs = t.d7.adjs := congrArg (fun x => x.2.1) hpost
    have e2 : t.d7.adjs = m1.adjs := congrArg (fun x => x.2.1) m2k
    have e3 : m1.adjs = t.d6.adjs := congrArg (fun x => x.2.1) m1k
    have e4 : t.d6.adjs = n2.adjs := congrArg (fun x => x.2.1) q3
    have e6 : n1.adjs = t.d5.adjs := congrArg (fun x => x.2.1) q1
    have e7 : t.d5.adjs = t.d2.adjs := congrArg (fun x => x.2.1) (k5.trans (k4.trans k3))
    have e7b : t.d2.adjs = s2.adjs := congrArg (fun x => x.1) p3
    have e8 : s2.adjs = db.adjs := by
      have := congrArg (fun x => x.2.1) (p2.trans (p1.trans k1)); exact this
    rw [e1, e2, e3, e4, harow, e6, e7, e7b, e8]
  · intro r hr
    obtain ⟨x, hx, hxr, hxl⟩ := haP r hr
    exact ⟨x, by rw [hSfin, hS7, hSm1, hS6, hSn2]; exact hx, hxr, hxl⟩
  · -- sbs
    have e1 : db'.sbs = t.d7.sbs := congrArg (fun x => x.2.2.1) hpost
    have e2 : t.d7.sbs = m1.sbs := fB
    have e4 : t.d6.sbs = n2.sbs := congrArg (fun x => x.2.2.1) q3
    have e5 : n2.sbs = n1.sbs := congrArg (fun x => x.2.1) q2
    have e6 : n1.sbs = t.d5.sbs := congrArg (fun x => x.2.2.1) q1
    have e7 : t.d5.sbs = t.d2.sbs := congrArg (fun x => x.2.2.1) (k5.trans (k4.trans k3))
    have e7b : t.d2.sbs = s2.sbs := congrArg (fun x => x.2.1) p3
    have e8 : s2.sbs = db.sbs := by
      have := congrArg (fun x => x.2.2.1) (p2.trans (p1.trans k1)); exact this
    rw [e1, e2, hsrow, e4, e5, e6, e7, e7b, e8]
  · have e4 : t.d6.sbs = n2.sbs := congrArg (fun x => x.2.2.1) q3
    have e5 : n2.sbs = n1.sbs := congrArg (fun x => x.2.1) q2
    have e6 : n1.sbs = t.d5.sbs := congrArg (fun x => x.2.2.1) q1
    have e7 : t.d5.sbs = t.d2.sbs := congrArg (fun x => x.2.2.1) (k5.trans (k4.trans k3))
    have e7b : t.d2.sbs = s2.sbs := congrArg (fun x => x.2.1) p3
    have e8 : s2.sbs = db.sbs := by
      have := congrArg (fun x => x.2.2.1) (p2.trans (p1.trans k1)); exact this
    have : t.d6.sbs = db.sbs := by rw [e4, e5, e6, e7, e7b, e8]
    intro r hr
    have := hsP r hr
    rw [‹t.d6.sbs = db.sbs›] at this
    exact this
  · -- sbsenses
    have e1 : db'.sbsenses = t.d7.sbsenses := congrArg (fun x => x.2.2.2.1) hpost
    have e3 : m1.sbsenses = t.d6.sbsenses := congrArg (fun x => x.2.2.1) m1k
    have e4 : t.d6.sbsenses = n2.sbsenses := congrArg (fun x => x.2.2.2.1) q3
    have e5 : n2.sbsenses = n1.sbsenses := congrArg (fun x => x.2.2) q2
    have e6 : n1.sbsenses = t.d5.sbsenses := congrArg (fun x => x.2.2.2) q1
    have e7 : t.d5.sbsenses = t.d2.sbsenses := congrArg (fun x => x.2.2.2) (k5.trans (k4.trans k3))
    have e7b : t.d2.sbsenses = s2.sbsenses := congrArg (fun x => x.2.2) p3
    have e8 : s2.sbsenses = db.sbsenses := by
      have := congrArg (fun x => x.2.2.2) (p2.trans (p1.trans k1)); exact this
    rw [e1, hbrow, e3, e4, e5, e6, e7, e7b, e8]
  · intro r hr
    obtain ⟨x, hx, hxl, hxr⟩ := hbP r hr
    have e1 : db'.sbs = t.d7.sbs := congrArg (fun x => x.2.2.1) hpost
    have e2 : t.d7.sbs = m1.sbs := fB
    exact ⟨x, by rw [e1, e2]; exact hx, hxl, hxr⟩

/-- **C05: `remove` undoes `add`, remaining tables** — definitions (including the `SET NULL` on their
source sense), syntactic behaviours and their sense links, proposed ILIs and the lexicon row are
restored for any lexicon; adjective positions for a plain lexicon -/
theorem C05_add_then_delete_restores_rest (norm : String → String) (dr : Nat) (db db' : Db) (l : Lexicon)
    (h : addLexicon norm dr db l = .ok db') (fk : FK db)
    (hnS : (db.senses.map (·.rowid)).Nodup) (hnE : (db.entries.map (·.rowid)).Nodup)
    (hnY : (db.synsets.map (·.rowid)).Nodup) (hnI : (db.ilis.map (·.rowid)).Nodup)
    :
    let d := deleteLexicon db' (nextId (db.lexicons.map (·.rowid)))
    d.lexicons = db.lexicons ∧ d.defs = db.defs ∧ d.sbs = db.sbs ∧ d.sbsenses = db.sbsenses ∧ d.pilis = db.pilis ∧
    (l.ext = none → d.adjs = db.adjs) := by
  obtain ⟨t⟩ := addLexicon_split norm dr db db' l h
  obtain ⟨_, _, hlexid0, hextid⟩ := insertLexicon_frame _ _ _ _ _ t.hlex
  have hlexid : t.lexid = nextId (db.lexicons.map (·.rowid)) := hlexid0
  have hfresh : ∀ (x : Nat), (∃ y ∈ db.lexicons, y.rowid = x) → x ≠ t.lexid := by
    rintro x ⟨y, hy, rfl⟩ e
    have : t.lexid ∈ db.lexicons.map (·.rowid) := List.mem_map.mpr ⟨y, hy, e⟩
    rw [hlexid] at this
    exact nextId_not_mem _ this
  rw [← hlexid]
  obtain ⟨_, g2, g3⟩ := insertLexicon_frame2 _ _ _ _ _ t.hlex
  obtain ⟨_, hYeq, _⟩ := addLexicon_synrel_table t
  obtain ⟨hE, _, srows, hS, hFs, hnodS⟩ := addLexicon_sense_table t
  obtain ⟨⟨r4, hr4, hF4⟩, _, _⟩ := addLexicon_defs_tables t
  obtain ⟨⟨prow, hP, hPp⟩, ⟨arow, hA, hAp⟩, ⟨brow, hB, hBp⟩, ⟨lrow, hL, hLp⟩⟩ := addLexicon_misc_tables t
  have hd1i : t.d1.ilis = db.ilis := by
    have h := t.hlex
    unfold insertLexicon at h
    simp only [bind, Except.bind, pure, Except.pure] at h
    split at h
    · simp [throw, throwThe, MonadExcept.throw] at h
    · split at h
      · split at h
        · simp at h
        · simp only [Except.ok.injEq, Prod.mk.injEq] at h
          obtain ⟨h, _, _⟩ := h; rw [← h]; rfl
      · simp only [Except.ok.injEq, Prod.mk.injEq] at h
        obtain ⟨h, _, _⟩ := h; rw [← h]; rfl
  obtain ⟨yrows, hyE, hyF⟩ := insertSynsets_rows t.d1 t.d2 l _ t.hsyn (by rw [hd1i]; exact hnI)
  have hY : db'.synsets = db.synsets ++ yrows := by rw [hYeq, hyE, g2]; rfl
  have hynew : ∀ r ∈ yrows, r.lex = t.lexid := Forall2.forall_right (fun _ _ hr => hr.2.1) hyF
  have hyold : ∀ o ∈ db.synsets, o.lex ≠ t.lexid := fun o ho => hfresh _ (fk.synsets_lex o ho)
  have hsnew : ∀ r ∈ srows, r.lex = t.lexid := Forall2.forall_right (fun _ _ hr => hr.2.1) hFs
  have hsold : ∀ o ∈ db.senses, o.lex ≠ t.lexid := fun o ho => hfresh _ (fk.senses_lex o ho)
  obtain ⟨erows, hEx, henew⟩ : ∃ erows, db'.entries = db.entries ++ erows ∧ ∀ r ∈ erows, r.lex = t.lexid := by
    have e2 := (keepsF_insertSynsets l _ _ _ t.hsyn).1
    have h3 := t.hent
    unfold insertEntries at h3
    obtain ⟨_, er, he, hFe⟩ := foldlM_rows1 (fun d => d.entries) (fun _ => ()) (entryStep t.ctx) (fun _ _ r => r.lex = t.lexid)
      (fun b a b' hh => by
        obtain ⟨r, hb, hr⟩ := entryStep_ok _ b b' a hh
        exact ⟨rfl, r, by rw [hb], hr.1.2.1⟩) _ _ _ h3
    exact ⟨er, by rw [hE, he, e2, g3]; rfl, Forall2.forall_right (P := fun (r : REntry) => r.lex = t.lexid) (fun _ _ hr => hr) hFe⟩
  have heold : ∀ o ∈ db.entries, o.lex ≠ t.lexid := fun o ho => hfresh _ (fk.entries_lex o ho)
  have hnY' : (db'.synsets.map (·.rowid)).Nodup := by
    rw [hYeq]; apply insertSynsets_nodupY _ _ _ _ t.hsyn; rw [g2]; exact hnY
  have hnE' : (db'.entries.map (·.rowid)).Nodup := by
    rw [hE]; apply insertEntries_nodupE _ _ _ _ t.hent
    rw [(keepsF_insertSynsets l _ _ _ t.hsyn).1, g3]; exact hnE
  have hnS' : (db'.senses.map (·.rowid)).Nodup := hnodS hnS
  have hYdel : synsetsDel db' t.lexid = yrows.map (·.rowid) := by
    unfold synsetsDel; rw [hY]; exact del_eq_new db.synsets yrows (fun r => r.lex) (fun r => r.rowid) _ hyold hynew
  have hEdel : entriesDel db' t.lexid = erows.map (·.rowid) := by
    unfold entriesDel; rw [hEx]; exact del_eq_new db.entries erows (fun r => r.lex) (fun r => r.rowid) _ heold henew
  have oldY : ∀ x, (∃ y ∈ db.synsets, y.rowid = x) → (synsetsDel db' t.lexid).contains x = false := by
    rintro x ⟨y, hy, rfl⟩
    rw [hYdel]
    have := old_not_new db.synsets yrows (fun r => r.rowid) (by rw [← hY]; exact hnY') y.rowid (List.mem_map.mpr ⟨y, hy, rfl⟩)
    simpa using this
  have oldE : ∀ x, (∃ y ∈ db.entries, y.rowid = x) → (entriesDel db' t.lexid).contains x = false := by
    rintro x ⟨y, hy, rfl⟩
    rw [hEdel]
    have := old_not_new db.entries erows (fun r => r.rowid) (by rw [← hEx]; exact hnE') y.rowid (List.mem_map.mpr ⟨y, hy, rfl⟩)
    simpa using this
  have hgoneOld : ∀ o ∈ db.senses, senseGone db' t.lexid o = false := by
    intro o ho
    unfold senseGone
    have a1 : (o.lex == t.lexid) = false := by simpa using hsold o ho
    rw [a1, oldE _ (fk.senses_entry o ho), oldY _ (fk.senses_synset o ho)]
    rfl
  have hgoneNew : ∀ r ∈ srows, senseGone db' t.lexid r = true := by
    intro r hr; unfold senseGone; simp [hsnew r hr]
  have hSdel : sensesDel db' t.lexid = srows.map (·.rowid) := by
    unfold sensesDel
    rw [hS, List.filter_append]
    have e1 : db.senses.filter (senseGone db' t.lexid) = [] := by
      rw [List.filter_eq_nil_iff]; intro o ho; simp [hgoneOld o ho]
    have e2 : srows.filter (senseGone db' t.lexid) = srows := by
      rw [List.filter_eq_self]; intro r hr; exact hgoneNew r hr
    rw [e1, e2, List.nil_append]
  have oldS : ∀ x, (∃ y ∈ db.senses, y.rowid = x) → (sensesDel db' t.lexid).contains x = false := by
    rintro x ⟨y, hy, rfl⟩
    rw [hSdel]
    have := old_not_new db.senses srows (fun r => r.rowid) (by rw [← hS]; exact hnS') y.rowid (List.mem_map.mpr ⟨y, hy, rfl⟩)
    simpa using this
  have lexNe : ∀ x, (∃ y ∈ db.lexicons, y.rowid = x) → (x == t.lexid) = false := by
    intro x hx; simpa using hfresh x hx
  -- sbs: rowids stay unique, the new rows are exactly those the cascade deletes
  have hbold : ∀ o ∈ db.sbs, o.lex ≠ t.lexid := fun o ho => hfresh _ (fk.sbs_lex o ho)
  have hBdel : sbsDel db' t.lexid = brow.map (·.rowid) := by
    unfold sbsDel; rw [hB]; exact del_eq_new db.sbs brow (fun r => r.lex) (fun r => r.rowid) _ hbold (fun r hr => (hBp r hr).1)
  -- lexicons
  obtain ⟨hL1, _, _⟩ := C01_lexicon_row _ _ _ _ _ t.hlex
  simp only [deleteLexicon]
  refine ⟨?_, ?_, ?_, ?_, ?_, ?_⟩
  · -- lexicons: kept by every later pass
    let c : Ctx := ⟨t.lexid, t.extid, externalIds l⟩
    let π : Db → List RLexicon := fun b => b.lexicons
    have k2 : π t.d2 = π t.d1 := keepsGF_insertSynsets π l c (fun p => by keepsG_step presupStep)
      (by keepsG_step synsetStep) (by keepsG_step piliStep) _ _ t.hsyn
    have k3 : π t.d3 = π t.d2 := keepsGF_insertEntries π l c (by keepsG_step entryStep) _ _ t.hent
    have k4 : π t.d4 = π t.d3 := keepsGF_insertForms π (fun _ _ => rfl) norm l c _ _ t.hform
    have k5 : π t.d5 = π t.d4 := keepsGF_insertPronsTags π l c (fun _ _ _ => by keepsG_step pronStep)
      (fun _ _ _ => by keepsG_step tagStep) _ _ t.hpt
    have k6 : π t.d6 = π t.d5 := keepsGF_insertSenses π l c dr (fun _ => by keepsG_step senseStep)
      (by keepsG_step adjStep) (fun _ => by keepsG_step countStep) _ _ t.hsen
    have k7 : π t.d7 = π t.d6 := keepsGF_insertSbs π t.sbs c (by keepsG_step sbStep) (fun _ => by keepsG_step sbSenseStep) _ _ t.hsb
    have k8 : π t.d8 = π t.d7 := keepsGF_insertRelations π l c (fun _ => by keepsG_step synRelStep)
      (by keepsG_step senseRelStep) (by keepsG_step senseSynRelStep) _ _ t.hrel
    have k9 : π db' = π t.d8 := keepsGF_insertDefsExamples π l c (fun _ => by keepsG_step defStep)
      (fun _ => by keepsG_step senseExampleStep) (fun _ => by keepsG_step synsetExampleStep) _ _ t.hdx
    have hLx : db'.lexicons = db.lexicons ++ [⟨t.lexid, l.id, l.label, l.language, l.email, l.license, l.version, l.url, l.citation, l.logo, l.md⟩] := by
      show π db' = _
      rw [k9, k8, k7, k6, k5, k4, k3, k2]
      exact hL1
    rw [hLx]
    have := filter_restores db.lexicons [⟨t.lexid, l.id, l.label, l.language, l.email, l.license, l.version, l.url, l.citation, l.logo, l.md⟩]
      (fun r => r.rowid == t.lexid) (fun o ho => lexNe _ ⟨o, ho, rfl⟩) (fun r hr => by simp only [List.mem_singleton] at hr; subst hr; simp)
    simpa [bne] using this
  · -- definitions
    rw [hr4]
    rw [filter_restores db.defs r4 (fun r => r.lex == t.lexid || (synsetsDel db' t.lexid).contains r.synset)
      (fun o ho => by rw [lexNe _ (fk.defs_lex o ho), oldY _ (fk.defs_synset o ho)]; rfl)
      (fun r hr => by have := Forall2.forall_right (fun _ _ hh => hh.1) hF4 r hr; simp [show r.lex = t.lexid from this])]
    have : ∀ o ∈ db.defs, unlinkSense (sensesDel db' t.lexid) o = o := by
      intro o ho
      unfold unlinkSense
      cases hs : o.sense with
      | none => rfl
      | some s => simp only; rw [oldS _ (fk.defs_sense o ho s hs)]; rfl
    rw [List.map_congr_left this]; simp
  · rw [hB]
    have := filter_restores db.sbs brow (fun r => r.lex == t.lexid) (fun o ho => by simpa using hbold o ho) (fun r hr => by simpa using (hBp r hr).1)
    simpa [bne] using this
  · rw [hL]
    exact filter_restores db.sbsenses lrow (fun r => (sbsDel db' t.lexid).contains r.sb || (sensesDel db' t.lexid).contains r.sense)
      (fun o ho => by
        obtain ⟨x, hx, hxr⟩ := fk.sbsenses_sb o ho
        have h1 : (sbsDel db' t.lexid).contains o.sb = false := by
          rw [hBdel]
          have : x.rowid ∉ brow.map (fun r => r.rowid) := by
            intro hm
            obtain ⟨r, hr, hrr⟩ := List.mem_map.mp hm
            exact (hBp r hr).2 (by rw [hrr]; exact List.mem_map.mpr ⟨x, hx, rfl⟩)
          rw [← hxr]; simpa using this
        rw [h1, oldS _ (fk.sbsenses_sense o ho)]; rfl)
      (fun r hr => by
        obtain ⟨x, hx, hxl, hxr⟩ := hLp r hr
        have : (sbsDel db' t.lexid).contains r.sb = true := by
          rw [List.contains_iff_mem]
          unfold sbsDel
          exact List.mem_map.mpr ⟨x, List.mem_filter.mpr ⟨hx, by simpa using hxl⟩, hxr⟩
        rw [this]; rfl)
  · rw [hP]
    exact filter_restores db.pilis prow (fun r => (synsetsDel db' t.lexid).contains r.synset)
      (fun o ho => oldY _ (fk.pilis_synset o ho))
      (fun r hr => by
        obtain ⟨y, hy, hyl, hyr⟩ := hPp r hr
        rw [List.contains_iff_mem, mem_synsetsDel]
        exact ⟨y, hy, hyl, hyr⟩)
  · intro hplain
    have hlid : ∀ i, t.ctx.lid i = t.lexid := by
      intro i; unfold Ctx.lid AddTrace.ctx; simp [hextid hplain]
    rw [hA]
    exact filter_restores db.adjs arow (fun r => (sensesDel db' t.lexid).contains r.sense)
      (fun o ho => oldS _ (fk.adjs_sense o ho))
      (fun r hr => by
        obtain ⟨x, hx, hxr, i, hxl⟩ := hAp r hr
        rw [hlid] at hxl
        rw [List.contains_iff_mem, mem_sensesDel]
        refine ⟨x, hx, ?_, hxr⟩
        unfold senseGone; simp [hxl])

end WnVerif.Props.C05
