/-
C05 — `remove()` deletes a lexicon with everything it owns, leaves no dangling row and
leaves the other lexicons alone (modulo the cascade through rows that referenced it).
Theorems over `deleteLexicon` / `removeLexicon` (`Model/Remove.lean`) for every database.
-/
import WnVerif.Model.Remove
import WnVerif.Gen.Schema
import WnVerif.Model.Add
namespace WnVerif.Props.C05
open WnVerif.Db

/-! ### tie to `schema.sql`: the foreign keys and their ON DELETE actions that `FK` and
`deleteLexicon` below transcribe are exactly those of the schema as regenerated on this run -/

/-- (table, column, referenced table, ON DELETE action) -/
def modelFks : List (String × String × String × String) := [
  ("adjpositions", "sense_rowid", "senses", "CASCADE"),
  ("counts", "lexicon_rowid", "lexicons", "CASCADE"), ("counts", "sense_rowid", "senses", "CASCADE"),
  ("definitions", "lexicon_rowid", "lexicons", "CASCADE"), ("definitions", "sense_rowid", "senses", "SET NULL"),
  ("definitions", "synset_rowid", "synsets", "CASCADE"),
  ("entries", "lexicon_rowid", "lexicons", "CASCADE"),
  ("forms", "entry_rowid", "entries", "CASCADE"), ("forms", "lexicon_rowid", "lexicons", "CASCADE"),
  ("ilis", "status_rowid", "ili_statuses", "NO ACTION"),
  ("lexicon_dependencies", "dependent_rowid", "lexicons", "CASCADE"), ("lexicon_dependencies", "provider_rowid", "lexicons", "SET NULL"),
  ("lexicon_extensions", "base_rowid", "lexicons", "NO ACTION"), ("lexicon_extensions", "extension_rowid", "lexicons", "CASCADE"),
  ("pronunciations", "form_rowid", "forms", "CASCADE"),
  ("proposed_ilis", "synset_rowid", "synsets", "CASCADE"),
  ("sense_examples", "lexicon_rowid", "lexicons", "CASCADE"), ("sense_examples", "sense_rowid", "senses", "CASCADE"),
  ("sense_relations", "lexicon_rowid", "lexicons", "CASCADE"), ("sense_relations", "source_rowid", "senses", "CASCADE"),
  ("sense_relations", "target_rowid", "senses", "CASCADE"), ("sense_relations", "type_rowid", "relation_types", "NO ACTION"),
  ("sense_synset_relations", "lexicon_rowid", "lexicons", "CASCADE"), ("sense_synset_relations", "source_rowid", "senses", "CASCADE"),
  ("sense_synset_relations", "target_rowid", "synsets", "CASCADE"), ("sense_synset_relations", "type_rowid", "relation_types", "NO ACTION"),
  ("senses", "entry_rowid", "entries", "CASCADE"), ("senses", "lexicon_rowid", "lexicons", "CASCADE"),
  ("senses", "synset_rowid", "synsets", "CASCADE"),
  ("synset_examples", "lexicon_rowid", "lexicons", "CASCADE"), ("synset_examples", "synset_rowid", "synsets", "CASCADE"),
  ("synset_relations", "lexicon_rowid", "lexicons", "CASCADE"), ("synset_relations", "source_rowid", "synsets", "CASCADE"),
  ("synset_relations", "target_rowid", "synsets", "CASCADE"), ("synset_relations", "type_rowid", "relation_types", "NO ACTION"),
  ("synsets", "ili_rowid", "ilis", "NO ACTION"), ("synsets", "lexfile_rowid", "lexfiles", "NO ACTION"),
  ("synsets", "lexicon_rowid", "lexicons", "CASCADE"),
  ("syntactic_behaviour_senses", "sense_rowid", "senses", "CASCADE"),
  ("syntactic_behaviour_senses", "syntactic_behaviour_rowid", "syntactic_behaviours", "CASCADE"),
  ("syntactic_behaviours", "lexicon_rowid", "lexicons", "CASCADE"),
  ("tags", "form_rowid", "forms", "CASCADE")]

theorem C05_gen_foreign_keys :
    Gen.schema.flatMap (fun t => t.fks.map (fun f => (t.name, f.col, f.table, f.onDelete))) = modelFks := by decide

/-- referential integrity of the store: every `REFERENCES … ON DELETE CASCADE / SET NULL`
column of `schema.sql` points at an existing row -/
structure FK (db : Db) : Prop where
  deps_dependent : ∀ r ∈ db.deps, ∃ x ∈ db.lexicons, x.rowid = r.dependent
  deps_provider : ∀ r ∈ db.deps, ∀ p, r.provider = some p → ∃ x ∈ db.lexicons, x.rowid = p
  exts_ext : ∀ r ∈ db.exts, ∃ x ∈ db.lexicons, x.rowid = r.ext
  entries_lex : ∀ r ∈ db.entries, ∃ x ∈ db.lexicons, x.rowid = r.lex
  forms_lex : ∀ r ∈ db.forms, ∃ x ∈ db.lexicons, x.rowid = r.lex
  forms_entry : ∀ r ∈ db.forms, ∃ x ∈ db.entries, x.rowid = r.entry
  prons_form : ∀ r ∈ db.prons, ∃ x ∈ db.forms, x.rowid = r.form
  tags_form : ∀ r ∈ db.tags, ∃ x ∈ db.forms, x.rowid = r.form
  synsets_lex : ∀ r ∈ db.synsets, ∃ x ∈ db.lexicons, x.rowid = r.lex
  synrels_lex : ∀ r ∈ db.synrels, ∃ x ∈ db.lexicons, x.rowid = r.lex
  synrels_source : ∀ r ∈ db.synrels, ∃ x ∈ db.synsets, x.rowid = r.source
  synrels_target : ∀ r ∈ db.synrels, ∃ x ∈ db.synsets, x.rowid = r.target
  defs_lex : ∀ r ∈ db.defs, ∃ x ∈ db.lexicons, x.rowid = r.lex
  defs_synset : ∀ r ∈ db.defs, ∃ x ∈ db.synsets, x.rowid = r.synset
  defs_sense : ∀ r ∈ db.defs, ∀ s, r.sense = some s → ∃ x ∈ db.senses, x.rowid = s
  synexs_lex : ∀ r ∈ db.synexs, ∃ x ∈ db.lexicons, x.rowid = r.lex
  synexs_owner : ∀ r ∈ db.synexs, ∃ x ∈ db.synsets, x.rowid = r.owner
  senses_lex : ∀ r ∈ db.senses, ∃ x ∈ db.lexicons, x.rowid = r.lex
  senses_entry : ∀ r ∈ db.senses, ∃ x ∈ db.entries, x.rowid = r.entry
  senses_synset : ∀ r ∈ db.senses, ∃ x ∈ db.synsets, x.rowid = r.synset
  senserels_lex : ∀ r ∈ db.senserels, ∃ x ∈ db.lexicons, x.rowid = r.lex
  senserels_source : ∀ r ∈ db.senserels, ∃ x ∈ db.senses, x.rowid = r.source
  senserels_target : ∀ r ∈ db.senserels, ∃ x ∈ db.senses, x.rowid = r.target
  ssrels_lex : ∀ r ∈ db.sensesynrels, ∃ x ∈ db.lexicons, x.rowid = r.lex
  ssrels_source : ∀ r ∈ db.sensesynrels, ∃ x ∈ db.senses, x.rowid = r.source
  ssrels_target : ∀ r ∈ db.sensesynrels, ∃ x ∈ db.synsets, x.rowid = r.target
  adjs_sense : ∀ r ∈ db.adjs, ∃ x ∈ db.senses, x.rowid = r.sense
  sensexs_lex : ∀ r ∈ db.sensexs, ∃ x ∈ db.lexicons, x.rowid = r.lex
  sensexs_owner : ∀ r ∈ db.sensexs, ∃ x ∈ db.senses, x.rowid = r.owner
  counts_lex : ∀ r ∈ db.counts, ∃ x ∈ db.lexicons, x.rowid = r.lex
  counts_sense : ∀ r ∈ db.counts, ∃ x ∈ db.senses, x.rowid = r.sense
  sbs_lex : ∀ r ∈ db.sbs, ∃ x ∈ db.lexicons, x.rowid = r.lex
  sbsenses_sb : ∀ r ∈ db.sbsenses, ∃ x ∈ db.sbs, x.rowid = r.sb
  sbsenses_sense : ∀ r ∈ db.sbsenses, ∃ x ∈ db.senses, x.rowid = r.sense
  pilis_synset : ∀ r ∈ db.pilis, ∃ x ∈ db.synsets, x.rowid = r.synset

theorem FK_empty : FK Db.empty := by
  constructor <;> simp [Db.empty]

/-! ### the cascade sets -/
theorem mem_entriesDel (db : Db) (l k : Nat) : k ∈ entriesDel db l ↔ ∃ e ∈ db.entries, e.lex = l ∧ e.rowid = k := by
  simp [entriesDel, and_assoc]
theorem mem_synsetsDel (db : Db) (l k : Nat) : k ∈ synsetsDel db l ↔ ∃ e ∈ db.synsets, e.lex = l ∧ e.rowid = k := by
  simp [synsetsDel, and_assoc]
theorem mem_formsDel (db : Db) (l k : Nat) : k ∈ formsDel db l ↔ ∃ e ∈ db.forms, formGone db l e = true ∧ e.rowid = k := by
  simp [formsDel, and_assoc]
theorem mem_sensesDel (db : Db) (l k : Nat) : k ∈ sensesDel db l ↔ ∃ e ∈ db.senses, senseGone db l e = true ∧ e.rowid = k := by
  simp [sensesDel, and_assoc]
theorem mem_sbsDel (db : Db) (l k : Nat) : k ∈ sbsDel db l ↔ ∃ e ∈ db.sbs, e.lex = l ∧ e.rowid = k := by
  simp [sbsDel, and_assoc]

@[simp] theorem unlinkSense_lex (g : List Nat) (r : RDef) : (unlinkSense g r).lex = r.lex := by
  unfold unlinkSense; split
  · split <;> rfl
  · rfl
@[simp] theorem unlinkSense_synset (g : List Nat) (r : RDef) : (unlinkSense g r).synset = r.synset := by
  unfold unlinkSense; split
  · split <;> rfl
  · rfl
@[simp] theorem unlinkSense_text (g : List Nat) (r : RDef) : (unlinkSense g r).text = r.text := by
  unfold unlinkSense; split
  · split <;> rfl
  · rfl
theorem unlinkSense_sense (g : List Nat) (r : RDef) (s : Nat) (h : (unlinkSense g r).sense = some s) :
    r.sense = some s ∧ s ∉ g := by
  unfold unlinkSense at h
  split at h
  · rename_i s' hs'
    split at h
    · simp at h
    · rename_i hc
      rw [hs'] at h
      cases h
      exact ⟨hs', by simpa using hc⟩
  · rename_i hn; rw [hn] at h; simp at h
@[simp] theorem unlinkProvider_dependent (l : Nat) (r : RDep) : (unlinkProvider l r).dependent = r.dependent := by
  unfold unlinkProvider; split <;> rfl
@[simp] theorem unlinkProvider_pid (l : Nat) (r : RDep) : (unlinkProvider l r).pid = r.pid := by
  unfold unlinkProvider; split <;> rfl
@[simp] theorem unlinkProvider_pver (l : Nat) (r : RDep) : (unlinkProvider l r).pver = r.pver := by
  unfold unlinkProvider; split <;> rfl
@[simp] theorem unlinkProvider_purl (l : Nat) (r : RDep) : (unlinkProvider l r).purl = r.purl := by
  unfold unlinkProvider; split <;> rfl
theorem unlinkProvider_provider (l : Nat) (r : RDep) :
    (unlinkProvider l r).provider = if r.provider = some l then none else r.provider := by
  unfold unlinkProvider
  by_cases h : r.provider = some l <;> simp [h]

/-! ### what remains after `DELETE FROM lexicons WHERE rowid = l` -/

/-- the lexicon row itself is gone -/
theorem C05_lexicon_gone (db : Db) (l : Nat) : ∀ x ∈ (deleteLexicon db l).lexicons, x.rowid ≠ l := by
  intro x hx
  simp only [deleteLexicon, List.mem_filter] at hx
  simpa using hx.2

/-- nothing owned by the removed lexicon remains in any owned table -/
theorem C05_nothing_owned_remains (db : Db) (l : Nat) :
    (∀ r ∈ (deleteLexicon db l).entries, r.lex ≠ l) ∧ (∀ r ∈ (deleteLexicon db l).forms, r.lex ≠ l) ∧
    (∀ r ∈ (deleteLexicon db l).synsets, r.lex ≠ l) ∧ (∀ r ∈ (deleteLexicon db l).senses, r.lex ≠ l) ∧
    (∀ r ∈ (deleteLexicon db l).synrels, r.lex ≠ l) ∧ (∀ r ∈ (deleteLexicon db l).senserels, r.lex ≠ l) ∧
    (∀ r ∈ (deleteLexicon db l).sensesynrels, r.lex ≠ l) ∧ (∀ r ∈ (deleteLexicon db l).defs, r.lex ≠ l) ∧
    (∀ r ∈ (deleteLexicon db l).synexs, r.lex ≠ l) ∧ (∀ r ∈ (deleteLexicon db l).sensexs, r.lex ≠ l) ∧
    (∀ r ∈ (deleteLexicon db l).counts, r.lex ≠ l) ∧ (∀ r ∈ (deleteLexicon db l).sbs, r.lex ≠ l) ∧
    (∀ r ∈ (deleteLexicon db l).deps, r.dependent ≠ l) ∧ (∀ r ∈ (deleteLexicon db l).exts, r.ext ≠ l) := by
  refine ⟨?_, ?_, ?_, ?_, ?_, ?_, ?_, ?_, ?_, ?_, ?_, ?_, ?_, ?_⟩ <;> intro r hr <;>
    simp only [deleteLexicon, List.mem_filter, List.mem_map] at hr
  · simpa using hr.2
  · have := hr.2; simp [formGone] at this; exact this.1
  · simpa using hr.2
  · have := hr.2; simp [senseGone] at this; exact this.1.1
  · have := hr.2; simp at this; exact this.1.1
  · have := hr.2; simp at this; exact this.1.1
  · have := hr.2; simp at this; exact this.1.1
  · obtain ⟨a, ⟨_, ha⟩, rfl⟩ := hr
    simp at ha; simpa using ha.1
  · have := hr.2; simp at this; exact this.1
  · have := hr.2; simp at this; exact this.1
  · have := hr.2; simp at this; exact this.1
  · simpa using hr.2
  · obtain ⟨a, ⟨_, ha⟩, rfl⟩ := hr
    simpa using ha
  · simpa using hr.2

/-- no dependency of another lexicon still points at the removed one (`ON DELETE SET NULL`) -/
theorem C05_dependency_unlinked (db : Db) (l : Nat) : ∀ r ∈ (deleteLexicon db l).deps, r.provider ≠ some l := by
  intro r hr
  simp only [deleteLexicon, List.mem_map, List.mem_filter] at hr
  obtain ⟨a, _, rfl⟩ := hr
  rw [unlinkProvider_provider]
  split
  · simp
  · assumption

/-- … and the dependency row itself survives, with its declared id, version and url -/
theorem C05_dependency_kept (db : Db) (l : Nat) (r : RDep) (h : r ∈ db.deps) (hd : r.dependent ≠ l) :
    ∃ r' ∈ (deleteLexicon db l).deps, r'.dependent = r.dependent ∧ r'.pid = r.pid ∧ r'.pver = r.pver ∧ r'.purl = r.purl ∧
      (r'.provider = if r.provider = some l then none else r.provider) := by
  refine ⟨unlinkProvider l r, ?_, by simp, by simp, by simp, by simp, unlinkProvider_provider l r⟩
  simp only [deleteLexicon, List.mem_map, List.mem_filter]
  exact ⟨r, ⟨h, by simpa using hd⟩, rfl⟩

/-! ### keeping what is not reached by the cascade -/
theorem keepLex (db : Db) (l k : Nat) (hk : k ≠ l) (h : ∃ x ∈ db.lexicons, x.rowid = k) :
    ∃ x ∈ (deleteLexicon db l).lexicons, x.rowid = k := by
  obtain ⟨x, hx, hxk⟩ := h
  exact ⟨x, by simp only [deleteLexicon, List.mem_filter]; exact ⟨hx, by simpa [hxk] using hk⟩, hxk⟩
theorem keepEntry (db : Db) (l k : Nat) (hk : k ∉ entriesDel db l) (h : ∃ x ∈ db.entries, x.rowid = k) :
    ∃ x ∈ (deleteLexicon db l).entries, x.rowid = k := by
  obtain ⟨x, hx, hxk⟩ := h
  refine ⟨x, ?_, hxk⟩
  simp only [deleteLexicon, List.mem_filter]
  refine ⟨hx, ?_⟩
  simp only [bne_iff_ne, ne_eq]
  intro hl
  exact hk ((mem_entriesDel db l k).mpr ⟨x, hx, hl, hxk⟩)
theorem keepSynset (db : Db) (l k : Nat) (hk : k ∉ synsetsDel db l) (h : ∃ x ∈ db.synsets, x.rowid = k) :
    ∃ x ∈ (deleteLexicon db l).synsets, x.rowid = k := by
  obtain ⟨x, hx, hxk⟩ := h
  refine ⟨x, ?_, hxk⟩
  simp only [deleteLexicon, List.mem_filter]
  refine ⟨hx, ?_⟩
  simp only [bne_iff_ne, ne_eq]
  intro hl
  exact hk ((mem_synsetsDel db l k).mpr ⟨x, hx, hl, hxk⟩)
theorem keepForm (db : Db) (l k : Nat) (hk : k ∉ formsDel db l) (h : ∃ x ∈ db.forms, x.rowid = k) :
    ∃ x ∈ (deleteLexicon db l).forms, x.rowid = k := by
  obtain ⟨x, hx, hxk⟩ := h
  refine ⟨x, ?_, hxk⟩
  simp only [deleteLexicon, List.mem_filter]
  refine ⟨hx, ?_⟩
  simp only [Bool.not_eq_eq_eq_not, Bool.not_true]
  cases hg : formGone db l x
  · rfl
  · exact absurd ((mem_formsDel db l k).mpr ⟨x, hx, hg, hxk⟩) hk
theorem keepSense (db : Db) (l k : Nat) (hk : k ∉ sensesDel db l) (h : ∃ x ∈ db.senses, x.rowid = k) :
    ∃ x ∈ (deleteLexicon db l).senses, x.rowid = k := by
  obtain ⟨x, hx, hxk⟩ := h
  refine ⟨x, ?_, hxk⟩
  simp only [deleteLexicon, List.mem_filter]
  refine ⟨hx, ?_⟩
  simp only [Bool.not_eq_eq_eq_not, Bool.not_true]
  cases hg : senseGone db l x
  · rfl
  · exact absurd ((mem_sensesDel db l k).mpr ⟨x, hx, hg, hxk⟩) hk
theorem keepSb (db : Db) (l k : Nat) (hk : k ∉ sbsDel db l) (h : ∃ x ∈ db.sbs, x.rowid = k) :
    ∃ x ∈ (deleteLexicon db l).sbs, x.rowid = k := by
  obtain ⟨x, hx, hxk⟩ := h
  refine ⟨x, ?_, hxk⟩
  simp only [deleteLexicon, List.mem_filter]
  refine ⟨hx, ?_⟩
  simp only [bne_iff_ne, ne_eq]
  intro hl
  exact hk ((mem_sbsDel db l k).mpr ⟨x, hx, hl, hxk⟩)

/-- referential integrity is preserved: no dangling row remains -/
theorem C05_no_dangling (db : Db) (l : Nat) (h : FK db) : FK (deleteLexicon db l) := by
  constructor
  · intro r hr
    simp only [deleteLexicon, List.mem_map, List.mem_filter] at hr
    obtain ⟨a, ⟨ha, hne⟩, rfl⟩ := hr
    simpa using keepLex db l a.dependent (by simpa using hne) (h.deps_dependent a ha)
  · intro r hr p hp
    simp only [deleteLexicon, List.mem_map, List.mem_filter] at hr
    obtain ⟨a, ⟨ha, _⟩, rfl⟩ := hr
    rw [unlinkProvider_provider] at hp
    split at hp
    · simp at hp
    · rename_i hnp
      exact keepLex db l p (by intro e; subst e; exact hnp hp) (h.deps_provider a ha p hp)
  · intro r hr
    simp only [deleteLexicon, List.mem_filter] at hr
    exact keepLex db l r.ext (by simpa using hr.2) (h.exts_ext r hr.1)
  · intro r hr
    simp only [deleteLexicon, List.mem_filter] at hr
    exact keepLex db l r.lex (by simpa using hr.2) (h.entries_lex r hr.1)
  · intro r hr
    simp only [deleteLexicon, List.mem_filter] at hr
    have h2 := hr.2; simp [formGone] at h2
    exact keepLex db l r.lex h2.1 (h.forms_lex r hr.1)
  · intro r hr
    simp only [deleteLexicon, List.mem_filter] at hr
    have h2 := hr.2; simp [formGone] at h2
    exact keepEntry db l r.entry (by simpa using h2.2) (h.forms_entry r hr.1)
  · intro r hr
    simp only [deleteLexicon, List.mem_filter] at hr
    exact keepForm db l r.form (by simpa using hr.2) (h.prons_form r hr.1)
  · intro r hr
    simp only [deleteLexicon, List.mem_filter] at hr
    exact keepForm db l r.form (by simpa using hr.2) (h.tags_form r hr.1)
  · intro r hr
    simp only [deleteLexicon, List.mem_filter] at hr
    exact keepLex db l r.lex (by simpa using hr.2) (h.synsets_lex r hr.1)
  · intro r hr
    simp only [deleteLexicon, List.mem_filter] at hr
    have h2 := hr.2; simp at h2
    exact keepLex db l r.lex h2.1.1 (h.synrels_lex r hr.1)
  · intro r hr
    simp only [deleteLexicon, List.mem_filter] at hr
    have h2 := hr.2; simp at h2
    exact keepSynset db l r.source (by simpa using h2.1.2) (h.synrels_source r hr.1)
  · intro r hr
    simp only [deleteLexicon, List.mem_filter] at hr
    have h2 := hr.2; simp at h2
    exact keepSynset db l r.target (by simpa using h2.2) (h.synrels_target r hr.1)
  · intro r hr
    simp only [deleteLexicon, List.mem_map, List.mem_filter] at hr
    obtain ⟨a, ⟨ha, h2⟩, rfl⟩ := hr
    simp at h2
    simpa using keepLex db l a.lex h2.1 (h.defs_lex a ha)
  · intro r hr
    simp only [deleteLexicon, List.mem_map, List.mem_filter] at hr
    obtain ⟨a, ⟨ha, h2⟩, rfl⟩ := hr
    simp at h2
    simpa using keepSynset db l a.synset (by simpa using h2.2) (h.defs_synset a ha)
  · intro r hr s hs
    simp only [deleteLexicon, List.mem_map, List.mem_filter] at hr
    obtain ⟨a, ⟨ha, _⟩, rfl⟩ := hr
    obtain ⟨hs1, hs2⟩ := unlinkSense_sense _ _ _ hs
    exact keepSense db l s hs2 (h.defs_sense a ha s hs1)
  · intro r hr
    simp only [deleteLexicon, List.mem_filter] at hr
    have h2 := hr.2; simp at h2
    exact keepLex db l r.lex h2.1 (h.synexs_lex r hr.1)
  · intro r hr
    simp only [deleteLexicon, List.mem_filter] at hr
    have h2 := hr.2; simp at h2
    exact keepSynset db l r.owner (by simpa using h2.2) (h.synexs_owner r hr.1)
  · intro r hr
    simp only [deleteLexicon, List.mem_filter] at hr
    have h2 := hr.2; simp [senseGone] at h2
    exact keepLex db l r.lex h2.1.1 (h.senses_lex r hr.1)
  · intro r hr
    simp only [deleteLexicon, List.mem_filter] at hr
    have h2 := hr.2; simp [senseGone] at h2
    exact keepEntry db l r.entry (by simpa using h2.1.2) (h.senses_entry r hr.1)
  · intro r hr
    simp only [deleteLexicon, List.mem_filter] at hr
    have h2 := hr.2; simp [senseGone] at h2
    exact keepSynset db l r.synset (by simpa using h2.2) (h.senses_synset r hr.1)
  · intro r hr
    simp only [deleteLexicon, List.mem_filter] at hr
    have h2 := hr.2; simp at h2
    exact keepLex db l r.lex h2.1.1 (h.senserels_lex r hr.1)
  · intro r hr
    simp only [deleteLexicon, List.mem_filter] at hr
    have h2 := hr.2; simp at h2
    exact keepSense db l r.source (by simpa using h2.1.2) (h.senserels_source r hr.1)
  · intro r hr
    simp only [deleteLexicon, List.mem_filter] at hr
    have h2 := hr.2; simp at h2
    exact keepSense db l r.target (by simpa using h2.2) (h.senserels_target r hr.1)
  · intro r hr
    simp only [deleteLexicon, List.mem_filter] at hr
    have h2 := hr.2; simp at h2
    exact keepLex db l r.lex h2.1.1 (h.ssrels_lex r hr.1)
  · intro r hr
    simp only [deleteLexicon, List.mem_filter] at hr
    have h2 := hr.2; simp at h2
    exact keepSense db l r.source (by simpa using h2.1.2) (h.ssrels_source r hr.1)
  · intro r hr
    simp only [deleteLexicon, List.mem_filter] at hr
    have h2 := hr.2; simp at h2
    exact keepSynset db l r.target (by simpa using h2.2) (h.ssrels_target r hr.1)
  · intro r hr
    simp only [deleteLexicon, List.mem_filter] at hr
    exact keepSense db l r.sense (by simpa using hr.2) (h.adjs_sense r hr.1)
  · intro r hr
    simp only [deleteLexicon, List.mem_filter] at hr
    have h2 := hr.2; simp at h2
    exact keepLex db l r.lex h2.1 (h.sensexs_lex r hr.1)
  · intro r hr
    simp only [deleteLexicon, List.mem_filter] at hr
    have h2 := hr.2; simp at h2
    exact keepSense db l r.owner (by simpa using h2.2) (h.sensexs_owner r hr.1)
  · intro r hr
    simp only [deleteLexicon, List.mem_filter] at hr
    have h2 := hr.2; simp at h2
    exact keepLex db l r.lex h2.1 (h.counts_lex r hr.1)
  · intro r hr
    simp only [deleteLexicon, List.mem_filter] at hr
    have h2 := hr.2; simp at h2
    exact keepSense db l r.sense (by simpa using h2.2) (h.counts_sense r hr.1)
  · intro r hr
    simp only [deleteLexicon, List.mem_filter] at hr
    exact keepLex db l r.lex (by simpa using hr.2) (h.sbs_lex r hr.1)
  · intro r hr
    simp only [deleteLexicon, List.mem_filter] at hr
    have h2 := hr.2; simp at h2
    exact keepSb db l r.sb (by simpa using h2.1) (h.sbsenses_sb r hr.1)
  · intro r hr
    simp only [deleteLexicon, List.mem_filter] at hr
    have h2 := hr.2; simp at h2
    exact keepSense db l r.sense (by simpa using h2.2) (h.sbsenses_sense r hr.1)
  · intro r hr
    simp only [deleteLexicon, List.mem_filter] at hr
    exact keepSynset db l r.synset (by simpa using hr.2) (h.pilis_synset r hr.1)

/-! ### `remove()`: extensions first, then the lexicon -/

theorem foldl_delete_FK (L : List Nat) : ∀ (db : Db), FK db → FK (L.foldl deleteLexicon db) := by
  induction L with
  | nil => intro db h; exact h
  | cons a t ih => intro db h; exact ih _ (C05_no_dangling db a h)

/-- `remove()` of one lexicon leaves no dangling row -/
theorem C05_remove_no_dangling (db : Db) (l : Nat) (h : FK db) : FK (removeLexicon db l) := by
  unfold removeLexicon
  exact C05_no_dangling _ l (foldl_delete_FK _ db h)

theorem foldl_delete_lexicons (L : List Nat) : ∀ (db : Db),
    (L.foldl deleteLexicon db).lexicons = db.lexicons.filter (fun r => !L.contains r.rowid) := by
  induction L with
  | nil => intro db; exact (List.filter_eq_self.mpr (by simp)).symm
  | cons a t ih =>
    intro db
    simp only [List.foldl_cons, ih]
    simp only [deleteLexicon, List.filter_filter]
    congr 1
    funext r
    by_cases h1 : r.rowid = a <;> simp [h1]

/-- after `remove()` the lexicon and every lexicon of `get_lexicon_extensions` are gone,
and every other lexicon row is still there, unchanged -/
theorem C05_remove_lexicons (db : Db) (l : Nat) :
    (removeLexicon db l).lexicons =
      db.lexicons.filter (fun r => r.rowid != l && !(extensionsOf db (db.lexicons.length + 1) l).contains r.rowid) := by
  unfold removeLexicon
  show (deleteLexicon _ l).lexicons = _
  simp only [deleteLexicon]
  rw [foldl_delete_lexicons, List.filter_filter]
  congr 1
  funext r
  simp

/-- a lexicon that is neither removed nor one of its extensions keeps its row -/
theorem C05_other_lexicons_kept (db : Db) (l : Nat) (x : RLexicon) (hx : x ∈ db.lexicons) (h1 : x.rowid ≠ l)
    (h2 : x.rowid ∉ extensionsOf db (db.lexicons.length + 1) l) : x ∈ (removeLexicon db l).lexicons := by
  rw [C05_remove_lexicons]
  simp only [List.mem_filter, Bool.and_eq_true]
  exact ⟨hx, by simpa using h1, by simpa using h2⟩

/-- direct extensions of a lexicon -/
def directExts (db : Db) (b : Nat) : List Nat := (db.exts.filter (fun e => e.base == some b)).map (·.ext)

theorem mem_eraseDups {α} [BEq α] [LawfulBEq α] (l : List α) (x : α) : x ∈ l.eraseDups ↔ x ∈ l := by
  simp [List.mem_eraseDups]

theorem nodup_eraseDups {α} [BEq α] [LawfulBEq α] : ∀ (n : Nat) (l : List α), l.length ≤ n → l.eraseDups.Nodup := by
  intro n
  induction n with
  | zero =>
    intro l h
    have : l = [] := by cases l with | nil => rfl | cons _ _ => simp at h
    subst this; simp
  | succ n ih =>
    intro l h
    cases l with
    | nil => simp
    | cons a t =>
      rw [List.eraseDups_cons, List.nodup_cons]
      constructor
      · intro hm
        rw [mem_eraseDups] at hm
        simp at hm
      · apply ih
        have := List.length_filter_le (fun b => !b == a) t
        simp only [List.length_cons] at h
        omega

theorem extensionsOf_go_closed (db : Db) (root : Nat) : ∀ (f : Nat) (frontier acc : List Nat),
    acc.Nodup → (∀ x ∈ acc, x ∈ db.exts.map (·.ext)) →
    (∀ x, (x ∈ acc ∨ x = root) → x ∉ frontier → ∀ y ∈ directExts db x, y ∈ acc) →
    (∀ x ∈ frontier, x ∈ acc ∨ x = root) →
    (db.exts.map (·.ext)).length - acc.length < f →
    ∀ x, (x ∈ extensionsOf.go db f frontier acc ∨ x = root) → ∀ y ∈ directExts db x, y ∈ extensionsOf.go db f frontier acc := by
  intro f
  induction f with
  | zero => intro frontier acc _ _ _ _ hf; omega
  | succ f ih =>
    intro frontier acc hnd hsub h1 h2 hf x hx y hy
    simp only [extensionsOf.go] at hx ⊢
    have hnext : ∀ z, z ∈ frontier.flatMap (fun b => (db.exts.filter (fun e => e.base == some b)).map (·.ext)) ↔
        ∃ b ∈ frontier, z ∈ directExts db b := by
      intro z; simp only [List.mem_flatMap, directExts]
    split
    · rename_i hemp
      split at hx
      · -- fresh empty: acc is closed
        by_cases hxf : x ∈ frontier
        · have : y ∈ (frontier.flatMap (fun b => (db.exts.filter (fun e => e.base == some b)).map (·.ext))) := (hnext y).mpr ⟨x, hxf, hy⟩
          have hfe : ((frontier.flatMap (fun b => (db.exts.filter (fun e => e.base == some b)).map (·.ext))).filter (fun x => !acc.contains x)).eraseDups = [] := by
            simpa using hemp
          by_cases hya : y ∈ acc
          · exact hya
          · have : y ∈ ((frontier.flatMap (fun b => (db.exts.filter (fun e => e.base == some b)).map (·.ext))).filter (fun x => !acc.contains x)).eraseDups := by
              rw [mem_eraseDups]; simp only [List.mem_filter]; exact ⟨this, by simpa using hya⟩
            rw [hfe] at this; simp at this
        · exact h1 x hx hxf y hy
      · rename_i hne; exact absurd hemp hne
    · rename_i hne
      split at hx
      · rename_i hemp; exact absurd hemp hne
      · -- recursive call
        let next := frontier.flatMap (fun b => (db.exts.filter (fun e => e.base == some b)).map (·.ext))
        let fresh := (next.filter (fun x => !acc.contains x)).eraseDups
        have hfresh_mem : ∀ z, z ∈ fresh ↔ z ∈ next ∧ z ∉ acc := by
          intro z; simp only [fresh, mem_eraseDups, List.mem_filter]; simp
        have hfresh_ne : fresh ≠ [] := by
          intro e; apply hne; show fresh.isEmpty = true; rw [e]; rfl
        refine ih fresh (acc ++ fresh) ?_ ?_ ?_ ?_ ?_ x hx y hy
        · rw [List.nodup_append]
          refine ⟨hnd, nodup_eraseDups _ _ (Nat.le_refl _), ?_⟩
          intro a ha b hb e
          subst e
          exact ((hfresh_mem a).mp hb).2 ha
        · intro z hz
          rcases List.mem_append.mp hz with hz | hz
          · exact hsub z hz
          · obtain ⟨b, _, hzb⟩ := (hnext z).mp ((hfresh_mem z).mp hz).1
            simp only [directExts, List.mem_map, List.mem_filter] at hzb ⊢
            obtain ⟨e, ⟨he, _⟩, rfl⟩ := hzb
            exact ⟨e, he, rfl⟩
        · intro z hz hzf w hw
          have hz' : z ∈ acc ∨ z = root := by
            rcases hz with hz | hz
            · rcases List.mem_append.mp hz with hz | hz
              · exact Or.inl hz
              · exact absurd hz hzf
            · exact Or.inr hz
          by_cases hzfr : z ∈ frontier
          · have hwn : w ∈ next := (hnext w).mpr ⟨z, hzfr, hw⟩
            by_cases hwa : w ∈ acc
            · exact List.mem_append_left _ hwa
            · exact List.mem_append_right _ ((hfresh_mem w).mpr ⟨hwn, hwa⟩)
          · exact List.mem_append_left _ (h1 z hz' hzfr w hw)
        · intro z hz; exact Or.inl (List.mem_append_right _ hz)
        · have hlen : (acc ++ fresh).length ≤ (db.exts.map (·.ext)).length := by
            apply List.Nodup.length_le_of_subset
            · rw [List.nodup_append]
              refine ⟨hnd, nodup_eraseDups _ _ (Nat.le_refl _), ?_⟩
              intro a ha b hb e
              subst e
              exact ((hfresh_mem a).mp hb).2 ha
            · intro z hz
              rcases List.mem_append.mp hz with hz | hz
              · exact hsub z hz
              · obtain ⟨b, _, hzb⟩ := (hnext z).mp ((hfresh_mem z).mp hz).1
                simp only [directExts, List.mem_map, List.mem_filter] at hzb ⊢
                obtain ⟨e, ⟨he, _⟩, rfl⟩ := hzb
                exact ⟨e, he, rfl⟩
          have hpos : 0 < fresh.length := List.length_pos_iff.mpr hfresh_ne
          simp only [List.length_append] at hlen ⊢
          omega

/-- `get_lexicon_extensions` is closed under "extends": it contains the direct extensions of the
lexicon and of every lexicon it contains, i.e. all transitive extensions — whenever the fuel
exceeds the number of extension rows -/
theorem C05_extensions_closed (db : Db) (l : Nat) (fuel : Nat) (hf : db.exts.length < fuel) (x : Nat)
    (hx : x ∈ extensionsOf db fuel l ∨ x = l) : ∀ y ∈ directExts db x, y ∈ extensionsOf db fuel l := by
  unfold extensionsOf at hx ⊢
  exact extensionsOf_go_closed db l fuel [l] [] (by simp) (by simp)
    (by intro z hz hzf; rcases hz with hz | hz; simp at hz; subst hz; simp at hzf)
    (by intro z hz; right; simpa using hz) (by simp; exact hf) x hx


theorem foldl_delete_exts (L : List Nat) : ∀ (db : Db),
    (L.foldl deleteLexicon db).exts = db.exts.filter (fun r => !L.contains r.ext) := by
  induction L with
  | nil => intro db; exact (List.filter_eq_self.mpr (by simp)).symm
  | cons a t ih =>
    intro db
    simp only [List.foldl_cons, ih]
    simp only [deleteLexicon, List.filter_filter]
    congr 1
    funext r
    by_cases h1 : r.ext = a <;> simp [h1]

/-- after `remove()` no extension row is left pointing at a removed base: the last clause of
referential integrity (`lexicon_extensions.base_rowid`, declared without ON DELETE action, so
SQLite would refuse the delete otherwise) -/
theorem C05_remove_no_dangling_base (db : Db) (l : Nat) (hf : db.exts.length < db.lexicons.length + 1)
    (e : RExt) (he : e ∈ (removeLexicon db l).exts) (b : Nat) (hb : e.base = some b) :
    b ≠ l ∧ b ∉ extensionsOf db (db.lexicons.length + 1) l := by
  unfold removeLexicon at he
  simp only [deleteLexicon] at he
  rw [foldl_delete_exts] at he
  simp only [List.mem_filter, List.contains_reverse] at he
  obtain ⟨⟨he1, he2⟩, he3⟩ := he
  have hnot : e.ext ∉ extensionsOf db (db.lexicons.length + 1) l := by simpa using he2
  have hdir : e.ext ∈ directExts db b := by
    simp only [directExts, List.mem_map, List.mem_filter]
    exact ⟨e, ⟨he1, by simp [hb]⟩, rfl⟩
  constructor
  · intro hbl
    exact hnot (C05_extensions_closed db l _ hf b (Or.inr hbl) _ hdir)
  · intro hbx
    exact hnot (C05_extensions_closed db l _ hf b (Or.inl hbx) _ hdir)

/-! ### the removed lexicon can be added again; dependency links follow what is installed -/

/-- after `remove()` of the lexicon row `x`, no row with its (id, version) is left — `_precheck` will
not skip it, and `_insert_lexicon` will not hit the UNIQUE(id, version) constraint — provided the
store respected that constraint -/
theorem C05_can_be_added_again (db : Db) (x : RLexicon)
    (huniq : ∀ y ∈ db.lexicons, y.id = x.id → y.version = x.version → y.rowid = x.rowid) :
    lexiconRow (removeLexicon db x.rowid) x.id x.version = none := by
  unfold lexiconRow
  rw [Option.map_eq_none_iff, List.find?_eq_none]
  intro y hy
  rw [C05_remove_lexicons] at hy
  simp only [List.mem_filter, Bool.and_eq_true, bne_iff_ne, ne_eq] at hy
  intro hc
  simp only [Bool.and_eq_true, beq_iff_eq] at hc
  exact hy.2.1 (huniq y hy.1 hc.1 hc.2)

/-- adding a lexicon links every waiting dependency on it (same id and version) to the new row, and
leaves every other dependency row as it was -/
theorem C05_dependencies_relinked (db db' : Db) (l : Doc.Lexicon) (lexid extid : Nat)
    (h : insertLexicon db l = .ok (db', lexid, extid)) (d : RDep) (hd : d ∈ db.deps) :
    (if d.pid = l.id ∧ d.pver = l.version then { d with provider := some lexid } else d) ∈ db'.deps := by
  unfold insertLexicon at h
  simp only [bind, Except.bind, pure, Except.pure] at h
  have key : (if d.pid = l.id ∧ d.pver = l.version then { d with provider := some lexid } else d) ∈
      db.deps.map (fun d => if d.pid == l.id && d.pver == l.version then { d with provider := some lexid } else d) := by
    refine List.mem_map.mpr ⟨d, hd, ?_⟩
    by_cases hc : d.pid = l.id ∧ d.pver = l.version
    · simp [hc.1, hc.2]
    · have : (d.pid == l.id && d.pver == l.version) = false := by
        simp only [Bool.and_eq_false_iff, beq_eq_false_iff_ne]
        by_cases h1 : d.pid = l.id
        · right; exact fun h2 => hc ⟨h1, h2⟩
        · left; exact h1
      simp [this, hc]
  split at h
  · simp [throw, throwThe, MonadExcept.throw] at h
  · split at h
    · split at h
      · simp at h
      · simp only [Except.ok.injEq, Prod.mk.injEq] at h
        obtain ⟨h1, h2, _⟩ := h
        subst h1 h2
        exact List.mem_append_left _ key
    · simp only [Except.ok.injEq, Prod.mk.injEq] at h
      obtain ⟨h1, h2, _⟩ := h
      subst h1 h2
      exact List.mem_append_left _ key

/-! ### frame: rows that reference nothing removed survive unchanged -/
theorem C05_entry_survives_iff (db : Db) (l : Nat) (r : REntry) :
    r ∈ (deleteLexicon db l).entries ↔ r ∈ db.entries ∧ r.lex ≠ l := by
  simp [deleteLexicon]
theorem C05_synset_survives_iff (db : Db) (l : Nat) (r : RSynset) :
    r ∈ (deleteLexicon db l).synsets ↔ r ∈ db.synsets ∧ r.lex ≠ l := by
  simp [deleteLexicon]
theorem C05_sense_survives_iff (db : Db) (l : Nat) (r : RSense) :
    r ∈ (deleteLexicon db l).senses ↔
      r ∈ db.senses ∧ r.lex ≠ l ∧ (∀ e ∈ db.entries, e.lex = l → e.rowid ≠ r.entry) ∧
        (∀ y ∈ db.synsets, y.lex = l → y.rowid ≠ r.synset) := by
  simp only [deleteLexicon, List.mem_filter, senseGone, entriesDel, synsetsDel]
  simp [and_assoc]
theorem C05_form_survives_iff (db : Db) (l : Nat) (r : RForm) :
    r ∈ (deleteLexicon db l).forms ↔
      r ∈ db.forms ∧ r.lex ≠ l ∧ (∀ e ∈ db.entries, e.lex = l → e.rowid ≠ r.entry) := by
  simp only [deleteLexicon, List.mem_filter, formGone, entriesDel]
  simp [and_assoc]
theorem C05_synrel_survives_iff (db : Db) (l : Nat) (r : RRel) :
    r ∈ (deleteLexicon db l).synrels ↔
      r ∈ db.synrels ∧ r.lex ≠ l ∧ (∀ y ∈ db.synsets, y.lex = l → y.rowid ≠ r.source) ∧
        (∀ y ∈ db.synsets, y.lex = l → y.rowid ≠ r.target) := by
  simp only [deleteLexicon, List.mem_filter, synsetsDel]
  simp [and_assoc]

/-- the lookup tables (relation types, ILI statuses, lexfiles) and the ILI table are not touched -/
theorem C05_shared_tables_untouched (db : Db) (l : Nat) :
    (deleteLexicon db l).ilis = db.ilis ∧ (deleteLexicon db l).reltypes = db.reltypes ∧
    (deleteLexicon db l).ilistatuses = db.ilistatuses ∧ (deleteLexicon db l).lexfiles = db.lexfiles :=
  ⟨rfl, rfl, rfl, rfl⟩

/-! ### known finding F12-residue: tag / pronunciation rows have no owner -/

/-- a tag row that an extension attached to a form owned by another lexicon (a base lemma) is not
reached by the cascade: it survives the removal of the extension.  General statement: a tag
survives `DELETE FROM lexicons WHERE rowid = l` whenever its form is not deleted, whoever wrote it. -/
theorem C05_residue_tags (db : Db) (l : Nat) (t : RTag) (ht : t ∈ db.tags) (hf : t.form ∉ formsDel db l) :
    t ∈ (deleteLexicon db l).tags := by
  simp only [deleteLexicon, List.mem_filter]
  exact ⟨ht, by simpa using hf⟩

theorem C05_residue_prons (db : Db) (l : Nat) (t : RPron) (ht : t ∈ db.prons) (hf : t.form ∉ formsDel db l) :
    t ∈ (deleteLexicon db l).prons := by
  simp only [deleteLexicon, List.mem_filter]
  exact ⟨ht, by simpa using hf⟩

/-- kernel-checked witness: base lexicon 1 with lemma form 1, extension 2 added a tag to that
form; after removing the extension the tag is still there -/
def residueDemo : Db :=
  { lexicons := [⟨1, "a", "A", "en", "e", "l", "1", none, none, none, none⟩, ⟨2, "x", "X", "en", "e", "l", "1", none, none, none, none⟩]
    exts := [⟨2, "a", "1", none, some 1⟩]
    entries := [⟨1, "e1", 1, "n", none⟩]
    forms := [⟨1, none, 1, 1, "cat", none, none, 0⟩]
    tags := [⟨1, "added-by-extension", "c"⟩] }

theorem C05_residue_counterexample : (removeLexicon residueDemo 2).tags = [⟨1, "added-by-extension", "c"⟩] ∧
    (removeLexicon residueDemo 2).lexicons.map (·.id) = ["a"] := by decide

/-! ### non-vacuity: a store with a base, an extension and a dependant -/
def demo : Db :=
  { lexicons := [⟨1, "a", "A", "en", "e", "l", "1", none, none, none, none⟩, ⟨2, "x", "X", "en", "e", "l", "1", none, none, none, none⟩,
                 ⟨3, "b", "B", "en", "e", "l", "1", none, none, none, none⟩]
    exts := [⟨2, "a", "1", none, some 1⟩]
    deps := [⟨3, "a", "1", none, some 1⟩]
    entries := [⟨1, "e1", 1, "n", none⟩, ⟨2, "e2", 3, "n", none⟩]
    forms := [⟨1, none, 1, 1, "cat", none, none, 0⟩, ⟨2, none, 2, 1, "cats", none, none, 1⟩, ⟨3, none, 3, 2, "dog", none, none, 0⟩]
    synsets := [⟨1, "s1", 1, none, "n", true, none, none⟩, ⟨2, "s2", 3, none, "n", true, none, none⟩]
    senses := [⟨1, "n1", 1, 1, 0, 1, 0, true, none⟩, ⟨2, "n2", 3, 2, 0, 2, 0, true, none⟩] }

example : (removeLexicon demo 1).lexicons.map (·.id) = ["b"] := by decide
example : (removeLexicon demo 1).forms.map (·.form) = ["dog"] := by decide
example : (removeLexicon demo 1).deps = [⟨3, "a", "1", none, none⟩] := by decide
example : extensionsOf demo 4 1 = [2] := by decide

end WnVerif.Props.C05
