/-
C03 — exporting a database and re-importing it preserves the lexicons.
Theorems over `Model/Export.lean` (`_export.py`) and its composition with `_insert_lexicon`
(`Model/Add.lean`).  The full statement export ∘ add ≃ id is decided by correspondence and the
document-level oracle; proved here: lexicon attributes and dependencies survive add-then-export,
ILI / proposed-ILI encoding, sense-frame links in both encodings, selection.
-/
import WnVerif.Model.Export
import WnVerif.Model.Add
import WnVerif.Lemmas.DbAux
import WnVerif.Lemmas.Sorted
import WnVerif.Props.C01
namespace WnVerif.Props.C03
open WnVerif.Db WnVerif.Doc

/-- `x or ''` / `x or None`: absent and empty are the same for optional attributes -/
def optEq (a b : Option String) : Prop := a.getD "" = b.getD ""

/-- exporting the row written by `_insert_lexicon` gives back the document's lexicon attributes
(optional ones modulo absent = empty) and its metadata (absent = empty dict) -/
theorem C03_lexicon_attributes (db db' : Db) (l : Lexicon) (lexid extid : Nat) (v : String)
    (h : insertLexicon db l = .ok (db', lexid, extid)) :
    ∃ row ∈ db'.lexicons, row.rowid = lexid ∧
      let x := exportLexicon db' row v
      x.id = l.id ∧ x.version = l.version ∧ x.label = l.label ∧ x.language = l.language ∧ x.email = l.email ∧
      x.license = l.license ∧ optEq x.url l.url ∧ optEq x.citation l.citation ∧
      (Lmf.atLeast11 v = true → optEq x.logo l.logo) ∧ x.md = some (l.md.getD []) := by
  obtain ⟨hrows, _, _⟩ := C01.C01_lexicon_row db db' l lexid extid h
  refine ⟨⟨lexid, l.id, l.label, l.language, l.email, l.license, l.version, l.url, l.citation, l.logo, l.md⟩, by rw [hrows]; simp, rfl, ?_⟩
  simp only [exportLexicon, optEq, Option.getD_some, mdOrEmpty, true_and, and_true]
  intro hv; simp [hv]

/-- dependencies (LMF ≥ 1.1): exactly the dependency rows of the lexicon, in insertion order, with
the declared id, version and url (not the provider's) -/
theorem C03_dependencies (db : Db) (row : RLexicon) (v : String) (hv : Lmf.atLeast11 v = true) :
    (exportLexicon db row v).requires =
      (db.deps.filter (fun d => d.dependent == row.rowid)).map (fun d => { id := d.pid, version := d.pver, url := d.purl }) := by
  simp [exportLexicon, hv]

/-- … and after `_insert_lexicon` into a store holding no dependency rows for the fresh rowid these
are the document's `Requires`, in order -/
theorem C03_dependencies_round_trip (db db' : Db) (l : Lexicon) (lexid extid : Nat)
    (h : insertLexicon db l = .ok (db', lexid, extid)) (hclean : ∀ d ∈ db.deps, d.dependent ≠ lexid) :
    (db'.deps.filter (fun d => d.dependent == lexid)).map (fun d => ({ id := d.pid, version := d.pver, url := d.purl } : Dep)) = l.requires := by
  have key : ∀ (deps0 : List RDep) (new : List RDep), (∀ d ∈ deps0, d.dependent ≠ lexid) → (∀ d ∈ new, d.dependent = lexid) →
      (deps0 ++ new).filter (fun d => d.dependent == lexid) = new := by
    intro deps0 new h0 h1
    rw [List.filter_append]
    have e0 : deps0.filter (fun d => d.dependent == lexid) = [] := by
      rw [List.filter_eq_nil_iff]; intro d hd; simpa using h0 d hd
    have e1 : new.filter (fun d => d.dependent == lexid) = new := by
      rw [List.filter_eq_self]; intro d hd; simpa using h1 d hd
    rw [e0, e1]; rfl
  have relinked : ∀ d ∈ db.deps.map (fun d => if d.pid == l.id && d.pver == l.version then { d with provider := some lexid } else d), d.dependent ≠ lexid := by
    intro d hd
    obtain ⟨d0, hd0, rfl⟩ := List.mem_map.mp hd
    have := hclean d0 hd0
    split <;> simpa using this
  unfold insertLexicon at h
  simp only [bind, Except.bind, pure, Except.pure] at h
  split at h
  · simp [throw, throwThe, MonadExcept.throw] at h
  · split at h
    · split at h
      · simp at h
      · simp only [Except.ok.injEq, Prod.mk.injEq] at h
        obtain ⟨h1, h2, _⟩ := h
        subst h1 h2
        simp only
        rw [key _ _ relinked (by intro d hd; obtain ⟨x, _, rfl⟩ := List.mem_map.mp hd; rfl)]
        rw [List.map_map]
        conv => rhs; rw [← List.map_id l.requires]
        apply List.map_congr_left
        intro d _; rfl
    · simp only [Except.ok.injEq, Prod.mk.injEq] at h
      obtain ⟨h1, h2, _⟩ := h
      subst h1 h2
      simp only
      rw [key _ _ relinked (by intro d hd; obtain ⟨x, _, rfl⟩ := List.mem_map.mp hd; rfl)]
      rw [List.map_map]
      conv => rhs; rw [← List.map_id l.requires]
      apply List.map_congr_left
      intro d _; rfl

/-- only the selected lexicon's own entries and synsets are exported -/
theorem C03_exports_own_entries (db : Db) (row : RLexicon) (v : String) (e : Entry)
    (h : e ∈ (exportLexicon db row v).entries) :
    ∃ w ∈ findEntries db none [] none [row.rowid] false true, e.id = w.id ∧ w.lex = row.rowid ∧ e.external = false := by
  simp only [exportLexicon, exportEntries, List.mem_map] at h
  obtain ⟨w, hw, rfl⟩ := h
  refine ⟨w, hw, rfl, ?_, rfl⟩
  have := C04_inside w hw
  exact this
where
  C04_inside (w : WordData) (hw : w ∈ findEntries db none [] none [row.rowid] false true) : w.lex = row.rowid := by
    unfold findEntries at hw
    simp only [List.mem_filterMap] at hw
    obtain ⟨e, he, hx⟩ := hw
    rw [mem_sortBy] at he
    simp only [List.mem_filter, Bool.and_eq_true] at he
    have hl := he.2.2
    simp [inLexOrAll] at hl
    split at hx
    · simp at hx
    · simp at hx; subst hx; exact hl

/-- ILI encoding: a synset with an ILI is exported with that ILI; one with only a proposed ILI
with `ili="in"`; one with neither with the empty string -/
theorem C03_ili_encoding (db : Db) (lexids : List Nat) (v11 : Bool) (s : Synset) (h : s ∈ exportSynsets db lexids v11) :
    ∃ y ∈ findSynsets db none [] none none lexids false true, s.id = y.id ∧
      s.ili = (match y.ili with
        | some i => if i != "" then i else (if (db.pilis.find? (fun p => p.synset == y.rowid)).isSome then "in" else "")
        | none => if (db.pilis.find? (fun p => p.synset == y.rowid)).isSome then "in" else "") := by
  simp only [exportSynsets, List.mem_map] at h
  obtain ⟨y, hy, rfl⟩ := h
  exact ⟨y, hy, rfl, rfl⟩

/-- a proposed ILI is exported even when it has no definition (`ili="in"` without ILIDefinition),
and with its definition and metadata when it has one -/
theorem C03_proposed_ili (db : Db) (lexids : List Nat) (v11 : Bool) (y : SynsetData)
    (hy : y ∈ findSynsets db none [] none none lexids false true) (hno : y.ili = none)
    (p : RPIli) (hp : db.pilis.find? (fun p => p.synset == y.rowid) = some p) :
    ∃ s ∈ exportSynsets db lexids v11, s.id = y.id ∧ s.ili = "in" ∧
      s.iliDef = (match p.definition with
        | some d => if d != "" then some { text := d, md := some (p.md.getD []) } else none
        | none => none) := by
  refine ⟨_, List.mem_map.mpr ⟨y, hy, rfl⟩, rfl, ?_, ?_⟩
  · simp [hno, hp]
  · simp only [hp, mdOrEmpty]
    cases p.definition <;> rfl

/-! ### sense ↔ frame links -/

/-- LMF 1.0 encoding: frame `f` lists sense `sid` exactly when the store links `sid` to a frame
with that text — no link is lost, none invented -/
theorem C03_frame_links_1_0 (db : Db) (lexids : List Nat) (senses : List Sense) (fr sid : String) :
    (∃ f ∈ exportFrames10 db lexids senses, f.frame = fr ∧ sid ∈ f.senses) ↔
      (∃ s ∈ senses, s.id = sid ∧ ∃ e ∈ sbMap db lexids sid, e.2 = fr) := by
  unfold exportFrames10
  simp only [List.mem_map]
  constructor
  · rintro ⟨f, ⟨fr', _, rfl⟩, rfl, hs⟩
    simp only at hs
    rw [mem_sortedSet] at hs
    simp only [List.mem_map, List.mem_filter, List.mem_flatMap] at hs
    obtain ⟨p, ⟨⟨s, hs1, e, he, rfl⟩, hp⟩, rfl⟩ := hs
    simp only [beq_iff_eq] at hp
    exact ⟨s, hs1, rfl, e, he, hp⟩
  · rintro ⟨s, hs, rfl, e, he, rfl⟩
    have hpair : (e.2, s.id) ∈ senses.flatMap (fun s => (sbMap db lexids s.id).map (fun e => (e.2, s.id))) := by
      simp only [List.mem_flatMap, List.mem_map]
      exact ⟨s, hs, e, he, rfl⟩
    obtain ⟨k, hk, hkk⟩ := key_mem_dedupBy id ((senses.flatMap (fun s => (sbMap db lexids s.id).map (fun e => (e.2, s.id)))).map (·.1)) e.2
      (List.mem_map.mpr ⟨_, hpair, rfl⟩)
    simp only [id] at hkk
    refine ⟨_, ⟨k, hk, rfl⟩, hkk, ?_⟩
    simp only
    rw [mem_sortedSet]
    simp only [List.mem_map, List.mem_filter]
    exact ⟨(e.2, s.id), ⟨hpair, by simp [hkk]⟩, rfl⟩

/-- LMF ≥ 1.1 encoding: `subcat` of an exported sense is the sorted set of the ids of the frames
linked to it (frames without an id cannot be referenced: known finding F2-residual) -/
theorem C03_subcat_links (db : Db) (entry : Nat) (lexids : List Nat) (s : Sense) (h : s ∈ exportSenses db entry lexids true)
    (hne : (sbMap db lexids s.id).isEmpty = false) (fid : String) :
    fid ∈ s.subcat ↔ fid ≠ "" ∧ ∃ e ∈ sbMap db lexids s.id, e.1 = some fid := by
  simp only [exportSenses, List.mem_map] at h
  obtain ⟨sd, _, rfl⟩ := h
  simp only at hne ⊢
  simp only [hne, Bool.not_false, Bool.and_self, if_true]
  rw [mem_sortedSet]
  simp only [List.mem_filterMap]
  constructor
  · rintro ⟨e, he, hx⟩
    split at hx
    · rename_i i hi
      split at hx
      · rename_i hne'
        simp at hx; subst hx
        exact ⟨by simpa using hne', e, he, hi⟩
      · simp at hx
    · simp at hx
  · rintro ⟨hne', e, he, hi⟩
    refine ⟨e, he, ?_⟩
    simp [hi, hne']

/-! ### entries, lemmas and forms survive add → export (end to end) -/

/-- what an exported entry says about its word forms: id, lemma (written form, part of speech, script)
and the further forms (written form, id, script); absent script / id and the empty string are the
same thing for the exporter (`x or ''`) -/
def entryObs (e : Entry) : String × Option (String × String × String) × List (String × String × String) :=
  (e.id, e.lemma.map (fun l => (l.form, l.pos, l.script.getD "")),
   e.forms.map (fun f => (f.form, f.id.getD "", f.script.getD "")))

/-- the same for an entry of the added document (external forms are not part of the lexicon) -/
def docEntryObs (e : Entry) : String × Option (String × String × String) × List (String × String × String) :=
  (e.id, e.lemma.map (fun l => (l.form, l.pos, l.script.getD "")),
   (e.forms.filter (fun f => !f.external)).map (fun f => (f.form, f.id.getD "", f.script.getD "")))

def rho (o : String × String × List (String × Option String × Option String)) :
    String × Option (String × String × String) × List (String × String × String) :=
  (o.1, o.2.2.head?.map (fun f => (f.1, o.2.1, f.2.2.getD "")), (o.2.2.drop 1).map (fun f => (f.1, f.2.1.getD "", f.2.2.getD "")))

/-- **C03, entries slice, end to end**: add a plain lexicon, export it (any LMF version): the exported
entries are the document's entries, in order, with the same ids, lemmas (written form, part of
speech, script) and further forms (written form, id, script) -/
theorem C03_entries_round_trip (norm : String → String) (dr : Nat) (db db' : Db) (l : Lexicon) (v11 : Bool)
    (h : addLexicon norm dr db l = .ok db') (hext : l.ext = none) (hx : ∀ e ∈ l.entries, e.external = false)
    (hfkE : ∀ o ∈ db.entries, o.lex ∈ db.lexicons.map (·.rowid))
    (hfkF : ∀ f ∈ db.forms, f.entry ∈ db.entries.map (·.rowid)) :
    (exportEntries db' [nextId (db.lexicons.map (·.rowid))] v11).map entryObs = l.entries.map docEntryObs := by
  have hw := C01.C01_words_end_to_end norm dr db db' l h hext hx hfkE hfkF
  have hlem : ∀ e ∈ l.entries, e.lemma.isSome = true := by
    obtain ⟨c, rows, chunks, _, _, _, hR, _, _⟩ := C01.addLexicon_words_tables norm dr db db' l h hext hx
    intro e he
    obtain ⟨i, hi, rfl⟩ := List.mem_iff_getElem.mp he
    obtain ⟨_, _, _, lem, hl, _⟩ := hR.spec i hi (by rw [hR.len]; exact hi)
    rw [hl]; rfl
  unfold exportEntries
  rw [List.map_map]
  have e1 : ∀ w : WordData, (entryObs ∘ fun w : WordData =>
      ({ id := w.id,
         lemma := some (match w.forms.head? with
           | some f => { form := f.form, pos := w.pos, script := some (f.script.getD ""), tags := exportTags db' f.rowid,
                         prons := if v11 then exportProns db' f.rowid else [] }
           | none => {}),
         forms := (w.forms.drop 1).map (fun f =>
           { id := some (f.id.getD ""), form := f.form, script := some (f.script.getD ""), tags := exportTags db' f.rowid,
             prons := if v11 then exportProns db' f.rowid else [] }),
         senses := exportSenses db' w.rowid [nextId (db.lexicons.map (·.rowid))] v11,
         md := mdOrEmpty ((db'.entries.find? (fun e => e.rowid == w.rowid)).bind (·.md)),
         frames := if v11 then [] else exportFrames10 db' [nextId (db.lexicons.map (·.rowid))] (exportSenses db' w.rowid [nextId (db.lexicons.map (·.rowid))] v11) } : Entry)) w =
      if w.forms = [] then (w.id, some ("", "", ""), []) else rho (C01.obsWord w) := by
    intro w
    cases hf : w.forms with
    | nil => simp [entryObs, hf]
    | cons f t => simp [entryObs, rho, C01.obsWord, hf, List.map_map, Function.comp]
  have hne : ∀ w ∈ findEntries db' none [] none [nextId (db.lexicons.map (·.rowid))] false true, w.forms ≠ [] := by
    intro w hw'
    unfold findEntries at hw'
    simp only [List.mem_filterMap] at hw'
    obtain ⟨e, _, hx'⟩ := hw'
    split at hx'
    · simp at hx'
    · rename_i hn
      simp at hx'; subst hx'
      intro hemp
      apply hn
      simp only [List.map_eq_nil_iff] at hemp
      simp [hemp]
  have step1 : List.map (entryObs ∘ fun w : WordData =>
      ({ id := w.id,
         lemma := some (match w.forms.head? with
           | some f => { form := f.form, pos := w.pos, script := some (f.script.getD ""), tags := exportTags db' f.rowid,
                         prons := if v11 then exportProns db' f.rowid else [] }
           | none => {}),
         forms := (w.forms.drop 1).map (fun f =>
           { id := some (f.id.getD ""), form := f.form, script := some (f.script.getD ""), tags := exportTags db' f.rowid,
             prons := if v11 then exportProns db' f.rowid else [] }),
         senses := exportSenses db' w.rowid [nextId (db.lexicons.map (·.rowid))] v11,
         md := mdOrEmpty ((db'.entries.find? (fun e => e.rowid == w.rowid)).bind (·.md)),
         frames := if v11 then [] else exportFrames10 db' [nextId (db.lexicons.map (·.rowid))] (exportSenses db' w.rowid [nextId (db.lexicons.map (·.rowid))] v11) } : Entry))
      (findEntries db' none [] none [nextId (db.lexicons.map (·.rowid))] false true) =
      (findEntries db' none [] none [nextId (db.lexicons.map (·.rowid))] false true).map (rho ∘ C01.obsWord) := by
    apply List.map_congr_left
    intro w hw'
    rw [e1 w]
    simp [hne w hw']
  refine Eq.trans ?_ (Eq.trans (congrArg (List.map rho) hw) ?_)
  · rw [List.map_map]; exact step1
  · rw [List.map_map]
    apply List.map_congr_left
    intro e he
    have := hlem e he
    cases hl : e.lemma with
    | none => rw [hl] at this; cases this
    | some lem => simp [rho, C01.docWord, docEntryObs, hl, List.map_map, Function.comp]

/-- known finding F2-residual, stated on the model: when the frames linked to a sense carry no id
(entry-level frames of a 1.0 document), the ≥ 1.1 export has an empty `subcat` although the store
holds the links -/
theorem C03_frames_without_id_lose_links (db : Db) (entry : Nat) (lexids : List Nat) (s : Sense)
    (h : s ∈ exportSenses db entry lexids true) (hnoid : ∀ e ∈ sbMap db lexids s.id, e.1 = none) : s.subcat = [] := by
  simp only [exportSenses, List.mem_map] at h
  obtain ⟨sd, _, rfl⟩ := h
  simp only at hnoid ⊢
  split
  · apply List.eq_nil_iff_forall_not_mem.mpr
    intro fid hfid
    rw [mem_sortedSet] at hfid
    simp only [List.mem_filterMap] at hfid
    obtain ⟨e, he, hx⟩ := hfid
    rw [hnoid e he] at hx
    simp at hx
  · rfl

end WnVerif.Props.C03
