import WnVerif.Model.Export
namespace WnVerif.Props.C03
theorem placeholder_true : True := trivial
end WnVerif.Props.C03
