/-
C03 — exporting a database and re-importing it preserves the lexicons.
Theorems over `Model/Export.lean` (`_export.py`) and its composition with `_insert_lexicon`
(`Model/Add.lean`).  The full statement export ∘ add ≃ id is decided by correspondence and the
document-level oracle; proved here: lexicon attributes and dependencies survive add-then-export,
ILI / proposed-ILI encoding, sense-frame links in both encodings, selection.
-/
import WnVerif.Model.Export
import WnVerif.Model.Add
import WnVerif.Lemmas.DbAux
import WnVerif.Lemmas.Sorted
import WnVerif.Props.C01
namespace WnVerif.Props.C03
open WnVerif.Db WnVerif.Doc

/-- `x or ''` / `x or None`: absent and empty are the same for optional attributes -/
def optEq (a b : Option String) : Prop := a.getD "" = b.getD ""

/-- exporting the row written by `_insert_lexicon` gives back the document's lexicon attributes
(optional ones modulo absent = empty) and its metadata (absent = empty dict) -/
theorem C03_lexicon_attributes (db db' : Db) (l : Lexicon) (lexid extid : Nat) (v : String)
    (h : insertLexicon db l = .ok (db', lexid, extid)) :
    ∃ row ∈ db'.lexicons, row.rowid = lexid ∧
      let x := exportLexicon db' row v
      x.id = l.id ∧ x.version = l.version ∧ x.label = l.label ∧ x.language = l.language ∧ x.email = l.email ∧
      x.license = l.license ∧ optEq x.url l.url ∧ optEq x.citation l.citation ∧
      (Lmf.atLeast11 v = true → optEq x.logo l.logo) ∧ x.md = some (l.md.getD []) := by
  obtain ⟨hrows, _, _⟩ := C01.C01_lexicon_row db db' l lexid extid h
  refine ⟨⟨lexid, l.id, l.label, l.language, l.email, l.license, l.version, l.url, l.citation, l.logo, l.md⟩, by rw [hrows]; simp, rfl, ?_⟩
  simp only [exportLexicon, optEq, Option.getD_some, mdOrEmpty, true_and, and_true]
  intro hv; simp [hv]

/-- dependencies (LMF ≥ 1.1): exactly the dependency rows of the lexicon, in insertion order, with
the declared id, version and url (not the provider's) -/
theorem C03_dependencies (db : Db) (row : RLexicon) (v : String) (hv : Lmf.atLeast11 v = true) :
    (exportLexicon db row v).requires =
      (db.deps.filter (fun d => d.dependent == row.rowid)).map (fun d => { id := d.pid, version := d.pver, url := d.purl }) := by
  simp [exportLexicon, hv]

/-- … and after `_insert_lexicon` into a store holding no dependency rows for the fresh rowid these
are the document's `Requires`, in order -/
theorem C03_dependencies_round_trip (db db' : Db) (l : Lexicon) (lexid extid : Nat)
    (h : insertLexicon db l = .ok (db', lexid, extid)) (hclean : ∀ d ∈ db.deps, d.dependent ≠ lexid) :
    (db'.deps.filter (fun d => d.dependent == lexid)).map (fun d => ({ id := d.pid, version := d.pver, url := d.purl } : Dep)) = l.requires := by
  have key : ∀ (deps0 : List RDep) (new : List RDep), (∀ d ∈ deps0, d.dependent ≠ lexid) → (∀ d ∈ new, d.dependent = lexid) →
      (deps0 ++ new).filter (fun d => d.dependent == lexid) = new := by
    intro deps0 new h0 h1
    rw [List.filter_append]
    have e0 : deps0.filter (fun d => d.dependent == lexid) = [] := by
      rw [List.filter_eq_nil_iff]; intro d hd; simpa using h0 d hd
    have e1 : new.filter (fun d => d.dependent == lexid) = new := by
      rw [List.filter_eq_self]; intro d hd; simpa using h1 d hd
    rw [e0, e1]; rfl
  have relinked : ∀ d ∈ db.deps.map (fun d => if d.pid == l.id && d.pver == l.version then { d with provider := some lexid } else d), d.dependent ≠ lexid := by
    intro d hd
    obtain ⟨d0, hd0, rfl⟩ := List.mem_map.mp hd
    have := hclean d0 hd0
    split <;> simpa using this
  unfold insertLexicon at h
  simp only [bind, Except.bind, pure, Except.pure] at h
  split at h
  · simp [throw, throwThe, MonadExcept.throw] at h
  · split at h
    · split at h
      · simp at h
      · simp only [Except.ok.injEq, Prod.mk.injEq] at h
        obtain ⟨h1, h2, _⟩ := h
        subst h1 h2
        simp only
        rw [key _ _ relinked (by intro d hd; obtain ⟨x, _, rfl⟩ := List.mem_map.mp hd; rfl)]
        rw [List.map_map]
        conv => rhs; rw [← List.map_id l.requires]
        apply List.map_congr_left
        intro d _; rfl
    · simp only [Except.ok.injEq, Prod.mk.injEq] at h
      obtain ⟨h1, h2, _⟩ := h
      subst h1 h2
      simp only
      rw [key _ _ relinked (by intro d hd; obtain ⟨x, _, rfl⟩ := List.mem_map.mp hd; rfl)]
      rw [List.map_map]
      conv => rhs; rw [← List.map_id l.requires]
      apply List.map_congr_left
      intro d _; rfl

/-- only the selected lexicon's own entries and synsets are exported -/
theorem C03_exports_own_entries (db : Db) (row : RLexicon) (v : String) (e : Entry)
    (h : e ∈ (exportLexicon db row v).entries) :
    ∃ w ∈ findEntries db none [] none [row.rowid] false true, e.id = w.id ∧ w.lex = row.rowid ∧ e.external = false := by
  simp only [exportLexicon, exportEntries, List.mem_map] at h
  obtain ⟨w, hw, rfl⟩ := h
  refine ⟨w, hw, rfl, ?_, rfl⟩
  have := C04_inside w hw
  exact this
where
  C04_inside (w : WordData) (hw : w ∈ findEntries db none [] none [row.rowid] false true) : w.lex = row.rowid := by
    unfold findEntries at hw
    simp only [List.mem_filterMap] at hw
    obtain ⟨e, he, hx⟩ := hw
    rw [mem_sortBy] at he
    simp only [List.mem_filter, Bool.and_eq_true] at he
    have hl := he.2.2
    simp [inLexOrAll] at hl
    split at hx
    · simp at hx
    · simp at hx; subst hx; exact hl

/-- ILI encoding: a synset with an ILI is exported with that ILI; one with only a proposed ILI
with `ili="in"`; one with neither with the empty string -/
theorem C03_ili_encoding (db : Db) (lexids : List Nat) (v11 : Bool) (s : Synset) (h : s ∈ exportSynsets db lexids v11) :
    ∃ y ∈ findSynsets db none [] none none lexids false true, s.id = y.id ∧
      s.ili = (match y.ili with
        | some i => if i != "" then i else (if (db.pilis.find? (fun p => p.synset == y.rowid)).isSome then "in" else "")
        | none => if (db.pilis.find? (fun p => p.synset == y.rowid)).isSome then "in" else "") := by
  simp only [exportSynsets, List.mem_map] at h
  obtain ⟨y, hy, rfl⟩ := h
  exact ⟨y, hy, rfl, rfl⟩

/-- a proposed ILI is exported even when it has no definition (`ili="in"` without ILIDefinition),
and with its definition and metadata when it has one -/
theorem C03_proposed_ili (db : Db) (lexids : List Nat) (v11 : Bool) (y : SynsetData)
    (hy : y ∈ findSynsets db none [] none none lexids false true) (hno : y.ili = none)
    (p : RPIli) (hp : db.pilis.find? (fun p => p.synset == y.rowid) = some p) :
    ∃ s ∈ exportSynsets db lexids v11, s.id = y.id ∧ s.ili = "in" ∧
      s.iliDef = (match p.definition with
        | some d => if d != "" then some { text := d, md := some (p.md.getD []) } else none
        | none => none) := by
  refine ⟨_, List.mem_map.mpr ⟨y, hy, rfl⟩, rfl, ?_, ?_⟩
  · simp [hno, hp]
  · simp only [hp, mdOrEmpty]
    cases p.definition <;> rfl

/-! ### sense ↔ frame links -/

/-- LMF 1.0 encoding: frame `f` lists sense `sid` exactly when the store links `sid` to a frame
with that text — no link is lost, none invented -/
theorem C03_frame_links_1_0 (db : Db) (lexids : List Nat) (senses : List Sense) (fr sid : String) :
    (∃ f ∈ exportFrames10 db lexids senses, f.frame = fr ∧ sid ∈ f.senses) ↔
      (∃ s ∈ senses, s.id = sid ∧ ∃ e ∈ sbMap db lexids sid, e.2 = fr) := by
  unfold exportFrames10
  simp only [List.mem_map]
  constructor
  · rintro ⟨f, ⟨fr', _, rfl⟩, rfl, hs⟩
    simp only at hs
    rw [mem_sortedSet] at hs
    simp only [List.mem_map, List.mem_filter, List.mem_flatMap] at hs
    obtain ⟨p, ⟨⟨s, hs1, e, he, rfl⟩, hp⟩, rfl⟩ := hs
    simp only [beq_iff_eq] at hp
    exact ⟨s, hs1, rfl, e, he, hp⟩
  · rintro ⟨s, hs, rfl, e, he, rfl⟩
    have hpair : (e.2, s.id) ∈ senses.flatMap (fun s => (sbMap db lexids s.id).map (fun e => (e.2, s.id))) := by
      simp only [List.mem_flatMap, List.mem_map]
      exact ⟨s, hs, e, he, rfl⟩
    obtain ⟨k, hk, hkk⟩ := key_mem_dedupBy id ((senses.flatMap (fun s => (sbMap db lexids s.id).map (fun e => (e.2, s.id)))).map (·.1)) e.2
      (List.mem_map.mpr ⟨_, hpair, rfl⟩)
    simp only [id] at hkk
    refine ⟨_, ⟨k, hk, rfl⟩, hkk, ?_⟩
    simp only
    rw [mem_sortedSet]
    simp only [List.mem_map, List.mem_filter]
    exact ⟨(e.2, s.id), ⟨hpair, by simp [hkk]⟩, rfl⟩

/-- LMF ≥ 1.1 encoding: `subcat` of an exported sense is the sorted set of the ids of the frames
linked to it (frames without an id cannot be referenced: known finding F2-residual) -/
theorem C03_subcat_links (db : Db) (entry : Nat) (lexids : List Nat) (s : Sense) (h : s ∈ exportSenses db entry lexids true)
    (hne : (sbMap db lexids s.id).isEmpty = false) (fid : String) :
    fid ∈ s.subcat ↔ fid ≠ "" ∧ ∃ e ∈ sbMap db lexids s.id, e.1 = some fid := by
  simp only [exportSenses, List.mem_map] at h
  obtain ⟨sd, _, rfl⟩ := h
  simp only at hne ⊢
  simp only [hne, Bool.not_false, Bool.and_self, if_true]
  rw [mem_sortedSet]
  simp only [List.mem_filterMap]
  constructor
  · rintro ⟨e, he, hx⟩
    split at hx
    · rename_i i hi
      split at hx
      · rename_i hne'
        simp at hx; subst hx
        exact ⟨by simpa using hne', e, he, hi⟩
      · simp at hx
    · simp at hx
  · rintro ⟨hne', e, he, hi⟩
    refine ⟨e, he, ?_⟩
    simp [hi, hne']

/-! ### entries, lemmas and forms survive add → export (end to end) -/

/-- what an exported entry says about its word forms: id, lemma (written form, part of speech, script)
and the further forms (written form, id, script); absent script / id and the empty string are the
same thing for the exporter (`x or ''`) -/
def entryObs (e : Entry) : String × Option (String × String × String) × List (String × String × String) :=
  (e.id, e.lemma.map (fun l => (l.form, l.pos, l.script.getD "")),
   e.forms.map (fun f => (f.form, f.id.getD "", f.script.getD "")))

/-- the same for an entry of the added document (external forms are not part of the lexicon) -/
def docEntryObs (e : Entry) : String × Option (String × String × String) × List (String × String × String) :=
  (e.id, e.lemma.map (fun l => (l.form, l.pos, l.script.getD "")),
   (e.forms.filter (fun f => !f.external)).map (fun f => (f.form, f.id.getD "", f.script.getD "")))

def rho (o : String × String × List (String × Option String × Option String)) :
    String × Option (String × String × String) × List (String × String × String) :=
  (o.1, o.2.2.head?.map (fun f => (f.1, o.2.1, f.2.2.getD "")), (o.2.2.drop 1).map (fun f => (f.1, f.2.1.getD "", f.2.2.getD "")))

/-- **C03, entries slice, end to end**: add a plain lexicon, export it (any LMF version): the exported
entries are the document's entries, in order, with the same ids, lemmas (written form, part of
speech, script) and further forms (written form, id, script) -/
theorem C03_entries_round_trip (norm : String → String) (dr : Nat) (db db' : Db) (l : Lexicon) (v11 : Bool)
    (h : addLexicon norm dr db l = .ok db') (hext : l.ext = none) (hx : ∀ e ∈ l.entries, e.external = false)
    (hfkE : ∀ o ∈ db.entries, o.lex ∈ db.lexicons.map (·.rowid))
    (hfkF : ∀ f ∈ db.forms, f.entry ∈ db.entries.map (·.rowid)) :
    (exportEntries db' [nextId (db.lexicons.map (·.rowid))] v11).map entryObs = l.entries.map docEntryObs := by
  have hw := C01.C01_words_end_to_end norm dr db db' l h hext hx hfkE hfkF
  have hlem : ∀ e ∈ l.entries, e.lemma.isSome = true := by
    obtain ⟨c, rows, chunks, _, _, _, hR, _, _⟩ := C01.addLexicon_words_tables norm dr db db' l h hext hx
    intro e he
    obtain ⟨i, hi, rfl⟩ := List.mem_iff_getElem.mp he
    obtain ⟨_, _, _, lem, hl, _⟩ := hR.spec i hi (by rw [hR.len]; exact hi)
    rw [hl]; rfl
  unfold exportEntries
  rw [List.map_map]
  have e1 : ∀ w : WordData, (entryObs ∘ fun w : WordData =>
      ({ id := w.id,
         lemma := some (match w.forms.head? with
           | some f => { form := f.form, pos := w.pos, script := some (f.script.getD ""), tags := exportTags db' f.rowid,
                         prons := if v11 then exportProns db' f.rowid else [] }
           | none => {}),
         forms := (w.forms.drop 1).map (fun f =>
           { id := some (f.id.getD ""), form := f.form, script := some (f.script.getD ""), tags := exportTags db' f.rowid,
             prons := if v11 then exportProns db' f.rowid else [] }),
         senses := exportSenses db' w.rowid [nextId (db.lexicons.map (·.rowid))] v11,
         md := mdOrEmpty ((db'.entries.find? (fun e => e.rowid == w.rowid)).bind (·.md)),
         frames := if v11 then [] else exportFrames10 db' [nextId (db.lexicons.map (·.rowid))] (exportSenses db' w.rowid [nextId (db.lexicons.map (·.rowid))] v11) } : Entry)) w =
      if w.forms = [] then (w.id, some ("", "", ""), []) else rho (C01.obsWord w) := by
    intro w
    cases hf : w.forms with
    | nil => simp [entryObs, hf]
    | cons f t => simp [entryObs, rho, C01.obsWord, hf, List.map_map, Function.comp]
  have hne : ∀ w ∈ findEntries db' none [] none [nextId (db.lexicons.map (·.rowid))] false true, w.forms ≠ [] := by
    intro w hw'
    unfold findEntries at hw'
    simp only [List.mem_filterMap] at hw'
    obtain ⟨e, _, hx'⟩ := hw'
    split at hx'
    · simp at hx'
    · rename_i hn
      simp at hx'; subst hx'
      intro hemp
      apply hn
      simp only [List.map_eq_nil_iff] at hemp
      simp [hemp]
  have step1 : List.map (entryObs ∘ fun w : WordData =>
      ({ id := w.id,
         lemma := some (match w.forms.head? with
           | some f => { form := f.form, pos := w.pos, script := some (f.script.getD ""), tags := exportTags db' f.rowid,
                         prons := if v11 then exportProns db' f.rowid else [] }
           | none => {}),
         forms := (w.forms.drop 1).map (fun f =>
           { id := some (f.id.getD ""), form := f.form, script := some (f.script.getD ""), tags := exportTags db' f.rowid,
             prons := if v11 then exportProns db' f.rowid else [] }),
         senses := exportSenses db' w.rowid [nextId (db.lexicons.map (·.rowid))] v11,
         md := mdOrEmpty ((db'.entries.find? (fun e => e.rowid == w.rowid)).bind (·.md)),
         frames := if v11 then [] else exportFrames10 db' [nextId (db.lexicons.map (·.rowid))] (exportSenses db' w.rowid [nextId (db.lexicons.map (·.rowid))] v11) } : Entry))
      (findEntries db' none [] none [nextId (db.lexicons.map (·.rowid))] false true) =
      (findEntries db' none [] none [nextId (db.lexicons.map (·.rowid))] false true).map (rho ∘ C01.obsWord) := by
    apply List.map_congr_left
    intro w hw'
    rw [e1 w]
    simp [hne w hw']
  refine Eq.trans ?_ (Eq.trans (congrArg (List.map rho) hw) ?_)
  · rw [List.map_map]; exact step1
  · rw [List.map_map]
    apply List.map_congr_left
    intro e he
    have := hlem e he
    cases hl : e.lemma with
    | none => rw [hl] at this; cases this
    | some lem => simp [rho, C01.docWord, docEntryObs, hl, List.map_map, Function.comp]

/-- known finding F2-residual, stated on the model: when the frames linked to a sense carry no id
(entry-level frames of a 1.0 document), the ≥ 1.1 export has an empty `subcat` although the store
holds the links -/
theorem C03_frames_without_id_lose_links (db : Db) (entry : Nat) (lexids : List Nat) (s : Sense)
    (h : s ∈ exportSenses db entry lexids true) (hnoid : ∀ e ∈ sbMap db lexids s.id, e.1 = none) : s.subcat = [] := by
  simp only [exportSenses, List.mem_map] at h
  obtain ⟨sd, _, rfl⟩ := h
  simp only at hnoid ⊢
  split
  · apply List.eq_nil_iff_forall_not_mem.mpr
    intro fid hfid
    rw [mem_sortedSet] at hfid
    simp only [List.mem_filterMap] at hfid
    obtain ⟨e, he, hx⟩ := hfid
    rw [hnoid e he] at hx
    simp at hx
  · rfl

open WnVerif WnVerif.Props.C01

/-! ### synsets: relations, definitions and examples survive add-then-export -/

/-- in `old ++ rows`, where no old row belongs to lexicon `lexid` and the new rows have pairwise
distinct ids, the (id, lexicon) look-up of a new row finds that row -/
theorem find_new_row (old rows : List RSynset) (lexid : Nat) (hold : ∀ o ∈ old, o.lex ≠ lexid)
    (hnew : ∀ r ∈ rows, r.lex = lexid) (hd : (rows.map (·.id)).Nodup) (r : RSynset) (hr : r ∈ rows) :
    synsetRowY' (old ++ rows) r.id lexid = some r.rowid := by
  unfold synsetRowY'
  rw [List.find?_append]
  have e1 : old.find? (fun x => x.id == r.id && x.lex == lexid) = none := by
    rw [List.find?_eq_none]
    intro o ho
    have := hold o ho
    simp [this]
  rw [e1, Option.none_or]
  have : rows.find? (fun x => x.id == r.id && x.lex == lexid) = some r := by
    induction rows with
    | nil => simp at hr
    | cons a t ih =>
      simp only [List.map_cons, List.nodup_cons] at hd
      rcases List.mem_cons.mp hr with rfl | hr'
      · simp [hnew r List.mem_cons_self]
      · have hne : a.id ≠ r.id := fun e => hd.1 (List.mem_map.mpr ⟨r, hr', e.symm⟩)
        simp only [List.find?_cons]
        have : (a.id == r.id && a.lex == lexid) = false := by simp [hne]
        rw [this]
        exact ih (fun x hx => hnew x (List.mem_cons_of_mem _ hx)) hd.2 hr'
  rw [this]; rfl

theorem Forall2.map_eq_mem {α β γ} {R : α → β → Prop} (p : β → γ) (q : α → γ) :
    ∀ {l : List α} {l' : List β}, Forall2 R l l' → (∀ a ∈ l, ∀ b ∈ l', R a b → p b = q a) → l'.map p = l.map q := by
  intro l l' h
  induction h with
  | nil => intro _; rfl
  | cons h0 _ ih =>
    intro hpq
    simp only [List.map_cons]
    rw [hpq _ List.mem_cons_self _ List.mem_cons_self h0,
      ih (fun a ha b hb hr => hpq a (List.mem_cons_of_mem _ ha) b (List.mem_cons_of_mem _ hb) hr)]

def synChildrenObs (s : Synset) : String × List (String × String × Option Meta) × List (String × Option String) × List (String × Option String × Option Meta) :=
  (s.id, s.relations.map docRel, s.definitions.map (fun d => (d.text, d.language)), s.examples.map (fun x => (x.text, x.language, x.md)))

def docSynChildrenObs (s : Synset) : String × List (String × String × Option Meta) × List (String × Option String) × List (String × Option String × Option Meta) :=
  (s.id, dedupBy id (s.relations.map docRel), s.definitions.map (fun d => (d.text, d.language)),
   s.examples.map (fun x => (x.text, x.language, mdOrEmpty x.md)))

/-- **C03, synsets with their relations, definitions and examples, end to end**: add a plain lexicon
whose synset ids are pairwise distinct, export it (any version): the exported synsets are the
document's, in order, each with exactly its relations (type, target id, metadata; exact duplicates
once), its definitions (text, language) and its examples (text, language, metadata with the empty
dictionary for none) in document order -/
theorem C03_synset_children_round_trip (norm : String → String) (dr : Nat) (db db' : Db) (l : Lexicon) (v11 : Bool)
    (h : addLexicon norm dr db l = .ok db') (hext : l.ext = none) (hx : ∀ ss ∈ l.synsets, ss.external = false)
    (hids : (l.synsets.map (·.id)).Nodup)
    (hfkY : ∀ o ∈ db.synsets, o.lex ∈ db.lexicons.map (·.rowid))
    (hfkR : ∀ o ∈ db.synrels, o.lex ∈ db.lexicons.map (·.rowid))
    (hfkD : ∀ o ∈ db.defs, o.lex ∈ db.lexicons.map (·.rowid))
    (hfkX : ∀ o ∈ db.synexs, o.lex ∈ db.lexicons.map (·.rowid))
    (hnY : (db.synsets.map (·.rowid)).Nodup) (hnI : (db.ilis.map (·.rowid)).Nodup) (hnT : (db.reltypes.map (·.1)).Nodup) :
    (exportSynsets db' [nextId (db.lexicons.map (·.rowid))] v11).map synChildrenObs = l.synsets.map docSynChildrenObs := by
  obtain ⟨t⟩ := addLexicon_split norm dr db db' l h
  obtain ⟨_, _, hlexid0, hextid⟩ := insertLexicon_frame _ _ _ _ _ t.hlex
  have hlexid : t.lexid = nextId (db.lexicons.map (·.rowid)) := hlexid0
  obtain ⟨_, g2, _⟩ := insertLexicon_frame2 _ _ _ _ _ t.hlex
  have k1 := insertLexicon_keeps_rels _ _ _ _ _ t.hlex
  have hlid : ∀ i, t.ctx.lid i = t.lexid := by
    intro i
    unfold Ctx.lid AddTrace.ctx
    simp [hextid hext]
  have hloc : localSynsets l = l.synsets := by
    unfold localSynsets
    rw [List.filter_eq_self]
    intro ss hss
    simp [hx ss hss]
  -- the synsets table
  obtain ⟨_, hY, _⟩ := addLexicon_synrel_table t
  have hd1i : t.d1.ilis = db.ilis := by
    have h := t.hlex
    unfold insertLexicon at h
    simp only [bind, Except.bind, pure, Except.pure] at h
    split at h
    · simp [throw, throwThe, MonadExcept.throw] at h
    · split at h
      · split at h
        · simp at h
        · simp only [Except.ok.injEq, Prod.mk.injEq] at h
          obtain ⟨h, _, _⟩ := h; rw [← h]; rfl
      · simp only [Except.ok.injEq, Prod.mk.injEq] at h
        obtain ⟨h, _, _⟩ := h; rw [← h]; rfl
  obtain ⟨rows, hrowsE, hrows⟩ := insertSynsets_rows t.d1 t.d2 l _ t.hsyn (by rw [hd1i]; exact hnI)
  rw [hloc] at hrows
  have hsyn : db'.synsets = db.synsets ++ rows := by rw [hY, hrowsE, g2]; rfl
  have hold : ∀ o ∈ db.synsets, o.lex ≠ t.lexid := by
    intro o ho e
    have := hfkY o ho
    rw [e, hlexid] at this
    exact nextId_not_mem _ this
  have hnewlex : ∀ r ∈ rows, r.lex = t.lexid := Forall2.forall_right (fun _ _ hr => hr.2.1) hrows
  have hrid : rows.map (·.id) = l.synsets.map (·.id) :=
    Forall2.map_eq (fun r : RSynset => r.id) (fun ss : Synset => ss.id) (fun _ _ hr => hr.1) hrows
  have hdist : (rows.map (·.id)).Nodup := by rw [hrid]; exact hids
  -- what `synsets()` of the new lexicon lists
  have hfind : findSynsets db' none [] none none [t.lexid] false true = rows.map (synsetData db') := by
    unfold findSynsets
    simp only [List.isEmpty_nil, if_true]
    congr 1
    rw [hsyn, List.filter_append]
    have e1 : db.synsets.filter (fun ss => true && true && true && inLexOrAll [t.lexid] ss.lex) = [] := by
      rw [List.filter_eq_nil_iff]
      intro o ho
      simp [inLexOrAll, hold o ho]
    have e2 : rows.filter (fun ss => true && true && true && inLexOrAll [t.lexid] ss.lex) = rows := by
      rw [List.filter_eq_self]
      intro r hr
      simp [inLexOrAll, hnewlex r hr]
    simpa using (by rw [e1, e2, List.nil_append] :
      db.synsets.filter (fun ss => true && true && true && inLexOrAll [t.lexid] ss.lex) ++
        rows.filter (fun ss => true && true && true && inLexOrAll [t.lexid] ss.lex) = rows)
  rw [← hlexid]
  unfold exportSynsets
  rw [hfind, List.map_map, List.map_map]
  refine Forall2.map_eq_mem _ docSynChildrenObs hrows ?_
  intro ss hss r hrmem hr
  have hx0 : synsetRow db' ss.id (t.ctx.lid ss.id) = some r.rowid := by
    rw [hlid, ← hr.1]
    show synsetRowY' db'.synsets r.id t.lexid = some r.rowid
    rw [hsyn]
    exact find_new_row db.synsets rows t.lexid hold hnewlex hdist r hrmem
  have hrel := C01_synset_relations_end_to_end t hfkR hnY hnT ["*"] rfl ss.id r.rowid hx0
  have hdef := C01_definitions_end_to_end t hfkD hnY ss.id r.rowid hx0
  have hex := C01_synset_examples_end_to_end t hfkX hnY ss.id r.rowid hx0
  have hp1 : (synRelPairs l).filter (fun p => p.1.id == ss.id && t.ctx.lid p.2.target == t.lexid) = ss.relations.map (fun x => (ss, x)) := by
    have : (synRelPairs l).filter (fun p => p.1.id == ss.id && t.ctx.lid p.2.target == t.lexid) =
        (synRelPairs l).filter (fun p => p.1.id == ss.id) := by
      apply List.filter_congr
      intro p _
      simp [hlid]
    rw [this]
    exact pairs_filter_of_nodup (fun s : Synset => s.id) (fun s => s.relations) l.synsets hids ss hss
  have hp2 : (defPairs l).filter (fun p => p.1.id == ss.id) = ss.definitions.map (fun x => (ss, x)) :=
    pairs_filter_of_nodup (fun s : Synset => s.id) (fun s => s.definitions) l.synsets hids ss hss
  have hp3 : (synExPairs l).filter (fun p => p.1.id == ss.id) = ss.examples.map (fun x => (ss, x)) :=
    pairs_filter_of_nodup (fun s : Synset => s.id) (fun s => s.examples) l.synsets hids ss hss
  rw [hp1, List.map_map] at hrel
  rw [hp2, List.map_map] at hdef
  rw [hp3, List.map_map] at hex
  simp only [Function.comp, synChildrenObs, docSynChildrenObs, synsetData, List.map_map]
  refine Prod.ext hr.1 (Prod.ext ?_ (Prod.ext ?_ ?_))
  · exact hrel
  · exact hdef
  · have := congrArg (List.map (fun (o : String × Option String × Option Meta) => (o.1, o.2.1, mdOrEmpty o.2.2))) hex
    rw [List.map_map, List.map_map] at this
    exact this

/-! ### senses: relations, examples and counts survive add-then-export -/

theorem find_new_sense_row (old rows : List RSense) (lexid : Nat) (hold : ∀ o ∈ old, o.lex ≠ lexid)
    (hnew : ∀ r ∈ rows, r.lex = lexid) (hd : (rows.map (·.id)).Nodup) (r : RSense) (hr : r ∈ rows) :
    senseRowS' (old ++ rows) r.id lexid = some r.rowid := by
  unfold senseRowS'
  rw [List.find?_append]
  have e1 : old.find? (fun x => x.id == r.id && x.lex == lexid) = none := by
    rw [List.find?_eq_none]
    intro o ho
    have := hold o ho
    simp [this]
  rw [e1, Option.none_or]
  have : rows.find? (fun x => x.id == r.id && x.lex == lexid) = some r := by
    induction rows with
    | nil => simp at hr
    | cons a t ih =>
      simp only [List.map_cons, List.nodup_cons] at hd
      rcases List.mem_cons.mp hr with rfl | hr'
      · simp [hnew r List.mem_cons_self]
      · have hne : a.id ≠ r.id := fun e => hd.1 (List.mem_map.mpr ⟨r, hr', e.symm⟩)
        simp only [List.find?_cons]
        have : (a.id == r.id && a.lex == lexid) = false := by simp [hne]
        rw [this]
        exact ih (fun x hx => hnew x (List.mem_cons_of_mem _ hx)) hd.2 hr'
  rw [this]; rfl

/-- all `<Sense>` elements of the document, in order -/
def allSenses (l : Lexicon) : List Sense := l.entries.flatMap (·.senses)

theorem allSenseRels_eq (l : Lexicon) :
    allSenseRels l = ((allSenses l).flatMap (fun s => s.relations.map (fun r => (s, r)))).map (fun p => (p.1.id, p.2)) := by
  unfold allSenseRels allSenses
  rw [List.flatMap_assoc, List.map_flatMap]
  congr 1
  funext e
  rw [List.map_flatMap]
  congr 1
  funext s
  rw [List.map_map]
  rfl

theorem senseExPairs_eq (l : Lexicon) : senseExPairs l = (allSenses l).flatMap (fun s => s.examples.map (fun x => (s, x))) := by
  unfold senseExPairs allSenses
  rw [List.flatMap_assoc]

theorem countPairs_eq (l : Lexicon) : countPairs l = (allSenses l).flatMap (fun s => s.counts.map (fun x => (s, x))) := by
  unfold countPairs allSenses
  rw [List.flatMap_assoc]

/-- the relations listed under one sense id, when sense ids are pairwise distinct -/
theorem allSenseRels_filter (l : Lexicon) (hn : ((allSenses l).map (·.id)).Nodup) (s : Sense) (hs : s ∈ allSenses l) :
    (allSenseRels l).filter (fun p => p.1 == s.id) = s.relations.map (fun r => (s.id, r)) := by
  rw [allSenseRels_eq, List.filter_map]
  have := pairs_filter_of_nodup (fun x : Sense => x.id) (fun x => x.relations) (allSenses l) hn s hs
  have e : (fun p : String × Relation => p.1 == s.id) ∘ (fun p : Sense × Relation => (p.1.id, p.2)) = fun p => p.1.id == s.id := rfl
  rw [e, this, List.map_map]
  rfl

def senseChildrenObs (s : Sense) : String × String × List (String × String × Option Meta) × List (String × Option String × Option Meta) × List (Int × Option Meta) :=
  (s.id, s.synset, s.relations.map docRel, s.examples.map (fun x => (x.text, x.language, x.md)), s.counts.map (fun c => (c.value, c.md)))

def docSenseChildrenObs (l : Lexicon) (s : Sense) : String × String × List (String × String × Option Meta) × List (String × Option String × Option Meta) × List (Int × Option Meta) :=
  (s.id, s.synset,
   dedupBy id ((s.relations.filter (fun r => ((allSenses l).map (·.id)).contains r.target)).map docRel) ++
   dedupBy id ((s.relations.filter (fun r => !((allSenses l).map (·.id)).contains r.target && (l.synsets.map (·.id)).contains r.target)).map docRel),
   s.examples.map (fun x => (x.text, x.language, mdOrEmpty x.md)), s.counts.map (fun c => (c.value, mdOrEmpty c.md)))

theorem senseIds_eq (l : Lexicon) : l.entries.flatMap (fun e => e.senses.map (·.id)) = (allSenses l).map (·.id) := by
  unfold allSenses
  rw [List.map_flatMap]

/-- what the export writes for one stored sense of the new lexicon -/
theorem export_sense_children {norm : String → String} {dr : Nat} {db db' : Db} {l : Lexicon}
    (t : AddTrace norm dr db db' l) (hlid : ∀ i, t.ctx.lid i = t.lexid)
    (hfkR : ∀ o ∈ db.senserels, o.lex ∈ db.lexicons.map (·.rowid))
    (hfkR2 : ∀ o ∈ db.sensesynrels, o.lex ∈ db.lexicons.map (·.rowid))
    (hfkS : ∀ o ∈ db.senses, o.lex ∈ db.lexicons.map (·.rowid))
    (hfkX : ∀ o ∈ db.sensexs, o.lex ∈ db.lexicons.map (·.rowid))
    (hfkC : ∀ o ∈ db.counts, o.lex ∈ db.lexicons.map (·.rowid))
    (hnS : (db.senses.map (·.rowid)).Nodup) (hnE : (db.entries.map (·.rowid)).Nodup)
    (hnY : (db.synsets.map (·.rowid)).Nodup) (hnT : (db.reltypes.map (·.1)).Nodup)
    (hsids : ((allSenses l).map (·.id)).Nodup)
    (s : Sense) (hs : s ∈ allSenses l) (x0 : Nat) (hx0 : senseRow db' s.id t.lexid = some x0) :
    (exportSenseRelations db' x0 [t.lexid]).map docRel =
      dedupBy id ((s.relations.filter (fun r => ((allSenses l).map (·.id)).contains r.target)).map docRel) ++
      dedupBy id ((s.relations.filter (fun r => !((allSenses l).map (·.id)).contains r.target && (l.synsets.map (·.id)).contains r.target)).map docRel) ∧
    (senseExamples db' x0 [t.lexid]).map (fun x => (x.text, x.language, x.md)) = s.examples.map (fun x => (x.text, x.language, x.md)) ∧
    (senseCounts db' x0 [t.lexid]).map (fun c => (c.value, c.md)) = s.counts.map (fun c => (c.value, c.md)) := by
  have hx0' : senseRow db' s.id (t.ctx.lid s.id) = some x0 := by rw [hlid]; exact hx0
  have h1 := C01_sense_relations_end_to_end t hfkR hfkS hnS hnE hnY hnT ["*"] rfl s.id x0 hx0'
  have h2 := C01_sense_synset_relations_end_to_end t hfkR2 hnS hnY hnT ["*"] rfl s.id x0 hx0'
  have h3 := C01_sense_examples_end_to_end t hfkX hnS s.id x0 hx0'
  have h4 := C01_counts_end_to_end t hfkC hnS s.id x0 hx0'
  have hall := allSenseRels_filter l hsids s hs
  refine ⟨?_, ?_, ?_⟩
  · unfold exportSenseRelations
    rw [List.map_append, List.map_map, List.map_map]
    have e1 : (senseRelPairs l).filter (fun p => p.1 == s.id && t.ctx.lid p.2.target == t.lexid) =
        (s.relations.filter (fun r => ((allSenses l).map (·.id)).contains r.target)).map (fun r => (s.id, r)) := by
      unfold senseRelPairs
      rw [List.filter_filter, senseIds_eq]
      have : (allSenseRels l).filter (fun p => (p.1 == s.id && t.ctx.lid p.2.target == t.lexid) && ((allSenses l).map (·.id)).contains p.2.target) =
          ((allSenseRels l).filter (fun p => p.1 == s.id)).filter (fun p => ((allSenses l).map (·.id)).contains p.2.target) := by
        rw [List.filter_filter]
        apply List.filter_congr
        intro p _
        simp [hlid, Bool.and_comm]
      rw [this, hall, List.filter_map]
      rfl
    have e2 : (senseSynRelPairs l).filter (fun p => p.1 == s.id && t.ctx.lid p.2.target == t.lexid) =
        (s.relations.filter (fun r => !((allSenses l).map (·.id)).contains r.target && (l.synsets.map (·.id)).contains r.target)).map (fun r => (s.id, r)) := by
      unfold senseSynRelPairs
      rw [List.filter_filter, senseIds_eq]
      have : (allSenseRels l).filter (fun p => (p.1 == s.id && t.ctx.lid p.2.target == t.lexid) &&
            (!((allSenses l).map (·.id)).contains p.2.target && (l.synsets.map (·.id)).contains p.2.target)) =
          ((allSenseRels l).filter (fun p => p.1 == s.id)).filter (fun p => !((allSenses l).map (·.id)).contains p.2.target && (l.synsets.map (·.id)).contains p.2.target) := by
        rw [List.filter_filter]
        apply List.filter_congr
        intro p _
        simp [hlid, Bool.and_comm]
      rw [this, hall, List.filter_map]
      rfl
    rw [e1, List.map_map] at h1
    rw [e2, List.map_map] at h2
    show List.map obsSenseRel (senseRelations db' x0 ["*"] [t.lexid]) ++ List.map obsSynRel (senseSynsetRelations db' x0 ["*"] [t.lexid]) = _
    rw [h1, h2]
    rfl
  · rw [h3, senseExPairs_eq, pairs_filter_of_nodup (fun x : Sense => x.id) (fun x => x.examples) (allSenses l) hsids s hs, List.map_map]
    rfl
  · rw [h4, countPairs_eq, pairs_filter_of_nodup (fun x : Sense => x.id) (fun x => x.counts) (allSenses l) hsids s hs, List.map_map]
    rfl

theorem zipIdx_map_fst {α} : ∀ (L : List α) (n : Nat), (L.zipIdx n).map (·.1) = L := by
  intro L
  induction L with
  | nil => intro n; rfl
  | cons a L ih => intro n; simp only [List.zipIdx_cons, List.map_cons, ih]

theorem flatMap_congr_mem {α β} (f g : α → List β) : ∀ (l : List α), (∀ a ∈ l, f a = g a) → l.flatMap f = l.flatMap g := by
  intro l
  induction l with
  | nil => intro _; rfl
  | cons a t ih =>
    intro h
    simp only [List.flatMap_cons]
    rw [h a List.mem_cons_self, ih (fun x hx => h x (List.mem_cons_of_mem _ hx))]

theorem sensePairs_ids (l : Lexicon) (hxs : ∀ s ∈ allSenses l, s.external = false) :
    (sensePairs l).map (fun p => p.2.1.id) = (allSenses l).map (·.id) := by
  unfold sensePairs allSenses
  rw [List.map_flatMap, List.map_flatMap]
  apply flatMap_congr_mem
  intro e he
  have hloc : localSenses e = e.senses := by
    unfold localSenses
    rw [List.filter_eq_self]
    intro s hs
    have := hxs s (List.mem_flatMap.mpr ⟨e, he, hs⟩)
    simp [this]
  rw [List.map_map, hloc]
  have : ((fun (p : Entry × (Sense × Nat)) => p.2.1.id) ∘ fun si => (e, si)) = (fun s : Sense => s.id) ∘ (fun si : Sense × Nat => si.1) := rfl
  rw [this, ← List.map_map, zipIdx_map_fst]

/-- **C03, senses with their relations, examples and counts, end to end**: add a plain lexicon whose
entry ids and sense ids are pairwise distinct, export it (any version): every exported entry lists
exactly its senses, in order, each with its id, its synset id, its relations (sense→sense relations
first, then sense→synset relations, as the export writes them; type, target id, metadata; exact
duplicates once), its examples and its counts -/
theorem C03_sense_children_round_trip (norm : String → String) (dr : Nat) (db db' : Db) (l : Lexicon) (v11 : Bool)
    (h : addLexicon norm dr db l = .ok db') (hext : l.ext = none) (hx : ∀ e ∈ l.entries, e.external = false)
    (hxs : ∀ s ∈ allSenses l, s.external = false)
    (hids : (l.entries.map (·.id)).Nodup) (hsids : ((allSenses l).map (·.id)).Nodup)
    (hfkE : ∀ o ∈ db.entries, o.lex ∈ db.lexicons.map (·.rowid))
    (hfkF : ∀ f ∈ db.forms, f.entry ∈ db.entries.map (·.rowid))
    (hfkS : ∀ o ∈ db.senses, o.lex ∈ db.lexicons.map (·.rowid))
    (hfkR : ∀ o ∈ db.senserels, o.lex ∈ db.lexicons.map (·.rowid))
    (hfkR2 : ∀ o ∈ db.sensesynrels, o.lex ∈ db.lexicons.map (·.rowid))
    (hfkX : ∀ o ∈ db.sensexs, o.lex ∈ db.lexicons.map (·.rowid))
    (hfkC : ∀ o ∈ db.counts, o.lex ∈ db.lexicons.map (·.rowid))
    (hnS : (db.senses.map (·.rowid)).Nodup) (hnE : (db.entries.map (·.rowid)).Nodup)
    (hnY : (db.synsets.map (·.rowid)).Nodup) (hnT : (db.reltypes.map (·.1)).Nodup) :
    (exportEntries db' [nextId (db.lexicons.map (·.rowid))] v11).map (fun e => (e.id, e.senses.map senseChildrenObs)) =
      l.entries.map (fun e => (e.id, e.senses.map (docSenseChildrenObs l))) := by
  obtain ⟨c, rows, chunks, hc1, hc2, hE, hR, hlen, hfind, hER⟩ := words_listing norm dr db db' l h hext hx hfkE hfkF
  obtain ⟨t⟩ := addLexicon_split norm dr db db' l h
  obtain ⟨_, _, hlexid0, hextid⟩ := insertLexicon_frame _ _ _ _ _ t.hlex
  have hlexid : t.lexid = nextId (db.lexicons.map (·.rowid)) := hlexid0
  have hct : c.lexid = t.lexid := by rw [hc1, hlexid]
  have hlid : ∀ i, t.ctx.lid i = t.lexid := by
    intro i
    unfold Ctx.lid AddTrace.ctx
    simp [hextid hext]
  rw [← hc1, hct]
  rw [hct] at hfind hER
  unfold exportEntries
  rw [hfind, List.map_map, List.map_map]
  apply List.ext_getElem
  · simp [hR.len, hlen]
  · intro i h1 h2
    simp only [List.getElem_map, List.getElem_zip, Function.comp, wordOf]
    have hi0 : i < l.entries.length := by simpa using h2
    have hi1 : i < rows.length := by rw [hR.len]; exact hi0
    obtain ⟨s1, _⟩ := hR.spec i hi0 hi1
    have he : l.entries[i] ∈ l.entries := List.getElem_mem hi0
    have her : entryRow db' (l.entries[i]).id (t.ctx.lid (l.entries[i]).id) = some (rows[i]).rowid := by
      rw [hlid]
      have := hER i hi0 hi1
      unfold entryRow
      rw [hE]
      exact this
    obtain ⟨srows, hsrows, hsnew, hsold, hsids', hF⟩ := entry_senses_listing t hfkS hnE hnY hids (l.entries[i]) he _ her
    have hloc : localSenses (l.entries[i]) = (l.entries[i]).senses := by
      unfold localSenses
      rw [List.filter_eq_self]
      intro s hs
      have := hxs s (List.mem_flatMap.mpr ⟨_, he, hs⟩)
      simp [this]
    rw [hloc] at hF
    have hsd : (srows.map (·.id)).Nodup := by rw [hsids', sensePairs_ids l hxs]; exact hsids
    refine Prod.ext s1 ?_
    simp only
    unfold exportSenses
    rw [List.map_map]
    refine Forall2.map_eq_mem _ (docSenseChildrenObs l) hF ?_
    intro s hs d _ ⟨d1, d2, r, hr, hrr, hri⟩
    have hsall : s ∈ allSenses l := List.mem_flatMap.mpr ⟨_, he, hs⟩
    have hx0 : senseRow db' s.id t.lexid = some d.rowid := by
      rw [← d1, ← hri, ← hrr]
      show senseRowS' db'.senses r.id t.lexid = some r.rowid
      rw [hsrows]
      exact find_new_sense_row db.senses srows t.lexid hsold hsnew hsd r hr
    obtain ⟨q1, q2, q3⟩ := export_sense_children t hlid hfkR hfkR2 hfkS hfkX hfkC hnS hnE hnY hnT hsids s hsall d.rowid hx0
    simp only [Function.comp, senseChildrenObs, docSenseChildrenObs, List.map_map]
    refine Prod.ext d1 (Prod.ext d2 (Prod.ext q1 (Prod.ext ?_ ?_)))
    · have := congrArg (List.map (fun (o : String × Option String × Option Meta) => (o.1, o.2.1, mdOrEmpty o.2.2))) q2
      rw [List.map_map, List.map_map] at this
      exact this
    · have := congrArg (List.map (fun (o : Int × Option Meta) => (o.1, mdOrEmpty o.2))) q3
      rw [List.map_map, List.map_map] at this
      exact this

end WnVerif.Props.C03
