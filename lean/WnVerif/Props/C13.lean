import WnVerif.Model.Graph
namespace WnVerif.Props.C13
open WnVerif.Graph

theorem placeholder_true : True := trivial

end WnVerif.Props.C13
