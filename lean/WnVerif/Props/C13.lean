/-
C13 — taxonomy functions agree with graph-theoretic definitions on any hypernym graph.

`g : Adj` is the hypernym relation of one lexicon (`get_related('hypernym',
'instance_hypernym')` per synset), nodes are `< n`; every theorem holds for all
such graphs, whatever their size, with or without cycles and self-loops.
Termination "on cycles" is part of the definitions: all model functions are
total (structural recursion on fuel `n + 1`), and `mem_relPaths` shows that this
fuel loses no path.
-/
import WnVerif.Lemmas.Paths
import WnVerif.Lemmas.Reach
import WnVerif.Lemmas.ListAux
namespace WnVerif.Props.C13
open WnVerif.Graph

/-- hypernym_paths(x) is exactly the set of maximal simple hypernym chains from x
(non-empty ones: a synset without hypernyms has no path). -/
theorem C13_paths (g : Adj) (n : Nat) (h : InRange g n) (x : Nat) (q : List N) :
    q ∈ hypPaths g (n + 1) (some x) false false ↔
      ∃ p, q = p.map some ∧ p ≠ [] ∧ MaximalSimpleChain g [x] x p := by
  simp only [hypPaths, Bool.false_and, Bool.false_eq_true, if_false, List.mem_map]
  constructor
  · rintro ⟨p, hp, rfl⟩
    exact ⟨p, rfl, (mem_relPaths g n h x p).mp hp⟩
  · rintro ⟨p, rfl, hp⟩
    exact ⟨p, (mem_relPaths g n h x p).mpr hp, rfl⟩

/-- no chain visits a synset twice, nor the start synset -/
theorem C13_paths_simple (g : Adj) (n : Nat) (h : InRange g n) (x : Nat) (p : List Nat)
    (hp : p ∈ relPaths g (n + 1) x) : (x :: p).Nodup :=
  relPaths_nodup_paths g n h x p hp

/-- with simulate_root every chain is continued to the fake root, and a synset
without hypernyms gets the single chain `[*ROOT*]` -/
theorem C13_paths_simulate_root (g : Adj) (fuel : Nat) (x : Nat) (q : List N) :
    q ∈ hypPaths g fuel (some x) true false ↔
      (∃ p ∈ hypPaths g fuel (some x) false false, q = p ++ [none]) ∨
      (hypPaths g fuel (some x) false false = [] ∧ q = [none]) := by
  simp only [hypPaths, Bool.false_and, Bool.false_eq_true, if_false, Bool.true_and]
  have hx : ((some x : N) != none) = true := by simp
  simp only [hx, if_true]
  split
  · rename_i he
    simp [List.isEmpty_iff] at he
    simp [he]
  · rename_i he
    simp [List.isEmpty_iff] at he
    simp [he]
    constructor
    · rintro ⟨a, ha, rfl⟩; exact ⟨a.map some, ⟨a, ha, rfl⟩, rfl⟩
    · rintro ⟨p, ⟨a, ha, rfl⟩, rfl⟩; exact ⟨a, ha, rfl⟩

/-- min_depth / max_depth are the shortest / longest of the chains (0 without chains) -/
theorem C13_min_depth (g : Adj) (fuel : Nat) (x : Nat) (sim : Bool) :
    (∀ p ∈ hypPaths g fuel (some x) sim false, minDepth g fuel x sim ≤ p.length) ∧
    (hypPaths g fuel (some x) sim false ≠ [] →
       ∃ p ∈ hypPaths g fuel (some x) sim false, p.length = minDepth g fuel x sim) ∧
    (hypPaths g fuel (some x) sim false = [] → minDepth g fuel x sim = 0) := by
  refine ⟨?_, ?_, ?_⟩
  · intro p hp
    exact listMin_le _ _ (List.mem_map_of_mem hp)
  · intro hne
    have := listMin_mem ((hypPaths g fuel (some x) sim false).map List.length) (by simpa using hne)
    simpa [minDepth] using this
  · intro he; simp [minDepth, he, listMin]

theorem C13_max_depth (g : Adj) (fuel : Nat) (x : Nat) (sim : Bool) :
    (∀ p ∈ hypPaths g fuel (some x) sim false, p.length ≤ maxDepth g fuel (some x) sim) ∧
    (hypPaths g fuel (some x) sim false ≠ [] →
       ∃ p ∈ hypPaths g fuel (some x) sim false, p.length = maxDepth g fuel (some x) sim) ∧
    (hypPaths g fuel (some x) sim false = [] → maxDepth g fuel (some x) sim = 0) := by
  refine ⟨?_, ?_, ?_⟩
  · intro p hp
    exact le_listMax _ _ (List.mem_map_of_mem hp)
  · intro hne
    have := listMax_mem ((hypPaths g fuel (some x) sim false).map List.length) (by simpa using hne)
    simpa [maxDepth] using this
  · intro he; simp [maxDepth, he, listMax]

/-- nodes occurring on the chains from `a` (with `a` itself) = the ancestor set of `a` -/
theorem mem_flatten_hypPaths (g : Adj) (n : Nat) (h : InRange g n) (a y : Nat) :
    (some y : N) ∈ (hypPaths g (n + 1) (some a) false true).flatten ↔ Reach g a y := by
  simp only [hypPaths, Bool.false_and, Bool.false_eq_true, if_false, if_true]
  constructor
  · intro hm
    split at hm
    · simp at hm; subst hm; exact Reach.refl _
    · simp only [List.mem_flatten, List.mem_map] at hm
      obtain ⟨l, ⟨l', ⟨p, hp, rfl⟩, rfl⟩, hy⟩ := hm
      rcases List.mem_cons.mp hy with hy | hy
      · simp at hy; subst hy; exact Reach.refl _
      · simp at hy
        obtain ⟨_, hc⟩ := (mem_relPaths g n h a p).mp hp
        exact chain_reach g p a hc.1 y hy
  · intro hr
    by_cases hya : y = a
    · subst hya
      split
      · simp
      · rename_i hne
        simp only [List.isEmpty_iff, List.map_eq_nil_iff] at hne
        obtain ⟨p, hp⟩ := List.exists_mem_of_ne_nil _ hne
        simp only [List.mem_flatten, List.mem_map]
        exact ⟨some y :: p.map some, ⟨p.map some, ⟨p, hp, rfl⟩, rfl⟩, by simp⟩
    · obtain ⟨p, hp, hy⟩ := reach_on_relPaths g n h hr hya
      have hne : ((relPaths g (n + 1) a).map (·.map some)).isEmpty = false := by
        simp [List.isEmpty_iff]; intro he; rw [he] at hp; simp at hp
      rw [hne]
      simp only [Bool.false_eq_true, if_false, List.mem_flatten, List.mem_map]
      exact ⟨some a :: p.map some, ⟨p.map some, ⟨p, hp, rfl⟩, rfl⟩, by simp [hy]⟩

/-- common_hypernyms(a, b) is the intersection of the two ancestor sets, each
including the synset itself -/
theorem C13_common (g : Adj) (n : Nat) (h : InRange g n) (a b y : Nat) :
    (some y : N) ∈ commonHypernyms g (n + 1) (some a) (some b) false ↔ Reach g a y ∧ Reach g b y := by
  simp only [commonHypernyms, commonOf, mem_sortN, List.mem_filter, mem_dedup,
    List.contains_iff_mem, mem_flatten_hypPaths g n h]

/-- without simulate_root the fake root is never reported -/
theorem C13_common_no_root (g : Adj) (fuel : Nat) (a b : Nat) :
    (none : N) ∉ commonHypernyms g fuel (some a) (some b) false := by
  simp only [commonHypernyms, commonOf, mem_sortN, List.mem_filter, mem_dedup]
  intro hm
  have : (none : N) ∉ (hypPaths g fuel (some a) false true).flatten := by
    simp only [hypPaths, Bool.false_and, Bool.false_eq_true, if_false, if_true]
    split <;> simp
  exact this hm.1

/-- lowest_common_hypernyms = the common hypernyms of greatest recorded depth -/
theorem C13_lowest (g : Adj) (fuel : Nat) (a b : N) (sim : Bool) (c : N) :
    c ∈ lowestCommonHypernyms g fuel a b sim ↔
      ∃ d, (c, d) ∈ (shortestHypPaths g fuel a b sim).map (·.1) ∧
        d = listMax ((shortestHypPaths g fuel a b sim).map (·.1.2)) := by
  unfold lowestCommonHypernyms
  cases hpm : shortestHypPaths g fuel a b sim with
  | nil => simp
  | cons e t =>
    simp only [List.mem_map, List.mem_filter]
    constructor
    · rintro ⟨x, ⟨hx, hd⟩, rfl⟩
      refine ⟨x.1.2, ⟨x, hx, rfl⟩, ?_⟩
      simpa using hd
    · rintro ⟨d, ⟨x, hx, hxe⟩, hd⟩
      refine ⟨x, ⟨hx, ?_⟩, ?_⟩
      · have : x.1.2 = d := by rw [hxe]
        simp [this, hd]
      · rw [hxe]

/-- the keys of the path map are exactly the common hypernyms (for distinct synsets) -/
theorem C13_pathmap_keys (g : Adj) (fuel : Nat) (a b : N) (sim : Bool) (hab : (a == b) = false) :
    (shortestHypPaths g fuel a b sim).map (·.1.1) = commonHypernyms g fuel a b sim := by
  simp [shortestHypPaths, hab, commonHypernyms, List.map_map, Function.comp_def]

/-- shortest_path(a, a) is empty -/
theorem C13_shortest_self (g : Adj) (fuel : Nat) (a : N) (sim : Bool) :
    shortestPath g fuel a a sim = some [] := by
  simp [shortestPath, shortestHypPaths]

/-- shortest_path raises exactly when the two synsets share no hypernym -/
theorem C13_error_iff_disjoint (g : Adj) (fuel : Nat) (a b : N) (sim : Bool) (hab : (a == b) = false) :
    shortestPath g fuel a b sim = none ↔ commonHypernyms g fuel a b sim = [] := by
  rw [← C13_pathmap_keys g fuel a b sim hab]
  unfold shortestPath
  cases shortestHypPaths g fuel a b sim with
  | nil => simp
  | cons e t => simp

/-- with simulate_root the fake root is always shared, so no error -/
theorem C13_simulate_root_connects (g : Adj) (fuel : Nat) (a b : Nat) :
    (none : N) ∈ commonHypernyms g fuel (some a) (some b) true := by
  have key : ∀ x : Nat, (none : N) ∈ (hypPaths g fuel (some x) true true).flatten := by
    intro x
    simp only [hypPaths, Bool.true_and]
    have hx : ((some x : N) != none) = true := by simp
    simp only [hx, if_true]
    split
    · split <;> simp
    · split
      · simp
      · rename_i h1 h2
        simp only [List.isEmpty_iff] at h2
        obtain ⟨p, hp⟩ := List.exists_mem_of_ne_nil _ h2
        exact List.mem_flatten.mpr ⟨p ++ [none], List.mem_map.mpr ⟨p, hp, rfl⟩, by simp⟩
  simp only [commonHypernyms, commonOf, mem_sortN, List.mem_filter, mem_dedup, List.contains_iff_mem]
  exact ⟨key a, key b⟩

/-- roots / leaves: the synsets of the part of speech without hypernyms / hyponyms -/
theorem C13_roots (g : Adj) (n : Nat) (pos : Nat → String) (p : String) (x : Nat) :
    x ∈ roots g n pos p ↔ x ∈ synsetsForPos n pos p ∧ g x = [] := by
  simp [roots, List.mem_filter, List.isEmpty_iff]

theorem C13_leaves (hypo : Adj) (n : Nat) (pos : Nat → String) (p : String) (x : Nat) :
    x ∈ leaves hypo n pos p ↔ x ∈ synsetsForPos n pos p ∧ hypo x = [] := by
  simp [leaves, List.mem_filter, List.isEmpty_iff]

/-- a/s merging of `_synsets_for_pos` -/
theorem C13_pos_merge (n : Nat) (pos : Nat → String) (x : Nat) :
    (x ∈ synsetsForPos n pos "a" ↔ x < n ∧ (pos x = "a" ∨ pos x = "s")) ∧
    (x ∈ synsetsForPos n pos "s" ↔ x < n ∧ (pos x = "a" ∨ pos x = "s")) := by
  constructor <;> simp [synsetsForPos, List.mem_filter, List.mem_range] <;> constructor <;> intro h
  · rcases h with h | h <;> exact ⟨h.1, by simp [h.2]⟩
  · rcases h.2 with h' | h' <;> simp [h.1, h']
  · rcases h with h | h <;> exact ⟨h.1, by simp [h.2]⟩
  · rcases h.2 with h' | h' <;> simp [h.1, h']

/-! ### taxonomy_depth: the `seen` shortcut is wrong on cyclic graphs (known finding F14) -/

def cyc3 : Adj := fun i => match i with
  | 0 => [0, 2]
  | 1 => [2]
  | 2 => [0]
  | _ => []

/-- kernel-checked counter-example: on the 3-node graph 0→0, 0→2, 1→2, 2→0 the
model of `taxonomy_depth` (which mirrors the code) returns 1 while the longest
hypernym chain is 1 → 2 → 0.  The same graph is replayed on the real library
(corpus/C13/F14-taxonomy-depth-cyclic.json). -/
theorem C13_depth_cyclic_counterexample :
    taxonomyDepth cyc3 4 3 (fun _ => "n") "n" = 1 ∧ longestChain cyc3 4 3 (fun _ => "n") "n" = 2 := by
  decide

end WnVerif.Props.C13
