/-
C13 — taxonomy functions agree with graph-theoretic definitions on any hypernym graph.

`g : Adj` is the hypernym relation of one lexicon (`get_related('hypernym',
'instance_hypernym')` per synset), nodes are `< n`; every theorem holds for all
such graphs, whatever their size, with or without cycles and self-loops.
Termination "on cycles" is part of the definitions: all model functions are
total (structural recursion on fuel `n + 1`), and `mem_relPaths` shows that this
fuel loses no path.
-/
import WnVerif.Lemmas.Paths
import WnVerif.Lemmas.Reach
import WnVerif.Lemmas.ListAux
import WnVerif.Lemmas.Acyclic
namespace WnVerif.Props.C13
open WnVerif.Graph

/-- hypernym_paths(x) is exactly the set of maximal simple hypernym chains from x
(non-empty ones: a synset without hypernyms has no path). -/
theorem C13_paths (g : Adj) (n : Nat) (h : InRange g n) (x : Nat) (q : List N) :
    q ∈ hypPaths g (n + 1) (some x) false false ↔
      ∃ p, q = p.map some ∧ p ≠ [] ∧ MaximalSimpleChain g [x] x p := by
  simp only [hypPaths, Bool.false_and, Bool.false_eq_true, if_false, List.mem_map]
  constructor
  · rintro ⟨p, hp, rfl⟩
    exact ⟨p, rfl, (mem_relPaths g n h x p).mp hp⟩
  · rintro ⟨p, rfl, hp⟩
    exact ⟨p, (mem_relPaths g n h x p).mpr hp, rfl⟩

/-- no chain visits a synset twice, nor the start synset -/
theorem C13_paths_simple (g : Adj) (n : Nat) (h : InRange g n) (x : Nat) (p : List Nat)
    (hp : p ∈ relPaths g (n + 1) x) : (x :: p).Nodup :=
  relPaths_nodup_paths g n h x p hp

/-- with simulate_root every chain is continued to the fake root, and a synset
without hypernyms gets the single chain `[*ROOT*]` -/
theorem C13_paths_simulate_root (g : Adj) (fuel : Nat) (x : Nat) (q : List N) :
    q ∈ hypPaths g fuel (some x) true false ↔
      (∃ p ∈ hypPaths g fuel (some x) false false, q = p ++ [none]) ∨
      (hypPaths g fuel (some x) false false = [] ∧ q = [none]) := by
  simp only [hypPaths, Bool.false_and, Bool.false_eq_true, if_false, Bool.true_and]
  have hx : ((some x : N) != none) = true := by simp
  simp only [hx, if_true]
  split
  · rename_i he
    simp [List.isEmpty_iff] at he
    simp [he]
  · rename_i he
    simp [List.isEmpty_iff] at he
    simp [he]
    constructor
    · rintro ⟨a, ha, rfl⟩; exact ⟨a.map some, ⟨a, ha, rfl⟩, rfl⟩
    · rintro ⟨p, ⟨a, ha, rfl⟩, rfl⟩; exact ⟨a, ha, rfl⟩

/-- min_depth / max_depth are the shortest / longest of the chains (0 without chains) -/
theorem C13_min_depth (g : Adj) (fuel : Nat) (x : Nat) (sim : Bool) :
    (∀ p ∈ hypPaths g fuel (some x) sim false, minDepth g fuel x sim ≤ p.length) ∧
    (hypPaths g fuel (some x) sim false ≠ [] →
       ∃ p ∈ hypPaths g fuel (some x) sim false, p.length = minDepth g fuel x sim) ∧
    (hypPaths g fuel (some x) sim false = [] → minDepth g fuel x sim = 0) := by
  refine ⟨?_, ?_, ?_⟩
  · intro p hp
    exact listMin_le _ _ (List.mem_map_of_mem hp)
  · intro hne
    have := listMin_mem ((hypPaths g fuel (some x) sim false).map List.length) (by simpa using hne)
    simpa [minDepth] using this
  · intro he; simp [minDepth, he, listMin]

theorem C13_max_depth (g : Adj) (fuel : Nat) (x : Nat) (sim : Bool) :
    (∀ p ∈ hypPaths g fuel (some x) sim false, p.length ≤ maxDepth g fuel (some x) sim) ∧
    (hypPaths g fuel (some x) sim false ≠ [] →
       ∃ p ∈ hypPaths g fuel (some x) sim false, p.length = maxDepth g fuel (some x) sim) ∧
    (hypPaths g fuel (some x) sim false = [] → maxDepth g fuel (some x) sim = 0) := by
  refine ⟨?_, ?_, ?_⟩
  · intro p hp
    exact le_listMax _ _ (List.mem_map_of_mem hp)
  · intro hne
    have := listMax_mem ((hypPaths g fuel (some x) sim false).map List.length) (by simpa using hne)
    simpa [maxDepth] using this
  · intro he; simp [maxDepth, he, listMax]

/-- nodes occurring on the chains from `a` (with `a` itself) = the ancestor set of `a` -/
theorem mem_flatten_hypPaths (g : Adj) (n : Nat) (h : InRange g n) (a y : Nat) :
    (some y : N) ∈ (hypPaths g (n + 1) (some a) false true).flatten ↔ Reach g a y := by
  simp only [hypPaths, Bool.false_and, Bool.false_eq_true, if_false, if_true]
  constructor
  · intro hm
    split at hm
    · simp at hm; subst hm; exact Reach.refl _
    · simp only [List.mem_flatten, List.mem_map] at hm
      obtain ⟨l, ⟨l', ⟨p, hp, rfl⟩, rfl⟩, hy⟩ := hm
      rcases List.mem_cons.mp hy with hy | hy
      · simp at hy; subst hy; exact Reach.refl _
      · simp at hy
        obtain ⟨_, hc⟩ := (mem_relPaths g n h a p).mp hp
        exact chain_reach g p a hc.1 y hy
  · intro hr
    by_cases hya : y = a
    · subst hya
      split
      · simp
      · rename_i hne
        simp only [List.isEmpty_iff, List.map_eq_nil_iff] at hne
        obtain ⟨p, hp⟩ := List.exists_mem_of_ne_nil _ hne
        simp only [List.mem_flatten, List.mem_map]
        exact ⟨some y :: p.map some, ⟨p.map some, ⟨p, hp, rfl⟩, rfl⟩, by simp⟩
    · obtain ⟨p, hp, hy⟩ := reach_on_relPaths g n h hr hya
      have hne : ((relPaths g (n + 1) a).map (·.map some)).isEmpty = false := by
        simp [List.isEmpty_iff]; intro he; rw [he] at hp; simp at hp
      rw [hne]
      simp only [Bool.false_eq_true, if_false, List.mem_flatten, List.mem_map]
      exact ⟨some a :: p.map some, ⟨p.map some, ⟨p, hp, rfl⟩, rfl⟩, by simp [hy]⟩

/-- common_hypernyms(a, b) is the intersection of the two ancestor sets, each
including the synset itself -/
theorem C13_common (g : Adj) (n : Nat) (h : InRange g n) (a b y : Nat) :
    (some y : N) ∈ commonHypernyms g (n + 1) (some a) (some b) false ↔ Reach g a y ∧ Reach g b y := by
  simp only [commonHypernyms, commonOf, mem_sortN, List.mem_filter, mem_dedup,
    List.contains_iff_mem, mem_flatten_hypPaths g n h]

/-- without simulate_root the fake root is never reported -/
theorem C13_common_no_root (g : Adj) (fuel : Nat) (a b : Nat) :
    (none : N) ∉ commonHypernyms g fuel (some a) (some b) false := by
  simp only [commonHypernyms, commonOf, mem_sortN, List.mem_filter, mem_dedup]
  intro hm
  have : (none : N) ∉ (hypPaths g fuel (some a) false true).flatten := by
    simp only [hypPaths, Bool.false_and, Bool.false_eq_true, if_false, if_true]
    split <;> simp
  exact this hm.1

/-- lowest_common_hypernyms = the common hypernyms of greatest recorded depth -/
theorem C13_lowest (g : Adj) (fuel : Nat) (a b : N) (sim : Bool) (c : N) :
    c ∈ lowestCommonHypernyms g fuel a b sim ↔
      ∃ d, (c, d) ∈ (shortestHypPaths g fuel a b sim).map (·.1) ∧
        d = listMax ((shortestHypPaths g fuel a b sim).map (·.1.2)) := by
  unfold lowestCommonHypernyms
  cases hpm : shortestHypPaths g fuel a b sim with
  | nil => simp
  | cons e t =>
    simp only [List.mem_map, List.mem_filter]
    constructor
    · rintro ⟨x, ⟨hx, hd⟩, rfl⟩
      refine ⟨x.1.2, ⟨x, hx, rfl⟩, ?_⟩
      simpa using hd
    · rintro ⟨d, ⟨x, hx, hxe⟩, hd⟩
      refine ⟨x, ⟨hx, ?_⟩, ?_⟩
      · have : x.1.2 = d := by rw [hxe]
        simp [this, hd]
      · rw [hxe]

/-- the keys of the path map are exactly the common hypernyms (for distinct synsets) -/
theorem C13_pathmap_keys (g : Adj) (fuel : Nat) (a b : N) (sim : Bool) (hab : (a == b) = false) :
    (shortestHypPaths g fuel a b sim).map (·.1.1) = commonHypernyms g fuel a b sim := by
  simp [shortestHypPaths, hab, commonHypernyms, List.map_map, Function.comp_def]

/-- shortest_path(a, a) is empty -/
theorem C13_shortest_self (g : Adj) (fuel : Nat) (a : N) (sim : Bool) :
    shortestPath g fuel a a sim = some [] := by
  simp [shortestPath, shortestHypPaths]

/-- shortest_path raises exactly when the two synsets share no hypernym -/
theorem C13_error_iff_disjoint (g : Adj) (fuel : Nat) (a b : N) (sim : Bool) (hab : (a == b) = false) :
    shortestPath g fuel a b sim = none ↔ commonHypernyms g fuel a b sim = [] := by
  rw [← C13_pathmap_keys g fuel a b sim hab]
  unfold shortestPath
  cases shortestHypPaths g fuel a b sim with
  | nil => simp
  | cons e t => simp

/-- with simulate_root the fake root is always shared, so no error -/
theorem C13_simulate_root_connects (g : Adj) (fuel : Nat) (a b : Nat) :
    (none : N) ∈ commonHypernyms g fuel (some a) (some b) true := by
  have key : ∀ x : Nat, (none : N) ∈ (hypPaths g fuel (some x) true true).flatten := by
    intro x
    simp only [hypPaths, Bool.true_and]
    have hx : ((some x : N) != none) = true := by simp
    simp only [hx, if_true]
    split
    · split <;> simp
    · split
      · simp
      · rename_i h1 h2
        simp only [List.isEmpty_iff] at h2
        obtain ⟨p, hp⟩ := List.exists_mem_of_ne_nil _ h2
        exact List.mem_flatten.mpr ⟨p ++ [none], List.mem_map.mpr ⟨p, hp, rfl⟩, by simp⟩
  simp only [commonHypernyms, commonOf, mem_sortN, List.mem_filter, mem_dedup, List.contains_iff_mem]
  exact ⟨key a, key b⟩

/-- roots / leaves: the synsets of the part of speech without hypernyms / hyponyms -/
theorem C13_roots (g : Adj) (n : Nat) (pos : Nat → String) (p : String) (x : Nat) :
    x ∈ roots g n pos p ↔ x ∈ synsetsForPos n pos p ∧ g x = [] := by
  simp [roots, List.mem_filter, List.isEmpty_iff]

theorem C13_leaves (hypo : Adj) (n : Nat) (pos : Nat → String) (p : String) (x : Nat) :
    x ∈ leaves hypo n pos p ↔ x ∈ synsetsForPos n pos p ∧ hypo x = [] := by
  simp [leaves, List.mem_filter, List.isEmpty_iff]

/-- a/s merging of `_synsets_for_pos` -/
theorem C13_pos_merge (n : Nat) (pos : Nat → String) (x : Nat) :
    (x ∈ synsetsForPos n pos "a" ↔ x < n ∧ (pos x = "a" ∨ pos x = "s")) ∧
    (x ∈ synsetsForPos n pos "s" ↔ x < n ∧ (pos x = "a" ∨ pos x = "s")) := by
  constructor <;> simp [synsetsForPos, List.mem_filter, List.mem_range] <;> constructor <;> intro h
  · rcases h with h | h <;> exact ⟨h.1, by simp [h.2]⟩
  · rcases h.2 with h' | h' <;> simp [h.1, h']
  · rcases h with h | h <;> exact ⟨h.1, by simp [h.2]⟩
  · rcases h.2 with h' | h' <;> simp [h.1, h']

/-! ### taxonomy_depth on acyclic graphs: the `seen` shortcut is sound -/

/-- the state of the loop of `taxonomy_depth` after the synsets `done`: the depth bounds the longest
chain of every synset handled so far, every seen synset lies strictly below it, and the depth is
attained (or still 0) -/
def DepthInv (g : Adj) (n : Nat) (done : List Nat) (st : List Nat × Nat) : Prop :=
  (∀ i ∈ done, L g n i ≤ st.2) ∧ (∀ h ∈ st.1, 1 + L g n h ≤ st.2) ∧ (st.2 = 0 ∨ ∃ i ∈ done, st.2 = L g n i)

theorem depth_step (g : Adj) (n : Nat) (hr : InRange g n) (hac : Acyclic g) (done : List Nat) (st : List Nat × Nat)
    (hinv : DepthInv g n done st) (i : Nat) :
    DepthInv g n (done ++ [i])
      (if (g i).all (fun h => st.1.contains h) then st
       else if (relPaths g (n + 1) i).isEmpty then st
       else ((relPaths g (n + 1) i).flatten ++ st.1, max st.2 (listMax ((relPaths g (n + 1) i).map List.length)))) := by
  obtain ⟨h1, h2, h3⟩ := hinv
  have mono3 : (st.2 = 0 ∨ ∃ j ∈ done, st.2 = L g n j) → (st.2 = 0 ∨ ∃ j ∈ done ++ [i], st.2 = L g n j) := by
    rintro (h | ⟨j, hj, e⟩)
    · exact Or.inl h
    · exact Or.inr ⟨j, List.mem_append_left _ hj, e⟩
  split
  · -- skipped: every hypernym was seen
    rename_i hall
    refine ⟨?_, h2, mono3 h3⟩
    intro j hj
    rcases List.mem_append.mp hj with hj | hj
    · exact h1 j hj
    · simp at hj; subst hj
      apply L_le_of_hypernyms g n hr hac
      intro y hy
      have : st.1.contains y = true := (List.all_eq_true.mp hall) y hy
      exact h2 y (by simpa using this)
  · split
    · rename_i hemp
      refine ⟨?_, h2, mono3 h3⟩
      intro j hj
      rcases List.mem_append.mp hj with hj | hj
      · exact h1 j hj
      · simp at hj; subst hj
        have : relPaths g (n + 1) j = [] := by simpa using hemp
        unfold L; rw [this]; exact Nat.zero_le _
    · have hL : listMax ((relPaths g (n + 1) i).map List.length) = L g n i := rfl
      rw [hL]
      refine ⟨?_, ?_, ?_⟩
      · intro j hj
        rcases List.mem_append.mp hj with hj | hj
        · exact Nat.le_trans (h1 j hj) (Nat.le_max_left _ _)
        · simp at hj; subst hj; exact Nat.le_max_right _ _
      · intro h hh
        simp only [List.mem_append, List.mem_flatten] at hh
        rcases hh with ⟨p, hp, hhp⟩ | hh
        · obtain ⟨_, hc, _⟩ := (mem_relPaths_acyclic g n hr hac i p).mp hp
          have := L_on_path g n hr hac p i hc h hhp
          exact Nat.le_trans this (Nat.le_max_right _ _)
        · exact Nat.le_trans (h2 h hh) (Nat.le_max_left _ _)
      · right
        rcases Nat.le_total st.2 (L g n i) with hle | hle
        · exact ⟨i, by simp, by rw [Nat.max_eq_right hle]⟩
        · rcases h3 with h0 | ⟨j, hj, e⟩
          · have : L g n i = 0 := by omega
            exact ⟨i, by simp, by rw [Nat.max_eq_left hle, h0, this]⟩
          · exact ⟨j, List.mem_append_left _ hj, by rw [Nat.max_eq_left hle]; exact e⟩

/-- **`taxonomy_depth` is the longest hypernym chain on every acyclic taxonomy** (any size); on
cyclic graphs it is not (next theorem, known finding F14) -/
theorem C13_depth_acyclic_partial (g : Adj) (n : Nat) (hr : InRange g n) (hac : Acyclic g) (pos : Nat → String) (p : String) :
    taxonomyDepth g (n + 1) n pos p = longestChain g (n + 1) n pos p := by
  unfold taxonomyDepth longestChain
  have key : ∀ (S done : List Nat) (st : List Nat × Nat), DepthInv g n done st →
      DepthInv g n (done ++ S) (S.foldl (fun (st : List Nat × Nat) (i : Nat) =>
        let (seen, depth) := st
        if (g i).all (fun h => seen.contains h) then st
        else
          let paths := relPaths g (n + 1) i
          if paths.isEmpty then st
          else (paths.flatten ++ seen, max depth (listMax (paths.map List.length)))) st) := by
    intro S
    induction S with
    | nil => intro done st h; simpa using h
    | cons i t ih =>
      intro done st h
      simp only [List.foldl_cons]
      have := ih (done ++ [i]) _ (depth_step g n hr hac done st h i)
      simpa [List.append_assoc] using this
  obtain ⟨h1, _, h3⟩ := key (synsetsForPos n pos p) [] ([], 0) ⟨by simp, by simp, Or.inl rfl⟩
  simp only [List.nil_append] at h1 h3
  apply Nat.le_antisymm
  · rcases h3 with h0 | ⟨i, hi, e⟩
    · rw [h0]; exact Nat.zero_le _
    · rw [e]
      exact le_listMax _ _ (List.mem_map.mpr ⟨i, hi, rfl⟩)
  · -- every element of the list is bounded by the computed depth
    have : ∀ (l : List Nat) (b : Nat), (∀ x ∈ l, x ≤ b) → listMax l ≤ b := by
      intro l b hb
      by_cases hl : l = []
      · subst hl; exact Nat.zero_le _
      · exact hb _ (listMax_mem l hl)
    apply this
    intro x hx
    obtain ⟨i, hi, rfl⟩ := List.mem_map.mp hx
    exact h1 i hi

/-- non-vacuity: a diamond with a tail (0→1, 0→2, 1→3, 2→3, 3→4) is acyclic and in range -/
def diamondTail : Adj := fun i => match i with
  | 0 => [1, 2]
  | 1 => [3]
  | 2 => [3]
  | 3 => [4]
  | _ => []

example : Acyclic diamondTail ∧ InRange diamondTail 5 := by
  refine ⟨⟨fun i => 10 - i, ?_⟩, ?_⟩
  · intro x t ht
    match x with
    | 0 => simp [diamondTail] at ht; rcases ht with rfl | rfl <;> decide
    | 1 => simp [diamondTail] at ht; subst ht; decide
    | 2 => simp [diamondTail] at ht; subst ht; decide
    | 3 => simp [diamondTail] at ht; subst ht; decide
    | k + 4 => simp [diamondTail] at ht
  · intro x t ht
    match x with
    | 0 => simp [diamondTail] at ht; rcases ht with rfl | rfl <;> decide
    | 1 => simp [diamondTail] at ht; subst ht; decide
    | 2 => simp [diamondTail] at ht; subst ht; decide
    | 3 => simp [diamondTail] at ht; subst ht; decide
    | k + 4 => simp [diamondTail] at ht

example : taxonomyDepth diamondTail 6 5 (fun _ => "n") "n" = 3 := by decide

/-! ### taxonomy_depth: the `seen` shortcut is wrong on cyclic graphs (known finding F14) -/

def cyc3 : Adj := fun i => match i with
  | 0 => [0, 2]
  | 1 => [2]
  | 2 => [0]
  | _ => []

/-- kernel-checked counter-example: on the 3-node graph 0→0, 0→2, 1→2, 2→0 the
model of `taxonomy_depth` (which mirrors the code) returns 1 while the longest
hypernym chain is 1 → 2 → 0.  The same graph is replayed on the real library
(corpus/C13/F14-taxonomy-depth-cyclic.json). -/
theorem C13_depth_cyclic_counterexample :
    taxonomyDepth cyc3 4 3 (fun _ => "n") "n" = 1 ∧ longestChain cyc3 4 3 (fun _ => "n") "n" = 2 := by
  decide

end WnVerif.Props.C13
