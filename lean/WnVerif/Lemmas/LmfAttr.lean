/- Attribute look-up and metadata lemmas for the LMF tree model (`Model/Lmf.lean`). -/
import WnVerif.Model.Lmf
namespace WnVerif.Lmf
open WnVerif.Doc

def lookup (l : List (String × String)) (k : String) : Option String := (l.find? (fun e => e.1 == k)).map (·.2)

theorem attr_elem (n : String) (A : List (String × String)) (t : String) (c : List Xml) (k : String) :
    attr (.elem n A t c) k = lookup A k := rfl

@[simp] theorem lookup_nil (k : String) : lookup [] k = none := rfl
theorem lookup_cons (a : String × String) (l : List (String × String)) (k : String) :
    lookup (a :: l) k = if a.1 == k then some a.2 else lookup l k := by
  unfold lookup
  simp only [List.find?_cons]
  split <;> simp_all
theorem lookup_append (a b : List (String × String)) (k : String) :
    lookup (a ++ b) k = (lookup a k).or (lookup b k) := by
  unfold lookup
  rw [List.find?_append]
  cases List.find? (fun e => e.1 == k) a <;> rfl

/-- "not the empty string": `x or None` in the loader and `if x:` in the serializer agree -/
def NFopt (o : Option String) : Prop := o ≠ some ""

theorem lookup_optAttr_self (k : String) (o : Option String) (h : NFopt o) : lookup (optAttr k o) k = o := by
  cases o with
  | none => rfl
  | some s =>
    have : s ≠ "" := fun e => h (by rw [e])
    simp [optAttr, this, lookup]
theorem lookup_optAttr_ne (k k' : String) (o : Option String) (h : k' ≠ k) : lookup (optAttr k' o) k = none := by
  cases o with
  | none => rfl
  | some s =>
    unfold optAttr
    split
    · simp [lookup, h]
    · rfl

/-! ### metadata -/

/-- the attribute names `_meta_dict` can emit -/
def metaKeyNames : List String := dcKeys.map ("dc:" ++ ·) ++ ["status", "note", "confidenceScore"]

theorem mem_flatMap_optAttr (g : String → String) (get : String → Option String) (K : List String) (e : String × String)
    (h : e ∈ K.flatMap (fun k => optAttr (g k) (get k))) : e.1 ∈ K.map g := by
  simp only [List.mem_flatMap] at h
  obtain ⟨k, hk, he⟩ := h
  unfold optAttr at he
  split at he
  · split at he
    · simp at he; subst he; exact List.mem_map.mpr ⟨k, hk, rfl⟩
    · simp at he
  · simp at he

theorem metaAttrs_keys (m : Option Meta) (e : String × String) (h : e ∈ metaAttrs m) : e.1 ∈ metaKeyNames := by
  unfold metaAttrs at h
  cases m with
  | none => simp at h
  | some kv =>
    simp only [List.mem_append] at h
    unfold metaKeyNames
    rcases h with (h | h) | h
    · exact List.mem_append_left _ (mem_flatMap_optAttr ("dc:" ++ ·) _ dcKeys e h)
    · have := mem_flatMap_optAttr id _ plainMetaKeys e h
      simp [plainMetaKeys] at this
      rcases this with h1 | h1 <;> simp [h1]
    · split at h
      · simp at h; subst h; simp
      · simp at h

theorem lookup_none_of_not_mem (l : List (String × String)) (k : String) (h : ∀ e ∈ l, e.1 ≠ k) : lookup l k = none := by
  unfold lookup
  rw [Option.map_eq_none_iff, List.find?_eq_none]
  intro e he
  simpa using h e he

/-- reading a non-metadata attribute skips over the metadata attributes -/
theorem lookup_metaAttrs (m : Option Meta) (k : String) (h : k ∉ metaKeyNames) : lookup (metaAttrs m) k = none := by
  apply lookup_none_of_not_mem
  intro e he heq
  exact h (heq ▸ metaAttrs_keys m e he)

/-- canonical form of a metadata dictionary: Dublin-Core keys in table order, then status, note
(non-empty values), then confidenceScore -/
def canonMeta (kv : Meta) : Meta :=
  let get (k : String) : Option String := (kv.find? (fun e => e.1 == k)).map (·.2)
  dcKeys.flatMap (fun k => optAttr k (get k)) ++ plainMetaKeys.flatMap (fun k => optAttr k (get k)) ++
  (match get "confidenceScore" with | some s => [("confidenceScore", s)] | none => [])

theorem filterMap_flatMap_optAttr (F : String × String → Option (String × String)) (g : String → String)
    (get : String → Option String) : ∀ (K : List String), (∀ k ∈ K, ∀ v, F (g k, v) = some (k, v)) →
      (K.flatMap (fun k => optAttr (g k) (get k))).filterMap F = K.flatMap (fun k => optAttr k (get k)) := by
  intro K
  induction K with
  | nil => intro _; rfl
  | cons a t ih =>
    intro h
    simp only [List.flatMap_cons, List.filterMap_append]
    rw [ih (fun k hk => h k (List.mem_cons_of_mem _ hk))]
    congr 1
    unfold optAttr
    cases get a with
    | none => rfl
    | some s =>
      simp only
      split
      · simp [h a List.mem_cons_self s]
      · rfl

theorem metaPick_dc : ∀ k ∈ dcKeys, ∀ v, metaPick ("dc:" ++ k, v) = some (k, v) := by
  intro k hk v
  simp only [dcKeys, List.mem_cons, List.not_mem_nil, or_false] at hk
  have hk' : pickKey ("dc:" ++ k) = some k := by
    rcases hk with h | h | h | h | h | h | h | h | h | h | h | h | h | h <;> subst h <;> decide
  simp [metaPick, hk']

theorem metaPick_plain : ∀ k ∈ plainMetaKeys, ∀ v, metaPick (id k, v) = some (k, v) := by
  intro k hk v
  simp only [plainMetaKeys, List.mem_cons, List.not_mem_nil, or_false] at hk
  have hk' : pickKey k = some k := by
    rcases hk with h | h <;> subst h <;> decide
  simp [metaPick, hk']

theorem filterMap_metaAttrs (kv : Meta) : (metaAttrs (some kv)).filterMap metaPick = canonMeta kv := by
  unfold metaAttrs canonMeta
  simp only [List.filterMap_append]
  rw [filterMap_flatMap_optAttr metaPick ("dc:" ++ ·) _ dcKeys metaPick_dc]
  have := filterMap_flatMap_optAttr metaPick id ((fun k => (kv.find? (fun e => e.1 == k)).map (·.2))) plainMetaKeys metaPick_plain
  simp only [id] at this
  rw [this]
  congr 1
  cases (kv.find? (fun e => e.1 == "confidenceScore")).map (·.2) with
  | none => rfl
  | some s =>
    have : pickKey "confidenceScore" = some "confidenceScore" := by decide
    simp [metaPick, this]

/-- normal form of a metadata value: absent, or a non-empty dictionary in canonical order with
non-empty values (every Python dict has exactly one such representative up to its empty values) -/
def NFmeta (m : Option Meta) : Prop :=
  match m with
  | none => True
  | some kv => kv ≠ [] ∧ canonMeta kv = kv

theorem mkMeta_filterMap_metaAttrs (m : Option Meta) (h : NFmeta m) : mkMeta ((metaAttrs m).filterMap metaPick) = m := by
  cases m with
  | none => rfl
  | some kv =>
    rw [filterMap_metaAttrs, h.2]
    unfold mkMeta
    have : kv.isEmpty = false := by
      cases kv with
      | nil => exact absurd rfl h.1
      | cons _ _ => rfl
    simp [this]

/-- attributes that are not metadata contribute nothing to `meta` -/
theorem filterMap_optAttr_nonmeta (k : String) (o : Option String) (h : pickKey k = none) :
    (optAttr k o).filterMap metaPick = [] := by
  unfold optAttr
  cases o with
  | none => rfl
  | some s =>
    simp only
    split
    · simp [metaPick, h]
    · rfl

theorem metaPick_nonmeta (k v : String) (h : pickKey k = none) : metaPick (k, v) = none := by
  simp [metaPick, h]

end WnVerif.Lmf
