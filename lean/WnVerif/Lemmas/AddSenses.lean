/- The `senses` table written by one `addLexicon`, relative to the final `entries` / `synsets`
tables, for any lexicon (plain or extension), and the `sense_relations` rows on top of it. -/
import WnVerif.Lemmas.AddRels
namespace WnVerif.Db
open WnVerif WnVerif.Doc

/-- nested loops preserve an invariant that every step preserves -/
theorem foldlM_inv {α} (I : Db → Prop) (f : Db → α → R Db) (hstep : ∀ b a b', f b a = .ok b' → I b → I b') :
    ∀ (l : List α) (b b' : Db), l.foldlM f b = .ok b' → I b → I b' := by
  intro l b b' h
  exact foldlM_ok_induct f (fun _ b b' => I b → I b') (fun _ hb => hb)
    (fun a _ b b1 _ h1 _ ih hb => ih (hstep b a b1 h1 hb)) l b b' h

theorem foldlM_inv_nested {α γ} (I : Db → Prop) (items : α → List γ) (f : α → Db → γ → R Db)
    (hstep : ∀ a b x b', f a b x = .ok b' → I b → I b') :
    ∀ (l : List α) (b b' : Db), l.foldlM (fun db a => (items a).foldlM (f a) db) b = .ok b' → I b → I b' :=
  foldlM_inv I _ (fun b a b' h => foldlM_inv I (f a) (hstep a) (items a) b b' h)

def entryRowE' (E : List REntry) (id : String) (lex : Nat) : Option Nat :=
  (E.find? (fun r => r.id == id && r.lex == lex)).map (·.rowid)
def senseRowS' (S : List RSense) (id : String) (lex : Nat) : Option Nat :=
  (S.find? (fun r => r.id == id && r.lex == lex)).map (·.rowid)

theorem senseRow_eq (db : Db) (id : String) (lex : Nat) : senseRow db id lex = senseRowS' db.senses id lex := rfl

/-- the sense row written for the sense `si.1` (position `si.2`) of entry `e`, relative to fixed tables -/
def SenseRowT (c : Ctx) (fr : List REntry × List RSynset) (e : Entry) (si : Sense × Nat) (r : RSense) : Prop :=
  r.id = si.1.id ∧ r.lex = c.lexid ∧ r.erank = si.2 ∧ entryRowE' fr.1 e.id (c.lid e.id) = some r.entry ∧
  synsetRowY' fr.2 si.1.synset (c.lid si.1.synset) = some r.synset

theorem senseStep_okT (l : Lexicon) (c : Ctx) (dr : Nat) (e : Entry) (b : Db) (si : Sense × Nat) (b' : Db)
    (h : senseStep l c dr e b si = .ok b') :
    (b'.entries, b'.synsets) = (b.entries, b.synsets) ∧
      ∃ row, b'.senses = b.senses ++ [row] ∧ SenseRowT c (b.entries, b.synsets) e si row := by
  unfold senseStep at h
  cases he : entryRow b e.id (c.lid e.id) with
  | none => simp [he, need, bind, Except.bind] at h
  | some er =>
    cases hs : synsetRow b si.1.synset (c.lid si.1.synset) with
    | none => simp [he, hs, need, bind, Except.bind] at h
    | some sr =>
      simp only [he, hs, need, bind, Except.bind, pure, Except.pure, Except.ok.injEq] at h
      subst h
      exact ⟨rfl, _, rfl, rfl, rfl, rfl, he, hs⟩

theorem senseStep_nodup (l : Lexicon) (c : Ctx) (dr : Nat) (e : Entry) (b : Db) (si : Sense × Nat) (b' : Db)
    (h : senseStep l c dr e b si = .ok b') (hn : (b.senses.map (·.rowid)).Nodup) : (b'.senses.map (·.rowid)).Nodup := by
  unfold senseStep at h
  cases he : entryRow b e.id (c.lid e.id) with
  | none => simp [he, need, bind, Except.bind] at h
  | some er =>
    cases hs : synsetRow b si.1.synset (c.lid si.1.synset) with
    | none => simp [he, hs, need, bind, Except.bind] at h
    | some sr =>
      simp only [he, hs, need, bind, Except.bind, pure, Except.pure, Except.ok.injEq] at h
      subst h
      simp only [List.map_append, List.map_cons, List.map_nil]
      rw [List.nodup_append]
      refine ⟨hn, by simp, ?_⟩
      intro a ha b' hb'
      simp only [List.mem_singleton] at hb'
      subst hb'
      intro e'
      subst e'
      exact nextId_not_mem _ ha

/-- the document's local senses with their entry and position, in the order `_insert_senses` writes them -/
def sensePairs (l : Lexicon) : List (Entry × (Sense × Nat)) :=
  l.entries.flatMap (fun e => (localSenses e).zipIdx.map (fun si => (e, si)))

theorem insertSenses_split (l : Lexicon) (c : Ctx) (dr : Nat) (b b' : Db) (h : insertSenses b l c dr = .ok b') :
    ∃ b1 b2, l.entries.foldlM (fun db e => (localSenses e).zipIdx.foldlM (senseStep l c dr e) db) b = .ok b1 ∧
      l.entries.foldlM (fun db e => (localSenses e).foldlM (adjStep c) db) b1 = .ok b2 ∧
      l.entries.foldlM (fun db e => e.senses.foldlM (fun db s => s.counts.foldlM (countStep c s) db) db) b2 = .ok b' := by
  unfold insertSenses at h
  simp only [bind, Except.bind] at h
  cases h1 : l.entries.foldlM (fun db e => (localSenses e).zipIdx.foldlM (senseStep l c dr e) db) b with
  | error x => rw [h1] at h; simp at h
  | ok b1 =>
    rw [h1] at h
    simp only at h
    cases h2 : l.entries.foldlM (fun db e => (localSenses e).foldlM (adjStep c) db) b1 with
    | error x => rw [h2] at h; simp at h
    | ok b2 =>
      rw [h2] at h
      exact ⟨b1, b2, rfl, h2, h⟩

/-- **the `senses` table after one `addLexicon`**: the old rows, then one row per local `<Sense>` in
document order, owned by the new lexicon, pointing at the rows (of the final `entries` / `synsets`
tables) that carry the entry's id and the referenced synset id; unique rowids stay unique -/
theorem addLexicon_sense_table {norm : String → String} {dr : Nat} {db db' : Db} {l : Lexicon}
    (t : AddTrace norm dr db db' l) :
    db'.entries = t.d3.entries ∧ db'.synsets = t.d2.synsets ∧
    ∃ rows, db'.senses = db.senses ++ rows ∧
      Forall2 (fun (p : Entry × (Sense × Nat)) row => SenseRowT t.ctx (db'.entries, db'.synsets) p.1 p.2 row) (sensePairs l) rows ∧
      ((db.senses.map (·.rowid)).Nodup → (db'.senses.map (·.rowid)).Nodup) := by
  let c : Ctx := ⟨t.lexid, t.extid, externalIds l⟩
  have k1 := insertLexicon_keeps_rels _ _ _ _ _ t.hlex
  -- senses untouched before `_insert_senses`
  let πS : Db → List RSense := fun b => b.senses
  have s2 : πS t.d2 = πS t.d1 := keepsGF_insertSynsets πS l c (fun p => by keepsG_step presupStep)
    (by keepsG_step synsetStep) (by keepsG_step piliStep) _ _ t.hsyn
  have s3 : πS t.d3 = πS t.d2 := keepsGF_insertEntries πS l c (by keepsG_step entryStep) _ _ t.hent
  have s4 : πS t.d4 = πS t.d3 := keepsGF_insertForms πS (fun _ _ => rfl) norm l c _ _ t.hform
  have s5 : πS t.d5 = πS t.d4 := keepsGF_insertPronsTags πS l c (fun _ _ _ => by keepsG_step pronStep)
    (fun _ _ _ => by keepsG_step tagStep) _ _ t.hpt
  have hs5 : t.d5.senses = db.senses := by
    show πS t.d5 = _
    rw [s5, s4, s3, s2]
    show t.d1.senses = _
    rw [k1.2.2.2.2.2]; rfl
  -- entries / synsets final from d3 / d2 on
  let πE : Db → List REntry × List RSynset := fun b => (b.entries, b.synsets)
  have e4 : πE t.d4 = πE t.d3 := keepsGF_insertForms πE (fun _ _ => rfl) norm l c _ _ t.hform
  have e5 : πE t.d5 = πE t.d4 := keepsGF_insertPronsTags πE l c (fun _ _ _ => by keepsG_step pronStep)
    (fun _ _ _ => by keepsG_step tagStep) _ _ t.hpt
  have y3 := (keepsYF_insertEntries l c) _ _ t.hent
  -- the pass itself
  obtain ⟨b1, b2, h1, h2, h3⟩ := insertSenses_split l c dr _ _ t.hsen
  obtain ⟨hfr, rows, hrows, hF⟩ := foldlM_rows_nested (fun d => d.senses) πE (fun (e : Entry) => (localSenses e).zipIdx)
    (fun e => senseStep l c dr e) (fun fr e si row => SenseRowT c fr e si row)
    (fun e b si b' hh => senseStep_okT l c dr e b si b' hh) l.entries _ _ h1
  have hnod : (t.d5.senses.map (·.rowid)).Nodup → (b1.senses.map (·.rowid)).Nodup :=
    foldlM_inv_nested (fun d => (d.senses.map (·.rowid)).Nodup) (fun (e : Entry) => (localSenses e).zipIdx)
      (fun e => senseStep l c dr e) (fun e b si b' hh => senseStep_nodup l c dr e b si b' hh) l.entries _ _ h1
  -- afterwards nothing touches senses, entries, synsets
  let π3 : Db → List RSense × List REntry × List RSynset := fun b => (b.senses, b.entries, b.synsets)
  have a2 : π3 b2 = π3 b1 := keepsGF_fold π3 _ (keepsG_nested π3 (fun e => localSenses e) (fun _ => adjStep c) (fun _ => by keepsG_step adjStep)) _ _ _ h2
  have a3 : π3 t.d6 = π3 b2 := by
    apply keepsGF_fold π3 _ _ _ _ _ h3
    apply keepsG_nested π3 (fun (e : Entry) => e.senses) (fun _ db s => s.counts.foldlM (countStep c s) db)
    intro _
    exact fun b s b' h => fold_keepsG π3 _ (by keepsG_step countStep) b s.counts b' h
  have a7 : π3 t.d7 = π3 t.d6 := keepsGF_insertSbs π3 t.sbs c (by keepsG_step sbStep) (fun _ => by keepsG_step sbSenseStep) _ _ t.hsb
  have a8 : π3 t.d8 = π3 t.d7 := keepsGF_insertRelations π3 l c (fun _ => by keepsG_step synRelStep)
    (by keepsG_step senseRelStep) (by keepsG_step senseSynRelStep) _ _ t.hrel
  have a9 : π3 db' = π3 t.d8 := keepsGF_insertDefsExamples π3 l c (fun _ => by keepsG_step defStep)
    (fun _ => by keepsG_step senseExampleStep) (fun _ => by keepsG_step synsetExampleStep) _ _ t.hdx
  have hpost : π3 db' = π3 b1 := by rw [a9, a8, a7, a3, a2]
  have p1 : db'.senses = b1.senses := congrArg (fun x => x.1) hpost
  have p2 : db'.entries = b1.entries := congrArg (fun x => x.2.1) hpost
  have p3 : db'.synsets = b1.synsets := congrArg (fun x => x.2.2) hpost
  have q1 : b1.entries = t.d5.entries := congrArg Prod.fst hfr
  have q2 : b1.synsets = t.d5.synsets := congrArg Prod.snd hfr
  have r1 : t.d5.entries = t.d3.entries := by
    have := congrArg Prod.fst (e5.trans e4); exact this
  have r2 : t.d5.synsets = t.d2.synsets := by
    have := congrArg Prod.snd (e5.trans e4)
    exact this.trans y3.1
  refine ⟨by rw [p2, q1, r1], by rw [p3, q2, r2], rows, by rw [p1, hrows, hs5], ?_, ?_⟩
  · have : (db'.entries, db'.synsets) = πE t.d5 := by
      show _ = (t.d5.entries, t.d5.synsets)
      rw [p2, p3, q1, q2]
    rw [this]
    exact hF
  · intro hn
    rw [p1]
    exact hnod (by rw [hs5]; exact hn)

/-! ### `sense_relations` -/

/-- the document's sense→sense relations as (source sense id, relation), in insertion order -/
def senseRelPairs (l : Lexicon) : List (String × Relation) :=
  (allSenseRels l).filter (fun p => (l.entries.flatMap (fun e => e.senses.map (·.id))).contains p.2.target)

def SenseRelRowOf (c : Ctx) (fr : List RSense × List (Nat × String)) (p : String × Relation) (row : RRel) : Prop :=
  row.lex = c.lexid ∧ senseRowS' fr.1 p.1 (c.lid p.1) = some row.source ∧
  senseRowS' fr.1 p.2.target (c.lid p.2.target) = some row.target ∧ lookupId fr.2 p.2.relType = some row.type ∧ row.md = p.2.md

theorem senseRelStep_ok (c : Ctx) (b : Db) (p : String × Relation) (b' : Db) (h : senseRelStep c b p = .ok b') :
    (b'.senses, b'.reltypes) = (b.senses, b.reltypes) ∧
      ∃ row, b'.senserels = b.senserels ++ [row] ∧ SenseRelRowOf c (b.senses, b.reltypes) p row := by
  unfold senseRelStep at h
  simp only [bind, Except.bind, need, pure, Except.pure] at h
  cases h1 : senseRow b p.1 (c.lid p.1) with
  | none => simp [h1] at h
  | some src =>
    cases h2 : senseRow b p.2.target (c.lid p.2.target) with
    | none => simp [h1, h2] at h
    | some tgt =>
      cases h3 : lookupId b.reltypes p.2.relType with
      | none => simp [h1, h2, h3] at h
      | some ty =>
        simp only [h1, h2, h3, Except.ok.injEq] at h
        subst h
        exact ⟨rfl, _, rfl, rfl, h1, h2, h3, rfl⟩

/-- **the `sense_relations` table after one `addLexicon`** -/
theorem addLexicon_senserel_table {norm : String → String} {dr : Nat} {db db' : Db} {l : Lexicon}
    (t : AddTrace norm dr db db' l) :
    db'.reltypes = (updateLookups db l).reltypes ∧
    ∃ rows, db'.senserels = db.senserels ++ rows ∧
      Forall2 (SenseRelRowOf t.ctx (db'.senses, db'.reltypes)) (senseRelPairs l) rows := by
  let c : Ctx := ⟨t.lexid, t.extid, externalIds l⟩
  let π : Db → List RRel × List (Nat × String) := fun b => (b.senserels, b.reltypes)
  have k1 := insertLexicon_keeps_rels _ _ _ _ _ t.hlex
  have k2 : π t.d2 = π t.d1 := keepsGF_insertSynsets π l c (fun p => by keepsG_step presupStep)
    (by keepsG_step synsetStep) (by keepsG_step piliStep) _ _ t.hsyn
  have k3 : π t.d3 = π t.d2 := keepsGF_insertEntries π l c (by keepsG_step entryStep) _ _ t.hent
  have k4 : π t.d4 = π t.d3 := keepsGF_insertForms π (fun _ _ => rfl) norm l c _ _ t.hform
  have k5 : π t.d5 = π t.d4 := keepsGF_insertPronsTags π l c (fun _ _ _ => by keepsG_step pronStep)
    (fun _ _ _ => by keepsG_step tagStep) _ _ t.hpt
  have k6 : π t.d6 = π t.d5 := keepsGF_insertSenses π l c dr (fun _ => by keepsG_step senseStep)
    (by keepsG_step adjStep) (fun _ => by keepsG_step countStep) _ _ t.hsen
  have k7 : π t.d7 = π t.d6 := keepsGF_insertSbs π t.sbs c (by keepsG_step sbStep) (fun _ => by keepsG_step sbSenseStep) _ _ t.hsb
  have kpre : π t.d7 = (db.senserels, (updateLookups db l).reltypes) := by
    rw [k7, k6, k5, k4, k3, k2]
    show (t.d1.senserels, t.d1.reltypes) = _
    rw [k1.2.1, k1.2.2.2.1]
    rfl
  obtain ⟨b1, b2, h1, h2, h3⟩ := insertRelations_split l c _ _ t.hrel
  let π3 : Db → List RRel × List RSense × List (Nat × String) := fun b => (b.senserels, b.senses, b.reltypes)
  have r1 : π3 b1 = π3 t.d7 := keepsGF_fold π3 _ (keepsG_nested π3 (fun (ss : Synset) => ss.relations) (fun ss => synRelStep c ss)
    (fun _ => by keepsG_step synRelStep)) _ _ _ h1
  obtain ⟨hfr, rows, hrows, hF⟩ := foldlM_rows1 (fun d => d.senserels) (fun d => (d.senses, d.reltypes)) (senseRelStep c)
    (fun fr p row => SenseRelRowOf c fr p row) (fun b p b' hh => senseRelStep_ok c b p b' hh) _ _ _ h2
  let π2 : Db → List RRel × List RSense × List (Nat × String) := fun b => (b.senserels, b.senses, b.reltypes)
  have r3 : π2 t.d8 = π2 b2 := keepsGF_fold π2 _ (by keepsG_step senseSynRelStep) _ _ _ h3
  have r4 : π2 db' = π2 t.d8 := keepsGF_insertDefsExamples π2 l c (fun _ => by keepsG_step defStep)
    (fun _ => by keepsG_step senseExampleStep) (fun _ => by keepsG_step synsetExampleStep) _ _ t.hdx
  have hpost : π2 db' = π2 b2 := by rw [r4, r3]
  have p1 : db'.senserels = b2.senserels := congrArg (fun x => x.1) hpost
  have p2 : db'.senses = b2.senses := congrArg (fun x => x.2.1) hpost
  have p3 : db'.reltypes = b2.reltypes := congrArg (fun x => x.2.2) hpost
  have q2 : b2.senses = b1.senses := congrArg Prod.fst hfr
  have q3 : b2.reltypes = b1.reltypes := congrArg Prod.snd hfr
  have o1 : b1.senserels = t.d7.senserels := congrArg (fun x => x.1) r1
  have o3 : b1.reltypes = t.d7.reltypes := congrArg (fun x => x.2.2) r1
  have e4 : t.d7.senserels = db.senserels := congrArg Prod.fst kpre
  have e5 : t.d7.reltypes = (updateLookups db l).reltypes := congrArg Prod.snd kpre
  refine ⟨by rw [p3, q3, o3, e5], rows, by rw [p1, hrows, o1, e4], ?_⟩
  have : (db'.senses, db'.reltypes) = (b1.senses, b1.reltypes) := by rw [p2, p3, q2, q3]
  rw [this]
  exact hF

/-! ### `sense_synset_relations` -/

/-- the document's sense→synset relations as (source sense id, relation), in insertion order -/
def senseSynRelPairs (l : Lexicon) : List (String × Relation) :=
  (allSenseRels l).filter (fun p => !(l.entries.flatMap (fun e => e.senses.map (·.id))).contains p.2.target &&
    (l.synsets.map (·.id)).contains p.2.target)

def SenseSynRelRowOf (c : Ctx) (fr : List RSense × List RSynset × List (Nat × String)) (p : String × Relation) (row : RRel) : Prop :=
  row.lex = c.lexid ∧ senseRowS' fr.1 p.1 (c.lid p.1) = some row.source ∧
  synsetRowY' fr.2.1 p.2.target (c.lid p.2.target) = some row.target ∧ lookupId fr.2.2 p.2.relType = some row.type ∧ row.md = p.2.md

theorem senseSynRelStep_ok (c : Ctx) (b : Db) (p : String × Relation) (b' : Db) (h : senseSynRelStep c b p = .ok b') :
    (b'.senses, b'.synsets, b'.reltypes) = (b.senses, b.synsets, b.reltypes) ∧
      ∃ row, b'.sensesynrels = b.sensesynrels ++ [row] ∧ SenseSynRelRowOf c (b.senses, b.synsets, b.reltypes) p row := by
  unfold senseSynRelStep at h
  simp only [bind, Except.bind, need, pure, Except.pure] at h
  cases h1 : senseRow b p.1 (c.lid p.1) with
  | none => simp [h1] at h
  | some src =>
    cases h2 : synsetRow b p.2.target (c.lid p.2.target) with
    | none => simp [h1, h2] at h
    | some tgt =>
      cases h3 : lookupId b.reltypes p.2.relType with
      | none => simp [h1, h2, h3] at h
      | some ty =>
        simp only [h1, h2, h3, Except.ok.injEq] at h
        subst h
        exact ⟨rfl, _, rfl, rfl, h1, h2, h3, rfl⟩

/-- **the `sense_synset_relations` table after one `addLexicon`** -/
theorem addLexicon_sensesynrel_table {norm : String → String} {dr : Nat} {db db' : Db} {l : Lexicon}
    (t : AddTrace norm dr db db' l) :
    db'.reltypes = (updateLookups db l).reltypes ∧
    ∃ rows, db'.sensesynrels = db.sensesynrels ++ rows ∧
      Forall2 (SenseSynRelRowOf t.ctx (db'.senses, db'.synsets, db'.reltypes)) (senseSynRelPairs l) rows := by
  let c : Ctx := ⟨t.lexid, t.extid, externalIds l⟩
  let π : Db → List RRel × List (Nat × String) := fun b => (b.sensesynrels, b.reltypes)
  have k1 := insertLexicon_keeps_rels _ _ _ _ _ t.hlex
  have k2 : π t.d2 = π t.d1 := keepsGF_insertSynsets π l c (fun p => by keepsG_step presupStep)
    (by keepsG_step synsetStep) (by keepsG_step piliStep) _ _ t.hsyn
  have k3 : π t.d3 = π t.d2 := keepsGF_insertEntries π l c (by keepsG_step entryStep) _ _ t.hent
  have k4 : π t.d4 = π t.d3 := keepsGF_insertForms π (fun _ _ => rfl) norm l c _ _ t.hform
  have k5 : π t.d5 = π t.d4 := keepsGF_insertPronsTags π l c (fun _ _ _ => by keepsG_step pronStep)
    (fun _ _ _ => by keepsG_step tagStep) _ _ t.hpt
  have k6 : π t.d6 = π t.d5 := keepsGF_insertSenses π l c dr (fun _ => by keepsG_step senseStep)
    (by keepsG_step adjStep) (fun _ => by keepsG_step countStep) _ _ t.hsen
  have k7 : π t.d7 = π t.d6 := keepsGF_insertSbs π t.sbs c (by keepsG_step sbStep) (fun _ => by keepsG_step sbSenseStep) _ _ t.hsb
  have kpre : π t.d7 = (db.sensesynrels, (updateLookups db l).reltypes) := by
    rw [k7, k6, k5, k4, k3, k2]
    show (t.d1.sensesynrels, t.d1.reltypes) = _
    rw [k1.2.2.1, k1.2.2.2.1]
    rfl
  obtain ⟨b1, b2, h1, h2, h3⟩ := insertRelations_split l c _ _ t.hrel
  let π4 : Db → List RRel × List (Nat × String) := fun b => (b.sensesynrels, b.reltypes)
  have r1 : π4 b1 = π4 t.d7 := keepsGF_fold π4 _ (keepsG_nested π4 (fun (ss : Synset) => ss.relations) (fun ss => synRelStep c ss)
    (fun _ => by keepsG_step synRelStep)) _ _ _ h1
  have r2 : π4 b2 = π4 b1 := keepsGF_fold π4 _ (by keepsG_step senseRelStep) _ _ _ h2
  obtain ⟨hfr, rows, hrows, hF⟩ := foldlM_rows1 (fun d => d.sensesynrels) (fun d => (d.senses, d.synsets, d.reltypes)) (senseSynRelStep c)
    (fun fr p row => SenseSynRelRowOf c fr p row) (fun b p b' hh => senseSynRelStep_ok c b p b' hh) _ _ _ h3
  let π5 : Db → List RRel × List RSense × List RSynset × List (Nat × String) := fun b => (b.sensesynrels, b.senses, b.synsets, b.reltypes)
  have r4 : π5 db' = π5 t.d8 := keepsGF_insertDefsExamples π5 l c (fun _ => by keepsG_step defStep)
    (fun _ => by keepsG_step senseExampleStep) (fun _ => by keepsG_step synsetExampleStep) _ _ t.hdx
  have p1 : db'.sensesynrels = t.d8.sensesynrels := congrArg (fun x => x.1) r4
  have p2 : db'.senses = t.d8.senses := congrArg (fun x => x.2.1) r4
  have p3 : db'.synsets = t.d8.synsets := congrArg (fun x => x.2.2.1) r4
  have p4 : db'.reltypes = t.d8.reltypes := congrArg (fun x => x.2.2.2) r4
  have q2 : t.d8.senses = b2.senses := congrArg (fun x => x.1) hfr
  have q3 : t.d8.synsets = b2.synsets := congrArg (fun x => x.2.1) hfr
  have q4 : t.d8.reltypes = b2.reltypes := congrArg (fun x => x.2.2) hfr
  have o1 : b2.sensesynrels = t.d7.sensesynrels := congrArg Prod.fst (r2.trans r1)
  have o4 : b2.reltypes = t.d7.reltypes := congrArg Prod.snd (r2.trans r1)
  have e4 : t.d7.sensesynrels = db.sensesynrels := congrArg Prod.fst kpre
  have e5 : t.d7.reltypes = (updateLookups db l).reltypes := congrArg Prod.snd kpre
  refine ⟨by rw [p4, q4, o4, e5], rows, by rw [p1, hrows, o1, e4], ?_⟩
  have : (db'.senses, db'.synsets, db'.reltypes) = (b2.senses, b2.synsets, b2.reltypes) := by rw [p2, p3, p4, q2, q3, q4]
  rw [this]
  exact hF

end WnVerif.Db
