/-
Lemmas about `extend` / `relPaths` (the model of `_Relatable.relation_paths`):
soundness and completeness w.r.t. maximal simple chains.
-/
import WnVerif.Model.Graph
namespace WnVerif.Graph

/-- recursive characterisation: `p` is a maximal simple chain from `x` avoiding `vis` -/
def MaxSimple (g : Adj) : List Nat → Nat → List Nat → Prop
  | vis, x, [] => ∀ t ∈ g x, t ∈ vis
  | vis, x, y :: q => y ∈ g x ∧ y ∉ vis ∧ MaxSimple g (y :: vis) y q

theorem extend_sound (g : Adj) : ∀ fuel vis x p, p ∈ extend g fuel vis x → MaxSimple g vis x p := by
  intro fuel
  induction fuel with
  | zero => intro vis x p h; simp [extend] at h
  | succ n ih =>
    intro vis x p h
    unfold extend at h
    simp only at h
    split at h
    · rename_i hemp
      simp at h; subst h
      intro t ht
      simp [List.filter_eq_nil_iff] at hemp
      exact hemp t ht
    · simp only [List.mem_flatMap, List.mem_map, List.mem_filter] at h
      obtain ⟨t, ⟨ht, hv⟩, q, hq, rfl⟩ := h
      exact ⟨ht, by simpa using hv, ih _ _ _ hq⟩

theorem extend_complete (g : Adj) : ∀ fuel vis x p, p.length < fuel → MaxSimple g vis x p →
    p ∈ extend g fuel vis x := by
  intro fuel
  induction fuel with
  | zero => intro vis x p h; omega
  | succ n ih =>
    intro vis x p hlen hm
    unfold extend
    simp only
    cases p with
    | nil =>
      have : ((g x).filter (fun t => !vis.contains t)).isEmpty = true := by
        simp [List.filter_eq_nil_iff]; exact hm
      rw [if_pos this]; simp
    | cons y q =>
      obtain ⟨hy, hv, hq⟩ := hm
      rw [if_neg (by simp; exact ⟨y, hy, hv⟩)]
      simp only [List.mem_flatMap, List.mem_map, List.mem_filter]
      refine ⟨y, ⟨hy, by simpa using hv⟩, q, ih _ _ _ (by simp at hlen; omega) hq, rfl⟩

/-- a chain `x → p₀ → p₁ → …` of the relation -/
def Chain (g : Adj) : Nat → List Nat → Prop
  | _, [] => True
  | x, y :: q => y ∈ g x ∧ Chain g y q

/-- the graph-theoretic statement: `p` is a chain from `x`, visits no node twice, avoids
`vis`, and cannot be extended (every successor of its last node is already used) -/
def MaximalSimpleChain (g : Adj) (vis : List Nat) (x : Nat) (p : List Nat) : Prop :=
  Chain g x p ∧ p.Nodup ∧ (∀ y ∈ p, y ∉ vis) ∧ (∀ t ∈ g (p.getLastD x), t ∈ vis ∨ t ∈ p)

theorem maxSimple_iff (g : Adj) : ∀ (p : List Nat) (vis : List Nat) (x : Nat),
    MaxSimple g vis x p ↔ MaximalSimpleChain g vis x p := by
  intro p
  induction p with
  | nil => intro vis x; simp [MaxSimple, MaximalSimpleChain, Chain]
  | cons y q ih =>
    intro vis x
    simp only [MaxSimple, ih, MaximalSimpleChain, Chain, List.nodup_cons, List.getLastD_cons,
      List.mem_cons]
    constructor
    · rintro ⟨hy, hv, hc, hn, hav, hmax⟩
      refine ⟨⟨hy, hc⟩, ⟨?_, hn⟩, ?_, ?_⟩
      · intro hyq; exact (hav y hyq) (Or.inl rfl)
      · intro z hz
        rcases hz with rfl | hz
        · exact hv
        · intro hzv; exact (hav z hz) (Or.inr hzv)
      · intro t ht
        rcases hmax t ht with (rfl | h) | h
        · exact Or.inr (Or.inl rfl)
        · exact Or.inl h
        · exact Or.inr (Or.inr h)
    · rintro ⟨⟨hy, hc⟩, ⟨hnq, hn⟩, hav, hmax⟩
      refine ⟨hy, hav y (Or.inl rfl), hc, hn, ?_, ?_⟩
      · intro z hz hzz
        rcases hzz with rfl | hzv
        · exact hnq hz
        · exact hav z (Or.inr hz) hzv
      · intro t ht
        rcases hmax t ht with h | rfl | h
        · exact Or.inl (Or.inr h)
        · exact Or.inl (Or.inl rfl)
        · exact Or.inr h

/-- all relation targets are nodes `< n` -/
def InRange (g : Adj) (n : Nat) : Prop := ∀ x t, t ∈ g x → t < n

theorem chain_lt (g : Adj) (n : Nat) (h : InRange g n) : ∀ (p : List Nat) (x : Nat),
    Chain g x p → ∀ y ∈ p, y < n := by
  intro p
  induction p with
  | nil => intro x _ y hy; simp at hy
  | cons z q ih =>
    intro x hc y hy
    obtain ⟨hz, hq⟩ := hc
    rcases List.mem_cons.mp hy with rfl | hy
    · exact h x _ hz
    · exact ih z hq y hy

theorem nodup_lt_length (l : List Nat) (n : Nat) (hn : l.Nodup) (hl : ∀ y ∈ l, y < n) :
    l.length ≤ n := by
  have h := List.Nodup.length_le_of_subset (l₁ := l) (l₂ := List.range n) hn
    (by intro y hy; simpa using hl y hy)
  simpa using h

theorem maximalSimpleChain_length (g : Adj) (n : Nat) (h : InRange g n) (vis : List Nat) (x : Nat)
    (p : List Nat) (hp : MaximalSimpleChain g vis x p) : p.length ≤ n :=
  nodup_lt_length p n hp.2.1 (chain_lt g n h p x hp.1)

/-- `relation_paths` = exactly the non-empty maximal simple chains from `x` -/
theorem mem_relPaths (g : Adj) (n : Nat) (h : InRange g n) (x : Nat) (p : List Nat) :
    p ∈ relPaths g (n + 1) x ↔ p ≠ [] ∧ MaximalSimpleChain g [x] x p := by
  constructor
  · intro hp
    simp only [relPaths, List.mem_flatMap, List.mem_reverse, List.mem_filter, List.mem_map] at hp
    obtain ⟨t, ⟨ht, hne⟩, q, hq, rfl⟩ := hp
    refine ⟨by simp, ?_⟩
    rw [← maxSimple_iff]
    refine ⟨ht, ?_, extend_sound g _ _ _ _ hq⟩
    simpa using hne
  · rintro ⟨hne, hp⟩
    have hlen := maximalSimpleChain_length g n h [x] x p hp
    rw [← maxSimple_iff] at hp
    cases p with
    | nil => exact absurd rfl hne
    | cons t q =>
      obtain ⟨ht, hv, hq⟩ := hp
      simp only [relPaths, List.mem_flatMap, List.mem_reverse, List.mem_filter, List.mem_map]
      refine ⟨t, ⟨ht, ?_⟩, q, extend_complete g _ _ _ _ ?_ hq, rfl⟩
      · simpa using hv
      · simp at hlen; omega

theorem relPaths_nodup_paths (g : Adj) (n : Nat) (h : InRange g n) (x : Nat) (p : List Nat)
    (hp : p ∈ relPaths g (n + 1) x) : (x :: p).Nodup := by
  obtain ⟨_, hc⟩ := (mem_relPaths g n h x p).mp hp
  refine List.nodup_cons.mpr ⟨?_, hc.2.1⟩
  intro hx
  exact hc.2.2.1 x hx (by simp)

end WnVerif.Graph
