/- `sortedSet` (`sorted(set(strings))`): membership and strict sortedness. -/
import WnVerif.Model.Db
namespace WnVerif.Db

theorem mem_insertStr (a : String) : ∀ (l : List String) (x : String), x ∈ insertStr a l ↔ x = a ∨ x ∈ l := by
  intro l
  induction l with
  | nil => intro x; simp [insertStr]
  | cons b t ih =>
    intro x
    simp only [insertStr]
    split
    · simp
    · split
      · rename_i hab
        have : a = b := by simpa using hab
        subst this
        simp
      · simp only [List.mem_cons, ih]
        constructor
        · rintro (h | h | h)
          · exact Or.inr (Or.inl h)
          · exact Or.inl h
          · exact Or.inr (Or.inr h)
        · rintro (h | h | h)
          · exact Or.inr (Or.inl h)
          · exact Or.inl h
          · exact Or.inr (Or.inr h)

theorem mem_sortedSet : ∀ (l : List String) (x : String), x ∈ sortedSet l ↔ x ∈ l := by
  intro l
  induction l with
  | nil => intro x; simp [sortedSet]
  | cons a t ih =>
    intro x
    show x ∈ insertStr a (sortedSet t) ↔ _
    rw [mem_insertStr, ih]; simp

theorem insertStr_sorted (a : String) : ∀ (l : List String), l.Pairwise (· < ·) → (insertStr a l).Pairwise (· < ·) := by
  intro l
  induction l with
  | nil => intro _; simp [insertStr]
  | cons b t ih =>
    intro h
    rw [List.pairwise_cons] at h
    simp only [insertStr]
    split
    · rename_i hlt
      rw [List.pairwise_cons]
      refine ⟨?_, List.pairwise_cons.mpr h⟩
      intro x hx
      rcases List.mem_cons.mp hx with rfl | hx
      · exact hlt
      · exact String.lt_trans hlt (h.1 x hx)
    · rename_i hnlt
      split
      · exact List.pairwise_cons.mpr h
      · rename_i hne
        have hba : b < a := by
          have h1 : b ≤ a := String.not_lt.mp hnlt
          rcases Decidable.em (b < a) with h2 | h2
          · exact h2
          · have h3 : a ≤ b := String.not_lt.mp h2
            exact absurd (String.le_antisymm h3 h1) (by simpa using hne)
        rw [List.pairwise_cons]
        refine ⟨?_, ih h.2⟩
        intro x hx
        rcases (mem_insertStr a t x).mp hx with rfl | hx
        · exact hba
        · exact h.1 x hx

theorem sortedSet_sorted : ∀ (l : List String), (sortedSet l).Pairwise (· < ·) := by
  intro l
  induction l with
  | nil => simp [sortedSet]
  | cons a t ih => exact insertStr_sorted a _ ih


end WnVerif.Db
