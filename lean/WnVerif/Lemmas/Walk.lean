/-
The generic worklist walk `walkGen`: soundness, completeness, no duplicates and
termination (the fuel `walkFuel` always suffices) for every push discipline that
keeps exactly the old agenda and the new successors.
-/
import WnVerif.Lemmas.Reach
namespace WnVerif.Graph

/-- what `closure` (queue) and `ic.compute` (stack) need from their agenda update -/
def GoodPush (push : List Nat → List Nat → List Nat) : Prop :=
  (∀ q new v, v ∈ push q new ↔ v ∈ q ∨ v ∈ new) ∧ (∀ q new, (push q new).length = q.length + new.length)

theorem goodPush_queue : GoodPush pushQueue := by
  refine ⟨?_, ?_⟩ <;> intros <;> simp [pushQueue]

theorem goodPush_stack : GoodPush pushStack := by
  refine ⟨?_, ?_⟩
  · intro q new v; simp [pushStack]; exact Or.comm
  · intro q new; simp [pushStack]; omega

/-- invariant: successors of processed nodes are processed or queued -/
def Front (g : Adj) (q seen : List Nat) : Prop := ∀ v ∈ seen, ∀ w ∈ g v, w ∈ seen ∨ w ∈ q

theorem walk_spec (push) (hp : GoodPush push) (g : Adj) : ∀ (f : Nat) (q seen r : List Nat),
    walkGen push g f q seen = some r → Front g q seen →
    (∀ v ∈ seen, v ∈ r) ∧ (∀ v ∈ q, v ∈ r) ∧ (∀ v ∈ r, ∀ w ∈ g v, w ∈ r) := by
  intro f
  induction f with
  | zero =>
    intro q seen r h hF
    cases q with
    | nil =>
      simp [walkGen] at h; subst h
      refine ⟨fun v hv => hv, by simp, ?_⟩
      intro v hv w hw
      rcases hF v hv w hw with h | h
      · exact h
      · cases h
    | cons x rest => simp [walkGen] at h
  | succ n ih =>
    intro q seen r h hF
    cases q with
    | nil =>
      simp [walkGen] at h; subst h
      refine ⟨fun v hv => hv, by simp, ?_⟩
      intro v hv w hw
      rcases hF v hv w hw with h | h
      · exact h
      · cases h
    | cons x rest =>
      simp only [walkGen] at h
      split at h
      · rename_i hx
        have hx' : x ∈ seen := by simpa using hx
        have hF' : Front g rest seen := by
          intro v hv w hw
          rcases hF v hv w hw with h1 | h1
          · exact Or.inl h1
          · rcases List.mem_cons.mp h1 with rfl | h2
            · exact Or.inl hx'
            · exact Or.inr h2
        obtain ⟨a, b, c⟩ := ih rest seen r h hF'
        refine ⟨a, ?_, c⟩
        intro v hv
        rcases List.mem_cons.mp hv with rfl | hv
        · exact a _ hx'
        · exact b v hv
      · have hF' : Front g (push rest (g x)) (x :: seen) := by
          intro v hv w hw
          rcases List.mem_cons.mp hv with rfl | hv
          · exact Or.inr ((hp.1 _ _ _).mpr (Or.inr hw))
          · rcases hF v hv w hw with h1 | h1
            · exact Or.inl (List.mem_cons_of_mem _ h1)
            · rcases List.mem_cons.mp h1 with rfl | h2
              · exact Or.inl (by simp)
              · exact Or.inr ((hp.1 _ _ _).mpr (Or.inl h2))
        obtain ⟨a, b, c⟩ := ih (push rest (g x)) (x :: seen) r h hF'
        refine ⟨fun v hv => a v (List.mem_cons_of_mem _ hv), ?_, c⟩
        intro v hv
        rcases List.mem_cons.mp hv with rfl | hv
        · exact a _ (by simp)
        · exact b v ((hp.1 _ _ _).mpr (Or.inl hv))

/-- completeness: everything reachable from the initial agenda is in the result -/
theorem walk_complete (push) (hp : GoodPush push) (g : Adj) (f : Nat) (q r : List Nat)
    (h : walkGen push g f q [] = some r) (x : Nat) (hx : x ∈ q) (y : Nat) (hr : Reach g x y) : y ∈ r := by
  obtain ⟨_, hq, hclosed⟩ := walk_spec push hp g f q [] r h (by intro v hv; cases hv)
  induction hr with
  | refl => exact hq x hx
  | step _ hz ih => exact hclosed _ ih _ hz

/-- soundness: everything in the result was already seen or is reachable from the agenda -/
theorem walk_sound (push) (hp : GoodPush push) (g : Adj) : ∀ (f : Nat) (q seen r : List Nat),
    walkGen push g f q seen = some r → ∀ y ∈ r, y ∈ seen ∨ ∃ x ∈ q, Reach g x y := by
  intro f
  induction f with
  | zero =>
    intro q seen r h y hy
    cases q with
    | nil => simp [walkGen] at h; subst h; exact Or.inl hy
    | cons x rest => simp [walkGen] at h
  | succ n ih =>
    intro q seen r h y hy
    cases q with
    | nil => simp [walkGen] at h; subst h; exact Or.inl hy
    | cons x rest =>
      simp only [walkGen] at h
      split at h
      · rcases ih rest seen r h y hy with h1 | ⟨z, hz, hzy⟩
        · exact Or.inl h1
        · exact Or.inr ⟨z, List.mem_cons_of_mem _ hz, hzy⟩
      · rcases ih (push rest (g x)) (x :: seen) r h y hy with h1 | ⟨z, hz, hzy⟩
        · rcases List.mem_cons.mp h1 with rfl | h2
          · exact Or.inr ⟨y, by simp, Reach.refl y⟩
          · exact Or.inl h2
        · rcases (hp.1 _ _ _).mp hz with h3 | h3
          · exact Or.inr ⟨z, List.mem_cons_of_mem _ h3, hzy⟩
          · exact Or.inr ⟨x, by simp, (Reach.step (Reach.refl x) h3).trans hzy⟩

/-- no node is reported twice -/
theorem walk_nodup (push) (g : Adj) : ∀ (f : Nat) (q seen r : List Nat),
    walkGen push g f q seen = some r → seen.Nodup → r.Nodup := by
  intro f
  induction f with
  | zero =>
    intro q seen r h hn
    cases q with
    | nil => simp [walkGen] at h; subst h; exact hn
    | cons x rest => simp [walkGen] at h
  | succ n ih =>
    intro q seen r h hn
    cases q with
    | nil => simp [walkGen] at h; subst h; exact hn
    | cons x rest =>
      simp only [walkGen] at h
      split at h
      · exact ih rest seen r h hn
      · rename_i hx
        exact ih _ _ r h (List.nodup_cons.mpr ⟨by simpa using hx, hn⟩)

/-! ### termination -/

/-- work still to do for the nodes not yet seen -/
def budget (g : Adj) : List Nat → List Nat → Nat
  | [], _ => 0
  | a :: t, seen => (if a ∈ seen then 0 else 1 + (g a).length) + budget g t seen

theorem budget_cons_not_mem (g : Adj) (x : Nat) : ∀ (L seen : List Nat), x ∉ L →
    budget g L (x :: seen) = budget g L seen := by
  intro L
  induction L with
  | nil => intro seen _; rfl
  | cons a t ih =>
    intro seen hx
    have hax : a ≠ x := fun h => hx (by simp [h])
    have hxt : x ∉ t := fun h => hx (List.mem_cons_of_mem _ h)
    simp only [budget, ih seen hxt, List.mem_cons, hax, false_or]

theorem budget_cons (g : Adj) (x : Nat) : ∀ (L seen : List Nat), L.Nodup → x ∈ L → x ∉ seen →
    budget g L (x :: seen) + (1 + (g x).length) = budget g L seen := by
  intro L
  induction L with
  | nil => intro seen _ hx; simp at hx
  | cons a t ih =>
    intro seen hn hx hs
    obtain ⟨hat, hnt⟩ := List.nodup_cons.mp hn
    by_cases hax : a = x
    · subst hax
      simp only [budget, budget_cons_not_mem g a t seen hat, List.mem_cons, true_or, if_true, hs,
        if_false]
      omega
    · have hxt : x ∈ t := by
        rcases List.mem_cons.mp hx with h | h
        · exact absurd h.symm hax
        · exact h
      have := ih seen hnt hxt hs
      simp only [budget, List.mem_cons, hax, false_or]
      omega

theorem walk_terminates (push) (hp : GoodPush push) (g : Adj) (L : List Nat) (hL : L.Nodup)
    (hg : ∀ x ∈ L, ∀ t ∈ g x, t ∈ L) : ∀ (f : Nat) (q seen : List Nat), (∀ x ∈ q, x ∈ L) →
    q.length + budget g L seen < f → ∃ r, walkGen push g f q seen = some r := by
  intro f
  induction f with
  | zero => intro q seen _ h; omega
  | succ n ih =>
    intro q seen hq hf
    cases q with
    | nil => exact ⟨seen, by simp [walkGen]⟩
    | cons x rest =>
      simp only [walkGen]
      split
      · exact ih rest seen (fun y hy => hq y (List.mem_cons_of_mem _ hy)) (by simp at hf; omega)
      · rename_i hx
        have hxs : x ∉ seen := by simpa using hx
        have hxL : x ∈ L := hq x (by simp)
        have hb := budget_cons g x L seen hL hxL hxs
        apply ih
        · intro y hy
          rcases (hp.1 _ _ _).mp hy with h | h
          · exact hq y (List.mem_cons_of_mem _ h)
          · exact hg x hxL y h
        · rw [hp.2]; simp at hf; omega

theorem budget_le (g : Adj) (L seen : List Nat) :
    budget g L seen ≤ (L.map (fun x => 1 + (g x).length)).sum := by
  induction L with
  | nil => simp [budget]
  | cons a t ih =>
    simp only [budget, List.map_cons, List.sum_cons]
    split <;> omega

/-- the fuel used by the model always suffices -/
theorem walkFuel_suffices (push) (hp : GoodPush push) (g : Adj) (n : Nat) (hr : InRange g n)
    (q0 : List Nat) (hq : ∀ x ∈ q0, x < n) :
    ∃ r, walkGen push g (walkFuel g n q0) q0 [] = some r := by
  apply walk_terminates push hp g (List.range n) List.nodup_range
  · intro x _ t ht; simpa using hr x t ht
  · intro x hx; simpa using hq x hx
  · have := budget_le g (List.range n) []
    unfold walkFuel; omega

end WnVerif.Graph
