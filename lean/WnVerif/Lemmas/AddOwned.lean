/- Child rows owned by a synset or a sense (definitions, examples, counts): the rows one
`addLexicon` writes, and a generic evaluation of the "rows of this owner" queries on them. -/
import WnVerif.Lemmas.AddSenses
namespace WnVerif.Db
open WnVerif WnVerif.Doc

theorem Forall2.flatten_blocks {α γ ρ} (items : α → List γ) (Rel : γ → ρ → Prop) :
    ∀ {l : List α} {rss : List (List ρ)}, Forall2 (fun a rs => Forall2 Rel (items a) rs) l rss →
      Forall2 Rel (l.flatMap items) rss.flatten := by
  intro l rss h
  induction h with
  | nil => exact Forall2.nil
  | cons h0 _ ih =>
    simp only [List.flatMap_cons, List.flatten_cons]
    exact Forall2.append h0 ih

/-- the rows of one owner among freshly written child rows = the document's children listed under
the owner's id, in order (`look` resolves an id to the owner's rowid and is injective) -/
theorem owned_rows_filter {π ρ τ} (look : String → Option Nat)
    (hinj : ∀ i j x, look i = some x → look j = some x → i = j)
    (owner : ρ → Nat) (oid : π → String) (payR : ρ → τ) (payD : π → τ) :
    ∀ {pairs : List π} {rows : List ρ}, Forall2 (fun p r => look (oid p) = some (owner r) ∧ payR r = payD p) pairs rows →
      ∀ (sid : String) (x0 : Nat), look sid = some x0 →
        (rows.filter (fun r => owner r == x0)).map payR = (pairs.filter (fun p => oid p == sid)).map payD := by
  intro pairs rows h
  induction h with
  | nil => intro _ _ _; rfl
  | @cons p r ps rs h0 _ ih =>
    intro sid x0 hx0
    have ih' := ih sid x0 hx0
    simp only [List.filter_cons]
    by_cases e : oid p = sid
    · have : owner r = x0 := by
        have := h0.1; rw [e, hx0] at this; exact (Option.some.inj this).symm
      simp [e, this, ih', h0.2]
    · have : owner r ≠ x0 := by
        intro q
        exact e (hinj _ _ _ (by rw [h0.1, q]) hx0)
      have q1 : (owner r == x0) = false := by simpa using this
      have q2 : (oid p == sid) = false := by simpa using e
      simp [q1, q2, ih']

/-- resolving ids in a table with unique rowids is injective -/
theorem synsetRowY'_inj (Y : List RSynset) (hn : (Y.map (·.rowid)).Nodup) (lid : String → Nat) :
    ∀ i j x, synsetRowY' Y i (lid i) = some x → synsetRowY' Y j (lid j) = some x → i = j := by
  intro i j x hi hj
  obtain ⟨a, _, ha, hai, _, har⟩ := synsetRowY'_some _ _ _ _ hi
  obtain ⟨b, _, hb, hbi, _, hbr⟩ := synsetRowY'_some _ _ _ _ hj
  have := mem_eq_of_rowid Y hn a ha b hb (by rw [har, hbr])
  rw [← hai, ← hbi, this]

theorem senseRowS'_some' (S : List RSense) (id : String) (lex x : Nat) (h : senseRowS' S id lex = some x) :
    ∃ r, r ∈ S ∧ r.id = id ∧ r.lex = lex ∧ r.rowid = x := by
  unfold senseRowS' at h
  cases hf : S.find? (fun r => r.id == id && r.lex == lex) with
  | none => simp [hf] at h
  | some r =>
    simp only [hf, Option.map_some, Option.some.injEq] at h
    have hp := List.find?_some hf
    simp only [Bool.and_eq_true, beq_iff_eq] at hp
    exact ⟨r, List.mem_of_find?_eq_some hf, hp.1, hp.2, h⟩

theorem senseRowS'_inj (S : List RSense) (hn : (S.map (·.rowid)).Nodup) (lid : String → Nat) :
    ∀ i j x, senseRowS' S i (lid i) = some x → senseRowS' S j (lid j) = some x → i = j := by
  intro i j x hi hj
  obtain ⟨a, ha, hai, _, har⟩ := senseRowS'_some' _ _ _ _ hi
  obtain ⟨b, hb, hbi, _, hbr⟩ := senseRowS'_some' _ _ _ _ hj
  have := mem_eq_of_key (·.rowid) S hn a ha b hb (by rw [har, hbr])
  rw [← hai, ← hbi, this]

/-! ### the three loops of `insertDefsExamples` -/

theorem insertDefsExamples_split (l : Lexicon) (c : Ctx) (b b' : Db) (h : insertDefsExamples b l c = .ok b') :
    ∃ b1 b2, l.synsets.foldlM (fun db ss => ss.definitions.foldlM (defStep c ss) db) b = .ok b1 ∧
      l.entries.foldlM (fun db e => e.senses.foldlM (fun db s => s.examples.foldlM (senseExampleStep c s) db) db) b1 = .ok b2 ∧
      l.synsets.foldlM (fun db ss => ss.examples.foldlM (synsetExampleStep c ss) db) b2 = .ok b' := by
  unfold insertDefsExamples at h
  simp only [bind, Except.bind] at h
  cases h1 : l.synsets.foldlM (fun db ss => ss.definitions.foldlM (defStep c ss) db) b with
  | error x => rw [h1] at h; simp at h
  | ok b1 =>
    rw [h1] at h
    simp only at h
    cases h2 : l.entries.foldlM (fun db e => e.senses.foldlM (fun db s => s.examples.foldlM (senseExampleStep c s) db) db) b1 with
    | error x => rw [h2] at h; simp at h
    | ok b2 =>
      rw [h2] at h
      exact ⟨b1, b2, rfl, h2, h⟩

def defPairs (l : Lexicon) : List (Synset × Definition) := l.synsets.flatMap (fun ss => ss.definitions.map (fun d => (ss, d)))
def synExPairs (l : Lexicon) : List (Synset × Example) := l.synsets.flatMap (fun ss => ss.examples.map (fun x => (ss, x)))
def senseExPairs (l : Lexicon) : List (Sense × Example) :=
  l.entries.flatMap (fun e => e.senses.flatMap (fun s => s.examples.map (fun x => (s, x))))

def DefRowOf (c : Ctx) (Y : List RSynset) (ss : Synset) (d : Definition) (row : RDef) : Prop :=
  row.lex = c.lexid ∧ synsetRowY' Y ss.id (c.lid ss.id) = some row.synset ∧ row.text = d.text ∧ row.language = d.language ∧ row.md = d.md
def SynExRowOf (c : Ctx) (Y : List RSynset) (ss : Synset) (x : Example) (row : RExample) : Prop :=
  row.lex = c.lexid ∧ synsetRowY' Y ss.id (c.lid ss.id) = some row.owner ∧ row.text = x.text ∧ row.language = x.language ∧ row.md = x.md
def SenseExRowOf (c : Ctx) (S : List RSense) (s : Sense) (x : Example) (row : RExample) : Prop :=
  row.lex = c.lexid ∧ senseRowS' S s.id (c.lid s.id) = some row.owner ∧ row.text = x.text ∧ row.language = x.language ∧ row.md = x.md

theorem defStep_ok (c : Ctx) (ss : Synset) (b : Db) (d : Definition) (b' : Db) (h : defStep c ss b d = .ok b') :
    b'.synsets = b.synsets ∧ ∃ row, b'.defs = b.defs ++ [row] ∧ DefRowOf c b.synsets ss d row := by
  unfold defStep at h
  simp only [bind, Except.bind, need, pure, Except.pure] at h
  cases h1 : synsetRow b ss.id (c.lid ss.id) with
  | none => simp [h1] at h
  | some sr =>
    simp only [h1, Except.ok.injEq] at h
    subst h
    exact ⟨rfl, _, rfl, rfl, h1, rfl, rfl, rfl⟩

theorem synsetExampleStep_ok (c : Ctx) (ss : Synset) (b : Db) (x : Example) (b' : Db) (h : synsetExampleStep c ss b x = .ok b') :
    b'.synsets = b.synsets ∧ ∃ row, b'.synexs = b.synexs ++ [row] ∧ SynExRowOf c b.synsets ss x row := by
  unfold synsetExampleStep at h
  simp only [bind, Except.bind, need, pure, Except.pure] at h
  cases h1 : synsetRow b ss.id (c.lid ss.id) with
  | none => simp [h1] at h
  | some sr =>
    simp only [h1, Except.ok.injEq] at h
    subst h
    exact ⟨rfl, _, rfl, rfl, h1, rfl, rfl, rfl⟩

theorem senseExampleStep_ok (c : Ctx) (s : Sense) (b : Db) (x : Example) (b' : Db) (h : senseExampleStep c s b x = .ok b') :
    b'.senses = b.senses ∧ ∃ row, b'.sensexs = b.sensexs ++ [row] ∧ SenseExRowOf c b.senses s x row := by
  unfold senseExampleStep at h
  simp only [bind, Except.bind, need, pure, Except.pure] at h
  cases h1 : senseRow b s.id (c.lid s.id) with
  | none => simp [h1] at h
  | some sr =>
    simp only [h1, Except.ok.injEq] at h
    subst h
    exact ⟨rfl, _, rfl, rfl, h1, rfl, rfl, rfl⟩

/-- the tables that no pass before `insertDefsExamples` touches -/
theorem addLexicon_pre_defs {norm : String → String} {dr : Nat} {db db' : Db} {l : Lexicon}
    (t : AddTrace norm dr db db' l) :
    t.d8.defs = db.defs ∧ t.d8.synexs = db.synexs ∧ t.d8.sensexs = db.sensexs := by
  let c : Ctx := ⟨t.lexid, t.extid, externalIds l⟩
  let π : Db → List RDef × List RExample × List RExample := fun b => (b.defs, b.synexs, b.sensexs)
  have k1 : π t.d1 = π (updateLookups db l) := by
    have h := t.hlex
    unfold insertLexicon at h
    simp only [bind, Except.bind, pure, Except.pure] at h
    split at h
    · simp [throw, throwThe, MonadExcept.throw] at h
    · split at h
      · split at h
        · simp at h
        · simp only [Except.ok.injEq, Prod.mk.injEq] at h
          obtain ⟨h, _, _⟩ := h; rw [← h]
      · simp only [Except.ok.injEq, Prod.mk.injEq] at h
        obtain ⟨h, _, _⟩ := h; rw [← h]
  have k2 : π t.d2 = π t.d1 := keepsGF_insertSynsets π l c (fun p => by keepsG_step presupStep)
    (by keepsG_step synsetStep) (by keepsG_step piliStep) _ _ t.hsyn
  have k3 : π t.d3 = π t.d2 := keepsGF_insertEntries π l c (by keepsG_step entryStep) _ _ t.hent
  have k4 : π t.d4 = π t.d3 := keepsGF_insertForms π (fun _ _ => rfl) norm l c _ _ t.hform
  have k5 : π t.d5 = π t.d4 := keepsGF_insertPronsTags π l c (fun _ _ _ => by keepsG_step pronStep)
    (fun _ _ _ => by keepsG_step tagStep) _ _ t.hpt
  have k6 : π t.d6 = π t.d5 := keepsGF_insertSenses π l c dr (fun _ => by keepsG_step senseStep)
    (by keepsG_step adjStep) (fun _ => by keepsG_step countStep) _ _ t.hsen
  have k7 : π t.d7 = π t.d6 := keepsGF_insertSbs π t.sbs c (by keepsG_step sbStep) (fun _ => by keepsG_step sbSenseStep) _ _ t.hsb
  have k8 : π t.d8 = π t.d7 := keepsGF_insertRelations π l c (fun _ => by keepsG_step synRelStep)
    (by keepsG_step senseRelStep) (by keepsG_step senseSynRelStep) _ _ t.hrel
  have : π t.d8 = (db.defs, db.synexs, db.sensexs) := by
    rw [k8, k7, k6, k5, k4, k3, k2, k1]; rfl
  exact ⟨congrArg (fun x => x.1) this, congrArg (fun x => x.2.1) this, congrArg (fun x => x.2.2) this⟩

/-- **definitions and examples after one `addLexicon`** -/
theorem addLexicon_defs_tables {norm : String → String} {dr : Nat} {db db' : Db} {l : Lexicon}
    (t : AddTrace norm dr db db' l) :
    (∃ rows, db'.defs = db.defs ++ rows ∧
      Forall2 (fun (p : Synset × Definition) row => DefRowOf t.ctx db'.synsets p.1 p.2 row) (defPairs l) rows) ∧
    (∃ rows, db'.synexs = db.synexs ++ rows ∧
      Forall2 (fun (p : Synset × Example) row => SynExRowOf t.ctx db'.synsets p.1 p.2 row) (synExPairs l) rows) ∧
    (∃ rows, db'.sensexs = db.sensexs ++ rows ∧
      Forall2 (fun (p : Sense × Example) row => SenseExRowOf t.ctx db'.senses p.1 p.2 row) (senseExPairs l) rows) := by
  let c : Ctx := ⟨t.lexid, t.extid, externalIds l⟩
  obtain ⟨pd, py, ps⟩ := addLexicon_pre_defs t
  obtain ⟨b1, b2, h1, h2, h3⟩ := insertDefsExamples_split l c _ _ t.hdx
  -- loop 1: definitions
  obtain ⟨f1, rows1, hr1, hF1⟩ := foldlM_rows_nested (fun d => d.defs) (fun d => d.synsets) (fun (ss : Synset) => ss.definitions)
    (fun ss => defStep c ss) (fun Y ss d row => DefRowOf c Y ss d row)
    (fun ss b d b' hh => defStep_ok c ss b d b' hh) l.synsets _ _ h1
  let πa : Db → List RExample × List RExample × List RSense := fun b => (b.synexs, b.sensexs, b.senses)
  have a1 : πa b1 = πa t.d8 := keepsGF_fold πa _ (keepsG_nested πa (fun (ss : Synset) => ss.definitions) (fun ss => defStep c ss)
    (fun _ => by keepsG_step defStep)) _ _ _ h1
  -- loop 2: sense examples
  obtain ⟨f2, rss2, hr2, hF2⟩ := foldlM_rowsL (fun d => d.sensexs) (fun d => d.senses)
    (fun db (e : Entry) => e.senses.foldlM (fun db s => s.examples.foldlM (senseExampleStep c s) db) db)
    (fun S e rs => Forall2 (fun (p : Sense × Example) row => SenseExRowOf c S p.1 p.2 row) (e.senses.flatMap (fun s => s.examples.map (fun x => (s, x)))) rs)
    (fun b e b' hh => by
      obtain ⟨g1, rows, g2, g3⟩ := foldlM_rows_nested (fun d => d.sensexs) (fun d => d.senses) (fun (s : Sense) => s.examples)
        (fun s => senseExampleStep c s) (fun S s x row => SenseExRowOf c S s x row)
        (fun s b x b' hh => senseExampleStep_ok c s b x b' hh) e.senses b b' hh
      exact ⟨g1, rows, g2, g3⟩) l.entries _ _ h2
  have hF2' := Forall2.flatten_blocks (fun (e : Entry) => e.senses.flatMap (fun s => s.examples.map (fun x => (s, x)))) _ hF2
  let πb : Db → List RDef × List RExample × List RSynset := fun b => (b.defs, b.synexs, b.synsets)
  have b2k : πb b2 = πb b1 := by
    apply keepsGF_fold πb _ _ _ _ _ h2
    apply keepsG_nested πb (fun (e : Entry) => e.senses) (fun _ db s => s.examples.foldlM (senseExampleStep c s) db)
    intro _
    exact fun b s b' h => fold_keepsG πb _ (by keepsG_step senseExampleStep) b s.examples b' h
  -- loop 3: synset examples
  obtain ⟨f3, rows3, hr3, hF3⟩ := foldlM_rows_nested (fun d => d.synexs) (fun d => d.synsets) (fun (ss : Synset) => ss.examples)
    (fun ss => synsetExampleStep c ss) (fun Y ss x row => SynExRowOf c Y ss x row)
    (fun ss b x b' hh => synsetExampleStep_ok c ss b x b' hh) l.synsets _ _ h3
  let πc : Db → List RDef × List RExample × List RSense := fun b => (b.defs, b.sensexs, b.senses)
  have c3 : πc db' = πc b2 := keepsGF_fold πc _ (keepsG_nested πc (fun (ss : Synset) => ss.examples) (fun ss => synsetExampleStep c ss)
    (fun _ => by keepsG_step synsetExampleStep)) _ _ _ h3
  -- assemble
  have yb1 : b1.synsets = t.d8.synsets := f1
  have yb2 : b2.synsets = b1.synsets := congrArg (fun x => x.2.2) b2k
  have yfin : db'.synsets = b2.synsets := f3
  have sb1 : b1.senses = t.d8.senses := congrArg (fun x => x.2.2) a1
  have sb2 : b2.senses = b1.senses := f2
  have sfin : db'.senses = b2.senses := congrArg (fun x => x.2.2) c3
  refine ⟨⟨rows1, ?_, ?_⟩, ⟨rows3, ?_, ?_⟩, ⟨rss2.flatten, ?_, ?_⟩⟩
  · have e1 : db'.defs = b2.defs := congrArg (fun x => x.1) c3
    have e2 : b2.defs = b1.defs := congrArg (fun x => x.1) b2k
    rw [e1, e2, hr1, pd]
  · have : db'.synsets = t.d8.synsets := by rw [yfin, yb2, yb1]
    rw [this]; exact hF1
  · have e2 : b2.synexs = b1.synexs := congrArg (fun x => x.2.1) b2k
    have e3 : b1.synexs = t.d8.synexs := congrArg (fun x => x.1) a1
    rw [hr3, e2, e3, py]
  · have : db'.synsets = b2.synsets := yfin
    rw [this]; exact hF3
  · have e1 : db'.sensexs = b2.sensexs := congrArg (fun x => x.2.1) c3
    have e3 : b1.sensexs = t.d8.sensexs := congrArg (fun x => x.2.1) a1
    rw [e1, hr2, e3, ps]
  · have : db'.senses = b1.senses := by rw [sfin, sb2]
    rw [this]
    exact hF2'

/-! ### counts -/

def countPairs (l : Lexicon) : List (Sense × Count) :=
  l.entries.flatMap (fun e => e.senses.flatMap (fun s => s.counts.map (fun x => (s, x))))

def CountRowOf (c : Ctx) (S : List RSense) (s : Sense) (x : Count) (row : RCount) : Prop :=
  row.lex = c.lexid ∧ senseRowS' S s.id (c.lid s.id) = some row.sense ∧ row.value = x.value ∧ row.md = x.md

theorem countStep_ok (c : Ctx) (s : Sense) (b : Db) (x : Count) (b' : Db) (h : countStep c s b x = .ok b') :
    b'.senses = b.senses ∧ ∃ row, b'.counts = b.counts ++ [row] ∧ CountRowOf c b.senses s x row := by
  unfold countStep at h
  simp only [bind, Except.bind, need, pure, Except.pure] at h
  cases h1 : senseRow b s.id (c.lid s.id) with
  | none => simp [h1] at h
  | some sr =>
    simp only [h1, Except.ok.injEq] at h
    subst h
    exact ⟨rfl, _, rfl, rfl, h1, rfl, rfl⟩

/-- **the `counts` table after one `addLexicon`** -/
theorem addLexicon_counts_table {norm : String → String} {dr : Nat} {db db' : Db} {l : Lexicon}
    (t : AddTrace norm dr db db' l) :
    ∃ rows, db'.counts = db.counts ++ rows ∧
      Forall2 (fun (p : Sense × Count) row => CountRowOf t.ctx db'.senses p.1 p.2 row) (countPairs l) rows := by
  let c : Ctx := ⟨t.lexid, t.extid, externalIds l⟩
  let π : Db → List RCount := fun b => b.counts
  have k1 : π t.d1 = π (updateLookups db l) := by
    have h := t.hlex
    unfold insertLexicon at h
    simp only [bind, Except.bind, pure, Except.pure] at h
    split at h
    · simp [throw, throwThe, MonadExcept.throw] at h
    · split at h
      · split at h
        · simp at h
        · simp only [Except.ok.injEq, Prod.mk.injEq] at h
          obtain ⟨h, _, _⟩ := h; rw [← h]
      · simp only [Except.ok.injEq, Prod.mk.injEq] at h
        obtain ⟨h, _, _⟩ := h; rw [← h]
  have k2 : π t.d2 = π t.d1 := keepsGF_insertSynsets π l c (fun p => by keepsG_step presupStep)
    (by keepsG_step synsetStep) (by keepsG_step piliStep) _ _ t.hsyn
  have k3 : π t.d3 = π t.d2 := keepsGF_insertEntries π l c (by keepsG_step entryStep) _ _ t.hent
  have k4 : π t.d4 = π t.d3 := keepsGF_insertForms π (fun _ _ => rfl) norm l c _ _ t.hform
  have k5 : π t.d5 = π t.d4 := keepsGF_insertPronsTags π l c (fun _ _ _ => by keepsG_step pronStep)
    (fun _ _ _ => by keepsG_step tagStep) _ _ t.hpt
  obtain ⟨b1, b2, h1, h2, h3⟩ := insertSenses_split l c dr _ _ t.hsen
  have s1 : π b1 = π t.d5 := keepsGF_fold π _ (keepsG_nested π (fun (e : Entry) => (localSenses e).zipIdx) (fun e => senseStep l c dr e)
    (fun _ => by keepsG_step senseStep)) _ _ _ h1
  have s2 : π b2 = π b1 := keepsGF_fold π _ (keepsG_nested π (fun e => localSenses e) (fun _ => adjStep c) (fun _ => by keepsG_step adjStep)) _ _ _ h2
  obtain ⟨f3, rss, hr, hF⟩ := foldlM_rowsL (fun d => d.counts) (fun d => d.senses)
    (fun db (e : Entry) => e.senses.foldlM (fun db s => s.counts.foldlM (countStep c s) db) db)
    (fun S e rs => Forall2 (fun (p : Sense × Count) row => CountRowOf c S p.1 p.2 row) (e.senses.flatMap (fun s => s.counts.map (fun x => (s, x)))) rs)
    (fun b e b' hh => by
      obtain ⟨g1, rows, g2, g3⟩ := foldlM_rows_nested (fun d => d.counts) (fun d => d.senses) (fun (s : Sense) => s.counts)
        (fun s => countStep c s) (fun S s x row => CountRowOf c S s x row)
        (fun s b x b' hh => countStep_ok c s b x b' hh) e.senses b b' hh
      exact ⟨g1, rows, g2, g3⟩) l.entries _ _ h3
  have hF' := Forall2.flatten_blocks (fun (e : Entry) => e.senses.flatMap (fun s => s.counts.map (fun x => (s, x)))) _ hF
  let π2 : Db → List RCount × List RSense := fun b => (b.counts, b.senses)
  have a7 : π2 t.d7 = π2 t.d6 := keepsGF_insertSbs π2 t.sbs c (by keepsG_step sbStep) (fun _ => by keepsG_step sbSenseStep) _ _ t.hsb
  have a8 : π2 t.d8 = π2 t.d7 := keepsGF_insertRelations π2 l c (fun _ => by keepsG_step synRelStep)
    (by keepsG_step senseRelStep) (by keepsG_step senseSynRelStep) _ _ t.hrel
  have a9 : π2 db' = π2 t.d8 := keepsGF_insertDefsExamples π2 l c (fun _ => by keepsG_step defStep)
    (fun _ => by keepsG_step senseExampleStep) (fun _ => by keepsG_step synsetExampleStep) _ _ t.hdx
  have hpost : π2 db' = π2 t.d6 := by rw [a9, a8, a7]
  have p1 : db'.counts = t.d6.counts := congrArg Prod.fst hpost
  have p2 : db'.senses = t.d6.senses := congrArg Prod.snd hpost
  have pre : b2.counts = db.counts := by
    show π b2 = _
    rw [s2, s1, k5, k4, k3, k2, k1]; rfl
  refine ⟨rss.flatten, by rw [p1, hr, pre], ?_⟩
  have : db'.senses = b2.senses := by rw [p2]; exact f3
  rw [this]
  exact hF'

end WnVerif.Db
