import WnVerif.Model.Validate
namespace WnVerif.Validate

theorem mem_keys_dictSet {α} (d : List (String × α)) (k : String) (v : α) (x : String) :
    x ∈ (dictSet d k v).map (·.1) ↔ x = k ∨ x ∈ d.map (·.1) := by
  unfold dictSet
  split
  · rename_i h
    simp only [List.any_eq_true, beq_iff_eq] at h
    obtain ⟨e, he, hk⟩ := h
    simp only [List.map_map, List.mem_map, Function.comp]
    constructor
    · rintro ⟨a, ha, rfl⟩
      by_cases hak : a.1 = k
      · simp [hak]
      · right; exact ⟨a, ha, by simp [hak]⟩
    · rintro (rfl | ⟨a, ha, rfl⟩)
      · exact ⟨e, he, by simp [hk]⟩
      · by_cases hak : a.1 = k
        · exact ⟨a, ha, by simp [hak]⟩
        · exact ⟨a, ha, by simp [hak]⟩
  · simp only [List.map_append, List.map_cons, List.map_nil, List.mem_append, List.mem_singleton]
    exact Or.comm

theorem mem_dictSet {α} (d : List (String × α)) (k : String) (v : α) (e : String × α) :
    e ∈ dictSet d k v → e = (k, v) ∨ e ∈ d := by
  unfold dictSet
  split
  · intro h
    simp only [List.mem_map] at h
    obtain ⟨a, ha, rfl⟩ := h
    by_cases hak : a.1 = k
    · left; simp [hak]
    · right; simpa [hak] using ha
  · intro h
    simp only [List.mem_append, List.mem_singleton] at h
    exact h.symm

/-- the key set of a dict built from pairs is the set of the pairs' keys -/
theorem mem_keys_dictOf {α} (pairs : List (String × α)) (x : String) :
    x ∈ (dictOf pairs).map (·.1) ↔ x ∈ pairs.map (·.1) := by
  unfold dictOf
  have : ∀ (ps d : List (String × α)),
      x ∈ (ps.foldl (fun d p => dictSet d p.1 p.2) d).map (·.1) ↔ x ∈ d.map (·.1) ∨ x ∈ ps.map (·.1) := by
    intro ps
    induction ps with
    | nil => intro d; simp
    | cons p t ih =>
      intro d
      simp only [List.foldl_cons, ih, mem_keys_dictSet, List.map_cons, List.mem_cons]
      constructor
      · rintro ((h | h) | h)
        · exact Or.inr (Or.inl h)
        · exact Or.inl h
        · exact Or.inr (Or.inr h)
      · rintro (h | h | h)
        · exact Or.inl (Or.inr h)
        · exact Or.inl (Or.inl h)
        · exact Or.inr h
  simpa using this pairs []

/-- every (key, context) of the dict is one of the pairs: the context is one the condition justifies -/
theorem mem_dictOf {α} (pairs : List (String × α)) (e : String × α) : e ∈ dictOf pairs → e ∈ pairs := by
  unfold dictOf
  have : ∀ (ps d : List (String × α)), e ∈ ps.foldl (fun d p => dictSet d p.1 p.2) d → e ∈ d ∨ e ∈ ps := by
    intro ps
    induction ps with
    | nil => intro d h; exact Or.inl h
    | cons p t ih =>
      intro d h
      simp only [List.foldl_cons] at h
      rcases ih _ h with h | h
      · rcases mem_dictSet d p.1 p.2 e h with h | h
        · right; rw [h]; simp
        · exact Or.inl h
      · exact Or.inr (List.mem_cons_of_mem _ h)
  intro h
  rcases this pairs [] h with h | h
  · simp at h
  · exact h

/-- keys of a dict are distinct -/
theorem dictSet_nodup {α} (d : List (String × α)) (k : String) (v : α) (h : (d.map (·.1)).Nodup) :
    ((dictSet d k v).map (·.1)).Nodup := by
  unfold dictSet
  split
  · have : (d.map (fun e => if e.1 == k then (k, v) else e)).map (·.1) = d.map (·.1) := by
      simp only [List.map_map]
      apply List.map_congr_left
      intro a _
      by_cases hak : a.1 = k <;> simp [hak]
    rw [this]; exact h
  · rename_i hn
    simp only [List.any_eq_true, beq_iff_eq, not_exists, not_and] at hn
    simp only [List.map_append, List.map_cons, List.map_nil]
    refine List.nodup_append.mpr ⟨h, by simp, ?_⟩
    intro a ha b hb
    simp at hb; subst hb
    obtain ⟨e, he, rfl⟩ := List.mem_map.mp ha
    exact hn e he

theorem dictOf_nodup {α} (pairs : List (String × α)) : ((dictOf pairs).map (·.1)).Nodup := by
  unfold dictOf
  have : ∀ (ps d : List (String × α)), (d.map (·.1)).Nodup →
      ((ps.foldl (fun d p => dictSet d p.1 p.2) d).map (·.1)).Nodup := by
    intro ps
    induction ps with
    | nil => intro d h; exact h
    | cons p t ih => intro d h; exact ih _ (dictSet_nodup d p.1 p.2 h)
  exact this pairs [] (by simp)

end WnVerif.Validate
