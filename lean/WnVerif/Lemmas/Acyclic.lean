/- `taxonomy_depth` on acyclic hypernym graphs: the `seen` shortcut is sound there. -/
import WnVerif.Model.Graph
import WnVerif.Lemmas.Paths
import WnVerif.Lemmas.ListAux
namespace WnVerif.Graph

/-- acyclic: some rank strictly decreases along every hypernym edge -/
def Acyclic (g : Adj) : Prop := ∃ rk : Nat → Nat, ∀ x t, t ∈ g x → rk t < rk x

/-- length of the longest hypernym chain starting at `x` (as computed by `relation_paths`) -/
def L (g : Adj) (n : Nat) (x : Nat) : Nat := listMax ((relPaths g (n + 1) x).map List.length)

theorem chain_rank (g : Adj) (rk : Nat → Nat) (hrk : ∀ x t, t ∈ g x → rk t < rk x) :
    ∀ (p : List Nat) (x : Nat), Chain g x p → (∀ y ∈ p, rk y < rk x) ∧ p.Nodup := by
  intro p
  induction p with
  | nil => intro x _; simp
  | cons y q ih =>
    intro x hc
    obtain ⟨hy, hq⟩ := hc
    obtain ⟨h1, h2⟩ := ih y hq
    have hyx := hrk x y hy
    refine ⟨?_, ?_⟩
    · intro z hz
      rcases List.mem_cons.mp hz with rfl | hz
      · exact hyx
      · exact Nat.lt_trans (h1 z hz) hyx
    · rw [List.nodup_cons]
      refine ⟨?_, h2⟩
      intro hm
      have := h1 y hm
      omega

theorem chain_last_min (g : Adj) (rk : Nat → Nat) (hrk : ∀ x t, t ∈ g x → rk t < rk x) :
    ∀ (p : List Nat) (x : Nat), Chain g x p → ∀ y ∈ x :: p, rk (p.getLastD x) ≤ rk y := by
  intro p
  induction p with
  | nil => intro x _ y hy; simp at hy; subst hy; exact Nat.le_refl _
  | cons a q ih =>
    intro x hc y hy
    obtain ⟨ha, hq⟩ := hc
    rw [List.getLastD_cons]
    have hlast : ∀ z ∈ a :: q, rk (q.getLastD a) ≤ rk z := ih a hq
    rcases List.mem_cons.mp hy with rfl | hy
    · have := hlast a List.mem_cons_self
      have := hrk _ a ha
      omega
    · exact hlast y hy

/-- in an acyclic graph `relation_paths` = the non-empty chains that end in a root -/
theorem mem_relPaths_acyclic (g : Adj) (n : Nat) (h : InRange g n) (hac : Acyclic g) (x : Nat) (p : List Nat) :
    p ∈ relPaths g (n + 1) x ↔ p ≠ [] ∧ Chain g x p ∧ g (p.getLastD x) = [] := by
  obtain ⟨rk, hrk⟩ := hac
  rw [mem_relPaths g n h]
  constructor
  · rintro ⟨hne, hc, _, _, hmax⟩
    refine ⟨hne, hc, ?_⟩
    cases hg : g (p.getLastD x) with
    | nil => rfl
    | cons t rest =>
      exfalso
      have ht : t ∈ g (p.getLastD x) := by rw [hg]; exact List.mem_cons_self
      have hlt := hrk _ t ht
      have hmin := chain_last_min g rk hrk p x hc
      have htm : t ∈ x :: p := by
        rcases hmax t ht with h1 | h1
        · simp at h1; subst h1; exact List.mem_cons_self
        · exact List.mem_cons_of_mem _ h1
      have := hmin t htm
      omega
  · rintro ⟨hne, hc, hroot⟩
    obtain ⟨hr, hnd⟩ := chain_rank g rk hrk p x hc
    refine ⟨hne, hc, hnd, ?_, ?_⟩
    · intro y hy hv
      simp at hv; subst hv
      have := hr y hy; omega
    · intro t ht; rw [hroot] at ht; simp at ht

/-- every node with a hypernym has a (non-empty) maximal chain -/
theorem relPaths_ne_nil (g : Adj) (n : Nat) (h : InRange g n) (hac : Acyclic g) :
    ∀ (x : Nat), g x ≠ [] → relPaths g (n + 1) x ≠ [] := by
  obtain ⟨rk, hrk⟩ := hac
  have hac' : Acyclic g := ⟨rk, hrk⟩
  have key : ∀ (k : Nat) (x : Nat), rk x ≤ k → g x ≠ [] → ∃ p, p ∈ relPaths g (n + 1) x := by
    intro k
    induction k with
    | zero =>
      intro x hk hne
      cases hg : g x with
      | nil => exact absurd hg hne
      | cons t _ =>
        have := hrk x t (by rw [hg]; exact List.mem_cons_self)
        omega
    | succ k ih =>
      intro x hk hne
      cases hg : g x with
      | nil => exact absurd hg hne
      | cons t rest =>
        have ht : t ∈ g x := by rw [hg]; exact List.mem_cons_self
        have hlt := hrk x t ht
        by_cases hgt : g t = []
        · exact ⟨[t], (mem_relPaths_acyclic g n h hac' x [t]).mpr ⟨by simp, ⟨ht, trivial⟩, by simpa using hgt⟩⟩
        · obtain ⟨q, hq⟩ := ih t (by omega) hgt
          obtain ⟨hqne, hqc, hqr⟩ := (mem_relPaths_acyclic g n h hac' t q).mp hq
          refine ⟨t :: q, (mem_relPaths_acyclic g n h hac' x (t :: q)).mpr ⟨by simp, ⟨ht, hqc⟩, ?_⟩⟩
          rw [List.getLastD_cons]
          exact hqr
  intro x hne hemp
  obtain ⟨p, hp⟩ := key (rk x) x (Nat.le_refl _) hne
  rw [hemp] at hp; simp at hp

theorem length_le_L (g : Adj) (n : Nat) (x : Nat) (p : List Nat) (hp : p ∈ relPaths g (n + 1) x) : p.length ≤ L g n x :=
  le_listMax _ _ (List.mem_map.mpr ⟨p, hp, rfl⟩)

/-- stepping to a hypernym loses at least one edge of the longest chain -/
theorem L_step (g : Adj) (n : Nat) (h : InRange g n) (hac : Acyclic g) (x y : Nat) (hy : y ∈ g x) :
    1 + L g n y ≤ L g n x := by
  by_cases hgy : g y = []
  · have hL : L g n y = 0 := by
      unfold L
      have : relPaths g (n + 1) y = [] := by
        simp [relPaths, hgy]
      rw [this]; rfl
    have := length_le_L g n x [y] ((mem_relPaths_acyclic g n h hac x [y]).mpr ⟨by simp, ⟨hy, trivial⟩, by simpa using hgy⟩)
    simp at this
    omega
  · have hne := relPaths_ne_nil g n h hac y hgy
    have hmem : L g n y ∈ (relPaths g (n + 1) y).map List.length := listMax_mem _ (by simpa using hne)
    obtain ⟨q, hq, hql⟩ := List.mem_map.mp hmem
    obtain ⟨hqne, hqc, hqr⟩ := (mem_relPaths_acyclic g n h hac y q).mp hq
    have := length_le_L g n x (y :: q) ((mem_relPaths_acyclic g n h hac x (y :: q)).mpr
      ⟨by simp, ⟨hy, hqc⟩, by rw [List.getLastD_cons]; exact hqr⟩)
    simp at this
    omega

/-- every node on a maximal chain from `x` has a longest chain at least one edge shorter than `x`'s -/
theorem L_on_path (g : Adj) (n : Nat) (h : InRange g n) (hac : Acyclic g) :
    ∀ (p : List Nat) (x : Nat), Chain g x p → ∀ y ∈ p, 1 + L g n y ≤ L g n x := by
  intro p
  induction p with
  | nil => intro x _ y hy; simp at hy
  | cons a q ih =>
    intro x hc y hy
    obtain ⟨ha, hq⟩ := hc
    have h1 := L_step g n h hac x a ha
    rcases List.mem_cons.mp hy with rfl | hy
    · exact h1
    · have := ih a hq y hy
      omega

/-- the longest chain from `x` goes through one of its hypernyms -/
theorem L_le_of_hypernyms (g : Adj) (n : Nat) (h : InRange g n) (hac : Acyclic g) (x d : Nat)
    (hd : ∀ y ∈ g x, 1 + L g n y ≤ d) : L g n x ≤ d := by
  by_cases hemp : relPaths g (n + 1) x = []
  · unfold L; rw [hemp]; exact Nat.zero_le _
  · have hmem : L g n x ∈ (relPaths g (n + 1) x).map List.length := listMax_mem _ (by simpa using hemp)
    obtain ⟨p, hp, hpl⟩ := List.mem_map.mp hmem
    obtain ⟨hne, hc, hr⟩ := (mem_relPaths_acyclic g n h hac x p).mp hp
    cases p with
    | nil => exact absurd rfl hne
    | cons y q =>
      obtain ⟨hy, hq⟩ := hc
      have hbound := hd y hy
      by_cases hqe : q = []
      · subst hqe
        simp at hpl
        omega
      · have hqm : q ∈ relPaths g (n + 1) y :=
          (mem_relPaths_acyclic g n h hac y q).mpr ⟨hqe, hq, by rw [List.getLastD_cons] at hr; exact hr⟩
        have := length_le_L g n y q hqm
        simp at hpl
        omega

end WnVerif.Graph
