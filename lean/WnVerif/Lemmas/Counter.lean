/- `Counter` / `_multiples` of `wn/validate.py`: an element is listed iff it occurs at least twice. -/
import WnVerif.Model.Validate
namespace WnVerif.Validate

def counterStep {κ} [BEq κ] (c : List (κ × Nat)) (x : κ) : List (κ × Nat) :=
  if c.any (fun e => e.1 == x) then c.map (fun e => if e.1 == x then (e.1, e.2 + 1) else e) else c ++ [(x, 1)]

theorem counter_eq {κ} [BEq κ] (l : List κ) : counter l = l.foldl counterStep [] := rfl

/-- the accumulator holds, for exactly the elements seen so far, their number of occurrences -/
def CounterInv {κ} [BEq κ] [LawfulBEq κ] (acc : List (κ × Nat)) (seen : List κ) : Prop :=
  (acc.map (·.1)).Nodup ∧ (∀ e ∈ acc, e.2 = seen.count e.1 ∧ e.1 ∈ seen) ∧ (∀ k ∈ seen, ∃ e ∈ acc, e.1 = k)

theorem counterStep_inv {κ} [BEq κ] [LawfulBEq κ] (acc : List (κ × Nat)) (seen : List κ) (x : κ)
    (h : CounterInv acc seen) : CounterInv (counterStep acc x) (seen ++ [x]) := by
  obtain ⟨h1, h2, h3⟩ := h
  unfold counterStep
  split
  · rename_i hany
    obtain ⟨e0, he0, hx0⟩ := List.any_eq_true.mp hany
    have hx0' : e0.1 = x := by simpa using hx0
    refine ⟨?_, ?_, ?_⟩
    · have : (acc.map (fun e => if e.1 == x then (e.1, e.2 + 1) else e)).map (·.1) = acc.map (·.1) := by
        rw [List.map_map]
        apply List.map_congr_left
        intro e _
        simp only [Function.comp]
        split <;> rfl
      rw [this]; exact h1
    · intro e he
      obtain ⟨e', he', rfl⟩ := List.mem_map.mp he
      obtain ⟨c1, c2⟩ := h2 e' he'
      by_cases hk : e'.1 = x
      · simp only [hk, beq_self_eq_true, if_true]
        refine ⟨?_, by simp⟩
        rw [List.count_append, c1, hk]
        simp
      · have : (e'.1 == x) = false := by simpa using hk
        simp only [this, Bool.false_eq_true, if_false]
        refine ⟨?_, by simp [c2]⟩
        rw [List.count_append, c1]
        have hz : [x].count e'.1 = 0 := List.count_eq_zero_of_not_mem (by simp; exact hk)
        rw [hz]; rfl
    · intro k hk
      rcases List.mem_append.mp hk with hk | hk
      · obtain ⟨e, he, hek⟩ := h3 k hk
        refine ⟨if e.1 == x then (e.1, e.2 + 1) else e, List.mem_map.mpr ⟨e, he, rfl⟩, ?_⟩
        split <;> exact hek
      · simp at hk; subst hk
        refine ⟨(e0.1, e0.2 + 1), List.mem_map.mpr ⟨e0, he0, by simp [hx0']⟩, hx0'⟩
  · rename_i hany
    have hnot : ∀ e ∈ acc, e.1 ≠ x := by
      intro e he hex
      apply hany
      exact List.any_eq_true.mpr ⟨e, he, by simp [hex]⟩
    have hxs : x ∉ seen := by
      intro hx
      obtain ⟨e, he, hek⟩ := h3 x hx
      exact hnot e he hek
    refine ⟨?_, ?_, ?_⟩
    · simp only [List.map_append, List.map_cons, List.map_nil]
      rw [List.nodup_append]
      refine ⟨h1, by simp, ?_⟩
      intro a ha b hb
      simp at hb; subst hb
      obtain ⟨e, he, hea⟩ := List.mem_map.mp ha
      intro e'; exact hnot e he (hea.trans e')
    · intro e he
      rcases List.mem_append.mp he with he | he
      · obtain ⟨c1, c2⟩ := h2 e he
        refine ⟨?_, by simp [c2]⟩
        rw [List.count_append, c1]
        have hne : e.1 ≠ x := hnot e he
        have hz : [x].count e.1 = 0 := List.count_eq_zero_of_not_mem (by simp; exact hne)
        rw [hz]; rfl
      · simp at he; subst he
        simp only
        refine ⟨?_, by simp⟩
        rw [List.count_append, List.count_eq_zero_of_not_mem hxs]
        simp
    · intro k hk
      rcases List.mem_append.mp hk with hk | hk
      · obtain ⟨e, he, hek⟩ := h3 k hk
        exact ⟨e, List.mem_append_left _ he, hek⟩
      · simp at hk; subst hk
        exact ⟨(k, 1), by simp, rfl⟩

theorem counter_inv {κ} [BEq κ] [LawfulBEq κ] (l : List κ) : CounterInv (counter l) l := by
  rw [counter_eq]
  have : ∀ (l acc seen : List _), CounterInv (κ := κ) acc seen → CounterInv (l.foldl counterStep acc) (seen ++ l) := by
    intro l
    induction l with
    | nil => intro acc seen h; simpa using h
    | cons x t ih =>
      intro acc seen h
      simp only [List.foldl_cons]
      have := ih _ _ (counterStep_inv acc seen x h)
      simpa [List.append_assoc] using this
  simpa using this l [] [] ⟨by simp, by simp, by simp⟩

/-- `_multiples(xs)` lists exactly the elements that occur at least twice, with their count -/
theorem mem_multiples {κ} [BEq κ] [LawfulBEq κ] (l : List κ) (k : κ) (c : Nat) :
    (k, c) ∈ multiples l ↔ c = l.count k ∧ 2 ≤ c := by
  obtain ⟨h1, h2, h3⟩ := counter_inv l
  unfold multiples
  simp only [List.mem_filter, decide_eq_true_eq]
  constructor
  · rintro ⟨hm, hc⟩
    exact ⟨(h2 _ hm).1, hc⟩
  · rintro ⟨rfl, hc⟩
    have hk : k ∈ l := List.count_pos_iff.mp (by omega)
    obtain ⟨e, he, hek⟩ := h3 k hk
    have := (h2 e he).1
    refine ⟨?_, hc⟩
    have : e = (k, l.count k) := by
      cases e with
      | mk a b => simp at hek this; subst hek; simp [this]
    rw [← this]; exact he

theorem mem_multiples_keys {κ} [BEq κ] [LawfulBEq κ] (l : List κ) (k : κ) :
    k ∈ (multiples l).map (·.1) ↔ 2 ≤ l.count k := by
  simp only [List.mem_map]
  constructor
  · rintro ⟨e, he, rfl⟩
    obtain ⟨h1, h2⟩ := (mem_multiples l e.1 e.2).mp he
    omega
  · intro h
    exact ⟨(k, l.count k), (mem_multiples l k _).mpr ⟨rfl, h⟩, rfl⟩

theorem exists_multiples_iff {κ} [BEq κ] [LawfulBEq κ] (l : List κ) (k : κ) :
    (∃ a, a ∈ multiples l ∧ a.1 = k) ↔ 2 ≤ l.count k := by
  rw [← mem_multiples_keys]
  simp only [List.mem_map]

end WnVerif.Validate
