/- The relation tables written by one `addLexicon`: generic "append-rows" fold lemmas, then the
rows of `synset_relations` / `sense_relations` in terms of the document. -/
import WnVerif.Model.Add
import WnVerif.Model.Query
import WnVerif.Lemmas.ForIn
import WnVerif.Lemmas.DbAux
import WnVerif.Lemmas.Forall2
import WnVerif.Lemmas.FrameG
import WnVerif.Lemmas.AddFrame
namespace WnVerif.Db
open WnVerif WnVerif.Doc

/-! ### generic: folds whose steps append rows to one table and keep a frame -/

/-- every step appends one row `r` to `tbl` with `Rel (frame before) a r` and keeps `frame` -/
theorem foldlM_rows1 {α ρ β} (tbl : Db → List ρ) (frame : Db → β) (f : Db → α → R Db) (Rel : β → α → ρ → Prop)
    (hstep : ∀ b a b', f b a = .ok b' → frame b' = frame b ∧ ∃ r, tbl b' = tbl b ++ [r] ∧ Rel (frame b) a r) :
    ∀ (l : List α) (b b' : Db), l.foldlM f b = .ok b' →
      frame b' = frame b ∧ ∃ rows, tbl b' = tbl b ++ rows ∧ Forall2 (Rel (frame b)) l rows := by
  intro l
  induction l with
  | nil =>
    intro b b' h
    simp only [List.foldlM_nil, pure, Except.pure, Except.ok.injEq] at h
    subst h
    exact ⟨rfl, [], by simp, Forall2.nil⟩
  | cons a t ih =>
    intro b b' h
    simp only [List.foldlM_cons, bind, Except.bind] at h
    cases h1 : f b a with
    | error x => rw [h1] at h; simp at h
    | ok b1 =>
      rw [h1] at h
      obtain ⟨hf1, r, ht1, hr⟩ := hstep b a b1 h1
      obtain ⟨hf2, rows, ht2, hrows⟩ := ih b1 b' h
      refine ⟨hf2.trans hf1, r :: rows, by rw [ht2, ht1]; simp, Forall2.cons hr ?_⟩
      rw [hf1] at hrows; exact hrows

/-- every step appends a block of rows -/
theorem foldlM_rowsL {α ρ β} (tbl : Db → List ρ) (frame : Db → β) (f : Db → α → R Db) (S : β → α → List ρ → Prop)
    (hstep : ∀ b a b', f b a = .ok b' → frame b' = frame b ∧ ∃ rs, tbl b' = tbl b ++ rs ∧ S (frame b) a rs) :
    ∀ (l : List α) (b b' : Db), l.foldlM f b = .ok b' →
      frame b' = frame b ∧ ∃ rss : List (List ρ), tbl b' = tbl b ++ rss.flatten ∧ Forall2 (S (frame b)) l rss := by
  intro l
  induction l with
  | nil =>
    intro b b' h
    simp only [List.foldlM_nil, pure, Except.pure, Except.ok.injEq] at h
    subst h
    exact ⟨rfl, [], by simp, Forall2.nil⟩
  | cons a t ih =>
    intro b b' h
    simp only [List.foldlM_cons, bind, Except.bind] at h
    cases h1 : f b a with
    | error x => rw [h1] at h; simp at h
    | ok b1 =>
      rw [h1] at h
      obtain ⟨hf1, rs, ht1, hr⟩ := hstep b a b1 h1
      obtain ⟨hf2, rss, ht2, hrows⟩ := ih b1 b' h
      refine ⟨hf2.trans hf1, rs :: rss, by rw [ht2, ht1]; simp, Forall2.cons hr ?_⟩
      rw [hf1] at hrows; exact hrows

theorem Forall2.flatten_pairs {α γ ρ} (items : α → List γ) (Rel : α → γ → ρ → Prop) :
    ∀ {l : List α} {rss : List (List ρ)}, Forall2 (fun a rs => Forall2 (Rel a) (items a) rs) l rss →
      Forall2 (fun (p : α × γ) r => Rel p.1 p.2 r) (l.flatMap (fun a => (items a).map (fun x => (a, x)))) rss.flatten := by
  intro l rss h
  induction h with
  | nil => exact Forall2.nil
  | @cons a rs l rss h0 _ ih =>
    simp only [List.flatMap_cons, List.flatten_cons]
    apply Forall2.append _ ih
    have key : ∀ (L : List γ) (Rs : List ρ), Forall2 (Rel a) L Rs →
        Forall2 (fun (p : α × γ) r => Rel p.1 p.2 r) (L.map (fun x => (a, x))) Rs := by
      intro L Rs hh
      induction hh with
      | nil => exact Forall2.nil
      | cons h1 _ ih' => exact Forall2.cons h1 ih'
    exact key _ _ h0

/-- nested loops (`for a in l: for x in items a: step`) appending one row per inner item -/
theorem foldlM_rows_nested {α γ ρ β} (tbl : Db → List ρ) (frame : Db → β) (items : α → List γ)
    (f : α → Db → γ → R Db) (Rel : β → α → γ → ρ → Prop)
    (hstep : ∀ a b x b', f a b x = .ok b' → frame b' = frame b ∧ ∃ r, tbl b' = tbl b ++ [r] ∧ Rel (frame b) a x r) :
    ∀ (l : List α) (b b' : Db), l.foldlM (fun db a => (items a).foldlM (f a) db) b = .ok b' →
      frame b' = frame b ∧ ∃ rows, tbl b' = tbl b ++ rows ∧
        Forall2 (fun (p : α × γ) r => Rel (frame b) p.1 p.2 r) (l.flatMap (fun a => (items a).map (fun x => (a, x)))) rows := by
  intro l b b' h
  obtain ⟨hf, rss, ht, hr⟩ := foldlM_rowsL tbl frame (fun db a => (items a).foldlM (f a) db)
    (fun fr a rs => Forall2 (Rel fr a) (items a) rs)
    (fun b a b' hh => foldlM_rows1 tbl frame (f a) (fun fr x r => Rel fr a x r) (hstep a) (items a) b b' hh) l b b' h
  exact ⟨hf, rss.flatten, ht, Forall2.flatten_pairs items (Rel (frame b)) hr⟩

theorem Forall2.filterMap_eq {α ρ τ} {Rel : α → ρ → Prop} (F : ρ → Option τ) (G : α → Option τ)
    (hFG : ∀ a r, Rel a r → F r = G a) : ∀ {l : List α} {rows : List ρ}, Forall2 Rel l rows →
      rows.filterMap F = l.filterMap G := by
  intro l rows h
  induction h with
  | nil => rfl
  | cons h0 _ ih => simp only [List.filterMap_cons, hFG _ _ h0, ih]

/-- de-duplicating an image by a key that is equivalent, on the list, to a key of the pre-image -/
theorem dedupBy_map_congr {α τ κ κ'} [BEq κ] [LawfulBEq κ] [BEq κ'] [LawfulBEq κ'] (f : α → τ) (k1 : τ → κ) (k2 : α → κ') :
    ∀ (l : List α), (∀ a ∈ l, ∀ b ∈ l, (k1 (f a) = k1 (f b) ↔ k2 a = k2 b)) →
      dedupBy k1 (l.map f) = (dedupBy k2 l).map f := by
  intro l
  induction l with
  | nil => intro _; rfl
  | cons a t ih =>
    intro h
    simp only [List.map_cons, dedupBy]
    rw [ih (fun x hx y hy => h x (List.mem_cons_of_mem _ hx) y (List.mem_cons_of_mem _ hy))]
    congr 1
    rw [List.filter_map]
    congr 1
    apply List.filter_congr
    intro x hx
    have hx' := mem_dedupBy k2 t x hx
    have := h x (List.mem_cons_of_mem _ hx') a List.mem_cons_self
    simp only [Function.comp]
    by_cases e : k2 x = k2 a
    · simp [e, this.mpr e]
    · have e' : ¬ k1 (f x) = k1 (f a) := fun q => e (this.mp q)
      have q1 : (k1 (f x) == k1 (f a)) = false := by simpa using e'
      have q2 : (k2 x == k2 a) = false := by simpa using e
      simp [q1, q2]

theorem Forall2.exists_of_mem_right {α β} {R : α → β → Prop} : ∀ {l : List α} {l' : List β}, Forall2 R l l' →
    ∀ b ∈ l', ∃ a ∈ l, R a b := by
  intro l l' h
  induction h with
  | nil => intro b hb; simp at hb
  | cons h0 _ ih =>
    intro b hb
    rcases List.mem_cons.mp hb with rfl | hb
    · exact ⟨_, List.mem_cons_self, h0⟩
    · obtain ⟨a, ha, hr⟩ := ih b hb
      exact ⟨a, List.mem_cons_of_mem _ ha, hr⟩

/-! ### lookup tables -/

theorem nextId_not_mem (ids : List Nat) : nextId ids ∉ ids := by
  have key : ∀ (l : List Nat), ∀ x ∈ l, x ≤ l.foldr max 0 := by
    intro l
    induction l with
    | nil => intro x hx; simp at hx
    | cons a t ih =>
      intro x hx
      simp only [List.foldr_cons]
      rcases List.mem_cons.mp hx with rfl | hx
      · omega
      · have := ih x hx; omega
  intro h
  have := key ids _ h
  unfold nextId at this
  omega

theorem lookupInsert_nodup (t : List (Nat × String)) (v : String) (h : (t.map (·.1)).Nodup) :
    ((lookupInsert t v).map (·.1)).Nodup := by
  unfold lookupInsert
  split
  · exact h
  · simp only [List.map_append, List.map_cons, List.map_nil]
    rw [List.nodup_append]
    refine ⟨h, by simp, ?_⟩
    intro a ha b hb
    simp only [List.mem_singleton] at hb
    subst hb
    intro e
    subst e
    exact nextId_not_mem _ ha

theorem foldl_lookupInsert_nodup (vs : List String) : ∀ (t : List (Nat × String)), (t.map (·.1)).Nodup →
    ((vs.foldl lookupInsert t).map (·.1)).Nodup := by
  induction vs with
  | nil => intro t h; exact h
  | cons v vs ih => intro t h; exact ih _ (lookupInsert_nodup t v h)

theorem updateLookups_reltypes_nodup (db : Db) (l : Lexicon) (h : (db.reltypes.map (·.1)).Nodup) :
    (((updateLookups db l).reltypes).map (·.1)).Nodup := by
  unfold updateLookups
  exact foldl_lookupInsert_nodup _ _ h

/-- with unique ids, the name stored under the id that `lookupId` returned is the name asked for -/
theorem lookupName_of_lookupId (t : List (Nat × String)) (h : (t.map (·.1)).Nodup) (v : String) (i : Nat)
    (hi : lookupId t v = some i) : lookupName t i = some v := by
  unfold lookupId at hi
  unfold lookupName
  cases hf : t.find? (fun r => r.2 == v) with
  | none => simp [hf] at hi
  | some r =>
    simp only [hf, Option.map_some, Option.some.injEq] at hi
    have hmem := List.mem_of_find?_eq_some hf
    have hv := List.find?_some hf
    simp only [beq_iff_eq] at hv
    have key : ∀ (T : List (Nat × String)), (T.map (·.1)).Nodup → ∀ x ∈ T, T.find? (fun y => y.1 == x.1) = some x := by
      intro T
      induction T with
      | nil => intro _ x hx; simp at hx
      | cons a T ih =>
        intro hn x hx
        simp only [List.map_cons, List.nodup_cons] at hn
        rcases List.mem_cons.mp hx with rfl | hx
        · simp
        · have hne : a.1 ≠ x.1 := fun e => hn.1 (List.mem_map.mpr ⟨x, hx, e.symm⟩)
          simp only [List.find?_cons]
          have : (a.1 == x.1) = false := by simpa using hne
          rw [this]
          exact ih hn.2 x hx
    rw [← hi, key t h r hmem]
    simp [hv]

/-! ### `synset_relations` -/

/-- the document's synset relations, as (source synset, relation), in the order `_insert_synset_relations` writes them -/
def synRelPairs (l : Lexicon) : List (Synset × Relation) :=
  l.synsets.flatMap (fun ss => ss.relations.map (fun r => (ss, r)))

def synsetRowY' (Y : List RSynset) (id : String) (lex : Nat) : Option Nat :=
  (Y.find? (fun r => r.id == id && r.lex == lex)).map (·.rowid)

theorem synsetRow_eq (db : Db) (id : String) (lex : Nat) : synsetRow db id lex = synsetRowY' db.synsets id lex := rfl

/-- the row written for relation `r` of synset `ss`, relative to fixed `synsets` / `relation_types` tables -/
def SynRelRowOf (c : Ctx) (fr : List RSynset × List (Nat × String)) (ss : Synset) (r : Relation) (row : RRel) : Prop :=
  row.lex = c.lexid ∧ synsetRowY' fr.1 ss.id (c.lid ss.id) = some row.source ∧
  synsetRowY' fr.1 r.target (c.lid r.target) = some row.target ∧ lookupId fr.2 r.relType = some row.type ∧ row.md = r.md

theorem synRelStep_ok (c : Ctx) (ss : Synset) (b : Db) (r : Relation) (b' : Db) (h : synRelStep c ss b r = .ok b') :
    (b'.synsets, b'.reltypes) = (b.synsets, b.reltypes) ∧
      ∃ row, b'.synrels = b.synrels ++ [row] ∧ SynRelRowOf c (b.synsets, b.reltypes) ss r row := by
  unfold synRelStep at h
  simp only [bind, Except.bind, need, pure, Except.pure] at h
  cases h1 : synsetRow b ss.id (c.lid ss.id) with
  | none => simp [h1] at h
  | some src =>
    cases h2 : synsetRow b r.target (c.lid r.target) with
    | none => simp [h1, h2] at h
    | some tgt =>
      cases h3 : lookupId b.reltypes r.relType with
      | none => simp [h1, h2, h3] at h
      | some ty =>
        simp only [h1, h2, h3, Except.ok.injEq] at h
        subst h
        exact ⟨rfl, _, rfl, rfl, h1, h2, h3, rfl⟩

theorem synRel_fold_rows (c : Ctx) (l : Lexicon) (b b' : Db)
    (h : l.synsets.foldlM (fun db ss => ss.relations.foldlM (synRelStep c ss) db) b = .ok b') :
    (b'.synsets, b'.reltypes) = (b.synsets, b.reltypes) ∧ ∃ rows, b'.synrels = b.synrels ++ rows ∧
      Forall2 (fun (p : Synset × Relation) row => SynRelRowOf c (b.synsets, b.reltypes) p.1 p.2 row) (synRelPairs l) rows :=
  foldlM_rows_nested (fun d => d.synrels) (fun d => (d.synsets, d.reltypes)) (fun (ss : Synset) => ss.relations)
    (fun ss => synRelStep c ss) (fun fr ss r row => SynRelRowOf c fr ss r row)
    (fun ss b r b' hh => synRelStep_ok c ss b r b' hh) l.synsets b b' h

/-- a rowid determines its row, hence the (id, lexicon) it was looked up by -/
theorem synsetRowY'_some (Y : List RSynset) (id : String) (lex x : Nat) (h : synsetRowY' Y id lex = some x) :
    ∃ r, Y.find? (fun r => r.id == id && r.lex == lex) = some r ∧ r ∈ Y ∧ r.id = id ∧ r.lex = lex ∧ r.rowid = x := by
  unfold synsetRowY' at h
  cases hf : Y.find? (fun r => r.id == id && r.lex == lex) with
  | none => simp [hf] at h
  | some r =>
    simp only [hf, Option.map_some, Option.some.injEq] at h
    have hp := List.find?_some hf
    simp only [Bool.and_eq_true, beq_iff_eq] at hp
    exact ⟨r, rfl, List.mem_of_find?_eq_some hf, hp.1, hp.2, h⟩

theorem mem_eq_of_rowid (Y : List RSynset) (hn : (Y.map (·.rowid)).Nodup) :
    ∀ a ∈ Y, ∀ b ∈ Y, a.rowid = b.rowid → a = b := by
  induction Y with
  | nil => intro a ha; simp at ha
  | cons y Y ih =>
    simp only [List.map_cons, List.nodup_cons] at hn
    intro a ha b hb e
    rcases List.mem_cons.mp ha with ha1 | ha1
    · rcases List.mem_cons.mp hb with hb1 | hb1
      · rw [ha1, hb1]
      · rw [ha1] at e; exact (hn.1 (List.mem_map.mpr ⟨b, hb1, e.symm⟩)).elim
    · rcases List.mem_cons.mp hb with hb1 | hb1
      · rw [hb1] at e; exact (hn.1 (List.mem_map.mpr ⟨a, ha1, e⟩)).elim
      · exact ih hn.2 a ha1 b hb1 e

theorem find_by_rowid_Y (Y : List RSynset) (hn : (Y.map (·.rowid)).Nodup) (x : RSynset) (hx : x ∈ Y) :
    Y.find? (fun y => y.rowid == x.rowid) = some x := by
  cases hf : Y.find? (fun y => y.rowid == x.rowid) with
  | none =>
    have := List.find?_eq_none.mp hf x hx
    simp at this
  | some y =>
    have hp := List.find?_some hf
    simp only [beq_iff_eq] at hp
    rw [mem_eq_of_rowid Y hn y (List.mem_of_find?_eq_some hf) x hx hp]

/-- generic versions for any table with a unique key column -/
theorem mem_eq_of_key {α κ} (key : α → κ) (Y : List α) (hn : (Y.map key).Nodup) :
    ∀ a ∈ Y, ∀ b ∈ Y, key a = key b → a = b := by
  induction Y with
  | nil => intro a ha; simp at ha
  | cons y Y ih =>
    simp only [List.map_cons, List.nodup_cons] at hn
    intro a ha b hb e
    rcases List.mem_cons.mp ha with ha1 | ha1
    · rcases List.mem_cons.mp hb with hb1 | hb1
      · rw [ha1, hb1]
      · rw [ha1] at e; exact (hn.1 (List.mem_map.mpr ⟨b, hb1, e.symm⟩)).elim
    · rcases List.mem_cons.mp hb with hb1 | hb1
      · rw [hb1] at e; exact (hn.1 (List.mem_map.mpr ⟨a, ha1, e⟩)).elim
      · exact ih hn.2 a ha1 b hb1 e

theorem find_by_key {α κ} [BEq κ] [LawfulBEq κ] (key : α → κ) (Y : List α) (hn : (Y.map key).Nodup) (x : α) (hx : x ∈ Y) :
    Y.find? (fun y => key y == key x) = some x := by
  cases hf : Y.find? (fun y => key y == key x) with
  | none =>
    have := List.find?_eq_none.mp hf x hx
    simp at this
  | some y =>
    have hp := List.find?_some hf
    simp only [beq_iff_eq] at hp
    rw [mem_eq_of_key key Y hn y (List.mem_of_find?_eq_some hf) x hx hp]

/-- the three loops of `_insert_synset_relations` / `_insert_sense_relations` -/
theorem insertRelations_split (l : Lexicon) (c : Ctx) (b b' : Db) (h : insertRelations b l c = .ok b') :
    ∃ b1 b2, l.synsets.foldlM (fun db ss => ss.relations.foldlM (synRelStep c ss) db) b = .ok b1 ∧
      ((allSenseRels l).filter (fun p => (l.entries.flatMap (fun e => e.senses.map (·.id))).contains p.2.target)).foldlM (senseRelStep c) b1 = .ok b2 ∧
      ((allSenseRels l).filter (fun p => !(l.entries.flatMap (fun e => e.senses.map (·.id))).contains p.2.target &&
          (l.synsets.map (·.id)).contains p.2.target)).foldlM (senseSynRelStep c) b2 = .ok b' := by
  unfold insertRelations at h
  simp only [bind, Except.bind] at h
  cases hh : l.synsets.foldlM (fun db ss => ss.relations.foldlM (synRelStep c ss) db) b with
  | error e => rw [hh] at h; simp at h
  | ok b1 =>
    rw [hh] at h
    simp only at h
    split at h
    · simp [throw, throwThe, MonadExcept.throw] at h
    · cases hh2 : List.foldlM (senseRelStep c) b1 ((allSenseRels l).filter (fun p => (l.entries.flatMap (fun e => e.senses.map (·.id))).contains p.2.target)) with
      | error e => rw [hh2] at h; simp at h
      | ok b2 =>
        rw [hh2] at h
        exact ⟨b1, b2, rfl, hh2, h⟩

theorem insertLexicon_keeps_rels (db db' : Db) (l : Lexicon) (lexid extid : Nat)
    (h : insertLexicon db l = .ok (db', lexid, extid)) :
    db'.synrels = db.synrels ∧ db'.senserels = db.senserels ∧ db'.sensesynrels = db.sensesynrels ∧
    db'.reltypes = db.reltypes ∧ db'.synsets = db.synsets ∧ db'.senses = db.senses := by
  unfold insertLexicon at h
  simp only [bind, Except.bind, pure, Except.pure] at h
  split at h
  · simp [throw, throwThe, MonadExcept.throw] at h
  · split at h
    · split at h
      · simp at h
      · simp only [Except.ok.injEq, Prod.mk.injEq] at h
        obtain ⟨h, _, _⟩ := h; subst h; exact ⟨rfl, rfl, rfl, rfl, rfl, rfl⟩
    · simp only [Except.ok.injEq, Prod.mk.injEq] at h
      obtain ⟨h, _, _⟩ := h; subst h; exact ⟨rfl, rfl, rfl, rfl, rfl, rfl⟩

/-- **the `synset_relations` table after one `addLexicon`**: the old rows, then one row per
`<SynsetRelation>` of the document in document order, each owned by the new lexicon, with source
and target resolved (in the final `synsets` table) to the rows carrying the source synset's id and
the target id, the type resolved in the final `relation_types`, and the metadata unaltered -/
theorem addLexicon_synrel_table {norm : String → String} {dr : Nat} {db db' : Db} {l : Lexicon}
    (t : AddTrace norm dr db db' l) :
    db'.reltypes = (updateLookups db l).reltypes ∧ db'.synsets = t.d2.synsets ∧
    ∃ rows, db'.synrels = db.synrels ++ rows ∧
      Forall2 (fun (p : Synset × Relation) row => SynRelRowOf t.ctx (db'.synsets, db'.reltypes) p.1 p.2 row) (synRelPairs l) rows := by
  let c : Ctx := ⟨t.lexid, t.extid, externalIds l⟩
  -- passes before the relations: synrels and reltypes untouched
  let π : Db → List RRel × List (Nat × String) := fun b => (b.synrels, b.reltypes)
  have k1 := insertLexicon_keeps_rels _ _ _ _ _ t.hlex
  have k2 : π t.d2 = π t.d1 := keepsGF_insertSynsets π l c (fun p => by keepsG_step presupStep)
    (by keepsG_step synsetStep) (by keepsG_step piliStep) _ _ t.hsyn
  have k3 : π t.d3 = π t.d2 := keepsGF_insertEntries π l c (by keepsG_step entryStep) _ _ t.hent
  have k4 : π t.d4 = π t.d3 := keepsGF_insertForms π (fun _ _ => rfl) norm l c _ _ t.hform
  have k5 : π t.d5 = π t.d4 := keepsGF_insertPronsTags π l c (fun _ _ _ => by keepsG_step pronStep)
    (fun _ _ _ => by keepsG_step tagStep) _ _ t.hpt
  have k6 : π t.d6 = π t.d5 := keepsGF_insertSenses π l c dr (fun _ => by keepsG_step senseStep)
    (by keepsG_step adjStep) (fun _ => by keepsG_step countStep) _ _ t.hsen
  have k7 : π t.d7 = π t.d6 := keepsGF_insertSbs π t.sbs c (by keepsG_step sbStep) (fun _ => by keepsG_step sbSenseStep) _ _ t.hsb
  have kpre : π t.d7 = (db.synrels, (updateLookups db l).reltypes) := by
    rw [k7, k6, k5, k4, k3, k2]
    show (t.d1.synrels, t.d1.reltypes) = _
    rw [k1.1, k1.2.2.2.1]
    rfl
  -- the synsets table is final after `_insert_synsets`
  have y3 := (keepsYF_insertEntries l c) _ _ t.hent
  have y4 := (keepsYF_insertForms norm l c) _ _ t.hform
  have y5 := (keepsYF_insertPronsTags l c) _ _ t.hpt
  have y6 := (keepsYF_insertSenses l c dr) _ _ t.hsen
  have y7 := (keepsYF_insertSbs t.sbs c) _ _ t.hsb
  have y8 := (keepsYF_insertRelations l c) _ _ t.hrel
  have y9 := (keepsYF_insertDefsExamples l c) _ _ t.hdx
  have hY : db'.synsets = t.d2.synsets := by
    rw [y9.1, y8.1, y7.1, y6.1, y5.1, y4.1, y3.1]
  have hY7 : t.d7.synsets = t.d2.synsets := by
    rw [y7.1, y6.1, y5.1, y4.1, y3.1]
  -- the relations pass
  obtain ⟨b1, b2, h1, h2, h3⟩ := insertRelations_split l c _ _ t.hrel
  obtain ⟨hfr, rows, hrows, hF⟩ := synRel_fold_rows c l _ _ h1
  let π3 : Db → List RRel × List (Nat × String) := fun b => (b.synrels, b.reltypes)
  have r2 : π3 b2 = π3 b1 := keepsGF_fold π3 _ (by keepsG_step senseRelStep) _ _ _ h2
  have r3 : π3 t.d8 = π3 b2 := keepsGF_fold π3 _ (by keepsG_step senseSynRelStep) _ _ _ h3
  have r4 : π3 db' = π3 t.d8 := keepsGF_insertDefsExamples π3 l c (fun _ => by keepsG_step defStep)
    (fun _ => by keepsG_step senseExampleStep) (fun _ => by keepsG_step synsetExampleStep) _ _ t.hdx
  have hpost : (db'.synrels, db'.reltypes) = (b1.synrels, b1.reltypes) := by
    show π3 db' = π3 b1
    rw [r4, r3, r2]
  have e1 : db'.synrels = b1.synrels := congrArg Prod.fst hpost
  have e2 : db'.reltypes = b1.reltypes := congrArg Prod.snd hpost
  have e3 : b1.reltypes = t.d7.reltypes := congrArg Prod.snd hfr
  have e4 : t.d7.synrels = db.synrels := congrArg Prod.fst kpre
  have e5 : t.d7.reltypes = (updateLookups db l).reltypes := congrArg Prod.snd kpre
  refine ⟨by rw [e2, e3, e5], hY, rows, by rw [e1, hrows, e4], ?_⟩
  have : (db'.synsets, db'.reltypes) = (t.d7.synsets, t.d7.reltypes) := by
    rw [hY, hY7, e2, e3]
  rw [this]
  exact hF

end WnVerif.Db
