import WnVerif.Model.Graph
namespace WnVerif.Graph

theorem foldl_max_ge_init (l : List Nat) : ∀ a, a ≤ l.foldl max a := by
  induction l with
  | nil => intro a; simp
  | cons b t ih => intro a; simp only [List.foldl_cons]; exact Nat.le_trans (Nat.le_max_left a b) (ih _)

theorem foldl_max_ge_mem (l : List Nat) : ∀ a, ∀ x ∈ l, x ≤ l.foldl max a := by
  induction l with
  | nil => intro a x hx; simp at hx
  | cons b t ih =>
    intro a x hx
    simp only [List.foldl_cons]
    rcases List.mem_cons.mp hx with rfl | hx
    · exact Nat.le_trans (Nat.le_max_right a x) (foldl_max_ge_init t _)
    · exact ih _ x hx

theorem foldl_max_mem (l : List Nat) : ∀ a, l.foldl max a = a ∨ l.foldl max a ∈ l := by
  induction l with
  | nil => intro a; simp
  | cons b t ih =>
    intro a
    simp only [List.foldl_cons]
    rcases ih (max a b) with h | h
    · rw [h]
      rcases Nat.le_total a b with hab | hab
      · right; rw [Nat.max_eq_right hab]; simp
      · left; exact Nat.max_eq_left hab
    · right; exact List.mem_cons_of_mem b h

theorem le_listMax (l : List Nat) : ∀ x ∈ l, x ≤ listMax l := foldl_max_ge_mem l 0

theorem listMax_mem (l : List Nat) (h : l ≠ []) : listMax l ∈ l := by
  rcases foldl_max_mem l 0 with h0 | hm
  · cases l with
    | nil => exact absurd rfl h
    | cons b t =>
      have hb := le_listMax (b :: t) b (by simp)
      unfold listMax at hb ⊢
      rw [h0] at hb ⊢
      have : b = 0 := by omega
      subst this; simp
  · exact hm

theorem foldl_min_le_init (l : List Nat) : ∀ a, l.foldl min a ≤ a := by
  induction l with
  | nil => intro a; simp
  | cons b t ih => intro a; simp only [List.foldl_cons]; exact Nat.le_trans (ih _) (Nat.min_le_left a b)

theorem foldl_min_le_mem (l : List Nat) : ∀ a, ∀ x ∈ l, l.foldl min a ≤ x := by
  induction l with
  | nil => intro a x hx; simp at hx
  | cons b t ih =>
    intro a x hx
    simp only [List.foldl_cons]
    rcases List.mem_cons.mp hx with rfl | hx
    · exact Nat.le_trans (foldl_min_le_init t _) (Nat.min_le_right a x)
    · exact ih _ x hx

theorem foldl_min_mem (l : List Nat) : ∀ a, l.foldl min a = a ∨ l.foldl min a ∈ l := by
  induction l with
  | nil => intro a; simp
  | cons b t ih =>
    intro a
    simp only [List.foldl_cons]
    rcases ih (min a b) with h | h
    · rw [h]
      rcases Nat.le_total a b with hab | hab
      · left; exact Nat.min_eq_left hab
      · right; rw [Nat.min_eq_right hab]; simp
    · right; exact List.mem_cons_of_mem b h

theorem listMin_le (l : List Nat) : ∀ x ∈ l, listMin l ≤ x := by
  cases l with
  | nil => intro x hx; simp at hx
  | cons a t =>
    intro x hx
    simp only [listMin]
    rcases List.mem_cons.mp hx with rfl | hx
    · exact foldl_min_le_init t _
    · exact foldl_min_le_mem t _ x hx

theorem listMin_mem (l : List Nat) (h : l ≠ []) : listMin l ∈ l := by
  cases l with
  | nil => exact absurd rfl h
  | cons a t =>
    simp only [listMin]
    rcases foldl_min_mem t a with h | h
    · rw [h]; simp
    · exact List.mem_cons_of_mem a h

theorem mem_dedup {α} [BEq α] [LawfulBEq α] : ∀ (l : List α) (x : α), x ∈ dedup l ↔ x ∈ l := by
  intro l
  induction l with
  | nil => intro x; simp [dedup]
  | cons a t ih =>
    intro x
    simp only [dedup, List.mem_cons, List.mem_filter, ih]
    constructor
    · rintro (h | ⟨h, _⟩)
      · exact Or.inl h
      · exact Or.inr h
    · rintro (h | h)
      · exact Or.inl h
      · by_cases hx : x = a
        · exact Or.inl hx
        · exact Or.inr ⟨h, by simpa using hx⟩

theorem dedup_nodup {α} [BEq α] [LawfulBEq α] : ∀ (l : List α), (dedup l).Nodup := by
  intro l
  induction l with
  | nil => simp [dedup]
  | cons a t ih =>
    simp only [dedup, List.nodup_cons, List.mem_filter]
    refine ⟨by simp, ih.sublist List.filter_sublist⟩

theorem mem_insertN (a : N) : ∀ (l : List N) (x : N), x ∈ insertN a l ↔ x = a ∨ x ∈ l := by
  intro l
  induction l with
  | nil => intro x; simp [insertN]
  | cons b t ih =>
    intro x
    simp only [insertN]
    split
    · simp
    · simp only [List.mem_cons, ih]
      constructor
      · rintro (h | h | h)
        · exact Or.inr (Or.inl h)
        · exact Or.inl h
        · exact Or.inr (Or.inr h)
      · rintro (h | h | h)
        · exact Or.inr (Or.inl h)
        · exact Or.inl h
        · exact Or.inr (Or.inr h)

theorem mem_sortN : ∀ (l : List N) (x : N), x ∈ sortN l ↔ x ∈ l := by
  intro l
  induction l with
  | nil => intro x; simp [sortN]
  | cons a t ih =>
    intro x
    have : sortN (a :: t) = insertN a (sortN t) := rfl
    rw [this, mem_insertN, ih]; simp

end WnVerif.Graph
