/- Generic frame lemmas for `Model/Add.lean`: for any observation `π` of the store, which of the
insert passes leave `π` alone, given that the single-row steps do.  One copy of the composition
lemmas serves every table (the older `Keeps*` families of `AddFrame.lean` are instances written
before this file existed).  Also: `addLexicon_split`, the decomposition of one successful
`addLexicon` into its passes. -/
import WnVerif.Model.Add
import WnVerif.Lemmas.ForIn
namespace WnVerif.Db
open WnVerif WnVerif.Doc

def KeepsG {β α} (π : Db → β) (f : Db → α → R Db) : Prop := ∀ b a b', f b a = .ok b' → π b' = π b
def KeepsGF {β} (π : Db → β) (f : Db → R Db) : Prop := ∀ b b', f b = .ok b' → π b' = π b

theorem fold_keepsG {β α} (π : Db → β) (f : Db → α → R Db) (hf : KeepsG π f) :
    KeepsG π (fun db (l : List α) => l.foldlM f db) := by
  intro b l b' h
  refine foldlM_ok_induct f (fun _ b b' => π b' = π b) ?_ ?_ l b b' h
  · intro b; rfl
  · intro a t b b1 b' h1 _ ih
    exact ih.trans (hf b a b1 h1)

theorem keepsGF_bind {β} (π : Db → β) (f g : Db → R Db) (hf : KeepsGF π f) (hg : KeepsGF π g) :
    KeepsGF π (fun b => f b >>= g) := by
  intro b b' h
  simp only [bind, Except.bind] at h
  cases h1 : f b with
  | error e => rw [h1] at h; simp at h
  | ok b1 =>
    rw [h1] at h
    exact (hg b1 b' h).trans (hf b b1 h1)

theorem keepsGF_fold {β α} (π : Db → β) (f : Db → α → R Db) (hf : KeepsG π f) (l : List α) :
    KeepsGF π (fun b => l.foldlM f b) :=
  fun b b' h => fold_keepsG π f hf b l b' h

theorem keepsG_nested {β α γ} (π : Db → β) (items : α → List γ) (f : α → Db → γ → R Db) (hf : ∀ a, KeepsG π (f a)) :
    KeepsG π (fun db a => (items a).foldlM (f a) db) :=
  fun b a b' h => fold_keepsG π (f a) (hf a) b (items a) b' h

/-- a single-row step leaves `π` alone: unfold, split on every failure point, `rfl` -/
macro "keepsG_step" d:ident : tactic =>
  `(tactic| (
     intro b a b2 h
     unfold $d at h
     simp only [bind, Except.bind, need, pure, Except.pure] at h
     repeat' (split at h)
     all_goals first
       | (simp only [Except.ok.injEq] at h; subst h; rfl)
       | (simp [throw, throwThe, MonadExcept.throw] at h)))

/-! ### the passes of `addLexicon` -/

theorem keepsGF_insertSynsets {β} (π : Db → β) (l : Lexicon) (c : Ctx)
    (h1 : ∀ p, KeepsG π (presupStep p)) (h2 : KeepsG π (synsetStep c)) (h3 : KeepsG π (piliStep c)) :
    KeepsGF π (fun b => insertSynsets b l c) := by
  intro b b' h
  unfold insertSynsets at h
  simp only [bind, Except.bind] at h
  cases hp : need "ili status" (lookupId b.ilistatuses "presupposed") with
  | error e => rw [hp] at h; simp at h
  | ok presup =>
    rw [hp] at h
    simp only at h
    exact keepsGF_bind π _ _ (keepsGF_fold π _ (h1 presup) _)
      (keepsGF_bind π _ _ (keepsGF_fold π _ h2 _) (keepsGF_fold π _ h3 _)) b b' h

theorem keepsGF_insertEntries {β} (π : Db → β) (l : Lexicon) (c : Ctx) (h : KeepsG π (entryStep c)) :
    KeepsGF π (fun b => insertEntries b l c) :=
  keepsGF_fold π _ h _

theorem addForm_keepsG {β} (π : Db → β) (hπ : ∀ (b : Db) (F : List RForm), π { b with forms := F } = π b)
    (db db1 : Db) (norm : String → String) (lexid er : Nat) (id : Option String) (form : String)
    (script : Option String) (rank : Nat) (h : addForm db norm lexid er id form script rank = .ok db1) :
    π db1 = π db := by
  unfold addForm at h
  simp only [bind, Except.bind, pure, Except.pure] at h
  split at h
  · simp [throw, throwThe, MonadExcept.throw] at h
  · simp only [Except.ok.injEq] at h; subst h; exact hπ _ _

theorem keepsG_formStep {β} (π : Db → β) (hπ : ∀ (b : Db) (F : List RForm), π { b with forms := F } = π b)
    (norm : String → String) (c : Ctx) (e : Entry) : KeepsG π (formStep norm c e) := by
  intro b fi b' h
  unfold formStep at h
  split at h
  · simp only [Except.ok.injEq] at h; subst h; rfl
  · cases he : entryRow b e.id (c.lid e.id) with
    | none => simp [he, need, bind, Except.bind] at h
    | some er =>
      simp only [he, need, bind, Except.bind] at h
      exact addForm_keepsG π hπ _ _ _ _ _ _ _ _ _ h

theorem keepsG_entryFormsStep {β} (π : Db → β) (hπ : ∀ (b : Db) (F : List RForm), π { b with forms := F } = π b)
    (norm : String → String) (c : Ctx) : KeepsG π (entryFormsStep norm c) := by
  intro b e b' h
  unfold entryFormsStep at h
  simp only [bind, Except.bind] at h
  cases hx : e.external with
  | true =>
    simp only [hx, Bool.not_true, Bool.false_eq_true, if_false, pure, Except.pure] at h
    exact fold_keepsG π _ (keepsG_formStep π hπ norm c e) b e.forms.zipIdx b' h
  | false =>
    simp only [hx, Bool.not_false, if_true] at h
    cases hl : e.lemma with
    | none => simp [hl, need] at h
    | some lem =>
      simp only [hl, need] at h
      cases he : entryRow b e.id (c.lid e.id) with
      | none => simp [he] at h
      | some er =>
        simp only [he] at h
        cases ha : addForm b norm c.lexid er none lem.form lem.script 0 with
        | error x => simp [ha] at h
        | ok b1 =>
          simp only [ha] at h
          have k1 := addForm_keepsG π hπ _ _ _ _ _ _ _ _ _ ha
          have k2 := fold_keepsG π _ (keepsG_formStep π hπ norm c e) b1 e.forms.zipIdx b' h
          exact k2.trans k1

theorem keepsGF_insertForms {β} (π : Db → β) (hπ : ∀ (b : Db) (F : List RForm), π { b with forms := F } = π b)
    (norm : String → String) (l : Lexicon) (c : Ctx) : KeepsGF π (fun b => insertForms b norm l c) :=
  keepsGF_fold π _ (keepsG_entryFormsStep π hπ norm c) _

theorem keepsGF_insertPronsTags {β} (π : Db → β) (l : Lexicon) (c : Ctx)
    (h1 : ∀ e fid rank, KeepsG π (pronStep c e fid rank)) (h2 : ∀ e fid rank, KeepsG π (tagStep c e fid rank)) :
    KeepsGF π (fun b => insertPronsTags b l c) := by
  unfold insertPronsTags
  apply keepsGF_bind
  · apply keepsGF_fold
    apply keepsG_nested π (fun e => formLikes e) (fun e db fl => fl.2.2.1.foldlM (pronStep c e fl.1 fl.2.1) db)
    intro e
    exact fun b fl b' h => fold_keepsG π _ (h1 e fl.1 fl.2.1) b fl.2.2.1 b' h
  · apply keepsGF_fold
    apply keepsG_nested π (fun e => formLikes e) (fun e db fl => fl.2.2.2.foldlM (tagStep c e fl.1 fl.2.1) db)
    intro e
    exact fun b fl b' h => fold_keepsG π _ (h2 e fl.1 fl.2.1) b fl.2.2.2 b' h

theorem keepsGF_insertSenses {β} (π : Db → β) (l : Lexicon) (c : Ctx) (dr : Nat)
    (h1 : ∀ e, KeepsG π (senseStep l c dr e)) (h2 : KeepsG π (adjStep c)) (h3 : ∀ s, KeepsG π (countStep c s)) :
    KeepsGF π (fun b => insertSenses b l c dr) := by
  unfold insertSenses
  apply keepsGF_bind
  · apply keepsGF_fold
    exact keepsG_nested π (fun e => (localSenses e).zipIdx) (fun e => senseStep l c dr e) h1
  · apply keepsGF_bind
    · apply keepsGF_fold
      exact keepsG_nested π (fun e => localSenses e) (fun _ => adjStep c) (fun _ => h2)
    · apply keepsGF_fold
      apply keepsG_nested π (fun (e : Entry) => e.senses) (fun _ db s => s.counts.foldlM (countStep c s) db)
      intro _
      exact fun b s b' h => fold_keepsG π _ (h3 s) b s.counts b' h

theorem keepsGF_insertSbs {β} (π : Db → β) (sbs : List Sb) (c : Ctx)
    (h1 : KeepsG π (sbStep c)) (h2 : ∀ sb, KeepsG π (sbSenseStep c sb)) :
    KeepsGF π (fun b => insertSbs b sbs c) := by
  unfold insertSbs
  apply keepsGF_bind
  · exact keepsGF_fold π _ h1 sbs
  · apply keepsGF_fold
    exact keepsG_nested π (fun (sb : Sb) => sb.senses) (fun sb => sbSenseStep c sb) h2

theorem keepsGF_insertDefsExamples {β} (π : Db → β) (l : Lexicon) (c : Ctx)
    (h1 : ∀ ss, KeepsG π (defStep c ss)) (h2 : ∀ s, KeepsG π (senseExampleStep c s))
    (h3 : ∀ ss, KeepsG π (synsetExampleStep c ss)) :
    KeepsGF π (fun b => insertDefsExamples b l c) := by
  unfold insertDefsExamples
  apply keepsGF_bind
  · apply keepsGF_fold
    exact keepsG_nested π (fun (ss : Synset) => ss.definitions) (fun ss => defStep c ss) h1
  · apply keepsGF_bind
    · apply keepsGF_fold
      apply keepsG_nested π (fun (e : Entry) => e.senses) (fun _ db s => s.examples.foldlM (senseExampleStep c s) db)
      intro _
      exact fun b s b' h => fold_keepsG π _ (h2 s) b s.examples b' h
    · apply keepsGF_fold
      exact keepsG_nested π (fun (ss : Synset) => ss.examples) (fun ss => synsetExampleStep c ss) h3

theorem keepsGF_insertRelations {β} (π : Db → β) (l : Lexicon) (c : Ctx)
    (h1 : ∀ ss, KeepsG π (synRelStep c ss)) (h2 : KeepsG π (senseRelStep c)) (h3 : KeepsG π (senseSynRelStep c)) :
    KeepsGF π (fun b => insertRelations b l c) := by
  intro b b' h
  unfold insertRelations at h
  simp only [bind, Except.bind] at h
  cases hh : l.synsets.foldlM (fun db ss => ss.relations.foldlM (synRelStep c ss) db) b with
  | error e => rw [hh] at h; simp at h
  | ok b1 =>
    rw [hh] at h
    have k1 := keepsGF_fold π _ (keepsG_nested π (fun (ss : Synset) => ss.relations) (fun ss => synRelStep c ss) h1) l.synsets b b1 hh
    simp only at h
    split at h
    · simp [throw, throwThe, MonadExcept.throw] at h
    · cases hh2 : List.foldlM (senseRelStep c) b1 ((allSenseRels l).filter (fun p => (l.entries.flatMap (fun e => e.senses.map (·.id))).contains p.2.target)) with
      | error e => rw [hh2] at h; simp at h
      | ok b2 =>
        rw [hh2] at h
        have k2 := keepsGF_fold π _ h2 _ b1 b2 hh2
        have k3 := keepsGF_fold π _ h3 _ b2 b' h
        exact k3.trans (k2.trans k1)

/-! ### one successful `addLexicon`, pass by pass -/

/-- the intermediate stores of a successful `addLexicon` -/
structure AddTrace (norm : String → String) (dr : Nat) (db db' : Db) (l : Lexicon) where
  sbs : List Sb
  lexid : Nat
  extid : Nat
  d1 : Db
  d2 : Db
  d3 : Db
  d4 : Db
  d5 : Db
  d6 : Db
  d7 : Db
  d8 : Db
  hsbs : collectFrames l = .ok sbs
  hlex : insertLexicon (updateLookups db l) l = .ok (d1, lexid, extid)
  hsyn : insertSynsets d1 l ⟨lexid, extid, externalIds l⟩ = .ok d2
  hent : insertEntries d2 l ⟨lexid, extid, externalIds l⟩ = .ok d3
  hform : insertForms d3 norm l ⟨lexid, extid, externalIds l⟩ = .ok d4
  hpt : insertPronsTags d4 l ⟨lexid, extid, externalIds l⟩ = .ok d5
  hsen : insertSenses d5 l ⟨lexid, extid, externalIds l⟩ dr = .ok d6
  hsb : insertSbs d6 sbs ⟨lexid, extid, externalIds l⟩ = .ok d7
  hrel : insertRelations d7 l ⟨lexid, extid, externalIds l⟩ = .ok d8
  hdx : insertDefsExamples d8 l ⟨lexid, extid, externalIds l⟩ = .ok db'

def AddTrace.ctx {norm dr db db' l} (t : AddTrace norm dr db db' l) : Ctx := ⟨t.lexid, t.extid, externalIds l⟩

theorem addLexicon_split (norm : String → String) (dr : Nat) (db db' : Db) (l : Lexicon)
    (h : addLexicon norm dr db l = .ok db') : Nonempty (AddTrace norm dr db db' l) := by
  unfold addLexicon at h
  simp only [bind, Except.bind] at h
  cases h0 : collectFrames l with
  | error x => rw [h0] at h; simp at h
  | ok sbs =>
    rw [h0] at h
    simp only at h
    cases h1 : insertLexicon (updateLookups db l) l with
    | error x => rw [h1] at h; simp at h
    | ok t =>
      obtain ⟨d1, lexid, extid⟩ := t
      rw [h1] at h
      simp only at h
      cases h2 : insertSynsets d1 l ⟨lexid, extid, externalIds l⟩ with
      | error x => rw [h2] at h; simp at h
      | ok d2 =>
        rw [h2] at h; simp only at h
        cases h3 : insertEntries d2 l ⟨lexid, extid, externalIds l⟩ with
        | error x => rw [h3] at h; simp at h
        | ok d3 =>
          rw [h3] at h; simp only at h
          cases h4 : insertForms d3 norm l ⟨lexid, extid, externalIds l⟩ with
          | error x => rw [h4] at h; simp at h
          | ok d4 =>
            rw [h4] at h; simp only at h
            cases h5 : insertPronsTags d4 l ⟨lexid, extid, externalIds l⟩ with
            | error x => rw [h5] at h; simp at h
            | ok d5 =>
              rw [h5] at h; simp only at h
              cases h6 : insertSenses d5 l ⟨lexid, extid, externalIds l⟩ dr with
              | error x => rw [h6] at h; simp at h
              | ok d6 =>
                rw [h6] at h; simp only at h
                cases h7 : insertSbs d6 sbs ⟨lexid, extid, externalIds l⟩ with
                | error x => rw [h7] at h; simp at h
                | ok d7 =>
                  rw [h7] at h; simp only at h
                  cases h8 : insertRelations d7 l ⟨lexid, extid, externalIds l⟩ with
                  | error x => rw [h8] at h; simp at h
                  | ok d8 =>
                    rw [h8] at h; simp only at h
                    exact ⟨⟨sbs, lexid, extid, d1, d2, d3, d4, d5, d6, d7, d8, h0, h1, h2, h3, h4, h5, h6, h7, h8, h⟩⟩

end WnVerif.Db
