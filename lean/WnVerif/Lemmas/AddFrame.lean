/- Frame lemmas for the insert steps of `Model/Add.lean`: which steps leave `entries` and `forms` alone. -/
import WnVerif.Model.Add
import WnVerif.Lemmas.ForIn
namespace WnVerif.Db
open WnVerif WnVerif.Doc

/-- a step that leaves the `entries` and `forms` tables alone -/
def Keeps {α} (f : Db → α → R Db) : Prop := ∀ b a b', f b a = .ok b' → b'.entries = b.entries ∧ b'.forms = b.forms

theorem fold_keeps {α} (f : Db → α → R Db) (hf : Keeps f) : Keeps (fun db (l : List α) => l.foldlM f db) := by
  intro b l b' h
  refine foldlM_ok_induct f (fun _ b b' => b'.entries = b.entries ∧ b'.forms = b.forms) ?_ ?_ l b b' h
  · intro b; exact ⟨rfl, rfl⟩
  · intro a t b b1 b' h1 _ ih
    obtain ⟨e1, e2⟩ := hf b a b1 h1
    exact ⟨ih.1.trans e1, ih.2.trans e2⟩

macro "keeps_step" d:ident : tactic =>
  `(tactic| (
     intro b a b2 h
     unfold $d at h
     simp only [bind, Except.bind, need, pure, Except.pure] at h
     repeat' (split at h)
     all_goals first
       | (simp only [Except.ok.injEq] at h; subst h; exact ⟨rfl, rfl⟩)
       | (simp [throw, throwThe, MonadExcept.throw] at h)))

theorem keeps_pronStep (c : Ctx) (e : Entry) (fid : Option String) (rank : Option Nat) : Keeps (pronStep c e fid rank) := by
  keeps_step pronStep
theorem keeps_tagStep (c : Ctx) (e : Entry) (fid : Option String) (rank : Option Nat) : Keeps (tagStep c e fid rank) := by
  keeps_step tagStep
theorem keeps_senseStep (l : Lexicon) (c : Ctx) (dr : Nat) (e : Entry) : Keeps (senseStep l c dr e) := by
  keeps_step senseStep
theorem keeps_adjStep (c : Ctx) : Keeps (adjStep c) := by
  keeps_step adjStep
theorem keeps_countStep (c : Ctx) (s : Sense) : Keeps (countStep c s) := by
  keeps_step countStep
theorem keeps_sbStep (c : Ctx) : Keeps (sbStep c) := by
  keeps_step sbStep
theorem keeps_sbSenseStep (c : Ctx) (sb : Sb) : Keeps (sbSenseStep c sb) := by
  keeps_step sbSenseStep
theorem keeps_synRelStep (c : Ctx) (ss : Synset) : Keeps (synRelStep c ss) := by
  keeps_step synRelStep
theorem keeps_senseRelStep (c : Ctx) : Keeps (senseRelStep c) := by
  keeps_step senseRelStep
theorem keeps_senseSynRelStep (c : Ctx) : Keeps (senseSynRelStep c) := by
  keeps_step senseSynRelStep
theorem keeps_defStep (c : Ctx) (ss : Synset) : Keeps (defStep c ss) := by
  keeps_step defStep
theorem keeps_senseExampleStep (c : Ctx) (s : Sense) : Keeps (senseExampleStep c s) := by
  keeps_step senseExampleStep
theorem keeps_synsetExampleStep (c : Ctx) (ss : Synset) : Keeps (synsetExampleStep c ss) := by
  keeps_step synsetExampleStep

/-- a whole insert function that leaves `entries` and `forms` alone -/
def KeepsF (f : Db → R Db) : Prop := ∀ b b', f b = .ok b' → b'.entries = b.entries ∧ b'.forms = b.forms

theorem keepsF_bind (f g : Db → R Db) (hf : KeepsF f) (hg : KeepsF g) : KeepsF (fun b => f b >>= g) := by
  intro b b' h
  simp only [bind, Except.bind] at h
  cases h1 : f b with
  | error e => rw [h1] at h; simp at h
  | ok b1 =>
    rw [h1] at h
    obtain ⟨a1, a2⟩ := hf b b1 h1
    obtain ⟨c1, c2⟩ := hg b1 b' h
    exact ⟨c1.trans a1, c2.trans a2⟩

theorem keepsF_fold {α} (f : Db → α → R Db) (hf : Keeps f) (l : List α) : KeepsF (fun b => l.foldlM f b) :=
  fun b b' h => fold_keeps f hf b l b' h

theorem keeps_nested {α β} (items : α → List β) (f : α → Db → β → R Db) (hf : ∀ a, Keeps (f a)) :
    Keeps (fun db a => (items a).foldlM (f a) db) :=
  fun b a b' h => fold_keeps (f a) (hf a) b (items a) b' h

theorem keepsF_insertPronsTags (l : Lexicon) (c : Ctx) : KeepsF (fun b => insertPronsTags b l c) := by
  unfold insertPronsTags
  apply keepsF_bind
  · apply keepsF_fold
    apply keeps_nested (fun e => formLikes e) (fun e db fl => fl.2.2.1.foldlM (pronStep c e fl.1 fl.2.1) db)
    intro e
    exact fun b fl b' h => fold_keeps _ (keeps_pronStep c e fl.1 fl.2.1) b fl.2.2.1 b' h
  · apply keepsF_fold
    apply keeps_nested (fun e => formLikes e) (fun e db fl => fl.2.2.2.foldlM (tagStep c e fl.1 fl.2.1) db)
    intro e
    exact fun b fl b' h => fold_keeps _ (keeps_tagStep c e fl.1 fl.2.1) b fl.2.2.2 b' h

theorem keepsF_insertSenses (l : Lexicon) (c : Ctx) (dr : Nat) : KeepsF (fun b => insertSenses b l c dr) := by
  unfold insertSenses
  apply keepsF_bind
  · apply keepsF_fold
    exact keeps_nested (fun e => (localSenses e).zipIdx) (fun e => senseStep l c dr e) (fun e => keeps_senseStep l c dr e)
  · apply keepsF_bind
    · apply keepsF_fold
      exact keeps_nested (fun e => localSenses e) (fun _ => adjStep c) (fun _ => keeps_adjStep c)
    · apply keepsF_fold
      apply keeps_nested (fun (e : Entry) => e.senses) (fun _ db s => s.counts.foldlM (countStep c s) db)
      intro _
      exact fun b s b' h => fold_keeps _ (keeps_countStep c s) b s.counts b' h

theorem keepsF_insertSbs (sbs : List Sb) (c : Ctx) : KeepsF (fun b => insertSbs b sbs c) := by
  unfold insertSbs
  apply keepsF_bind
  · exact keepsF_fold _ (keeps_sbStep c) sbs
  · apply keepsF_fold
    exact keeps_nested (fun (sb : Sb) => sb.senses) (fun sb => sbSenseStep c sb) (fun sb => keeps_sbSenseStep c sb)

theorem keepsF_insertDefsExamples (l : Lexicon) (c : Ctx) : KeepsF (fun b => insertDefsExamples b l c) := by
  unfold insertDefsExamples
  apply keepsF_bind
  · apply keepsF_fold
    exact keeps_nested (fun (ss : Synset) => ss.definitions) (fun ss => defStep c ss) (fun ss => keeps_defStep c ss)
  · apply keepsF_bind
    · apply keepsF_fold
      apply keeps_nested (fun (e : Entry) => e.senses) (fun _ db s => s.examples.foldlM (senseExampleStep c s) db)
      intro _
      exact fun b s b' h => fold_keeps _ (keeps_senseExampleStep c s) b s.examples b' h
    · apply keepsF_fold
      exact keeps_nested (fun (ss : Synset) => ss.examples) (fun ss => synsetExampleStep c ss) (fun ss => keeps_synsetExampleStep c ss)

theorem keepsF_insertRelations (l : Lexicon) (c : Ctx) : KeepsF (fun b => insertRelations b l c) := by
  intro b b' h
  unfold insertRelations at h
  simp only [bind, Except.bind] at h
  cases h1 : l.synsets.foldlM (fun db ss => ss.relations.foldlM (synRelStep c ss) db) b with
  | error e => rw [h1] at h; simp at h
  | ok b1 =>
    rw [h1] at h
    have k1 := keepsF_fold _ (keeps_nested (fun (ss : Synset) => ss.relations) (fun ss => synRelStep c ss) (fun ss => keeps_synRelStep c ss)) l.synsets b b1 h1
    simp only at h
    split at h
    · simp [throw, throwThe, MonadExcept.throw] at h
    · cases h2 : List.foldlM (senseRelStep c) b1 ((allSenseRels l).filter (fun p => (l.entries.flatMap (fun e => e.senses.map (·.id))).contains p.2.target)) with
      | error e => rw [h2] at h; simp at h
      | ok b2 =>
        rw [h2] at h
        have k2 := keepsF_fold _ (keeps_senseRelStep c) _ b1 b2 h2
        have k3 := keepsF_fold _ (keeps_senseSynRelStep c) _ b2 b' h
        exact ⟨k3.1.trans (k2.1.trans k1.1), k3.2.trans (k2.2.trans k1.2)⟩

theorem keeps_presupStep (p : Nat) : Keeps (presupStep p) := by
  keeps_step presupStep
theorem keeps_synsetStep (c : Ctx) : Keeps (synsetStep c) := by
  keeps_step synsetStep
theorem keeps_piliStep (c : Ctx) : Keeps (piliStep c) := by
  keeps_step piliStep

theorem keepsF_insertSynsets (l : Lexicon) (c : Ctx) : KeepsF (fun b => insertSynsets b l c) := by
  intro b b' h
  unfold insertSynsets at h
  simp only [bind, Except.bind] at h
  cases hp : need "ili status" (lookupId b.ilistatuses "presupposed") with
  | error e => rw [hp] at h; simp at h
  | ok presup =>
    rw [hp] at h
    simp only at h
    exact keepsF_bind _ _ (keepsF_fold _ (keeps_presupStep presup) _)
      (keepsF_bind _ _ (keepsF_fold _ (keeps_synsetStep c) _) (keepsF_fold _ (keeps_piliStep c) _)) b b' h

end WnVerif.Db

namespace WnVerif.Db
open WnVerif WnVerif.Doc

/-! ### the same for the `synsets` and `ilis` tables (steps that run after `_insert_synsets`) -/

def KeepsY {α} (f : Db → α → R Db) : Prop := ∀ b a b', f b a = .ok b' → b'.synsets = b.synsets ∧ b'.ilis = b.ilis
def KeepsYF (f : Db → R Db) : Prop := ∀ b b', f b = .ok b' → b'.synsets = b.synsets ∧ b'.ilis = b.ilis

theorem fold_keepsY {α} (f : Db → α → R Db) (hf : KeepsY f) : KeepsY (fun db (l : List α) => l.foldlM f db) := by
  intro b l b' h
  refine foldlM_ok_induct f (fun _ b b' => b'.synsets = b.synsets ∧ b'.ilis = b.ilis) ?_ ?_ l b b' h
  · intro b; exact ⟨rfl, rfl⟩
  · intro a t b b1 b' h1 _ ih
    obtain ⟨e1, e2⟩ := hf b a b1 h1
    exact ⟨ih.1.trans e1, ih.2.trans e2⟩

theorem keepsYF_bind (f g : Db → R Db) (hf : KeepsYF f) (hg : KeepsYF g) : KeepsYF (fun b => f b >>= g) := by
  intro b b' h
  simp only [bind, Except.bind] at h
  cases h1 : f b with
  | error e => rw [h1] at h; simp at h
  | ok b1 =>
    rw [h1] at h
    obtain ⟨a1, a2⟩ := hf b b1 h1
    obtain ⟨c1, c2⟩ := hg b1 b' h
    exact ⟨c1.trans a1, c2.trans a2⟩

theorem keepsYF_fold {α} (f : Db → α → R Db) (hf : KeepsY f) (l : List α) : KeepsYF (fun b => l.foldlM f b) :=
  fun b b' h => fold_keepsY f hf b l b' h

theorem keepsY_nested {α β} (items : α → List β) (f : α → Db → β → R Db) (hf : ∀ a, KeepsY (f a)) :
    KeepsY (fun db a => (items a).foldlM (f a) db) :=
  fun b a b' h => fold_keepsY (f a) (hf a) b (items a) b' h

theorem keepsY_entryStep (c : Ctx) : KeepsY (entryStep c) := by keeps_step entryStep
theorem keepsY_pronStep (c : Ctx) (e : Entry) (fid : Option String) (rank : Option Nat) : KeepsY (pronStep c e fid rank) := by keeps_step pronStep
theorem keepsY_tagStep (c : Ctx) (e : Entry) (fid : Option String) (rank : Option Nat) : KeepsY (tagStep c e fid rank) := by keeps_step tagStep
theorem keepsY_senseStep (l : Lexicon) (c : Ctx) (dr : Nat) (e : Entry) : KeepsY (senseStep l c dr e) := by keeps_step senseStep
theorem keepsY_adjStep (c : Ctx) : KeepsY (adjStep c) := by keeps_step adjStep
theorem keepsY_countStep (c : Ctx) (s : Sense) : KeepsY (countStep c s) := by keeps_step countStep
theorem keepsY_sbStep (c : Ctx) : KeepsY (sbStep c) := by keeps_step sbStep
theorem keepsY_sbSenseStep (c : Ctx) (sb : Sb) : KeepsY (sbSenseStep c sb) := by keeps_step sbSenseStep
theorem keepsY_synRelStep (c : Ctx) (ss : Synset) : KeepsY (synRelStep c ss) := by keeps_step synRelStep
theorem keepsY_senseRelStep (c : Ctx) : KeepsY (senseRelStep c) := by keeps_step senseRelStep
theorem keepsY_senseSynRelStep (c : Ctx) : KeepsY (senseSynRelStep c) := by keeps_step senseSynRelStep
theorem keepsY_defStep (c : Ctx) (ss : Synset) : KeepsY (defStep c ss) := by keeps_step defStep
theorem keepsY_senseExampleStep (c : Ctx) (s : Sense) : KeepsY (senseExampleStep c s) := by keeps_step senseExampleStep
theorem keepsY_synsetExampleStep (c : Ctx) (ss : Synset) : KeepsY (synsetExampleStep c ss) := by keeps_step synsetExampleStep

theorem addForm_keepsY (db db1 : Db) (norm : String → String) (lexid er : Nat) (id : Option String) (form : String)
    (script : Option String) (rank : Nat) (h : addForm db norm lexid er id form script rank = .ok db1) :
    db1.synsets = db.synsets ∧ db1.ilis = db.ilis := by
  unfold addForm at h
  simp only [bind, Except.bind, pure, Except.pure] at h
  split at h
  · simp [throw, throwThe, MonadExcept.throw] at h
  · simp only [Except.ok.injEq] at h; subst h; exact ⟨rfl, rfl⟩

theorem keepsY_formStep (norm : String → String) (c : Ctx) (e : Entry) : KeepsY (formStep norm c e) := by
  intro b fi b' h
  unfold formStep at h
  split at h
  · simp only [Except.ok.injEq] at h; subst h; exact ⟨rfl, rfl⟩
  · cases he : entryRow b e.id (c.lid e.id) with
    | none => simp [he, need, bind, Except.bind] at h
    | some er =>
      simp only [he, need, bind, Except.bind] at h
      exact addForm_keepsY _ _ _ _ _ _ _ _ _ h

theorem keepsY_entryFormsStep (norm : String → String) (c : Ctx) : KeepsY (entryFormsStep norm c) := by
  intro b e b' h
  unfold entryFormsStep at h
  simp only [bind, Except.bind] at h
  cases hx : e.external with
  | true =>
    simp only [hx, Bool.not_true, Bool.false_eq_true, if_false, pure, Except.pure] at h
    exact fold_keepsY _ (keepsY_formStep norm c e) b e.forms.zipIdx b' h
  | false =>
    simp only [hx, Bool.not_false, if_true] at h
    cases hl : e.lemma with
    | none => simp [hl, need] at h
    | some lem =>
      simp only [hl, need] at h
      cases he : entryRow b e.id (c.lid e.id) with
      | none => simp [he] at h
      | some er =>
        simp only [he] at h
        cases ha : addForm b norm c.lexid er none lem.form lem.script 0 with
        | error x => simp [ha] at h
        | ok b1 =>
          simp only [ha] at h
          have k1 := addForm_keepsY _ _ _ _ _ _ _ _ _ ha
          have k2 := fold_keepsY _ (keepsY_formStep norm c e) b1 e.forms.zipIdx b' h
          exact ⟨k2.1.trans k1.1, k2.2.trans k1.2⟩

theorem keepsYF_insertPronsTags (l : Lexicon) (c : Ctx) : KeepsYF (fun b => insertPronsTags b l c) := by
  unfold insertPronsTags
  apply keepsYF_bind
  · apply keepsYF_fold
    apply keepsY_nested (fun e => formLikes e) (fun e db fl => fl.2.2.1.foldlM (pronStep c e fl.1 fl.2.1) db)
    intro e
    exact fun b fl b' h => fold_keepsY _ (keepsY_pronStep c e fl.1 fl.2.1) b fl.2.2.1 b' h
  · apply keepsYF_fold
    apply keepsY_nested (fun e => formLikes e) (fun e db fl => fl.2.2.2.foldlM (tagStep c e fl.1 fl.2.1) db)
    intro e
    exact fun b fl b' h => fold_keepsY _ (keepsY_tagStep c e fl.1 fl.2.1) b fl.2.2.2 b' h

theorem keepsYF_insertSenses (l : Lexicon) (c : Ctx) (dr : Nat) : KeepsYF (fun b => insertSenses b l c dr) := by
  unfold insertSenses
  apply keepsYF_bind
  · apply keepsYF_fold
    exact keepsY_nested (fun e => (localSenses e).zipIdx) (fun e => senseStep l c dr e) (fun e => keepsY_senseStep l c dr e)
  · apply keepsYF_bind
    · apply keepsYF_fold
      exact keepsY_nested (fun e => localSenses e) (fun _ => adjStep c) (fun _ => keepsY_adjStep c)
    · apply keepsYF_fold
      apply keepsY_nested (fun (e : Entry) => e.senses) (fun _ db s => s.counts.foldlM (countStep c s) db)
      intro _
      exact fun b s b' h => fold_keepsY _ (keepsY_countStep c s) b s.counts b' h

theorem keepsYF_insertSbs (sbs : List Sb) (c : Ctx) : KeepsYF (fun b => insertSbs b sbs c) := by
  unfold insertSbs
  apply keepsYF_bind
  · exact keepsYF_fold _ (keepsY_sbStep c) sbs
  · apply keepsYF_fold
    exact keepsY_nested (fun (sb : Sb) => sb.senses) (fun sb => sbSenseStep c sb) (fun sb => keepsY_sbSenseStep c sb)

theorem keepsYF_insertDefsExamples (l : Lexicon) (c : Ctx) : KeepsYF (fun b => insertDefsExamples b l c) := by
  unfold insertDefsExamples
  apply keepsYF_bind
  · apply keepsYF_fold
    exact keepsY_nested (fun (ss : Synset) => ss.definitions) (fun ss => defStep c ss) (fun ss => keepsY_defStep c ss)
  · apply keepsYF_bind
    · apply keepsYF_fold
      apply keepsY_nested (fun (e : Entry) => e.senses) (fun _ db s => s.examples.foldlM (senseExampleStep c s) db)
      intro _
      exact fun b s b' h => fold_keepsY _ (keepsY_senseExampleStep c s) b s.examples b' h
    · apply keepsYF_fold
      exact keepsY_nested (fun (ss : Synset) => ss.examples) (fun ss => synsetExampleStep c ss) (fun ss => keepsY_synsetExampleStep c ss)

theorem keepsYF_insertRelations (l : Lexicon) (c : Ctx) : KeepsYF (fun b => insertRelations b l c) := by
  intro b b' h
  unfold insertRelations at h
  simp only [bind, Except.bind] at h
  cases h1 : l.synsets.foldlM (fun db ss => ss.relations.foldlM (synRelStep c ss) db) b with
  | error e => rw [h1] at h; simp at h
  | ok b1 =>
    rw [h1] at h
    have k1 := keepsYF_fold _ (keepsY_nested (fun (ss : Synset) => ss.relations) (fun ss => synRelStep c ss) (fun ss => keepsY_synRelStep c ss)) l.synsets b b1 h1
    simp only at h
    split at h
    · simp [throw, throwThe, MonadExcept.throw] at h
    · cases h2 : List.foldlM (senseRelStep c) b1 ((allSenseRels l).filter (fun p => (l.entries.flatMap (fun e => e.senses.map (·.id))).contains p.2.target)) with
      | error e => rw [h2] at h; simp at h
      | ok b2 =>
        rw [h2] at h
        have k2 := keepsYF_fold _ (keepsY_senseRelStep c) _ b1 b2 h2
        have k3 := keepsYF_fold _ (keepsY_senseSynRelStep c) _ b2 b' h
        exact ⟨k3.1.trans (k2.1.trans k1.1), k3.2.trans (k2.2.trans k1.2)⟩

theorem keepsYF_insertEntries (l : Lexicon) (c : Ctx) : KeepsYF (fun b => insertEntries b l c) :=
  keepsYF_fold _ (keepsY_entryStep c) _

theorem keepsYF_insertForms (norm : String → String) (l : Lexicon) (c : Ctx) : KeepsYF (fun b => insertForms b norm l c) :=
  keepsYF_fold _ (keepsY_entryFormsStep norm c) _

end WnVerif.Db

namespace WnVerif.Db
open WnVerif WnVerif.Doc

/-! ### steps that run after the sense rows are written leave `senses`, `entries`, `synsets` alone -/

def KeepsS {α} (f : Db → α → R Db) : Prop :=
  ∀ b a b', f b a = .ok b' → b'.senses = b.senses ∧ b'.entries = b.entries ∧ b'.synsets = b.synsets
def KeepsSF (f : Db → R Db) : Prop :=
  ∀ b b', f b = .ok b' → b'.senses = b.senses ∧ b'.entries = b.entries ∧ b'.synsets = b.synsets

theorem fold_keepsS {α} (f : Db → α → R Db) (hf : KeepsS f) : KeepsS (fun db (l : List α) => l.foldlM f db) := by
  intro b l b' h
  refine foldlM_ok_induct f (fun _ b b' => b'.senses = b.senses ∧ b'.entries = b.entries ∧ b'.synsets = b.synsets) ?_ ?_ l b b' h
  · intro b; exact ⟨rfl, rfl, rfl⟩
  · intro a t b b1 b' h1 _ ih
    obtain ⟨e1, e2, e3⟩ := hf b a b1 h1
    exact ⟨ih.1.trans e1, ih.2.1.trans e2, ih.2.2.trans e3⟩

theorem keepsSF_bind (f g : Db → R Db) (hf : KeepsSF f) (hg : KeepsSF g) : KeepsSF (fun b => f b >>= g) := by
  intro b b' h
  simp only [bind, Except.bind] at h
  cases h1 : f b with
  | error e => rw [h1] at h; simp at h
  | ok b1 =>
    rw [h1] at h
    obtain ⟨a1, a2, a3⟩ := hf b b1 h1
    obtain ⟨c1, c2, c3⟩ := hg b1 b' h
    exact ⟨c1.trans a1, c2.trans a2, c3.trans a3⟩

theorem keepsSF_fold {α} (f : Db → α → R Db) (hf : KeepsS f) (l : List α) : KeepsSF (fun b => l.foldlM f b) :=
  fun b b' h => fold_keepsS f hf b l b' h

theorem keepsS_nested {α β} (items : α → List β) (f : α → Db → β → R Db) (hf : ∀ a, KeepsS (f a)) :
    KeepsS (fun db a => (items a).foldlM (f a) db) :=
  fun b a b' h => fold_keepsS (f a) (hf a) b (items a) b' h

macro "keepsS_step" d:ident : tactic =>
  `(tactic| (
     intro b a b2 h
     unfold $d at h
     simp only [bind, Except.bind, need, pure, Except.pure] at h
     repeat' (split at h)
     all_goals first
       | (simp only [Except.ok.injEq] at h; subst h; exact ⟨rfl, rfl, rfl⟩)
       | (simp [throw, throwThe, MonadExcept.throw] at h)))

theorem keepsS_adjStep (c : Ctx) : KeepsS (adjStep c) := by keepsS_step adjStep
theorem keepsS_countStep (c : Ctx) (s : Sense) : KeepsS (countStep c s) := by keepsS_step countStep
theorem keepsS_sbStep (c : Ctx) : KeepsS (sbStep c) := by keepsS_step sbStep
theorem keepsS_sbSenseStep (c : Ctx) (sb : Sb) : KeepsS (sbSenseStep c sb) := by keepsS_step sbSenseStep
theorem keepsS_synRelStep (c : Ctx) (ss : Synset) : KeepsS (synRelStep c ss) := by keepsS_step synRelStep
theorem keepsS_senseRelStep (c : Ctx) : KeepsS (senseRelStep c) := by keepsS_step senseRelStep
theorem keepsS_senseSynRelStep (c : Ctx) : KeepsS (senseSynRelStep c) := by keepsS_step senseSynRelStep
theorem keepsS_defStep (c : Ctx) (ss : Synset) : KeepsS (defStep c ss) := by keepsS_step defStep
theorem keepsS_senseExampleStep (c : Ctx) (s : Sense) : KeepsS (senseExampleStep c s) := by keepsS_step senseExampleStep
theorem keepsS_synsetExampleStep (c : Ctx) (ss : Synset) : KeepsS (synsetExampleStep c ss) := by keepsS_step synsetExampleStep

theorem keepsSF_insertSbs (sbs : List Sb) (c : Ctx) : KeepsSF (fun b => insertSbs b sbs c) := by
  unfold insertSbs
  apply keepsSF_bind
  · exact keepsSF_fold _ (keepsS_sbStep c) sbs
  · apply keepsSF_fold
    exact keepsS_nested (fun (sb : Sb) => sb.senses) (fun sb => sbSenseStep c sb) (fun sb => keepsS_sbSenseStep c sb)

theorem keepsSF_insertDefsExamples (l : Lexicon) (c : Ctx) : KeepsSF (fun b => insertDefsExamples b l c) := by
  unfold insertDefsExamples
  apply keepsSF_bind
  · apply keepsSF_fold
    exact keepsS_nested (fun (ss : Synset) => ss.definitions) (fun ss => defStep c ss) (fun ss => keepsS_defStep c ss)
  · apply keepsSF_bind
    · apply keepsSF_fold
      apply keepsS_nested (fun (e : Entry) => e.senses) (fun _ db s => s.examples.foldlM (senseExampleStep c s) db)
      intro _
      exact fun b s b' h => fold_keepsS _ (keepsS_senseExampleStep c s) b s.examples b' h
    · apply keepsSF_fold
      exact keepsS_nested (fun (ss : Synset) => ss.examples) (fun ss => synsetExampleStep c ss) (fun ss => keepsS_synsetExampleStep c ss)

theorem keepsSF_insertRelations (l : Lexicon) (c : Ctx) : KeepsSF (fun b => insertRelations b l c) := by
  intro b b' h
  unfold insertRelations at h
  simp only [bind, Except.bind] at h
  cases h1 : l.synsets.foldlM (fun db ss => ss.relations.foldlM (synRelStep c ss) db) b with
  | error e => rw [h1] at h; simp at h
  | ok b1 =>
    rw [h1] at h
    have k1 := keepsSF_fold _ (keepsS_nested (fun (ss : Synset) => ss.relations) (fun ss => synRelStep c ss) (fun ss => keepsS_synRelStep c ss)) l.synsets b b1 h1
    simp only at h
    split at h
    · simp [throw, throwThe, MonadExcept.throw] at h
    · cases h2 : List.foldlM (senseRelStep c) b1 ((allSenseRels l).filter (fun p => (l.entries.flatMap (fun e => e.senses.map (·.id))).contains p.2.target)) with
      | error e => rw [h2] at h; simp at h
      | ok b2 =>
        rw [h2] at h
        have k2 := keepsSF_fold _ (keepsS_senseRelStep c) _ b1 b2 h2
        have k3 := keepsSF_fold _ (keepsS_senseSynRelStep c) _ b2 b' h
        exact ⟨k3.1.trans (k2.1.trans k1.1), k3.2.1.trans (k2.2.1.trans k1.2.1), k3.2.2.trans (k2.2.2.trans k1.2.2)⟩

/-- the second and third loop of `_insert_senses` (adjpositions, counts) -/
theorem keepsSF_adjCounts (l : Lexicon) (c : Ctx) : KeepsSF (fun b => (do
    let db2 ← l.entries.foldlM (fun db e => (localSenses e).foldlM (adjStep c) db) b
    l.entries.foldlM (fun db e => e.senses.foldlM (fun db s => s.counts.foldlM (countStep c s) db) db) db2)) := by
  apply keepsSF_bind
  · apply keepsSF_fold
    exact keepsS_nested (fun e => localSenses e) (fun _ => adjStep c) (fun _ => keepsS_adjStep c)
  · apply keepsSF_fold
    apply keepsS_nested (fun (e : Entry) => e.senses) (fun _ db s => s.counts.foldlM (countStep c s) db)
    intro _
    exact fun b s b' h => fold_keepsS _ (keepsS_countStep c s) b s.counts b' h

end WnVerif.Db

namespace WnVerif.Db
open WnVerif WnVerif.Doc

/-! ### steps that run before `_insert_senses` leave the `senses` table alone -/

def KeepsN {α} (f : Db → α → R Db) : Prop := ∀ b a b', f b a = .ok b' → b'.senses = b.senses
def KeepsNF (f : Db → R Db) : Prop := ∀ b b', f b = .ok b' → b'.senses = b.senses

theorem fold_keepsN {α} (f : Db → α → R Db) (hf : KeepsN f) : KeepsN (fun db (l : List α) => l.foldlM f db) := by
  intro b l b' h
  refine foldlM_ok_induct f (fun _ b b' => b'.senses = b.senses) ?_ ?_ l b b' h
  · intro b; rfl
  · intro a t b b1 b' h1 _ ih
    exact ih.trans (hf b a b1 h1)

theorem keepsNF_bind (f g : Db → R Db) (hf : KeepsNF f) (hg : KeepsNF g) : KeepsNF (fun b => f b >>= g) := by
  intro b b' h
  simp only [bind, Except.bind] at h
  cases h1 : f b with
  | error e => rw [h1] at h; simp at h
  | ok b1 =>
    rw [h1] at h
    exact (hg b1 b' h).trans (hf b b1 h1)

theorem keepsNF_fold {α} (f : Db → α → R Db) (hf : KeepsN f) (l : List α) : KeepsNF (fun b => l.foldlM f b) :=
  fun b b' h => fold_keepsN f hf b l b' h

theorem keepsN_nested {α β} (items : α → List β) (f : α → Db → β → R Db) (hf : ∀ a, KeepsN (f a)) :
    KeepsN (fun db a => (items a).foldlM (f a) db) :=
  fun b a b' h => fold_keepsN (f a) (hf a) b (items a) b' h

macro "keepsN_step" d:ident : tactic =>
  `(tactic| (
     intro b a b2 h
     unfold $d at h
     simp only [bind, Except.bind, need, pure, Except.pure] at h
     repeat' (split at h)
     all_goals first
       | (simp only [Except.ok.injEq] at h; subst h; rfl)
       | (simp [throw, throwThe, MonadExcept.throw] at h)))

theorem keepsN_presupStep (p : Nat) : KeepsN (presupStep p) := by keepsN_step presupStep
theorem keepsN_synsetStep (c : Ctx) : KeepsN (synsetStep c) := by keepsN_step synsetStep
theorem keepsN_piliStep (c : Ctx) : KeepsN (piliStep c) := by keepsN_step piliStep
theorem keepsN_entryStep (c : Ctx) : KeepsN (entryStep c) := by keepsN_step entryStep
theorem keepsN_pronStep (c : Ctx) (e : Entry) (fid : Option String) (rank : Option Nat) : KeepsN (pronStep c e fid rank) := by keepsN_step pronStep
theorem keepsN_tagStep (c : Ctx) (e : Entry) (fid : Option String) (rank : Option Nat) : KeepsN (tagStep c e fid rank) := by keepsN_step tagStep

theorem addForm_keepsN (db db1 : Db) (norm : String → String) (lexid er : Nat) (id : Option String) (form : String)
    (script : Option String) (rank : Nat) (h : addForm db norm lexid er id form script rank = .ok db1) : db1.senses = db.senses := by
  unfold addForm at h
  simp only [bind, Except.bind, pure, Except.pure] at h
  split at h
  · simp [throw, throwThe, MonadExcept.throw] at h
  · simp only [Except.ok.injEq] at h; subst h; rfl

theorem keepsN_formStep (norm : String → String) (c : Ctx) (e : Entry) : KeepsN (formStep norm c e) := by
  intro b fi b' h
  unfold formStep at h
  split at h
  · simp only [Except.ok.injEq] at h; subst h; rfl
  · cases he : entryRow b e.id (c.lid e.id) with
    | none => simp [he, need, bind, Except.bind] at h
    | some er =>
      simp only [he, need, bind, Except.bind] at h
      exact addForm_keepsN _ _ _ _ _ _ _ _ _ h

theorem keepsN_entryFormsStep (norm : String → String) (c : Ctx) : KeepsN (entryFormsStep norm c) := by
  intro b e b' h
  unfold entryFormsStep at h
  simp only [bind, Except.bind] at h
  cases hx : e.external with
  | true =>
    simp only [hx, Bool.not_true, Bool.false_eq_true, if_false, pure, Except.pure] at h
    exact fold_keepsN _ (keepsN_formStep norm c e) b e.forms.zipIdx b' h
  | false =>
    simp only [hx, Bool.not_false, if_true] at h
    cases hl : e.lemma with
    | none => simp [hl, need] at h
    | some lem =>
      simp only [hl, need] at h
      cases he : entryRow b e.id (c.lid e.id) with
      | none => simp [he] at h
      | some er =>
        simp only [he] at h
        cases ha : addForm b norm c.lexid er none lem.form lem.script 0 with
        | error x => simp [ha] at h
        | ok b1 =>
          simp only [ha] at h
          exact (fold_keepsN _ (keepsN_formStep norm c e) b1 e.forms.zipIdx b' h).trans (addForm_keepsN _ _ _ _ _ _ _ _ _ ha)

theorem keepsNF_insertSynsets (l : Lexicon) (c : Ctx) : KeepsNF (fun b => insertSynsets b l c) := by
  intro b b' h
  unfold insertSynsets at h
  simp only [bind, Except.bind] at h
  cases hp : need "ili status" (lookupId b.ilistatuses "presupposed") with
  | error e => rw [hp] at h; simp at h
  | ok presup =>
    rw [hp] at h
    simp only at h
    exact keepsNF_bind _ _ (keepsNF_fold _ (keepsN_presupStep presup) _)
      (keepsNF_bind _ _ (keepsNF_fold _ (keepsN_synsetStep c) _) (keepsNF_fold _ (keepsN_piliStep c) _)) b b' h

theorem keepsNF_insertEntries (l : Lexicon) (c : Ctx) : KeepsNF (fun b => insertEntries b l c) :=
  keepsNF_fold _ (keepsN_entryStep c) _
theorem keepsNF_insertForms (norm : String → String) (l : Lexicon) (c : Ctx) : KeepsNF (fun b => insertForms b norm l c) :=
  keepsNF_fold _ (keepsN_entryFormsStep norm c) _

theorem keepsNF_insertPronsTags (l : Lexicon) (c : Ctx) : KeepsNF (fun b => insertPronsTags b l c) := by
  unfold insertPronsTags
  apply keepsNF_bind
  · apply keepsNF_fold
    apply keepsN_nested (fun e => formLikes e) (fun e db fl => fl.2.2.1.foldlM (pronStep c e fl.1 fl.2.1) db)
    intro e
    exact fun b fl b' h => fold_keepsN _ (keepsN_pronStep c e fl.1 fl.2.1) b fl.2.2.1 b' h
  · apply keepsNF_fold
    apply keepsN_nested (fun e => formLikes e) (fun e db fl => fl.2.2.2.foldlM (tagStep c e fl.1 fl.2.1) db)
    intro e
    exact fun b fl b' h => fold_keepsN _ (keepsN_tagStep c e fl.1 fl.2.1) b fl.2.2.2 b' h

end WnVerif.Db

namespace WnVerif.Db
open WnVerif WnVerif.Doc

/-- `_insert_forms` never touches the `entries` table (external entries included) -/
theorem addForm_entries (db db1 : Db) (norm : String → String) (lexid er : Nat) (id : Option String) (form : String)
    (script : Option String) (rank : Nat) (h : addForm db norm lexid er id form script rank = .ok db1) : db1.entries = db.entries := by
  unfold addForm at h
  simp only [bind, Except.bind, pure, Except.pure] at h
  split at h
  · simp [throw, throwThe, MonadExcept.throw] at h
  · simp only [Except.ok.injEq] at h; subst h; rfl

theorem formStep_entries (norm : String → String) (c : Ctx) (e : Entry) (b b' : Db) (fi : Form × Nat)
    (h : formStep norm c e b fi = .ok b') : b'.entries = b.entries := by
  unfold formStep at h
  split at h
  · simp only [Except.ok.injEq] at h; subst h; rfl
  · cases he : entryRow b e.id (c.lid e.id) with
    | none => simp [he, need, bind, Except.bind] at h
    | some er =>
      simp only [he, need, bind, Except.bind] at h
      exact addForm_entries _ _ _ _ _ _ _ _ _ h

theorem insertForms_entries (norm : String → String) (l : Lexicon) (c : Ctx) (d d' : Db)
    (h : insertForms d norm l c = .ok d') : d'.entries = d.entries := by
  unfold insertForms at h
  refine foldlM_ok_induct (entryFormsStep norm c) (fun _ b b' => b'.entries = b.entries) ?_ ?_ _ d d' h
  · intro b; rfl
  · intro e t b b1 b' hf _ ih
    refine ih.trans ?_
    unfold entryFormsStep at hf
    simp only [bind, Except.bind] at hf
    have hfold : ∀ (x x' : Db), e.forms.zipIdx.foldlM (formStep norm c e) x = .ok x' → x'.entries = x.entries := by
      intro x x' hx
      refine foldlM_ok_induct (formStep norm c e) (fun _ b b' => b'.entries = b.entries) ?_ ?_ _ x x' hx
      · intro b; rfl
      · intro a t b b1 b' hf' _ ih'
        exact ih'.trans (formStep_entries norm c e b b1 a hf')
    cases hx : e.external with
    | true =>
      simp only [hx, Bool.not_true, Bool.false_eq_true, if_false, pure, Except.pure] at hf
      exact hfold b b1 hf
    | false =>
      simp only [hx, Bool.not_false, if_true] at hf
      cases hl : e.lemma with
      | none => simp [hl, need] at hf
      | some lem =>
        simp only [hl, need] at hf
        cases he : entryRow b e.id (c.lid e.id) with
        | none => simp [he] at hf
        | some er =>
          simp only [he] at hf
          cases ha : addForm b norm c.lexid er none lem.form lem.script 0 with
          | error x => simp [ha] at hf
          | ok b2 =>
            simp only [ha] at hf
            exact (hfold b2 b1 hf).trans (addForm_entries _ _ _ _ _ _ _ _ _ ha)

end WnVerif.Db

namespace WnVerif.Db
open WnVerif WnVerif.Doc

/-! ### the same for the `proposed_ilis` and `synsets` tables (steps that run after `_insert_synsets`) -/

def KeepsP {α} (f : Db → α → R Db) : Prop := ∀ b a b', f b a = .ok b' → b'.pilis = b.pilis ∧ b'.synsets = b.synsets
def KeepsPF (f : Db → R Db) : Prop := ∀ b b', f b = .ok b' → b'.pilis = b.pilis ∧ b'.synsets = b.synsets

theorem fold_keepsP {α} (f : Db → α → R Db) (hf : KeepsP f) : KeepsP (fun db (l : List α) => l.foldlM f db) := by
  intro b l b' h
  refine foldlM_ok_induct f (fun _ b b' => b'.pilis = b.pilis ∧ b'.synsets = b.synsets) ?_ ?_ l b b' h
  · intro b; exact ⟨rfl, rfl⟩
  · intro a t b b1 b' h1 _ ih
    obtain ⟨e1, e2⟩ := hf b a b1 h1
    exact ⟨ih.1.trans e1, ih.2.trans e2⟩

theorem keepsPF_bind (f g : Db → R Db) (hf : KeepsPF f) (hg : KeepsPF g) : KeepsPF (fun b => f b >>= g) := by
  intro b b' h
  simp only [bind, Except.bind] at h
  cases h1 : f b with
  | error e => rw [h1] at h; simp at h
  | ok b1 =>
    rw [h1] at h
    obtain ⟨a1, a2⟩ := hf b b1 h1
    obtain ⟨c1, c2⟩ := hg b1 b' h
    exact ⟨c1.trans a1, c2.trans a2⟩

theorem keepsPF_fold {α} (f : Db → α → R Db) (hf : KeepsP f) (l : List α) : KeepsPF (fun b => l.foldlM f b) :=
  fun b b' h => fold_keepsP f hf b l b' h

theorem keepsP_nested {α β} (items : α → List β) (f : α → Db → β → R Db) (hf : ∀ a, KeepsP (f a)) :
    KeepsP (fun db a => (items a).foldlM (f a) db) :=
  fun b a b' h => fold_keepsP (f a) (hf a) b (items a) b' h

theorem keepsP_entryStep (c : Ctx) : KeepsP (entryStep c) := by keeps_step entryStep
theorem keepsP_pronStep (c : Ctx) (e : Entry) (fid : Option String) (rank : Option Nat) : KeepsP (pronStep c e fid rank) := by keeps_step pronStep
theorem keepsP_tagStep (c : Ctx) (e : Entry) (fid : Option String) (rank : Option Nat) : KeepsP (tagStep c e fid rank) := by keeps_step tagStep
theorem keepsP_senseStep (l : Lexicon) (c : Ctx) (dr : Nat) (e : Entry) : KeepsP (senseStep l c dr e) := by keeps_step senseStep
theorem keepsP_adjStep (c : Ctx) : KeepsP (adjStep c) := by keeps_step adjStep
theorem keepsP_countStep (c : Ctx) (s : Sense) : KeepsP (countStep c s) := by keeps_step countStep
theorem keepsP_sbStep (c : Ctx) : KeepsP (sbStep c) := by keeps_step sbStep
theorem keepsP_sbSenseStep (c : Ctx) (sb : Sb) : KeepsP (sbSenseStep c sb) := by keeps_step sbSenseStep
theorem keepsP_synRelStep (c : Ctx) (ss : Synset) : KeepsP (synRelStep c ss) := by keeps_step synRelStep
theorem keepsP_senseRelStep (c : Ctx) : KeepsP (senseRelStep c) := by keeps_step senseRelStep
theorem keepsP_senseSynRelStep (c : Ctx) : KeepsP (senseSynRelStep c) := by keeps_step senseSynRelStep
theorem keepsP_defStep (c : Ctx) (ss : Synset) : KeepsP (defStep c ss) := by keeps_step defStep
theorem keepsP_senseExampleStep (c : Ctx) (s : Sense) : KeepsP (senseExampleStep c s) := by keeps_step senseExampleStep
theorem keepsP_synsetExampleStep (c : Ctx) (ss : Synset) : KeepsP (synsetExampleStep c ss) := by keeps_step synsetExampleStep

theorem addForm_keepsPili (db db1 : Db) (norm : String → String) (lexid er : Nat) (id : Option String) (form : String)
    (script : Option String) (rank : Nat) (h : addForm db norm lexid er id form script rank = .ok db1) :
    db1.pilis = db.pilis ∧ db1.synsets = db.synsets := by
  unfold addForm at h
  simp only [bind, Except.bind, pure, Except.pure] at h
  split at h
  · simp [throw, throwThe, MonadExcept.throw] at h
  · simp only [Except.ok.injEq] at h; subst h; exact ⟨rfl, rfl⟩

theorem keepsP_formStep (norm : String → String) (c : Ctx) (e : Entry) : KeepsP (formStep norm c e) := by
  intro b fi b' h
  unfold formStep at h
  split at h
  · simp only [Except.ok.injEq] at h; subst h; exact ⟨rfl, rfl⟩
  · cases he : entryRow b e.id (c.lid e.id) with
    | none => simp [he, need, bind, Except.bind] at h
    | some er =>
      simp only [he, need, bind, Except.bind] at h
      exact addForm_keepsPili _ _ _ _ _ _ _ _ _ h

theorem keepsP_entryFormsStep (norm : String → String) (c : Ctx) : KeepsP (entryFormsStep norm c) := by
  intro b e b' h
  unfold entryFormsStep at h
  simp only [bind, Except.bind] at h
  cases hx : e.external with
  | true =>
    simp only [hx, Bool.not_true, Bool.false_eq_true, if_false, pure, Except.pure] at h
    exact fold_keepsP _ (keepsP_formStep norm c e) b e.forms.zipIdx b' h
  | false =>
    simp only [hx, Bool.not_false, if_true] at h
    cases hl : e.lemma with
    | none => simp [hl, need] at h
    | some lem =>
      simp only [hl, need] at h
      cases he : entryRow b e.id (c.lid e.id) with
      | none => simp [he] at h
      | some er =>
        simp only [he] at h
        cases ha : addForm b norm c.lexid er none lem.form lem.script 0 with
        | error x => simp [ha] at h
        | ok b1 =>
          simp only [ha] at h
          have k1 := addForm_keepsPili _ _ _ _ _ _ _ _ _ ha
          have k2 := fold_keepsP _ (keepsP_formStep norm c e) b1 e.forms.zipIdx b' h
          exact ⟨k2.1.trans k1.1, k2.2.trans k1.2⟩

theorem keepsPF_insertPronsTags (l : Lexicon) (c : Ctx) : KeepsPF (fun b => insertPronsTags b l c) := by
  unfold insertPronsTags
  apply keepsPF_bind
  · apply keepsPF_fold
    apply keepsP_nested (fun e => formLikes e) (fun e db fl => fl.2.2.1.foldlM (pronStep c e fl.1 fl.2.1) db)
    intro e
    exact fun b fl b' h => fold_keepsP _ (keepsP_pronStep c e fl.1 fl.2.1) b fl.2.2.1 b' h
  · apply keepsPF_fold
    apply keepsP_nested (fun e => formLikes e) (fun e db fl => fl.2.2.2.foldlM (tagStep c e fl.1 fl.2.1) db)
    intro e
    exact fun b fl b' h => fold_keepsP _ (keepsP_tagStep c e fl.1 fl.2.1) b fl.2.2.2 b' h

theorem keepsPF_insertSenses (l : Lexicon) (c : Ctx) (dr : Nat) : KeepsPF (fun b => insertSenses b l c dr) := by
  unfold insertSenses
  apply keepsPF_bind
  · apply keepsPF_fold
    exact keepsP_nested (fun e => (localSenses e).zipIdx) (fun e => senseStep l c dr e) (fun e => keepsP_senseStep l c dr e)
  · apply keepsPF_bind
    · apply keepsPF_fold
      exact keepsP_nested (fun e => localSenses e) (fun _ => adjStep c) (fun _ => keepsP_adjStep c)
    · apply keepsPF_fold
      apply keepsP_nested (fun (e : Entry) => e.senses) (fun _ db s => s.counts.foldlM (countStep c s) db)
      intro _
      exact fun b s b' h => fold_keepsP _ (keepsP_countStep c s) b s.counts b' h

theorem keepsPF_insertSbs (sbs : List Sb) (c : Ctx) : KeepsPF (fun b => insertSbs b sbs c) := by
  unfold insertSbs
  apply keepsPF_bind
  · exact keepsPF_fold _ (keepsP_sbStep c) sbs
  · apply keepsPF_fold
    exact keepsP_nested (fun (sb : Sb) => sb.senses) (fun sb => sbSenseStep c sb) (fun sb => keepsP_sbSenseStep c sb)

theorem keepsPF_insertDefsExamples (l : Lexicon) (c : Ctx) : KeepsPF (fun b => insertDefsExamples b l c) := by
  unfold insertDefsExamples
  apply keepsPF_bind
  · apply keepsPF_fold
    exact keepsP_nested (fun (ss : Synset) => ss.definitions) (fun ss => defStep c ss) (fun ss => keepsP_defStep c ss)
  · apply keepsPF_bind
    · apply keepsPF_fold
      apply keepsP_nested (fun (e : Entry) => e.senses) (fun _ db s => s.examples.foldlM (senseExampleStep c s) db)
      intro _
      exact fun b s b' h => fold_keepsP _ (keepsP_senseExampleStep c s) b s.examples b' h
    · apply keepsPF_fold
      exact keepsP_nested (fun (ss : Synset) => ss.examples) (fun ss => synsetExampleStep c ss) (fun ss => keepsP_synsetExampleStep c ss)

theorem keepsPF_insertRelations (l : Lexicon) (c : Ctx) : KeepsPF (fun b => insertRelations b l c) := by
  intro b b' h
  unfold insertRelations at h
  simp only [bind, Except.bind] at h
  cases h1 : l.synsets.foldlM (fun db ss => ss.relations.foldlM (synRelStep c ss) db) b with
  | error e => rw [h1] at h; simp at h
  | ok b1 =>
    rw [h1] at h
    have k1 := keepsPF_fold _ (keepsP_nested (fun (ss : Synset) => ss.relations) (fun ss => synRelStep c ss) (fun ss => keepsP_synRelStep c ss)) l.synsets b b1 h1
    simp only at h
    split at h
    · simp [throw, throwThe, MonadExcept.throw] at h
    · cases h2 : List.foldlM (senseRelStep c) b1 ((allSenseRels l).filter (fun p => (l.entries.flatMap (fun e => e.senses.map (·.id))).contains p.2.target)) with
      | error e => rw [h2] at h; simp at h
      | ok b2 =>
        rw [h2] at h
        have k2 := keepsPF_fold _ (keepsP_senseRelStep c) _ b1 b2 h2
        have k3 := keepsPF_fold _ (keepsP_senseSynRelStep c) _ b2 b' h
        exact ⟨k3.1.trans (k2.1.trans k1.1), k3.2.trans (k2.2.trans k1.2)⟩

theorem keepsPF_insertEntries (l : Lexicon) (c : Ctx) : KeepsPF (fun b => insertEntries b l c) :=
  keepsPF_fold _ (keepsP_entryStep c) _

theorem keepsPF_insertForms (norm : String → String) (l : Lexicon) (c : Ctx) : KeepsPF (fun b => insertForms b norm l c) :=
  keepsPF_fold _ (keepsP_entryFormsStep norm c) _

end WnVerif.Db

