/- Element-wise relation between two lists of the same length (core Lean has no `List.Forall₂`). -/
namespace WnVerif

/-- element-wise relation between two lists of the same length -/
inductive Forall2 {α β} (R : α → β → Prop) : List α → List β → Prop
  | nil : Forall2 R [] []
  | cons {a b l l'} : R a b → Forall2 R l l' → Forall2 R (a :: l) (b :: l')

theorem Forall2.imp {α β} {R S : α → β → Prop} (h : ∀ a b, R a b → S a b) : ∀ {l : List α} {l' : List β},
    Forall2 R l l' → Forall2 S l l' := by
  intro l l' hr
  induction hr with
  | nil => exact Forall2.nil
  | cons hh _ ih => exact Forall2.cons (h _ _ hh) ih

theorem Forall2.length_eq {α β} {R : α → β → Prop} {l : List α} {l' : List β} (h : Forall2 R l l') : l.length = l'.length := by
  induction h with
  | nil => rfl
  | cons _ _ ih => simp [ih]

theorem Forall2.get {α β} {R : α → β → Prop} : ∀ {l : List α} {l' : List β}, Forall2 R l l' →
    ∀ i (h1 : i < l.length) (h2 : i < l'.length), R l[i] l'[i] := by
  intro l l' h
  induction h with
  | nil => intro i h1; simp at h1
  | cons hh _ ih =>
    intro i h1 h2
    cases i with
    | zero => exact hh
    | succ j => simp only [List.getElem_cons_succ]; exact ih j (by simpa using h1) (by simpa using h2)

theorem Forall2.of_index {α β} {R : α → β → Prop} : ∀ (l : List α) (l' : List β), l.length = l'.length →
    (∀ i (h1 : i < l.length) (h2 : i < l'.length), R l[i] l'[i]) → Forall2 R l l' := by
  intro l
  induction l with
  | nil => intro l' hl _; cases l' with | nil => exact Forall2.nil | cons _ _ => simp at hl
  | cons a t ih =>
    intro l' hl h
    cases l' with
    | nil => simp at hl
    | cons b t' =>
      refine Forall2.cons (h 0 (by simp) (by simp)) (ih t' (by simpa using hl) ?_)
      intro i h1 h2
      have := h (i + 1) (by simpa using h1) (by simpa using h2)
      simpa using this

theorem Forall2.map_eq {α β γ} {R : α → β → Prop} (p : β → γ) (q : α → γ) (hpq : ∀ a b, R a b → p b = q a) :
    ∀ {l : List α} {l' : List β}, Forall2 R l l' → l'.map p = l.map q := by
  intro l l' h
  induction h with
  | nil => rfl
  | cons hh _ ih => simp [hpq _ _ hh, ih]

theorem Forall2.pairwise {α β} {R : α → β → Prop} {S : α → α → Prop} {T : β → β → Prop}
    (hST : ∀ a b a' b', R a b → R a' b' → S a a' → T b b') :
    ∀ {l : List α} {l' : List β}, Forall2 R l l' → l.Pairwise S → l'.Pairwise T := by
  intro l l' h
  induction h with
  | nil => intro _; exact List.Pairwise.nil
  | @cons a b l l' hh hrest ih =>
    intro hp
    rw [List.pairwise_cons] at hp ⊢
    refine ⟨?_, ih hp.2⟩
    intro b' hb'
    -- b' corresponds to some a' in l
    have : ∃ a' ∈ l, R a' b' := by
      clear ih hp
      induction hrest with
      | nil => simp at hb'
      | cons h1 _ ih2 =>
        rcases List.mem_cons.mp hb' with rfl | hb'
        · exact ⟨_, List.mem_cons_self, h1⟩
        · obtain ⟨x, hx, hr⟩ := ih2 hb'
          exact ⟨x, List.mem_cons_of_mem _ hx, hr⟩
    obtain ⟨a', ha', hr'⟩ := this
    exact hST a b a' b' hh hr' (hp.1 a' ha')

theorem Forall2.exists_of_mem_left {α β} {R : α → β → Prop} : ∀ {l : List α} {l' : List β}, Forall2 R l l' →
    ∀ a ∈ l, ∃ b ∈ l', R a b := by
  intro l l' h
  induction h with
  | nil => intro a ha; simp at ha
  | cons hr _ ih =>
    intro a ha
    rcases List.mem_cons.mp ha with rfl | ha
    · exact ⟨_, List.mem_cons_self, hr⟩
    · obtain ⟨b, hb, hrb⟩ := ih a ha
      exact ⟨b, List.mem_cons_of_mem _ hb, hrb⟩

theorem Forall2.append {α β} {R : α → β → Prop} : ∀ {l1 : List α} {l1' : List β} {l2 : List α} {l2' : List β},
    Forall2 R l1 l1' → Forall2 R l2 l2' → Forall2 R (l1 ++ l2) (l1' ++ l2') := by
  intro l1 l1' l2 l2' h1 h2
  induction h1 with
  | nil => exact h2
  | cons hh _ ih => exact Forall2.cons hh ih

end WnVerif
