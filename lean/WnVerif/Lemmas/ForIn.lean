/- `for … in … do` loops of the `Except` monad as monadic folds. -/
namespace WnVerif

theorem forIn_foldlM {ε α β} (f : β → α → Except ε β) : ∀ (l : List α) (init : β),
    forIn l init (fun a b => do let b' ← f b a; pure (ForInStep.yield b')) = l.foldlM f init := by
  intro l
  induction l with
  | nil => intro init; rfl
  | cons a t ih =>
    intro init
    simp only [List.forIn_cons, List.foldlM_cons, bind_assoc, pure_bind]
    congr 1
    funext b'
    exact ih b'

/-- an invariant-style rule for successful monadic folds -/
theorem foldlM_ok_induct {ε α β} (f : β → α → Except ε β) (P : List α → β → β → Prop)
    (hnil : ∀ b, P [] b b)
    (hcons : ∀ a t b b1 b', f b a = .ok b1 → t.foldlM f b1 = .ok b' → P t b1 b' → P (a :: t) b b') :
    ∀ (l : List α) (b b' : β), l.foldlM f b = .ok b' → P l b b' := by
  intro l
  induction l with
  | nil =>
    intro b b' h
    simp only [List.foldlM_nil, pure, Except.pure] at h
    cases h
    exact hnil b
  | cons a t ih =>
    intro b b' h
    simp only [List.foldlM_cons, bind, Except.bind] at h
    cases hf : f b a with
    | error e => rw [hf] at h; simp at h
    | ok b1 =>
      rw [hf] at h
      exact hcons a t b b1 b' hf h (ih b1 b' h)

end WnVerif
