/- Decimal printing and parsing of integers (`str(int)` / `int(str)`) round-trip. -/
import WnVerif.Model.Lmf
namespace WnVerif.Lmf

theorem digitVal_digitChar : ∀ k, k < 10 → digitVal (Nat.digitChar k) = some k := by decide

theorem toDigitsCore_spec : ∀ (fuel n : Nat) (ds : List Char), n < fuel →
    ∃ D, Nat.toDigitsCore 10 fuel n ds = D ++ ds ∧ D ≠ [] ∧
      ∀ acc t, readNatAux acc (D ++ t) = readNatAux (acc * 10 ^ D.length + n) t := by
  intro fuel
  induction fuel with
  | zero => intro n ds h; omega
  | succ fuel ih =>
    intro n ds h
    simp only [Nat.toDigitsCore]
    split
    · rename_i h0
      refine ⟨[Nat.digitChar (n % 10)], rfl, by simp, ?_⟩
      intro acc t
      have hn : n < 10 := by
        have := Nat.div_eq_zero_iff.mp h0
        omega
      simp only [List.cons_append, List.nil_append, readNatAux, digitVal_digitChar (n % 10) (Nat.mod_lt _ (by omega))]
      congr 1
      simp; omega
    · rename_i h0
      have hlt : n / 10 < fuel := by
        have : n / 10 < n := Nat.div_lt_self (by omega) (by omega)
        omega
      obtain ⟨D, hD, hne, hr⟩ := ih (n / 10) (Nat.digitChar (n % 10) :: ds) hlt
      refine ⟨D ++ [Nat.digitChar (n % 10)], by rw [hD]; simp, by simp, ?_⟩
      intro acc t
      rw [List.append_assoc, hr]
      simp only [List.cons_append, List.nil_append, readNatAux, digitVal_digitChar (n % 10) (Nat.mod_lt _ (by omega))]
      congr 1
      simp only [List.length_append, List.length_cons, List.length_nil, Nat.pow_succ]
      have := Nat.div_add_mod n 10
      rw [Nat.add_mul, Nat.mul_assoc]
      omega

theorem readNat_toDigits (n : Nat) : readNat (Nat.toDigits 10 n) = some n := by
  unfold Nat.toDigits
  obtain ⟨D, hD, hne, hr⟩ := toDigitsCore_spec (n + 1) n [] (by omega)
  rw [hD]
  unfold readNat
  have : (D ++ []).isEmpty = false := by
    cases D with
    | nil => exact absurd rfl hne
    | cons _ _ => rfl
  rw [this]
  simp only [Bool.false_eq_true, if_false]
  have := hr 0 []
  rw [this]
  simp [readNatAux]

theorem readInt_pos (c : Char) (t : List Char) (hc : c ≠ '-') : readInt (c :: t) = (readNat (c :: t)).map Int.ofNat := by
  unfold readInt
  split
  · rename_i heq
    simp only [List.cons.injEq] at heq
    exact absurd heq.1 hc
  · rfl

theorem readInt_showInt (i : Int) : readInt (showInt i) = some i := by
  cases i with
  | ofNat n =>
    have h := readNat_toDigits n
    show readInt (Nat.toDigits 10 n) = _
    cases hd : Nat.toDigits 10 n with
    | nil => rw [hd] at h; simp [readNat] at h
    | cons c t =>
      rw [hd] at h
      by_cases hc : c = '-'
      · subst hc
        simp [readNat, readNatAux, digitVal] at h
      · rw [readInt_pos c t hc, h]; rfl
  | negSucc n =>
    show readInt ('-' :: Nat.toDigits 10 (n + 1)) = _
    simp [readInt, readNat_toDigits (n + 1), Int.negSucc_eq]

end WnVerif.Lmf
