/- Generic lemmas about the list helpers of the relational model (`sortBy`, `dedupBy`). -/
import WnVerif.Model.Query
namespace WnVerif.Db

theorem mem_insertBy {α} (key : α → Nat) (a : α) : ∀ (l : List α) (x : α), x ∈ insertBy key a l ↔ x = a ∨ x ∈ l := by
  intro l
  induction l with
  | nil => intro x; simp [insertBy]
  | cons b t ih =>
    intro x
    simp only [insertBy]
    split
    · simp only [List.mem_cons, ih]
      constructor
      · rintro (h | h | h)
        · exact Or.inr (Or.inl h)
        · exact Or.inl h
        · exact Or.inr (Or.inr h)
      · rintro (h | h | h)
        · exact Or.inr (Or.inl h)
        · exact Or.inl h
        · exact Or.inr (Or.inr h)
    · simp

theorem mem_sortBy {α} (key : α → Nat) (l : List α) (x : α) : x ∈ sortBy key l ↔ x ∈ l := by
  unfold sortBy
  have : ∀ (l acc : List α), x ∈ l.foldl (fun acc a => insertBy key a acc) acc ↔ x ∈ acc ∨ x ∈ l := by
    intro l
    induction l with
    | nil => intro acc; simp
    | cons a t ih =>
      intro acc
      simp only [List.foldl_cons, ih, mem_insertBy, List.mem_cons]
      constructor
      · rintro ((h | h) | h)
        · exact Or.inr (Or.inl h)
        · exact Or.inl h
        · exact Or.inr (Or.inr h)
      · rintro (h | h | h)
        · exact Or.inl (Or.inr h)
        · exact Or.inl (Or.inl h)
        · exact Or.inr h
  simpa using this l []

theorem mem_dedupBy {α β} [BEq β] [LawfulBEq β] (key : α → β) : ∀ (l : List α) (x : α), x ∈ dedupBy key l → x ∈ l := by
  intro l
  induction l with
  | nil => intro x h; simp [dedupBy] at h
  | cons a t ih =>
    intro x h
    simp only [dedupBy, List.mem_cons, List.mem_filter] at h
    rcases h with h | ⟨h, _⟩
    · exact List.mem_cons.mpr (Or.inl h)
    · exact List.mem_cons_of_mem _ (ih x h)

/-- every key of the input survives de-duplication -/
theorem key_mem_dedupBy {α β} [BEq β] [LawfulBEq β] (key : α → β) : ∀ (l : List α) (x : α), x ∈ l →
    ∃ y ∈ dedupBy key l, key y = key x := by
  intro l
  induction l with
  | nil => intro x h; simp at h
  | cons a t ih =>
    intro x h
    rcases List.mem_cons.mp h with rfl | h
    · exact ⟨x, by simp [dedupBy], rfl⟩
    · obtain ⟨y, hy, hk⟩ := ih x h
      by_cases hya : key y = key a
      · exact ⟨a, by simp [dedupBy], by rw [← hk, hya]⟩
      · refine ⟨y, ?_, hk⟩
        simp only [dedupBy, List.mem_cons, List.mem_filter]
        exact Or.inr ⟨hy, by simpa using hya⟩

/-- no key occurs twice after de-duplication -/
theorem dedupBy_nodup {α β} [BEq β] [LawfulBEq β] (key : α → β) : ∀ (l : List α), ((dedupBy key l).map key).Nodup := by
  intro l
  induction l with
  | nil => simp [dedupBy]
  | cons a t ih =>
    simp only [dedupBy, List.map_cons, List.nodup_cons, List.mem_map, List.mem_filter]
    refine ⟨?_, ?_⟩
    · rintro ⟨y, ⟨_, hy⟩, hk⟩
      simp [hk] at hy
    · exact (ih.sublist (List.Sublist.map key List.filter_sublist))

end WnVerif.Db
