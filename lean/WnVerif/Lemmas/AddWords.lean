/- Towards the end-to-end refinement for words: list lemmas (sorting a sorted list), strengthened
   facts about the rows written by `_insert_entries` / `_insert_forms`. -/
import WnVerif.Model.Add
import WnVerif.Model.Query
import WnVerif.Lemmas.ForIn
import WnVerif.Lemmas.AddFrame
namespace WnVerif.Db
open WnVerif WnVerif.Doc

/-! ### `ORDER BY` on a list that is already in order -/

theorem insertBy_append_of_le {α} (key : α → Nat) (a : α) : ∀ (l : List α), (∀ x ∈ l, key x ≤ key a) →
    insertBy key a l = l ++ [a] := by
  intro l
  induction l with
  | nil => intro _; rfl
  | cons b t ih =>
    intro h
    simp only [insertBy, h b List.mem_cons_self, if_true, List.cons_append]
    rw [ih (fun x hx => h x (List.mem_cons_of_mem _ hx))]

theorem sortBy_of_sorted {α} (key : α → Nat) (l : List α) (h : l.Pairwise (fun x y => key x ≤ key y)) : sortBy key l = l := by
  unfold sortBy
  suffices ∀ (l acc : List α), (acc ++ l).Pairwise (fun x y => key x ≤ key y) →
      l.foldl (fun acc a => insertBy key a acc) acc = acc ++ l by
    simpa using this l [] (by simpa using h)
  intro l
  induction l with
  | nil => intro acc _; simp
  | cons a t ih =>
    intro acc hp
    simp only [List.foldl_cons]
    have h1 : ∀ x ∈ acc, key x ≤ key a := by
      intro x hx
      rw [List.pairwise_append] at hp
      exact hp.2.2 x hx a List.mem_cons_self
    rw [insertBy_append_of_le key a acc h1, ih (acc ++ [a]) (by simpa using hp)]
    simp

/-! ### rowid allocation -/

theorem foldr_max_ge' (l : List Nat) : ∀ x ∈ l, x ≤ l.foldr max 0 := by
  induction l with
  | nil => intro x hx; simp at hx
  | cons a t ih =>
    intro x hx
    simp only [List.foldr_cons]
    rcases List.mem_cons.mp hx with rfl | hx
    · exact Nat.le_max_left _ _
    · exact Nat.le_trans (ih x hx) (Nat.le_max_right _ _)

theorem lt_nextId (ids : List Nat) : ∀ x ∈ ids, x < nextId ids := by
  intro x hx
  have := foldr_max_ge' ids x hx
  unfold nextId
  omega

/-! ### entries: the rows of one `_insert_entries`, with order and uniqueness -/

/-- what `_insert_entries` appends for the entries `es`: row-wise correspondence, strictly increasing
rowids above every earlier rowid, and no (id, lexicon) pair used twice -/
structure EntryRows (c : Ctx) (old : List REntry) (es : List Entry) (rows : List REntry) : Prop where
  len : rows.length = es.length
  spec : ∀ i (h1 : i < es.length) (h2 : i < rows.length),
    (rows[i]).id = (es[i]).id ∧ (rows[i]).lex = c.lexid ∧ (rows[i]).md = (es[i]).md ∧
      ∃ lem, (es[i]).lemma = some lem ∧ (rows[i]).pos = lem.pos
  above : ∀ r ∈ rows, ∀ o ∈ old, o.rowid < r.rowid
  incr : rows.Pairwise (fun a b => a.rowid < b.rowid)
  fresh : ∀ r ∈ rows, ∀ o ∈ old, ¬(o.id = r.id ∧ o.lex = c.lexid)
  distinct : rows.Pairwise (fun a b => a.id ≠ b.id)

theorem entryStep_spec (c : Ctx) (db db1 : Db) (e : Entry) (h : entryStep c db e = .ok db1) :
    ∃ r, db1 = { db with entries := db.entries ++ [r] } ∧ r.id = e.id ∧ r.lex = c.lexid ∧ r.md = e.md ∧
      (∃ lem, e.lemma = some lem ∧ r.pos = lem.pos) ∧ (∀ o ∈ db.entries, o.rowid < r.rowid) ∧
      (∀ o ∈ db.entries, ¬(o.id = e.id ∧ o.lex = c.lexid)) := by
  unfold entryStep at h
  cases hl : e.lemma with
  | none => simp [hl, need, bind, Except.bind] at h
  | some lem =>
    simp only [hl, need, bind, Except.bind] at h
    split at h
    · simp [throw, throwThe, MonadExcept.throw] at h
    · rename_i hnot
      simp only [pure, Except.pure, Except.ok.injEq] at h
      refine ⟨_, h.symm, rfl, rfl, rfl, ⟨lem, rfl, rfl⟩, ?_, ?_⟩
      · intro o ho
        exact lt_nextId _ _ (List.mem_map.mpr ⟨o, ho, rfl⟩)
      · intro o ho ⟨h1, h2⟩
        apply hnot
        unfold entryRow
        have : (db.entries.find? (fun r => r.id == e.id && r.lex == c.lexid)).isSome = true := by
          rw [List.find?_isSome]
          exact ⟨o, ho, by simp [h1, h2]⟩
        simpa using this

theorem insertEntries_rows (c : Ctx) : ∀ (es : List Entry) (db db' : Db), es.foldlM (entryStep c) db = .ok db' →
    ∃ rows, db' = { db with entries := db.entries ++ rows } ∧ EntryRows c db.entries es rows := by
  intro es
  induction es with
  | nil =>
    intro db db' h
    simp only [List.foldlM_nil, pure, Except.pure, Except.ok.injEq] at h
    subst h
    exact ⟨[], by simp, ⟨rfl, by intro i h1; simp at h1, by simp, by simp, by simp, by simp⟩⟩
  | cons e t ih =>
    intro db db' h
    simp only [List.foldlM_cons, bind, Except.bind] at h
    cases h1 : entryStep c db e with
    | error x => rw [h1] at h; simp at h
    | ok db1 =>
      rw [h1] at h
      obtain ⟨r, hdb1, a1, a2, a3, a4, a5, a6⟩ := entryStep_spec c db db1 e h1
      obtain ⟨rows, hdb', hr⟩ := ih db1 db' h
      have hent : db1.entries = db.entries ++ [r] := by rw [hdb1]
      refine ⟨r :: rows, by rw [hdb', hdb1]; simp, ?_⟩
      constructor
      · simp [hr.len]
      · intro i h1' h2'
        cases i with
        | zero => exact ⟨a1, a2, a3, a4⟩
        | succ j =>
          simp only [List.getElem_cons_succ]
          exact hr.spec j (by simpa using h1') (by simpa using h2')
      · intro x hx o ho
        rcases List.mem_cons.mp hx with rfl | hx
        · exact a5 o ho
        · exact hr.above x hx o (by rw [hent]; simp [ho])
      · rw [List.pairwise_cons]
        refine ⟨?_, hr.incr⟩
        intro x hx
        exact hr.above x hx r (by rw [hent]; simp)
      · intro x hx o ho
        rcases List.mem_cons.mp hx with rfl | hx
        · rw [a1]; exact a6 o ho
        · exact hr.fresh x hx o (by rw [hent]; simp [ho])
      · rw [List.pairwise_cons]
        refine ⟨?_, hr.distinct⟩
        intro x hx hxe
        exact hr.fresh x hx r (by rw [hent]; simp) ⟨hxe, a2⟩

end WnVerif.Db
