/-
Reachability versus maximal simple chains: every node reachable from `x` lies on
a maximal simple chain from `x` (walks can be shortened to simple paths, simple
paths can be extended to maximal ones in a finite graph).
-/
import WnVerif.Lemmas.Paths
namespace WnVerif.Graph

inductive Reach (g : Adj) : Nat → Nat → Prop
  | refl (x : Nat) : Reach g x x
  | step {x y z : Nat} : Reach g x y → z ∈ g y → Reach g x z

theorem Reach.trans {g : Adj} {x y z : Nat} (h1 : Reach g x y) (h2 : Reach g y z) : Reach g x z := by
  induction h2 with
  | refl => exact h1
  | step _ hz ih => exact Reach.step ih hz

theorem chain_append_left (g : Adj) : ∀ (a b : List Nat) (x : Nat), Chain g x (a ++ b) → Chain g x a := by
  intro a
  induction a with
  | nil => intro b x _; trivial
  | cons y q ih => intro b x h; exact ⟨h.1, ih b y h.2⟩

theorem chain_snoc (g : Adj) : ∀ (p : List Nat) (x z : Nat), Chain g x p → z ∈ g (p.getLastD x) →
    Chain g x (p ++ [z]) := by
  intro p
  induction p with
  | nil => intro x z _ hz; exact ⟨by simpa using hz, trivial⟩
  | cons y q ih =>
    intro x z hc hz
    refine ⟨hc.1, ih y z hc.2 ?_⟩
    rw [List.getLastD_cons] at hz; exact hz

theorem chain_reach (g : Adj) : ∀ (p : List Nat) (x : Nat), Chain g x p → ∀ y ∈ p, Reach g x y := by
  intro p
  induction p with
  | nil => intro x _ y hy; simp at hy
  | cons z q ih =>
    intro x hc y hy
    have hxz : Reach g x z := Reach.step (Reach.refl x) hc.1
    rcases List.mem_cons.mp hy with rfl | hy
    · exact hxz
    · exact hxz.trans (ih z hc.2 y hy)

theorem getLastD_mem : ∀ (l : List Nat) (a : Nat), l.getLastD a ∈ a :: l := by
  intro l
  induction l with
  | nil => intro a; simp
  | cons b t ih => intro a; rw [List.getLastD_cons]; exact List.mem_cons_of_mem a (ih b)

/-- a walk can be shortened to a simple path -/
theorem reach_simple (g : Adj) {x y : Nat} (h : Reach g x y) :
    ∃ p, Chain g x p ∧ (x :: p).Nodup ∧ p.getLastD x = y := by
  induction h with
  | refl => exact ⟨[], trivial, by simp, rfl⟩
  | @step y z _ hz ih =>
    obtain ⟨p, hc, hn, hl⟩ := ih
    by_cases hzx : z = x
    · subst hzx; exact ⟨[], trivial, by simp, rfl⟩
    by_cases hzp : z ∈ p
    · obtain ⟨p1, p2, rfl⟩ := List.append_of_mem hzp
      refine ⟨p1 ++ [z], ?_, ?_, by simp⟩
      · have : p1 ++ z :: p2 = (p1 ++ [z]) ++ p2 := by simp
        rw [this] at hc
        exact chain_append_left g _ _ _ hc
      · have hsub : List.Sublist (x :: (p1 ++ [z])) (x :: (p1 ++ z :: p2)) := by
          refine List.Sublist.cons_cons x ?_
          refine List.Sublist.append (List.Sublist.refl p1) ?_
          exact List.Sublist.cons_cons z (List.nil_sublist p2)
        exact hn.sublist hsub
    · refine ⟨p ++ [z], chain_snoc g p x z hc (by rw [hl]; exact hz), ?_, by simp⟩
      have : x :: (p ++ [z]) = (x :: p) ++ [z] := by simp
      rw [this]
      refine List.nodup_append.mpr ⟨hn, by simp, ?_⟩
      intro a ha b hb
      simp at hb; subst hb
      rcases List.mem_cons.mp ha with rfl | ha
      · exact fun h => hzx h.symm
      · exact fun h => hzp (h ▸ ha)

/-- a simple chain can be extended to a maximal simple chain (finite graph) -/
theorem extend_to_maximal (g : Adj) (n : Nat) (hr : InRange g n) (x : Nat) :
    ∀ (k : Nat) (p : List Nat), n - p.length = k → Chain g x p → (x :: p).Nodup →
      ∃ q, MaximalSimpleChain g [x] x (p ++ q) := by
  intro k
  induction k with
  | zero =>
    intro p hk hc hn
    by_cases hall : ∀ t ∈ g (p.getLastD x), t ∈ x :: p
    · refine ⟨[], ?_⟩
      simp only [List.append_nil]
      refine ⟨hc, (List.nodup_cons.mp hn).2, ?_, ?_⟩
      · intro y hy hyx
        simp at hyx; subst hyx
        exact (List.nodup_cons.mp hn).1 hy
      · intro t ht
        rcases List.mem_cons.mp (hall t ht) with rfl | h
        · exact Or.inl (by simp)
        · exact Or.inr h
    · exfalso
      apply hall
      intro t ht
      apply Classical.byContradiction
      intro hnot
      have hc' := chain_snoc g p x t hc ht
      have hn' : (p ++ [t]).Nodup := by
        refine List.nodup_append.mpr ⟨(List.nodup_cons.mp hn).2, by simp, ?_⟩
        intro a ha b hb
        simp at hb; subst hb
        exact fun h => hnot (h ▸ List.mem_cons_of_mem x ha)
      have := nodup_lt_length (p ++ [t]) n hn' (chain_lt g n hr _ x hc')
      simp at this; omega
  | succ k ih =>
    intro p hk hc hn
    by_cases hall : ∀ t ∈ g (p.getLastD x), t ∈ x :: p
    · refine ⟨[], ?_⟩
      simp only [List.append_nil]
      refine ⟨hc, (List.nodup_cons.mp hn).2, ?_, ?_⟩
      · intro y hy hyx
        simp at hyx; subst hyx
        exact (List.nodup_cons.mp hn).1 hy
      · intro t ht
        rcases List.mem_cons.mp (hall t ht) with rfl | h
        · exact Or.inl (by simp)
        · exact Or.inr h
    · have : ∃ t, t ∈ g (p.getLastD x) ∧ t ∉ x :: p := by
        apply Classical.byContradiction
        intro hne
        apply hall
        intro t ht
        apply Classical.byContradiction
        intro hnot
        exact hne ⟨t, ht, hnot⟩
      obtain ⟨t, ht, hnot⟩ := this
      have hc' := chain_snoc g p x t hc ht
      have hn' : (x :: (p ++ [t])).Nodup := by
        have : x :: (p ++ [t]) = (x :: p) ++ [t] := by simp
        rw [this]
        refine List.nodup_append.mpr ⟨hn, by simp, ?_⟩
        intro a ha b hb
        simp at hb; subst hb
        exact fun h => hnot (h ▸ ha)
      obtain ⟨q, hq⟩ := ih (p ++ [t]) (by simp; omega) hc' hn'
      exact ⟨t :: q, by simpa using hq⟩

/-- every node reachable from `x` (other than by the empty walk) lies on a maximal simple chain -/
theorem reach_on_relPaths (g : Adj) (n : Nat) (hr : InRange g n) {x y : Nat} (h : Reach g x y)
    (hne : y ≠ x) : ∃ p ∈ relPaths g (n + 1) x, y ∈ p := by
  obtain ⟨p, hc, hn, hl⟩ := reach_simple g h
  have hp : p ≠ [] := by
    intro hp; subst hp; simp at hl; exact hne hl.symm
  obtain ⟨q, hq⟩ := extend_to_maximal g n hr x _ p rfl hc hn
  refine ⟨p ++ q, (mem_relPaths g n hr x _).mpr ⟨by simp [hp], hq⟩, ?_⟩
  have : y ∈ p := by
    rw [← hl]
    cases p with
    | nil => exact absurd rfl hp
    | cons a t => rw [List.getLastD_cons]; exact getLastD_mem t a
  exact List.mem_append_left q this

end WnVerif.Graph
