/-
Model of `wn/ic.py` (`_initialize`, `compute`) over exact rationals.
The lookup `wordnet.synsets(word)` is an input (`synsetsOf`).
-/
import WnVerif.Model.Graph
namespace WnVerif.Ic
open WnVerif.Graph

/-- nodes that receive the weight of word-synset `s`: the agenda walk of `compute`
(after the fix: one `seen` set per word synset) is the generic worklist walk with a
stack discipline; `s` and its ancestors, once each. -/
def touched (g : Adj) (n : Nat) (s : Nat) : List Nat :=
  (walkGen pushStack g (walkFuel g n [s]) [s] []).getD []

def icPos (p : String) : Option String :=
  if p == "s" then some "a"
  else if p == "n" || p == "v" || p == "a" || p == "r" then some p
  else none

structure Freq where
  /-- weight per node (only meaningful for nodes whose folded pos is an IC pos) -/
  node : Nat → Rat
  /-- totals per IC part of speech -/
  total : String → Rat

def Freq.init (smoothing : Rat) : Freq := ⟨fun _ => smoothing, fun _ => smoothing⟩

def addNode (f : Nat → Rat) (i : Nat) (w : Rat) : Nat → Rat := fun j => if j == i then f j + w else f j
def addTot (f : String → Rat) (p : String) (w : Rat) : String → Rat := fun q => if q == p then f q + w else f q

/-- contribution of one word synset -/
def addSynset (g : Adj) (n : Nat) (pos : Nat → String) (w : Rat) (fr : Freq) (s : Nat) : Freq :=
  match icPos (pos s) with
  | none => fr
  | some p =>
    { node := (touched g n s).foldl (fun f i => addNode f i w) fr.node
      total := addTot fr.total p w }

/-- one distinct corpus word with its count and `wordnet.synsets(word)` -/
def addWord (g : Adj) (n : Nat) (pos : Nat → String) (distribute : Bool)
    (fr : Freq) (wc : Nat × List Nat) : Freq :=
  let (count, syns) := wc
  if syns.isEmpty then fr else
  let w : Rat := if distribute then (count : Rat) / (syns.length : Rat) else (count : Rat)
  syns.foldl (addSynset g n pos w) fr

def compute (g : Adj) (n : Nat) (pos : Nat → String) (distribute : Bool) (smoothing : Rat)
    (words : List (Nat × List Nat)) : Freq :=
  words.foldl (addWord g n pos distribute) (Freq.init smoothing)

end WnVerif.Ic
