/-
SQLite `GLOB` (patternCompare with `*`, `?`, `[...]`) on code points, and
`find_lexicons` of `wn/_queries.py` (as repaired: a bare id is limited to the most
recently added lexicon; the limit is decided per specifier).
-/
import WnVerif.Model.Db
namespace WnVerif.Glob
open WnVerif.Db

inductive SetItem
  | lit (c : Char)
  | range (lo hi : Char)
  deriving Repr

/-- parse the body of a `[...]` class (after `[` and an optional `^`); `first` = a leading `]`
is literal.  Returns items and the rest after the closing `]`; `none` if unterminated. -/
def parseSet : (first : Bool) → (prior : Option Char) → (dash : Option Char) → List Char →
    Option (List SetItem × List Char)
  | _, _, _, [] => none
  | _, _, some lo, c :: rest =>
    if c == ']' then some ([SetItem.lit '-'], rest)
    else (parseSet false none none rest).map (fun (is, r) => (SetItem.range lo c :: is, r))
  | first, prior, none, c :: rest =>
    if c == ']' && !first then some ([], rest)
    else if c == ']' then (parseSet false none none rest).map (fun (is, r) => (SetItem.lit c :: is, r))
    else if c == '-' && prior.isSome then parseSet false none prior rest
    else (parseSet false (some c) none rest).map (fun (is, r) => (SetItem.lit c :: is, r))

def inSet (c : Char) : List SetItem → Bool
  | [] => false
  | .lit d :: is => c == d || inSet c is
  | .range lo hi :: is => (lo ≤ c && c ≤ hi) || inSet c is

def glob (fuel : Nat) : List Char → List Char → Bool
  | [], [] => true
  | [], _ :: _ => false
  | '*' :: p, s =>
    match fuel with
    | 0 => false
    | fuel+1 => glob fuel p s || (match s with | [] => false | _ :: s' => glob fuel ('*' :: p) s')
  | '?' :: p, s => (match s with | [] => false | _ :: s' => match fuel with | 0 => false | f+1 => glob f p s')
  | '[' :: p, s =>
    match s with
    | [] => false
    | c :: s' =>
      let (inv, body) := match p with | '^' :: b => (true, b) | b => (false, b)
      match parseSet true none none body with
      | none => false
      | some (items, rest) => (inSet c items != inv) && (match fuel with | 0 => false | f+1 => glob f rest s')
  | c :: p, s => (match s with | [] => false | d :: s' => c == d && (match fuel with | 0 => false | f+1 => glob f p s'))

def globL (p s : List Char) : Bool := glob (2 * (p.length + s.length) + 2) p s
def globS (p s : String) : Bool := globL p.toList s.toList

/-- `str.split()`: split on runs of whitespace -/
def isSpace (c : Char) : Bool :=
  c == ' ' || c == '\t' || c == '\n' || c == '\r' || c == '\x0b' || c == '\x0c'

def splitWs (s : List Char) : List (List Char) :=
  let rec go : List Char → List Char → List (List Char) → List (List Char)
    | [], cur, acc => (if cur.isEmpty then acc else acc ++ [cur.reverse])
    | c :: t, cur, acc =>
      if isSpace c then go t [] (if cur.isEmpty then acc else acc ++ [cur.reverse])
      else go t (c :: cur) acc
  go s [] []

/-- `ORDER BY rowid DESC LIMIT 1`: the row with the greatest rowid -/
def pickLast : List RLexicon → Option RLexicon
  | [] => none
  | r :: t => match pickLast t with
    | none => some r
    | some x => if x.rowid < r.rowid then some r else some x

/-- the `WHERE` clause of `find_lexicons` for one specifier -/
def specPattern (spec : List Char) : List Char := if spec.contains ':' then spec else spec ++ [':', '*']

def specMatches (spec : List Char) (lang : Option String) (r : RLexicon) : Bool :=
  globL (specPattern spec) (r.id ++ ":" ++ r.version).toList &&
  (match lang with | none => true | some l => r.language == l)

/-- rows selected by one specifier: a bare id (no `*`, no `:`) is limited to the most recently
added matching lexicon -/
def matchSpecifier (db : Db) (spec : List Char) (lang : Option String) : List RLexicon :=
  let rows := db.lexicons.filter (specMatches spec lang)
  if spec.contains '*' || spec.contains ':' then rows
  else match pickLast rows with
    | some r => [r]
    | none => []

/-- `find_lexicons(lexicon, lang)`: `none` = `wn.Error` (nothing found although the request
specifies something) -/
def findLexicons (db : Db) (lexicon : String) (lang : Option String) : Option (List RLexicon) :=
  let rows := (splitWs lexicon.toList).flatMap (fun sp => matchSpecifier db sp lang)
  if rows.isEmpty && (lexicon != "*" || lang.isSome) then none else some rows

end WnVerif.Glob
