/-
WN-LMF documents in the loader's normal form: one structure per `TypedDict` of
`wn/lmf.py`.  "Absent" (`none` / `[]`) and present are distinct where the code
distinguishes them.  `md` is the `meta` dictionary (`meta` is a reserved word).
-/
namespace WnVerif.Doc

abbrev Meta := List (String × String)

structure Pron where
  text : String
  variety : Option String := none
  notat : Option String := none
  phonemic : Option Bool := none     -- absent ≠ explicitly true
  audio : Option String := none
  deriving DecidableEq, Repr, Inhabited

structure Tag where
  text : String
  category : String
  deriving DecidableEq, Repr, Inhabited

structure Lemma where
  external : Bool := false
  form : String := ""
  pos : String := ""
  script : Option String := none
  prons : List Pron := []
  tags : List Tag := []
  deriving DecidableEq, Repr, Inhabited

structure Form where
  external : Bool := false
  id : Option String := none
  form : String := ""
  script : Option String := none
  prons : List Pron := []
  tags : List Tag := []
  deriving DecidableEq, Repr, Inhabited

structure Relation where
  target : String
  relType : String
  md : Option Meta := none
  deriving DecidableEq, Repr, Inhabited

structure Example where
  text : String
  language : Option String := none
  md : Option Meta := none
  deriving DecidableEq, Repr, Inhabited

structure Count where
  value : Int
  md : Option Meta := none
  deriving DecidableEq, Repr, Inhabited

structure Sense where
  external : Bool := false
  id : String
  synset : String := ""
  md : Option Meta := none
  relations : List Relation := []
  examples : List Example := []
  counts : List Count := []
  lexicalized : Option Bool := none
  adjposition : Option String := none
  subcat : List String := []
  deriving DecidableEq, Repr, Inhabited

structure Definition where
  text : String
  language : Option String := none
  sourceSense : Option String := none
  md : Option Meta := none
  deriving DecidableEq, Repr, Inhabited

structure IliDef where
  text : String
  md : Option Meta := none
  deriving DecidableEq, Repr, Inhabited

structure Synset where
  external : Bool := false
  id : String
  ili : String := ""
  pos : Option String := none
  md : Option Meta := none
  iliDef : Option IliDef := none
  definitions : List Definition := []
  relations : List Relation := []
  examples : List Example := []
  lexicalized : Option Bool := none
  members : List String := []
  lexfile : Option String := none
  deriving DecidableEq, Repr, Inhabited

structure Frame where
  id : Option String := none
  frame : String
  senses : List String := []
  deriving DecidableEq, Repr, Inhabited

structure Entry where
  external : Bool := false
  id : String
  md : Option Meta := none
  lemma : Option Lemma := none
  forms : List Form := []
  senses : List Sense := []
  frames : List Frame := []
  deriving DecidableEq, Repr, Inhabited

structure Dep where
  id : String
  version : String
  url : Option String := none
  deriving DecidableEq, Repr, Inhabited

structure Lexicon where
  id : String
  version : String
  label : String
  language : String
  email : String
  license : String
  url : Option String := none
  citation : Option String := none
  logo : Option String := none
  md : Option Meta := none
  ext : Option Dep := none
  requires : List Dep := []
  entries : List Entry := []
  synsets : List Synset := []
  frames : List Frame := []
  deriving DecidableEq, Repr, Inhabited

structure Resource where
  version : String
  lexicons : List Lexicon
  deriving DecidableEq, Repr, Inhabited

def Lexicon.spec (l : Lexicon) : String := l.id ++ ":" ++ l.version

/-- local (non-external) parts, as `_local_entries` / `_local_senses` / `_local_synsets` -/
def localEntries (l : Lexicon) : List Entry := l.entries.filter (fun e => !e.external)
def localSenses (e : Entry) : List Sense := e.senses.filter (fun s => !s.external)
def localSynsets (l : Lexicon) : List Synset := l.synsets.filter (fun s => !s.external)

end WnVerif.Doc
