/-
Model of `wn/validate.py`: the eighteen checks as written (Counters, dict
comprehensions with last-wins keys), `_select_checks`, `validate`.  The relation
inventories and `REVERSE_RELATIONS` are the tables regenerated from `constants.py`.
-/
import WnVerif.Model.Doc
import WnVerif.Gen.Constants
namespace WnVerif.Validate
open WnVerif.Doc

/-- context values of a report item -/
inductive Val
  | str (s : String)
  | num (n : Nat)
  | ilidef (d : IliDef)
  deriving DecidableEq, Repr

abbrev Ctx := List (String × Val)
/-- a check result: Python dict `id ↦ context` (insertion order of first occurrence, last value) -/
abbrev Result := List (String × Ctx)

def dictSet {α} (d : List (String × α)) (k : String) (v : α) : List (String × α) :=
  if d.any (fun e => e.1 == k) then d.map (fun e => if e.1 == k then (k, v) else e) else d ++ [(k, v)]

def dictOf {α} (pairs : List (String × α)) : List (String × α) :=
  pairs.foldl (fun d p => dictSet d p.1 p.2) []

/-- `Counter(iterable)` as an association list in first-occurrence order -/
def counter {κ} [BEq κ] (l : List κ) : List (κ × Nat) :=
  l.foldl (fun c x => if c.any (fun e => e.1 == x) then c.map (fun e => if e.1 == x then (e.1, e.2 + 1) else e) else c ++ [(x, 1)]) []

/-- `_multiples`: elements occurring more than once, with their count -/
def multiples {κ} [BEq κ] (l : List κ) : List (κ × Nat) := (counter l).filter (fun e => e.2 > 1)

def truthy (o : Option String) : Bool := match o with | some s => s != "" | none => false

def senseRels (l : Lexicon) : List (Sense × Relation) :=
  l.entries.flatMap (fun e => e.senses.flatMap (fun s => s.relations.map (fun r => (s, r))))
def synsetRels (l : Lexicon) : List (Synset × Relation) :=
  l.synsets.flatMap (fun ss => ss.relations.map (fun r => (ss, r)))

def entryIds (l : Lexicon) : List String := l.entries.map (·.id)
def senseIds (l : Lexicon) : List String := l.entries.flatMap (fun e => e.senses.map (·.id))
def synsetIds (l : Lexicon) : List String := l.synsets.map (·.id)

def dcType (r : Relation) : Option String :=
  match r.md with
  | some m => (m.find? (fun kv => kv.1 == "type")).map (·.2)
  | none => none

def relCtx (r : Relation) : Ctx := [("type", .str r.relType), ("target", .str r.target)]

/-- all-whitespace test of `text.strip() == ""` -/
def blank (s : String) : Bool := s.toList.all (fun c => c == ' ' || c == '\t' || c == '\n' || c == '\r' || c == '\x0b' || c == '\x0c')

def lemmaForm (e : Entry) : String := (e.lemma.map (·.form)).getD ""

def E101 (l : Lexicon) : Result :=
  let all := [l.id] ++
    l.entries.flatMap (fun e => e.forms.filterMap (fun f => if truthy f.id then f.id else none)) ++
    l.frames.filterMap (fun f => if truthy f.id then f.id else none) ++
    -- Counter.elements(): grouped by element in first-occurrence order
    (counter (entryIds l)).flatMap (fun e => List.replicate e.2 e.1) ++
    (counter (senseIds l)).flatMap (fun e => List.replicate e.2 e.1) ++
    (counter (synsetIds l)).flatMap (fun e => List.replicate e.2 e.1)
  (multiples all).map (fun e => (e.1, [("count", .num e.2)]))

def W201 (l : Lexicon) : Result := dictOf ((l.entries.filter (fun e => e.senses.isEmpty)).map (fun e => (e.id, [])))

def W202 (l : Lexicon) : Result :=
  dictOf (l.entries.flatMap (fun e =>
    let red := (multiples (e.senses.map (·.synset))).map (·.1)
    (e.senses.filter (fun s => red.contains s.synset)).map (fun s =>
      (s.id, [("entry", Val.str e.id), ("synset", Val.str s.synset)]))))

def W203 (l : Lexicon) : Result :=
  dictOf ((multiples (l.entries.flatMap (fun e => e.senses.map (fun s => (lemmaForm e, s.synset))))).map
    (fun e => (e.1.1, [("synset", Val.str e.1.2)])))

def E204 (l : Lexicon) : Result :=
  dictOf (l.entries.flatMap (fun e => (e.senses.filter (fun s => !(synsetIds l).contains s.synset)).map
    (fun s => (s.id, [("synset", Val.str s.synset)]))))

def W301 (l : Lexicon) : Result :=
  let used := l.entries.flatMap (fun e => e.senses.map (·.synset))
  dictOf ((l.synsets.filter (fun ss => !used.contains ss.id)).map (fun ss => (ss.id, [])))

def W302 (l : Lexicon) : Result :=
  let rep := (multiples ((l.synsets.filter (fun ss => ss.ili != "" && ss.ili != "in")).map (·.ili))).map (·.1)
  dictOf ((l.synsets.filter (fun ss => rep.contains ss.ili)).map (fun ss => (ss.id, [("ili", Val.str ss.ili)])))

def W303 (l : Lexicon) : Result :=
  dictOf ((l.synsets.filter (fun ss => ss.ili == "in" && ss.iliDef.isNone)).map (fun ss => (ss.id, [])))

def W304 (l : Lexicon) : Result :=
  dictOf (l.synsets.filterMap (fun ss =>
    match ss.iliDef with
    | some d => if ss.ili != "" && ss.ili != "in" then some (ss.id, [("ili_definitin", Val.ilidef d)]) else none
    | none => none))

def W305 (l : Lexicon) : Result :=
  dictOf ((l.synsets.filter (fun ss => ss.definitions.any (fun d => blank d.text))).map (fun ss => (ss.id, [])))
def W306 (l : Lexicon) : Result :=
  dictOf ((l.synsets.filter (fun ss => ss.examples.any (fun d => blank d.text))).map (fun ss => (ss.id, [])))

def W307 (l : Lexicon) : Result :=
  let rep := (multiples (l.synsets.flatMap (fun ss => ss.definitions.map (·.text)))).map (·.1)
  dictOf ((l.synsets.filter (fun ss => ss.definitions.any (fun d => rep.contains d.text))).map (fun ss => (ss.id, [])))

def E401 (l : Lexicon) : Result :=
  dictOf (
    ((senseRels l).filter (fun p => !(senseIds l).contains p.2.target && !(synsetIds l).contains p.2.target)).map
      (fun p => (p.1.id, relCtx p.2)) ++
    ((synsetRels l).filter (fun p => !(synsetIds l).contains p.2.target)).map (fun p => (p.1.id, relCtx p.2)))

def W402 (l : Lexicon) : Result :=
  dictOf (
    ((senseRels l).filter (fun p =>
      ((senseIds l).contains p.2.target && !Gen.sense_relations.contains p.2.relType) ||
      ((synsetIds l).contains p.2.target && !Gen.sense_synset_relations.contains p.2.relType))).map
      (fun p => (p.1.id, relCtx p.2)) ++
    ((synsetRels l).filter (fun p => !Gen.synset_relations.contains p.2.relType)).map (fun p => (p.1.id, relCtx p.2)))

def W403 (l : Lexicon) : Result :=
  let keys := (senseRels l).map (fun p => (p.1.id, p.2.relType, p.2.target, dcType p.2)) ++
              (synsetRels l).map (fun p => (p.1.id, p.2.relType, p.2.target, dcType p.2))
  dictOf ((multiples keys).map (fun e =>
    let (src, typ, tgt, dc) := e.1
    (src, [("type", Val.str typ), ("target", Val.str tgt)] ++
      (match dc with | some d => if d != "" then [("dc:type", Val.str d)] else [] | none => []))))

def reverseOf (t : String) : Option String := (Gen.reverse_relations.find? (fun e => e.1 == t)).map (·.2)

/-- order-preserving de-duplication of triples (the dict-as-set `regular`) -/
def dedupTriples : List (String × String × String) → List (String × String × String)
  | [] => []
  | a :: t => a :: (dedupTriples t).filter (fun b => !(b == a))

def W404 (l : Lexicon) : Result :=
  let regular := dedupTriples (
    ((senseRels l).filter (fun p => (senseIds l).contains p.2.target)).map (fun p => (p.1.id, p.2.relType, p.2.target)) ++
    (synsetRels l).map (fun p => (p.1.id, p.2.relType, p.2.target)))
  dictOf (regular.filterMap (fun (src, typ, tgt) =>
    match reverseOf typ with
    | some rev => if regular.contains (tgt, rev, src) then none
                  else some (tgt, [("type", Val.str rev), ("target", Val.str src)])
    | none => none))

def W501 (l : Lexicon) : Result :=
  -- `sspos` is a dict: the last synset with an id wins
  let posOf (id : String) : Option (Option String) := ((l.synsets.filter (fun ss => ss.id == id)).getLast?).map (·.pos)
  dictOf ((synsetRels l).filterMap (fun p =>
    if p.2.relType == "hypernym" then
      match posOf p.2.target with
      | some tp => if p.1.pos != tp then some (p.1.id, relCtx p.2) else none
      | none => none
    else none))

def W502 (l : Lexicon) : Result :=
  dictOf (
    ((senseRels l).filter (fun p => p.1.id == p.2.target)).map (fun p => (p.1.id, relCtx p.2)) ++
    ((synsetRels l).filter (fun p => p.1.id == p.2.target)).map (fun p => (p.1.id, relCtx p.2)))

/-- `_codes` in source order -/
def codes : List (String × (Lexicon → Result)) := [
  ("E101", E101), ("W201", W201), ("W202", W202), ("W203", W203), ("E204", E204),
  ("W301", W301), ("W302", W302), ("W303", W303), ("W304", W304), ("W305", W305),
  ("W306", W306), ("W307", W307), ("E401", E401), ("W402", W402), ("W403", W403),
  ("W404", W404), ("W501", W501), ("W502", W502)]

/-- `_select_checks`: a code is selected by itself or by its category letter -/
def selected (select : List String) (code : String) : Bool :=
  select.contains code || select.contains (code.take 1).toString

/-- `validate(lex, select)`: extensions are not validated (empty report) -/
def validate (l : Lexicon) (select : List String) : List (String × Result) :=
  if l.ext.isSome then [] else
  (codes.filter (fun c => selected select c.1)).map (fun c => (c.1, c.2 l))

end WnVerif.Validate
