/-
Model of the graph functions of `wn/_core.py` (`_Relatable.relation_paths`,
`closure`) and `wn/taxonomy.py`.  Core Lean only.

Nodes are synsets of one lexicon, numbered in rowid order.  The simulated root
of `taxonomy._hypernym_paths` is `none : Option Nat`.
-/
namespace WnVerif.Graph

abbrev Adj := Nat → List Nat

/-- `relation_paths` below the first level: all ways to extend a path ending in
`x` (visited nodes `vis`) to a maximal simple chain.  `[[]]` when `x` has no
unvisited successor (the path ends here). -/
def extend (g : Adj) : Nat → List Nat → Nat → List (List Nat)
  | 0, _, _ => []
  | fuel+1, vis, x =>
    let nxt := (g x).filter (fun t => !vis.contains t)
    if nxt.isEmpty then [[]]
    else nxt.flatMap (fun t => (extend g fuel (t :: vis) t).map (t :: ·))

/-- `_Relatable.relation_paths(*args)` with `end=None`: the initial agenda holds
one entry per related target other than the source itself and is popped from
the end, deeper levels are pushed reversed; the resulting order is: top level
reversed, deeper levels in `get_related` order. -/
def relPaths (g : Adj) (fuel : Nat) (x : Nat) : List (List Nat) :=
  ((g x).filter (fun t => t != x)).reverse.flatMap
    (fun t => (extend g fuel [t, x] t).map (t :: ·))

/-- Generic worklist walk with a global visited list: the shape shared by
`_Relatable.closure` (queue: `push q new = q ++ new`) and by the ancestor walk of
`ic.compute` (stack: `push q new = new.reverse ++ q`).  Returns the visited nodes,
most recently discovered first; `none` if the fuel runs out (never for the fuel
used by the callers, see `Lemmas/Walk.lean`). -/
def walkGen (push : List Nat → List Nat → List Nat) (g : Adj) :
    Nat → List Nat → List Nat → Option (List Nat)
  | _, [], seen => some seen
  | 0, _ :: _, _ => none
  | fuel+1, x :: q, seen =>
    if seen.contains x then walkGen push g fuel q seen
    else walkGen push g fuel (push q (g x)) (x :: seen)

def pushQueue (q new : List Nat) : List Nat := q ++ new
def pushStack (q new : List Nat) : List Nat := new.reverse ++ q

/-- fuel that always suffices for a graph on `n` nodes and an initial agenda `q0` -/
def walkFuel (g : Adj) (n : Nat) (q0 : List Nat) : Nat :=
  q0.length + ((List.range n).map (fun x => 1 + (g x).length)).sum + 1

/-- `_Relatable.closure` (after the fix: visited by entity): entities in the order
they are yielded. -/
def closure (g : Adj) (n : Nat) (x : Nat) : Option (List Nat) :=
  (walkGen pushQueue g (walkFuel g n (g x)) (g x) []).map List.reverse

/-! ### taxonomy.py -/

abbrev N := Option Nat   -- `none` is the fake root `*ROOT*`

/-- `_hypernym_paths(synset, simulate_root, include_self)` -/
def hypPaths (g : Adj) (fuel : Nat) (x : N) (simRoot inclSelf : Bool) : List (List N) :=
  let base : List (List N) := match x with
    | none => []          -- the fake root has no relations
    | some i => (relPaths g fuel i).map (·.map some)
  let p1 := if inclSelf then (if base.isEmpty then [[x]] else base.map (x :: ·)) else base
  if simRoot && x != none then
    (if p1.isEmpty then [[none]] else p1.map (· ++ [none]))
  else p1

def listMin (l : List Nat) : Nat := match l with
  | [] => 0
  | a :: t => t.foldl min a
def listMax (l : List Nat) : Nat := l.foldl max 0

def minDepth (g : Adj) (fuel : Nat) (x : Nat) (simRoot : Bool) : Nat :=
  listMin ((hypPaths g fuel (some x) simRoot false).map List.length)
def maxDepth (g : Adj) (fuel : Nat) (x : N) (simRoot : Bool) : Nat :=
  listMax ((hypPaths g fuel x simRoot false).map List.length)

/-- order-preserving de-duplication -/
def dedup {α} [BEq α] : List α → List α
  | [] => []
  | a :: t => a :: (dedup t).filter (fun b => !(b == a))

def nkey : N → Nat
  | none => 0
  | some i => i + 1

/-- insertion sort by `nkey` (Python's `sorted` on synsets: by rowid; the fake
root has rowid 0) -/
def insertN (a : N) : List N → List N
  | [] => [a]
  | b :: t => if nkey a ≤ nkey b then a :: b :: t else b :: insertN a t
def sortN (l : List N) : List N := l.foldr insertN []

/-- the `common` set of `_shortest_hyp_paths` / `common_hypernyms`, sorted -/
def commonOf (fromSelf fromOther : List (List N)) : List N :=
  let a := dedup fromSelf.flatten
  let b := fromOther.flatten
  sortN (a.filter (fun s => b.contains s))

def commonHypernyms (g : Adj) (fuel : Nat) (a b : N) (simRoot : Bool) : List N :=
  commonOf (hypPaths g fuel a simRoot true) (hypPaths g fuel b simRoot true)

/-- first element of minimal length (`min(xs, key=len)`) -/
def minByLen {α} : List (List α) → List α
  | [] => []
  | a :: t => t.foldl (fun m p => if p.length < m.length then p else m) a

/-- position of `s` in `p` -/
def idxOf (s : N) : List N → Option Nat
  | [] => none
  | a :: t => if a == s then some 0 else (idxOf s t).map (· + 1)

/-- sub-paths `path[:dist+1]` of every path containing `s` -/
def subpathsTo (paths : List (List N)) (s : N) : List (List N) :=
  paths.filterMap (fun p => (idxOf s p).map (fun d => p.take (d + 1)))

/-- `len(path) - dist - 1` maximised over all paths (both sides) containing `s` -/
def depthOf (paths : List (List N)) (s : N) : Nat :=
  listMax (paths.filterMap (fun p => (idxOf s p).map (fun d => p.length - d - 1)))

/-- `_shortest_hyp_paths`: association list `((ss, depth), path)` in dict order -/
def shortestHypPaths (g : Adj) (fuel : Nat) (a b : N) (simRoot : Bool) :
    List ((N × Nat) × List N) :=
  if a == b then [((a, 0), [])] else
  let fs := hypPaths g fuel a simRoot true
  let fo := hypPaths g fuel b simRoot true
  let common := commonOf fs fo
  common.map (fun s =>
    let sSelf := minByLen (subpathsTo fs s)
    let sOther := (minByLen (subpathsTo fo s)).reverse.drop 1   -- `[-2::-1]`
    ((s, depthOf (fs ++ fo) s), sSelf ++ sOther))

/-- `shortest_path`; `none` = `wn.Error` -/
def shortestPath (g : Adj) (fuel : Nat) (a b : N) (simRoot : Bool) : Option (List N) :=
  match shortestHypPaths g fuel a b simRoot with
  | [] => none
  | e :: t =>
    let best := t.foldl (fun m p => if p.2.length < m.2.length then p else m) e
    some (best.2.drop 1)

def lowestCommonHypernyms (g : Adj) (fuel : Nat) (a b : N) (simRoot : Bool) : List N :=
  let pm := shortestHypPaths g fuel a b simRoot
  match pm with
  | [] => []
  | _ =>
    let md := listMax (pm.map (·.1.2))
    (pm.filter (fun e => e.1.2 == md)).map (·.1.1)

/-- `_synsets_for_pos`: synsets with that pos in rowid order, then (for a/s) the
other adjective class -/
def synsetsForPos (n : Nat) (pos : Nat → String) (p : String) : List Nat :=
  let of (q : String) := (List.range n).filter (fun i => pos i == q)
  if p == "a" then of "a" ++ of "s"
  else if p == "s" then of "s" ++ of "a"
  else of p

def roots (g : Adj) (n : Nat) (pos : Nat → String) (p : String) : List Nat :=
  (synsetsForPos n pos p).filter (fun i => (g i).isEmpty)
def leaves (hypo : Adj) (n : Nat) (pos : Nat → String) (p : String) : List Nat :=
  (synsetsForPos n pos p).filter (fun i => (hypo i).isEmpty)

/-- `taxonomy_depth` with its `seen` shortcut, as written -/
def taxonomyDepth (g : Adj) (fuel : Nat) (n : Nat) (pos : Nat → String) (p : String) : Nat :=
  let step (st : List Nat × Nat) (i : Nat) : List Nat × Nat :=
    let (seen, depth) := st
    if (g i).all (fun h => seen.contains h) then st
    else
      let paths := relPaths g fuel i
      if paths.isEmpty then st
      else (paths.flatten ++ seen, max depth (listMax (paths.map List.length)))
  ((synsetsForPos n pos p).foldl step ([], 0)).2

/-- the graph-theoretic longest hypernym chain (in edges) of a part of speech:
what `taxonomy_depth` is specified to be -/
def longestChain (g : Adj) (fuel : Nat) (n : Nat) (pos : Nat → String) (p : String) : Nat :=
  listMax ((synsetsForPos n pos p).map (fun i => listMax ((relPaths g fuel i).map List.length)))

end WnVerif.Graph
