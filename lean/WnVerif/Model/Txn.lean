/-
Transaction bracket of add / remove (`with connect() as conn:` in `_add_lexical_resource`,
`with conn:` per matched lexicon in `remove`) and the classifier used on recorded SQL
statement streams.  SQLite's own rollback and Python's sqlite3 context manager are trusted;
the model is about the bracket structure.
-/
namespace WnVerif.Txn

/-- abstract database state: any type; statements are state transformers that may fail -/
structure Conn (σ : Type) where
  committed : σ
  working : Option σ      -- inside a transaction: the uncommitted state
  deriving Repr

inductive Ev (σ : Type) where
  | write (f : σ → Option σ)   -- a data-modifying statement; `none` = the statement raises
  | commit
  | rollback

/-- one event: Python's sqlite3 opens a transaction implicitly before the first write;
a failing statement raises (the caller's `with` block then rolls back) -/
def step {σ} (c : Conn σ) : Ev σ → Option (Conn σ)
  | .write f =>
    let cur := c.working.getD c.committed
    match f cur with
    | some s => some { c with working := some s }
    | none => none
  | .commit => some { committed := c.working.getD c.committed, working := none }
  | .rollback => some { c with working := none }

/-- `with conn: body`: run the statements; commit if all succeed, roll back at the first failure
(an exception raised between statements — e.g. by a progress handler — is a failing event) -/
def bracket {σ} (c : Conn σ) (body : List (σ → Option σ)) : Conn σ × Bool :=
  let rec go (c : Conn σ) : List (σ → Option σ) → Conn σ × Bool
    | [] => ((step c .commit).getD c, true)
    | f :: rest =>
      match step c (.write f) with
      | some c' => go c' rest
      | none => ((step c .rollback).getD c, false)
  go c body

/-- `remove`: one `with conn:` bracket per matched lexicon (its extensions and the lexicon itself),
in order; the first failing bracket ends the loop (the exception propagates) -/
def brackets {σ} (c : Conn σ) : List (List (σ → Option σ)) → Conn σ × Bool
  | [] => (c, true)
  | b :: rest =>
    let r := bracket c b
    if r.2 then brackets r.1 rest else r

/-! ### classification of a recorded statement stream -/

inductive Kind
  | begin_ | commit | rollback | write | other
  deriving DecidableEq, Repr

def startsWithCI (s pre : String) : Bool :=
  (s.trimAsciiStart.toString.take pre.length).toString.toUpper == pre

def classify (stmt : String) : Kind :=
  if startsWithCI stmt "BEGIN" then .begin_
  else if startsWithCI stmt "COMMIT" then .commit
  else if startsWithCI stmt "ROLLBACK" then .rollback
  else if startsWithCI stmt "INSERT" || startsWithCI stmt "UPDATE" || startsWithCI stmt "DELETE" ||
          startsWithCI stmt "REPLACE" then .write
  else .other

/-- the operation's writes form exactly `units` transactions: every write lies inside a
BEGIN … COMMIT/ROLLBACK bracket, no COMMIT separates two writes of one unit.  Returns the
number of brackets that contained a write, or `none` if a write happened outside a bracket. -/
def countUnits : List Kind → Bool → Bool → Nat → Option Nat
  | [], inTx, wrote, n => if inTx && wrote then none else some n     -- a transaction left open
  | k :: rest, inTx, wrote, n =>
    match k with
    | .begin_ => countUnits rest true false n
    | .commit => countUnits rest false false (if wrote then n + 1 else n)
    | .rollback => countUnits rest false false (if wrote then n + 1 else n)
    | .write => if inTx then countUnits rest true true n else none
    | .other => countUnits rest inTx wrote n

def traceUnits (stmts : List String) : Option Nat := countUnits (stmts.map classify) false false 0

/-- an add is atomic when all its writes are in one bracket; a remove of `k` lexicons uses `k` -/
def traceAtomic (stmts : List String) (expectedUnits : Nat) : Bool :=
  match traceUnits stmts with
  | some n => n ≤ expectedUnits
  | none => false

end WnVerif.Txn
